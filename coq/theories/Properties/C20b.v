(* Properties/C20b.v — the web handler END TO END (audit item 7).  Statements only.

   Properties/C20.v proves the decision table of Web.handler relative to an
   ABSTRACT oracle scan_fails.  Here the handler is composed with what it
   really calls (Model/WebPage.v):

     handler_page W dump method maxmem augment similarity : response
       = parameter validation (same order as the Go code)
       ; capture maxmem |dump|            the grow-and-retry loop: buf = firstn n dump
       ; scan_snapshot true (bytes.Reader of buf)  + guessPaths (+ augment oracle)
       ; err != nil && err != io.EOF  ->  500
       ; similarity                    ->  400
       ; aggregate ; render_page_buckets (footer "")          ->  200 + body

   dump = the bytes runtime.Stack(buf, true) writes into an unbounded buffer;
   W : web_env = DefaultOpts (GOROOT, GOPATHs), the disk, the oracles
   (we_augment : per-goroutine effect of Snapshot.augment; we_shuffle : map
   order inside Aggregate) and the page environment.
   response = Reply status body | Crash msg (the handler panics).

   Vocabulary: maxmem_is / maxmem_bad / augment_is / augment_bad /
   similarity_is / similarity_bad: Properties/C20.v;  wf_dump, print_dump,
   snapshot_of: Properties/C01.v;  page_counts, total_calls, elided_stacks,
   meta_items: Properties/C17c.v;
     scan_fails_concrete W dump m a   snapshot(m, opts) returns an error
     captured_bytes m dump            Some (firstn n dump), n from capture
     found_goroutines cap             the goroutines ScanSnapshot finds in cap
                                      (NameArguments on), None = nil *Snapshot
     finish_snapshot W a gs           guessPaths, then (a) the augment oracle:
                                      metadata + goroutines of the *Snapshot
     handler_env W                    the page environment with footer ""
     heading i b                      the five template pieces
                                      LF <h1>Signature #  i  ": "  |IDs b|  " routine"
     http_error st msg                Reply st (msg ++ LF)

   FINDINGS
   1. Status precedence (Go lines): 405 (webstack.go:47) > 400 maxmem (:55) >
      400 augment (:63) > 500 snapshot (:72) > 400 similarity (:88).  The model
      Web.handler has the SAME order as the code: an invalid similarity
      together with a failing snapshot is answered 500, not 4xx
      (C20b_invalid_similarity_4xx_refuted).  "invalid => 4xx" is true for
      method, maxmem and augment unconditionally, for similarity only when
      the snapshot did not fail (C20b_invalid_params).
   2. A reachable PANIC that Web.handler reports as 200: when ScanSnapshot
      finds no goroutine it returns a nil *Snapshot and io.EOF (context.go:207),
      snapshot() turns io.EOF into nil (webstack.go:123), the handler calls
      c.Aggregate on nil (webstack.go:93 -> bucket.go:51: range s.Goroutines):
      nil pointer dereference.  With a live runtime.Stack this needs a first
      header line longer than the buffer (>= 1 MiB): C20b_truncated says the
      captured bytes then contain no line feed at all.  C20b_refines_table:
      the status of handler_page IS Web.handler's, except exactly there.
   3. Opts.isValid: a backslash in GOROOT/GOPATH makes ScanSnapshot return
      "invalid Opts" (not io.EOF): every valid GET is then answered 500.
   4. Truncation: "500, or a page of exactly the goroutines complete before the
      cut" is FALSE (C20b_truncated_exact_refuted): a cut inside a goroutine
      is often accepted (a partial "created by" line, a truncated line number,
      a goroutine without its last frames) and the page shows that partial
      goroutine as the last one.  True: all the goroutines of the page BUT THE
      LAST are goroutines of the dump, in order, bit for bit (before
      NameArguments), and the displayed counts add up to their number. *)
From PP Require Import Base.Bytes Base.BytesX Base.Num Base.GoResult Model.Types Model.Reader Model.Scan
  Model.Names Model.ScanSnapshot Model.Bucket Model.Paths Model.Html Model.UI Model.HtmlDoc Model.HtmlTpl Model.HtmlPage
  Model.Web Model.WebPage.
From PP Require Import Spec.ReaderSpec Spec.Printer.
From PP Require Import Proofs.HtmlBase Proofs.HtmlProofs Proofs.HtmlDocProofs Proofs.HtmlPageProofs Proofs.WebProofs
  Proofs.WebPageProofs.
From Coq Require Import String.

(* ------------------------------------------------------------------ *)
(* 1. the composed handler refines the decision table                   *)
(* ------------------------------------------------------------------ *)

(* Every answer has the status Web.handler computes when its oracle is the
   concrete scan_fails_concrete W dump: all the table theorems of C20 apply.
   The only other outcome is the nil dereference of finding 2, where
   Web.handler says 200. *)
Theorem C20b_refines_table : forall W dump method mm au sim,
  match handler_page W dump method mm au sim with
  | Reply st _ => st = handler method mm au sim (scan_fails_concrete W dump)
  | Crash msg =>
      msg = nil_deref /\ opts_valid W = true /\
      exists l a m cap,
        handler method mm au sim (scan_fails_concrete W dump) = S200 l a m /\
        captured_bytes m dump = Some cap /\ found_goroutines cap = None
  end.
Proof. exact WebPageProofs.refines_table. Qed.
Print Assumptions C20b_refines_table.

(* the oracle, concretely: snapshot() fails iff the options are invalid or the
   scanner rejected a line of the captured bytes (C10_error says which) *)
Theorem C20b_scan_fails_iff : forall W dump m a cap, captured_bytes m dump = Some cap ->
  (scan_fails_concrete W dump m a = true <->
   opts_valid W = false \/
   exists res x, scan_snapshot true (bytes_reader cap) = Ok res /\ rerr_out res = EScan x).
Proof. exact WebPageProofs.scan_fails_iff. Qed.
Print Assumptions C20b_scan_fails_iff.

(* the bodies: http.Error messages, or the page of the goroutines found in the captured bytes *)
Theorem C20b_reply_bodies : forall W dump method mm au sim st body,
  handler_page W dump method mm au sim = Reply st body ->
  match st with
  | S405 => body = s2b msg_method ++ [LF]
  | S500 => body = s2b msg_snapshot ++ [LF]
  | S400 => body = s2b msg_maxmem ++ [LF] \/ body = s2b msg_augment ++ [LF] \/ body = s2b msg_similarity ++ [LF]
  | S200 l a m =>
      exists cap gs bs,
        captured_bytes m dump = Some cap /\ found_goroutines cap = Some gs /\
        aggregate (we_shuffle W) l (sn_goroutines (finish_snapshot W a gs)) = Ok bs /\
        body = render_page_buckets (handler_env W) (sn_meta (finish_snapshot W a gs)) bs
  end.
Proof. exact WebPageProofs.reply_bodies. Qed.
Print Assumptions C20b_reply_bodies.

(* ------------------------------------------------------------------ *)
(* 2. C20b_status_precedence                                            *)
(* ------------------------------------------------------------------ *)

(* the exact precedence of the code: method, maxmem, augment, snapshot, similarity *)
Theorem C20b_status_precedence : forall W dump method mm au sim,
  let o := handler_page W dump method mm au sim in
  (method <> GET -> o = http_error S405 msg_method) /\
  (method = GET -> maxmem_bad mm -> o = http_error S400 msg_maxmem) /\
  (forall m, method = GET -> maxmem_is mm m -> augment_bad au -> o = http_error S400 msg_augment) /\
  (forall m a, method = GET -> maxmem_is mm m -> augment_is au a ->
     scan_fails_concrete W dump m a = true -> o = http_error S500 msg_snapshot) /\
  (forall m a, method = GET -> maxmem_is mm m -> augment_is au a ->
     scan_fails_concrete W dump m a = false -> similarity_bad sim -> o = http_error S400 msg_similarity).
Proof. exact WebPageProofs.status_precedence. Qed.
Print Assumptions C20b_status_precedence.

(* "invalid parameters or methods are answered 4xx", as it is true:
   method / maxmem / augment always; similarity unless the snapshot failed *)
Theorem C20b_invalid_params : forall W dump method mm au sim,
  let o := handler_page W dump method mm au sim in
  (method <> GET \/ maxmem_bad mm \/ augment_bad au ->
     exists body, o = Reply S405 body \/ o = Reply S400 body) /\
  (similarity_bad sim ->
     exists body, o = Reply S405 body \/ o = Reply S400 body \/
       (o = Reply S500 body /\ method = GET /\
        exists m a, maxmem_is mm m /\ augment_is au a /\ scan_fails_concrete W dump m a = true)).
Proof. exact WebPageProofs.invalid_params. Qed.
Print Assumptions C20b_invalid_params.

(* ------------------------------------------------------------------ *)
(* 3. C20b_valid_complete                                               *)
(* ------------------------------------------------------------------ *)

(* A GET with valid parameters, valid options, on a dump the runtime prints
   (with or without the trailing blank line) that fits the buffer: status 200;
   the body is the page of  aggregate l (guessPaths/augment (nameArguments
   (snapshot_of d)));  the page has one <h1> per bucket, one <tr> per frame
   (C17_page_complete); the heading of bucket #i displays |IDs b|; these
   numbers add up to the number of goroutines of the dump. *)
Theorem C20b_valid_complete : forall W v d trailing method mm au sim m a l buflen,
  method = GET -> maxmem_is mm m -> augment_is au a -> similarity_is sim l ->
  opts_valid W = true -> wf_dump v d = true ->
  let dump := print_dump v d trailing in
  capture m (Z.of_nat (List.length dump)) = Some (buflen, Z.of_nat (List.length dump)) ->
  let sn := finish_snapshot W a (name_arguments (snapshot_of d)) in
  exists bs,
    aggregate (we_shuffle W) l (sn_goroutines sn) = Ok bs /\
    handler_page W dump method mm au sim =
      Reply (S200 l a m) (render_page_buckets (handler_env W) (sn_meta sn) bs) /\
    scan_fails_concrete W dump m a = false /\
    page_counts (page_pieces_buckets (handler_env W) (sn_meta sn) bs) (List.length bs)
                (total_calls (map BSig bs) + 2 * elided_stacks (map BSig bs)) (meta_items (sn_meta sn)) /\
    fold_right Nat.add 0 (map (fun b => List.length (IDs b)) bs) = List.length d /\
    (forall i b, nth_error bs i = Some b ->
       exists pre post,
         page_pieces_buckets (handler_env W) (sn_meta sn) bs = pre ++ map Tpl (heading i b) ++ post).
Proof. exact WebPageProofs.valid_complete. Qed.
Print Assumptions C20b_valid_complete.

(* the capture hypothesis holds as soon as the dump is shorter than max(maxmem, 1 MiB) *)
Theorem C20b_capture_whole : forall m dlen, (m <= max_int64)%Z -> (0 <= dlen < Z.max m mib)%Z ->
  exists buflen, capture m dlen = Some (buflen, dlen).
Proof. exact WebPageProofs.capture_whole_when_short. Qed.
Print Assumptions C20b_capture_whole.

Theorem C20b_maxmem_int64 : forall mm m, maxmem_is mm m -> (m <= max_int64)%Z.
Proof. exact WebPageProofs.maxmem_is_int64. Qed.
Print Assumptions C20b_maxmem_int64.

(* what a heading is, in bytes; and where it is in any page *)
Theorem C20b_heading_bytes : forall i b,
  flatten_pieces (heading i b) =
  (LF :: s2b "<h1>Signature #") ++ Z_to_dec (Z.of_nat i) ++ s2b ": " ++
  Z_to_dec (Z.of_nat (List.length (IDs b))) ++ s2b " routine".
Proof. exact WebPageProofs.heading_bytes. Qed.
Print Assumptions C20b_heading_bytes.

Theorem C20b_page_heading : forall env m bs i b, nth_error bs i = Some b ->
  exists pre post, page_pieces_buckets env m bs = pre ++ map Tpl (heading i b) ++ post.
Proof. exact WebPageProofs.page_heading. Qed.
Print Assumptions C20b_page_heading.

(* the handler passes the footer "": no trusted input, every delimiter (angle brackets, quotes) of the page is template text *)
Theorem C20b_page_delims : forall W m bs i c,
  nth_error (render_page_buckets (handler_env W) m bs) i = Some c -> delim c = true ->
  exists s k, ppiece_at (page_pieces_buckets (handler_env W) m bs) i = Some (Tpl (Lit s), k) /\ nth_error s k = Some c.
Proof. exact WebPageProofs.handler_page_delims. Qed.
Print Assumptions C20b_page_delims.

(* ------------------------------------------------------------------ *)
(* 4. C20b_truncated                                                    *)
(* ------------------------------------------------------------------ *)

(* maxmem cuts the dump (n < |dump|): exactly max(maxmem, 1 MiB) bytes are
   scanned, and the answer is
   - 500 (a line was rejected: typically the line cut in two), or
   - the nil dereference, only if these >= 1 MiB contain no line feed, or
   - 200 with the page of goroutines gs0 (after nameArguments, guessPaths,
     augment) whose displayed counts add up to |gs0|, and every goroutine of
     gs0 but the last is the goroutine of the dump at the same position. *)
Theorem C20b_truncated : forall W v d trailing method mm au sim m a l buflen n,
  method = GET -> maxmem_is mm m -> augment_is au a -> similarity_is sim l ->
  opts_valid W = true -> wf_dump v d = true ->
  let dump := print_dump v d trailing in
  capture m (Z.of_nat (List.length dump)) = Some (buflen, n) -> (n < Z.of_nat (List.length dump))%Z ->
  let cap := firstn (Z.to_nat n) dump in
  let o := handler_page W dump method mm au sim in
  (mib <= n)%Z /\ n = Z.max m mib /\
  (o = http_error S500 msg_snapshot \/
   (o = Crash nil_deref /\ found_goroutines cap = None /\ has_lf cap = false) \/
   exists gs0 bs,
     gs0 <> [] /\
     found_goroutines cap = Some (name_arguments gs0) /\
     aggregate (we_shuffle W) l (sn_goroutines (finish_snapshot W a (name_arguments gs0))) = Ok bs /\
     o = Reply (S200 l a m)
           (render_page_buckets (handler_env W) (sn_meta (finish_snapshot W a (name_arguments gs0))) bs) /\
     fold_right Nat.add 0 (map (fun b => List.length (IDs b)) bs) = List.length gs0 /\
     (forall i, S i < List.length gs0 -> nth_error gs0 i = nth_error (snapshot_of d) i)).
Proof. exact WebPageProofs.truncated. Qed.
Print Assumptions C20b_truncated.

(* the same for ANY prefix of a printed dump left in the buffer (k arbitrary) *)
Theorem C20b_cut_page : forall W v d trailing k m a sim l,
  similarity_is sim l -> opts_valid W = true -> wf_dump v d = true ->
  let cap := firstn k (print_dump v d trailing) in
  let o := respond_captured W cap m a sim in
  o = http_error S500 msg_snapshot \/
  (o = Crash nil_deref /\ found_goroutines cap = None /\ has_lf cap = false) \/
  exists gs0 bs,
    gs0 <> [] /\
    found_goroutines cap = Some (name_arguments gs0) /\
    aggregate (we_shuffle W) l (sn_goroutines (finish_snapshot W a (name_arguments gs0))) = Ok bs /\
    o = Reply (S200 l a m)
          (render_page_buckets (handler_env W) (sn_meta (finish_snapshot W a (name_arguments gs0))) bs) /\
    fold_right Nat.add 0 (map (fun b => List.length (IDs b)) bs) = List.length gs0 /\
    (forall i, S i < List.length gs0 -> nth_error gs0 i = nth_error (snapshot_of d) i).
Proof. exact WebPageProofs.cut_page. Qed.
Print Assumptions C20b_cut_page.

(* the lemma behind it: in an open state of a goroutine dump (header, function,
   file, unavailable, created-by line read) a scan step never adds a goroutine *)
Theorem C20b_open_step_len : forall s line s' l e,
  open_state (st s) = true -> scan s line = Ok (s', l, e) ->
  List.length (goroutines s') = List.length (goroutines s).
Proof. exact WebPageProofs.open_step_len. Qed.
Print Assumptions C20b_open_step_len.

(* ------------------------------------------------------------------ *)
(* 5. examples                                                          *)
(* ------------------------------------------------------------------ *)
Local Open Scope N_scope.

(* what runtime.Stack prints: no indentation, LF, file lines indented with a tab *)
Definition rt : p_variant := mkPV [] false FITab false.

Definition worker (id ptr : N) : p_goroutine :=
  mkPG id (s2b "chan receive") 0 false None
    (BFrames [ mkPFrame (SPkg (s2b "main") (s2b "worker")) [PVal ptr false] false
                 (s2b "/work/app/main.go") 20 (Some 37) None ] None)
    (Some (mkPCreator (SPkg (s2b "main") (s2b "main")) (Some 1) (s2b "/work/app/main.go") 8 (Some 80))).

(* main, and two workers that differ by a pointer argument *)
Definition d3 : list p_goroutine :=
  [ mkPG 1 (s2b "running") 0 false None
      (BFrames [ mkPFrame (SPkg (s2b "main") (s2b "main")) [] false (s2b "/work/app/main.go") 10 (Some 165) None ] None)
      None;
    worker 6 824633802752; worker 7 824633802800 ].

Local Close Scope N_scope.

Definition dump3 : bytes := print_dump rt d3 false.

Definition fs3 : fsys :=
  [ (s2b "/work/app/go.mod", s2b "module example.com/app" ++ [LF]); (s2b "/work/app/main.go", s2b "package main") ].

(* the footer of we_page is ignored by the handler *)
Definition W3 : web_env :=
  mkWebEnv (s2b "/usr/lib/go") [s2b "/home/me/go"] fs3 (fun g => g) id_shuffle
    (mkPageEnv (s2b "go1.23.5") (s2b "2026-10-02 10:00:00 +0000 UTC") 8 (s2b "<script>x</script>")).

Definition hp (W : web_env) (dump : bytes) (m mm au sim : string) : response :=
  handler_page W dump (s2b m) (s2b mm) (s2b au) (s2b sim).

Definition body_has (o : response) (pat : string) : bool :=
  match o with Reply _ b => contains b (s2b pat) | Crash _ => false end.
Definition body_count (o : response) (pat : string) : nat :=
  match o with Reply _ b => count_sub (s2b pat) b | Crash _ => 0%nat end.

Example C20b_ex_text : firstn 4 (LoopSpec.lines dump3) =
  [ s2b "goroutine 1 [running]:" ++ [LF]; s2b "main.main()" ++ [LF];
    [9%N] ++ s2b "/work/app/main.go:10 +0xa5" ++ [LF]; [LF] ] /\ List.length dump3 = 355%nat /\ wf_dump rt d3 = true.
Proof. vm_compute. repeat split; reflexivity. Qed.

(* default parameters: anypointer merges the two workers: 2 buckets, 1 + 2 = 3 goroutines, 3 stack rows;
   the module found by guessPaths is listed; the footer of the environment is not in the page *)
Example C20b_ex_default :
  let o := hp W3 dump3 "GET" "" "" "" in
  response_status o = Some (S200 AnyPointer true 67108864) /\
  body_count o "<h1>" = 2%nat /\ body_count o "<tr>" = 2%nat /\
  body_has o "<h1>Signature #0: 1 routine: <span class=""state"">running</span>" = true /\
  body_has o "<h1>Signature #1: 2 routines: <span class=""state"">chan receive</span>" = true /\
  body_has o "/work/app: example.com/app" = true /\
  body_has o "<!DOCTYPE html>" = true /\ body_has o "script" = false.
Proof. vm_compute. repeat split; reflexivity. Qed.

(* all three parameters given: exactflags keeps the workers apart: 3 buckets *)
Example C20b_ex_exactflags :
  let o := hp W3 dump3 "GET" "2097152" "0" "exactflags" in
  response_status o = Some (S200 ExactFlags false 2097152) /\ body_count o "<h1>" = 3%nat /\
  body_has o "<h1>Signature #2: 1 routine: " = true.
Proof. vm_compute. repeat split; reflexivity. Qed.

(* invalid requests *)
Example C20b_ex_invalid :
  hp W3 dump3 "POST" "x" "7" "bogus" = http_error S405 msg_method /\
  hp W3 dump3 "GET" "1e6" "7" "bogus" = http_error S400 msg_maxmem /\
  hp W3 dump3 "GET" "" "2" "bogus" = http_error S400 msg_augment /\
  hp W3 dump3 "GET" "" "1" "AnyValue" = http_error S400 msg_similarity.
Proof. vm_compute. repeat split; reflexivity. Qed.

(* FINDING 1.  "an invalid parameter is answered 4xx" is false for similarity:
   a dump whose second line the scanner rejects + an invalid similarity = 500 *)
Definition bad_dump : bytes := s2b "goroutine 1 [running]:" ++ [LF] ++ s2b "junk" ++ [LF].
Example C20b_invalid_similarity_4xx_refuted :
  similarity_bad (s2b "bogus") /\
  hp W3 bad_dump "GET" "" "" "bogus" = http_error S500 msg_snapshot /\
  scan_fails_concrete W3 bad_dump 67108864 true = true /\
  hp W3 bad_dump "POST" "" "" "bogus" = http_error S405 msg_method /\
  hp W3 bad_dump "GET" "-" "" "bogus" = http_error S400 msg_maxmem /\
  hp W3 bad_dump "GET" "" "yes" "bogus" = http_error S400 msg_augment.
Proof.
  split; [repeat split; discriminate|]. vm_compute. repeat split; reflexivity.
Qed.

(* FINDING 2.  no goroutine in the dump: nil *Snapshot, nil error, c.Aggregate panics;
   Web.handler says 200.  An invalid similarity is still answered 400 (checked before) *)
Example C20b_nil_snapshot_crash :
  let junk := s2b "hello" ++ [LF] in
  hp W3 junk "GET" "" "" "" = Crash nil_deref /\
  handler (s2b "GET") [] [] [] (scan_fails_concrete W3 junk) = S200 AnyPointer true 67108864 /\
  hp W3 junk "GET" "" "" "bogus" = http_error S400 msg_similarity /\
  hp W3 [] "GET" "" "" "" = Crash nil_deref.
Proof. vm_compute. repeat split; reflexivity. Qed.

(* FINDING 3.  a backslash in GOROOT: invalid Opts, every valid GET is answered 500 *)
Example C20b_invalid_opts :
  let W := mkWebEnv (s2b "C:\go") [] fs3 (fun g => g) id_shuffle (we_page W3) in
  opts_valid W = false /\ hp W dump3 "GET" "" "" "" = http_error S500 msg_snapshot.
Proof. vm_compute. split; reflexivity. Qed.

(* the hypotheses of C20b_valid_complete are satisfiable: its conclusion for the example *)
Example C20b_ex_complete : exists bs,
  hp W3 dump3 "GET" "" "0" "anyvalue" =
    Reply (S200 AnyValue false 67108864)
          (render_page_buckets (handler_env W3)
             (sn_meta (finish_snapshot W3 false (name_arguments (snapshot_of d3)))) bs) /\
  fold_right Nat.add 0 (map (fun b => List.length (IDs b)) bs) = 3%nat /\ List.length bs = 2%nat.
Proof.
  destruct (C20b_valid_complete W3 rt d3 false (s2b "GET") [] (s2b "0") (s2b "anyvalue") 67108864 false AnyValue 1048576)
    as (bs & EA & EH & _ & _ & Hsum & _).
  - reflexivity.
  - left. split; reflexivity.
  - right. left. split; [discriminate|]. split; reflexivity.
  - right. right. right. split; reflexivity.
  - reflexivity.
  - reflexivity.
  - vm_compute. reflexivity.
  - exists bs. split; [exact EH|]. split; [exact Hsum|].
    vm_compute in EA. injection EA as <-. reflexivity.
Qed.

(* FINDING 4.  The buffer ends inside the first goroutine, after "...main.go:1" of "main.go:10": accepted.
   Answer 200, one goroutine, whose frame is at line 1: not a goroutine of the dump *)
Definition first_line_of (gs : option (list Goroutine)) : option Z :=
  match gs with
  | Some (g :: _) => match Calls (SStack (GSig g)) with c :: _ => Some (Line c) | [] => None end
  | _ => None
  end.
Example C20b_truncated_exact_refuted :
  let cap := firstn 55 dump3 in
  last (LoopSpec.lines cap) [] = [9%N] ++ s2b "/work/app/main.go:1" /\
  response_status (respond_captured W3 cap 1048576 true []) = Some (S200 AnyPointer true 1048576) /\
  option_map (@List.length _) (found_goroutines cap) = Some 1%nat /\
  first_line_of (found_goroutines cap) = Some 1%Z /\
  first_line_of (Some (snapshot_of d3)) = Some 10%Z.
Proof. vm_compute. repeat split; reflexivity. Qed.

(* every cut of the example: 500, or (no line feed yet) the crash, or 200 with 1, 2 or 3 goroutines;
   the three outcomes all occur, and 200 also occurs for cuts inside a goroutine *)
Definition cut_class (k : nat) : nat * nat :=
  match respond_captured W3 (firstn k dump3) 1048576 false [] with
  | Reply (S200 _ _ _) _ =>
      (200, match found_goroutines (firstn k dump3) with Some gs => List.length gs | None => 0 end)%nat
  | Reply S500 _ => (500, 0)%nat
  | Reply _ _ => (400, 0)%nat
  | Crash _ => (0, if has_lf (firstn k dump3) then 1 else 0)%nat
  end.
Example C20b_all_cuts :
  let cs := map cut_class (seq 0 356) in
  forallb (fun c => match c with
                    | (500, _) | (0, 0) | (200, 1) | (200, 2) | (200, 3) => true
                    | _ => false
                    end%nat) cs = true /\
  (List.length (filter (fun c => Nat.eqb (fst c) 500) cs),
   List.length (filter (fun c => Nat.eqb (fst c) 0) cs),
   List.length (filter (fun c => Nat.eqb (fst c) 200) cs)) = (173, 23, 160)%nat.
Proof. vm_compute. split; reflexivity. Qed.
