(* Spec/NamesSpec.v — C15: the pseudo-name labelling laws as an executable
   predicate over (snapshot before naming, snapshot after naming), written
   without reference to the model's name_arguments. *)
From PP Require Import Base.Bytes Base.Num Model.Types Spec.Eqb.

(* every non-aggregate argument of the main stacks, in walk order *)
Fixpoint arg_scalars (a : Arg) : list Arg :=
  match a with
  | MkArg ag _ _ _ _ _ fv _ _ =>
      if ag then (fix go (l : list Arg) : list Arg := match l with [] => [] | x :: l' => arg_scalars x ++ go l' end) fv
      else [a]
  end.
Definition goroutine_scalars (g : Goroutine) : list Arg :=
  flat_map (fun c => flat_map arg_scalars (Values (CArgs c))) (Calls (SStack (GSig g))).
Definition all_scalars (gs : list Goroutine) : list Arg := flat_map goroutine_scalars gs.

(* names erased everywhere in the main stacks *)
Fixpoint arg_erase (a : Arg) : Arg :=
  match a with
  | MkArg ag n v p tl i fv fp fe =>
      if ag then MkArg ag n v p tl i
                   ((fix go (l : list Arg) : list Arg := match l with [] => [] | x :: l' => arg_erase x :: go l' end) fv) fp fe
      else MkArg ag [] v p tl i fv fp fe
  end.
Definition call_erase (c : Call) : Call :=
  mkCall (CFunc c) (mkArgs (map arg_erase (Values (CArgs c))) (Processed (CArgs c)) (Elided (CArgs c)))
         (RemoteSrcPath c) (Line c) (SrcName c) (DirSrc c) (LocalSrcPath c) (RelSrcPath c) (CImportPath c) (CLocation c).
Definition goroutine_erase (g : Goroutine) : Goroutine :=
  set_stack g (mkStack (map call_erase (Calls (SStack (GSig g)))) (SElided (SStack (GSig g)))).

Definition memNb (v : N) (l : list N) : bool := existsb (N.eqb v) l.
Fixpoint count_val (v : N) (l : list N) : nat :=
  match l with [] => 0 | x :: l' => (if N.eqb v x then 1 else 0) + count_val v l' end.
Fixpoint ins_uniq (v : N) (l : list N) : list N :=
  match l with
  | [] => [v]
  | x :: l' => if N.ltb v x then v :: l else if N.eqb v x then l else x :: ins_uniq v l'
  end.
Definition sorted_set (l : list N) : list N := fold_right ins_uniq [] l.
Fixpoint index_of (v : N) (l : list N) : option nat :=
  match l with [] => None | x :: l' => if N.eqb v x then Some 0 else option_map S (index_of v l') end.

Definition label (k : nat) : bytes := 35%N :: N_to_dec (N.of_nat k).   (* "#k" *)

Definition no_names (gs : list Goroutine) : bool := forallb (fun a => beq (Name a) []) (all_scalars gs).

Definition c15_ok (before after : list Goroutine) : bool :=
  let sc := all_scalars after in
  let ptr_vals := map Value (filter IsPtr sc) in
  let named := filter (fun a => negb (beq (Name a) [])) sc in
  let p0 := match after with [] => [] | g0 :: _ => map Value (filter IsPtr (goroutine_scalars g0)) end in
  let V := sorted_set (map Value named) in
  let A := filter (fun v => memNb v p0) V in
  let B := filter (fun v => negb (memNb v p0)) V in
  (* naming changes no other field *)
  goroutines_eqb (map goroutine_erase after) (map goroutine_erase before) &&
  (* only pointers are named *)
  forallb IsPtr named &&
  (* the same pointer value always carries the same name (so: named everywhere or nowhere) *)
  forallb (fun a => forallb (fun b => negb (IsPtr a && IsPtr b && N.eqb (Value a) (Value b)) || beq (Name a) (Name b)) sc) sc &&
  (* every pointer value that occurs more than once is named *)
  forallb (fun v => negb (Nat.ltb 1 (count_val v ptr_vals)) || memNb v V) ptr_vals &&
  (* dense, ordered: values seen in the first goroutine get #1..#|A| in ascending
     order, the others #|A|+1.. in ascending order; in particular different
     values never share a name *)
  forallb (fun a =>
    match index_of (Value a) A, index_of (Value a) B with
    | Some i, _ => beq (Name a) (label (S i))
    | None, Some j => beq (Name a) (label (S (List.length A + j)))
    | None, None => false
    end) named.
