(* Proofs/PrefixLast.v — C10, the last goroutine (audit item 3).

   PrefixFrame/PrefixProofs show that along a path that avoids the
   race-goroutine states every goroutine BUT THE LAST is final.  Here: the
   exact set of scanner states in which the last goroutine is final too
   ([closed_state]), and the corresponding strengthening: from a closed state
   the goroutine list only ever grows at its end, i.e. the goroutines at the
   cut are a PREFIX of those of any extension.

   Reading Model/Scan.v state by state (non-race-goroutine states only):
     looking, gotRaceHeader1, gotRaceHeader2   no goroutine yet (Inv), a step
                                appends or leaves the list alone
     done                       nothing ever changes
     betweenRoutine             the blank line after a goroutine was read: a
                                step appends a goroutine (header) or goes to done
     gotFileCreated             the file line of "created by" was read: the
                                only continuations are "" -> betweenRoutine
                                and anything else -> done; the goroutine is
                                complete although its separator was not read
   are closed.  The others are open, the last goroutine may still change:
     gotRoutineHeader (calls or <unavailable> to come), gotFunc (file line),
     gotFileFunc (more calls, "...additional frames elided...", created by),
     gotUnavail (created by), gotCreated (file line),
     gotRaceOperationHeader/Func/File (calls of the race operation).
   (In the five race-goroutine states ANY goroutine may change: those are
   excluded by [nonrace_path], as in the existing theorem.) *)
From PP Require Import Base.Bytes Base.BytesX Base.Num Base.GoResult Model.Types Model.Lines Model.Reader Model.FuncInit Model.ParseArgs Model.Scan Model.Names Model.ScanSnapshot Model.ScanSeq.
From PP Require Import Proofs.ScanInv Proofs.LoopBase Proofs.LoopProofs.
From PP Require Import Spec.ReaderSpec Spec.LoopSpec Spec.SeqSpec Proofs.PrefixBase Proofs.PrefixFrame Proofs.PrefixProofs.
From Coq Require Import String.

Definition closed_state (x : state) : bool :=
  match x with
  | looking | done | betweenRoutine | gotFileCreated | gotRaceHeader1 | gotRaceHeader2 => true
  | _ => false
  end.

(* the states of an ordinary (non race) goroutine dump, once started *)
Definition dump_state (x : state) : bool :=
  match x with
  | done | betweenRoutine | gotRoutineHeader | gotFunc | gotCreated | gotFileFunc | gotFileCreated | gotUnavail => true
  | _ => false
  end.

Lemma closed_not_race x : closed_state x = true -> race_goroutine_state x = false.
Proof. destruct x; intros H; try discriminate H; reflexivity. Qed.

Lemma dump_not_race x : dump_state x = true -> race_goroutine_state x = false.
Proof. destruct x; intros H; try discriminate H; reflexivity. Qed.

(* ------------------------------------------------------------------ *)
(* 1. one step from a closed state: nothing, or one goroutine appended   *)

Definition AppR (s : sstate) (r : result) : Prop :=
  forall s' l e, r = Ok (s', l, e) ->
    (goroutines s' = goroutines s /\ closed_state (st s') = true) \/
    (exists g, goroutines s' = goroutines s ++ [g]).

Lemma appR_same s s' l e :
  goroutines s' = goroutines s -> closed_state (st s') = true -> AppR s (ret s' l e).
Proof. intros H1 H2 s1 l1 e1 E. injection E as <- _ _. left. now split. Qed.

Lemma appR_panic s m : AppR s (Panic m).
Proof. intros s1 l1 e1 E. discriminate E. Qed.

Lemma header_or_end_app t s : closed_state (st s) = true -> AppR s (header_or_end t s).
Proof.
  intros Hc. unfold header_or_end. destruct (try_header s t) as [s'|] eqn:Hh.
  - destruct (try_header_shape _ _ _ Hh) as (g & ind & -> & _).
    intros s1 l1 e1 E. injection E as <- _ _. right. exists g. reflexivity.
  - destruct (state_eqb (st s) looking && beq t race_header_footer).
    + apply appR_same; reflexivity.
    + destruct (state_eqb (st s) looking); apply appR_same; try reflexivity. exact Hc.
Qed.

Lemma race_op_header_app s m first t r :
  closed_state (st s) = true -> race_op_header s m first t = Some r -> AppR s r.
Proof.
  intros Hc. unfold race_op_header. destruct m as [[[w addr] ds]|]; [|discriminate].
  intros E. injection E as <-.
  destruct (parse_uint addr); [|apply appR_same; [reflexivity|exact Hc]].
  destruct (atou ds); [|apply appR_same; [reflexivity|exact Hc]].
  destruct (first && _); [apply appR_panic|].
  intros s1 l1 e1 E. injection E as <- _ _. right. eexists. reflexivity.
Qed.

Lemma scan_body_app s t : closed_state (st s) = true -> AppR s (scan_body s t).
Proof.
  intros Hc. unfold scan_body.
  assert (Hh := header_or_end_app t s Hc).
  assert (Hr := fun r => race_op_header_app s (match_race_op t) true t r Hc).
  destruct (st s) eqn:Hst; try discriminate Hc.
  - exact Hh.
  - apply appR_same; [reflexivity|]. now rewrite Hst.
  - exact Hh.
  - destruct t; apply appR_same; reflexivity.
  - destruct (beq t race_header); apply appR_same; reflexivity.
  - destruct (race_op_header s (match_race_op t) true t) as [r|] eqn:E.
    + now apply Hr.
    + apply appR_same; [reflexivity|]. now rewrite Hst.
Qed.

Theorem closed_step : forall s line s' l e,
  closed_state (st s) = true -> scan s line = Ok (s', l, e) ->
  (goroutines s' = goroutines s /\ closed_state (st s') = true) \/
  (exists g, goroutines s' = goroutines s ++ [g]).
Proof.
  intros s line s' l e Hc H. rewrite scan_unfold in H.
  destruct (scan_tr s line) as [t0|].
  - destruct (scan_pre_cases s t0) as [(t & Ht)|(Ht & _)]; rewrite Ht in H.
    + apply (scan_body_app s t Hc _ _ _ H).
    + injection H as <- _ _. left. split; reflexivity.
  - injection H as <- _ _. left. now split.
Qed.

(* ------------------------------------------------------------------ *)
(* 2. the invariant of the fold: the goroutines gs present at a closed
      state stay a prefix; when the scanner is in an open state, the
      goroutine being read is a later one                                 *)

Definition keeps (gs : list Goroutine) (s : sstate) : Prop :=
  exists tl, goroutines s = gs ++ tl /\ (closed_state (st s) = true \/ tl <> []).

Lemma keeps_start s : closed_state (st s) = true -> keeps (goroutines s) s.
Proof. intros Hc. exists []. rewrite app_nil_r. split; [reflexivity|now left]. Qed.

Lemma upd_last_app {A} (f : A -> A) : forall (l tl : list A),
  tl <> [] -> upd_last f (l ++ tl) = l ++ upd_last f tl.
Proof.
  induction l as [|x l IH]; intros tl Hne; [reflexivity|].
  cbn [app]. specialize (IH tl Hne).
  destruct (l ++ tl) as [|y r] eqn:E.
  - destruct l; [cbn in E; contradiction|discriminate E].
  - change (upd_last f (x :: y :: r)) with (x :: upd_last f (y :: r)). now rewrite IH.
Qed.

Lemma keeps_step gs s line s' l e :
  keeps gs s -> race_goroutine_state (st s) = false ->
  scan s line = Ok (s', l, e) -> keeps gs s'.
Proof.
  intros (tl & Hg & Hs) Hnr H.
  destruct (closed_state (st s)) eqn:Hc.
  - destruct (closed_step _ _ _ _ _ Hc H) as [[E Hc']|(g & E)].
    + exists tl. rewrite E. split; [exact Hg|now left].
    + exists (tl ++ [g]). rewrite E, Hg, app_assoc. split; [reflexivity|right; apply app1_ne].
  - destruct Hs as [F|Hne]; [discriminate F|].
    destruct (scan_step_frame _ _ _ _ _ Hnr H) as [E|[(g & E)|(g & E)]].
    + exists tl. rewrite E. split; [exact Hg|now right].
    + exists (tl ++ [g]). rewrite E, Hg, app_assoc. split; [reflexivity|right; apply app1_ne].
    + exists (upd_last (fun _ => g) tl). rewrite E, Hg. split; [now apply upd_last_app|].
      right. now apply upd_last_ne.
Qed.

(* the plain fold of scan *)
Theorem scan_lines_keeps : forall ls gs s sB,
  keeps gs s -> nonrace_path s ls -> scan_lines s ls = Ok sB -> keeps gs sB.
Proof.
  induction ls as [|d ls IH]; intros gs s sB Hk Hp H; cbn [scan_lines] in H.
  - injection H as <-. exact Hk.
  - destruct Hp as [Hnr Hp].
    destruct (scan s d) as [[[s1 l] e]|m] eqn:Hscan; [|discriminate H].
    apply (IH gs s1 sB); [apply (keeps_step _ _ _ _ _ _ Hk Hnr Hscan)|exact Hp|exact H].
Qed.

(* the fold with the stopping rules of ScanSnapshot *)
Lemma run_lines_keeps f : forall ls gs s fw n lr,
  keeps gs s -> nonrace_path s ls -> run_lines f s fw n ls = Ok lr -> keeps gs (lr_ss lr).
Proof.
  induction ls as [|d ls IH]; intros gs s fw n lr Hk Hp H; rewrite run_lines_eq in H;
    destruct (state_eqb (st s) done); try (injection H as <-; exact Hk).
  destruct Hp as [Hnr Hp].
  destruct (scan s d) as [[[s' l] e1]|m] eqn:Hscan; [|discriminate H]. cbv zeta in H.
  pose proof (keeps_step _ _ _ _ _ _ Hk Hnr Hscan) as Hk'.
  assert (Hone : lr_ss lr = s' -> keeps gs (lr_ss lr)) by (intros ->; exact Hk').
  assert (Hrec : forall fw1, run_lines f s' fw1 (S n) ls = Ok lr -> keeps gs (lr_ss lr)).
  { intros fw1 H1. apply (IH _ _ _ _ _ Hk' Hp H1). }
  destruct l.
  - destruct (combine_err (lerr f d) e1); try (apply Hone; injection H as <-; reflexivity). now apply (Hrec fw).
  - destruct (negb (state_eqb (st s') looking)); [apply Hone; injection H as <-; reflexivity|].
    destruct (combine_err (lerr f d) e1); try (apply Hone; injection H as <-; reflexivity). now apply (Hrec (fw ++ d)).
Qed.

(* C10b, fold level: from a closed state, along a path outside the
   race-goroutine states, the goroutines only grow at the end *)
Theorem closed_all_goroutines_final : forall s ls sB,
  closed_state (st s) = true -> nonrace_path s ls -> scan_lines s ls = Ok sB ->
  exists tl, goroutines sB = goroutines s ++ tl.
Proof.
  intros s ls sB Hc Hp H.
  destruct (scan_lines_keeps ls _ s sB (keeps_start s Hc) Hp H) as (tl & E & _). now exists tl.
Qed.

Lemma prefix_nth {A} (l tl : list A) i : i < List.length l -> nth_error (l ++ tl) i = nth_error l i.
Proof. intros Hi. now apply nth_error_app1. Qed.

Corollary closed_all_goroutines_nth : forall s ls sB,
  closed_state (st s) = true -> nonrace_path s ls -> scan_lines s ls = Ok sB ->
  List.length (goroutines s) <= List.length (goroutines sB) /\
  forall i, i < List.length (goroutines s) -> nth_error (goroutines sB) i = nth_error (goroutines s) i.
Proof.
  intros s ls sB Hc Hp H. destruct (closed_all_goroutines_final s ls sB Hc Hp H) as (tl & ->).
  split; [rewrite app_length; lia|]. intros i Hi. now apply prefix_nth.
Qed.

(* ------------------------------------------------------------------ *)
(* 3. an ordinary dump never enters a race state: nonrace_path for free  *)

Definition DumpR (r : result) : Prop :=
  forall s' l e, r = Ok (s', l, e) -> dump_state (st s') = true.

Lemma dumpR_ret s' l e : dump_state (st s') = true -> DumpR (ret s' l e).
Proof. intros H s1 l1 e1 E. injection E as <- _ _. exact H. Qed.

Lemma dumpR_panic m : DumpR (Panic m).
Proof. intros s1 l1 e1 E. discriminate E. Qed.

Lemma func_step_dump s line next upd notfound :
  dump_state next = true -> DumpR notfound -> DumpR (func_step s line next upd notfound).
Proof.
  intros Hn Hnf. unfold func_step.
  destruct (parse_func line) as [[[c e]|]|m]; unfold bind; [|exact Hnf|apply dumpR_panic].
  destruct (upd c s) as [s1|m]; [|apply dumpR_panic]. apply dumpR_ret. exact Hn.
Qed.

Lemma file_step_dump s line calls store next what :
  dump_state (st s) = true -> dump_state next = true -> DumpR (file_step s line calls store next what).
Proof.
  intros Hs Hn. unfold file_step. destruct (last_opt calls) as [c|]; [|apply dumpR_panic].
  destruct (parse_file c line) as [[c' [e|]]|]; apply dumpR_ret; assumption.
Qed.

Lemma created_step_dump s g sym b : dump_state (st s) = true -> DumpR (created_step s g sym b).
Proof.
  intros Hs. unfold created_step. destruct (func_init sym) as [[f|]|m]; unfold bind; [| |apply dumpR_panic].
  - apply dumpR_ret. reflexivity.
  - apply dumpR_ret. exact Hs.
Qed.

Lemma with_cur_dump s k : (forall g, DumpR (k g)) -> DumpR (with_cur s k).
Proof. intros H. unfold with_cur. destruct (last_opt (goroutines s)); [apply H|apply dumpR_panic]. Qed.

Lemma header_or_end_dump t s : st s = betweenRoutine -> DumpR (header_or_end t s).
Proof.
  intros Hst. unfold header_or_end. destruct (try_header s t) as [s'|] eqn:Hh.
  - destruct (try_header_shape _ _ _ Hh) as (g & ind & -> & _). apply dumpR_ret. reflexivity.
  - rewrite Hst. cbn [state_eqb state_index Nat.eqb andb]. apply dumpR_ret. reflexivity.
Qed.

Lemma scan_body_dump s t : dump_state (st s) = true -> DumpR (scan_body s t).
Proof.
  intros Hd. unfold scan_body.
  assert (Hself : forall l e, DumpR (ret s l e)) by (intros; apply dumpR_ret; exact Hd).
  assert (Hfs : forall line nf, DumpR nf -> DumpR (func_step s line gotFunc add_call_cur nf)).
  { intros line nf Hnf. apply func_step_dump; [reflexivity|exact Hnf]. }
  destruct (st s) eqn:Hst; try discriminate Hd.
  - apply Hself.
  - now apply header_or_end_dump.
  - apply with_cur_dump. intros cur. destruct (match_unavail t); [apply dumpR_ret; reflexivity|]. apply Hfs, Hself.
  - apply with_cur_dump. intros cur. apply file_step_dump; [now rewrite Hst|reflexivity].
  - apply with_cur_dump. intros cur.
    destruct (Calls (CreatedBy (GSig cur))) as [|c rest]; [apply dumpR_panic|].
    destruct (parse_file c t) as [[c' [e|]]|]; try apply Hself. apply dumpR_ret. reflexivity.
  - apply with_cur_dump. intros cur. destruct (match_created t) as [sym|].
    + apply created_step_dump. now rewrite Hst.
    + destruct (is_frames_elided t); [apply dumpR_ret; cbn; now rewrite Hst|].
      apply Hfs. destruct t; apply dumpR_ret; reflexivity.
  - destruct t; apply dumpR_ret; reflexivity.
  - destruct t as [|x t']; [apply dumpR_ret; reflexivity|].
    apply with_cur_dump. intros cur. destruct (match_created (x :: t')) as [sym|].
    + apply created_step_dump. now rewrite Hst.
    + apply Hself.
Qed.

Theorem dump_step : forall s line s' l e,
  dump_state (st s) = true -> scan s line = Ok (s', l, e) -> dump_state (st s') = true.
Proof.
  intros s line s' l e Hd H. rewrite scan_unfold in H.
  destruct (scan_tr s line) as [t0|].
  - destruct (scan_pre_cases s t0) as [(t & Ht)|(Ht & _)]; rewrite Ht in H.
    + apply (scan_body_dump s t Hd _ _ _ H).
    + injection H as <- _ _. reflexivity.
  - injection H as <- _ _. exact Hd.
Qed.

Theorem dump_nonrace_path : forall ls s, dump_state (st s) = true -> nonrace_path s ls.
Proof.
  induction ls as [|d ls IH]; intros s Hd; cbn [nonrace_path]; [exact I|].
  split; [now apply dump_not_race|].
  destruct (scan s d) as [[[s1 l] e]|m] eqn:Hscan; [|exact I].
  apply IH. apply (dump_step _ _ _ _ _ Hd Hscan).
Qed.

(* ------------------------------------------------------------------ *)
(* 4. the snapshot of a cut stream                                       *)

(* [prefix_goroutines] with one more clause: when the state at the cut is
   closed, ALL the goroutines at the cut are final *)
Theorem prefix_all_goroutines : forall na B k sc sc' f f' res res',
  stall_free sc -> stall_free sc' ->
  scan_snapshot na (mkSource B sc f) = Ok res ->
  scan_snapshot na (mkSource (firstn k B) sc' f') = Ok res' ->
  exists P T R,
    lines (firstn k B) = P ++ T /\ lines B = P ++ R /\ all_lf P /\
    (T = [] \/ exists t u R', T = [t] /\ has_lf t = false /\ R = (t ++ u) :: R') /\
    ((snap res' = snap res /\ fwd res' = fwd res /\ rerr_out res' = rerr_out res /\
      final_state res' = final_state res /\ lines_read res' = lines_read res /\
      exists rm, suffix res' ++ rest (unread res') = List.concat (rm ++ T) /\
                 suffix res ++ rest (unread res) = List.concat (rm ++ R)) \/
     (exists s s', scan_lines ss0 P = Ok s /\ Inv s /\
        snap res' = snap_of na (goroutines s') /\
        (s' = s \/ exists t l e, T = [t] /\ scan s t = Ok (s', l, e)) /\
        (race_goroutine_state (st s) = false -> frame (goroutines s) (goroutines s')) /\
        (* open or closed: all but the last (the existing theorem) *)
        (nonrace_path s R ->
         exists sB, snap res = snap_of na (goroutines sB) /\
           (forall i, S i < List.length (goroutines s) ->
              nth_error (goroutines sB) i = nth_error (goroutines s) i /\
              nth_error (goroutines s') i = nth_error (goroutines s) i) /\
           (* closed: all of them, the last one included *)
           (closed_state (st s) = true ->
              exists tl, goroutines sB = goroutines s ++ tl)) /\
        (closed_state (st s) = true ->
           goroutines s' = goroutines s \/ exists g, goroutines s' = goroutines s ++ [g]) /\
        (dump_state (st s) = true -> nonrace_path s R))).
Proof.
  intros na B k sc sc' f f' res res' Hsf Hsf' H H'.
  destruct (snapshot_lines_inv _ _ _ _ _ Hsf H) as (lr & Hrun & (A1 & A2 & A3 & A4 & A5 & A6) & _).
  destruct (snapshot_lines_inv _ _ _ _ _ Hsf' H') as (lr' & Hrun' & (A1' & A2' & A3' & A4' & A5' & A6') & _).
  destruct (lines_firstn B k) as (P & T & R & E1 & E2 & Hc & HT).
  exists P, T, R. split; [exact E1|]. split; [exact E2|]. split; [exact Hc|]. split.
  { destruct HT as [->|(t & u & R' & -> & _ & Hlf & -> & _)]; [now left|].
    right. exists t, u, R'. tauto. }
  rewrite E2 in Hrun. rewrite E1 in Hrun'.
  destruct (cut_compare _ _ _ _ _ _ _ _ _ _ Hc Inv_ss0 Hrun Hrun')
    as [(lrP & _ & _ & -> & ->)|(s & fw & S1 & S2 & S3 & S4)].
  - left. rewrite A1, A1', A2, A2', A4, A4', A5, A5', A6, A6', A3, A3'. cbn [with_rem lr_ss lr_fwd lr_err lr_n lr_rem].
    repeat split. exists (lr_rem lrP). split; reflexivity.
  - right. exists s, (lr_ss lr'). split; [exact S1|]. split; [exact S2|]. split; [exact A1'|].
    assert (Hstep : lr_ss lr' = s \/ exists t l e, T = [t] /\ scan s t = Ok (lr_ss lr', l, e)).
    { destruct HT as [->|(t & u & R' & -> & _)].
      - left. apply (run_lines_nil_state _ _ _ _ _ S4).
      - destruct (run_lines_one_state _ _ _ _ _ _ S4) as [E|(l & e & E)]; [now left|].
        right. exists t, l, e. split; [reflexivity|exact E]. }
    split; [exact Hstep|].
    assert (Hfr : race_goroutine_state (st s) = false -> frame (goroutines s) (goroutines (lr_ss lr'))).
    { intros Hnr. destruct Hstep as [->|(t & l & e & _ & E)]; [apply frame_refl|].
      apply (scan_step_frame _ _ _ _ _ Hnr E). }
    split; [exact Hfr|].
    split; [|split].
    + intros Hp. exists (lr_ss lr). split; [exact A1|]. split.
      * intros i Hi.
        destruct (run_lines_stable f _ _ _ _ _ Hp S3) as [_ St]. split; [now apply St|].
        destruct Hstep as [->|(t & l & e & -> & E)]; [reflexivity|].
        destruct HT as [F|(t1 & u & R' & Et & _ & _ & ER & _)]; [discriminate F|].
        rewrite ER in Hp. destruct Hp as [Hnr _].
        destruct (frame_stable _ _ (Hfr Hnr)) as [_ F2]. now apply F2.
      * intros Hcl.
        destruct (run_lines_keeps f _ _ _ _ _ _ (keeps_start s Hcl) Hp S3) as (tl & E & _). now exists tl.
    + intros Hcl. destruct Hstep as [->|(t & l & e & _ & E)]; [now left|].
      destruct (closed_step _ _ _ _ _ Hcl E) as [[E' _]|E']; [now left|now right].
    + intros Hd. now apply dump_nonrace_path.
Qed.
