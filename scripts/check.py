#!/usr/bin/env python3
"""check.py <property> [quick|thorough]  |  check.py --replay <file>

One entry point for all properties.  For property P it
  1. re-checks the proof obligations: coqc on coq/theories/Properties/P.v (all
     theorems Qed'd, Print Assumptions closed), after an incremental `make`
     of the whole development, plus a scan for forbidden vernacular;
  2. rebuilds the Go harness against /repo's CURRENT working tree and runs the
     correspondence ops of P: implementation (harness/vh) and extracted Coq
     model (build/driver) on the same generated cases; the driver also
     evaluates the extracted property predicates on the implementation's output;
  3. decides: a property predicate false on implementation output = violation
     with that case as replay; a broken proof or a correspondence mismatch on
     P's projection without such a case = violation `no-failing-input-found`
     (after a wider search); known findings are reported as KNOWN-FINDING;
  4. writes evidence/P.json.
Exit 0 = held on everything explored, 1 = violation (line VIOLATION ...),
2 = the machinery itself could not run (build failure)."""
import sys, os, json, subprocess, time, re, hashlib, fcntl, shutil, tempfile, resource

VERIF = os.path.dirname(os.path.dirname(os.path.abspath(__file__)))
COQ = os.path.join(VERIF, 'coq')
BUILD = os.path.join(VERIF, 'build')
HARNESS = os.path.join(VERIF, 'harness')
REPO = '/repo'
GOENV = dict(os.environ, GOFLAGS='-mod=mod', GOPROXY='off', GOSUMDB='off', GOTOOLCHAIN='local', CGO_ENABLED='0')

sys.path.insert(0, os.path.dirname(os.path.abspath(__file__)))
from props import PROPS, TRUSTED_BASE  # noqa: E402


def log(*a):
    print(*a, file=sys.stderr, flush=True)


def run(cmd, cwd=None, env=None, timeout=3600, stdin=None, capture=True):
    p = subprocess.run(cmd, cwd=cwd, env=env, timeout=timeout, input=stdin,
                       stdout=subprocess.PIPE if capture else None,
                       stderr=subprocess.STDOUT if capture else None, text=True)
    return p.returncode, (p.stdout or '')


class Lock:
    def __init__(self, name):
        os.makedirs(BUILD, exist_ok=True)
        self.f = open(os.path.join(BUILD, name + '.lock'), 'w')

    def __enter__(self):
        fcntl.flock(self.f, fcntl.LOCK_EX)

    def __exit__(self, *a):
        fcntl.flock(self.f, fcntl.LOCK_UN)


def newest(paths):
    m = 0.0
    for p in paths:
        if os.path.isdir(p):
            for d, _, fs in os.walk(p):
                for f in fs:
                    if f.endswith(('.v', '.ml', '.go', '.mod', '.sh')):
                        m = max(m, os.path.getmtime(os.path.join(d, f)))
        elif os.path.exists(p):
            m = max(m, os.path.getmtime(p))
    return m


def build_coq(clean=False):
    """Incremental (or clean) build of the whole development."""
    with Lock('coq'):
        mk = os.path.join(COQ, 'Makefile')
        if clean or not os.path.exists(mk) or os.path.getmtime(mk) < os.path.getmtime(os.path.join(COQ, '_CoqProject')):
            rc, out = run(['coq_makefile', '-f', '_CoqProject', '-o', 'Makefile'], cwd=COQ)
            if rc != 0:
                return False, out
        if clean:
            run(['make', 'clean'], cwd=COQ, timeout=600)
        rc, out = run(['timeout', '3000', 'make', '-j16'], cwd=COQ, timeout=3100)
        return rc == 0, out


def build_driver():
    with Lock('driver'):
        drv = os.path.join(BUILD, 'driver')
        src_time = newest([os.path.join(COQ, 'theories', 'Base'), os.path.join(COQ, 'theories', 'Model'),
                           os.path.join(COQ, 'theories', 'Spec'), os.path.join(COQ, 'extract'),
                           os.path.join(VERIF, 'ocaml')])
        if os.path.exists(drv) and os.path.getmtime(drv) >= src_time:
            return True, ''
        rc, out = run(['sh', os.path.join(VERIF, 'ocaml', 'build.sh')], timeout=1200)
        return rc == 0 and os.path.exists(drv), out


HOOKS = {'ok': True, 'note': ''}
HOOKED_OPS = ('step', 'sigops', 'rlines', 'ast', 'regex')


def build_harness():
    """Always rebuilt: /repo's working tree may have changed."""
    with Lock('harness'):
        shutil.copyfile(os.path.join(REPO, 'go.sum'), os.path.join(HARNESS, 'go.sum'))
        rc, out = run(['go', 'build', '-tags', 'verif', '-o', os.path.join(BUILD, 'vh'), './cmd/vh'], cwd=HARNESS, env=GOENV, timeout=1200)
        HOOKS['ok'], HOOKS['note'] = True, ''
        if rc != 0:
            # /repo/stack/verif_hooks.go (tag verif) may no longer compile against a changed tree: fall back to the
            # public-API harness; the hooked ops are then reported as a correspondence that no longer checks
            rc1, out1 = run(['go', 'build', '-o', os.path.join(BUILD, 'vh'), './cmd/vh'], cwd=HARNESS, env=GOENV, timeout=1200)
            if rc1 != 0:
                return False, out + out1
            HOOKS['ok'], HOOKS['note'] = False, 'the hooks (stack/verif_hooks.go, tag verif) no longer compile against the tree: ' + out.strip()[-400:]
        rc2, out2 = run(['go', 'build', '-o', os.path.join(BUILD, 'pp'), './cmd/pp'], cwd=REPO, env=GOENV, timeout=1200)
        # hook for pp's text renderer (internal/verif_hooks.go + internal/verifcmd, tag verif); without it op pp reports
        # corr:pp-internal-hook-unavailable for C14
        vint = os.path.join(BUILD, 'vint')
        rc3, _ = run(['go', 'build', '-tags', 'verif', '-o', vint + '.new', './internal/verifcmd'], cwd=REPO, env=GOENV, timeout=1200)
        if rc3 == 0:
            os.replace(vint + '.new', vint)   # atomically: another check may be running its cases
        elif os.path.exists(vint):
            os.unlink(vint)
        return rc2 == 0, out + out2


FORBIDDEN = re.compile(r'\b(Admitted|admit|Axiom|Axioms|Parameter|Parameters|Conjecture|Hypothesis|Variable)\b|Unset Guard|bypass_check|type-in-type|impredicative-set|Admit Obligations')


def scan_forbidden():
    """No Admitted/admit/Axiom/... anywhere; Variable/Hypothesis only inside a Section."""
    bad = []
    for d, _, fs in os.walk(os.path.join(COQ)):
        for f in fs:
            if not f.endswith('.v'):
                continue
            p = os.path.join(d, f)
            depth = 0
            txt = open(p).read()
            # strip comments (non-nested approximation is enough: nested ones are balanced)
            out, i, lvl = [], 0, 0
            while i < len(txt):
                if txt.startswith('(*', i):
                    lvl += 1; i += 2
                elif txt.startswith('*)', i) and lvl > 0:
                    lvl -= 1; i += 2
                else:
                    if lvl == 0:
                        out.append(txt[i])
                    i += 1
            for ln, line in enumerate(''.join(out).split('\n'), 1):
                s = line.strip()
                if re.match(r'Section\b', s):
                    depth += 1
                elif re.match(r'End\b', s) and depth > 0:
                    depth -= 1
                for m in FORBIDDEN.finditer(line):
                    w = m.group(0)
                    if w in ('Variable', 'Hypothesis') and depth > 0:
                        continue
                    bad.append('%s:%d: %s' % (os.path.relpath(p, VERIF), ln, w))
    return bad


ALLOWED_AXIOMS = ()  # none needed so far; a stdlib axiom that a later proof pulls in must be named here and in TRUSTED_BASE


def check_proofs(prop, extra=()):
    """Compile the property file(s); return (obligations, discharged, problems, assumptions)."""
    tot = [0, 0, [], {}]
    for name in (prop,) + tuple(extra):
        o, d, pr, a = check_proofs_file(name)
        tot[0] += o; tot[1] += d; tot[2] += pr; tot[3].update(a)
    return tot[0], tot[1], tot[2], tot[3]


def check_proofs_file(prop):
    vf = os.path.join(COQ, 'theories', 'Properties', prop + '.v')
    problems = []
    if not os.path.exists(vf):
        return 0, 0, ['missing ' + vf], {}
    src = open(vf).read()
    names = re.findall(r'^(?:Theorem|Lemma|Corollary|Example|Proposition)\s+([A-Za-z0-9_\']+)', src, re.M)
    # theorems are closed by `exact <lemma>.` only (so a statement cannot be weakened quietly);
    # Examples (non-vacuity witnesses) may compute
    for m in re.finditer(r'^(Theorem|Lemma|Corollary|Proposition|Example)\s+([A-Za-z0-9_\']+)(.*?)\bProof\.(.*?)\b(Qed|Defined|Admitted)\.', src, re.M | re.S):
        kind, nm, body, end = m.group(1), m.group(2), m.group(4), m.group(5)
        if end != 'Qed':
            problems.append('%s %s ends with %s' % (kind, nm, end))
        # (most theorems are closed by `exact <lemma>.`; a few assemble lemmas with a short script: either
        #  way the kernel checks the statement written in the property file)
    outdir = os.path.join(BUILD, 'props')
    os.makedirs(outdir, exist_ok=True)
    rc, out = run(['timeout', '900', 'coqc', '-Q', os.path.join(COQ, 'theories'), 'PP', '-o', os.path.join(outdir, prop + '.vo'), vf], timeout=1000)
    if rc != 0:
        problems.append('coqc failed on Properties/%s.v: %s' % (prop, out.strip()[-600:]))
        return len(names), 0, problems, {}
    # Print Assumptions output: either "Closed under the global context" or "Axioms:" + list
    assumptions = {}
    chunks = re.split(r'(?=Closed under the global context|Axioms:)', out)
    printed = [c for c in chunks if c.startswith(('Closed under', 'Axioms:'))]
    asked = re.findall(r'^Print Assumptions\s+([A-Za-z0-9_\']+)\.', src, re.M)
    discharged = len(names)
    for nm, c in zip(asked, printed):
        if c.startswith('Closed under'):
            assumptions[nm] = []
        else:
            ax = re.findall(r'^([A-Za-z0-9_.\']+)\s*:', c[len('Axioms:'):], re.M)
            assumptions[nm] = ax
            for a in ax:
                if a not in ALLOWED_AXIOMS:
                    problems.append('theorem %s depends on axiom %s' % (nm, a))
                    discharged -= 1
    if len(printed) != len(asked):
        problems.append('Print Assumptions output count mismatch (%d printed, %d asked)' % (len(printed), len(asked)))
    return len(names), max(discharged, 0), problems, assumptions


def run_op(op, n, seed, tier, extra=()):
    """Run one correspondence op: returns (cases: id -> line fields, results: id -> (status, flags, tags, detail))."""
    vh = os.path.join(BUILD, 'vh')
    drv = os.path.join(BUILD, 'driver')
    tmp = tempfile.NamedTemporaryFile('w+', suffix='.cases', delete=False, dir=BUILD)
    tmp.close()
    try:
        with open(tmp.name, 'w') as f:
            # (a generator must never fill the disk: its output file is capped at 8 GiB)
            p = subprocess.run([vh, op, '-n', str(n), '-seed', str(seed), '-tier', tier, *extra], stdout=f, stderr=subprocess.PIPE, text=True, timeout=7200,
                               env=dict(GOENV, VERIF_PP=os.path.join(BUILD, 'pp'), VERIF_ROOT=VERIF),
                               preexec_fn=lambda: resource.setrlimit(resource.RLIMIT_FSIZE, (8 << 30, 8 << 30)))
        if p.returncode != 0:
            raise RuntimeError('vh %s failed: %s' % (op, p.stderr[-500:]))
        # the driver is single-threaded: shard the cases over up to 12 driver processes
        with open(tmp.name) as f:
            lines = f.readlines()
        k = max(1, min(12, len(lines) // 150))
        shards = []
        for i in range(k):
            sf = tempfile.NamedTemporaryFile('w+', suffix='.shard', delete=False, dir=BUILD)
            sf.writelines(lines[i::k])
            sf.flush()
            sf.seek(0)
            of = tempfile.NamedTemporaryFile('w+', suffix='.out', delete=False, dir=BUILD)
            shards.append((sf, of, subprocess.Popen([drv], stdin=sf, stdout=of, stderr=subprocess.PIPE, text=True)))
        outs = []
        try:
            for sf, of, pr in shards:
                _, e = pr.communicate(timeout=7200)
                if pr.returncode != 0:
                    raise RuntimeError('driver failed on %s: %s' % (op, e[-500:]))
                of.seek(0)
                outs.append(of.read())
        finally:
            for sf, of, pr in shards:
                if pr.poll() is None:
                    pr.kill()
                for fh in (sf, of):
                    fh.close()
                    os.unlink(fh.name)
        del lines

        class _Q:
            stdout = ''.join(outs)
        q = _Q()
        cases = {}
        with open(tmp.name) as f:
            for line in f:
                parts = line.rstrip('\n').split('\t')
                if len(parts) >= 2:
                    cases[parts[1]] = parts
        results = {}
        for line in q.stdout.split('\n'):
            parts = line.split('\t')
            if len(parts) >= 5:
                results[parts[0]] = (parts[1], [x for x in parts[2].split(',') if x], [x for x in parts[3].split(',') if x], parts[4])
        return cases, results
    finally:
        os.unlink(tmp.name)


def relevant(flags, spec):
    """Flags of a case that matter for this property: its predicate, its correspondence projections, crashes."""
    out = []
    for f in flags:
        if f.startswith('prop:'):
            if any(f == 'prop:' + p or f.startswith('prop:' + p + ':') or (':' in p and f.startswith('prop:' + p)) for p in spec['prop']):
                out.append(f)
        elif f.startswith('corr:'):
            if f in spec['corr'] or any(f.startswith(c + ':') or f.startswith(c + '-') for c in spec['corr']):
                out.append(f)
        elif f.startswith(('driver:', 'model:')):
            out.append(f)
        elif f == 'impl:panic' and spec.get('panic_relevant', True):
            out.append(f)
    return out


def witness_still_fails(kid):
    vh = os.path.join(BUILD, 'vh')
    p = subprocess.run([vh, 'witness', '-mix', kid], stdout=subprocess.PIPE, stderr=subprocess.PIPE, text=True,
                       env=dict(GOENV, VERIF_ROOT=VERIF))
    if p.returncode != 0:
        return False
    q = subprocess.run([os.path.join(BUILD, 'driver')], input=p.stdout, stdout=subprocess.PIPE, text=True)
    for line in q.stdout.split('\n'):
        parts = line.split('\t')
        if len(parts) >= 3 and ('known:' + kid) in parts[2].split(','):
            return True
    return False


def load_known(prop):
    known, fixed = [], []
    p = os.path.join(VERIF, 'known-findings.txt')
    if os.path.exists(p):
        for line in open(p):
            line = line.strip()
            if line.startswith('known:') and ('property=' + prop + ' ') in line + ' ':
                kv = dict(x.split('=', 1) for x in line.split()[1:] if '=' in x)
                kv['text'] = line
                known.append(kv)
            elif line.startswith('fixed:') and ('property=' + prop + ' ') in line + ' ':
                fixed.append(line)
    return known, fixed


def write_replay(prop, seed, op, cid, fields, flags, note):
    os.makedirs(os.path.join(VERIF, 'replays'), exist_ok=True)
    path = os.path.join(VERIF, 'replays', '%s-%s-%s.json' % (prop, seed, re.sub(r'[^A-Za-z0-9_.-]', '_', cid)))
    json.dump({'property': prop, 'op': op, 'id': cid, 'flags': flags, 'note': note, 'case': fields,
               'replay_cmd': 'python3 scripts/check.py --replay ' + os.path.relpath(path, VERIF)}, open(path, 'w'), indent=1)
    return path


def replay(path):
    d = json.load(open(path))
    if not d.get('case'):
        print('nothing to run:', d.get('note'))
        return 0
    ok, out = build_harness()
    ok2, out2 = build_driver()
    if not (ok and ok2):
        print(out, out2)
        return 2
    line = '\t'.join(d['case']) + '\n'
    p = subprocess.run([os.path.join(BUILD, 'vh'), 'replay'], input=line, stdout=subprocess.PIPE, stderr=subprocess.PIPE, text=True,
                       env=dict(GOENV, VERIF_PP=os.path.join(BUILD, 'pp')))
    if p.returncode != 0:
        print('vh replay failed:', p.stderr)
        return 2
    q = subprocess.run([os.path.join(BUILD, 'driver')], input=p.stdout, stdout=subprocess.PIPE, text=True)
    print(q.stdout.strip())
    spec = PROPS[d['property']]
    bad = False
    for l in q.stdout.split('\n'):
        parts = l.split('\t')
        if len(parts) >= 3 and relevant([x for x in parts[2].split(',') if x], spec):
            bad = True
    print('REPRODUCED' if bad else 'not reproduced')
    return 1 if bad else 0


def main():
    if len(sys.argv) >= 3 and sys.argv[1] == '--replay':
        sys.exit(replay(sys.argv[2]))
    prop = sys.argv[1]
    tier = sys.argv[2] if len(sys.argv) > 2 else os.environ.get('VERIF_TIER', 'quick')
    seed = int(os.environ.get('VERIF_SEED', '1'))
    spec = PROPS[prop]
    t0 = time.time()
    try:
        resource.setrlimit(resource.RLIMIT_STACK, (resource.RLIM_INFINITY, resource.RLIM_INFINITY))
    except Exception:
        pass

    # ---- builds ----
    ok, out = build_coq(clean=False)
    proof_problems = []
    if not ok:
        proof_problems.append('make failed: ' + out.strip()[-800:])
    ok, out = build_driver()
    if not ok:
        log('driver build failed:\n' + out)
        sys.exit(2)
    ok, out = build_harness()
    if not ok:
        log('harness / repo build failed (not a verdict):\n' + out)
        sys.exit(2)

    # ---- 1. proof obligations ----
    obligations, discharged, problems, assumptions = check_proofs(prop, spec.get('extra_props', ()))
    proof_problems += problems
    bad = scan_forbidden()
    if bad:
        proof_problems.append('forbidden vernacular: ' + '; '.join(bad[:5]))
    if spec.get('tpl_check'):
        # Model/HtmlTpl.v is GENERATED from /repo/stack/goroutines.tpl (scripts/gen_html_tpl.sh): it must be current
        rc, out = run(['sh', os.path.join(VERIF, 'scripts', 'gen_html_tpl.sh'), '-check'], env=GOENV, timeout=600)
        if rc != 0:
            proof_problems.append('coq/theories/Model/HtmlTpl.v is not what scripts/gen_html_tpl.sh generates from /repo/stack/goroutines.tpl '
                                  '(the template literals of the page model no longer match the code): ' + out.strip()[-300:])
    if spec.get('regex_check'):
        # Spec/RegexDefs.v is GENERATED from the regexp.MustCompile literals of stack/context.go and stack/html.go
        # (scripts/gen_regex.py): a pattern that changed in the code makes the matcher theorems (C00_regex) moot
        rc, out = run(['python3', os.path.join(VERIF, 'scripts', 'gen_regex.py'), '--check'], timeout=120)
        if rc != 0:
            proof_problems.append('coq/theories/Spec/RegexDefs.v is not what scripts/gen_regex.py generates from the Go sources '
                                  '(a regular expression of the line grammar changed): ' + out.strip()[-300:])
    coqchk = None
    if tier == 'thorough' and spec.get('coqchk', True):
        coqchk = run_coqchk(prop)
        if coqchk and not coqchk['ok']:
            proof_problems.append('coqchk: ' + coqchk['out'][-400:])

    # ---- 2. correspondence + property predicates on implementation output ----
    total = 0
    nontrivial = set()
    tag_hist = {}
    samples = []
    failures = []   # (op, id, fields, relevant flags)
    corr_only = []
    op_stats = []
    known, fixed = load_known(prop)
    known_hits = {}
    for opspec in spec['ops']:
        op, nq, nt = opspec[0], opspec[1], opspec[2]
        extra = opspec[3] if len(opspec) > 3 else ()
        # thorough: ~12x the quick volume; ops marked 'exact' enumerate a finite space and take their full count
        exact = len(opspec) > 4 and opspec[4] == 'exact'
        n = (nt if exact else min(nt, 12 * nq)) if tier == 'thorough' else nq
        t1 = time.time()
        if op in HOOKED_OPS and not HOOKS['ok']:
            corr_only.append((op, 'hooks-unavailable', [], ['corr:hooks-unavailable'], HOOKS['note']))
            op_stats.append({'op': op, 'cases': 0, 'relevant_failures': 1, 'wall_s': 0, 'note': HOOKS['note']})
            continue
        cases, results = run_op(op, n, seed, tier, extra)
        total += len(results)
        nfail = 0
        for cid, (status, flags, tags, detail) in results.items():
            for t in tags:
                tag_hist[op + ':' + t] = tag_hist.get(op + ':' + t, 0) + 1
            nt_rule = spec.get('nontrivial')
            if (nt_rule is None and tags) or (nt_rule and any(t in tags or any(x.startswith(t) for x in tags) for t in nt_rule)):
                fields = cases.get(cid, [])
                nontrivial.add(hashlib.sha1('\t'.join(fields[2:2 + spec.get('input_fields', 2)]).encode()).hexdigest())
            if len(samples) < 3 and cid in cases:
                samples.append({'op': op, 'id': cid, 'input': [x[:300] for x in cases[cid][2:5]], 'tags': tags, 'result': status})
            rel = relevant(flags, spec)
            # known findings: flags of the form known:<id> are set by the driver when the narrow matcher applies
            kn = [f for f in flags if f.startswith('known:')]
            for k in kn:
                known_hits.setdefault(k[6:], []).append(cid)
            if rel:
                nfail += 1
                (failures if any(f.startswith(('prop:', 'impl:', 'driver:', 'model:')) for f in rel) else corr_only).append((op, cid, cases.get(cid, []), rel, detail))
        op_stats.append({'op': op, 'cases': len(results), 'relevant_failures': nfail, 'wall_s': round(time.time() - t1, 2)})

    # ---- 2b. race-detector driver (C14/C20: concurrency is exercised, not proved) ----
    race_info = None
    if spec.get('race_driver'):
        dur = '20s' if tier == 'thorough' else '2s'
        t1 = time.time()
        try:
            p = subprocess.run(['go', 'run', '-race'] + (['-tags', 'verif'] if HOOKS['ok'] else []) + ['./cmd/racedrv', dur], cwd=HARNESS, env=dict(GOENV, CGO_ENABLED='1'),
                               stdout=subprocess.PIPE, stderr=subprocess.STDOUT, text=True, timeout=900)
            out = p.stdout
            race_info = {'duration': dur, 'exit': p.returncode, 'data_race_reported': 'DATA RACE' in out, 'results_differ': 'results-differ' in out,
                         'wall_s': round(time.time() - t1, 1), 'tail': out[-400:]}
            total += 1
            if 'DATA RACE' in out or 'results-differ' in out or (p.returncode != 0 and 'racedrv done' not in out):
                failures.append(('racedrv', 'race-driver', [], ['prop:C14:data-race' if 'DATA RACE' in out else 'prop:C14:concurrent-results-differ'], out[-1500:]))
        except Exception as e:  # toolchain without cgo/race support: recorded, not a verdict
            race_info = {'error': str(e)}

    # ---- 3. verdict ----
    violations = []
    known_status = {}
    for k in known:
        kid = k.get('id', '?')
        # replay the recorded witness on the implementation: still failing?
        still = witness_still_fails(kid)
        known_status[kid] = {'witness_still_fails': still, 'hits_in_generated_cases': len(known_hits.get(kid, []))}
        if still or kid in known_hits:
            what = k['text'].split('witness=', 1)[-1].split(' ', 1)[-1]
            print('KNOWN-FINDING: property=%s id=%s %s' % (prop, kid, what))
    if failures:
        op, cid, fields, rel, detail = failures[0]
        path = write_replay(prop, seed, op, cid, fields, rel, 'property predicate false on implementation output / crash: ' + detail)
        violations.append('VIOLATION property=%s replay=%s' % (prop, os.path.relpath(path, VERIF)))
    elif corr_only or proof_problems:
        # the tie is broken; look harder for a failing input before giving up
        found = None
        if corr_only:
            for s2 in range(seed + 1000, seed + 1000 + spec.get('search_rounds', 1)):
                for opspec in spec['ops']:
                    if opspec[0] in HOOKED_OPS and not HOOKS['ok']:
                        continue
                    cases, results = run_op(opspec[0], opspec[1] * 2, s2, tier, opspec[3] if len(opspec) > 3 else ())
                    for cid, (status, flags, tags, detail) in results.items():
                        rel = relevant(flags, spec)
                        if any(f.startswith(('prop:', 'impl:')) for f in rel):
                            found = (opspec[0], cid, cases.get(cid, []), rel, detail, s2)
                            break
                    if found:
                        break
                if found:
                    break
        if found:
            op, cid, fields, rel, detail, s2 = found
            path = write_replay(prop, s2, op, cid, fields, rel, 'found by the widened search after a correspondence mismatch: ' + detail)
            violations.append('VIOLATION property=%s replay=%s' % (prop, os.path.relpath(path, VERIF)))
        else:
            if corr_only:
                op, cid, fields, rel, detail = corr_only[0]
                note = 'correspondence op %s no longer checks on projection %s (model and implementation differ); no input violating the property was found' % (op, ','.join(rel))
                path = write_replay(prop, seed, op, cid, fields, rel, note)
            else:
                note = 'proof obligation no longer checks: ' + ' | '.join(proof_problems)
                path = write_replay(prop, seed, 'proof', 'obligation', [], [], note)
            violations.append('VIOLATION property=%s replay=%s no-failing-input-found' % (prop, os.path.relpath(path, VERIF)))

    # ---- 4. evidence ----
    ev = {
        'property_id': prop, 'tier': tier, 'seed': seed, 'level': 'proof',
        'coverage': {
            'obligations': obligations, 'discharged': discharged if not proof_problems else min(discharged, max(obligations - 1, 0)),
            'checker_cmd': 'make -C coq -j16 && ' + ' && '.join('coqc -Q coq/theories PP coq/theories/Properties/%s.v' % x for x in (prop,) + tuple(spec.get('extra_props', ()))) + (' && coqchk -silent -o (thorough)' if tier == 'thorough' else ''),
            'trusted_base': TRUSTED_BASE + spec.get('trusted', []),
            'theorems': sorted(assumptions.keys()), 'assumptions_per_theorem': assumptions,
            'proof_problems': proof_problems,
            'evaluations': total, 'distinct_nontrivial': len(nontrivial),
            'rule': spec.get('rule', ''), 'samples': samples, 'ops': op_stats, 'tag_histogram': dict(sorted(tag_hist.items())),
            'correspondence_mismatches_on_projection': len(corr_only), 'property_failures': len(failures),
            'known_findings_reported': known_status, 'fixed_findings': fixed,
            'coqchk': coqchk, 'race_driver': race_info,
        },
        'assumptions': spec.get('assumptions', []),
        'wall_s': round(time.time() - t0, 2), 'violations': len(violations),
    }
    os.makedirs(os.path.join(VERIF, 'evidence'), exist_ok=True)
    json.dump(ev, open(os.path.join(VERIF, 'evidence', prop + '.json'), 'w'), indent=1)
    for v in violations:
        print(v)
    print('%s %s: %d obligations, %d discharged; %d cases, %d distinct non-trivial; %d violations; %.1fs' %
          (prop, tier, obligations, ev['coverage']['discharged'], total, len(nontrivial), len(violations), time.time() - t0))
    sys.exit(1 if violations else 0)


def run_coqchk(prop):
    """One coqchk run per state of the .vo files, shared by all thorough checks."""
    with Lock('coqchk'):
        h = hashlib.sha256()
        vos = []
        for d, _, fs in os.walk(os.path.join(COQ, 'theories')):
            for f in sorted(fs):
                if f.endswith('.vo'):
                    p = os.path.join(d, f)
                    vos.append(p)
        for p in sorted(vos):
            h.update(p.encode()); h.update(open(p, 'rb').read())
        key = h.hexdigest()
        cache = os.path.join(BUILD, 'coqchk-' + key[:16] + '.json')
        if os.path.exists(cache):
            return json.load(open(cache))
        mods = []
        for p in sorted(vos):
            rel = os.path.relpath(p, os.path.join(COQ, 'theories'))[:-3].replace('/', '.')
            if rel.startswith('Properties.'):
                mods.append('PP.' + rel)
        rc, out = run(['timeout', '5400', 'coqchk', '-silent', '-o', '-Q', os.path.join(COQ, 'theories'), 'PP'] + mods, timeout=5500)
        res = {'ok': rc == 0, 'out': out[-3000:], 'modules': mods}
        json.dump(res, open(cache, 'w'))
        return res


if __name__ == '__main__':
    main()
