(* Model/Augment.v — augmentCall, stack/source.go:242: consumes the flattened
   argument words according to the parameter types found in the sources.
   The go/parser + ast.Inspect part (getFuncAST, extractArgumentsType) is
   abstracted to its result: the list of parameter type names (receiver
   first for pointer receivers, one entry per declared name) and the
   variadic flag.  strconv.FormatFloat is an oracle on the bit pattern. *)
From PP Require Import Base.Bytes Base.BytesX Base.Num Base.GoResult Model.Types Model.UI.
From Coq Require Import String.

Section Augment.
  Variable fmt_float32 : N -> bytes.   (* FormatFloat(float64(Float32frombits(uint32 v)), 'g', -1, 32) *)
  Variable fmt_float64 : N -> bytes.

  (* Args.walk: the non-aggregate arguments, depth first *)
  Fixpoint arg_leaves (a : Arg) : list Arg :=
    match a with
    | MkArg ag _ _ _ _ _ fv _ _ =>
        if ag then (fix go (l : list Arg) : list Arg := match l with [] => [] | x :: l' => arg_leaves x ++ go l' end) fv
        else [a]
    end.
  Definition args_leaves (a : Args) : list Arg := flat_map arg_leaves (Values a).

  Definition pop_fmt (f : N -> bytes) (flat : list Arg) : bytes * list Arg :=
    match flat with
    | [] => (s2b "<nil>", [])
    | a :: flat' => ((if IsOffsetTooLarge a then s2b "_" else f (Value a)), flat')
    end.
  Definition pop_name (flat : list Arg) : bytes * list Arg :=
    match flat with
    | [] => (s2b "<nil>", [])
    | a :: flat' =>
        ((match Name a with
          | _ :: _ => Name a
          | [] => if IsOffsetTooLarge a then s2b "_" else s2b "0x" ++ N_to_hex false (Value a)
          end), flat')
    end.

  (* intN(v) for N = 8, 16, 32, 64 *)
  Definition signed (bits : N) (v : N) : Z :=
    let m := N.pow 2 bits in
    let w := N.modulo v m in
    if N.ltb w (N.pow 2 (bits - 1)) then Z.of_N w else (Z.of_N w - Z.of_N m)%Z.
  Definition udec (v : N) : bytes := N_to_dec v.

  Definition has_pfx (t : bytes) (p : string) : bool := has_prefix t (s2b p).

  (* one iteration for type t at index i: (string, remaining words) *)
  Definition augment_one (vals : list Arg) (i : nat) (t : bytes) (flat : list Arg) : bytes * list Arg :=
    if beq t (s2b "float32") then pop_fmt fmt_float32 flat
    else if beq t (s2b "float64") then pop_fmt fmt_float64 flat
    else if beq t (s2b "int") || beq t (s2b "int64") then pop_fmt (fun v => Z_to_dec (signed 64 v)) flat
    else if beq t (s2b "int8") then pop_fmt (fun v => Z_to_dec (signed 8 v)) flat
    else if beq t (s2b "int16") then pop_fmt (fun v => Z_to_dec (signed 16 v)) flat
    else if beq t (s2b "int32") then pop_fmt (fun v => Z_to_dec (signed 32 v)) flat
    else if beq t (s2b "uint") || beq t (s2b "uint8") || beq t (s2b "uint16") || beq t (s2b "uint32") || beq t (s2b "uint64")
      then pop_fmt udec flat
    else if beq t (s2b "bool") then pop_fmt (fun v => if N.eqb v 0 then s2b "false" else s2b "true") flat
    else if beq t (s2b "string") then
      let '(nm, f1) := pop_name flat in
      let '(ln, f2) := pop_fmt udec f1 in
      (t ++ s2b "(" ++ nm ++ s2b ", len=" ++ ln ++ s2b ")", f2)
    else if has_pfx t "*" || beq t (s2b "func") || has_pfx t "map[" || has_pfx t "chan " then
      let '(nm, f1) := pop_name flat in (t ++ s2b "(" ++ nm ++ s2b ")", f1)
    else if has_pfx t "[]" then
      let '(nm, f1) := pop_name flat in
      let '(ln, f2) := pop_fmt udec f1 in
      let '(cp, f3) := pop_fmt udec f2 in
      (t ++ s2b "(" ++ nm ++ s2b " len=" ++ ln ++ s2b " cap=" ++ cp ++ s2b ")", f3)
    else
      match nth_error vals i with
      | Some (MkArg true _ _ _ _ _ fv _ fe as a) =>
          (* one popName per leaf of the aggregate *)
          let n := List.length (arg_leaves a) in
          let fix popn (k : nat) (fl : list Arg) : list bytes * list Arg :=
            match k with
            | O => ([], fl)
            | S k' => let '(x, fl1) := pop_name fl in let '(xs, fl2) := popn k' fl1 in (x :: xs, fl2)
            end in
          let '(fields, f1) := popn n flat in
          (t ++ s2b "{" ++ join (fields ++ (if fe then [s2b "..."] else [])) (s2b ", ") ++ s2b "}", f1)
      | _ =>
          let '(nm, f1) := pop_name flat in
          (t ++ s2b "(" ++ nm ++ s2b ")", snd (pop_name f1))
      end.

  Fixpoint augment_loop (fuel : nat) (types : list bytes) (extra : bool) (vals : list Arg) (i : nat)
           (flat : list Arg) (acc : list bytes) : GoResult (list bytes) :=
    match flat with
    | [] => Ok acc
    | _ =>
      match fuel with
      | O => Panic "model: augment out of fuel"
      | S f =>
          match nth_error types i with
          | Some t => let '(s, fl) := augment_one vals i t flat in augment_loop f types extra vals (S i) fl (acc ++ [s])
          | None =>
              if negb extra then let '(s, fl) := pop_name flat in augment_loop f types extra vals (S i) fl (acc ++ [s])
              else match last_opt types with
                   | None => Panic "index out of range [-1]"
                   | Some t => let '(s, fl) := augment_one vals i t flat in augment_loop f types extra vals (S i) fl (acc ++ [s])
                   end
          end
      end
    end.

  (* the new Processed; Values are untouched by construction *)
  Definition augment_call (types : list bytes) (extra : bool) (a : Args) : GoResult (list bytes) :=
    let flat := args_leaves a in
    augment_loop (List.length flat + List.length (Values a) + List.length types + 2) types extra (Values a) 0 flat (Processed a).
End Augment.
