(* Properties/C06b.v — the scanner only produces well-formed snapshots; hence
   the whole-program sentence of C06 holds without the premise [scans_wf], and
   the hypotheses of C15 are met by every scanner output.  Statements only. *)
From PP Require Import Base.Bytes Base.GoResult Model.Types Model.Reader Model.ParseArgs Model.Scan Model.Names Model.ScanSnapshot.
From PP Require Import Model.Bucket Model.UI Model.Process.
From PP Require Import Spec.Wf Spec.NamesSpec.
From PP Require Import Proofs.DetProofs Proofs.ScanWf.
From Coq Require Import Permutation.

(* what parseArgs establishes of every non-aggregate argument, nested fields
   included: no pseudo-name yet; too large => not a pointer; otherwise IsPtr is
   the pointer heuristic on the value *)
Theorem C06b_good_scalar_def : forall a, good_scalar a <->
  Name a = [] /\
  (IsOffsetTooLarge a = true -> IsPtr a = false) /\
  (IsOffsetTooLarge a = false -> IsPtr a = is_ptr_value (Value a)).
Proof. intros a. reflexivity. Qed.
Print Assumptions C06b_good_scalar_def.

(* WfS s: all arguments of all calls of the main AND creator stacks of all goroutines *)
Theorem C06b_WfS_def : forall s, WfS s <->
  Forall (fun g =>
    Forall (fun c => Forall good_scalar (flat_map arg_scalars (Values (CArgs c)))) (Calls (CreatedBy (GSig g))) /\
    Forall (fun c => Forall good_scalar (flat_map arg_scalars (Values (CArgs c)))) (Calls (SStack (GSig g))))
    (goroutines s).
Proof. intros s. reflexivity. Qed.
Print Assumptions C06b_WfS_def.

Theorem C06b_parse_args_good : forall text a, parse_args text = inl a ->
  Forall good_scalar (flat_map arg_scalars (Values a)).
Proof. exact ScanWf.parse_args_good. Qed.
Print Assumptions C06b_parse_args_good.

Theorem C06b_WfS_initial : WfS ss0.
Proof. exact ScanWf.WfS_ss0. Qed.
Print Assumptions C06b_WfS_initial.

(* the invariant: every state, every line *)
Theorem C06b_scan_preserves_wf : forall s line s' l e,
  scan s line = Ok (s', l, e) -> WfS s -> WfS s'.
Proof. exact ScanWf.scan_preserves_wf. Qed.
Print Assumptions C06b_scan_preserves_wf.

(* every snapshot ScanSnapshot returns is well-formed, with (na = true) or
   without (na = false) NameArguments *)
Theorem C06b_scan_snapshot_wf : forall na src res,
  scan_snapshot na src = Ok res -> forall gs, snap res = Some gs -> wf_goroutines gs = true.
Proof. exact ScanWf.scan_snapshot_wf. Qed.
Print Assumptions C06b_scan_snapshot_wf.

(* the premise of C06_pipeline_functional is a theorem *)
Theorem C06b_scans_wf : scans_wf.
Proof. exact ScanWf.scans_wf_holds. Qed.
Print Assumptions C06b_scans_wf.

(* the whole program is a function of its input: no premise left *)
Theorem C06_pipeline_functional_unconditional : forall sh,
  (forall k l, Permutation (sh k l) l) ->
  forall o content, pp_run_sh sh o content = pp_run o content.
Proof. exact ScanWf.pipeline_functional_unconditional. Qed.
Print Assumptions C06_pipeline_functional_unconditional.

(* the hypotheses of C15_labelling / C15_consistent hold of every scanner output *)
Theorem C15_scanner_sets_no_name : forall src res gs,
  scan_snapshot false src = Ok res -> snap res = Some gs -> no_names gs = true.
Proof. exact ScanWf.scanner_sets_no_name. Qed.
Print Assumptions C15_scanner_sets_no_name.

Theorem C15_scanner_toolarge_not_ptr : forall src res gs,
  scan_snapshot false src = Ok res -> snap res = Some gs ->
  forall a, In a (all_scalars gs) -> IsOffsetTooLarge a = true -> IsPtr a = false.
Proof. exact ScanWf.scanner_toolarge_not_ptr. Qed.
Print Assumptions C15_scanner_toolarge_not_ptr.

Theorem C06b_scanner_isptr_heuristic : forall src res gs,
  scan_snapshot false src = Ok res -> snap res = Some gs ->
  forall a, In a (all_scalars gs) -> IsOffsetTooLarge a = false -> IsPtr a = is_ptr_value (Value a).
Proof. exact ScanWf.scanner_isptr_heuristic. Qed.
Print Assumptions C06b_scanner_isptr_heuristic.
