// op pppipe (C11 end to end): the real pp binary fed through an OS pipe that
// stays open: after each piece has been written, everything pp can already
// release (pass-through lines, the rendering of a finished dump, the lines
// after it) must arrive on stdout while stdin is still open.
// pppipe id content pieces | got-after-each-piece final exit
package main

import (
	"fmt"
	"io"
	"math/rand"
	"os"
	"os/exec"
	"strings"
	"sync"
	"syscall"
	"time"
)

type outBuf struct {
	mu sync.Mutex
	b  []byte
}

func (o *outBuf) Write(p []byte) (int, error) {
	o.mu.Lock()
	o.b = append(o.b, p...)
	o.mu.Unlock()
	return len(p), nil
}
func (o *outBuf) snapshot() string { o.mu.Lock(); defer o.mu.Unlock(); return string(o.b) }

// waitFor polls until the output ends with want (or the deadline passes)
func (o *outBuf) waitSuffix(want string, d time.Duration) bool {
	deadline := time.Now().Add(d)
	for time.Now().Before(deadline) {
		if strings.HasSuffix(o.snapshot(), want) {
			return true
		}
		time.Sleep(5 * time.Millisecond)
	}
	return strings.HasSuffix(o.snapshot(), want)
}

// emitPPPipe: pieces are written one by one; after piece i the output must end with expectTail[i]
// ("" = nothing to check for that piece)
func emitPPPipe(id string, pieces []string, expectTail []string) {
	args := []string{"-rebase=false", "-no-color"}
	// "fifo" cases: pp is given a FILE argument that is a named pipe (pp <(cmd), /dev/stdin, a FIFO)
	fifo := ""
	if strings.Contains(id, "fifo") {
		os.MkdirAll("/tmp/vhg", 0o755)
		fifo = fmt.Sprintf("/tmp/vhg/fifo-%d-%s", os.Getpid(), id)
		os.Remove(fifo)
		if err := syscall.Mkfifo(fifo, 0o600); err != nil {
			panic(err)
		}
		defer os.Remove(fifo)
		args = append(args, fifo)
	}
	cmd := exec.Command(os.Getenv("VERIF_PP"), args...)
	cmd.Env = []string{"PATH=/usr/bin:/bin", "HOME=/tmp", "GOTRACEBACK=all"}
	var stdin io.WriteCloser
	if fifo == "" {
		stdin, _ = cmd.StdinPipe()
	}
	ob := &outBuf{}
	cmd.Stdout = ob
	if err := cmd.Start(); err != nil {
		panic(err)
	}
	if fifo != "" {
		// blocks until pp has opened the pipe for reading
		f, err := os.OpenFile(fifo, os.O_WRONLY, 0)
		if err != nil {
			panic(err)
		}
		stdin = f
	}
	var oks []string
	for i, p := range pieces {
		io.WriteString(stdin, p)
		ok := "1"
		if expectTail[i] != "" && !ob.waitSuffix(expectTail[i], 3*time.Second) {
			ok = "0"
		}
		if expectTail[i] == "" {
			// nothing specific to wait for: let pp consume the piece (output quiescent for 150 ms)
			last, still := ob.snapshot(), 0
			for k := 0; k < 200 && still < 15; k++ {
				time.Sleep(10 * time.Millisecond)
				if cur := ob.snapshot(); cur == last {
					still++
				} else {
					last, still = cur, 0
				}
			}
		}
		oks = append(oks, ok)
	}
	stdin.Close()
	done := make(chan error, 1)
	go func() { done <- cmd.Wait() }()
	exit := "0"
	select {
	case err := <-done:
		if err != nil {
			exit = "1"
		}
	case <-time.After(10 * time.Second):
		cmd.Process.Kill()
		exit = "hang"
	}
	var hp, ht []string
	for i := range pieces {
		hp = append(hp, hexs([]byte(pieces[i])))
		ht = append(ht, hexs([]byte(expectTail[i])))
	}
	emit("pppipe", id, strings.Join(hp, ","), strings.Join(ht, ","), strings.Join(oks, ","), hexs([]byte(ob.snapshot())), exit)
}

func opPPPipe(r *rand.Rand, n int, tier string) {
	g := dgen{r}
	for i := 0; i < n; i++ {
		pre := genJunk(r, 1+r.Intn(3), true, false)
		v := dVariant{FileIndent: "\t"}
		dump := printDump(g.dump(1+r.Intn(3), 3), v, true)
		post := "after the dump 1\nafter the dump 2\n"
		var pieces, tails []string
		switch i % 5 {
		case 4: // a race report whose closing separator is the last byte of a piece; more input follows
			d := g.race()
			for len(d.Creations) == 0 {
				d = g.race()
			}
			pieces = []string{pre + printRace(d), post, "tail\n"}
			tails = []string{"", post, "tail\n"}
		case 0: // pass-through lines, then a piece cut mid-line: the complete lines must be out
			pieces = []string{pre + "partial li", "ne\n", dump + post}
			tails = []string{pre, "partial line\n", post}
		case 1: // dump and the lines after it in one piece, stdin stays open
			pieces = []string{pre, dump + post, "more\n"}
			tails = []string{pre, post, "more\n"}
		case 2: // the line that ends the dump arrives later
			pieces = []string{pre + dump[:len(dump)-1], "\nx\n", post}
			tails = []string{pre, "x\n", post}
		default: // one line at a time, the first pieces being very short complete lines ("\n", "a\n")
			pieces = append(pieces, "\n", "a\n")
			tails = append(tails, "\n", "a\n")
			ls := strings.SplitAfter(pre+post, "\n")
			for _, l := range ls {
				if l != "" {
					pieces = append(pieces, l)
					tails = append(tails, l)
				}
			}
		}
		id := fmt.Sprintf("pppipe-%d", i)
		if i%3 == 2 {
			id = fmt.Sprintf("pppipe-fifo-%d", i)
		}
		emitPPPipe(id, pieces, tails)
	}
}

func init() {
	replayers["pppipe"] = func(id string, in []string) {
		var ps, ts []string
		for _, h := range strings.Split(in[0], ",") {
			ps = append(ps, string(unhexs(h)))
		}
		for _, h := range strings.Split(in[1], ",") {
			ts = append(ts, string(unhexs(h)))
		}
		emitPPPipe(id, ps, ts)
	}
}
