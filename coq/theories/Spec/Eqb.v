(* Spec/Eqb.v — structural boolean equality of the model's data types (used by
   the spec predicates: "unchanged", "identical result"). *)
From PP Require Import Base.Bytes Model.Types.

Fixpoint list_eqb {A} (eqb : A -> A -> bool) (l1 l2 : list A) : bool :=
  match l1, l2 with
  | [], [] => true
  | x :: l1', y :: l2' => eqb x y && list_eqb eqb l1' l2'
  | _, _ => false
  end.

Definition func_eqb (a b : Func) : bool :=
  beq (Complete a) (Complete b) && beq (FImportPath a) (FImportPath b) && beq (DirName a) (DirName b) &&
  beq (FName a) (FName b) && Bool.eqb (IsExported a) (IsExported b) && Bool.eqb (IsPkgMain a) (IsPkgMain b).

Fixpoint arg_eqb (a b : Arg) {struct a} : bool :=
  match a, b with
  | MkArg g1 n1 v1 p1 t1 i1 fv1 fp1 fe1, MkArg g2 n2 v2 p2 t2 i2 fv2 fp2 fe2 =>
      Bool.eqb g1 g2 && beq n1 n2 && N.eqb v1 v2 && Bool.eqb p1 p2 && Bool.eqb t1 t2 && Bool.eqb i1 i2 &&
      (fix go (l1 l2 : list Arg) {struct l1} : bool :=
         match l1, l2 with
         | [], [] => true
         | x :: l1', y :: l2' => arg_eqb x y && go l1' l2'
         | _, _ => false
         end) fv1 fv2 &&
      list_eqb beq fp1 fp2 && Bool.eqb fe1 fe2
  end.

Definition args_eqb (a b : Args) : bool :=
  list_eqb arg_eqb (Values a) (Values b) && list_eqb beq (Processed a) (Processed b) && Bool.eqb (Elided a) (Elided b).

Definition call_eqb (a b : Call) : bool :=
  func_eqb (CFunc a) (CFunc b) && args_eqb (CArgs a) (CArgs b) && beq (RemoteSrcPath a) (RemoteSrcPath b) &&
  Z.eqb (Line a) (Line b) && beq (SrcName a) (SrcName b) && beq (DirSrc a) (DirSrc b) &&
  beq (LocalSrcPath a) (LocalSrcPath b) && beq (RelSrcPath a) (RelSrcPath b) && beq (CImportPath a) (CImportPath b) &&
  loc_eqb (CLocation a) (CLocation b).

Definition stack_eqb (a b : Stack) : bool := list_eqb call_eqb (Calls a) (Calls b) && Bool.eqb (SElided a) (SElided b).

Definition sig_eqb (a b : Signature) : bool :=
  beq (State a) (State b) && stack_eqb (CreatedBy a) (CreatedBy b) && Z.eqb (SleepMin a) (SleepMin b) &&
  Z.eqb (SleepMax a) (SleepMax b) && stack_eqb (SStack a) (SStack b) && Bool.eqb (Locked a) (Locked b).

Definition goroutine_eqb (a b : Goroutine) : bool :=
  sig_eqb (GSig a) (GSig b) && Z.eqb (ID a) (ID b) && Bool.eqb (First a) (First b) &&
  Bool.eqb (RaceWrite a) (RaceWrite b) && N.eqb (RaceAddr a) (RaceAddr b).

Definition goroutines_eqb := list_eqb goroutine_eqb.

Definition bucket_eqb (a b : Bucket) : bool :=
  sig_eqb (BSig a) (BSig b) && list_eqb Z.eqb (IDs a) (IDs b) && Bool.eqb (BFirst a) (BFirst b).
