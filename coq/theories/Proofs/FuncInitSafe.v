(* Proofs/FuncInitSafe.v — Func.Init never panics: the slice expressions of
   [func_init] are always in range (safety half of C03, symbol demangling). *)
From PP Require Import Base.Bytes Base.BytesX Base.GoResult Model.Types Model.FuncInit.
From Coq Require Import String.

(* ---------- path_unescape: fuel independence and unfolding equations ---------- *)

Lemma pu_go_fuel : forall f1 f2 s,
  List.length s < f1 -> List.length s < f2 ->
  path_unescape_go f1 s = path_unescape_go f2 s.
Proof.
  induction f1 as [|f1 IH]; intros f2 s H1 H2; [lia|].
  destruct f2 as [|f2]; [lia|].
  simpl. destruct s as [|c s']; [reflexivity|].
  simpl in H1, H2.
  destruct (N.eqb c 37).
  - destruct s' as [|h1 [|h2 s'']]; try reflexivity.
    destruct (is_hex h1 && is_hex h2); [|reflexivity].
    f_equal. apply IH; simpl in *; lia.
  - f_equal. apply IH; lia.
Qed.

Lemma pu_nil : path_unescape [] = Some [].
Proof. reflexivity. Qed.

Lemma pu_cons_other : forall c s, N.eqb c 37 = false ->
  path_unescape (c :: s) = option_map (cons c) (path_unescape s).
Proof.
  intros c s Hc. unfold path_unescape. simpl List.length.
  change (path_unescape_go (S (S (List.length s))) (c :: s))
    with (if N.eqb c 37 then
            match s with
            | h1 :: h2 :: s'' =>
                if is_hex h1 && is_hex h2
                then option_map (cons (hexval h1 * 16 + hexval h2)%N) (path_unescape_go (S (List.length s)) s'')
                else None
            | _ => None
            end
          else option_map (cons c) (path_unescape_go (S (List.length s)) s)).
  rewrite Hc. reflexivity.
Qed.

Lemma pu_cons_pct : forall h1 h2 s,
  path_unescape (37%N :: h1 :: h2 :: s) =
  if is_hex h1 && is_hex h2
  then option_map (cons (hexval h1 * 16 + hexval h2)%N) (path_unescape s)
  else None.
Proof.
  intros h1 h2 s. unfold path_unescape. simpl List.length.
  change (path_unescape_go (S (S (S (S (List.length s))))) (37%N :: h1 :: h2 :: s))
    with (if is_hex h1 && is_hex h2
          then option_map (cons (hexval h1 * 16 + hexval h2)%N) (path_unescape_go (S (S (S (List.length s)))) s)
          else None).
  destruct (is_hex h1 && is_hex h2); [|reflexivity].
  f_equal. apply pu_go_fuel; lia.
Qed.

Lemma pu_pct_short1 : path_unescape [37%N] = None.
Proof. reflexivity. Qed.

Lemma pu_pct_short2 : forall h, path_unescape [37%N; h] = None.
Proof. intros h. reflexivity. Qed.

Lemma is_hex_dot : is_hex 46 = false.
Proof. reflexivity. Qed.

(* An escape cannot straddle a '.', so unescaping splits at any '.' *)
Lemma pu_split_dot_n : forall n pre post c,
  List.length pre <= n ->
  path_unescape (pre ++ 46%N :: post) = Some c ->
  exists c1 c2,
    path_unescape pre = Some c1 /\ path_unescape post = Some c2 /\
    c = c1 ++ 46%N :: c2 /\
    List.length c1 + 2 * count_byte pre 37 = List.length pre.
Proof.
  induction n as [|n IH]; intros pre post c Hlen Hpu.
  - destruct pre as [|x pre']; [|simpl in Hlen; lia].
    simpl in Hpu. rewrite pu_cons_other in Hpu by reflexivity.
    destruct (path_unescape post) as [c2|] eqn:Hpost; [|discriminate].
    simpl in Hpu. injection Hpu as Hc.
    exists [], c2. repeat split; auto.
  - destruct pre as [|x pre'].
    + simpl in Hpu. rewrite pu_cons_other in Hpu by reflexivity.
      destruct (path_unescape post) as [c2|] eqn:Hpost; [|discriminate].
      simpl in Hpu. injection Hpu as Hc.
      exists [], c2. repeat split; auto.
    + simpl in Hlen. simpl app in Hpu.
      destruct (N.eqb x 37) eqn:Hx.
      * apply N.eqb_eq in Hx. subst x.
        destruct pre' as [|h1 [|h2 pre'']].
        -- simpl app in Hpu. destruct post as [|p post'].
           ++ rewrite pu_pct_short2 in Hpu. discriminate.
           ++ rewrite pu_cons_pct in Hpu. rewrite is_hex_dot in Hpu.
              rewrite andb_false_l in Hpu. discriminate.
        -- simpl app in Hpu. rewrite pu_cons_pct in Hpu. rewrite is_hex_dot in Hpu.
           rewrite andb_false_r in Hpu. discriminate.
        -- simpl app in Hpu. rewrite pu_cons_pct in Hpu.
           destruct (is_hex h1 && is_hex h2) eqn:Hhex; [|discriminate].
           destruct (path_unescape (pre'' ++ 46%N :: post)) as [c'|] eqn:Hrest; [|discriminate].
           simpl in Hpu. injection Hpu as Hc.
           simpl in Hlen.
           destruct (IH pre'' post c' ltac:(lia) Hrest) as (c1 & c2 & H1 & H2 & H3 & H4).
           exists ((hexval h1 * 16 + hexval h2)%N :: c1), c2.
           split; [|split; [|split]].
           ++ rewrite pu_cons_pct, Hhex, H1. reflexivity.
           ++ exact H2.
           ++ subst c c'. reflexivity.
           ++ assert (Hh1 : N.eqb h1 37 = false).
              { destruct (N.eqb h1 37) eqn:E; [|reflexivity]. apply N.eqb_eq in E. subst h1. discriminate. }
              assert (Hh2 : N.eqb h2 37 = false).
              { destruct (N.eqb h2 37) eqn:E; [|reflexivity]. apply N.eqb_eq in E. subst h2.
                rewrite andb_false_r in Hhex. discriminate. }
              simpl. rewrite Hh1, Hh2. simpl. lia.
      * rewrite pu_cons_other in Hpu by exact Hx.
        destruct (path_unescape (pre' ++ 46%N :: post)) as [c'|] eqn:Hrest; [|discriminate].
        simpl in Hpu. injection Hpu as Hc.
        destruct (IH pre' post c' ltac:(lia) Hrest) as (c1 & c2 & H1 & H2 & H3 & H4).
        exists (x :: c1), c2.
        split; [|split; [|split]].
        -- rewrite pu_cons_other by exact Hx. rewrite H1. reflexivity.
        -- exact H2.
        -- subst c c'. reflexivity.
        -- simpl. rewrite Hx. simpl. lia.
Qed.

Lemma pu_split_dot : forall pre post c,
  path_unescape (pre ++ 46%N :: post) = Some c ->
  exists c1 c2,
    path_unescape pre = Some c1 /\ path_unescape post = Some c2 /\
    c = c1 ++ 46%N :: c2 /\
    List.length c1 + 2 * count_byte pre 37 = List.length pre.
Proof. intros pre post c. apply (pu_split_dot_n (List.length pre)). apply le_n. Qed.

(* ---------- index_byte gives a split ---------- *)

Lemma index_byte_split : forall s c i,
  index_byte s c = Some i ->
  exists pre post, s = pre ++ c :: post /\ List.length pre = i.
Proof.
  induction s as [|x s IH]; intros c i H; simpl in H; [discriminate|].
  destruct (N.eqb x c) eqn:Hx.
  - injection H as Hi. apply N.eqb_eq in Hx. subst. exists [], s. split; reflexivity.
  - destruct (index_byte s c) as [j|] eqn:Hj; [|discriminate].
    simpl in H. injection H as Hi.
    destruct (IH c j Hj) as (pre & post & Hs & Hl).
    exists (x :: pre), post. subst. split; reflexivity.
Qed.

Lemma index_byte_skipn_split : forall k s c r,
  index_byte (skipn k s) c = Some r ->
  exists pre post, s = pre ++ c :: post /\ List.length pre = k + r.
Proof.
  induction k as [|k IH]; intros s c r H.
  - simpl in H. apply index_byte_split in H. exact H.
  - destruct s as [|x s]; [simpl in H; discriminate|].
    simpl in H. destruct (IH s c r H) as (pre & post & Hs & Hl).
    exists (x :: pre), post. subst. split; [reflexivity|simpl; lia].
Qed.

(* ---------- go_slice in range ---------- *)

Lemma go_slice_ok : forall s lo hi,
  (0 <= lo)%Z -> (lo <= hi)%Z -> (hi <= Z.of_nat (List.length s))%Z ->
  go_slice s lo hi = Ok (firstn (Z.to_nat hi - Z.to_nat lo) (skipn (Z.to_nat lo) s)).
Proof.
  intros s lo hi H1 H2 H3. unfold go_slice.
  apply Z.leb_le in H1, H2, H3. rewrite H1, H2, H3. reflexivity.
Qed.

(* ---------- the body of func_init after endPkg0 and Complete are known ---------- *)

Definition func_init_body (raw complete : bytes) (endPkg0 : Z) : GoResult (option Func) :=
  pre <- (if (0 <? endPkg0)%Z then go_slice raw 0 endPkg0 else Ok []) ;;
  let endPkg := if (0 <? endPkg0)%Z then (endPkg0 - 2 * Z.of_nat (count_byte pre b_percent))%Z else endPkg0 in
  ip <- (if (endPkg =? -1)%Z then Ok [] else go_slice complete 0 endPkg) ;;
  name0 <- go_slice complete (endPkg + 1) (Z.of_nat (List.length complete)) ;;
  let name :=
    match last_index_byte name0 b_space with
    | Some idx =>
        let cut := firstn idx name0 in
        match strip_suffix in_goroutine_suffix cut with
        | Some n => n
        | None => name0
        end
    | None => name0
    end in
  let dir := match last_index_byte ip b_slash with Some i => skipn (S i) ip | None => ip end in
  let is_main := beq ip (s2b "main") in
  let exported :=
    if is_main then beq name (s2b "main")
    else match last_opt (split name [b_dot]) with
         | Some part => first_rune_upper_fixed part
         | None => true
         end in
  Ok (Some (mkFunc complete ip dir name exported is_main)).

Definition end_pkg0 (raw : bytes) : option Z :=
  match last_index_byte raw b_slash with
  | Some ls =>
      match index_byte (skipn (S ls) raw) b_dot with
      | None => None
      | Some r => Some (Z.of_nat ls + Z.of_nat r + 1)%Z
      end
  | None =>
      Some (match index_byte raw b_dot with Some i => Z.of_nat i | None => (-1)%Z end)
  end.

Lemma func_init_unfold : forall raw,
  func_init raw =
  match end_pkg0 raw with
  | None => Ok None
  | Some e =>
      match path_unescape raw with
      | None => Ok None
      | Some complete => func_init_body raw complete e
      end
  end.
Proof. intros raw. reflexivity. Qed.

(* endPkg0 is -1 or the position of a '.' in raw *)
Lemma end_pkg0_shape : forall raw e,
  end_pkg0 raw = Some e ->
  e = (-1)%Z \/
  exists pre post, raw = pre ++ 46%N :: post /\ Z.of_nat (List.length pre) = e.
Proof.
  intros raw e H. unfold end_pkg0 in H.
  destruct (last_index_byte raw b_slash) as [ls|] eqn:Hls.
  - destruct (index_byte (skipn (S ls) raw) b_dot) as [r|] eqn:Hr; [|discriminate].
    injection H as He. right.
    destruct (index_byte_skipn_split _ _ _ _ Hr) as (pre & post & Hs & Hl).
    exists pre, post. split; [exact Hs|]. rewrite Hl. lia.
  - injection H as He.
    destruct (index_byte raw b_dot) as [i|] eqn:Hi.
    + right. destruct (index_byte_split _ _ _ Hi) as (pre & post & Hs & Hl).
      exists pre, post. split; [exact Hs|]. rewrite Hl. exact He.
    + left. symmetry. exact He.
Qed.

Lemma firstn_app_exact : forall (A : Type) (l1 l2 : list A), firstn (List.length l1) (l1 ++ l2) = l1.
Proof.
  intros A l1 l2. induction l1 as [|x l1 IH]; simpl; [destruct l2; reflexivity|].
  now rewrite IH.
Qed.

Lemma func_init_body_ok_neg : forall raw complete,
  exists f, func_init_body raw complete (-1) = Ok (Some f).
Proof.
  intros raw complete. unfold func_init_body.
  change (0 <? -1)%Z with false. cbv iota. unfold bind at 1.
  change (-1 =? -1)%Z with true. cbv iota. unfold bind at 1.
  rewrite go_slice_ok; [|simpl; lia|simpl; lia|lia].
  unfold bind. eexists. reflexivity.
Qed.

Lemma func_init_body_ok_dot : forall pre post complete,
  path_unescape (pre ++ 46%N :: post) = Some complete ->
  exists f, func_init_body (pre ++ 46%N :: post) complete (Z.of_nat (List.length pre)) = Ok (Some f).
Proof.
  intros pre post complete Hpu.
  destruct (pu_split_dot _ _ _ Hpu) as (c1 & c2 & H1 & H2 & Hc & Hlen).
  unfold func_init_body.
  (* first slice: raw[:endPkg0] = pre *)
  assert (Hpre : (if (0 <? Z.of_nat (List.length pre))%Z
                  then go_slice (pre ++ 46%N :: post) 0 (Z.of_nat (List.length pre))
                  else Ok []) = Ok pre).
  { destruct (0 <? Z.of_nat (List.length pre))%Z eqn:Hpos.
    - rewrite go_slice_ok; [|lia|lia|rewrite app_length; lia].
      f_equal. change (Z.to_nat 0) with 0. rewrite Nat.sub_0_r. simpl skipn.
      rewrite Nat2Z.id. apply firstn_app_exact.
    - apply Z.ltb_ge in Hpos. destruct pre; [reflexivity|simpl in Hpos; lia]. }
  rewrite Hpre. unfold bind at 1.
  (* endPkg = length c1 *)
  assert (Hend : (if (0 <? Z.of_nat (List.length pre))%Z
                  then (Z.of_nat (List.length pre) - 2 * Z.of_nat (count_byte pre b_percent))%Z
                  else Z.of_nat (List.length pre)) = Z.of_nat (List.length c1)).
  { unfold b_percent. destruct (0 <? Z.of_nat (List.length pre))%Z eqn:Hpos.
    - lia.
    - apply Z.ltb_ge in Hpos. lia. }
  rewrite Hend.
  assert (Hne : (Z.of_nat (List.length c1) =? -1)%Z = false) by (apply Z.eqb_neq; lia).
  rewrite Hne.
  assert (Hclen : List.length complete = List.length c1 + S (List.length c2)).
  { subst complete. rewrite app_length. reflexivity. }
  rewrite go_slice_ok; [|lia|lia|lia].
  unfold bind at 1.
  rewrite go_slice_ok; [|lia|lia|lia].
  unfold bind. eexists. reflexivity.
Qed.

Theorem func_init_total : forall raw, exists r, func_init raw = Ok r.
Proof.
  intros raw. rewrite func_init_unfold.
  destruct (end_pkg0 raw) as [e|] eqn:He; [|eexists; reflexivity].
  destruct (path_unescape raw) as [complete|] eqn:Hpu; [|eexists; reflexivity].
  destruct (end_pkg0_shape _ _ He) as [Hneg | (pre & post & Hraw & Hl)].
  - subst e. destruct (func_init_body_ok_neg raw complete) as (f & Hf).
    exists (Some f). exact Hf.
  - subst e raw. destruct (func_init_body_ok_dot _ _ _ Hpu) as (f & Hf).
    exists (Some f). exact Hf.
Qed.

(* Sharper: the result is [None] exactly in the two rejected shapes. *)
Theorem func_init_shape : forall raw,
  (func_init raw = Ok None /\ (end_pkg0 raw = None \/ path_unescape raw = None)) \/
  (exists f, func_init raw = Ok (Some f)).
Proof.
  intros raw. rewrite func_init_unfold.
  destruct (end_pkg0 raw) as [e|] eqn:He; [|left; split; [reflexivity|left; reflexivity]].
  destruct (path_unescape raw) as [complete|] eqn:Hpu; [|left; split; [reflexivity|right; reflexivity]].
  right.
  destruct (end_pkg0_shape _ _ He) as [Hneg | (pre & post & Hraw & Hl)].
  - subst e. apply func_init_body_ok_neg.
  - subst e raw. apply func_init_body_ok_dot. exact Hpu.
Qed.
