(* Properties/C19b.v — C19, the part Model/Augment.v took as given: which
   function declaration getFuncAST selects for a traceback line and frame name,
   and which type names extractArgumentsType computes from it
   (Model/Source.v), and the composition with augment_call.  Statements only.

   Reading guide.  Let off be lineToByteOffset[l], the byte offset of the
   first byte of line l, and let positions be token.Pos values (offset + 1).
   The walk of getFuncAST (get_func_ast_at, the RAW selection) returns, on a
   file as go/parser produces it (wf_file),
       the LAST top-level FuncDecl whose func keyword has Pos < off,
       provided some node of the file has Pos >= off;  nothing otherwise
   (C19_select_spec): declaration k from the line AFTER the one holding its
   func keyword up to and including the line on which the next declaration
   starts, function literals never count, the closing lines of the last
   declaration select nothing (C19_select_last).  Since commit 12f3b86 the raw
   selection is kept only if matchFuncDecl says it declares the function the
   FRAME names (C19_selected_matches_frame); so the frames the raw selection
   attributes to a neighbour -- a function written on one line, the func
   keyword line (top frame of a stack overflow), function literals, code of
   later var declarations -- stay unaugmented instead of being rendered with
   the neighbour's types (C19_func_keyword_line_unaugmented,
   C19_one_line_func_unaugmented, C19_wrong_name_unaugmented), while a frame
   inside its own declaration keeps its types (C19_select_enclosing,
   C19_match_complete_func, C19_match_complete_method).  Since commit 4cb43b4 a receiver list that does not
   have one field yields no types instead of a panic (C19_source_total is
   unconditional). *)
From PP Require Import Base.Bytes Base.BytesX Base.Num Base.GoResult Model.Types Model.UI Model.Augment Model.Source Spec.Abi.
From PP Require Import Proofs.AugmentProofs Proofs.SourceProofs.
From Coq Require Import String.

(* ---- totality ---- *)

(* for every offset table, tree, line and frame name: no panic *)
Theorem C19_source_total : forall offsets root l f, exists r, source_types offsets root l f = Ok r.
Proof. exact SourceProofs.source_total. Qed.
Print Assumptions C19_source_total.

(* a receiver list that does not have exactly one field (go/parser accepts
   "func () m()" and "func (a A, b B) m()"): no types, not variadic *)
Theorem C19_extract_bad_receiver : forall d, recv_wf d = false -> extract_arguments_type d = ([], false).
Proof. exact SourceProofs.extract_bad_receiver. Qed.
Print Assumptions C19_extract_bad_receiver.

(* recv[2 : len(recv)-1] in matchFuncDecl is evaluated only within bounds *)
Theorem C19_match_slice_in_range : forall recv,
  has_prefix recv OPEN_STAR = true -> has_suffix recv CLOSE = true -> 2 <= List.length recv - 1.
Proof. exact SourceProofs.peel_in_range. Qed.
Print Assumptions C19_match_slice_in_range.

(* ---- the line is beyond the file ---- *)
Theorem C19_overline : forall offsets root l f,
  source_types offsets root l f = Ok SrcErr <-> List.length offsets <= l.
Proof. exact SourceProofs.source_overline_iff. Qed.
Print Assumptions C19_overline.

(* len(lineToByteOffsets(src)) = 2 + number of line feeds: the error is raised
   from line (number of LF) + 2 on; nothing is selected, the frame stays as it was *)
Theorem C19_overline_src : forall src root l f,
  source_types (line_offsets src) root l f = Ok SrcErr <-> 2 + count_byte src LF <= l.
Proof.
  intros src root l f. rewrite SourceProofs.source_overline_iff, SourceProofs.line_offsets_length. reflexivity.
Qed.
Print Assumptions C19_overline_src.

(* every offset after the two leading zeros is the byte after a line feed *)
Theorem C19_line_offsets_after_lf : forall src k off,
  nth_error (line_offsets src) (S (S k)) = Some off ->
  (0 < off)%N /\ (off <= N.of_nat (List.length src))%N /\ nth_error src (N.to_nat off - 1) = Some LF.
Proof. exact SourceProofs.line_offsets_lf. Qed.
Print Assumptions C19_line_offsets_after_lf.

(* the comparison of a Pos (offset + 1) with an offset: same answer as the
   comparison of the node's offset, unless the node starts on a line feed *)
Theorem C19_pos_off_by_one_harmless : forall src l off b c,
  nth_error (line_offsets src) l = Some off ->
  nth_error src (N.to_nat b) = Some c -> c <> LF ->
  N.leb off (b + 1) = N.leb off b.
Proof. exact SourceProofs.pos_off_by_one_harmless. Qed.
Print Assumptions C19_pos_off_by_one_harmless.

(* ---- the raw selection (the ast.Inspect walk) ---- *)

(* the complete characterisation on well-positioned files *)
Theorem C19_select_spec : forall off root,
  wf_file root = true -> get_func_ast_at off root = select_spec off root.
Proof. exact SourceProofs.get_func_ast_spec. Qed.
Print Assumptions C19_select_spec.

(* whatever is selected is a FuncDecl node of the file whose func keyword
   lies before the line (any tree) *)
Theorem C19_selected_is_member : forall off root p d,
  get_func_ast_at off root = AstFound p d -> In (p, d) (funcdecls root) /\ (p < off)%N.
Proof. exact SourceProofs.selected_is_member. Qed.
Print Assumptions C19_selected_is_member.

(* the line that holds the func keyword of the NEXT function still selects the previous one *)
Theorem C19_func_keyword_line_selects_previous : forall off p0 pre pj fj chj pk fk chk post,
  wf_file (Node p0 KOther (pre ++ Node pj (KFuncDecl fj) chj :: Node pk (KFuncDecl fk) chk :: post)) = true ->
  (pj < off)%N -> (off <= pk)%N ->
  get_func_ast_at off (Node p0 KOther (pre ++ Node pj (KFuncDecl fj) chj :: Node pk (KFuncDecl fk) chk :: post)) =
  AstFound pj fj.
Proof.
  intros off p0 pre pj fj chj pk fk chk post Hwf Hlt Hle.
  apply SourceProofs.select_enclosing; assumption.
Qed.
Print Assumptions C19_func_keyword_line_selects_previous.

(* the last declaration of the file: selected only while one of its nodes is
   at or after the line start; the closing lines select nothing *)
Theorem C19_select_last : forall off p0 pre pk fd ch,
  wf_file (Node p0 KOther (pre ++ [Node pk (KFuncDecl fd) ch])) = true ->
  (pk < off)%N ->
  get_func_ast_at off (Node p0 KOther (pre ++ [Node pk (KFuncDecl fd) ch])) =
  if exists_ge_list off ch then AstFound pk fd else AstNone.
Proof. exact SourceProofs.select_last. Qed.
Print Assumptions C19_select_last.

(* a line that starts before every func keyword selects nothing (any tree) *)
Theorem C19_select_none_before_first : forall off root,
  Forall (fun x => (off <= fst x)%N) (funcdecls root) -> get_func_ast_at off root = AstNone.
Proof. exact SourceProofs.select_none_before_first. Qed.
Print Assumptions C19_select_none_before_first.

(* ---- the selection after the name filter ---- *)

(* the types used for a frame are those of a declaration of the file that
   declares the function the frame names: same function name (the last
   dot-component once "[...]" is removed), exactly one receiver field or none,
   and the receiver is printed as the frame prints it -- recv_text d is
   Some [] for a plain function, Some "T" for a value receiver T / T[..],
   Some (OPEN_STAR ++ "T" ++ CLOSE) for a pointer receiver *T / *T[..] *)
Theorem C19_selected_matches_frame : forall offsets root l f p nm ts ell,
  source_types offsets root l f = Ok (SrcTypes p nm ts ell) ->
  exists d, In (p, d) (funcdecls root) /\ match_func_decl d f = true /\
            nm = fd_name d /\ nm = last_component f /\ recv_wf d = true /\
            recv_text d = Some (recv_part f) /\ (ts, ell) = extract_arguments_type d.
Proof. exact SourceProofs.selected_matches_frame. Qed.
Print Assumptions C19_selected_matches_frame.

(* two declarations matching the same frame name have the same name and the same printed receiver *)
Theorem C19_match_injective : forall d1 d2 f,
  match_func_decl d1 f = true -> match_func_decl d2 f = true ->
  fd_name d1 = fd_name d2 /\ recv_text d1 = recv_text d2.
Proof. exact SourceProofs.match_injective. Qed.
Print Assumptions C19_match_injective.

(* the name the runtime prints for a declaration matches it: functions
   ("f", "F[...]") and methods ("T.m", "T[...].m", and the same with the receiver wrapped in OPEN_STAR .. CLOSE) *)
Theorem C19_match_complete_func : forall d f,
  fd_recv d = None -> strip_tparams f = fd_name d -> ~ In DOT (fd_name d) -> match_func_decl d f = true.
Proof. exact SourceProofs.match_complete_func. Qed.
Print Assumptions C19_match_complete_func.

Theorem C19_match_complete_method : forall d f r b,
  fd_recv d = Some [r] -> recv_base (f_type r) = Some b ->
  strip_tparams f = (if is_star (f_type r) then OPEN_STAR ++ b ++ CLOSE else b) ++ DOT :: fd_name d ->
  ~ In DOT (fd_name d) -> match_func_decl d f = true.
Proof. exact SourceProofs.match_complete_method. Qed.
Print Assumptions C19_match_complete_method.

(* no declaration of the file has the function name of the frame: never
   augmented.  Function literals "outer.funcN" (no function is called funcN),
   method-value wrappers "T.m-fm", "init.0", hostile names *)
Theorem C19_wrong_name_unaugmented : forall offsets root l f,
  (forall p d, In (p, d) (funcdecls root) -> fd_name d <> last_component f) ->
  source_types offsets root l f = Ok SrcNone \/ source_types offsets root l f = Ok SrcErr.
Proof. exact SourceProofs.wrong_name_unaugmented. Qed.
Print Assumptions C19_wrong_name_unaugmented.

(* the line starts after the func keyword of declaration k and not after the
   start of the next declaration, and the frame names k: exactly k's types *)
Theorem C19_select_enclosing : forall offsets l f off p0 pre pk fd ch nxt post,
  nth_error offsets l = Some off ->
  wf_file (Node p0 KOther (pre ++ Node pk (KFuncDecl fd) ch :: nxt :: post)) = true ->
  (pk < off)%N -> (off <= node_pos nxt)%N ->
  match_func_decl fd f = true ->
  source_types offsets (Node p0 KOther (pre ++ Node pk (KFuncDecl fd) ch :: nxt :: post)) l f =
  Ok (SrcTypes pk (fd_name fd) (fst (extract_arguments_type fd)) (snd (extract_arguments_type fd))).
Proof. exact SourceProofs.select_enclosing_types. Qed.
Print Assumptions C19_select_enclosing.

(* a line at or before the func keyword of k and after that of j (j directly
   before k) -- the line of a one-line function k, the func keyword line of k:
   a frame that does not name j gets nothing, never j's types *)
Theorem C19_func_keyword_line_unaugmented : forall offsets l f off p0 pre pj fj chj pk fk chk post,
  nth_error offsets l = Some off ->
  wf_file (Node p0 KOther (pre ++ Node pj (KFuncDecl fj) chj :: Node pk (KFuncDecl fk) chk :: post)) = true ->
  (pj < off)%N -> (off <= pk)%N ->
  match_func_decl fj f = false ->
  source_types offsets (Node p0 KOther (pre ++ Node pj (KFuncDecl fj) chj :: Node pk (KFuncDecl fk) chk :: post)) l f =
  Ok SrcNone.
Proof. exact SourceProofs.func_keyword_line_unaugmented. Qed.
Print Assumptions C19_func_keyword_line_unaugmented.

(* in particular a frame named after k, when k differs from j by name or by printed receiver *)
Theorem C19_one_line_func_unaugmented : forall offsets l f off p0 pre pj fj chj pk fk chk post,
  nth_error offsets l = Some off ->
  wf_file (Node p0 KOther (pre ++ Node pj (KFuncDecl fj) chj :: Node pk (KFuncDecl fk) chk :: post)) = true ->
  (pj < off)%N -> (off <= pk)%N ->
  match_func_decl fk f = true ->
  (fd_name fj <> fd_name fk \/ recv_text fj <> recv_text fk) ->
  source_types offsets (Node p0 KOther (pre ++ Node pj (KFuncDecl fj) chj :: Node pk (KFuncDecl fk) chk :: post)) l f =
  Ok SrcNone.
Proof. exact SourceProofs.one_line_func_unaugmented. Qed.
Print Assumptions C19_one_line_func_unaugmented.

(* ---- the type list ---- *)

(* one entry per declared name (one for an unnamed field), preceded by the
   receiver when it is a pointer; the flag is that of the last field; each
   entry is what fieldToType yields for one of the fields *)
Theorem C19_types_shape : forall d types ell,
  recv_wf d = true ->
  extract_arguments_type d = (types, ell) ->
  types = flat_map field_types (arg_fields d) /\
  List.length types = list_sum (map mult (arg_fields d)) /\
  ell = match last_opt (arg_fields d) with Some f => is_ellipsis (f_type f) | None => false end /\
  ell = match last_opt (fd_params d) with Some f => is_ellipsis (f_type f) | None => false end /\
  (ell = true -> types <> []) /\
  Forall (fun t => exists f, In f (arg_fields d) /\ t = fst (field_to_type (f_type f))) types.
Proof. exact SourceProofs.types_shape. Qed.
Print Assumptions C19_types_shape.

(* a variadic signature has at least one entry, for EVERY declaration: the hypothesis of C19_total *)
Theorem C19_variadic_nonempty : forall d types ell,
  extract_arguments_type d = (types, ell) -> ell = true -> types <> [].
Proof. exact SourceProofs.extract_variadic_nonempty. Qed.
Print Assumptions C19_variadic_nonempty.

(* extractArgumentsType followed by augmentCall never panics, whatever the
   declaration and the argument words *)
Theorem C19_extract_then_augment_total : forall f32 f64 d a,
  exists r, augment_call f32 f64 (fst (extract_arguments_type d)) (snd (extract_arguments_type d)) a = Ok r.
Proof. exact SourceProofs.extract_then_augment_total. Qed.
Print Assumptions C19_extract_then_augment_total.

(* C19_truthful with the type list COMPUTED from the declaration: a function
   (or value-receiver method) whose fields are written with the types of the
   supported kinds renders every value truthfully *)
Theorem C19_types_compose : forall f32 f64 isptr d ps,
  (fd_recv d = None \/ exists r, fd_recv d = Some [r] /\ is_star (f_type r) = false) ->
  params_match (fd_params d) ps ->
  forallb wf_param ps = true ->
  augment_call f32 f64 (fst (extract_arguments_type d)) (snd (extract_arguments_type d))
               (args_of_words isptr (flat_map encode ps)) = Ok (map (show f32 f64) ps).
Proof. exact SourceProofs.types_compose. Qed.
Print Assumptions C19_types_compose.

Theorem C19_types_compose_ptr_receiver : forall f32 f64 isptr d n x recv ps,
  fd_recv d = Some [mkField n (TStar x)] -> n <= 1 ->
  params_match (fd_params d) ps ->
  word_ok recv = true -> forallb wf_param ps = true ->
  augment_call f32 f64 (fst (extract_arguments_type d)) (snd (extract_arguments_type d))
               (args_of_words isptr (recv :: flat_map encode ps)) =
  Ok (((s2b "*" ++ Source.type_name x) ++ s2b "(" ++ hex0x recv ++ s2b ")") :: map (show f32 f64) ps).
Proof. exact SourceProofs.types_compose_ptr_receiver. Qed.
Print Assumptions C19_types_compose_ptr_receiver.

(* ---- examples: a file as op ast abstracts it (go/parser's own output) ---- *)
Definition ln (s : string) : bytes := s2b s ++ [LF].
Definition tb (s : string) : bytes := 9%N :: s2b s ++ [LF].
Definition ex_src : bytes :=
  ln "package p" ++ ln "" ++
  ln "func a(s string) {" ++ tb "mark()" ++ ln "}" ++ ln "" ++
  ln "func (t *T) b(x, y int, rest ...string) { panic(x) }" ++ ln "" ++
  ln "var g = func(q int) {" ++ tb "mark()" ++ ln "}" ++ ln "" ++
  ln "func c(m map[string]int, _ [4]pkg.T) {" ++ tb "mark()" ++ ln "}".

Definition ex_a := mkFuncDecl (s2b "a") None [mkField 1 (TIdent (s2b "string"))].
Definition ex_b := mkFuncDecl (s2b "b") (Some [mkField 1 (TStar (TIdent (s2b "T")))])
                              [mkField 2 (TIdent (s2b "int")); mkField 1 (TEllipsis (Some (TIdent (s2b "string"))))].
Definition ex_c := mkFuncDecl (s2b "c") None
                              [mkField 1 (TMap (TIdent (s2b "string")) (TIdent (s2b "int")));
                               mkField 1 (TArray (Some (TBasicLit (s2b "4"))) (TSelector (s2b "T")))].

Local Open Scope N_scope.
Definition ex_tree : node :=
  Node 1 KOther
    [Node 9 KOther [];
     Node 12 (KFuncDecl ex_a)
       [Node 17 KOther [];
        Node 12 KOther [Node 18 KOther [Node 19 KOther [Node 19 KOther []; Node 21 KOther []]]];
        Node 29 KOther [Node 32 KOther [Node 32 KOther [Node 32 KOther []]]]];
     Node 42 (KFuncDecl ex_b)
       [Node 47 KOther [Node 48 KOther [Node 48 KOther []; Node 50 KOther [Node 51 KOther []]]];
        Node 54 KOther [];
        Node 42 KOther
          [Node 55 KOther
             [Node 56 KOther [Node 56 KOther []; Node 59 KOther []; Node 61 KOther []];
              Node 66 KOther [Node 66 KOther []; Node 71 KOther [Node 74 KOther []]]]];
        Node 82 KOther [Node 84 KOther [Node 84 KOther [Node 84 KOther []; Node 90 KOther []]]]];
     Node 96 KOther
       [Node 100 KOther
          [Node 100 KOther [];
           Node 104 KOther
             [Node 104 KOther [Node 108 KOther [Node 109 KOther [Node 109 KOther []; Node 111 KOther []]]];
              Node 116 KOther [Node 119 KOther [Node 119 KOther [Node 119 KOther []]]]]]];
     Node 129 (KFuncDecl ex_c)
       [Node 134 KOther [];
        Node 129 KOther
          [Node 135 KOther
             [Node 136 KOther [Node 136 KOther []; Node 138 KOther [Node 142 KOther []; Node 149 KOther []]];
              Node 154 KOther
                [Node 154 KOther [];
                 Node 156 KOther [Node 157 KOther []; Node 159 KOther [Node 159 KOther []; Node 163 KOther []]]]]];
        Node 166 KOther [Node 169 KOther [Node 169 KOther [Node 169 KOther []]]]]].

Example C19_ex_offsets :
  line_offsets ex_src = [0; 0; 10; 11; 30; 38; 40; 41; 94; 95; 117; 125; 127; 128; 167; 175; 177].
Proof. vm_compute. reflexivity. Qed.

Example C19_ex_wf : wf_file ex_tree = true.
Proof. vm_compute. reflexivity. Qed.
Local Close Scope N_scope.

(* lines 0..18 of the file queried with the name of the frame that can carry
   the line: exactly what stack.VerifFuncTypes returns *)
Definition ex_res_a := SrcTypes 12 (s2b "a") [s2b "string"] false.
Definition ex_res_b := SrcTypes 42 (s2b "b") (map s2b ["*T"; "int"; "int"; "string"]%string) true.
Definition ex_res_c := SrcTypes 129 (s2b "c") (map s2b ["map[string]int"; "[4]T"]%string) false.
(* pn "T" "b" is the name a traceback prints for method b with a pointer receiver T; op s prefixes s with OPEN_STAR *)
Definition op (s : string) : bytes := OPEN_STAR ++ s2b s.
Definition pn (t m : string) : bytes := op t ++ CLOSE ++ DOT :: s2b m.
Definition ex_qb (l : nat) (f : bytes) := source_types (line_offsets ex_src) ex_tree l f.
Definition ex_q (l : nat) (f : string) := ex_qb l (s2b f).
Example C19_ex_all_lines :
  [ex_q 0 "a"; ex_q 1 "a"; ex_q 2 "a"; ex_q 3 "a";
   ex_q 4 "a"; ex_q 5 "a"; ex_q 6 "a";
   ex_qb 7 (pn "T" "b"); ex_qb 8 (pn "T" "b");
   ex_q 9 "init.func1"; ex_q 10 "init.func1"; ex_q 11 "init.func1";
   ex_qb 12 (pn "T" "b"); ex_q 13 "c"; ex_q 14 "c"; ex_q 15 "c"; ex_q 16 "c"; ex_q 17 "c"; ex_q 18 "c"] =
  map Ok [SrcNone; SrcNone; SrcNone; SrcNone;             (* 0-2, and 3: the line of "func a" *)
          ex_res_a; ex_res_a; ex_res_a;                    (* 4-6: body of a, closing brace, blank line *)
          SrcNone;                                         (* 7: the one-line method b: unaugmented *)
          ex_res_b;                                        (* 8: blank *)
          SrcNone; SrcNone; SrcNone;                       (* 9-11: var g = func(q int) {...}: unaugmented *)
          ex_res_b;                                        (* 12: blank *)
          SrcNone;                                         (* 13: the line of "func c" *)
          ex_res_c;                                        (* 14: body of c *)
          SrcNone;                                         (* 15: closing brace of the last declaration *)
          SrcNone;                                         (* 16: the empty line after the final LF *)
          SrcErr; SrcErr].                                 (* 17, 18: over the line count of 16 *)
Proof. vm_compute. reflexivity. Qed.

(* FINDING F-A (function written on one line), repaired by 12f3b86.  The walk
   still selects a for line 7, which holds all of b (formerly
   C19_ex_one_line_func_refuted: a's types were used to render b's arguments);
   the frame pn "T" "b" is now left unaugmented; only a frame named "a" would get a's types *)
Example C19_ex_one_line_func :
  nth_error (line_offsets ex_src) 7 = Some 41%N /\
  get_func_ast_at 41 ex_tree = AstFound 12 ex_a /\
  ex_qb 7 (pn "T" "b") = Ok SrcNone /\ ex_q 7 "T.b" = Ok SrcNone /\ ex_q 7 "a" = Ok ex_res_a.
Proof. vm_compute. repeat split; reflexivity. Qed.

(* FINDINGS F-B / F-C (function literals), repaired by 12f3b86: line 10 is
   inside "var g = func(q int) {"; the walk selects b (formerly
   C19_ex_toplevel_funclit_refuted), the frames of the literal are unaugmented *)
Example C19_ex_toplevel_funclit :
  get_func_ast_at 117 ex_tree = AstFound 42 ex_b /\
  ex_q 10 "init.func1" = Ok SrcNone /\ ex_q 10 "glob..func1" = Ok SrcNone /\ ex_qb 10 (pn "T" "b.func1") = Ok SrcNone.
Proof. vm_compute. repeat split; reflexivity. Qed.

(* matchFuncDecl on names a traceback prints, and on hostile ones *)
Definition ex_gen := mkFuncDecl (s2b "pm") (Some [mkField 1 (TStar (TIndex (TIdent (s2b "L"))))]) [mkField 1 (TIdent (s2b "int"))].
Definition ex_val := mkFuncDecl (s2b "vm") (Some [mkField 1 (TIndex (TIdent (s2b "S")))]) [].
Example C19_ex_match :
  map (fun df => match_func_decl (fst df) (snd df))
    [(ex_a, s2b "a"); (ex_a, s2b "a[...]"); (ex_b, pn "T" "b"); (ex_gen, pn "L[...]" "pm"); (ex_val, s2b "S[...].vm");
     (ex_a, s2b "a.func1"); (ex_a, s2b "x.a"); (ex_a, s2b ""); (ex_a, s2b "."); (ex_b, s2b "T.b"); (ex_b, s2b "b");
     (ex_b, op "T.b"); (ex_b, s2b "T).b");
     (ex_b, pn "" "b"); (ex_b, pn "U" "b"); (ex_b, pn "T" "b-fm"); (ex_gen, pn "L" "pm"); (ex_gen, s2b "L[...].pm");
     (ex_val, pn "S[...]" "vm");
     (ex_a, s2b "[..[...].]a"); (ex_a, s2b ".a")] =
  [true; true; true; true; true;
   false; false; false; false; false; false; false; false;
   false; false; false; true; false; false;
   false; true].
Proof. vm_compute. reflexivity. Qed.
Example C19_ex_strip : strip_tparams (pn "L[...]" "pm[...]x[..[...].]") = pn "L" "pmx[...]".
Proof. vm_compute. reflexivity. Qed.

(* the hypotheses of C19_select_enclosing are satisfiable: line 5 in a *)
Example C19_ex_select_enclosing :
  exists pre nxt post ch, ex_tree = Node 1 KOther (pre ++ Node 12 (KFuncDecl ex_a) ch :: nxt :: post) /\
    nth_error (line_offsets ex_src) 5 = Some 38%N /\ (12 < 38)%N /\ (38 <= node_pos nxt)%N /\
    match_func_decl ex_a (s2b "a") = true.
Proof.
  eexists [_], _, _, _. split; [reflexivity|]. vm_compute. repeat split; try discriminate; reflexivity.
Qed.

(* FINDING F-D (crash), repaired by 4cb43b4: a receiver list without field
   parses (go/parser accepts "func () m() {}"), and so does a list of two; it
   used to make extractArgumentsType panic (formerly
   C19_ex_empty_receiver_panics, C19_ex_two_receivers_panic); now: no types,
   and matchFuncDecl never selects such a declaration in the first place *)
Definition ex_norecv := mkFuncDecl (s2b "m") (Some []) [mkField 1 (TIdent (s2b "int"))].
Definition ex_tworecv := mkFuncDecl (s2b "m") (Some [mkField 1 (TIdent (s2b "T")); mkField 1 (TIdent (s2b "U"))]) [].
Example C19_ex_bad_receivers :
  extract_arguments_type ex_norecv = ([], false) /\ extract_arguments_type ex_tworecv = ([], false) /\
  match_func_decl ex_norecv (s2b "m") = false /\ match_func_decl ex_norecv (s2b ".m") = false /\
  match_func_decl ex_tworecv (s2b "T.m") = false.
Proof. vm_compute. repeat split; reflexivity. Qed.
(* "package p\nfunc () m() {\n}\nvar x = 1\n", lines 3 and 4: formerly a panic *)
Example C19_ex_bad_receiver_file :
  let root := Node 1 KOther [Node 9 KOther []; Node 11 (KFuncDecl (mkFuncDecl (s2b "m") (Some []) []))
                               [Node 16 KOther []; Node 19 KOther []; Node 11 KOther [Node 20 KOther []]; Node 23 KOther []];
                             Node 27 KOther [Node 31 KOther [Node 31 KOther []; Node 35 KOther []]]] in
  let offs := [0; 0; 10; 24; 26; 36]%N in
  map (fun l => source_types offs root l (s2b "m")) [2; 3; 4; 5; 6] =
  map Ok [SrcNone; SrcNone; SrcNone; SrcNone; SrcErr].
Proof. vm_compute. reflexivity. Qed.
(* "func (a, b *T) m(x int)": ONE receiver field with two names: the receiver type is listed twice *)
Example C19_ex_two_receiver_names :
  extract_arguments_type
    (mkFuncDecl (s2b "m") (Some [mkField 2 (TStar (TIdent (s2b "T")))]) [mkField 1 (TIdent (s2b "int"))]) =
  (map s2b ["*T"; "*T"; "int"]%string, false).
Proof. vm_compute. reflexivity. Qed.

(* the names fieldToType produces *)
Example C19_ex_field_names :
  map (fun t => fst (field_to_type t))
    [TArray None (TArray None (TIdent (s2b "int")));                   (* [][]int *)
     TArray (Some (TSelector (s2b "N"))) (TStar (TIdent (s2b "T")));   (* [pkg.N]*T *)
     TArray (Some TOther) (TIdent (s2b "int"));                         (* [N + 1]int *)
     TArray (Some (TEllipsis None)) (TIdent (s2b "int"));               (* [...]int (not accepted in a signature) *)
     TMap (TSelector (s2b "K")) (TArray None (TIdent (s2b "int")));     (* map[pkg.K][]int *)
     TChan (TStar (TIdent (s2b "T")));                                  (* <-chan *T *)
     TStar (TStar (TIdent (s2b "T")));                                  (* **T *)
     TStar (TIndex (TIdent (s2b "List")));                              (* *List[int] *)
     TIndex (TIdent (s2b "List"));                                      (* List[T] *)
     TInterface; TFunc; TOther;                                         (* interface{ M() }, func(int) string, struct{} *)
     TEllipsis (Some TInterface)] =                                     (* ...interface{} *)
  map s2b ["[]<unknown>"; "[N]*T"; "[<unknown>]int"; "[...]int"; "map[K]<unknown>"; "chan *T"; "**T"; "*<unknown>"; "<unknown>";
           "interface{}"; "func"; "<unknown>"; "interface{}"]%string.
Proof. vm_compute. reflexivity. Qed.

(* composition on ex_b: func (t *T) b(x, y int, rest ...string) with three words
   for the receiver and x, y and no variadic value: computed types, variadic
   flag set, receiver and integers rendered *)
Definition exb_f (_ : N) : bytes := s2b "<float>".
Example C19_ex_compose_b :
  (let '(types, ell) := extract_arguments_type ex_b in
   augment_call exb_f exb_f types ell (args_of_words (fun _ => false) [824633802752; 18446744073709551615; 7]%N))
  = Ok (map s2b ["*T(0xc000014000)"; "-1"; "7"]%string).
Proof. vm_compute. reflexivity. Qed.

(* the hypotheses of C19_types_compose are satisfiable: func c(m map[string]int, n, k int8, s string) *)
Example C19_ex_params_match :
  params_match
    [mkField 1 (TMap (TIdent (s2b "string")) (TIdent (s2b "int")));
     mkField 2 (TIdent (s2b "int8")); mkField 0 (TIdent (s2b "string"))]
    ([PMap (s2b "string]int") 824633802752] ++ [PInt I8 (-5); PInt I8 7] ++ [PString 4921345 5] ++ []).
Proof.
  repeat (apply pm_cons; [reflexivity| |]); try apply pm_nil;
    intros p Hp; simpl in Hp; repeat (destruct Hp as [Hp|Hp]; [subst p; reflexivity|]); contradiction.
Qed.
