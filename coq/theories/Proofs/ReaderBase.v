(* Proofs/ReaderBase.v — the buffered line reader (Model/Reader.v):
   src_read, fill_try, read_slice_go, read_line_go. *)
From PP Require Import Base.Bytes Base.GoResult Model.Reader Spec.ReaderSpec.

Lemma buf_cap_pos : 0 < buf_cap.
Proof. unfold buf_cap. lia. Qed.

Global Opaque buf_cap.

(* ------------------------------------------------------------------ *)
(* lists, index_byte, first_line                                        *)

Lemma index_byte_none s c : index_byte s c = None -> ~ In c s.
Proof.
  induction s as [|x s IH]; intros H; [intros []|].
  cbn [index_byte] in H. destruct (N.eqb_spec x c) as [E|E]; [discriminate|].
  destruct (index_byte s c) eqn:Hi; [discriminate|].
  intros [F|F]; [contradiction|]. now apply IH.
Qed.

Lemma index_byte_not_in s c : ~ In c s -> index_byte s c = None.
Proof.
  induction s as [|x s IH]; intros H; [reflexivity|].
  cbn [index_byte]. destruct (N.eqb_spec x c) as [E|E].
  - exfalso. apply H. now left.
  - rewrite IH; [reflexivity|]. intros F. apply H. now right.
Qed.

Lemma index_byte_some s c i :
  index_byte s c = Some i -> exists a t, s = a ++ c :: t /\ List.length a = i /\ ~ In c a.
Proof.
  revert i. induction s as [|x s IH]; intros i H; [discriminate|].
  cbn [index_byte] in H. destruct (N.eqb_spec x c) as [E|E].
  - inversion H. subst. exists [], s. repeat split. intros [].
  - destruct (index_byte s c) as [j|] eqn:Hi; [|discriminate].
    cbn [option_map] in H. inversion H. subst.
    destruct (IH j eq_refl) as (a & t & E1 & E2 & E3).
    exists (x :: a), t. subst s. repeat split.
    + cbn [List.length]. now rewrite E2.
    + intros [F|F]; [now apply E|now apply E3].
Qed.

Lemma index_byte_split a c t : ~ In c a -> index_byte (a ++ c :: t) c = Some (List.length a).
Proof.
  induction a as [|x a IH]; intros H.
  - cbn [app index_byte List.length]. now rewrite N.eqb_refl.
  - cbn [app index_byte List.length]. destruct (N.eqb_spec x c) as [E|E].
    + exfalso. apply H. now left.
    + rewrite IH; [reflexivity|]. intros F. apply H. now right.
Qed.

Lemma firstn_S_split {A} (a : list A) c t : firstn (S (List.length a)) (a ++ c :: t) = a ++ [c].
Proof.
  induction a as [|x a IH]; [reflexivity|].
  cbn [List.length app]. rewrite firstn_cons. now rewrite IH.
Qed.

Lemma skipn_S_split {A} (a : list A) c t : skipn (S (List.length a)) (a ++ c :: t) = t.
Proof.
  induction a as [|x a IH]; [reflexivity|].
  cbn [List.length app]. rewrite skipn_cons. exact IH.
Qed.

Lemma find_lf_from_none s b :
  ~ In LF (firstn s b) -> find_lf_from s b = None -> ~ In LF b.
Proof.
  intros H1 H2. unfold find_lf_from in H2.
  destruct (index_byte (skipn s b) LF) eqn:Hi; [discriminate|].
  apply index_byte_none in Hi. rewrite <- (firstn_skipn s b). intros F.
  apply in_app_or in F. tauto.
Qed.

Lemma find_lf_from_some s b j :
  s <= List.length b -> ~ In LF (firstn s b) -> find_lf_from s b = Some j ->
  exists a t, b = a ++ LF :: t /\ List.length a = j /\ ~ In LF a.
Proof.
  intros Hs H1 H2. unfold find_lf_from in H2.
  destruct (index_byte (skipn s b) LF) as [i|] eqn:Hi; [|discriminate].
  cbn [option_map] in H2. inversion H2. subst j.
  destruct (index_byte_some _ _ _ Hi) as (a & t & E1 & E2 & E3).
  exists (firstn s b ++ a), t. repeat split.
  - rewrite <- app_assoc, <- E1. symmetry. apply firstn_skipn.
  - rewrite app_length, firstn_length. lia.
  - intros F. apply in_app_or in F. tauto.
Qed.

Lemma first_line_lf a t : ~ In LF a -> first_line (a ++ LF :: t) = a ++ [LF].
Proof.
  induction a as [|x a IH]; intros H.
  - reflexivity.
  - cbn [app first_line]. destruct (N.eqb_spec x LF) as [E|E].
    + exfalso. apply H. left. now symmetry.
    + rewrite IH; [reflexivity|]. intros F. apply H. now right.
Qed.

Lemma first_line_nolf a : ~ In LF a -> first_line a = a.
Proof.
  induction a as [|x a IH]; intros H; [reflexivity|].
  cbn [first_line]. destruct (N.eqb_spec x LF) as [E|E].
  - exfalso. apply H. left. now symmetry.
  - rewrite IH; [reflexivity|]. intros F. apply H. now right.
Qed.

Lemma has_lf_split a t : ~ In LF a -> has_lf (a ++ LF :: t) = true.
Proof. intros H. unfold has_lf. now rewrite index_byte_split. Qed.

Lemma has_lf_nolf a : ~ In LF a -> has_lf a = false.
Proof. intros H. unfold has_lf. now rewrite index_byte_not_in. Qed.

Lemma has_lf_true s : has_lf s = true ->
  exists a t, s = a ++ LF :: t /\ ~ In LF a /\ first_line s = a ++ [LF].
Proof.
  unfold has_lf. destruct (index_byte s LF) as [i|] eqn:Hi; [|discriminate]. intros _.
  destruct (index_byte_some _ _ _ Hi) as (a & t & E1 & _ & E3).
  exists a, t. subst s. repeat split; [exact E3|]. now apply first_line_lf.
Qed.

Lemma has_lf_false s : has_lf s = false -> ~ In LF s /\ first_line s = s.
Proof.
  unfold has_lf. destruct (index_byte s LF) as [i|] eqn:Hi; [discriminate|]. intros _.
  apply index_byte_none in Hi. split; [exact Hi|]. now apply first_line_nolf.
Qed.

Lemma has_lf_in s : has_lf s = true <-> In LF s.
Proof.
  split.
  - intros H. destruct (has_lf_true _ H) as (a & t & -> & _). apply in_or_app. right. now left.
  - intros H. destruct (has_lf s) eqn:E; [reflexivity|]. apply has_lf_false in E. tauto.
Qed.

Lemma div_step c m : 0 < c -> S (m / c) = (c + m) / c.
Proof.
  intros H. replace (c + m) with (1 * c + m) by lia.
  rewrite Nat.div_add_l by lia. lia.
Qed.

(* ------------------------------------------------------------------ *)
(* schedules                                                            *)

Lemma stall_free_lz sc : stall_free sc -> leading_zeros sc < 100.
Proof. destruct sc as [|s sc]; cbn [stall_free]; [cbn; lia|tauto]. Qed.

Lemma stall_free_tl sc : stall_free sc -> stall_free (tl sc).
Proof. destruct sc as [|s sc]; cbn [stall_free tl]; tauto. Qed.

Lemma positive_stall_free sc : positive sc -> stall_free sc.
Proof.
  unfold positive. induction 1 as [|[k b] sc H _ IH]; [exact I|].
  cbn [stall_free]. split; [|exact IH].
  cbn [fst] in H. destruct k as [|k]; [lia|]. cbn [leading_zeros]. lia.
Qed.

(* ------------------------------------------------------------------ *)
(* src_read                                                             *)

Definition hd_zero (sc : list (nat * bool)) : bool :=
  match sc with (O, _) :: _ => true | _ => false end.

Lemma src_read_spec src lp data e src' :
  src_read src lp = (data, e, src') ->
  data ++ rest src' = rest src /\ final src' = final src /\ List.length data <= lp /\
  sched src' = tl (sched src) /\
  (forall x, e = Some x -> x = final src /\ rest src' = []) /\
  (rest src = [] -> e = Some (final src)) /\
  (rest src <> [] -> 0 < lp -> hd_zero (sched src) = false -> data <> []).
Proof.
  unfold src_read. destruct (rest src) as [|c cs] eqn:Hr.
  - intros H. injection H as <- <- <-. cbn [rest final sched app List.length].
    split; [reflexivity|]. split; [reflexivity|]. split; [lia|]. split; [reflexivity|].
    split; [|split].
    + intros x Hx. injection Hx as <-. split; reflexivity.
    + reflexivity.
    + intros F. now contradiction F.
  - set (rs := c :: cs) in *.
    assert (Hgen : forall (k : nat) (we : bool) (sc' : list (nat * bool)), sched src' = sc' -> sc' = tl (sched src) ->
              (hd_zero (sched src) = false -> 0 < lp -> 0 < Nat.min k lp) ->
              (firstn (Nat.min k lp) rs,
               match skipn (Nat.min k lp) rs with [] => if we then Some (final src) else None | _ => None end,
               mkSource (skipn (Nat.min k lp) rs) sc' (final src)) = (data, e, src') ->
              data ++ rest src' = rs /\ final src' = final src /\ List.length data <= lp /\
              sched src' = tl (sched src) /\
              (forall x, e = Some x -> x = final src /\ rest src' = []) /\
              (rs = [] -> e = Some (final src)) /\
              (rs <> [] -> 0 < lp -> hd_zero (sched src) = false -> data <> [])).
    { intros k we sc' Hs1 Hs2 Hpos H. injection H as <- <- <-.
      cbn [rest final sched] in *. repeat split.
      - apply firstn_skipn.
      - rewrite firstn_length. lia.
      - exact Hs2.
      - destruct (skipn (Nat.min k lp) rs); [|discriminate]. destruct we; [|discriminate].
        now inversion H.
      - destruct (skipn (Nat.min k lp) rs); [reflexivity|]. discriminate.
      - intros F. discriminate F.
      - intros _ Hlp Hz F. specialize (Hpos Hz Hlp).
        destruct (Nat.min k lp) as [|n]; [lia|]. unfold rs in F. discriminate F. }
    destruct (sched src) as [|[k we] sc'] eqn:Hs; intros H.
    + apply (Hgen lp true []); [| reflexivity | lia | exact H].
      inversion H. reflexivity.
    + apply (Hgen k we sc'); [| reflexivity | | exact H].
      * inversion H. reflexivity.
      * cbn [hd_zero]. destruct k; [discriminate|]. lia.
Qed.

(* ------------------------------------------------------------------ *)
(* fill_try                                                             *)

Lemma fill_try_S i pend src evs :
  fill_try (S i) pend src evs =
  let lp := buf_cap - List.length pend in
  let '(data, e, src') := src_read src lp in
  let pend' := pend ++ data in
  let evs' := evs ++ [EvRead lp (List.length data)] in
  match e with
  | Some err => (mkReader pend' (Some err), src', evs')
  | None =>
      match data with
      | [] => fill_try i pend' src' evs'
      | _ => (mkReader pend' None, src', evs')
      end
  end.
Proof. reflexivity. Qed.

Lemma fill_try_0 pend src evs :
  fill_try 0 pend src evs = (mkReader pend (Some NoProgress), src, evs).
Proof. reflexivity. Qed.

Lemma fill_try_spec i : forall pend src evs r' src' evs',
  fill_try i pend src evs = (r', src', evs') ->
  List.length pend < buf_cap ->
  exists d, pending r' = pend ++ d /\ d ++ rest src' = rest src /\ final src' = final src /\
    List.length (pending r') <= buf_cap /\
    (forall x, rerr r' = Some x -> x = NoProgress \/ (rest src' = [] /\ x = final src')) /\
    (rerr r' = None -> d <> []) /\
    (stall_free (sched src) -> stall_free (sched src')) /\
    (leading_zeros (sched src) < i -> forall x, rerr r' = Some x -> rest src' = [] /\ x = final src').
Proof.
  induction i as [|i IH]; intros pend src evs r' src' evs' H Hlen.
  - rewrite fill_try_0 in H. injection H as <- <- <-. cbn [pending rerr]. exists []. rewrite app_nil_r.
    split; [reflexivity|]. split; [reflexivity|]. split; [reflexivity|]. split; [lia|].
    split; [|split; [|split]].
    + intros x Hx. injection Hx as <-. now left.
    + discriminate.
    + tauto.
    + lia.
  - rewrite fill_try_S in H. cbv zeta in H.
    destruct (src_read src (buf_cap - List.length pend)) as [[data e] src1] eqn:Hr.
    destruct (src_read_spec _ _ _ _ _ Hr) as (S1 & S2 & S3 & S4 & S5 & S6 & S7).
    destruct e as [err|].
    + injection H as <- <- <-. cbn [pending rerr]. exists data.
      destruct (S5 err eq_refl) as [E1 E2].
      split; [reflexivity|]. split; [exact S1|]. split; [exact S2|].
      split; [rewrite app_length; lia|].
      split; [|split; [|split]].
      * intros x Hx. injection Hx as <-. right. rewrite S2. now split.
      * discriminate.
      * intros Hsf. rewrite S4. now apply stall_free_tl.
      * intros _ x Hx. injection Hx as <-. rewrite S2. now split.
    + destruct data as [|c cs].
      * rewrite app_nil_r in H.
        destruct (IH _ _ _ _ _ _ H Hlen) as (d & I1 & I2 & I3 & I4 & I5 & I6 & I7 & I8).
        cbn [app] in S1.
        exists d. split; [exact I1|]. split; [rewrite I2; exact S1|]. split; [rewrite I3; exact S2|].
        split; [exact I4|]. split; [exact I5|]. split; [exact I6|]. split.
        -- intros Hsf. apply I7. rewrite S4. now apply stall_free_tl.
        -- intros Hlz. apply I8.
           assert (Hne : rest src <> []).
           { intros F. specialize (S6 F). discriminate. }
           destruct (hd_zero (sched src)) eqn:Hz.
           ++ destruct (sched src) as [|[[|k] we] sc]; try discriminate.
              rewrite S4. cbn [tl]. cbn [leading_zeros] in Hlz. lia.
           ++ exfalso. apply (S7 Hne); [lia|reflexivity|reflexivity].
      * injection H as <- <- <-. cbn [pending rerr]. exists (c :: cs).
        split; [reflexivity|]. split; [exact S1|]. split; [exact S2|].
        split; [rewrite app_length; lia|].
        split; [|split; [|split]].
        -- discriminate.
        -- discriminate.
        -- intros Hsf. rewrite S4. now apply stall_free_tl.
        -- intros _ x Hx. discriminate Hx.
Qed.

Lemma fill_ok r src : List.length (pending r) < buf_cap ->
  fill r src = Ok (fill_try 100 (pending r) src []).
Proof.
  intros H. unfold fill. destruct (Nat.leb_spec buf_cap (List.length (pending r))); [lia|reflexivity].
Qed.

(* ------------------------------------------------------------------ *)
(* read_slice_go                                                        *)

Lemma read_slice_go_S f s r src evs :
  read_slice_go (S f) s r src evs =
  match find_lf_from s (pending r) with
  | Some i => Ok (firstn (S i) (pending r), SNil, mkReader (skipn (S i) (pending r)) (rerr r), src, evs)
  | None =>
      match rerr r with
      | Some e => Ok (pending r, SIo e, mkReader [] None, src, evs)
      | None =>
          if Nat.eqb (List.length (pending r)) buf_cap
          then Ok (pending r, SBufferFull, mkReader [] None, src, evs)
          else
            match fill r src with
            | Panic m => Panic m
            | Ok (r', src', evs') => read_slice_go f (List.length (pending r)) r' src' (evs ++ evs')
            end
      end
  end.
Proof. reflexivity. Qed.

Definition slice_shape (piece : bytes) (e : slice_err) (r' : reader) (src' : source) : Prop :=
  match e with
  | SNil => exists a, piece = a ++ [LF] /\ ~ In LF a
  | SBufferFull => List.length piece = buf_cap /\ ~ In LF piece /\ pending r' = []
  | SIo x => ~ In LF piece /\ pending r' = [] /\ (x = NoProgress \/ (rest src' = [] /\ x = final src'))
  end.

Definition step_post (r : reader) (src : source) (piece : bytes) (r' : reader) (src' : source) : Prop :=
  rinv r' src' /\ final src' = final src /\ piece ++ stream r' src' = stream r src /\
  (stall_free (sched src) -> stall_free (sched src')).

Lemma rinv_s_rinv r src : rinv_s r src -> rinv r src.
Proof. intros [H1 H2]. split; [exact H1|]. intros e He. right. now apply H2. Qed.

Lemma rinv_empty src : rinv (mkReader [] None) src.
Proof. split; cbn [pending rerr List.length]; [lia|discriminate]. Qed.

Lemma rinv_s_empty src : rinv_s (mkReader [] None) src.
Proof. split; cbn [pending rerr List.length]; [lia|discriminate]. Qed.

Lemma read_slice_go_spec fuel : forall s r src evs,
  rinv r src -> s <= List.length (pending r) -> ~ In LF (firstn s (pending r)) ->
  buf_cap - List.length (pending r) + (match rerr r with None => 2 | Some _ => 1 end) <= fuel ->
  exists piece e r' src' evs',
    read_slice_go fuel s r src evs = Ok (piece, e, r', src', evs') /\
    step_post r src piece r' src' /\ slice_shape piece e r' src' /\
    (stall_free (sched src) -> rinv_s r src ->
       rinv_s r' src' /\ forall x, e = SIo x -> stream r' src' = [] /\ x = final src').
Proof.
  induction fuel as [|f IH]; intros s r src evs Hinv Hs Hno Hfuel.
  - exfalso. destruct (rerr r); lia.
  - rewrite read_slice_go_S. destruct Hinv as [Hcap Herr].
    destruct (find_lf_from s (pending r)) as [j|] eqn:Hfind.
    + destruct (find_lf_from_some _ _ _ Hs Hno Hfind) as (a & t & E1 & E2 & E3).
      subst j. rewrite E1. rewrite firstn_S_split, skipn_S_split.
      do 5 eexists. split; [reflexivity|].
      assert (Ht : List.length t <= buf_cap).
      { rewrite E1, app_length in Hcap. cbn [List.length] in Hcap. lia. }
      split; [|split].
      * repeat split; cbn [pending rerr]; try assumption; try tauto.
        unfold stream. cbn [pending]. rewrite E1. rewrite <- !app_assoc. reflexivity.
      * cbn [slice_shape]. eauto.
      * intros _ [_ Hs2]. split; [|discriminate]. split; cbn [pending rerr]; assumption.
    + pose proof (find_lf_from_none _ _ Hno Hfind) as Hnolf.
      destruct (rerr r) as [e0|] eqn:Hre.
      * do 5 eexists. split; [reflexivity|]. split; [|split].
        -- repeat split; try apply rinv_empty; try tauto.
        -- cbn [slice_shape pending]. repeat split; try assumption. now apply Herr.
        -- intros _ [_ Hs2]. split; [apply rinv_s_empty|].
           intros x Hx. inversion Hx. subst x. destruct (Hs2 e0 Hre) as [F1 F2].
           unfold stream. cbn [pending app]. tauto.
      * destruct (Nat.eqb_spec (List.length (pending r)) buf_cap) as [Hfull|Hnf].
        -- do 5 eexists. split; [reflexivity|]. split; [|split].
           ++ repeat split; try apply rinv_empty; try tauto.
           ++ cbn [slice_shape pending]. tauto.
           ++ intros _ _. split; [apply rinv_s_empty|discriminate].
        -- assert (Hlt : List.length (pending r) < buf_cap) by lia.
           rewrite (fill_ok _ _ Hlt).
           destruct (fill_try 100 (pending r) src []) as [[r1 src1] evs1] eqn:Hft.
           destruct (fill_try_spec _ _ _ _ _ _ _ Hft Hlt) as (d & I1 & I2 & I3 & I4 & I5 & I6 & I7 & I8).
           assert (Hinv1 : rinv r1 src1) by (split; assumption).
           assert (Hs1 : List.length (pending r) <= List.length (pending r1)).
           { rewrite I1, app_length. lia. }
           assert (Hno1 : ~ In LF (firstn (List.length (pending r)) (pending r1))).
           { rewrite I1. rewrite firstn_app, Nat.sub_diag, firstn_all. cbn [firstn].
             now rewrite app_nil_r. }
           assert (Hfuel1 : buf_cap - List.length (pending r1) +
                            (match rerr r1 with None => 2 | Some _ => 1 end) <= f).
           { destruct (rerr r1) eqn:Hr1.
             - lia.
             - specialize (I6 eq_refl). rewrite I1, app_length.
               destruct d; [contradiction|]. cbn [List.length].
               rewrite I1, app_length in I4. cbn [List.length] in I4. lia. }
           destruct (IH (List.length (pending r)) r1 src1 (evs ++ evs1) Hinv1 Hs1 Hno1 Hfuel1)
             as (piece & e & r' & src' & evs' & Q1 & Q2 & Q3 & Q4).
           exists piece, e, r', src', evs'. split; [exact Q1|]. split; [|split].
           ++ destruct Q2 as (P1 & P2 & P3 & P4). repeat split.
              ** apply P1.
              ** apply P1.
              ** now rewrite P2.
              ** rewrite P3. unfold stream. rewrite I1, <- app_assoc. now rewrite I2.
              ** tauto.
           ++ exact Q3.
           ++ intros Hsf Hrs. apply Q4; [tauto|]. split; [exact I4|].
              apply I8. now apply stall_free_lz.
Qed.

(* ------------------------------------------------------------------ *)
(* read_line_go                                                         *)

Lemma read_line_go_S f acc r src evs :
  read_line_go (S f) acc r src evs =
  match read_slice r src with
  | Panic m => Panic m
  | Ok (piece, e, r', src', evs') =>
      match e with
      | SBufferFull => read_line_go f (acc ++ piece) r' src' (evs ++ evs')
      | SNil => Ok (acc ++ piece, None, r', src', evs ++ evs')
      | SIo err => Ok (acc ++ piece, Some err, r', src', evs ++ evs')
      end
  end.
Proof. reflexivity. Qed.

Definition line_shape (l : bytes) (e : option io_err) (r' : reader) (src' : source) : Prop :=
  match e with
  | None => exists a, l = a ++ [LF] /\ ~ In LF a
  | Some x => ~ In LF l /\ pending r' = [] /\ (x = NoProgress \/ (rest src' = [] /\ x = final src'))
  end.

Lemma read_slice_spec r src :
  rinv r src ->
  exists piece e r' src' evs',
    read_slice r src = Ok (piece, e, r', src', evs') /\
    step_post r src piece r' src' /\ slice_shape piece e r' src' /\
    (stall_free (sched src) -> rinv_s r src ->
       rinv_s r' src' /\ forall x, e = SIo x -> stream r' src' = [] /\ x = final src').
Proof.
  intros Hinv. unfold read_slice. apply read_slice_go_spec.
  - exact Hinv.
  - lia.
  - cbn [firstn]. intros [].
  - destruct (rerr r); lia.
Qed.

Lemma read_line_go_spec fuel : forall acc r src evs,
  rinv r src -> S (List.length (stream r src) / buf_cap) <= fuel ->
  exists l e r' src' evs',
    read_line_go fuel acc r src evs = Ok (acc ++ l, e, r', src', evs') /\
    step_post r src l r' src' /\ line_shape l e r' src' /\
    (stall_free (sched src) -> rinv_s r src ->
       rinv_s r' src' /\ forall x, e = Some x -> stream r' src' = [] /\ x = final src').
Proof.
  induction fuel as [|f IH]; intros acc r src evs Hinv Hfuel; [lia|].
  rewrite read_line_go_S.
  destruct (read_slice_spec r src Hinv) as (piece & e & r1 & src1 & evs1 & Q1 & Q2 & Q3 & Q4).
  rewrite Q1. destruct e as [| |err].
  - (* SNil *)
    exists piece, None, r1, src1, (evs ++ evs1). split; [reflexivity|]. split; [exact Q2|]. split.
    + exact Q3.
    + intros Hsf Hrs. destruct (Q4 Hsf Hrs) as [R1 _]. split; [exact R1|discriminate].
  - (* SBufferFull *)
    destruct Q2 as (P1 & P2 & P3 & P4). destruct Q3 as (B1 & B2 & B3).
    assert (Hf1 : S (List.length (stream r1 src1) / buf_cap) <= f).
    { rewrite <- P3, app_length, B1 in Hfuel.
      rewrite <- (div_step _ _ buf_cap_pos) in Hfuel. lia. }
    destruct (IH (acc ++ piece) r1 src1 (evs ++ evs1) P1 Hf1)
      as (l & e & r' & src' & evs' & I1 & I2 & I3 & I4).
    exists (piece ++ l), e, r', src', evs'. split; [rewrite app_assoc; exact I1|].
    destruct I2 as (J1 & J2 & J3 & J4). split; [|split].
    + repeat split.
      * apply J1.
      * apply J1.
      * now rewrite J2.
      * rewrite <- app_assoc, J3. exact P3.
      * tauto.
    + destruct e as [x|]; cbn [line_shape] in *.
      * destruct I3 as (K1 & K2 & K3). repeat split; try assumption.
        intros F. apply in_app_or in F. tauto.
      * destruct I3 as (a & K1 & K2). exists (piece ++ a). split.
        -- rewrite K1. now rewrite app_assoc.
        -- intros F. apply in_app_or in F. tauto.
    + intros Hsf Hrs. destruct (Q4 Hsf Hrs) as [R1 _]. apply I4; tauto.
  - (* SIo *)
    exists piece, (Some err), r1, src1, (evs ++ evs1). split; [reflexivity|]. split; [exact Q2|]. split.
    + exact Q3.
    + intros Hsf Hrs. destruct (Q4 Hsf Hrs) as [R1 R2]. split; [exact R1|].
      intros x Hx. inversion Hx. subst x. now apply R2.
Qed.

Lemma read_line_post r src :
  rinv r src ->
  exists l e r' src' evs',
    read_line r src = Ok (l, e, r', src', evs') /\
    step_post r src l r' src' /\ line_shape l e r' src' /\
    (stall_free (sched src) -> rinv_s r src ->
       rinv_s r' src' /\ forall x, e = Some x -> stream r' src' = [] /\ x = final src').
Proof.
  intros Hinv. unfold read_line.
  apply (read_line_go_spec _ [] r src [] Hinv).
  unfold stream. rewrite app_length. lia.
Qed.
