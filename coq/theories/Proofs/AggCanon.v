(* Proofs/AggCanon.v — similar = equality of canonical keys; the canonical key
   relation is an equivalence, levels refine each other, merge stays in the
   class (and is safe) whenever similar holds. *)
From PP Require Import Base.Bytes Base.GoResult Model.Types Model.Stack Model.Bucket Spec.BucketSpec Spec.Wf.
From PP Require Import Proofs.AggBase.
From Coq Require Import Permutation.

(* ------------------------------------------------------------------ *)
(* similar = canonical equality                                        *)
(* ------------------------------------------------------------------ *)
Lemma args_list_similar_canon lvl l1 :
  Forall (fun a => forall r, arg_similar lvl a r = cval_eqb (canon_arg lvl a) (canon_arg lvl r)) l1 ->
  forall l2, args_list_similar lvl l1 l2 = list_eqb cval_eqb (map (canon_arg lvl) l1) (map (canon_arg lvl) l2).
Proof.
  intros HF. induction HF as [|x l Hx HF IH]; intros [|y r]; simpl; try reflexivity.
  now rewrite Hx, IH.
Qed.

Lemma arg_similar_canon lvl a : forall r, arg_similar lvl a r = cval_eqb (canon_arg lvl a) (canon_arg lvl r).
Proof.
  induction a as [ag an av ap at_ ai afv afp afe IH] using Arg_ind'.
  intros [rg rn rv rp rt ri rfv rfp rfe].
  rewrite arg_similar_eq, !canon_arg_eq.
  destruct ag, rg; cbn [Bool.eqb negb].
  - rewrite cval_eqb_agg. f_equal. now apply args_list_similar_canon.
  - destruct lvl; reflexivity.
  - destruct lvl; reflexivity.
  - destruct lvl; cbn [cval_eqb beq]; try reflexivity.
    destruct ap, rp, at_, rt; cbn [Bool.eqb andb orb]; try reflexivity.
Qed.

Lemma args_list_similar_canon' lvl l1 l2 :
  args_list_similar lvl l1 l2 = list_eqb cval_eqb (map (canon_arg lvl) l1) (map (canon_arg lvl) l2).
Proof.
  apply args_list_similar_canon. apply Forall_forall. intros a _. apply arg_similar_canon.
Qed.

Lemma args_similar_canon lvl a r :
  args_similar lvl a r = canon_args_eqb (canon_args lvl a) (canon_args lvl r).
Proof. unfold args_similar, canon_args_eqb, canon_args. simpl. now rewrite args_list_similar_canon'. Qed.

Lemma call_similar_canon lvl c r :
  call_similar lvl c r = canon_call_eqb (canon_call lvl c) (canon_call lvl r).
Proof. unfold call_similar, canon_call_eqb, canon_call. now rewrite args_similar_canon. Qed.

Lemma calls_similar_canon lvl l1 : forall l2,
  calls_similar lvl l1 l2 = list_eqb canon_call_eqb (map (canon_call lvl) l1) (map (canon_call lvl) l2).
Proof.
  induction l1 as [|x l IH]; intros [|y r]; simpl; try reflexivity.
  now rewrite call_similar_canon, IH.
Qed.

Lemma stack_similar_canon lvl s r :
  stack_similar lvl s r = canon_stack_eqb (canon_stack lvl s) (canon_stack lvl r).
Proof. unfold stack_similar, canon_stack_eqb, canon_stack. simpl. now rewrite calls_similar_canon. Qed.

Theorem similar_iff_canon : forall lvl a b, sig_similar lvl a b = canon_sig_eqb lvl a b.
Proof.
  intros lvl a b. unfold sig_similar, canon_sig_eqb, canon_sig.
  rewrite !stack_similar_canon.
  destruct (beq (State a) (State b)),
           (canon_stack_eqb (canon_stack lvl (CreatedBy a)) (canon_stack lvl (CreatedBy b))),
           (canon_stack_eqb (canon_stack lvl (SStack a)) (canon_stack lvl (SStack b)));
    destruct lvl, (Locked a), (Locked b); reflexivity.
Qed.

Lemma similar_canon_eq lvl a b : sig_similar lvl a b = true <-> canon_sig lvl a = canon_sig lvl b.
Proof. rewrite similar_iff_canon. apply canon_sig_eqb_iff. Qed.

(* ------------------------------------------------------------------ *)
(* equivalence                                                         *)
(* ------------------------------------------------------------------ *)
Theorem canon_equivalence : forall lvl,
  (forall a, canon_sig_eqb lvl a a = true) /\
  (forall a b, canon_sig_eqb lvl a b = canon_sig_eqb lvl b a) /\
  (forall a b c, canon_sig_eqb lvl a b = true -> canon_sig_eqb lvl b c = true -> canon_sig_eqb lvl a c = true).
Proof.
  intros lvl. split; [|split].
  - intros a. now apply canon_sig_eqb_iff.
  - intros a b. destruct (canon_sig_eqb lvl a b) eqn:E1, (canon_sig_eqb lvl b a) eqn:E2; try reflexivity.
    + apply canon_sig_eqb_iff in E1. apply canon_sig_eqb_false in E2. congruence.
    + apply canon_sig_eqb_iff in E2. apply canon_sig_eqb_false in E1. congruence.
  - intros a b c H1 H2. apply canon_sig_eqb_iff in H1. apply canon_sig_eqb_iff in H2.
    apply canon_sig_eqb_iff. congruence.
Qed.

Theorem sleep_irrelevant : forall lvl a mn mx,
  canon_sig_eqb lvl a (mkSig (State a) (CreatedBy a) mn mx (SStack a) (Locked a)) = true.
Proof. intros lvl a mn mx. apply canon_sig_eqb_iff. reflexivity. Qed.

(* ------------------------------------------------------------------ *)
(* refinement between levels (proved on similar, transported by        *)
(* similar_iff_canon)                                                  *)
(* ------------------------------------------------------------------ *)
Definition lvl_next (l1 l2 : Similarity) : Prop :=
  (l1 = ExactFlags /\ l2 = ExactLines) \/ (l1 = ExactLines /\ l2 = AnyPointer) \/ (l1 = AnyPointer /\ l2 = AnyValue).

Lemma args_list_similar_mono l1 l2 xs :
  Forall (fun a => forall r, arg_similar l1 a r = true -> arg_similar l2 a r = true) xs ->
  forall ys, args_list_similar l1 xs ys = true -> args_list_similar l2 xs ys = true.
Proof.
  intros HF. induction HF as [|x l Hx HF IH]; intros [|y r]; simpl; intros H; try discriminate; try reflexivity.
  apply andb_true_iff in H as [H1 H2]. now rewrite (Hx _ H1), (IH _ H2).
Qed.

Lemma arg_similar_mono l1 l2 : lvl_next l1 l2 ->
  forall a r, arg_similar l1 a r = true -> arg_similar l2 a r = true.
Proof.
  intros HL a. induction a as [ag an av ap at_ ai afv afp afe IH] using Arg_ind'.
  intros [rg rn rv rp rt ri rfv rfp rfe]. rewrite !arg_similar_eq.
  destruct (negb (Bool.eqb ag rg)); [discriminate|]. destruct ag.
  - intros H. apply andb_true_iff in H as [H1 H2]. rewrite H1. simpl.
    now apply (args_list_similar_mono l1 l2 afv IH).
  - destruct HL as [[-> ->] | [[-> ->] | [-> ->]]]; intros H; try assumption; try reflexivity.
    apply andb_true_iff in H as [H H4]. apply andb_true_iff in H as [H H3]. apply andb_true_iff in H as [H1 H2].
    rewrite H2, H3, H4. simpl. apply orb_true_r.
Qed.

Lemma calls_similar_mono l1 l2 : lvl_next l1 l2 ->
  forall xs ys, calls_similar l1 xs ys = true -> calls_similar l2 xs ys = true.
Proof.
  intros HL xs. induction xs as [|x xs IH]; intros [|y ys]; simpl; intros H; try discriminate; try reflexivity.
  apply andb_true_iff in H as [H1 H2]. rewrite (IH _ H2), andb_true_r.
  unfold call_similar in *. apply andb_true_iff in H1 as [H1 H3]. rewrite H1. simpl.
  unfold args_similar in *. apply andb_true_iff in H3 as [H3 H4]. rewrite H3. simpl.
  apply (args_list_similar_mono l1 l2); [|assumption].
  apply Forall_forall. intros a _. now apply arg_similar_mono.
Qed.

Lemma stack_similar_mono l1 l2 : lvl_next l1 l2 ->
  forall s r, stack_similar l1 s r = true -> stack_similar l2 s r = true.
Proof.
  intros HL s r. unfold stack_similar. intros H. apply andb_true_iff in H as [H1 H2].
  rewrite H1. simpl. now apply (calls_similar_mono l1 l2).
Qed.

Lemma sig_similar_mono l1 l2 : lvl_next l1 l2 ->
  forall a b, sig_similar l1 a b = true -> sig_similar l2 a b = true.
Proof.
  intros HL a b. unfold sig_similar.
  destruct (beq (State a) (State b)); [|simpl; discriminate].
  destruct (stack_similar l1 (CreatedBy a) (CreatedBy b)) eqn:E1; [|simpl; discriminate].
  rewrite (stack_similar_mono l1 l2 HL _ _ E1). simpl.
  destruct ((match l1 with ExactFlags => true | _ => false end) && negb (Bool.eqb (Locked a) (Locked b))); [discriminate|].
  intros H. rewrite (stack_similar_mono l1 l2 HL _ _ H).
  destruct HL as [[-> ->] | [[-> ->] | [-> ->]]]; reflexivity.
Qed.

Theorem canon_refines : forall a b,
  (canon_sig_eqb ExactFlags a b = true -> canon_sig_eqb ExactLines a b = true) /\
  (canon_sig_eqb ExactLines a b = true -> canon_sig_eqb AnyPointer a b = true) /\
  (canon_sig_eqb AnyPointer a b = true -> canon_sig_eqb AnyValue a b = true).
Proof.
  intros a b. rewrite <- !similar_iff_canon. split; [|split]; apply sig_similar_mono; unfold lvl_next; tauto.
Qed.

(* ------------------------------------------------------------------ *)
(* similar implies merge is safe                                       *)
(* ------------------------------------------------------------------ *)
Lemma args_list_similar_safe lvl xs :
  Forall (fun a => forall r, arg_similar lvl a r = true -> arg_merge_safe a r = true) xs ->
  forall ys, args_list_similar lvl xs ys = true -> args_list_merge_safe xs ys = true.
Proof.
  intros HF. induction HF as [|x l Hx HF IH]; intros [|y r]; simpl; intros H; try discriminate; try reflexivity.
  apply andb_true_iff in H as [H1 H2]. now rewrite (Hx _ H1), (IH _ H2).
Qed.

Lemma arg_similar_safe lvl a : forall r, arg_similar lvl a r = true -> arg_merge_safe a r = true.
Proof.
  induction a as [ag an av ap at_ ai afv afp afe IH] using Arg_ind'.
  intros [rg rn rv rp rt ri rfv rfp rfe]. rewrite arg_similar_eq, arg_merge_safe_eq.
  destruct (negb (Bool.eqb ag rg)); [discriminate|]. destruct ag; [|reflexivity].
  intros H. apply andb_true_iff in H as [_ H]. cbn [Fields Values].
  now apply (args_list_similar_safe lvl afv IH).
Qed.

Lemma calls_similar_safe lvl xs : forall ys, calls_similar lvl xs ys = true -> calls_merge_safe xs ys = true.
Proof.
  induction xs as [|x xs IH]; intros [|y ys]; simpl; intros H; try discriminate; try reflexivity.
  apply andb_true_iff in H as [H1 H2]. rewrite (IH _ H2), andb_true_r.
  unfold call_similar in H1. apply andb_true_iff in H1 as [_ H1].
  unfold args_similar in H1. apply andb_true_iff in H1 as [_ H1].
  unfold call_merge_safe. apply (args_list_similar_safe lvl); [|assumption].
  apply Forall_forall. intros a _. apply arg_similar_safe.
Qed.

Lemma sig_similar_safe lvl k m : sig_similar lvl k m = true -> sig_merge_safe k m = true.
Proof.
  unfold sig_similar, sig_merge_safe.
  destruct (negb (beq (State k) (State m)) || negb (stack_similar lvl (CreatedBy k) (CreatedBy m))); [discriminate|].
  destruct ((match lvl with ExactFlags => true | _ => false end) && negb (Bool.eqb (Locked k) (Locked m))); [discriminate|].
  unfold stack_similar. intros H. apply andb_true_iff in H as [_ H]. now apply (calls_similar_safe lvl).
Qed.

(* ------------------------------------------------------------------ *)
(* merge stays in the class                                            *)
(* ------------------------------------------------------------------ *)
(* wf is required only below AnyValue *)
Definition wfl (lvl : Similarity) (b : bool) : Prop := lvl <> AnyValue -> b = true.

Lemma args_list_merge_class lvl xs :
  Forall (fun a => forall r, wfl lvl (wf_arg a) -> wfl lvl (wf_arg r) -> arg_similar lvl a r = true ->
            canon_arg lvl (arg_merge a r) = canon_arg lvl a /\ wfl lvl (wf_arg (arg_merge a r))) xs ->
  forall ys, wfl lvl (forallb wf_arg xs) -> wfl lvl (forallb wf_arg ys) ->
  args_list_similar lvl xs ys = true ->
  map (canon_arg lvl) (args_list_merge xs ys) = map (canon_arg lvl) xs /\
  wfl lvl (forallb wf_arg (args_list_merge xs ys)).
Proof.
  intros HF. induction HF as [|x l Hx HF IH]; intros [|y r] Wx Wy H; simpl in H; try discriminate.
  - split; [reflexivity | intros _; reflexivity].
  - apply andb_true_iff in H as [H1 H2].
    assert (Wx1 : wfl lvl (wf_arg x)) by (intros N; specialize (Wx N); simpl in Wx; now apply andb_true_iff in Wx).
    assert (Wx2 : wfl lvl (forallb wf_arg l)) by (intros N; specialize (Wx N); simpl in Wx; now apply andb_true_iff in Wx).
    assert (Wy1 : wfl lvl (wf_arg y)) by (intros N; specialize (Wy N); simpl in Wy; now apply andb_true_iff in Wy).
    assert (Wy2 : wfl lvl (forallb wf_arg r)) by (intros N; specialize (Wy N); simpl in Wy; now apply andb_true_iff in Wy).
    destruct (Hx y Wx1 Wy1 H1) as [C1 W1]. destruct (IH r Wx2 Wy2 H2) as [C2 W2].
    simpl. rewrite C1, C2. split; [reflexivity|].
    intros N. now rewrite (W1 N), (W2 N).
Qed.

Lemma arg_merge_class lvl a : forall r,
  wfl lvl (wf_arg a) -> wfl lvl (wf_arg r) -> arg_similar lvl a r = true ->
  canon_arg lvl (arg_merge a r) = canon_arg lvl a /\ wfl lvl (wf_arg (arg_merge a r)).
Proof.
  induction a as [ag an av ap at_ ai afv afp afe IH] using Arg_ind'.
  intros [rg rn rv rp rt ri rfv rfp rfe] Wa Wr HS.
  rewrite arg_merge_eq. unfold arg_equal. rewrite arg_similar_eq in HS. rewrite arg_similar_eq.
  rewrite wf_arg_eq in Wa, Wr.
  destruct ag, rg; cbn [Bool.eqb negb] in *; try discriminate.
  - cbn [Fields Values]. apply andb_true_iff in HS as [HS1 HS2].
    destruct (args_list_merge_class lvl afv IH rfv Wa Wr HS2) as [C W].
    rewrite !canon_arg_eq, wf_arg_eq, C. split; [reflexivity | exact W].
  - destruct (beq an rn && Bool.eqb at_ rt && Bool.eqb ap rp && N.eqb av rv) eqn:EQ; cbn [negb].
    + split; [reflexivity|]. now rewrite wf_arg_eq.
    + rewrite !canon_arg_eq, wf_arg_eq. destruct lvl.
      * congruence.
      * congruence.
      * assert (NE : AnyPointer <> AnyValue) by discriminate. specialize (Wa NE). specialize (Wr NE).
        apply andb_true_iff in HS as [HS HS3]. apply andb_true_iff in HS as [HS1 HS2].
        apply eqb_prop in HS1. apply eqb_prop in HS2. subst rt rp.
        apply andb_true_iff in Wa as [Wa1 Wa2]. apply andb_true_iff in Wr as [Wr1 Wr2].
        destruct ap.
        -- destruct at_; [discriminate|]. split; [reflexivity | intros _; reflexivity].
        -- exfalso. cbn [orb] in HS3, Wa1, Wr1.
           apply beq_eq in Wa1. apply beq_eq in Wr1. subst an rn.
           rewrite HS3 in EQ. destruct at_; cbn in EQ; discriminate.
      * split; [reflexivity | intros N; congruence].
Qed.

Lemma args_list_merge_class' lvl xs ys :
  wfl lvl (forallb wf_arg xs) -> wfl lvl (forallb wf_arg ys) ->
  args_list_similar lvl xs ys = true ->
  map (canon_arg lvl) (args_list_merge xs ys) = map (canon_arg lvl) xs /\
  wfl lvl (forallb wf_arg (args_list_merge xs ys)).
Proof.
  apply args_list_merge_class. apply Forall_forall. intros a _. apply arg_merge_class.
Qed.

Lemma calls_merge_class lvl xs : forall ys,
  wfl lvl (forallb (fun c => wf_args (CArgs c)) xs) -> wfl lvl (forallb (fun c => wf_args (CArgs c)) ys) ->
  calls_similar lvl xs ys = true ->
  map (canon_call lvl) (calls_merge xs ys) = map (canon_call lvl) xs /\
  wfl lvl (forallb (fun c => wf_args (CArgs c)) (calls_merge xs ys)).
Proof.
  induction xs as [|x l IH]; intros [|y r] Wx Wy H; simpl in H; try discriminate.
  - split; [reflexivity | intros _; reflexivity].
  - apply andb_true_iff in H as [H1 H2].
    assert (Wx1 : wfl lvl (wf_args (CArgs x))) by (intros N; specialize (Wx N); simpl in Wx; now apply andb_true_iff in Wx).
    assert (Wx2 : wfl lvl (forallb (fun c => wf_args (CArgs c)) l)) by (intros N; specialize (Wx N); simpl in Wx; now apply andb_true_iff in Wx).
    assert (Wy1 : wfl lvl (wf_args (CArgs y))) by (intros N; specialize (Wy N); simpl in Wy; now apply andb_true_iff in Wy).
    assert (Wy2 : wfl lvl (forallb (fun c => wf_args (CArgs c)) r)) by (intros N; specialize (Wy N); simpl in Wy; now apply andb_true_iff in Wy).
    destruct (IH r Wx2 Wy2 H2) as [C2 W2].
    unfold call_similar in H1. apply andb_true_iff in H1 as [_ H1].
    unfold args_similar in H1. apply andb_true_iff in H1 as [_ H1].
    destruct (args_list_merge_class' lvl _ _ Wx1 Wy1 H1) as [C1 W1].
    cbn [calls_merge map forallb]. rewrite C2. split.
    + f_equal. unfold canon_call, call_merge, canon_args, args_merge. cbn. now rewrite C1.
    + intros N. rewrite (W2 N), andb_true_r. unfold call_merge, args_merge, wf_args. cbn. exact (W1 N).
Qed.

Lemma stack_merge_class lvl s r :
  wfl lvl (wf_stack s) -> wfl lvl (wf_stack r) -> stack_similar lvl s r = true ->
  canon_stack lvl (stack_merge s r) = canon_stack lvl s /\ wfl lvl (wf_stack (stack_merge s r)).
Proof.
  unfold stack_similar, wf_stack. intros Ws Wr H. apply andb_true_iff in H as [_ H].
  destruct (calls_merge_class lvl _ _ Ws Wr H) as [C W].
  unfold canon_stack, stack_merge. cbn. rewrite C. split; [reflexivity | exact W].
Qed.

Lemma sig_merge_class lvl k m :
  wfl lvl (wf_sig k) -> wfl lvl (wf_sig m) -> sig_similar lvl k m = true ->
  canon_sig lvl (sig_merge k m) = canon_sig lvl k /\ wfl lvl (wf_sig (sig_merge k m)).
Proof.
  intros Wk Wm. unfold sig_similar.
  destruct (negb (beq (State k) (State m)) || negb (stack_similar lvl (CreatedBy k) (CreatedBy m))); [discriminate|].
  destruct ((match lvl with ExactFlags => true | _ => false end) && negb (Bool.eqb (Locked k) (Locked m))) eqn:EL; [discriminate|].
  intros H.
  assert (Wk1 : wfl lvl (wf_stack (CreatedBy k))) by (intros N; specialize (Wk N); unfold wf_sig in Wk; now apply andb_true_iff in Wk).
  assert (Wk2 : wfl lvl (wf_stack (SStack k))) by (intros N; specialize (Wk N); unfold wf_sig in Wk; now apply andb_true_iff in Wk).
  assert (Wm2 : wfl lvl (wf_stack (SStack m))) by (intros N; specialize (Wm N); unfold wf_sig in Wm; now apply andb_true_iff in Wm).
  destruct (stack_merge_class lvl _ _ Wk2 Wm2 H) as [C W].
  assert (E1 : State (sig_merge k m) = State k) by reflexivity.
  assert (E2 : CreatedBy (sig_merge k m) = CreatedBy k) by reflexivity.
  assert (E3 : SStack (sig_merge k m) = stack_merge (SStack k) (SStack m)) by reflexivity.
  assert (E4 : Locked (sig_merge k m) = Locked k || Locked m) by reflexivity.
  unfold canon_sig, wf_sig. rewrite E1, E2, E3, E4, C. split.
  - f_equal. f_equal. destruct lvl; try reflexivity.
    simpl in EL. apply negb_false_iff, eqb_prop in EL. rewrite <- EL. apply orb_diag.
  - intros N. now rewrite (Wk1 N), (W N).
Qed.

Theorem key_class : forall lvl k m, wf_sig k = true -> wf_sig m = true ->
  sig_similar lvl k m = true ->
  canon_sig_eqb lvl (sig_merge k m) k = true /\ (lvl <> AnyValue -> wf_sig (sig_merge k m) = true).
Proof.
  intros lvl k m Wk Wm H.
  destruct (sig_merge_class lvl k m (fun _ => Wk) (fun _ => Wm) H) as [C W].
  split; [now apply canon_sig_eqb_iff | exact W].
Qed.
