(* Spec/BucketSpecPos.v — the bucket properties C04, C05 and C12 restated over
   goroutine POSITIONS (index in the snapshot: 0,1,2,...) instead of goroutine
   ids.  Definitions only.

   Why: [c05_ok] and [c12_ok] of Spec/BucketSpec.v identify a goroutine by its
   ID and start with "if negb (nodupZ (map ID gs)) then true": they say nothing
   on a snapshot in which an id is repeated (a hostile or truncated dump; the
   scanner does not reject it).  A position always identifies one goroutine,
   so the predicates below have no such escape clause.

   They talk about a list of POSITIONED buckets: a bucket paired with the list
   of the positions of its members.  Proofs/AggPos.v computes that list with a
   ghost-instrumented copy of Aggregate and proves that forgetting the
   positions gives back exactly the result of Model/Bucket.v's [aggregate]. *)
From PP Require Import Base.Bytes Model.Types Spec.BucketSpec.

Definition pbucket := (Bucket * list nat)%type.
Definition forget (pb : pbucket) : Bucket := fst pb.
Definition positions (pb : pbucket) : list nat := snd pb.

(* ---------- the goroutines at a list of positions ---------- *)
(* in the order of the list, duplicates kept; a position outside the snapshot
   contributes nothing *)
Definition at_pos (gs : list Goroutine) (p : nat) : list Goroutine :=
  match nth_error gs p with Some g => [g] | None => [] end.
Definition members_at (gs : list Goroutine) (ps : list nat) : list Goroutine :=
  flat_map (at_pos gs) ps.

Definition memN (x : nat) (l : list nat) : bool := existsb (Nat.eqb x) l.
Definition count_pos (p : nat) (l : list nat) : nat := List.length (filter (Nat.eqb p) l).
(* strictly ascending and >= k *)
Fixpoint asc_from (k : nat) (ps : list nat) : bool :=
  match ps with
  | [] => true
  | p :: ps' => Nat.leb k p && asc_from (S p) ps'
  end.

(* ---------- C04, positional: a partition of the positions ---------- *)
(* For EVERY snapshot: the member-position lists partition 0..n-1 (no foreign
   position; every position of the snapshot occurs exactly once over all
   buckets); no bucket is empty; positions are listed in dump order; the IDs
   field is the sorted list of the ids found AT those positions (duplicates
   kept); the bucket is First iff a goroutine at one of its positions is. *)
Definition c04_pos_ok (gs : list Goroutine) (pbs : list pbucket) : bool :=
  let all := flat_map positions pbs in
  forallb (fun p => Nat.ltb p (List.length gs)) all &&
  forallb (fun p => Nat.eqb (count_pos p all) 1) (seq 0 (List.length gs)) &&
  forallb (fun pb =>
             negb (Nat.eqb (List.length (positions pb)) 0) &&
             asc_from 0 (positions pb) &&
             list_eqb Z.eqb (IDs (forget pb)) (sortZ (map ID (members_at gs (positions pb)))) &&
             Bool.eqb (BFirst (forget pb)) (existsb First (members_at gs (positions pb)))) pbs.

(* ---------- C05, positional: buckets are the classes of the canonical key ---------- *)
(* two positions share a bucket *)
Definition same_bucket_pos (pbs : list pbucket) (p1 p2 : nat) : bool :=
  existsb (fun pb => memN p1 (positions pb) && memN p2 (positions pb)) pbs.

Definition c05_pos_ok (lvl : Similarity) (gs : list Goroutine) (pbs : list pbucket) : bool :=
  forallb (fun p1 =>
    forallb (fun p2 =>
      match nth_error gs p1, nth_error gs p2 with
      | Some g1, Some g2 =>
          Bool.eqb (same_bucket_pos pbs p1 p2) (canon_sig_eqb lvl (GSig g1) (GSig g2))
      | _, _ => true
      end) (seq 0 (List.length gs))) (seq 0 (List.length gs)).

(* ---------- C12, positional: the signature generalises the members ---------- *)
(* [c12_bucket gs b] of Spec/BucketSpec.v is, by definition (conversion),
   [c12_sig (BSig b) (map GSig (members gs b))]: the same relation, with the
   list of member signatures made a parameter. *)
Definition c12_sig (k : Signature) (ms : list Signature) : bool :=
  match ms with
  | [] => true
  | m1 :: _ =>
      forallb (fun m => beq (State m) (State k)) ms &&
      c12_stack (mkStack (map (fun c => mkCall (CFunc c) emptyArgs (RemoteSrcPath c) (Line c) (SrcName c) (DirSrc c)
                                               (LocalSrcPath c) (RelSrcPath c) (CImportPath c) (CLocation c))
                              (Calls (CreatedBy k))) (SElided (CreatedBy k)))
                (map (fun m => mkStack (map (fun c => mkCall (CFunc c) emptyArgs (RemoteSrcPath c) (Line c) (SrcName c) (DirSrc c)
                                               (LocalSrcPath c) (RelSrcPath c) (CImportPath c) (CLocation c))
                                            (Calls (CreatedBy m))) (SElided (CreatedBy m))) ms) &&
      c12_stack (SStack k) (map SStack ms) &&
      Z.eqb (SleepMin k) (zmin_list (SleepMin m1) (map SleepMin ms)) &&
      Z.eqb (SleepMax k) (zmax_list (SleepMax m1) (map SleepMax ms)) &&
      Bool.eqb (Locked k) (existsb Locked ms)
  end.

Definition c12_pos_ok (gs : list Goroutine) (pbs : list pbucket) : bool :=
  forallb (fun pb => c12_sig (BSig (forget pb)) (map GSig (members_at gs (positions pb)))) pbs.
