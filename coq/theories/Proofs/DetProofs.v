(* Proofs/DetProofs.v — C06: the result of Aggregate does not depend on Go's
   random map iteration order.  The order in which the k-th search visits the
   candidate entries is the oracle [shuffle] of Model/Bucket.v; for
   well-formed snapshots the keys of distinct entries are pairwise
   non-similar (Aggregate.Inv5), so at most one candidate matches and every
   permutation finds the same one. *)
From PP Require Import Base.Bytes Base.GoResult Model.Types Model.Stack Model.Bucket Spec.BucketSpec Spec.Wf.
From PP Require Import Model.Reader Model.Scan Model.ScanSnapshot Model.UI Model.Process Model.Names.
From PP Require Import Proofs.AggBase Proofs.AggCanon Proofs.Aggregate.
From Coq Require Import Permutation Lia.

(* ------------------------------------------------------------------ *)
(* find over a permutation, when at most one element qualifies         *)
(* ------------------------------------------------------------------ *)
Lemma find_unique_perm {A} (p : A -> bool) (l l' : list A) :
  Permutation l l' ->
  (forall x y, In x l -> In y l -> p x = true -> p y = true -> x = y) ->
  find p l = find p l'.
Proof.
  intros HP HU.
  destruct (find p l) as [x|] eqn:E1.
  - apply find_some in E1 as [Ix Px].
    destruct (find p l') as [y|] eqn:E2.
    + apply find_some in E2 as [Iy Py]. f_equal. apply HU; auto.
      apply (Permutation_in _ (Permutation_sym HP)). exact Iy.
    + pose proof (find_none _ _ E2 x (Permutation_in _ HP Ix)). congruence.
  - destruct (find p l') as [y|] eqn:E2; [|reflexivity].
    apply find_some in E2 as [Iy Py].
    pose proof (find_none _ _ E1 y (Permutation_in _ (Permutation_sym HP) Iy)). congruence.
Qed.

(* ------------------------------------------------------------------ *)
(* one step                                                            *)
(* ------------------------------------------------------------------ *)
Definition perm_oracle (sh : nat -> list nat -> list nat) : Prop := forall k l, Permutation (sh k l) l.

Definition keys_distinct (lvl : Similarity) (st : list entry) : Prop :=
  NoDup (map (fun e => canon_sig lvl (ekey e)) st).

Lemma similar_unique lvl st g i j :
  keys_distinct lvl st ->
  entry_similar lvl st g i = true -> entry_similar lvl st g j = true -> i = j.
Proof.
  unfold keys_distinct, entry_similar. intros HN Hi Hj.
  destruct (nth_error st i) as [ei|] eqn:Ei; [|discriminate].
  destruct (nth_error st j) as [ej|] eqn:Ej; [|discriminate].
  apply similar_canon_eq in Hi. apply similar_canon_eq in Hj.
  rewrite NoDup_nth_error in HN. apply HN.
  - rewrite map_length. apply nth_error_Some. congruence.
  - rewrite (map_nth_error _ _ _ Ei), (map_nth_error _ _ _ Ej). congruence.
Qed.

Lemma agg_step_indep sh1 sh2 lvl st k g :
  perm_oracle sh1 -> perm_oracle sh2 -> keys_distinct lvl st ->
  agg_step sh1 lvl st k g = agg_step sh2 lvl st k g.
Proof.
  intros H1 H2 HK. unfold agg_step.
  assert (EF : find (entry_similar lvl st g) (sh1 k (seq 0 (List.length st))) =
               find (entry_similar lvl st g) (sh2 k (seq 0 (List.length st)))).
  { apply find_unique_perm.
    - transitivity (seq 0 (List.length st)); [apply H1 | apply Permutation_sym, H2].
    - intros i j _ _ Hi Hj. exact (similar_unique lvl st g i j HK Hi Hj). }
  rewrite EF. reflexivity.
Qed.

Lemma Inv5_keys_distinct lvl (gst : list (entry * list Goroutine)) :
  Inv5 lvl gst -> keys_distinct lvl (map fst gst).
Proof. intros [_ HN]. unfold keys_distinct. rewrite map_map. exact HN. Qed.

(* ------------------------------------------------------------------ *)
(* the loop: both oracles walk through the same states                 *)
(* ------------------------------------------------------------------ *)
Lemma agg_loop_indep sh1 sh2 lvl :
  perm_oracle sh1 -> perm_oracle sh2 ->
  forall gs (gst : list (entry * list Goroutine)) k,
  Forall (fun g => wf_sig (GSig g) = true) gs -> Inv5 lvl gst ->
  agg_loop sh1 lvl (map fst gst) k gs = agg_loop sh2 lvl (map fst gst) k gs.
Proof.
  intros H1 H2 gs. induction gs as [|g gs IH]; intros gst k HW HI; [reflexivity|].
  inversion HW as [|? ? Wg HW']; subst. cbn [agg_loop].
  rewrite (agg_step_indep sh1 sh2 lvl (map fst gst) k g H1 H2 (Inv5_keys_distinct lvl gst HI)).
  destruct (agg_step_cases sh2 lvl gst k g) as [[ES HN] | (l1 & e & m & l2 & key' & EG & HS & HK & ES)].
  - rewrite ES. cbn [bind]. apply IH; [exact HW'|].
    exact (Inv5_new sh2 lvl H2 gst k g Wg HI HN).
  - rewrite ES. cbn [bind]. subst gst. apply IH; [exact HW'|].
    exact (Inv5_upd lvl l1 e m l2 g key' Wg HI HS HK).
Qed.

Lemma wf_goroutines_Forall gs :
  wf_goroutines gs = true -> Forall (fun g => wf_sig (GSig g) = true) gs.
Proof. unfold wf_goroutines. rewrite forallb_forall. intros H. apply Forall_forall. exact H. Qed.

Lemma Inv5_nil lvl : Inv5 lvl [].
Proof. split; constructor. Qed.

(* the ENTIRE result: buckets in order, merged signatures, id lists *)
Theorem aggregate_oracle_independent : forall sh1 sh2 lvl gs,
  (forall k l, Permutation (sh1 k l) l) -> (forall k l, Permutation (sh2 k l) l) ->
  wf_goroutines gs = true -> aggregate sh1 lvl gs = aggregate sh2 lvl gs.
Proof.
  intros sh1 sh2 lvl gs H1 H2 Hwf. unfold aggregate.
  pose proof (agg_loop_indep sh1 sh2 lvl H1 H2 gs [] 0 (wf_goroutines_Forall gs Hwf) (Inv5_nil lvl)) as E.
  cbn [map] in E. rewrite E. reflexivity.
Qed.

(* even the unsorted entry list (creation order, in-place merges) *)
Theorem agg_loop_oracle_independent : forall sh1 sh2 lvl gs,
  (forall k l, Permutation (sh1 k l) l) -> (forall k l, Permutation (sh2 k l) l) ->
  wf_goroutines gs = true -> agg_loop sh1 lvl [] 0 gs = agg_loop sh2 lvl [] 0 gs.
Proof.
  intros sh1 sh2 lvl gs H1 H2 Hwf.
  exact (agg_loop_indep sh1 sh2 lvl H1 H2 gs [] 0 (wf_goroutines_Forall gs Hwf) (Inv5_nil lvl)).
Qed.

(* and it is a value, not a panic *)
Theorem aggregate_deterministic_ok : forall sh lvl gs,
  (forall k l, Permutation (sh k l) l) -> wf_goroutines gs = true ->
  exists bs, aggregate sh lvl gs = Ok bs /\ aggregate id_shuffle lvl gs = Ok bs.
Proof.
  intros sh lvl gs H Hwf.
  destruct (partition_ok sh lvl gs) as (bs & E & _). exists bs. split; [exact E|].
  rewrite <- E. apply aggregate_oracle_independent; [intros k l; apply Permutation_refl | exact H | exact Hwf].
Qed.

(* ------------------------------------------------------------------ *)
(* without well-formedness the oracle shows                            *)
(* ------------------------------------------------------------------ *)
Definition rev_shuffle (k : nat) (l : list nat) : list nat := rev l.

Lemma id_shuffle_perm : forall k l, Permutation (id_shuffle k l) l.
Proof. intros k l. apply Permutation_refl. Qed.
Lemma rev_shuffle_perm : forall k l, Permutation (rev_shuffle k l) l.
Proof. intros k l. apply Permutation_sym, Permutation_rev. Qed.

(* a plain word 1; two too-large non-pointers carrying hand-set names (never
   produced by the parser); a plain word 1 again.  Merging #2 and #3 clears
   IsOffsetTooLarge in the key ("*"), which moves that key into the class of
   #1: goroutine 4 then matches two entries. *)
Definition ex_word (v : N) : Arg := MkArg false [] v false false false [] [] false.
Definition nonwf_gs : list Goroutine :=
  [ ex_gor 1 true (s2b "main.f") [ex_word 1];
    ex_gor 2 false (s2b "main.f") [ex_big (s2b "a")];
    ex_gor 3 false (s2b "main.f") [ex_big (s2b "b")];
    ex_gor 4 false (s2b "main.f") [ex_word 1] ].

Theorem nonwf_refuted : exists gs sh1 sh2 bs1 bs2,
  wf_goroutines gs = false /\
  (forall k l, Permutation (sh1 k l) l) /\ (forall k l, Permutation (sh2 k l) l) /\
  aggregate sh1 AnyPointer gs = Ok bs1 /\ aggregate sh2 AnyPointer gs = Ok bs2 /\
  map IDs bs1 = [[1; 4]; [2; 3]]%Z /\ map IDs bs2 = [[1]; [2; 3; 4]]%Z.
Proof.
  exists nonwf_gs, id_shuffle, rev_shuffle,
         (ok_or_nil (aggregate id_shuffle AnyPointer nonwf_gs)),
         (ok_or_nil (aggregate rev_shuffle AnyPointer nonwf_gs)).
  split; [vm_compute; reflexivity|].
  split; [exact id_shuffle_perm|]. split; [exact rev_shuffle_perm|].
  split; [vm_compute; reflexivity|]. split; [vm_compute; reflexivity|].
  split; vm_compute; reflexivity.
Qed.

(* ------------------------------------------------------------------ *)
(* the rest of the pipeline is a function                              *)
(* ------------------------------------------------------------------ *)
Section Pipeline.
  Variable sh : nat -> list nat -> list nat.

  (* Process.render_snapshot / process / pp_run with the oracle as a parameter *)
  Definition render_snapshot_sh (o : pp_opts) (gs : list Goroutine) : GoResult bytes :=
    let needs_env := Nat.eqb (List.length gs) 1 && o_banner o in
    if is_race gs then
      Ok (flatten (o_pal o) (write_goroutines (o_pal o) (o_filter o) (o_match o) (o_pf o) needs_env gs))
    else
      bs <- aggregate sh (o_level o) gs ;;
      Ok (flatten (o_pal o) (write_buckets (o_pal o) (o_filter o) (o_match o) (o_pf o) needs_env bs)).

  Fixpoint process_sh (fuel : nat) (o : pp_opts) (content out : bytes) : GoResult (bytes * bool) :=
    match fuel with
    | O => Panic "model: process out of fuel"
    | S f =>
        res <- scan_snapshot true (mkSource content [] EOF) ;;
        out1 <- (match snap res with
                 | Some gs => r <- render_snapshot_sh o gs ;; Ok (out ++ fwd res ++ r)
                 | None => Ok (out ++ fwd res)
                 end) ;;
        match rerr_out res with
        | ENil => process_sh f o (suffix res ++ rest (unread res)) out1
        | EIo EOF => Ok (out1 ++ suffix res, true)
        | _ => Ok (out1 ++ suffix res, false)
        end
    end.

  Definition pp_run_sh (o : pp_opts) (content : bytes) : GoResult (bytes * bool) :=
    process_sh (S (S (List.length content))) o content [].

  Hypothesis sh_perm : forall k l, Permutation (sh k l) l.

  Theorem render_snapshot_functional : forall o gs,
    wf_goroutines gs = true -> render_snapshot_sh o gs = render_snapshot o gs.
  Proof.
    intros o gs Hwf. unfold render_snapshot_sh, render_snapshot.
    rewrite (aggregate_oracle_independent sh id_shuffle (o_level o) gs sh_perm id_shuffle_perm Hwf).
    reflexivity.
  Qed.

  (* every snapshot the scanner hands to Aggregate during the run is well-formed *)
  Definition scans_wf : Prop :=
    forall content res gs,
      scan_snapshot true (mkSource content [] EOF) = Ok res -> snap res = Some gs -> wf_goroutines gs = true.

  Theorem process_functional : scans_wf ->
    forall fuel o content out, process_sh fuel o content out = process fuel o content out.
  Proof.
    intros HW fuel. induction fuel as [|f IH]; intros o content out; [reflexivity|].
    cbn [process_sh process].
    destruct (scan_snapshot true (mkSource content [] EOF)) as [res|msg] eqn:ES; [|reflexivity].
    cbn [bind].
    assert (E1 : match snap res with
                 | Some gs => r <- render_snapshot_sh o gs ;; Ok (out ++ fwd res ++ r)
                 | None => Ok (out ++ fwd res)
                 end =
                 match snap res with
                 | Some gs => r <- render_snapshot o gs ;; Ok (out ++ fwd res ++ r)
                 | None => Ok (out ++ fwd res)
                 end).
    { destruct (snap res) as [gs|] eqn:EG; [|reflexivity].
      rewrite (render_snapshot_functional o gs (HW content res gs ES EG)). reflexivity. }
    rewrite E1.
    destruct (match snap res with
              | Some gs => r <- render_snapshot o gs ;; Ok (out ++ fwd res ++ r)
              | None => Ok (out ++ fwd res)
              end) as [out1|msg]; [|reflexivity].
    cbn [bind]. destruct (rerr_out res) as [|[|c|]|e]; try reflexivity. apply IH.
  Qed.

  Theorem pipeline_functional : scans_wf -> forall o content, pp_run_sh o content = pp_run o content.
  Proof. intros HW o content. apply (process_functional HW). Qed.
End Pipeline.
