(* Proofs/UIProofs.v — C16: the console rendering is complete, aligned and
   colour-independent. *)
From PP Require Import Base.Bytes Base.BytesX Base.Num Base.GoResult Model.Types Model.UI.
From PP Require Import Proofs.UIBase.

Local Arguments rune_width : simpl never.

(* ================================================================== *)
(* 0. tokens and text                                                  *)
(* ================================================================== *)
Definition text_of (ts : list token) : bytes :=
  flat_map (fun t => match t with Col _ => [] | Txt b => b end) ts.

Lemma pal_empty s : pal empty_palette s = [].
Proof. unfold pal, empty_palette. now destruct (slot_index s). Qed.

Theorem flatten_empty ts : flatten empty_palette ts = text_of ts.
Proof.
  unfold flatten, text_of. induction ts as [|t ts IH]; [reflexivity|].
  cbn [flat_map]. rewrite IH. destruct t; [now rewrite pal_empty|reflexivity].
Qed.

Lemma flatten_app p a b : flatten p (a ++ b) = flatten p a ++ flatten p b.
Proof. apply flat_map_app. Qed.

Lemma text_of_app a b : text_of (a ++ b) = text_of a ++ text_of b.
Proof. apply flat_map_app. Qed.

Lemma flatten_flat_map {A} p (g : A -> list token) l :
  flatten p (flat_map g l) = flat_map (fun x => flatten p (g x)) l.
Proof. induction l as [|x l IH]; [reflexivity|]. simpl. now rewrite flatten_app, IH. Qed.

Lemma flat_map_if_filter {A B} (f : A -> bool) (g : A -> list B) (l : list A) :
  flat_map (fun x => if f x then g x else []) l = flat_map g (filter f l).
Proof.
  induction l as [|x l IH]; [reflexivity|]. simpl. destruct (f x); simpl; now rewrite IH.
Qed.

Lemma filter_true {A} (l : list A) : filter (fun _ => true) l = l.
Proof. induction l as [|x l IH]; [reflexivity|]. simpl. now rewrite IH. Qed.

(* ================================================================== *)
(* 1. one block per admitted bucket, in order                          *)
(* ================================================================== *)
Definition bucket_block (pf : path_format) (srcLen pkgLen : nat) (multi : bool) (b : Bucket) : list token :=
  bucket_header pf multi b ++ stack_lines pf srcLen pkgLen (BSig b).

Definition goroutine_block (pf : path_format) (srcLen pkgLen : nat) (multi : bool) (g : Goroutine) : list token :=
  goroutine_header pf multi g ++ stack_lines pf srcLen pkgLen (GSig g).

Definition banner_tokens (needs_env : bool) : list token := if needs_env then [Txt banner] else [].

Definition multi_of {A} (l : list A) : bool := Nat.ltb 1 (List.length l).

(* the buckets / goroutines that pass the filters *)
Definition admitted_b p f m pf (bs : list Bucket) (b : Bucket) : bool :=
  admitted p f m (bucket_header pf (multi_of bs) b).
Definition admitted_g p f m pf (gs : list Goroutine) (g : Goroutine) : bool :=
  admitted p f m (goroutine_header pf (multi_of gs) g).

Theorem blocks_filtered p f m pf needs_env bs :
  write_buckets p f m pf needs_env bs =
  banner_tokens needs_env ++
  flat_map (bucket_block pf (fst (calc_lengths pf (map BSig bs))) (snd (calc_lengths pf (map BSig bs))) (multi_of bs))
           (filter (admitted_b p f m pf bs) bs).
Proof.
  unfold write_buckets, banner_tokens, admitted_b, multi_of.
  destruct (calc_lengths pf (map BSig bs)) as [sl pl]. cbn [fst snd]. f_equal.
  generalize (Nat.ltb 1 (List.length bs)). intros multi.
  rewrite <- flat_map_if_filter. reflexivity.
Qed.

Theorem goroutine_blocks_filtered p f m pf needs_env gs :
  write_goroutines p f m pf needs_env gs =
  banner_tokens needs_env ++
  flat_map (goroutine_block pf (fst (calc_lengths pf (map GSig gs))) (snd (calc_lengths pf (map GSig gs))) (multi_of gs))
           (filter (admitted_g p f m pf gs) gs).
Proof.
  unfold write_goroutines, banner_tokens, admitted_g, multi_of.
  destruct (calc_lengths pf (map GSig gs)) as [sl pl]. cbn [fst snd]. f_equal.
  generalize (Nat.ltb 1 (List.length gs)). intros multi.
  rewrite <- flat_map_if_filter. reflexivity.
Qed.

Lemma admitted_none p h : admitted p None None h = true.
Proof. reflexivity. Qed.

Theorem blocks p pf needs_env bs :
  write_buckets p None None pf needs_env bs =
  banner_tokens needs_env ++
  flat_map (bucket_block pf (fst (calc_lengths pf (map BSig bs))) (snd (calc_lengths pf (map BSig bs))) (multi_of bs)) bs.
Proof.
  rewrite blocks_filtered. f_equal. f_equal. unfold admitted_b. apply filter_true.
Qed.

Theorem goroutine_blocks p pf needs_env gs :
  write_goroutines p None None pf needs_env gs =
  banner_tokens needs_env ++
  flat_map (goroutine_block pf (fst (calc_lengths pf (map GSig gs))) (snd (calc_lengths pf (map GSig gs))) (multi_of gs)) gs.
Proof.
  rewrite goroutine_blocks_filtered. f_equal. f_equal. unfold admitted_g. apply filter_true.
Qed.

(* ---- the shape of stack_lines ---- *)
Fixpoint join_lines (l : list (list token)) : list token :=
  match l with
  | [] => []
  | [x] => x
  | x :: l' => x ++ Txt [LF] :: join_lines l'
  end.

Definition elided_line : list token := [Txt (s2b "    (...)")].

Definition stack_line_list (pf : path_format) (srcLen pkgLen : nat) (s : Signature) : list (list token) :=
  map (call_line pf srcLen pkgLen) (Calls (SStack s)) ++ (if SElided (SStack s) then [elided_line] else []).

Lemma stack_lines_join pf sl pl s :
  stack_lines pf sl pl s = join_lines (stack_line_list pf sl pl s) ++ [Txt [LF]].
Proof. reflexivity. Qed.

Lemma join_lines_flat (l : list (list token)) :
  l <> [] -> join_lines l ++ [Txt [LF]] = flat_map (fun x => x ++ [Txt [LF]]) l.
Proof.
  induction l as [|x l IH]; [congruence|]. intros _.
  destruct l as [|y l].
  - simpl. now rewrite app_nil_r.
  - change (join_lines (x :: y :: l)) with (x ++ Txt [LF] :: join_lines (y :: l)).
    transitivity ((x ++ [Txt [LF]]) ++ (join_lines (y :: l) ++ [Txt [LF]])).
    + rewrite <- !app_assoc. reflexivity.
    + rewrite IH by discriminate. reflexivity.
Qed.

(* the stack is printed as nothing at all (but the final LF) iff it has no
   frame and no elision marker *)
Definition stack_empty (s : Signature) : bool :=
  match Calls (SStack s) with [] => negb (SElided (SStack s)) | _ :: _ => false end.

Theorem stack_lines_struct pf sl pl s :
  stack_lines pf sl pl s =
  if stack_empty s then [Txt [LF]]
  else flat_map (fun c => call_line pf sl pl c ++ [Txt [LF]]) (Calls (SStack s)) ++
       (if SElided (SStack s) then elided_line ++ [Txt [LF]] else []).
Proof.
  rewrite stack_lines_join. unfold stack_empty, stack_line_list.
  destruct (Calls (SStack s)) as [|c cs] eqn:Ec.
  - destruct (SElided (SStack s)); reflexivity.
  - cbn [negb]. rewrite join_lines_flat by (simpl; discriminate).
    rewrite flat_map_app. f_equal.
    + generalize (c :: cs). intros l. induction l as [|x l IH]; [reflexivity|]. simpl. now rewrite IH.
    + destruct (SElided (SStack s)); [|reflexivity]. simpl. reflexivity.
Qed.

(* ================================================================== *)
(* control-character-free dumps                                        *)
(* ================================================================== *)
Definition nob (k : N) (s : bytes) : bool := Nat.eqb (count_byte s k) 0.

Definition clean_call (k : N) (c : Call) : bool :=
  nob k (DirName (CFunc c)) && nob k (FName (CFunc c)) &&
  nob k (LocalSrcPath c) && nob k (RemoteSrcPath c) && nob k (RelSrcPath c) && nob k (SrcName c) &&
  nob k (args_string (CArgs c)).

Definition clean_stack (k : N) (st : Stack) : bool := forallb (clean_call k) (Calls st).

Definition clean_sig (k : N) (s : Signature) : bool :=
  nob k (State s) && clean_stack k (CreatedBy s) && clean_stack k (SStack s).

(* the hypotheses of the theorems *)
Definition no_lf_sig (s : Signature) : bool := clean_sig LF s.
Definition no_esc_sig (s : Signature) : bool := clean_sig ESC s.

Definition txt_clean (k : N) (ts : list token) : Prop :=
  Forall (fun t => match t with Txt b => count_byte b k = 0 | Col _ => True end) ts.

Lemma txt_clean_app k a b : txt_clean k a -> txt_clean k b -> txt_clean k (a ++ b).
Proof. intros Ha Hb. apply Forall_app. now split. Qed.

Lemma txt_clean_count k ts : txt_clean k ts -> count_byte (text_of ts) k = 0.
Proof.
  induction 1 as [|t ts Ht _ IH]; [reflexivity|].
  unfold text_of in *. cbn [flat_map]. rewrite count_byte_app, IH. destruct t; [reflexivity|]. now rewrite Ht.
Qed.

Lemma nob_true k s : nob k s = true -> count_byte s k = 0.
Proof. unfold nob. apply Nat.eqb_eq. Qed.

Section Clean.
  Variable k : N.
  Hypothesis Hk : (k < 32)%N.

  Lemma lit_clean (s : bytes) : printable s = true -> count_byte s k = 0.
  Proof. intros H. now apply printable_count. Qed.

  Lemma Z_to_dec_clean z : count_byte (Z_to_dec z) k = 0.
  Proof. apply lit_clean, Z_to_dec_printable. Qed.

  Lemma N_to_dec_clean n : count_byte (N_to_dec n) k = 0.
  Proof. apply lit_clean, N_to_dec_printable. Qed.

  Lemma with_line_clean path line : count_byte path k = 0 -> count_byte (with_line path line) k = 0.
  Proof.
    intros H. unfold with_line. rewrite !count_byte_app, H, Z_to_dec_clean.
    rewrite (lit_clean (s2b ":")) by reflexivity. reflexivity.
  Qed.

  Lemma clean_call_parts c : clean_call k c = true ->
    count_byte (DirName (CFunc c)) k = 0 /\ count_byte (FName (CFunc c)) k = 0 /\
    count_byte (LocalSrcPath c) k = 0 /\ count_byte (RemoteSrcPath c) k = 0 /\
    count_byte (RelSrcPath c) k = 0 /\ count_byte (SrcName c) k = 0 /\
    count_byte (args_string (CArgs c)) k = 0.
  Proof.
    unfold clean_call. rewrite !andb_true_iff. intros [[[[[[H1 H2] H3] H4] H5] H6] H7].
    repeat split; now apply nob_true.
  Qed.

  Lemma format_call_clean pf c : clean_call k c = true -> count_byte (format_call pf c) k = 0.
  Proof.
    intros H. apply clean_call_parts in H as (_ & _ & H3 & H4 & H5 & H6 & _).
    assert (Hfull : count_byte (match LocalSrcPath c with
                                | _ :: _ => with_line (LocalSrcPath c) (Line c)
                                | [] => with_line (RemoteSrcPath c) (Line c) end) k = 0).
    { destruct (LocalSrcPath c); now apply with_line_clean. }
    unfold format_call. destruct pf.
    - exact Hfull.
    - destruct (RelSrcPath c); [exact Hfull|]. now apply with_line_clean.
    - now apply with_line_clean.
  Qed.

  Lemma pad_right_clean w s : count_byte s k = 0 -> count_byte (pad_right w s) k = 0.
  Proof.
    intros H. unfold pad_right. rewrite count_byte_app, H. apply count_byte_repeat_ne. lia.
  Qed.

  Lemma call_line_clean pf sl pl c : clean_call k c = true -> txt_clean k (call_line pf sl pl c).
  Proof.
    intros H. pose proof (format_call_clean pf c H) as Hf.
    apply clean_call_parts in H as (H1 & H2 & _ & _ & _ & _ & H7).
    unfold call_line, txt_clean. repeat constructor.
    - now apply lit_clean.
    - rewrite count_byte_app, pad_right_clean by exact H1. now apply lit_clean.
    - rewrite count_byte_app, pad_right_clean by exact Hf. now apply lit_clean.
    - exact H2.
    - rewrite !count_byte_app, H7. rewrite (lit_clean (s2b "(")), (lit_clean (s2b ")")) by reflexivity. reflexivity.
  Qed.

  Lemma created_by_clean pf s : clean_stack k (CreatedBy s) = true -> count_byte (created_by_string pf s) k = 0.
  Proof.
    unfold clean_stack, created_by_string. destruct (Calls (CreatedBy s)) as [|c cs]; [reflexivity|].
    cbn [forallb]. intros H. apply andb_true_iff in H as [H _].
    pose proof (format_call_clean pf c H) as Hf.
    apply clean_call_parts in H as (H1 & H2 & _).
    rewrite !count_byte_app, H1, H2, Hf.
    rewrite (lit_clean (s2b ".")), (lit_clean (s2b " @ ")) by reflexivity. reflexivity.
  Qed.

  Lemma sleep_string_clean s : count_byte (sleep_string s) k = 0.
  Proof.
    unfold sleep_string. destruct (Z.eqb (SleepMax s) 0); [reflexivity|].
    destruct (negb (Z.eqb (SleepMin s) (SleepMax s)));
      rewrite !count_byte_app, ?Z_to_dec_clean, ?(lit_clean (s2b "~")), ?(lit_clean (s2b " minutes")) by reflexivity;
      reflexivity.
  Qed.

  Lemma header_extra_clean pf s : clean_stack k (CreatedBy s) = true -> txt_clean k (header_extra pf s).
  Proof.
    intros H. unfold header_extra. repeat apply txt_clean_app.
    - pose proof (sleep_string_clean s) as Hs. destruct (sleep_string s) as [|x xs]; [constructor|].
      repeat constructor. rewrite !count_byte_app, Hs.
      rewrite (lit_clean (s2b " [")), (lit_clean (s2b "]")) by reflexivity. reflexivity.
    - destruct (Locked s); repeat constructor. now apply lit_clean.
    - pose proof (created_by_clean pf s H) as Hc. destruct (created_by_string pf s) as [|x xs]; [constructor|].
      repeat constructor. rewrite !count_byte_app, Hc.
      rewrite (lit_clean (s2b " [Created by ")), (lit_clean (s2b "]")) by reflexivity. reflexivity.
  Qed.

  (* the header without its final [Col PEOLReset; Txt [LF]] *)
  Definition bucket_header_body pf multi (b : Bucket) : list token :=
    [Col (routine_slot (BFirst b) multi); Txt (N_to_dec (N.of_nat (List.length (IDs b))) ++ s2b ": " ++ State (BSig b))] ++
    header_extra pf (BSig b).

  Definition race_tokens (g : Goroutine) : list token :=
    if N.eqb (RaceAddr g) 0 then [] else
      [Col PEOLReset; Col PRace;
       Txt (s2b " Race " ++ (if RaceWrite g then s2b "write" else s2b "read") ++ s2b " @ 0x" ++ N_to_hex08 false (RaceAddr g))].

  Definition goroutine_header_body pf multi (g : Goroutine) : list token :=
    [Col (routine_slot (First g) multi); Txt (Z_to_dec (ID g) ++ s2b ": " ++ State (GSig g))] ++
    header_extra pf (GSig g) ++ race_tokens g.

  Lemma bucket_header_split pf multi b :
    bucket_header pf multi b = bucket_header_body pf multi b ++ [Col PEOLReset; Txt [LF]].
  Proof. unfold bucket_header, bucket_header_body. now rewrite <- app_assoc. Qed.

  Lemma goroutine_header_split pf multi g :
    goroutine_header pf multi g = goroutine_header_body pf multi g ++ [Col PEOLReset; Txt [LF]].
  Proof. unfold goroutine_header, goroutine_header_body, race_tokens. now rewrite <- !app_assoc. Qed.

  Lemma bucket_header_body_clean pf multi b : clean_sig k (BSig b) = true -> txt_clean k (bucket_header_body pf multi b).
  Proof.
    unfold clean_sig. rewrite !andb_true_iff. intros [[H1 H2] _]. apply nob_true in H1.
    unfold bucket_header_body. apply txt_clean_app; [|now apply header_extra_clean].
    repeat constructor. rewrite !count_byte_app, H1, N_to_dec_clean, (lit_clean (s2b ": ")) by reflexivity. reflexivity.
  Qed.

  Lemma race_tokens_clean g : txt_clean k (race_tokens g).
  Proof.
    unfold race_tokens. destruct (N.eqb (RaceAddr g) 0); repeat constructor.
    rewrite !count_byte_app. rewrite (lit_clean (N_to_hex08 false (RaceAddr g))) by apply N_to_hex08_printable.
    rewrite (lit_clean (s2b " Race ")), (lit_clean (s2b " @ 0x")) by reflexivity.
    destruct (RaceWrite g); [rewrite (lit_clean (s2b "write")) by reflexivity|rewrite (lit_clean (s2b "read")) by reflexivity];
      reflexivity.
  Qed.

  Lemma goroutine_header_body_clean pf multi g : clean_sig k (GSig g) = true -> txt_clean k (goroutine_header_body pf multi g).
  Proof.
    unfold clean_sig. rewrite !andb_true_iff. intros [[H1 H2] _]. apply nob_true in H1.
    unfold goroutine_header_body. apply txt_clean_app; [|apply txt_clean_app; [now apply header_extra_clean|apply race_tokens_clean]].
    repeat constructor. rewrite !count_byte_app, H1, Z_to_dec_clean, (lit_clean (s2b ": ")) by reflexivity. reflexivity.
  Qed.

  Lemma call_lines_clean pf sl pl cs : forallb (clean_call k) cs = true ->
    Forall (fun c => txt_clean k (call_line pf sl pl c)) cs.
  Proof.
    intros H. apply Forall_forall. intros c Hc. apply call_line_clean.
    rewrite forallb_forall in H. now apply H.
  Qed.
End Clean.

(* ================================================================== *)
(* 1b. the shape of a block: line counts                               *)
(* ================================================================== *)
Lemma lf_lt32 : (LF < 32)%N.
Proof. reflexivity. Qed.
Lemma esc_lt32 : (ESC < 32)%N.
Proof. reflexivity. Qed.

Lemma call_lines_lf pf sl pl cs : forallb (clean_call LF) cs = true ->
  count_byte (text_of (flat_map (fun c => call_line pf sl pl c ++ [Txt [LF]]) cs)) LF = List.length cs.
Proof.
  induction cs as [|c cs IH]; intros H; [reflexivity|].
  cbn [forallb] in H. apply andb_true_iff in H as [Hc Hcs].
  cbn [flat_map]. rewrite !text_of_app, !count_byte_app.
  rewrite (txt_clean_count LF _ (call_line_clean LF lf_lt32 pf sl pl c Hc)).
  rewrite (IH Hcs). reflexivity.
Qed.

(* number of lines of the stack part: one per frame, one for the elision
   marker; an empty stack still prints one empty line *)
Theorem stack_lines_lf pf sl pl s : clean_stack LF (SStack s) = true ->
  count_byte (flatten empty_palette (stack_lines pf sl pl s)) LF =
  if stack_empty s then 1 else List.length (Calls (SStack s)) + (if SElided (SStack s) then 1 else 0).
Proof.
  intros H. rewrite flatten_empty, stack_lines_struct.
  destruct (stack_empty s); [reflexivity|].
  rewrite text_of_app, count_byte_app, (call_lines_lf pf sl pl _ H).
  destruct (SElided (SStack s)); reflexivity.
Qed.

Theorem bucket_header_lf pf multi b : no_lf_sig (BSig b) = true ->
  count_byte (flatten empty_palette (bucket_header pf multi b)) LF = 1.
Proof.
  intros H. rewrite flatten_empty, bucket_header_split, text_of_app, count_byte_app.
  rewrite (txt_clean_count LF _ (bucket_header_body_clean LF lf_lt32 pf multi b H)). reflexivity.
Qed.

Theorem goroutine_header_lf pf multi g : no_lf_sig (GSig g) = true ->
  count_byte (flatten empty_palette (goroutine_header pf multi g)) LF = 1.
Proof.
  intros H. rewrite flatten_empty, goroutine_header_split, text_of_app, count_byte_app.
  rewrite (txt_clean_count LF _ (goroutine_header_body_clean LF lf_lt32 pf multi g H)). reflexivity.
Qed.

Lemma no_lf_sig_stack s : no_lf_sig s = true -> clean_stack LF (SStack s) = true.
Proof. unfold no_lf_sig, clean_sig. rewrite !andb_true_iff. tauto. Qed.

Definition stack_line_count (s : Signature) : nat :=
  if stack_empty s then 1 else List.length (Calls (SStack s)) + (if SElided (SStack s) then 1 else 0).

Theorem block_shape pf sl pl multi b : no_lf_sig (BSig b) = true ->
  bucket_block pf sl pl multi b =
    bucket_header pf multi b ++
    (if stack_empty (BSig b) then [Txt [LF]]
     else flat_map (fun c => call_line pf sl pl c ++ [Txt [LF]]) (Calls (SStack (BSig b))) ++
          (if SElided (SStack (BSig b)) then elided_line ++ [Txt [LF]] else [])) /\
  count_byte (flatten empty_palette (bucket_header pf multi b)) LF = 1 /\
  (forall c, In c (Calls (SStack (BSig b))) -> count_byte (flatten empty_palette (call_line pf sl pl c)) LF = 0) /\
  count_byte (flatten empty_palette (bucket_block pf sl pl multi b)) LF = 1 + stack_line_count (BSig b).
Proof.
  intros H. split; [|split; [|split]].
  - unfold bucket_block. now rewrite stack_lines_struct.
  - now apply bucket_header_lf.
  - intros c Hc. rewrite flatten_empty. apply txt_clean_count. apply call_line_clean; [exact lf_lt32|].
    apply no_lf_sig_stack in H. unfold clean_stack in H. rewrite forallb_forall in H. now apply H.
  - unfold bucket_block. rewrite flatten_app, count_byte_app, bucket_header_lf by exact H.
    rewrite stack_lines_lf by now apply no_lf_sig_stack. reflexivity.
Qed.

Theorem goroutine_block_shape pf sl pl multi g : no_lf_sig (GSig g) = true ->
  goroutine_block pf sl pl multi g =
    goroutine_header pf multi g ++
    (if stack_empty (GSig g) then [Txt [LF]]
     else flat_map (fun c => call_line pf sl pl c ++ [Txt [LF]]) (Calls (SStack (GSig g))) ++
          (if SElided (SStack (GSig g)) then elided_line ++ [Txt [LF]] else [])) /\
  count_byte (flatten empty_palette (goroutine_header pf multi g)) LF = 1 /\
  (forall c, In c (Calls (SStack (GSig g))) -> count_byte (flatten empty_palette (call_line pf sl pl c)) LF = 0) /\
  count_byte (flatten empty_palette (goroutine_block pf sl pl multi g)) LF = 1 + stack_line_count (GSig g).
Proof.
  intros H. split; [|split; [|split]].
  - unfold goroutine_block. now rewrite stack_lines_struct.
  - now apply goroutine_header_lf.
  - intros c Hc. rewrite flatten_empty. apply txt_clean_count. apply call_line_clean; [exact lf_lt32|].
    apply no_lf_sig_stack in H. unfold clean_stack in H. rewrite forallb_forall in H. now apply H.
  - unfold goroutine_block. rewrite flatten_app, count_byte_app, goroutine_header_lf by exact H.
    rewrite stack_lines_lf by now apply no_lf_sig_stack. reflexivity.
Qed.

(* ================================================================== *)
(* 4. colour erasure                                                   *)
(* ================================================================== *)
Lemma pal_csi p : Forall csi_string p -> forall sl, csi_string (pal p sl).
Proof.
  intros H sl. unfold pal. generalize (slot_index sl). intros n. revert n.
  induction H as [|x l Hx _ IH]; intros [|n]; simpl; try constructor; auto.
Qed.

Theorem strip_flatten p ts :
  (forall sl, csi_string (pal p sl)) -> txt_clean ESC ts ->
  strip_csi (flatten p ts) = flatten empty_palette ts.
Proof.
  intros Hp H. rewrite flatten_empty. induction H as [|t ts Ht _ IH]; [reflexivity|].
  unfold flatten, text_of in *. cbn [flat_map]. destruct t as [sl|b].
  - rewrite strip_csi_string by apply Hp. exact IH.
  - rewrite strip_csi_text by exact Ht. now rewrite IH.
Qed.

Lemma txt_clean_flat_map {A} k (g : A -> list token) l :
  (forall x, In x l -> txt_clean k (g x)) -> txt_clean k (flat_map g l).
Proof.
  induction l as [|x l IH]; intros H; [constructor|]. cbn [flat_map].
  apply txt_clean_app; [apply H; now left|]. apply IH. intros y Hy. apply H. now right.
Qed.

Section CleanNotLF.
  Variable k : N.
  Hypothesis Hk : (k < 32)%N.
  Hypothesis Hne : k <> LF.

  Lemma lf_token_clean : txt_clean k [Txt [LF]].
  Proof.
    repeat constructor. cbn [count_byte]. destruct (N.eqb_spec LF k); [congruence|reflexivity].
  Qed.

  Lemma eol_clean : txt_clean k [Col PEOLReset; Txt [LF]].
  Proof. constructor; [exact I|apply lf_token_clean]. Qed.

  Lemma banner_clean ne : txt_clean k (banner_tokens ne).
  Proof.
    destruct ne; [|constructor]. repeat constructor. unfold banner. rewrite !count_byte_app.
    rewrite (printable_count (s2b "To see all goroutines, visit https://github.com/maruel/panicparse#gotraceback") k) by (reflexivity || exact Hk).
    cbn [count_byte]. destruct (N.eqb_spec LF k); [congruence|reflexivity].
  Qed.

  Lemma stack_lines_clean pf sl pl s : clean_stack k (SStack s) = true -> txt_clean k (stack_lines pf sl pl s).
  Proof.
    intros H. rewrite stack_lines_struct. destruct (stack_empty s); [apply lf_token_clean|].
    apply txt_clean_app.
    - apply txt_clean_flat_map. intros c Hc. apply txt_clean_app; [|apply lf_token_clean].
      apply call_line_clean; [exact Hk|]. unfold clean_stack in H. rewrite forallb_forall in H. now apply H.
    - destruct (SElided (SStack s)); [|constructor]. apply txt_clean_app; [|apply lf_token_clean].
      repeat constructor. now apply printable_count.
  Qed.

  Lemma clean_sig_stack s : clean_sig k s = true -> clean_stack k (SStack s) = true.
  Proof. unfold clean_sig. rewrite !andb_true_iff. tauto. Qed.

  Lemma bucket_block_clean pf sl pl multi b : clean_sig k (BSig b) = true -> txt_clean k (bucket_block pf sl pl multi b).
  Proof.
    intros H. unfold bucket_block. rewrite bucket_header_split.
    apply txt_clean_app; [apply txt_clean_app|].
    - now apply bucket_header_body_clean.
    - apply eol_clean.
    - apply stack_lines_clean. now apply clean_sig_stack.
  Qed.

  Lemma goroutine_block_clean pf sl pl multi g : clean_sig k (GSig g) = true -> txt_clean k (goroutine_block pf sl pl multi g).
  Proof.
    intros H. unfold goroutine_block. rewrite goroutine_header_split.
    apply txt_clean_app; [apply txt_clean_app|].
    - now apply goroutine_header_body_clean.
    - apply eol_clean.
    - apply stack_lines_clean. now apply clean_sig_stack.
  Qed.

  Lemma write_buckets_clean p f m pf ne bs :
    forallb (fun b => clean_sig k (BSig b)) bs = true -> txt_clean k (write_buckets p f m pf ne bs).
  Proof.
    intros H. rewrite blocks_filtered. apply txt_clean_app; [apply banner_clean|].
    apply txt_clean_flat_map. intros b Hb. apply bucket_block_clean.
    apply filter_In in Hb as [Hb _]. rewrite forallb_forall in H. now apply H.
  Qed.

  Lemma write_goroutines_clean p f m pf ne gs :
    forallb (fun g => clean_sig k (GSig g)) gs = true -> txt_clean k (write_goroutines p f m pf ne gs).
  Proof.
    intros H. rewrite goroutine_blocks_filtered. apply txt_clean_app; [apply banner_clean|].
    apply txt_clean_flat_map. intros g Hg. apply goroutine_block_clean.
    apply filter_In in Hg as [Hg _]. rewrite forallb_forall in H. now apply H.
  Qed.
End CleanNotLF.

Lemma esc_ne_lf : ESC <> LF.
Proof. discriminate. Qed.

(* the token list does not depend on the palette when no filter looks at it *)
Theorem tokens_palette_indep p pf ne bs :
  write_buckets p None None pf ne bs = write_buckets empty_palette None None pf ne bs.
Proof. now rewrite !blocks. Qed.

Theorem goroutine_tokens_palette_indep p pf ne gs :
  write_goroutines p None None pf ne gs = write_goroutines empty_palette None None pf ne gs.
Proof. now rewrite !goroutine_blocks. Qed.

(* with or without filters: erasing the escape sequences of the coloured
   rendering of the emitted tokens gives their uncoloured rendering *)
Theorem colour_erasure_filtered p f m pf ne bs :
  Forall csi_string p -> forallb (fun b => no_esc_sig (BSig b)) bs = true ->
  strip_csi (flatten p (write_buckets p f m pf ne bs)) = flatten empty_palette (write_buckets p f m pf ne bs).
Proof.
  intros Hp H. apply strip_flatten; [now apply pal_csi|].
  now apply (write_buckets_clean ESC esc_lt32 esc_ne_lf).
Qed.

Theorem colour_erasure p pf ne bs :
  Forall csi_string p -> forallb (fun b => no_esc_sig (BSig b)) bs = true ->
  strip_csi (flatten p (write_buckets p None None pf ne bs)) =
  flatten empty_palette (write_buckets empty_palette None None pf ne bs).
Proof.
  intros Hp H. rewrite <- (tokens_palette_indep p). now apply colour_erasure_filtered.
Qed.

Theorem goroutine_colour_erasure_filtered p f m pf ne gs :
  Forall csi_string p -> forallb (fun g => no_esc_sig (GSig g)) gs = true ->
  strip_csi (flatten p (write_goroutines p f m pf ne gs)) = flatten empty_palette (write_goroutines p f m pf ne gs).
Proof.
  intros Hp H. apply strip_flatten; [now apply pal_csi|].
  now apply (write_goroutines_clean ESC esc_lt32 esc_ne_lf).
Qed.

Theorem goroutine_colour_erasure p pf ne gs :
  Forall csi_string p -> forallb (fun g => no_esc_sig (GSig g)) gs = true ->
  strip_csi (flatten p (write_goroutines p None None pf ne gs)) =
  flatten empty_palette (write_goroutines empty_palette None None pf ne gs).
Proof.
  intros Hp H. rewrite <- (goroutine_tokens_palette_indep p). now apply goroutine_colour_erasure_filtered.
Qed.

(* ================================================================== *)
(* 5. filter / match split the blocks in two                           *)
(* ================================================================== *)
Lemma flat_map_singleton {A} (l : list A) : flat_map (fun x => [x]) l = l.
Proof. induction l as [|x l IH]; [reflexivity|]. simpl. now rewrite IH. Qed.

Definition header_pred_b p pf (bs : list Bucket) (f : bytes -> bool) (b : Bucket) : bool :=
  f (flatten p (bucket_header pf (multi_of bs) b)).
Definition header_pred_g p pf (gs : list Goroutine) (f : bytes -> bool) (g : Goroutine) : bool :=
  f (flatten p (goroutine_header pf (multi_of gs) g)).

Definition all_block_b pf (bs : list Bucket) : Bucket -> list token :=
  bucket_block pf (fst (calc_lengths pf (map BSig bs))) (snd (calc_lengths pf (map BSig bs))) (multi_of bs).
Definition all_block_g pf (gs : list Goroutine) : Goroutine -> list token :=
  goroutine_block pf (fst (calc_lengths pf (map GSig gs))) (snd (calc_lengths pf (map GSig gs))) (multi_of gs).

Theorem filter_match_split p f pf ne bs :
  let matched := filter (header_pred_b p pf bs f) bs in
  let filtered := filter (fun b => negb (header_pred_b p pf bs f b)) bs in
  partition (header_pred_b p pf bs f) bs = (matched, filtered) /\
  write_buckets p None None pf ne bs = banner_tokens ne ++ flat_map (all_block_b pf bs) bs /\
  write_buckets p None (Some f) pf ne bs = banner_tokens ne ++ flat_map (all_block_b pf bs) matched /\
  write_buckets p (Some f) None pf ne bs = banner_tokens ne ++ flat_map (all_block_b pf bs) filtered /\
  List.length matched + List.length filtered = List.length bs /\
  (forall q, List.length (flatten q (write_buckets p (Some f) None pf ne bs)) +
             List.length (flatten q (write_buckets p None (Some f) pf ne bs)) =
             List.length (flatten q (write_buckets p None None pf ne bs)) +
             List.length (flatten q (banner_tokens ne))).
Proof.
  intros matched filtered.
  assert (Hm : write_buckets p None (Some f) pf ne bs = banner_tokens ne ++ flat_map (all_block_b pf bs) matched).
  { rewrite blocks_filtered. reflexivity. }
  assert (Hf : write_buckets p (Some f) None pf ne bs = banner_tokens ne ++ flat_map (all_block_b pf bs) filtered).
  { rewrite blocks_filtered. f_equal. f_equal. apply filter_ext. intros b.
    unfold admitted_b, admitted, header_pred_b. apply andb_true_r. }
  split; [apply partition_filter|]. split; [apply blocks|]. split; [exact Hm|]. split; [exact Hf|]. split.
  - pose proof (flat_map_filter_length (fun b : Bucket => [b]) (header_pred_b p pf bs f) bs) as H.
    rewrite !flat_map_singleton in H. exact H.
  - intros q. rewrite Hm, Hf, blocks. fold (all_block_b pf bs).
    rewrite !flatten_app, !app_length, !flatten_flat_map.
    pose proof (flat_map_filter_length (fun b => flatten q (all_block_b pf bs b)) (header_pred_b p pf bs f) bs) as H.
    fold matched filtered in H. lia.
Qed.

Theorem goroutine_filter_match_split p f pf ne gs :
  let matched := filter (header_pred_g p pf gs f) gs in
  let filtered := filter (fun g => negb (header_pred_g p pf gs f g)) gs in
  partition (header_pred_g p pf gs f) gs = (matched, filtered) /\
  write_goroutines p None None pf ne gs = banner_tokens ne ++ flat_map (all_block_g pf gs) gs /\
  write_goroutines p None (Some f) pf ne gs = banner_tokens ne ++ flat_map (all_block_g pf gs) matched /\
  write_goroutines p (Some f) None pf ne gs = banner_tokens ne ++ flat_map (all_block_g pf gs) filtered /\
  List.length matched + List.length filtered = List.length gs /\
  (forall q, List.length (flatten q (write_goroutines p (Some f) None pf ne gs)) +
             List.length (flatten q (write_goroutines p None (Some f) pf ne gs)) =
             List.length (flatten q (write_goroutines p None None pf ne gs)) +
             List.length (flatten q (banner_tokens ne))).
Proof.
  intros matched filtered.
  assert (Hm : write_goroutines p None (Some f) pf ne gs = banner_tokens ne ++ flat_map (all_block_g pf gs) matched).
  { rewrite goroutine_blocks_filtered. reflexivity. }
  assert (Hf : write_goroutines p (Some f) None pf ne gs = banner_tokens ne ++ flat_map (all_block_g pf gs) filtered).
  { rewrite goroutine_blocks_filtered. f_equal. f_equal. apply filter_ext. intros g.
    unfold admitted_g, admitted, header_pred_g. apply andb_true_r. }
  split; [apply partition_filter|]. split; [apply goroutine_blocks|]. split; [exact Hm|]. split; [exact Hf|]. split.
  - pose proof (flat_map_filter_length (fun g : Goroutine => [g]) (header_pred_g p pf gs f) gs) as H.
    rewrite !flat_map_singleton in H. exact H.
  - intros q. rewrite Hm, Hf, goroutine_blocks. fold (all_block_g pf gs).
    rewrite !flatten_app, !app_length, !flatten_flat_map.
    pose proof (flat_map_filter_length (fun g => flatten q (all_block_g pf gs g)) (header_pred_g p pf gs f) gs) as H.
    fold matched filtered in H. lia.
Qed.

(* ================================================================== *)
(* 3. alignment                                                        *)
(* ================================================================== *)
Definition all_calls (sigs : list Signature) : list Call := flat_map (fun s => Calls (SStack s)) sigs.

Lemma calc_fold (F G : Call -> nat) (l : list Call) : forall a b,
  fold_left (fun '(sl, pl) c => (Nat.max sl (F c), Nat.max pl (G c))) l (a, b) =
  (Nat.max a (list_max (map F l)), Nat.max b (list_max (map G l))).
Proof.
  unfold list_max. induction l as [|x l IH]; intros a b; simpl.
  - now rewrite !Nat.max_0_r.
  - rewrite IH. f_equal; lia.
Qed.

(* the two widths are the maximal BYTE lengths over all calls of all signatures *)
Theorem calc_lengths_max pf sigs :
  calc_lengths pf sigs =
  (list_max (map (fun c => List.length (format_call pf c)) (all_calls sigs)),
   list_max (map (fun c => List.length (DirName (CFunc c))) (all_calls sigs))).
Proof.
  unfold calc_lengths. fold (all_calls sigs).
  exact (calc_fold (fun c => List.length (format_call pf c)) (fun c => List.length (DirName (CFunc c))) (all_calls sigs) 0 0).
Qed.

Lemma list_max_In x l : In x l -> x <= list_max l.
Proof.
  unfold list_max. induction l as [|y l IH]; intros H; [contradiction|]. simpl.
  destruct H as [->|H]; [lia|]. specialize (IH H). lia.
Qed.

Lemma in_all_calls sigs s c : In s sigs -> In c (Calls (SStack s)) -> In c (all_calls sigs).
Proof. intros Hs Hc. unfold all_calls. apply in_flat_map. now exists s. Qed.

Theorem widths_bound pf sigs s c : In s sigs -> In c (Calls (SStack s)) ->
  List.length (format_call pf c) <= fst (calc_lengths pf sigs) /\
  List.length (DirName (CFunc c)) <= snd (calc_lengths pf sigs).
Proof.
  intros Hs Hc. pose proof (in_all_calls sigs s c Hs Hc) as H. rewrite calc_lengths_max. cbn [fst snd].
  split; apply list_max_In.
  - apply (in_map (fun c => List.length (format_call pf c))) in H. exact H.
  - apply (in_map (fun c => List.length (DirName (CFunc c)))) in H. exact H.
Qed.

Definition line_pre1 (pkgLen : nat) (c : Call) : bytes :=
  s2b "    " ++ pad_right pkgLen (DirName (CFunc c)) ++ s2b " ".
Definition line_pre2 (pf : path_format) (srcLen pkgLen : nat) (c : Call) : bytes :=
  line_pre1 pkgLen c ++ pad_right srcLen (format_call pf c) ++ s2b " ".

(* the uncoloured text of a call line *)
Theorem call_line_text pf sl pl c :
  flatten empty_palette (call_line pf sl pl c) =
  line_pre2 pf sl pl c ++ FName (CFunc c) ++ s2b "(" ++ args_string (CArgs c) ++ s2b ")".
Proof.
  rewrite flatten_empty. unfold call_line, text_of, line_pre2, line_pre1. cbn [flat_map].
  rewrite ?app_nil_r, <- ?app_assoc. reflexivity.
Qed.

Lemma ascii_4sp : ascii (s2b "    ").
Proof. repeat constructor. Qed.

Lemma line_pre1_runes pl c rest : rune_count (DirName (CFunc c)) <= pl ->
  rune_count (line_pre1 pl c ++ rest) = 4 + pl + 1 + rune_count rest.
Proof.
  intros H. unfold line_pre1. rewrite <- !app_assoc. rewrite rune_count_ascii_app by apply ascii_4sp.
  change (s2b " " ++ rest) with (32%N :: rest). rewrite rune_count_field.
  change (List.length (s2b "    ")) with 4. lia.
Qed.

Lemma line_pre2_runes pf sl pl c rest :
  rune_count (DirName (CFunc c)) <= pl -> rune_count (format_call pf c) <= sl ->
  rune_count (line_pre2 pf sl pl c ++ rest) = 4 + pl + 1 + sl + 1 + rune_count rest.
Proof.
  intros H1 H2. unfold line_pre2. rewrite <- !app_assoc. rewrite line_pre1_runes by exact H1.
  change (s2b " " ++ rest) with (32%N :: rest). rewrite rune_count_field. lia.
Qed.

Theorem aligned pf sigs s c : In s sigs -> In c (Calls (SStack s)) ->
  let sl := fst (calc_lengths pf sigs) in
  let pl := snd (calc_lengths pf sigs) in
  rune_count (DirName (CFunc c)) <= pl /\
  rune_count (format_call pf c) <= sl /\
  rune_count (pad_right pl (DirName (CFunc c))) = pl /\
  rune_count (pad_right sl (format_call pf c)) = sl /\
  (forall rest, rune_count (line_pre1 pl c ++ rest) = 4 + pl + 1 + rune_count rest) /\
  (forall rest, rune_count (line_pre2 pf sl pl c ++ rest) = 4 + pl + 1 + sl + 1 + rune_count rest).
Proof.
  intros Hs Hc sl pl. destruct (widths_bound pf sigs s c Hs Hc) as [H1 H2]. fold sl in H1. fold pl in H2.
  pose proof (rune_count_le (DirName (CFunc c))) as H3. pose proof (rune_count_le (format_call pf c)) as H4.
  assert (Hp : rune_count (DirName (CFunc c)) <= pl) by lia.
  assert (Hq : rune_count (format_call pf c) <= sl) by lia.
  split; [exact Hp|]. split; [exact Hq|].
  split; [rewrite rune_count_pad_right; lia|]. split; [rewrite rune_count_pad_right; lia|].
  split; intros rest; [now apply line_pre1_runes|now apply line_pre2_runes].
Qed.

(* every call line of the whole bucket output *)
Theorem aligned_buckets pf bs b c : In b bs -> In c (Calls (SStack (BSig b))) ->
  let sl := fst (calc_lengths pf (map BSig bs)) in
  let pl := snd (calc_lengths pf (map BSig bs)) in
  flatten empty_palette (call_line pf sl pl c) =
    line_pre2 pf sl pl c ++ FName (CFunc c) ++ s2b "(" ++ args_string (CArgs c) ++ s2b ")" /\
  line_pre2 pf sl pl c = line_pre1 pl c ++ pad_right sl (format_call pf c) ++ s2b " " /\
  rune_count (line_pre1 pl c) = 4 + pl + 1 /\
  rune_count (line_pre2 pf sl pl c) = 4 + pl + 1 + sl + 1 /\
  (forall rest, rune_count (line_pre1 pl c ++ rest) = 4 + pl + 1 + rune_count rest) /\
  (forall rest, rune_count (line_pre2 pf sl pl c ++ rest) = 4 + pl + 1 + sl + 1 + rune_count rest).
Proof.
  intros Hb Hc sl pl.
  destruct (aligned pf (map BSig bs) (BSig b) c (in_map BSig bs b Hb) Hc) as (_ & _ & _ & _ & H5 & H6).
  fold sl in H5, H6. fold pl in H5, H6.
  split; [apply call_line_text|]. split; [reflexivity|].
  split; [rewrite <- (app_nil_r (line_pre1 pl c)), H5, rune_count_nil; lia|].
  split; [rewrite <- (app_nil_r (line_pre2 pf sl pl c)), H6, rune_count_nil; lia|].
  split; assumption.
Qed.

Theorem aligned_goroutines pf gs g c : In g gs -> In c (Calls (SStack (GSig g))) ->
  let sl := fst (calc_lengths pf (map GSig gs)) in
  let pl := snd (calc_lengths pf (map GSig gs)) in
  flatten empty_palette (call_line pf sl pl c) =
    line_pre2 pf sl pl c ++ FName (CFunc c) ++ s2b "(" ++ args_string (CArgs c) ++ s2b ")" /\
  line_pre2 pf sl pl c = line_pre1 pl c ++ pad_right sl (format_call pf c) ++ s2b " " /\
  rune_count (line_pre1 pl c) = 4 + pl + 1 /\
  rune_count (line_pre2 pf sl pl c) = 4 + pl + 1 + sl + 1 /\
  (forall rest, rune_count (line_pre1 pl c ++ rest) = 4 + pl + 1 + rune_count rest) /\
  (forall rest, rune_count (line_pre2 pf sl pl c ++ rest) = 4 + pl + 1 + sl + 1 + rune_count rest).
Proof.
  intros Hg Hc sl pl.
  destruct (aligned pf (map GSig gs) (GSig g) c (in_map GSig gs g Hg) Hc) as (_ & _ & _ & _ & H5 & H6).
  fold sl in H5, H6. fold pl in H5, H6.
  split; [apply call_line_text|]. split; [reflexivity|].
  split; [rewrite <- (app_nil_r (line_pre1 pl c)), H5, rune_count_nil; lia|].
  split; [rewrite <- (app_nil_r (line_pre2 pf sl pl c)), H6, rune_count_nil; lia|].
  split; assumption.
Qed.

(* ================================================================== *)
(* 2. the fields of the header                                         *)
(* ================================================================== *)
Definition sleep_text (s : Signature) : bytes :=
  if Z.eqb (SleepMin s) (SleepMax s) then Z_to_dec (SleepMax s) ++ s2b " minutes"
  else Z_to_dec (SleepMin s) ++ s2b "~" ++ Z_to_dec (SleepMax s) ++ s2b " minutes".

Definition sleep_part (s : Signature) : bytes :=
  if Z.eqb (SleepMax s) 0 then [] else s2b " [" ++ sleep_text s ++ s2b "]".

Definition locked_part (s : Signature) : bytes := if Locked s then s2b " [locked]" else [].

Definition created_part (pf : path_format) (s : Signature) : bytes :=
  match Calls (CreatedBy s) with
  | [] => []
  | c :: _ => s2b " [Created by " ++ DirName (CFunc c) ++ s2b "." ++ FName (CFunc c) ++ s2b " @ " ++ format_call pf c ++ s2b "]"
  end.

Definition race_part (g : Goroutine) : bytes :=
  if N.eqb (RaceAddr g) 0 then [] else
    s2b " Race " ++ (if RaceWrite g then s2b "write" else s2b "read") ++ s2b " @ 0x" ++ N_to_hex08 false (RaceAddr g).

Lemma text_bracket (a x b : bytes) : x <> [] ->
  text_of (match x with [] => [] | n :: l => [Txt (a ++ (n :: l) ++ b)] end) = a ++ x ++ b.
Proof. intros H. destruct x; [congruence|]. unfold text_of. simpl. apply app_nil_r. Qed.

Lemma text_bracket_col (sl : slot) (a x b : bytes) : x <> [] ->
  text_of (match x with [] => [] | n :: l => [Col sl; Txt (a ++ (n :: l) ++ b)] end) = a ++ x ++ b.
Proof. intros H. destruct x; [congruence|]. unfold text_of. simpl. apply app_nil_r. Qed.

Lemma app_nonempty_r {A} (a b : list A) : b <> [] -> a ++ b <> [].
Proof. intros H E. apply app_eq_nil in E as [_ E]. contradiction. Qed.

Lemma app_nonempty_l {A} (a b : list A) : a <> [] -> a ++ b <> [].
Proof. intros H E. apply app_eq_nil in E as [E _]. contradiction. Qed.

Lemma sleep_string_text s : sleep_string s = if Z.eqb (SleepMax s) 0 then [] else sleep_text s.
Proof.
  unfold sleep_string, sleep_text. destruct (Z.eqb (SleepMax s) 0); [reflexivity|].
  destruct (Z.eqb (SleepMin s) (SleepMax s)); reflexivity.
Qed.

Lemma sleep_text_nonempty s : sleep_text s <> [].
Proof.
  unfold sleep_text. destruct (Z.eqb (SleepMin s) (SleepMax s)); repeat apply app_nonempty_r; discriminate.
Qed.

Theorem header_extra_text pf s :
  text_of (header_extra pf s) = sleep_part s ++ locked_part s ++ created_part pf s.
Proof.
  unfold header_extra. rewrite !text_of_app. f_equal; [|f_equal].
  - unfold sleep_part. rewrite sleep_string_text. destruct (Z.eqb (SleepMax s) 0); [reflexivity|].
    apply text_bracket. apply sleep_text_nonempty.
  - unfold locked_part. destruct (Locked s); reflexivity.
  - unfold created_part, created_by_string. destruct (Calls (CreatedBy s)) as [|c cs]; [reflexivity|].
    rewrite text_bracket_col; [rewrite <- !app_assoc; reflexivity|].
    apply app_nonempty_r, app_nonempty_l. discriminate.
Qed.

Theorem bucket_header_text pf multi b :
  flatten empty_palette (bucket_header pf multi b) =
  N_to_dec (N.of_nat (List.length (IDs b))) ++ s2b ": " ++ State (BSig b) ++
  sleep_part (BSig b) ++ locked_part (BSig b) ++ created_part pf (BSig b) ++ [LF].
Proof.
  rewrite flatten_empty. unfold bucket_header. rewrite !text_of_app, header_extra_text.
  unfold text_of at 1 2. cbn [flat_map]. rewrite ?app_nil_r, <- ?app_assoc. reflexivity.
Qed.

Theorem goroutine_header_text pf multi g :
  flatten empty_palette (goroutine_header pf multi g) =
  Z_to_dec (ID g) ++ s2b ": " ++ State (GSig g) ++
  sleep_part (GSig g) ++ locked_part (GSig g) ++ created_part pf (GSig g) ++ race_part g ++ [LF].
Proof.
  rewrite flatten_empty. unfold goroutine_header. rewrite !text_of_app, header_extra_text.
  assert (Hr : text_of (if N.eqb (RaceAddr g) 0 then [] else
     [Col PEOLReset; Col PRace;
      Txt (s2b " Race " ++ (if RaceWrite g then s2b "write" else s2b "read") ++ s2b " @ 0x" ++ N_to_hex08 false (RaceAddr g))])
     = race_part g).
  { unfold race_part. destruct (N.eqb (RaceAddr g) 0); [reflexivity|]. unfold text_of. cbn [flat_map]. now rewrite app_nil_r. }
  rewrite Hr. unfold text_of at 1 2. cbn [flat_map]. rewrite ?app_nil_r, <- ?app_assoc. reflexivity.
Qed.

(* the optional parts are present exactly when the field is set *)
Theorem header_parts_iff pf s :
  (sleep_part s <> [] <-> SleepMax s <> 0%Z) /\
  (locked_part s <> [] <-> Locked s = true) /\
  (created_part pf s <> [] <-> Calls (CreatedBy s) <> []) /\
  (SleepMin s = SleepMax s -> sleep_text s = Z_to_dec (SleepMax s) ++ s2b " minutes") /\
  (SleepMin s <> SleepMax s ->
   sleep_text s = Z_to_dec (SleepMin s) ++ s2b "~" ++ Z_to_dec (SleepMax s) ++ s2b " minutes").
Proof.
  split; [|split; [|split; [|split]]].
  - unfold sleep_part. destruct (Z.eqb_spec (SleepMax s) 0) as [E|E]; cbv iota.
    + split; intros H; congruence.
    + split; intros _; [exact E|discriminate].
  - unfold locked_part. destruct (Locked s); cbv iota; split; intros H; try congruence; discriminate.
  - unfold created_part. destruct (Calls (CreatedBy s)); cbv iota; split; intros H; try congruence; discriminate.
  - intros E. unfold sleep_text. apply Z.eqb_eq in E. now rewrite E.
  - intros E. unfold sleep_text. apply Z.eqb_neq in E. now rewrite E.
Qed.

Theorem race_part_iff g :
  (race_part g <> [] <-> RaceAddr g <> 0%N) /\
  (RaceAddr g <> 0%N ->
   race_part g = s2b " Race " ++ (if RaceWrite g then s2b "write" else s2b "read") ++ s2b " @ 0x" ++ N_to_hex08 false (RaceAddr g)).
Proof.
  unfold race_part. destruct (N.eqb_spec (RaceAddr g) 0) as [E|E]; cbv iota; split.
  - split; intros H; congruence.
  - congruence.
  - split; intros _; [exact E|discriminate].
  - reflexivity.
Qed.

(* ================================================================== *)
(* 6. completeness: exactly one header per admitted bucket             *)
(* ================================================================== *)
Definition is_routine_col (t : token) : bool :=
  match t with Col PRoutineFirst | Col PRoutine => true | _ => false end.
Definition nroutine (ts : list token) : nat := List.length (filter is_routine_col ts).

Lemma nroutine_app a b : nroutine (a ++ b) = nroutine a + nroutine b.
Proof. unfold nroutine. now rewrite filter_app, app_length. Qed.

Lemma nroutine_flat_map {A} (g : A -> list token) (n : nat) l :
  (forall x, In x l -> nroutine (g x) = n) -> nroutine (flat_map g l) = n * List.length l.
Proof.
  induction l as [|x l IH]; intros H; [cbn [List.length]; rewrite Nat.mul_0_r; reflexivity|]. cbn [flat_map]. rewrite nroutine_app.
  rewrite H by now left. rewrite IH by (intros y Hy; apply H; now right). cbn [List.length]. lia.
Qed.

Lemma func_slot_cases c : func_slot c <> PRoutineFirst /\ func_slot c <> PRoutine.
Proof.
  unfold func_slot. destruct (IsPkgMain (CFunc c)), (IsExported (CFunc c)), (CLocation c); split; discriminate.
Qed.

Lemma nroutine_call_line pf sl pl c : nroutine (call_line pf sl pl c) = 0.
Proof.
  destruct (func_slot_cases c) as [H1 H2]. unfold nroutine, call_line.
  destruct (func_slot c); try reflexivity; congruence.
Qed.

Lemma nroutine_stack_lines pf sl pl s : nroutine (stack_lines pf sl pl s) = 0.
Proof.
  rewrite stack_lines_struct. destruct (stack_empty s); [reflexivity|]. rewrite nroutine_app.
  rewrite (nroutine_flat_map _ 0).
  - destruct (SElided (SStack s)); reflexivity.
  - intros c _. rewrite nroutine_app, nroutine_call_line. reflexivity.
Qed.

Lemma nroutine_header_extra pf s : nroutine (header_extra pf s) = 0.
Proof.
  unfold header_extra. rewrite !nroutine_app.
  destruct (sleep_string s), (Locked s), (created_by_string pf s); reflexivity.
Qed.

Lemma routine_slot_is first multi : is_routine_col (Col (routine_slot first multi)) = true.
Proof. unfold routine_slot. destruct (first && multi); reflexivity. Qed.

(* a block starts with the routine colour and the count (resp. id) and state,
   and contains no other routine colour token *)
Lemma bucket_block_head pf sl pl multi b : exists rest,
  bucket_block pf sl pl multi b =
    Col (routine_slot (BFirst b) multi) ::
    Txt (N_to_dec (N.of_nat (List.length (IDs b))) ++ s2b ": " ++ State (BSig b)) :: rest /\
  nroutine rest = 0.
Proof.
  exists (header_extra pf (BSig b) ++ [Col PEOLReset; Txt [LF]] ++ stack_lines pf sl pl (BSig b)). split.
  - unfold bucket_block, bucket_header. rewrite <- !app_assoc. reflexivity.
  - rewrite !nroutine_app, nroutine_header_extra, nroutine_stack_lines. reflexivity.
Qed.

Lemma goroutine_block_head pf sl pl multi g : exists rest,
  goroutine_block pf sl pl multi g =
    Col (routine_slot (First g) multi) ::
    Txt (Z_to_dec (ID g) ++ s2b ": " ++ State (GSig g)) :: rest /\
  nroutine rest = 0.
Proof.
  exists (header_extra pf (GSig g) ++ race_tokens g ++ [Col PEOLReset; Txt [LF]] ++ stack_lines pf sl pl (GSig g)). split.
  - unfold goroutine_block, goroutine_header, race_tokens. rewrite <- !app_assoc. reflexivity.
  - rewrite !nroutine_app, nroutine_header_extra, nroutine_stack_lines.
    unfold race_tokens. destruct (N.eqb (RaceAddr g) 0); reflexivity.
Qed.

Lemma nroutine_cons_head sl t rest : is_routine_col (Col sl) = true -> nroutine rest = 0 ->
  nroutine (Col sl :: Txt t :: rest) = 1.
Proof. intros H1 H2. unfold nroutine in *. cbn [filter]. rewrite H1. cbn [is_routine_col List.length]. now rewrite H2. Qed.

Lemma nroutine_bucket_block pf sl pl multi b : nroutine (bucket_block pf sl pl multi b) = 1.
Proof.
  destruct (bucket_block_head pf sl pl multi b) as (rest & E & H). rewrite E.
  apply nroutine_cons_head; [apply routine_slot_is|exact H].
Qed.

Lemma nroutine_goroutine_block pf sl pl multi g : nroutine (goroutine_block pf sl pl multi g) = 1.
Proof.
  destruct (goroutine_block_head pf sl pl multi g) as (rest & E & H). rewrite E.
  apply nroutine_cons_head; [apply routine_slot_is|exact H].
Qed.

Lemma nroutine_banner ne : nroutine (banner_tokens ne) = 0.
Proof. destruct ne; reflexivity. Qed.

Theorem complete_filtered p f m pf ne bs :
  nroutine (write_buckets p f m pf ne bs) = List.length (filter (admitted_b p f m pf bs) bs).
Proof.
  rewrite blocks_filtered, nroutine_app, nroutine_banner.
  rewrite (nroutine_flat_map _ 1); [lia|]. intros b _. apply nroutine_bucket_block.
Qed.

Theorem goroutine_complete_filtered p f m pf ne gs :
  nroutine (write_goroutines p f m pf ne gs) = List.length (filter (admitted_g p f m pf gs) gs).
Proof.
  rewrite goroutine_blocks_filtered, nroutine_app, nroutine_banner.
  rewrite (nroutine_flat_map _ 1); [lia|]. intros g _. apply nroutine_goroutine_block.
Qed.

Theorem complete p pf ne bs :
  nroutine (write_buckets p None None pf ne bs) = List.length bs /\
  exists blks,
    write_buckets p None None pf ne bs = banner_tokens ne ++ List.concat blks /\
    Forall2 (fun b blk => exists rest,
               blk = Col (routine_slot (BFirst b) (multi_of bs)) ::
                     Txt (N_to_dec (N.of_nat (List.length (IDs b))) ++ s2b ": " ++ State (BSig b)) :: rest /\
               nroutine rest = 0) bs blks.
Proof.
  split.
  - rewrite complete_filtered. unfold admitted_b. now rewrite filter_true.
  - exists (map (all_block_b pf bs) bs). split.
    + rewrite blocks, <- flat_map_concat_map. reflexivity.
    + unfold all_block_b. generalize (multi_of bs) as multi.
      generalize (fst (calc_lengths pf (map BSig bs))) as sl. generalize (snd (calc_lengths pf (map BSig bs))) as pl.
      intros pl sl multi. induction bs as [|b bs IH]; [constructor|]. cbn [map]. constructor; [|exact IH].
      apply bucket_block_head.
Qed.

Theorem goroutine_complete p pf ne gs :
  nroutine (write_goroutines p None None pf ne gs) = List.length gs /\
  exists blks,
    write_goroutines p None None pf ne gs = banner_tokens ne ++ List.concat blks /\
    Forall2 (fun g blk => exists rest,
               blk = Col (routine_slot (First g) (multi_of gs)) ::
                     Txt (Z_to_dec (ID g) ++ s2b ": " ++ State (GSig g)) :: rest /\
               nroutine rest = 0) gs blks.
Proof.
  split.
  - rewrite goroutine_complete_filtered. unfold admitted_g. now rewrite filter_true.
  - exists (map (all_block_g pf gs) gs). split.
    + rewrite goroutine_blocks, <- flat_map_concat_map. reflexivity.
    + unfold all_block_g. generalize (multi_of gs) as multi.
      generalize (fst (calc_lengths pf (map GSig gs))) as sl. generalize (snd (calc_lengths pf (map GSig gs))) as pl.
      intros pl sl multi. induction gs as [|g gs IH]; [constructor|]. cbn [map]. constructor; [|exact IH].
      apply goroutine_block_head.
Qed.

(* ================================================================== *)
(* the hypotheses clean_sig from the strings of the dump alone          *)
(* ================================================================== *)
Section ArgInd.
  Variable P : Arg -> Prop.
  Hypothesis HP : forall g n v p t i fv fp fe, Forall P fv -> P (MkArg g n v p t i fv fp fe).
  Fixpoint Arg_ind_ui (a : Arg) : P a :=
    match a with
    | MkArg g n v p t i fv fp fe =>
        HP g n v p t i fv fp fe
          ((fix go (l : list Arg) : Forall P l :=
              match l with
              | [] => Forall_nil P
              | x :: l' => @Forall_cons Arg P x l' (Arg_ind_ui x) (go l')
              end) fv)
    end.
End ArgInd.

(* no byte k in any name or pre-rendered field of the argument tree *)
Fixpoint arg_clean (k : N) (a : Arg) : bool :=
  match a with
  | MkArg _ n _ _ _ _ fv fp _ =>
      nob k n && forallb (nob k) fp &&
      (fix go (l : list Arg) : bool := match l with [] => true | x :: l' => arg_clean k x && go l' end) fv
  end.

Definition args_clean (k : N) (a : Args) : bool :=
  forallb (arg_clean k) (Values a) && forallb (nob k) (Processed a).

Definition dump_clean_call (k : N) (c : Call) : bool :=
  nob k (DirName (CFunc c)) && nob k (FName (CFunc c)) &&
  nob k (LocalSrcPath c) && nob k (RemoteSrcPath c) && nob k (RelSrcPath c) && nob k (SrcName c) &&
  args_clean k (CArgs c).

Definition dump_clean_sig (k : N) (s : Signature) : bool :=
  nob k (State s) && forallb (dump_clean_call k) (Calls (CreatedBy s)) && forallb (dump_clean_call k) (Calls (SStack s)).

Lemma arg_clean_eq k ag n v ip tl ia fv fp fe :
  arg_clean k (MkArg ag n v ip tl ia fv fp fe) = nob k n && forallb (nob k) fp && forallb (arg_clean k) fv.
Proof.
  reflexivity.
Qed.

Lemma arg_string_eq ag n v ip tl ia fv fp fe :
  arg_string (MkArg ag n v ip tl ia fv fp fe) =
  match n with
  | _ :: _ => n
  | [] =>
      if tl then s2b "_" else
      if ag then
        s2b "{" ++ join ((match fp with _ :: _ => fp | [] => map arg_string fv end) ++
                         (if fe then [s2b "..."] else [])) (s2b ", ") ++ s2b "}"
      else if N.ltb v 10 then [48 + v]%N
      else s2b "0x" ++ N_to_hex false v
  end.
Proof.
  cbn [arg_string]. destruct n; [|reflexivity]. destruct tl; [reflexivity|]. destruct ag; [|reflexivity].
  destruct fp; reflexivity.
Qed.

Section DumpClean.
  Variable k : N.
  Hypothesis Hk : (k < 32)%N.

  Lemma join_clean (l : list bytes) (sep : bytes) :
    Forall (fun x => count_byte x k = 0) l -> count_byte sep k = 0 -> count_byte (join l sep) k = 0.
  Proof.
    intros H Hs. induction H as [|x l Hx Hl IH]; [reflexivity|].
    destruct l as [|y l]; [exact Hx|].
    change (join (x :: y :: l) sep) with (x ++ sep ++ join (y :: l) sep).
    rewrite !count_byte_app, Hx, Hs, IH. reflexivity.
  Qed.

  Lemma forallb_nob_Forall (l : list bytes) : forallb (nob k) l = true -> Forall (fun x => count_byte x k = 0) l.
  Proof.
    intros H. apply Forall_forall. intros x Hx. rewrite forallb_forall in H. apply nob_true. now apply H.
  Qed.

  Lemma dots_clean (fe : bool) : Forall (fun x => count_byte x k = 0) (if fe then [s2b "..."] else []).
  Proof. destruct fe; repeat constructor. now apply printable_count. Qed.

  Lemma arg_string_clean (a : Arg) : arg_clean k a = true -> count_byte (arg_string a) k = 0.
  Proof.
    induction a as [ag n v ip tl ia fv fp fe IH] using Arg_ind_ui.
    rewrite arg_clean_eq, arg_string_eq, !andb_true_iff. intros [[Hn Hfp] Hfv].
    destruct n as [|c n]; [|now apply nob_true].
    destruct tl; [now apply printable_count|].
    destruct ag.
    - rewrite !count_byte_app.
      rewrite (printable_count (s2b "{") k), (printable_count (s2b "}") k) by (reflexivity || exact Hk).
      rewrite join_clean; [reflexivity| |now apply printable_count].
      apply Forall_app. split; [|apply dots_clean].
      destruct fp as [|x fp]; [|now apply forallb_nob_Forall].
      apply Forall_forall. intros x Hx. apply in_map_iff in Hx as (a & <- & Ha).
      rewrite Forall_forall in IH. apply IH; [exact Ha|].
      rewrite forallb_forall in Hfv. now apply Hfv.
    - destruct (N.ltb_spec v 10).
      + cbn [count_byte]. destruct (N.eqb_spec (48 + v) k); [lia|reflexivity].
      + rewrite count_byte_app, (printable_count (s2b "0x") k) by (reflexivity || exact Hk).
        apply printable_count; [apply N_to_hex_printable|exact Hk].
  Qed.

  Lemma args_string_clean (a : Args) : args_clean k a = true -> count_byte (args_string a) k = 0.
  Proof.
    unfold args_clean, args_string. rewrite andb_true_iff. intros [Hv Hp].
    apply join_clean; [|now apply printable_count].
    apply Forall_app. split; [|apply dots_clean].
    destruct (Processed a) as [|x l]; [|now apply forallb_nob_Forall].
    apply Forall_forall. intros x Hx. apply in_map_iff in Hx as (b & <- & Hb).
    apply arg_string_clean. rewrite forallb_forall in Hv. now apply Hv.
  Qed.

  Lemma dump_clean_call_ok c : dump_clean_call k c = true -> clean_call k c = true.
  Proof.
    unfold dump_clean_call, clean_call. rewrite !andb_true_iff. intros [H Ha]. split; [exact H|].
    unfold nob. apply Nat.eqb_eq. now apply args_string_clean.
  Qed.

  Lemma dump_clean_calls_ok cs : forallb (dump_clean_call k) cs = true -> forallb (clean_call k) cs = true.
  Proof.
    intros H. apply forallb_forall. intros c Hc. apply dump_clean_call_ok. rewrite forallb_forall in H. now apply H.
  Qed.

  Theorem dump_clean_sig_ok s : dump_clean_sig k s = true -> clean_sig k s = true.
  Proof.
    unfold dump_clean_sig, clean_sig, clean_stack. rewrite !andb_true_iff. intros [[H1 H2] H3].
    split; [split|]; [exact H1|now apply dump_clean_calls_ok|now apply dump_clean_calls_ok].
  Qed.
End DumpClean.

Theorem dump_no_lf s : dump_clean_sig LF s = true -> no_lf_sig s = true.
Proof. apply dump_clean_sig_ok. reflexivity. Qed.
Theorem dump_no_esc s : dump_clean_sig ESC s = true -> no_esc_sig s = true.
Proof. apply dump_clean_sig_ok. reflexivity. Qed.

Lemma csi_palette_check (p : palette) : forallb csi_stringb p = true -> Forall csi_string p.
Proof.
  intros H. apply Forall_forall. intros x Hx. apply csi_stringb_sound. rewrite forallb_forall in H. now apply H.
Qed.

(* ================================================================== *)
(* examples                                                            *)
(* ================================================================== *)
Module Ex.
  (* "ünï": 5 bytes, 3 runes *)
  Definition uni : bytes := [195; 188; 110; 195; 175]%N.
  Definition f_main : Func := mkFunc (s2b "main.main") (s2b "main") (s2b "main") (s2b "main") false true.
  Definition f_do : Func := mkFunc (uni ++ s2b ".Do") uni uni (s2b "Do") true false.
  Definition args_do : Args :=
    mkArgs [MkArg false [] 1 false false false [] [] false; MkArg false [] 4096 true false false [] [] false] [] true.
  Definition c_main (line : Z) : Call :=
    mkCall f_main emptyArgs (s2b "/src/main.go") line (s2b "main.go") (s2b "src") (s2b "/src/main.go") (s2b "main.go") (s2b "main") GoMod.
  Definition c_do : Call :=
    mkCall f_do args_do (s2b "/gopath/x/longer_name.go") 7 (s2b "longer_name.go") (s2b "x") [] [] (s2b "x") GOPATH.
  Definition s1 : Signature := mkSig (s2b "running") emptyStack 0 0 (mkStack [c_do; c_main 12] false) false.
  Definition s2 : Signature := mkSig (s2b "chan receive") (mkStack [c_main 30] false) 2 5 (mkStack [c_do] true) true.
  Definition b1 : Bucket := mkBucket s1 [1%Z] true.
  Definition b2 : Bucket := mkBucket s2 [5%Z; 6%Z; 7%Z] false.
  Definition bs : list Bucket := [b1; b2].

  Definition esc (s : string) : bytes := ESC :: s2b s.
  (* 19 real CSI strings, slot 0 (EOLReset) being two sequences *)
  Definition colours : palette :=
    [esc "[39m" ++ esc "[m"; esc "[0;1;35m"; esc "[0;35m"; esc "[0;90m"; esc "[0;1;31m"; esc "[0;31m"; esc "[0m";
     esc "[0;1;33m"; esc "[0;1;35m"; esc "[0;31m"; esc "[0;31m"; esc "[0;1;31m"; esc "[0;31m"; esc "[0;1;31m";
     esc "[0;33m"; esc "[0;1;33m"; esc "[0;32m"; esc "[0;1;32m"; esc "[0;35m"].

  Definition rendered : bytes :=
    s2b "1: running" ++ [LF] ++
    s2b "    " ++ uni ++ s2b "   longer_name.go:7 Do(1, 0x1000, ...)" ++ [LF] ++
    s2b "    main  main.go:12       main()" ++ [LF] ++
    s2b "3: chan receive [2~5 minutes] [locked] [Created by main.main @ main.go:30]" ++ [LF] ++
    s2b "    " ++ uni ++ s2b "   longer_name.go:7 Do(1, 0x1000, ...)" ++ [LF] ++
    s2b "    (...)" ++ [LF].

  Lemma widths : calc_lengths BasePath (map BSig bs) = (16, 5).
  Proof. vm_compute. reflexivity. Qed.

  Lemma render : flatten empty_palette (write_buckets empty_palette None None BasePath false bs) = rendered.
  Proof. vm_compute. reflexivity. Qed.

  (* byte offsets of the file column differ (12 vs 10), rune offsets agree *)
  Lemma columns :
    map (fun c => List.length (line_pre1 5 c)) [c_do; c_main 12] = [12; 10] /\
    map (fun c => rune_count (line_pre1 5 c)) [c_do; c_main 12] = [10; 10] /\
    map (fun c => rune_count (line_pre2 BasePath 16 5 c)) [c_do; c_main 12] = [27; 27].
  Proof. vm_compute. repeat split; reflexivity. Qed.

  Lemma colours_csi : Forall csi_string colours.
  Proof. apply csi_palette_check. vm_compute. reflexivity. Qed.

  Lemma no_esc : forallb (fun b => no_esc_sig (BSig b)) bs = true.
  Proof. vm_compute. reflexivity. Qed.

  Lemma colour :
    strip_csi (flatten colours (write_buckets colours None None BasePath true bs)) =
    flatten empty_palette (write_buckets empty_palette None None BasePath true bs) /\
    List.length (flatten colours (write_buckets colours None None BasePath true bs)) = 450 /\
    List.length (flatten empty_palette (write_buckets empty_palette None None BasePath true bs)) = 306.
  Proof.
    split; [apply colour_erasure; [exact colours_csi|exact no_esc]|]. vm_compute. split; reflexivity.
  Qed.

  Definition is_running (h : bytes) : bool := contains h (s2b "running").

  Lemma split :
    flatten empty_palette (write_buckets empty_palette None (Some is_running) BasePath false bs) =
      s2b "1: running" ++ [LF] ++
      s2b "    " ++ uni ++ s2b "   longer_name.go:7 Do(1, 0x1000, ...)" ++ [LF] ++
      s2b "    main  main.go:12       main()" ++ [LF] /\
    flatten empty_palette (write_buckets empty_palette (Some is_running) None BasePath false bs) =
      s2b "3: chan receive [2~5 minutes] [locked] [Created by main.main @ main.go:30]" ++ [LF] ++
      s2b "    " ++ uni ++ s2b "   longer_name.go:7 Do(1, 0x1000, ...)" ++ [LF] ++
      s2b "    (...)" ++ [LF].
  Proof. vm_compute. split; reflexivity. Qed.

  (* an empty, non-elided stack still prints one (empty) line *)
  Lemma empty_stack :
    flatten empty_palette (bucket_block BasePath 0 0 false (mkBucket emptySig [1%Z] true)) = s2b "1: " ++ [LF; LF].
  Proof. vm_compute. reflexivity. Qed.

  (* a malformed sequence is kept, complete ones are dropped *)
  Lemma strip :
    strip_csi (esc "[1;31m" ++ s2b "a" ++ esc "]" ++ s2b "b" ++ esc "[0m") = s2b "a" ++ esc "]" ++ s2b "b" /\
    strip_csi (s2b "x" ++ esc "[3" ) = s2b "x" ++ esc "[3".
  Proof. vm_compute. split; reflexivity. Qed.
End Ex.
