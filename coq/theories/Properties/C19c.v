(* Properties/C19c.v — C19 at the level of the driver: Snapshot.augment /
   cacheAST.augmentGoroutine / cacheAST.loadFile (Model/AugmentSnap.v), over
   ALL oracles for the file system (read_file), go/parser (parse) and
   strconv.FormatFloat (f32, f64).  Statements only.

   C19.v is about augmentCall given the type names, C19b.v about the selection
   of the declaration in one parsed file.  Here: which calls are looked at,
   which file is loaded, what a missing / non-Go / unreadable / unparsable
   file, an over-long line, a foreign name or a different arity do to the
   snapshot, that nothing but Args.Processed of the calls of g.Stack is ever
   written (the raw Values, every other field, CreatedBy: untouched), that the
   per-snapshot cache is invisible, and the truthful rendering lifted to the
   snapshot: a call whose file parses, whose line lies inside the declaration
   its frame names and whose words are the Spec/Abi encoding of values
   matching the declared parameters (pointer receiver word first) comes out
   with Processed = the values.

   Reading guide.
     call_at gs gi ci        call number ci of the stack of goroutine number gi
     file_parses p src tree  p is not empty, ends in ".go", read_file p = src, parse src = tree
     file_unusable p         one of the four fails (the two are complementary:
                             C19c_parses_or_unusable)
     strip_processed         erases Processed of every call of every g.Stack and
                             nothing else (C19c_strip_forgets_only_processed)
   Lines.  Call.Line is a Go int; a negative line in a call whose file parses
   makes getFuncAST index lineToByteOffset out of range
   (C19c_negative_line_panics); the traceback parser only produces lines >= 0,
   which is the hypothesis lines_nonneg of C19c_total.

   VALUE RECEIVERS ARE OUTSIDE C19's QUANTIFIER ("functions and
   pointer-receiver methods").  The runtime prints the words of a value
   receiver first, exactly as for a pointer receiver, but extractArgumentsType
   lists a receiver only when it is a pointer (C19c_value_receiver_types).
   The value-receiver disjunct of C19b.C19_types_compose assumes words =
   flat_map encode ps, a traceback that does not occur.  What really happens
   is C19c_value_receiver: the declared parameter types are applied from the
   receiver's first word on, the values shown are whatever the shifted words
   denote, the words left over are shown raw; C19c_value_receiver_int_shift
   spells it out for int parameters (each value one position late, the last
   one in hex) and C19c_value_receiver_refuted is DESIGN's observation
   P.val({0x0}, 0x2) -> P.val(0, 0x2).  Floats are relative to the
   FormatFloat oracles throughout (show and augment_call share f32, f64). *)
From PP Require Import Base.Bytes Base.BytesX Base.Num Base.GoResult Model.Types Model.UI Model.Augment Model.Source Spec.Abi
     Model.AugmentSnap.
From PP Require Import Proofs.AugmentProofs Proofs.SourceProofs Proofs.AugmentSnapProofs.
From PP Require Import Properties.C19b.
From Coq Require Import String.

(* ---- no crash ---- *)

(* whatever the file system and the parser answer, for every snapshot whose
   lines are line numbers: Snapshot.augment returns.  (C19_source_total and
   C19_extract_then_augment_total discharge the two partial operations.) *)
Theorem C19c_total : forall f32 f64 read_file parse gs,
  lines_nonneg gs -> exists r, augment_snapshot f32 f64 read_file parse gs = Ok r.
Proof. exact AugmentSnapProofs.snapshot_total. Qed.
Print Assumptions C19c_total.

(* the hypothesis is needed: p.lineToByteOffset[l] with l < 0 *)
Theorem C19c_negative_line_panics : forall f32 f64 read_file parse c src tree g,
  Values (CArgs c) <> [] -> file_parses read_file parse (LocalSrcPath c) src tree -> (Line c < 0)%Z ->
  Calls (SStack (GSig g)) = [c] ->
  augment_snapshot f32 f64 read_file parse [g] = Panic "index out of range".
Proof. exact AugmentSnapProofs.snap_negative_line_panics. Qed.
Print Assumptions C19c_negative_line_panics.

(* ---- nothing but Processed of the stack's calls is written ---- *)

Theorem C19c_only_processed_changes : forall f32 f64 read_file parse gs gs' e,
  augment_snapshot f32 f64 read_file parse gs = Ok (gs', e) ->
  strip_processed gs' = strip_processed gs /\
  map (fun g => CreatedBy (GSig g)) gs' = map (fun g => CreatedBy (GSig g)) gs.
Proof.
  intros f32 f64 read_file parse gs gs' e H.
  split; [exact (only_processed_changes _ _ _ _ gs gs' e H)|exact (created_by_untouched _ _ _ _ gs gs' e H)].
Qed.
Print Assumptions C19c_only_processed_changes.

(* the eraser is adequate: two goroutines it identifies agree on every field,
   CreatedBy included, and call by call on everything but Processed *)
Theorem C19c_strip_forgets_only_processed : forall g g', strip_goroutine g' = strip_goroutine g ->
  State (GSig g') = State (GSig g) /\ CreatedBy (GSig g') = CreatedBy (GSig g) /\
  SleepMin (GSig g') = SleepMin (GSig g) /\ SleepMax (GSig g') = SleepMax (GSig g) /\
  Locked (GSig g') = Locked (GSig g) /\ ID g' = ID g /\ First g' = First g /\
  RaceWrite g' = RaceWrite g /\ RaceAddr g' = RaceAddr g /\
  SElided (SStack (GSig g')) = SElided (SStack (GSig g)) /\
  Forall2 (fun c c' => c' = set_processed c (Processed (CArgs c')))
          (Calls (SStack (GSig g))) (Calls (SStack (GSig g'))).
Proof. exact AugmentSnapProofs.strip_goroutine_inv. Qed.
Print Assumptions C19c_strip_forgets_only_processed.

(* "source analysis never changes the raw argument values" *)
Theorem C19c_raw_values_unchanged : forall f32 f64 read_file parse gs gs' e gi ci c,
  augment_snapshot f32 f64 read_file parse gs = Ok (gs', e) -> call_at gs gi ci = Some c ->
  exists c', call_at gs' gi ci = Some c' /\ c' = set_processed c (Processed (CArgs c')) /\
             Values (CArgs c') = Values (CArgs c).
Proof. exact AugmentSnapProofs.raw_values_unchanged. Qed.
Print Assumptions C19c_raw_values_unchanged.

(* ---- sources that cannot be used: the call is returned as it was ---- *)

Theorem C19c_parses_or_unusable : forall read_file parse k,
  file_unusable read_file parse k \/ exists src tree, file_parses read_file parse k src tree.
Proof. exact AugmentSnapProofs.parses_or_unusable. Qed.
Print Assumptions C19c_parses_or_unusable.

(* no local path, not a Go file, read error, syntax error *)
Theorem C19c_missing_source_identity : forall f32 f64 read_file parse gs gs' e gi ci c,
  augment_snapshot f32 f64 read_file parse gs = Ok (gs', e) -> call_at gs gi ci = Some c ->
  file_unusable read_file parse (LocalSrcPath c) -> call_at gs' gi ci = Some c.
Proof. exact AugmentSnapProofs.snap_missing_source_identity. Qed.
Print Assumptions C19c_missing_source_identity.

(* a call without argument values is skipped before anything is loaded *)
Theorem C19c_no_values_identity : forall f32 f64 read_file parse gs gs' e gi ci c,
  augment_snapshot f32 f64 read_file parse gs = Ok (gs', e) -> call_at gs gi ci = Some c ->
  Values (CArgs c) = [] -> call_at gs' gi ci = Some c.
Proof. exact AugmentSnapProofs.snap_no_values_identity. Qed.
Print Assumptions C19c_no_values_identity.

(* ---- sources that do not match the binary ---- *)

(* shifted lines: the line of the frame is beyond the file on disk (C19_overline_src) *)
Theorem C19c_overline_identity : forall f32 f64 read_file parse gs gs' e gi ci c src tree,
  augment_snapshot f32 f64 read_file parse gs = Ok (gs', e) -> call_at gs gi ci = Some c ->
  file_parses read_file parse (LocalSrcPath c) src tree -> (0 <= Line c)%Z ->
  2 + count_byte src LF <= Z.to_nat (Line c) ->
  call_at gs' gi ci = Some c.
Proof. exact AugmentSnapProofs.snap_overline_identity. Qed.
Print Assumptions C19c_overline_identity.

(* no declaration of the file on disk has the frame's function name (C19_wrong_name_unaugmented) *)
Theorem C19c_wrong_name_identity : forall f32 f64 read_file parse gs gs' e gi ci c src tree,
  augment_snapshot f32 f64 read_file parse gs = Ok (gs', e) -> call_at gs gi ci = Some c ->
  file_parses read_file parse (LocalSrcPath c) src tree -> (0 <= Line c)%Z ->
  (forall p d, In (p, d) (funcdecls tree) -> fd_name d <> last_component (FName (CFunc c))) ->
  call_at gs' gi ci = Some c.
Proof. exact AugmentSnapProofs.snap_wrong_name_identity. Qed.
Print Assumptions C19c_wrong_name_identity.

(* in general: whenever the selection of C19b answers "nothing" or "over the
   line count" (C19_func_keyword_line_unaugmented, C19_one_line_func_unaugmented, ...) *)
Theorem C19c_unaugmented_identity : forall f32 f64 read_file parse gs gs' e gi ci c src tree,
  augment_snapshot f32 f64 read_file parse gs = Ok (gs', e) -> call_at gs gi ci = Some c ->
  file_parses read_file parse (LocalSrcPath c) src tree -> (0 <= Line c)%Z ->
  (source_types (line_offsets src) tree (Z.to_nat (Line c)) (FName (CFunc c)) = Ok SrcNone \/
   source_types (line_offsets src) tree (Z.to_nat (Line c)) (FName (CFunc c)) = Ok SrcErr) ->
  call_at gs' gi ci = Some c.
Proof. exact AugmentSnapProofs.snap_unaugmented_identity. Qed.
Print Assumptions C19c_unaugmented_identity.

(* different arity, any sources at all: the call keeps every field, what was
   processed before is kept, at most one entry per word and per value is added *)
Theorem C19c_arity_mismatch_harmless : forall f32 f64 read_file parse gs gs' e gi ci c,
  augment_snapshot f32 f64 read_file parse gs = Ok (gs', e) -> call_at gs gi ci = Some c ->
  exists more, call_at gs' gi ci = Some (set_processed c (Processed (CArgs c) ++ more)) /\
               List.length more <= List.length (args_leaves (CArgs c)) + List.length (Values (CArgs c)).
Proof. exact AugmentSnapProofs.snap_arity_mismatch_harmless. Qed.
Print Assumptions C19c_arity_mismatch_harmless.

(* ---- the cache is invisible ---- *)

(* the goroutines Snapshot.augment leaves are those of the computation that
   loads the file afresh for every call, panics included: the result does not
   depend on how often or in which order a file occurs *)
Theorem C19c_cache_irrelevant : forall f32 f64 read_file parse gs,
  res_map fst (augment_snapshot f32 f64 read_file parse gs) = augment_snapshot_uncached f32 f64 read_file parse gs.
Proof. exact AugmentSnapProofs.cache_irrelevant. Qed.
Print Assumptions C19c_cache_irrelevant.

(* call by call *)
Theorem C19c_cache_irrelevant_pointwise : forall f32 f64 read_file parse gs gs' e gi ci c,
  augment_snapshot f32 f64 read_file parse gs = Ok (gs', e) -> call_at gs gi ci = Some c ->
  exists c', call_at gs' gi ci = Some c' /\ augment_call_uncached f32 f64 read_file parse c = Ok c'.
Proof. exact AugmentSnapProofs.snapshot_pointwise. Qed.
Print Assumptions C19c_cache_irrelevant_pointwise.

(* ---- truthful rendering, at the level of the snapshot ---- *)

(* a function: the file of the call parses to a well-positioned tree, the
   line starts after the func keyword of declaration d and not after the start
   of the next top-level declaration, the frame names d, the words are the
   encoding of values ps matching d's parameters *)
Theorem C19c_truthful_snapshot : forall f32 f64 read_file parse isptr gs gs' e gi ci c src off p0 pre pk d ch nxt post ps,
  augment_snapshot f32 f64 read_file parse gs = Ok (gs', e) -> call_at gs gi ci = Some c ->
  file_parses read_file parse (LocalSrcPath c) src (Node p0 KOther (pre ++ Node pk (KFuncDecl d) ch :: nxt :: post)) ->
  wf_file (Node p0 KOther (pre ++ Node pk (KFuncDecl d) ch :: nxt :: post)) = true ->
  (0 <= Line c)%Z -> nth_error (line_offsets src) (Z.to_nat (Line c)) = Some off ->
  (pk < off)%N -> (off <= node_pos nxt)%N ->
  match_func_decl d (FName (CFunc c)) = true ->
  fd_recv d = None ->
  params_match (fd_params d) ps -> forallb wf_param ps = true ->
  CArgs c = args_of_words isptr (flat_map encode ps) ->
  call_at gs' gi ci = Some (set_processed c (map (show f32 f64) ps)).
Proof. exact AugmentSnapProofs.snap_truthful. Qed.
Print Assumptions C19c_truthful_snapshot.

(* a method with a pointer receiver: the receiver word comes first *)
Theorem C19c_truthful_snapshot_ptr_receiver :
  forall f32 f64 read_file parse isptr gs gs' e gi ci c src off p0 pre pk d ch nxt post n x recv ps,
  augment_snapshot f32 f64 read_file parse gs = Ok (gs', e) -> call_at gs gi ci = Some c ->
  file_parses read_file parse (LocalSrcPath c) src (Node p0 KOther (pre ++ Node pk (KFuncDecl d) ch :: nxt :: post)) ->
  wf_file (Node p0 KOther (pre ++ Node pk (KFuncDecl d) ch :: nxt :: post)) = true ->
  (0 <= Line c)%Z -> nth_error (line_offsets src) (Z.to_nat (Line c)) = Some off ->
  (pk < off)%N -> (off <= node_pos nxt)%N ->
  match_func_decl d (FName (CFunc c)) = true ->
  fd_recv d = Some [mkField n (TStar x)] -> n <= 1 ->
  params_match (fd_params d) ps -> word_ok recv = true -> forallb wf_param ps = true ->
  CArgs c = args_of_words isptr (recv :: flat_map encode ps) ->
  call_at gs' gi ci =
  Some (set_processed c (((s2b "*" ++ Source.type_name x) ++ s2b "(" ++ hex0x recv ++ s2b ")")
                         :: map (show f32 f64) ps)).
Proof. exact AugmentSnapProofs.snap_truthful_ptr. Qed.
Print Assumptions C19c_truthful_snapshot_ptr_receiver.

(* the same with the selection given by its executable specification
   (C19_select_spec: the last top-level FuncDecl whose func keyword lies before
   the line, provided some node starts at or after it): covers the last
   declaration of a file as well *)
Theorem C19c_truthful_snapshot_spec : forall f32 f64 read_file parse isptr gs gs' e gi ci c src tree off pk d ps,
  augment_snapshot f32 f64 read_file parse gs = Ok (gs', e) -> call_at gs gi ci = Some c ->
  file_parses read_file parse (LocalSrcPath c) src tree -> wf_file tree = true -> (0 <= Line c)%Z ->
  nth_error (line_offsets src) (Z.to_nat (Line c)) = Some off ->
  select_spec off tree = AstFound pk d ->
  match_func_decl d (FName (CFunc c)) = true ->
  fd_recv d = None ->
  params_match (fd_params d) ps -> forallb wf_param ps = true ->
  CArgs c = args_of_words isptr (flat_map encode ps) ->
  call_at gs' gi ci = Some (set_processed c (map (show f32 f64) ps)).
Proof. exact AugmentSnapProofs.snap_truthful_spec. Qed.
Print Assumptions C19c_truthful_snapshot_spec.

Theorem C19c_truthful_snapshot_ptr_receiver_spec :
  forall f32 f64 read_file parse isptr gs gs' e gi ci c src tree off pk d n x recv ps,
  augment_snapshot f32 f64 read_file parse gs = Ok (gs', e) -> call_at gs gi ci = Some c ->
  file_parses read_file parse (LocalSrcPath c) src tree -> wf_file tree = true -> (0 <= Line c)%Z ->
  nth_error (line_offsets src) (Z.to_nat (Line c)) = Some off ->
  select_spec off tree = AstFound pk d ->
  match_func_decl d (FName (CFunc c)) = true ->
  fd_recv d = Some [mkField n (TStar x)] -> n <= 1 ->
  params_match (fd_params d) ps -> word_ok recv = true -> forallb wf_param ps = true ->
  CArgs c = args_of_words isptr (recv :: flat_map encode ps) ->
  call_at gs' gi ci =
  Some (set_processed c (((s2b "*" ++ Source.type_name x) ++ s2b "(" ++ hex0x recv ++ s2b ")")
                         :: map (show f32 f64) ps)).
Proof. exact AugmentSnapProofs.snap_truthful_ptr_spec. Qed.
Print Assumptions C19c_truthful_snapshot_ptr_receiver_spec.

(* ---- value receivers: what really happens ---- *)

(* the receiver is skipped: the types are those of the plain function *)
Theorem C19c_value_receiver_types : forall d r, fd_recv d = Some [r] -> is_star (f_type r) = false ->
  extract_arguments_type d = extract_arguments_type (mkFuncDecl (fd_name d) None (fd_params d)).
Proof. exact AugmentSnapProofs.value_receiver_types. Qed.
Print Assumptions C19c_value_receiver_types.

(* the runtime prints the receiver's words first.  Whatever the words of the
   call are, split them as (encoding of values ps' of the DECLARED parameter
   types) ++ ws: ps' is shown, ws is shown raw.  With words = receiver words ++
   encoding of the real values ps, ps' is NOT ps: it is what the receiver's
   words followed by the first real words denote *)
Theorem C19c_value_receiver : forall f32 f64 read_file parse isptr gs gs' e gi ci c src tree off pk d r ps' ws,
  augment_snapshot f32 f64 read_file parse gs = Ok (gs', e) -> call_at gs gi ci = Some c ->
  file_parses read_file parse (LocalSrcPath c) src tree -> wf_file tree = true -> (0 <= Line c)%Z ->
  nth_error (line_offsets src) (Z.to_nat (Line c)) = Some off ->
  select_spec off tree = AstFound pk d ->
  match_func_decl d (FName (CFunc c)) = true ->
  fd_recv d = Some [r] -> is_star (f_type r) = false ->
  params_match (fd_params d) ps' -> forallb wf_param ps' = true ->
  CArgs c = args_of_words isptr (flat_map encode ps' ++ ws) ->
  call_at gs' gi ci = Some (set_processed c (map (show f32 f64) ps' ++ map raw_word ws)).
Proof. exact AugmentSnapProofs.snap_value_receiver. Qed.
Print Assumptions C19c_value_receiver.

(* func (p P) m(x1, .., xn, y int), P one word wide (type P int), called with
   (x1, .., xn, y) on receiver rw: the words are rw, x1, .., xn, y; shown are
   rw as an int, x1 .. xn one position late, y in hex.  The truthful
   rendering would be x1, .., xn, y *)
Theorem C19c_value_receiver_int_shift :
  forall f32 f64 read_file parse isptr gs gs' e gi ci c src tree off pk d r rw zs zl,
  augment_snapshot f32 f64 read_file parse gs = Ok (gs', e) -> call_at gs gi ci = Some c ->
  file_parses read_file parse (LocalSrcPath c) src tree -> wf_file tree = true -> (0 <= Line c)%Z ->
  nth_error (line_offsets src) (Z.to_nat (Line c)) = Some off ->
  select_spec off tree = AstFound pk d ->
  match_func_decl d (FName (CFunc c)) = true ->
  fd_recv d = Some [r] -> is_star (f_type r) = false ->
  params_match (fd_params d) (map (PInt IWord) (zs ++ [zl])) ->
  word_ok rw = true -> forallb wf_param (map (PInt IWord) (zs ++ [zl])) = true ->
  CArgs c = args_of_words isptr (rw :: flat_map encode (map (PInt IWord) (zs ++ [zl]))) ->
  call_at gs' gi ci =
  Some (set_processed c (Z_to_dec (signed 64 rw) :: map Z_to_dec zs ++ [raw_word (zext 64 zl)])).
Proof. exact AugmentSnapProofs.snap_value_receiver_int_shift. Qed.
Print Assumptions C19c_value_receiver_int_shift.

(* ================================================================== *)
(* examples: a snapshot over two parsable files, an unparsable one, a
   missing one, an assembly file and a frame without local path *)

(* /src/v.go; exv_tree is go/parser's own output for it (dumped with ast.Inspect) *)
Definition exv_src : bytes :=
  ln "package p" ++ ln "" ++
  ln "func (p P) val(x int) {" ++ tb "panic(x)" ++ ln "}" ++ ln "" ++
  ln "func (p *P) ptr(x int8, s string) {" ++ tb "panic(s)" ++ ln "}" ++ ln "" ++
  ln "var z = 1".

Definition exv_val := mkFuncDecl (s2b "val") (Some [mkField 1 (TIdent (s2b "P"))]) [mkField 1 (TIdent (s2b "int"))].
Definition exv_ptr := mkFuncDecl (s2b "ptr") (Some [mkField 1 (TStar (TIdent (s2b "P")))])
                                 [mkField 1 (TIdent (s2b "int8")); mkField 1 (TIdent (s2b "string"))].
Local Open Scope N_scope.
Definition exv_tree : node :=
  Node 1 KOther
    [Node 9 KOther [];
     Node 12 (KFuncDecl exv_val)
       [Node 17 KOther [Node 18 KOther [Node 18 KOther []; Node 20 KOther []]];
        Node 23 KOther [];
        Node 12 KOther [Node 26 KOther [Node 27 KOther [Node 27 KOther []; Node 29 KOther []]]];
        Node 34 KOther [Node 37 KOther [Node 37 KOther [Node 37 KOther []; Node 43 KOther []]]]];
     Node 49 (KFuncDecl exv_ptr)
       [Node 54 KOther [Node 55 KOther [Node 55 KOther []; Node 57 KOther [Node 58 KOther []]]];
        Node 61 KOther [];
        Node 49 KOther [Node 64 KOther [Node 65 KOther [Node 65 KOther []; Node 67 KOther []];
                                        Node 73 KOther [Node 73 KOther []; Node 75 KOther []]]];
        Node 83 KOther [Node 86 KOther [Node 86 KOther [Node 86 KOther []; Node 92 KOther []]]]];
     Node 98 KOther [Node 102 KOther [Node 102 KOther []; Node 106 KOther []]]].
Example C19c_exv_offsets : line_offsets exv_src = [0; 0; 10; 11; 35; 45; 47; 48; 84; 94; 96; 97; 107] /\ wf_file exv_tree = true.
Proof. vm_compute. split; reflexivity. Qed.
Local Close Scope N_scope.

Definition P_GO := s2b "/src/p.go".          (* C19b.ex_src / ex_tree *)
Definition V_GO := s2b "/src/v.go".
Definition BAD_GO := s2b "/src/bad.go".      (* readable, does not parse *)
Definition MISSING_GO := s2b "/src/missing.go".
Definition ASM_S := s2b "/src/x.s".

Definition exc_read (k : bytes) : option bytes :=
  if beq k P_GO then Some ex_src else if beq k V_GO then Some exv_src
  else if beq k BAD_GO then Some (s2b "package") else if beq k ASM_S then Some (s2b "TEXT") else None.
Definition exc_parse (src : bytes) : option node :=
  if beq src ex_src then Some ex_tree else if beq src exv_src then Some exv_tree else None.
Definition exc_f (_ : N) : bytes := s2b "<float>".
Definition exc_isptr (v : N) : bool := N.leb 8388608 v.

Definition exc_call_args (fn : bytes) (a : Args) (path : bytes) (line : Z) : Call :=
  mkCall (mkFunc (s2b "main." ++ fn) (s2b "main") (s2b "main") fn false true) a
         (s2b "/remote/x.go") line (s2b "x.go") (s2b "remote/x.go") path (s2b "x.go") (s2b "main") GoMod.
Definition exc_call (fn : bytes) (ws : list N) (path : bytes) (line : Z) : Call :=
  exc_call_args fn (args_of_words exc_isptr ws) path line.

(* P.val({0x0}, 0x2): the receiver is a one-field struct, printed as an aggregate *)
Definition exc_val_args : Args :=
  mkArgs [MkArg true [] 0 false false false [word_arg exc_isptr 0] [] false; word_arg exc_isptr 2] [] false.

Definition exc_g1 : Goroutine :=
  mkGoroutine
    (mkSig (s2b "running")
       (mkStack [exc_call (s2b "a") [4921345; 5]%N P_GO 5] false) 0 0
       (mkStack [exc_call (s2b "a") [4921345; 5]%N P_GO 5;                                    (* 0 *)
                 exc_call (pn "T" "b") [824633802752; 18446744073709551615; 7]%N P_GO 8;       (* 1 *)
                 exc_call (s2b "c") [1; 2]%N MISSING_GO 3;                                     (* 2 *)
                 exc_call (s2b "a") [1; 2]%N P_GO 99;                                          (* 3: over the line count *)
                 exc_call (s2b "a") [] P_GO 5;                                                 (* 4: no argument *)
                 exc_call (s2b "a") [1; 2]%N [] 5;                                             (* 5: no local path *)
                 exc_call (s2b "a") [1; 2]%N ASM_S 5;                                          (* 6: not a Go file *)
                 exc_call (s2b "a") [1; 2]%N BAD_GO 5;                                         (* 7: syntax error *)
                 exc_call (s2b "a.func1") [1; 2]%N P_GO 5;                                     (* 8: foreign name *)
                 exc_call_args (s2b "P.val") exc_val_args V_GO 4;                              (* 9: value receiver *)
                 exc_call (pn "P" "ptr") [824633802752; 251; 4921345; 5]%N V_GO 8;             (* 10 *)
                 exc_call (s2b "a") [7]%N P_GO 5;                                              (* 11: one word for a string *)
                 exc_call (s2b "a") [4921345; 5; 9]%N P_GO 5] false)                           (* 12: one word too many *)
       false) 1 true false 0.
Definition exc_g2 : Goroutine :=
  mkGoroutine
    (mkSig (s2b "sleep") emptyStack 2 2
       (mkStack [exc_call (s2b "c") [1; 2]%N MISSING_GO 3;
                 exc_call (s2b "c") [824633802752; 2]%N P_GO 14;
                 exc_call (s2b "a") [4921345; 5]%N P_GO 5] true)
       false) 2 false false 0.
Definition exc_gs := [exc_g1; exc_g2].

Definition exc_snap := augment_snapshot exc_f exc_f exc_read exc_parse.
Definition exc_out : list Goroutine := match exc_snap exc_gs with Ok (gs', _) => gs' | Panic _ => [] end.
Definition processed_of (gs : list Goroutine) : list (list (list bytes)) :=
  map (fun g => map (fun c => Processed (CArgs c)) (Calls (SStack (GSig g)))) gs.

(* the run: returns; the last error is the syntax error of bad.go (the second
   goroutine meets missing.go again: remembered, no new error) *)
Example C19c_ex_run : exc_snap exc_gs = Ok (exc_out, Some (ErrParse BAD_GO)).
Proof. vm_compute. reflexivity. Qed.

Example C19c_ex_processed :
  processed_of exc_out =
  [[map s2b ["string(0x4b1801, len=5)"]%string;
    map s2b ["*T(0xc000014000)"; "-1"; "7"]%string;
    []; []; []; []; []; []; [];
    map s2b ["0"; "0x2"]%string;                                  (* P.val({0x0}, 0x2) -> P.val(0, 0x2) *)
    map s2b ["*P(0xc000014000)"; "-5"; "string(0x4b1801, len=5)"]%string;
    map s2b ["string(0x7, len=<nil>)"]%string;                    (* arity: too few words *)
    map s2b ["string(0x4b1801, len=5)"; "0x9"]%string];           (* arity: a word too many, raw *)
   [[]; map s2b ["map[string]int(0xc000014000)"; "[4]T(0x2)"]%string; map s2b ["string(0x4b1801, len=5)"]%string]].
Proof. vm_compute. reflexivity. Qed.

(* everything else is as it was, CreatedBy (which names an augmentable call) included *)
Example C19c_ex_only_processed :
  strip_processed exc_out = strip_processed exc_gs /\ exc_out <> exc_gs /\
  map (fun g => CreatedBy (GSig g)) exc_out = map (fun g => CreatedBy (GSig g)) exc_gs /\
  map (fun c => Processed (CArgs c)) (Calls (CreatedBy (GSig exc_g1))) = [[]].
Proof. vm_compute. repeat split; try reflexivity. discriminate. Qed.

(* the calls 2..8 of the first goroutine and call 0 of the second are returned unchanged *)
Example C19c_ex_identity :
  map (fun ci => call_at exc_out 0 ci) [2; 3; 4; 5; 6; 7; 8] = map (fun ci => call_at exc_gs 0 ci) [2; 3; 4; 5; 6; 7; 8] /\
  call_at exc_out 1 0 = call_at exc_gs 1 0.
Proof. vm_compute. split; reflexivity. Qed.

(* the classification of the files *)
Example C19c_ex_files :
  file_unusable exc_read exc_parse MISSING_GO /\ file_unusable exc_read exc_parse BAD_GO /\
  file_unusable exc_read exc_parse ASM_S /\ file_unusable exc_read exc_parse [] /\
  file_parses exc_read exc_parse P_GO ex_src ex_tree /\ file_parses exc_read exc_parse V_GO exv_src exv_tree.
Proof.
  repeat split; try discriminate; try reflexivity.
  - right. right. left. reflexivity.
  - right. right. right. exists (s2b "package"). split; reflexivity.
  - right. left. reflexivity.
  - left. reflexivity.
Qed.

(* the cache does not show: same goroutines as the uncached computation; the
   goroutines in another order come out the same.  Only the returned error
   depends on the cache (the error of a file is reported on its first load
   only): the second goroutine alone returns the read error of missing.go,
   after the first one it returns none *)
Example C19c_ex_cache :
  augment_snapshot_uncached exc_f exc_f exc_read exc_parse exc_gs = Ok exc_out /\
  exc_snap [exc_g2; exc_g1] = Ok (rev exc_out, Some (ErrParse BAD_GO)) /\
  exc_snap [exc_g2] = Ok ([nth 1 exc_out exc_g2], Some (ErrRead MISSING_GO)).
Proof. vm_compute. repeat split; reflexivity. Qed.

(* the hypotheses of C19c_truthful_snapshot are satisfiable: call 0 of the
   first goroutine, a(s string) at p.go:5, derived from the theorem, not computed *)
Example C19c_ex_truthful_applies :
  call_at exc_out 0 0 =
  Some (set_processed (exc_call (s2b "a") [4921345; 5]%N P_GO 5) (map (show exc_f exc_f) [PString 4921345 5])).
Proof.
  eapply (C19c_truthful_snapshot exc_f exc_f exc_read exc_parse exc_isptr exc_gs exc_out _ 0 0 _ ex_src 38%N
            1%N [_] 12%N ex_a _ _ _ ([PString 4921345 5] ++ [])).
  - exact C19c_ex_run.
  - reflexivity.
  - repeat split; try reflexivity. discriminate.
  - vm_compute. reflexivity.
  - vm_compute. discriminate.
  - vm_compute. reflexivity.
  - vm_compute. reflexivity.
  - vm_compute. discriminate.
  - vm_compute. reflexivity.
  - reflexivity.
  - apply pm_cons; [reflexivity| |apply pm_nil].
    intros p Hp. simpl in Hp. destruct Hp as [Hp|Hp]; [subst p; reflexivity|contradiction].
  - vm_compute. reflexivity.
  - reflexivity.
Qed.

(* ... and those of the pointer-receiver theorem: call 10, (p *P) ptr(x int8, s string) at v.go:8 *)
Example C19c_ex_truthful_ptr_applies :
  call_at exc_out 0 10 =
  Some (set_processed (exc_call (pn "P" "ptr") [824633802752; 251; 4921345; 5]%N V_GO 8)
          (s2b "*P(0xc000014000)" :: map (show exc_f exc_f) [PInt I8 (-5); PString 4921345 5])).
Proof.
  eapply (C19c_truthful_snapshot_ptr_receiver exc_f exc_f exc_read exc_parse exc_isptr exc_gs exc_out _ 0 10 _ exv_src 84%N
            1%N [_; _] 49%N exv_ptr _ _ _ 1 (TIdent (s2b "P")) 824633802752%N
            ([PInt I8 (-5)] ++ [PString 4921345 5] ++ [])).
  - exact C19c_ex_run.
  - reflexivity.
  - repeat split; try reflexivity. discriminate.
  - vm_compute. reflexivity.
  - vm_compute. discriminate.
  - vm_compute. reflexivity.
  - vm_compute. reflexivity.
  - vm_compute. discriminate.
  - vm_compute. reflexivity.
  - reflexivity.
  - lia.
  - repeat (apply pm_cons; [reflexivity| |]); try apply pm_nil;
      intros p Hp; simpl in Hp; (destruct Hp as [Hp|Hp]; [subst p; reflexivity|contradiction]).
  - reflexivity.
  - vm_compute. reflexivity.
  - reflexivity.
Qed.

(* REFUTED: "a value-receiver method whose words are the receiver's words
   followed by the encoding of ps is rendered as ps" (what the value-receiver
   disjunct of C19_types_compose suggests).  DESIGN's observation: the method
   (p P) val(x int) called as P.val({0x0}, 0x2), i.e. x = 2: the truthful
   rendering is "2"; the declared type int is applied to the receiver's word
   and x is left raw: P.val(0, 0x2).  Same with a one-word receiver printed
   as a plain word (type P int): P.val(0x7, 0x2) -> P.val(7, 0x2) *)
Example C19c_value_receiver_refuted :
  let ps := [PInt IWord 2] in
  (exists r, fd_recv exv_val = Some [r] /\ is_star (f_type r) = false) /\
  params_match (fd_params exv_val) (ps ++ []) /\ forallb wf_param ps = true /\
  match_func_decl exv_val (s2b "P.val") = true /\
  select_spec 35 exv_tree = AstFound 12 exv_val /\
  map (show exc_f exc_f) ps = [s2b "2"] /\
  option_map (fun c => Processed (CArgs c)) (call_at exc_out 0 9) = Some (map s2b ["0"; "0x2"]%string) /\
  augment_call exc_f exc_f (fst (extract_arguments_type exv_val)) (snd (extract_arguments_type exv_val))
               (args_of_words exc_isptr (7%N :: flat_map encode ps)) = Ok (map s2b ["7"; "0x2"]%string).
Proof.
  cbv zeta. split; [exists (mkField 1 (TIdent (s2b "P"))); split; reflexivity|].
  split.
  { apply pm_cons; [reflexivity| |apply pm_nil].
    intros p Hp. simpl in Hp. destruct Hp as [Hp|Hp]; [subst p; reflexivity|contradiction]. }
  vm_compute. repeat split; reflexivity.
Qed.

(* a negative line does crash the model (and would crash pp): the hypothesis of C19c_total *)
Example C19c_ex_negative_line :
  exc_snap [mkGoroutine (mkSig [] emptyStack 0 0 (mkStack [exc_call (s2b "a") [1]%N P_GO (-1)] false) false) 1 true false 0]
  = Panic "index out of range".
Proof. vm_compute. reflexivity. Qed.
