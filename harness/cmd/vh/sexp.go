// Canonical s-expression printer for the observable values of package stack.
// Byte strings are hex atoms prefixed with 'x'; numbers are decimal; booleans
// are 0/1.  The OCaml driver (ocaml/driver.ml) parses exactly this format.
package main

import (
	"encoding/hex"
	"strconv"
	"strings"

	"github.com/maruel/panicparse/v2/stack"
)

type sb struct{ strings.Builder }

func (b *sb) str(s string) {
	b.WriteByte('x')
	b.WriteString(hex.EncodeToString([]byte(s)))
}
func (b *sb) boolean(v bool) {
	if v {
		b.WriteByte('1')
	} else {
		b.WriteByte('0')
	}
}
func (b *sb) sp() { b.WriteByte(' ') }

func (b *sb) fn(f *stack.Func) {
	b.WriteString("(f ")
	b.str(f.Complete)
	b.sp()
	b.str(f.ImportPath)
	b.sp()
	b.str(f.DirName)
	b.sp()
	b.str(f.Name)
	b.sp()
	b.boolean(f.IsExported)
	b.sp()
	b.boolean(f.IsPkgMain)
	b.WriteByte(')')
}

func (b *sb) arg(a *stack.Arg) {
	b.WriteString("(a ")
	b.boolean(a.IsAggregate)
	b.sp()
	b.str(a.Name)
	b.sp()
	b.WriteString(strconv.FormatUint(a.Value, 10))
	b.sp()
	b.boolean(a.IsPtr)
	b.sp()
	b.boolean(a.IsOffsetTooLarge)
	b.sp()
	b.boolean(a.IsInaccurate)
	b.sp()
	b.args(&a.Fields)
	b.WriteByte(')')
}

func (b *sb) args(a *stack.Args) {
	b.WriteString("(args ")
	b.boolean(a.Elided)
	b.WriteString(" (vals")
	for i := range a.Values {
		b.sp()
		b.arg(&a.Values[i])
	}
	b.WriteString(") (proc")
	for _, p := range a.Processed {
		b.sp()
		b.str(p)
	}
	b.WriteString("))")
}

func (b *sb) call(c *stack.Call) {
	b.WriteString("(c ")
	b.fn(&c.Func)
	b.sp()
	b.args(&c.Args)
	b.sp()
	b.str(c.RemoteSrcPath)
	b.sp()
	b.WriteString(strconv.Itoa(c.Line))
	b.sp()
	b.str(c.SrcName)
	b.sp()
	b.str(c.DirSrc)
	b.sp()
	b.str(c.LocalSrcPath)
	b.sp()
	b.str(c.RelSrcPath)
	b.sp()
	b.str(c.ImportPath)
	b.sp()
	b.WriteString(strconv.Itoa(int(c.Location)))
	b.WriteByte(')')
}

func (b *sb) stack(s *stack.Stack) {
	b.WriteString("(stack ")
	b.boolean(s.Elided)
	for i := range s.Calls {
		b.sp()
		b.call(&s.Calls[i])
	}
	b.WriteByte(')')
}

func (b *sb) sig(s *stack.Signature) {
	b.WriteString("(sig ")
	b.str(s.State)
	b.sp()
	b.WriteString(strconv.Itoa(s.SleepMin))
	b.sp()
	b.WriteString(strconv.Itoa(s.SleepMax))
	b.sp()
	b.boolean(s.Locked)
	b.sp()
	b.stack(&s.CreatedBy)
	b.sp()
	b.stack(&s.Stack)
	b.WriteByte(')')
}

func (b *sb) goroutine(g *stack.Goroutine) {
	b.WriteString("(g ")
	b.WriteString(strconv.Itoa(g.ID))
	b.sp()
	b.boolean(g.First)
	b.sp()
	b.boolean(g.RaceWrite)
	b.sp()
	b.WriteString(strconv.FormatUint(g.RaceAddr, 10))
	b.sp()
	b.sig(&g.Signature)
	b.WriteByte(')')
}

func (b *sb) goroutines(gs []*stack.Goroutine) {
	b.WriteString("(gs")
	for _, g := range gs {
		b.sp()
		b.goroutine(g)
	}
	b.WriteByte(')')
}

func (b *sb) bucket(k *stack.Bucket) {
	b.WriteString("(b ")
	b.boolean(k.First)
	b.WriteString(" (ids")
	for _, id := range k.IDs {
		b.sp()
		b.WriteString(strconv.Itoa(id))
	}
	b.WriteString(") ")
	b.sig(&k.Signature)
	b.WriteByte(')')
}

func (b *sb) buckets(bs []*stack.Bucket) {
	b.WriteString("(bs")
	for _, k := range bs {
		b.sp()
		b.bucket(k)
	}
	b.WriteByte(')')
}

func sexpGoroutines(gs []*stack.Goroutine) string {
	var b sb
	b.goroutines(gs)
	return b.String()
}

func sexpBuckets(bs []*stack.Bucket) string {
	var b sb
	b.buckets(bs)
	return b.String()
}

func hexs(s []byte) string { return "x" + hex.EncodeToString(s) }
