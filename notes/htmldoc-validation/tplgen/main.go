// tplgen generates coq/theories/Model/HtmlTpl.v: the literal text of the HTML
// report template as Coq byte constants, FROM stack/goroutines.tpl.
//
//	go run ./tplgen -repo /tmp/repo-stable -o ../../coq/theories/Model/HtmlTpl.v
//	go run ./tplgen -repo /tmp/repo-stable -check ../../coq/theories/Model/HtmlTpl.v   (exit 1 when out of date)
//
// What it does:
//  1. reads stack/goroutines.tpl and applies the transformation of stack/regen.go
//     (every run of "\n[ \t]*" becomes one "\n");
//  2. reads the constants indexHTML and favicon out of stack/data.go (go/parser) and
//     checks that indexHTML is exactly the result of step 1 and that favicon is the
//     base64 encoding of stack/emoji_u1f4a3_64.gif (so that data.go is not stale);
//  3. parses the template with text/template/parse (which applies the {{- and -}}
//     trimming) and collects, in document order, the text nodes of the main template
//     that lie OUTSIDE the content region {{if .Aggregated}}...{{end}} (that region is
//     modelled by hand in Model/HtmlDoc.v), plus the text nodes of the sub-template
//     "Join".  Text nodes are NOT merged: two nodes separated by a template comment
//     or by a {{define}} stay two chunks, so that every chunk is a contiguous piece
//     of the template text;
//  4. checks that their number and their landmarks are the ones Model/HtmlPage.v
//     expects (it fails loudly when the structure of the template has changed) and
//     writes them as named constants.
package main

import (
	"bytes"
	"encoding/base64"
	"flag"
	"fmt"
	"go/ast"
	"go/parser"
	"go/token"
	"os"
	"path/filepath"
	"regexp"
	"strconv"
	"strings"
	"text/template/parse"
)

func die(f string, a ...interface{}) {
	fmt.Fprintf(os.Stderr, "tplgen: "+f+"\n", a...)
	os.Exit(1)
}

// the names of the chunks of the main template, in document order
var mainNames = []string{
	"tpl_doctype",        // <!DOCTYPE html>                      (the sub-template definitions follow)
	"tpl_head_a",         // <meta ... href="data:image/gif;base64,
	"tpl_head_b",         // "/> LF <style>                       (a template comment follows)
	"tpl_style_a",        // * { ... .bottom-padding { ... } LF   (a template comment follows)
	"tpl_style_b",        // .FuncMain { ... </style> LF          (then <div id="content">)
	"tpl_meta_open",      // (after </div>) LF <h2>Metadata</h2> LF <ul> LF <li>Created on
	"tpl_li_next",        // </li> LF <li>
	"tpl_li_end_version", // </li>
	"tpl_goroot_remote",  // <li>GOROOT (remote):
	"tpl_goroot_local",   // </li> LF <li>GOROOT (local):
	"tpl_li_end_goroot2", // </li>
	"tpl_goroot",         // <li>GOROOT:
	"tpl_li_end_goroot1", // </li>
	"tpl_gopath",         // <li>GOPATH:
	"tpl_li_end_gopath",  // </li>
	"tpl_gomods_open",    // <li>go modules (local): LF <ul>
	"tpl_gomod_li",       // <li>
	"tpl_gomod_sep",      // ": "
	"tpl_gomod_end",      // </li>
	"tpl_gomods_close",   // </ul> LF </li>
	"tpl_maxprocs",       // <li>GOMAXPROCS:
	"tpl_legend",         // </li> LF </ul> LF <h2>Legend</h2> ... </table>
	"tpl_tail",           // <div class="bottom-padding"></div> LF
}

const divOpen = `<div id="content">`
const divClose = `</div>`

type collector struct {
	chunks []string
	cur    bytes.Buffer
	open   bool
	holes  []string // the actions met, for the report
}

func (c *collector) flush() {
	if c.open {
		c.chunks = append(c.chunks, c.cur.String())
		c.cur.Reset()
		c.open = false
	}
}

func (c *collector) list(l *parse.ListNode, skipContent bool) {
	if l == nil {
		return
	}
	for _, n := range l.Nodes {
		switch n := n.(type) {
		case *parse.TextNode:
			c.flush()
			c.cur.Write(n.Text)
			c.open = true
		case *parse.CommentNode:
			// no output, does not separate text
		case *parse.IfNode:
			c.flush()
			if skipContent && n.Pipe.String() == ".Aggregated" {
				c.holes = append(c.holes, "{{if .Aggregated}} (content region, Model/HtmlDoc.v)")
				continue
			}
			c.holes = append(c.holes, "{{if "+n.Pipe.String()+"}}")
			c.list(n.List, skipContent)
			c.flush()
			c.list(n.ElseList, skipContent)
			c.flush()
		case *parse.RangeNode:
			c.flush()
			c.holes = append(c.holes, "{{range "+n.Pipe.String()+"}}")
			c.list(n.List, skipContent)
			c.flush()
			c.list(n.ElseList, skipContent)
			c.flush()
		case *parse.WithNode:
			die("unexpected {{with}}")
		default:
			c.flush()
			c.holes = append(c.holes, n.String())
		}
	}
	c.flush()
}

// one Coq term of type bytes
func coqBytes(s string) string {
	var segs []string
	var cur strings.Builder
	flushStr := func() {
		if cur.Len() > 0 {
			segs = append(segs, `s2b "`+cur.String()+`"`)
			cur.Reset()
		}
	}
	var raw []string
	flushRaw := func() {
		if len(raw) > 0 {
			segs = append(segs, "["+strings.Join(raw, "; ")+"]%N")
			raw = nil
		}
	}
	for i := 0; i < len(s); i++ {
		b := s[i]
		switch {
		case b == '\n':
			flushStr()
			flushRaw()
			segs = append(segs, "nl")
		case b >= 32 && b < 127:
			flushRaw()
			if b == '"' {
				cur.WriteString(`""`)
			} else {
				cur.WriteByte(b)
			}
		default:
			flushStr()
			raw = append(raw, strconv.Itoa(int(b)))
		}
	}
	flushStr()
	flushRaw()
	if len(segs) == 0 {
		return "[]"
	}
	var out strings.Builder
	out.WriteString("List.concat [")
	col := 0
	for i, sg := range segs {
		if i > 0 {
			out.WriteString(";")
			if sg != "nl" || col > 100 {
				// keep "nl" on the line it terminates
			}
			if segs[i-1] == "nl" {
				out.WriteString("\n    ")
				col = 0
			} else {
				out.WriteString(" ")
			}
		}
		out.WriteString(sg)
		col += len(sg)
	}
	out.WriteString("]")
	return out.String()
}

func constString(f *ast.File, name string) string {
	for _, d := range f.Decls {
		g, ok := d.(*ast.GenDecl)
		if !ok || g.Tok != token.CONST {
			continue
		}
		for _, sp := range g.Specs {
			vs := sp.(*ast.ValueSpec)
			for i, n := range vs.Names {
				if n.Name == name {
					lit, ok := vs.Values[i].(*ast.BasicLit)
					if !ok {
						die("%s is not a literal", name)
					}
					s, err := strconv.Unquote(lit.Value)
					if err != nil {
						die("%s: %v", name, err)
					}
					return s
				}
			}
		}
	}
	die("constant %s not found in data.go", name)
	return ""
}

func main() {
	repo := flag.String("repo", "/tmp/repo-stable", "root of the panicparse tree")
	out := flag.String("o", "", "write the Coq file here")
	check := flag.String("check", "", "compare with this file instead of writing")
	flag.Parse()

	dir := filepath.Join(*repo, "stack")
	raw, err := os.ReadFile(filepath.Join(dir, "goroutines.tpl"))
	if err != nil {
		die("%v", err)
	}
	// regen.go: loadGoroutines
	tpl := string(regexp.MustCompile("(\\n[ \\t]*)+").ReplaceAll(raw, []byte("\n")))

	fset := token.NewFileSet()
	df, err := parser.ParseFile(fset, filepath.Join(dir, "data.go"), nil, 0)
	if err != nil {
		die("%v", err)
	}
	indexHTML, favicon := constString(df, "indexHTML"), constString(df, "favicon")
	if indexHTML != tpl {
		die("stack/data.go is stale: indexHTML differs from the processed goroutines.tpl (run go generate ./stack)")
	}
	gif, err := os.ReadFile(filepath.Join(dir, "emoji_u1f4a3_64.gif"))
	if err != nil {
		die("%v", err)
	}
	if base64.StdEncoding.EncodeToString(gif) != favicon {
		die("stack/data.go is stale: favicon differs from emoji_u1f4a3_64.gif")
	}

	t := parse.New("t")
	t.Mode = parse.SkipFuncCheck
	trees := map[string]*parse.Tree{}
	if _, err := t.Parse(tpl, "", "", trees); err != nil {
		die("parse: %v", err)
	}
	wantTrees := []string{"Join", "RenderArgs", "RenderCalls", "RenderCreatedBy", "t"}
	if len(trees) != len(wantTrees) {
		die("templates defined: %d, expected %v", len(trees), wantTrees)
	}
	for _, n := range wantTrees {
		if trees[n] == nil {
			die("template %q missing", n)
		}
	}
	var mc collector
	mc.list(trees["t"].Root, true)
	if len(mc.chunks) != len(mainNames) {
		for i, c := range mc.chunks {
			fmt.Fprintf(os.Stderr, "%2d %.60q\n", i, c)
		}
		die("the main template has %d text chunks outside the content region, Model/HtmlPage.v expects %d: the template structure changed, update the model", len(mc.chunks), len(mainNames))
	}
	var jc collector
	jc.list(trees["Join"].Root, false)
	if len(jc.chunks) != 1 {
		die("template Join has %d text chunks, expected 1", len(jc.chunks))
	}
	chunks := map[string]string{}
	for i, n := range mainNames {
		chunks[n] = mc.chunks[i]
	}
	// the two chunks around the content region carry <div id="content"> and </div>, which belong to Model/HtmlDoc.v
	if !strings.HasSuffix(chunks["tpl_style_b"], divOpen) {
		die("the text before the content region does not end with %s", divOpen)
	}
	chunks["tpl_style_b"] = strings.TrimSuffix(chunks["tpl_style_b"], divOpen)
	if !strings.HasPrefix(chunks["tpl_meta_open"], divClose) {
		die("the text after the content region does not start with %s", divClose)
	}
	chunks["tpl_meta_open"] = strings.TrimPrefix(chunks["tpl_meta_open"], divClose)
	// landmarks
	marks := map[string]string{
		"tpl_doctype": "<!DOCTYPE html>", "tpl_head_a": "base64,", "tpl_head_b": "<style>", "tpl_style_a": ".bottom-padding", "tpl_style_b": "</style>", "tpl_meta_open": "Created on ", "tpl_goroot_remote": "GOROOT (remote)",
		"tpl_goroot_local": "GOROOT (local)", "tpl_goroot": "GOROOT: ", "tpl_gopath": "GOPATH: ", "tpl_gomods_open": "go modules (local)",
		"tpl_gomod_sep": ": ", "tpl_maxprocs": "GOMAXPROCS: ", "tpl_legend": "<h2>Legend</h2>", "tpl_tail": "bottom-padding",
	}
	for n, m := range marks {
		if !strings.Contains(chunks[n], m) {
			die("chunk %s = %q does not contain %q: the template structure changed, update the model", n, chunks[n], m)
		}
	}

	var b strings.Builder
	b.WriteString("(* Model/HtmlTpl.v — GENERATED by notes/htmldoc-validation/tplgen (scripts/gen_html_tpl.sh) from\n")
	b.WriteString("   stack/goroutines.tpl — DO NOT EDIT.  Regenerate:  sh scripts/gen_html_tpl.sh ;  check:  sh scripts/gen_html_tpl.sh -check\n\n")
	b.WriteString("   The literal text of the HTML report template outside the content region, after the\n")
	b.WriteString("   transformation of stack/regen.go (indentation stripped) and the {{- / -}} trimming of\n")
	b.WriteString("   text/template/parse; tpl_index_html is the whole template text as embedded in stack/data.go\n")
	b.WriteString("   (checked equal to the processed goroutines.tpl), tpl_favicon the constant favicon of data.go\n")
	b.WriteString("   (checked equal to the base64 encoding of stack/emoji_u1f4a3_64.gif).\n\n")
	b.WriteString("   Actions of the main template, in order:\n")
	for _, h := range mc.holes {
		b.WriteString("     " + strings.ReplaceAll(h, "*)", "* )") + "\n")
	}
	b.WriteString("*)\n")
	b.WriteString("From PP Require Import Base.Bytes.\n\n")
	b.WriteString("Definition nl : bytes := [10]%N.\n\n")
	for _, n := range mainNames {
		fmt.Fprintf(&b, "Definition %s : bytes :=\n  %s.\n\n", n, coqBytes(chunks[n]))
	}
	fmt.Fprintf(&b, "(* the separator of the sub-template \"Join\" *)\nDefinition tpl_join_sep : bytes :=\n  %s.\n\n", coqBytes(jc.chunks[0]))
	fmt.Fprintf(&b, "(* stack/data.go: favicon *)\nDefinition tpl_favicon : bytes :=\n  %s.\n\n", coqBytes(favicon))
	fmt.Fprintf(&b, "(* stack/data.go: indexHTML *)\nDefinition tpl_index_html : bytes :=\n  %s.\n", coqBytes(tpl))
	res := b.String()

	switch {
	case *check != "":
		old, err := os.ReadFile(*check)
		if err != nil {
			die("%v", err)
		}
		if string(old) != res {
			die("%s is OUT OF DATE with respect to %s/stack/goroutines.tpl: run scripts/gen_html_tpl.sh and re-validate the model", *check, *repo)
		}
		fmt.Println("HtmlTpl.v is up to date")
	case *out != "":
		if err := os.WriteFile(*out, []byte(res), 0o644); err != nil {
			die("%v", err)
		}
		fmt.Printf("wrote %s: %d chunks, template %d bytes, favicon %d bytes\n", *out, len(mainNames)+1, len(tpl), len(favicon))
	default:
		fmt.Print(res)
	}
}
