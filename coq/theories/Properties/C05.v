(* Properties/C05.v — Buckets are exactly the similarity classes of the chosen level.  Statements only. *)
From PP Require Import Base.Bytes Base.GoResult Model.Types Model.Stack Model.Bucket Spec.BucketSpec Spec.Wf.
From PP Require Import Proofs.Aggregate.
From Coq Require Import Permutation.

(* similar is equality of the level's canonical key, for ALL signatures: hence
   an equivalence relation. *)
Theorem C05_similar_iff_canon : forall lvl a b, sig_similar lvl a b = canon_sig_eqb lvl a b.
Proof. exact Aggregate.similar_iff_canon. Qed.
Print Assumptions C05_similar_iff_canon.

Theorem C05_canon_equivalence : forall lvl,
  (forall a, canon_sig_eqb lvl a a = true) /\
  (forall a b, canon_sig_eqb lvl a b = canon_sig_eqb lvl b a) /\
  (forall a b c, canon_sig_eqb lvl a b = true -> canon_sig_eqb lvl b c = true -> canon_sig_eqb lvl a c = true).
Proof. exact Aggregate.canon_equivalence. Qed.
Print Assumptions C05_canon_equivalence.

(* every level's key refines the next coarser level's *)
Theorem C05_refines : forall a b,
  (canon_sig_eqb ExactFlags a b = true -> canon_sig_eqb ExactLines a b = true) /\
  (canon_sig_eqb ExactLines a b = true -> canon_sig_eqb AnyPointer a b = true) /\
  (canon_sig_eqb AnyPointer a b = true -> canon_sig_eqb AnyValue a b = true).
Proof. exact Aggregate.canon_refines. Qed.
Print Assumptions C05_refines.

(* a merged key stays in the class of its members (needs wf: C05_unnamed_refuted) *)
Theorem C05_key_class : forall lvl k m, wf_sig k = true -> wf_sig m = true ->
  sig_similar lvl k m = true ->
  canon_sig_eqb lvl (sig_merge k m) k = true /\ (lvl <> AnyValue -> wf_sig (sig_merge k m) = true).
Proof. exact Aggregate.key_class. Qed.
Print Assumptions C05_key_class.

(* the buckets are the classes: for every oracle that is a permutation *)
Theorem C05_buckets_are_classes :
  forall shuffle lvl gs bs,
  (forall k l, Permutation (shuffle k l) l) ->
  wf_goroutines gs = true ->
  aggregate shuffle lvl gs = Ok bs -> c05_ok lvl gs bs = true.
Proof. exact Aggregate.buckets_are_classes. Qed.
Print Assumptions C05_buckets_are_classes.

(* the partition does not depend on the order in which goroutines were printed *)
Theorem C05_order_independent :
  forall sh1 sh2 lvl gs gs' bs bs',
  (forall k l, Permutation (sh1 k l) l) -> (forall k l, Permutation (sh2 k l) l) ->
  wf_goroutines gs = true -> NoDup (map ID gs) -> Permutation gs gs' ->
  aggregate sh1 lvl gs = Ok bs -> aggregate sh2 lvl gs' = Ok bs' ->
  forall g1 g2, In g1 gs -> In g2 gs ->
    opt_nat_eqb (bucket_index bs (ID g1)) (bucket_index bs (ID g2)) =
    opt_nat_eqb (bucket_index bs' (ID g1)) (bucket_index bs' (ID g2)).
Proof. exact Aggregate.order_independent. Qed.
Print Assumptions C05_order_independent.

(* sleep never separates goroutines *)
Theorem C05_sleep_irrelevant : forall lvl a mn mx,
  canon_sig_eqb lvl a (mkSig (State a) (CreatedBy a) mn mx (SStack a) (Locked a)) = true.
Proof. exact Aggregate.sleep_irrelevant. Qed.
Print Assumptions C05_sleep_irrelevant.

(* why wf is needed: hand-set names on too-large arguments *)
Theorem C05_unnamed_refuted : exists gs bs,
  wf_goroutines gs = false /\ aggregate id_shuffle AnyPointer gs = Ok bs /\ c05_ok AnyPointer gs bs = false.
Proof. exact Aggregate.unnamed_refuted. Qed.

Example C05_example : exists gs bs, wf_goroutines gs = true /\ List.length gs = 3 /\
  aggregate id_shuffle AnyPointer gs = Ok bs /\ List.length bs = 2 /\ c05_ok AnyPointer gs bs = true.
Proof. exact Aggregate.example_classes. Qed.
