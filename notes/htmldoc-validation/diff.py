# prints, for every differing sample, the first differing offset and 40 bytes of context
import re, os
here = os.path.dirname(os.path.abspath(__file__))
t = open(os.path.join(here, 'coq_out.txt')).read()
for blk in t.split('     = (')[1:]:
    if 'Some' not in blk:
        continue
    m = re.match(r'"(\w+)"%string,\s*"(\w+)"', blk)
    kind, name = m.group(1), m.group(2)
    off = re.search(r'Some\s*\((\d+),', blk).group(1)
    parts = re.findall(r'\[([^\]]*)\]', blk)
    ctx = [bytes(int(x) for x in re.findall(r'(\d+)%N', p)) for p in parts]
    print(kind, name, 'first difference at offset', off)
    print('  coq:', ctx[0] if ctx else b'')
    print('  go :', ctx[1] if len(ctx) > 1 else b'')
