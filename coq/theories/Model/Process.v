(* Model/Process.v — the loop of internal/main.go:149-182 (process) with
   -rebase=false (no path guessing, no source analysis; NameArguments stays on
   as in DefaultOpts) and console output.  Input is delivered one-shot (C09
   makes the schedule irrelevant); stdin ends with EOF. *)
From PP Require Import Base.Bytes Base.GoResult Model.Types Model.Reader Model.Scan Model.ScanSnapshot Model.Bucket Model.UI.
From Coq Require Import String.

Record pp_opts := mkPP {
  o_level : Similarity;          (* AnyPointer, or AnyValue with -aggressive *)
  o_pf : path_format;
  o_pal : palette;               (* empty with -no-color *)
  o_filter : option (bytes -> bool);
  o_match : option (bytes -> bool);
  o_banner : bool }.             (* GOTRACEBACK unset or "single" *)

Definition is_race (gs : list Goroutine) : bool :=
  match gs with g :: _ => negb (N.eqb (RaceAddr g) 0) | [] => false end.

(* processInner, console only *)
Definition render_snapshot (o : pp_opts) (gs : list Goroutine) : GoResult bytes :=
  let needs_env := Nat.eqb (List.length gs) 1 && o_banner o in
  if is_race gs then
    Ok (flatten (o_pal o) (write_goroutines (o_pal o) (o_filter o) (o_match o) (o_pf o) needs_env gs))
  else
    bs <- aggregate id_shuffle (o_level o) gs ;;
    Ok (flatten (o_pal o) (write_buckets (o_pal o) (o_filter o) (o_match o) (o_pf o) needs_env bs)).

(* returns (stdout, exit-ok) *)
Fixpoint process (fuel : nat) (o : pp_opts) (content out : bytes) : GoResult (bytes * bool) :=
  match fuel with
  | O => Panic "model: process out of fuel"
  | S f =>
      res <- scan_snapshot true (mkSource content [] EOF) ;;
      out1 <- (match snap res with
               | Some gs => r <- render_snapshot o gs ;; Ok (out ++ fwd res ++ r)
               | None => Ok (out ++ fwd res)
               end) ;;
      match rerr_out res with
      | ENil => process f o (suffix res ++ rest (unread res)) out1
      | EIo EOF => Ok (out1 ++ suffix res, true)
      | _ => Ok (out1 ++ suffix res, false)
      end
  end.

Definition pp_run (o : pp_opts) (content : bytes) : GoResult (bytes * bool) :=
  process (S (S (List.length content))) o content [].
