#!/usr/bin/env python3
"""seeded.py verify <dir>   : confirm a seeded change in a scratch worktree (demo passes clean, fails patched, suite at baseline patched)
   seeded.py import <srcdir> <name> : verify and copy into /verif/seeded/<name>/
   seeded.py run [name...] [--tier quick] : apply each kept change to /repo, run the checks of its property, undo; print a table"""
import sys, os, json, subprocess, shutil, re, time

VERIF = os.path.dirname(os.path.dirname(os.path.abspath(__file__)))
ENV = dict(os.environ, GOFLAGS='-mod=mod', GOPROXY='off', GOSUMDB='off', GOTOOLCHAIN='local')
BASELINE_FAIL = {'TestAugmentErr', 'TestAugmentErr/9-no_I/O_access'}


def sh(cmd, cwd=None, timeout=1800):
    p = subprocess.run(cmd, cwd=cwd, env=ENV, shell=isinstance(cmd, str), stdout=subprocess.PIPE, stderr=subprocess.STDOUT, text=True, timeout=timeout)
    return p.returncode, p.stdout


def pkg_dir(demo):
    src = open(demo).read()
    m = re.search(r'^package\s+(\w+)', src, re.M)
    pkg = m.group(1) if m else 'stack'
    return {'stack': 'stack', 'stack_test': 'stack', 'internal': 'internal', 'webstack': 'stack/webstack', 'webstack_test': 'stack/webstack', 'main': None}.get(pkg, 'stack')


def verify(d):
    patch = os.path.join(d, 'patch.diff')
    demos = [f for f in os.listdir(d) if f.endswith('_test.go')]
    if not os.path.exists(patch) or not demos:
        return False, 'missing patch.diff or demo test'
    wt = '/tmp/verify-wt-%d' % os.getpid()
    sh(['git', '-C', '/repo', 'worktree', 'add', '--detach', wt, 'HEAD'])
    try:
        demo = os.path.join(d, demos[0])
        pd = pkg_dir(demo)
        dst = os.path.join(wt, pd, 'zz_seeded_demo_test.go')
        tests = re.findall(r'^func (Test\w+)', open(demo).read(), re.M)
        run = '^(' + '|'.join(tests) + ')$'
        # a demonstration that needs the race detector says so in its meta.json ("go test -race ...")
        race = []
        try:
            if '-race' in json.load(open(os.path.join(d, 'meta.json'))).get('demo', ''):
                race = ['-race']
                ENV['CGO_ENABLED'] = '1'
        except Exception:
            pass
        # clean tree: demo passes
        shutil.copy(demo, dst)
        rc, out = sh(['go', 'test', *race, '-vet=off', '-count=1', '-run', run, './' + pd], cwd=wt)
        if rc != 0:
            return False, 'demo fails on the clean tree: ' + out[-300:]
        os.unlink(dst)
        rc, out = sh(['git', 'apply', patch], cwd=wt)
        if rc != 0:
            return False, 'patch does not apply: ' + out[-300:]
        rc, out = sh(['go', 'build', './...'], cwd=wt)
        if rc != 0:
            return False, 'patched tree does not build: ' + out[-300:]
        # patched: suite at baseline
        rc, out = sh('go test -vet=off -count=1 -json ./... 2>&1', cwd=wt)
        failed = set()
        for line in out.split('\n'):
            try:
                e = json.loads(line)
            except Exception:
                continue
            if e.get('Action') == 'fail' and e.get('Test'):
                failed.add(e['Test'])
        extra = failed - BASELINE_FAIL
        if extra:
            return False, 'existing tests fail with the patch: ' + ', '.join(sorted(extra))
        # patched: demo fails
        shutil.copy(demo, dst)
        rc, out = sh(['go', 'test', *race, '-vet=off', '-count=1', '-run', run, './' + pd], cwd=wt, timeout=300)
        if rc == 0:
            return False, 'demo passes with the patch'
        return True, 'demo passes clean, fails patched%s; suite at baseline patched (%s)' % (' (go test -race)' if race else '', pd)
    except subprocess.TimeoutExpired:
        return True, 'demo times out with the patch (hang); suite at baseline patched'
    finally:
        sh(['git', '-C', '/repo', 'worktree', 'remove', '--force', wt])


def imp(src, name):
    ok, msg = verify(src)
    print(name, 'OK' if ok else 'REJECTED', msg)
    if not ok:
        return False
    dst = os.path.join(VERIF, 'seeded', name)
    os.makedirs(dst, exist_ok=True)
    for f in os.listdir(src):
        if f == 'patch.diff' or f.endswith('_test.go') or f.endswith('.go'):
            shutil.copy(os.path.join(src, f), os.path.join(dst, f if not f.endswith('_test.go') else 'demo_test.go.txt'))
    meta = {}
    try:
        meta = json.load(open(os.path.join(src, 'meta.json')))
    except Exception:
        pass
    meta['confirmed'] = msg
    meta['confirmed_by'] = 'scripts/seeded.py verify in a scratch worktree of /repo@HEAD'
    json.dump(meta, open(os.path.join(dst, 'meta.json'), 'w'), indent=1)
    return True


def run(names, tier='quick', props=None):
    sd = os.path.join(VERIF, 'seeded')
    rows = []
    for name in sorted(os.listdir(sd)):
        d = os.path.join(sd, name)
        if names and name not in names:
            continue
        if not os.path.exists(os.path.join(d, 'patch.diff')):
            continue
        meta = json.load(open(os.path.join(d, 'meta.json')))
        prop = meta.get('property', name.split('-')[0])
        plist = props or [prop] + meta.get('also_check', [])
        rc, out = sh(['git', '-C', '/repo', 'apply', os.path.join(d, 'patch.diff')])
        if rc != 0:
            rows.append((name, prop, 'patch does not apply'))
            continue
        try:
            for p in plist:
                t0 = time.time()
                rc, out = sh(['python3', os.path.join(VERIF, 'scripts', 'check.py'), p, tier], cwd=VERIF, timeout=3600)
                v = [l for l in out.split('\n') if l.startswith('VIOLATION')]
                rows.append((name, p, 'CAUGHT' if rc == 1 and v else ('exit %d' % rc), (v[0] if v else '')[:150], '%.0fs' % (time.time() - t0)))
        finally:
            sh(['git', '-C', '/repo', 'checkout', '--', '.'])
            sh(['git', '-C', '/repo', 'clean', '-fdq'])
        if not names:
            write_results(sd, rows, tier, names, partial='%d changes evaluated so far' % len(rows))
    for r in rows:
        print('\t'.join(r))
    write_results(sd, rows, tier, names)
    return rows


def write_results(sd, rows, tier, names, partial=None):
    if not names:
        # a full run: record which checks catch which changes
        with open(os.path.join(sd, 'RESULTS.md'), 'w') as f:
            f.write('# Seeded changes vs. checks (%s tier)\n\nWritten by `python3 scripts/seeded.py run`: each change is applied to /repo, the check of its property runs, the change is undone.\n\n' % tier)
            f.write('| change | property | result | what the change does | needs |\n|---|---|---|---|---|\n')
            for r in rows:
                meta = {}
                try:
                    meta = json.load(open(os.path.join(sd, r[0], 'meta.json')))
                except Exception:
                    pass
                res = r[2] + (' (correspondence / proof tie only: no-failing-input-found)' if len(r) > 3 and 'no-failing-input-found' in r[3] else '')
                f.write('| %s | %s | %s | %s | %s |\n' % (r[0], r[1], res, str(meta.get('summary', '')).replace('|', '/').replace('\n', ' '),
                                                     str(meta.get('needs', '')).replace('|', '/').replace('\n', ' ')))
            if partial:
                f.write('\n(run in progress: %s)\n' % partial)


if __name__ == '__main__':
    if sys.argv[1] == 'verify':
        print(verify(sys.argv[2]))
    elif sys.argv[1] == 'import':
        sys.exit(0 if imp(sys.argv[2], sys.argv[3]) else 1)
    elif sys.argv[1] == 'run':
        args = [a for a in sys.argv[2:] if not a.startswith('--')]
        tier = 'thorough' if '--thorough' in sys.argv else 'quick'
        rows = run(args, tier)
        if '--update' in sys.argv and args:
            # re-evaluate the named changes and replace their rows in seeded/RESULTS.md (the other rows stay as the
            # last full run wrote them); a note at the end says which rows were refreshed
            sd = os.path.join(VERIF, 'seeded')
            path = os.path.join(sd, 'RESULTS.md')
            lines = open(path).read().split('\n')
            new = {}
            for r in rows:
                meta = {}
                try:
                    meta = json.load(open(os.path.join(sd, r[0], 'meta.json')))
                except Exception:
                    pass
                res = r[2] + (' (correspondence / proof tie only: no-failing-input-found)' if len(r) > 3 and 'no-failing-input-found' in r[3] else '')
                new[r[0]] = '| %s | %s | %s | %s | %s |' % (r[0], r[1], res, str(meta.get('summary', '')).replace('|', '/').replace('\n', ' '),
                                                       str(meta.get('needs', '')).replace('|', '/').replace('\n', ' '))
            out = []
            for l in lines:
                m = re.match(r'\| (C\d\d-m\d+) \|', l)
                out.append(new.pop(m.group(1)) if m and m.group(1) in new else l)
            out = [l for l in out if not l.startswith('(rows refreshed')]
            # rows of changes imported after the last full run are inserted after the last row of the table
            if new:
                last = max(i for i, l in enumerate(out) if l.startswith('| C'))
                out[last + 1:last + 1] = [new[k] for k in sorted(new)]
            while out and out[-1] == '':
                out.pop()
            out.append('')
            out.append('(rows refreshed by `seeded.py run --update` after later generator changes: %s)' % ', '.join(sorted(r[0] for r in rows)))
            open(path, 'w').write('\n'.join(out) + '\n')
