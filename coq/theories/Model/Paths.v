(* Model/Paths.v — path guessing: findRoots (stack/context.go:1040) with its
   helpers splitPath, isRootedIn, isGoModule (+ reModule), getFiles,
   hasPrefix, hasSrcPrefix, and Call.updateLocations (stack/stack.go:413).

   The disk is an oracle [fs : list (path * content)] of regular files
   (os.Stat(p) succeeds and is not a directory iff p is listed; os.ReadFile
   returns the content).  Paths are compared as byte strings; no "..", no
   symlinks, "/" separator only (linux).
   Go maps (RemoteGOPATHs, LocalGomods) are association lists with unique
   keys; the code iterates them through sortedRoots (longest key first, then
   alphabetical) or existentially (hasPrefix / hasSrcPrefix), so no order
   oracle is needed after fix 73b31a4. *)
From PP Require Import Base.Bytes Base.BytesX Base.GoResult Model.Types Model.Bucket.
From Coq Require Import String.

Definition fsys := list (bytes * bytes).

Fixpoint fs_lookup (fs : fsys) (p : bytes) : option bytes :=
  match fs with
  | [] => None
  | (q, c) :: fs' => if beq p q then Some c else fs_lookup fs' p
  end.
Definition is_file (fs : fsys) (p : bytes) : bool := match fs_lookup fs p with Some _ => true | None => false end.

Definition path_join (l : list bytes) : bytes := join l [b_slash].

(* ---- splitPath: the first item keeps its leading separators ----
   The Go code ranges over RUNES; '/' is ASCII and every other rune is
   appended unchanged (an invalid byte would be re-encoded as U+FFFD: paths
   are assumed valid UTF-8, which the correspondence generator respects). *)
Fixpoint split_path_go (p : bytes) (out : list bytes) (s : bytes) : list bytes :=
  match p with
  | [] => match s with [] => out | _ => out ++ [s] end
  | c :: p' =>
      if negb (N.eqb c b_slash) || (match out with [] => forallb (N.eqb b_slash) s | _ => false end)
      then split_path_go p' out (s ++ [c])
      else match s with
           | [] => split_path_go p' out s
           | _ => split_path_go p' (out ++ [s]) []
           end
  end.
Definition split_path (p : bytes) : list bytes := split_path_go p [] [].

(* isRootedIn(root, parts): for i = 1 .. len-1: root/parts[i:] is a file -> join parts[:i] *)
Fixpoint is_rooted_in_go (fs : fsys) (root : bytes) (pre post : list bytes) : bytes :=
  match post with
  | [] => []
  | x :: post' =>
      (* here pre = parts[:i], post = parts[i:], i >= 1 *)
      if is_file fs (path_join [root; path_join post]) then path_join pre
      else is_rooted_in_go fs root (pre ++ [x]) post'
  end.
Definition is_rooted_in (fs : fsys) (root : bytes) (parts : list bytes) : bytes :=
  match parts with
  | [] => []
  | x :: rest => is_rooted_in_go fs root [x] rest
  end.

(* ---- reModule (?m)^module\s+([^\n\r]+)\r?$ ----
   tried at the start of the text and after every LF; \s = \t \n \f \r space;
   \s+ is greedy but must leave at least one [^\n\r] byte: the capture starts
   at the first byte after the maximal whitespace run... unless that run is
   followed by LF/CR only, in which case backtracking gives back whitespace:
   the capture may then start with a space or tab (not \n \r \f? \f is not
   excluded by [^\n\r]).  The capture is the maximal run of non-LF non-CR
   bytes; it must be followed by optional CR and end of line (LF or end). *)
Definition is_re_space (c : N) : bool := N.eqb c 9 || N.eqb c 10 || N.eqb c 12 || N.eqb c 13 || N.eqb c 32.
Definition not_eol (c : N) : bool := negb (N.eqb c 10 || N.eqb c 13).

(* after "module": s starts with >= 1 whitespace; returns the capture *)
Definition module_capture (s : bytes) : option bytes :=
  let '(ws, r) := span is_re_space s in
  match ws with
  | [] => None
  | _ =>
      (* greedy \s+ first: capture = maximal non-EOL run of r *)
      let try (body : bytes) : option bytes :=
        let '(cap, r2) := span not_eol body in
        match cap with
        | [] => None
        | _ =>
            (* \r?$ : at end of text or before LF, with an optional CR first *)
            match r2 with
            | [] => Some cap
            | 10%N :: _ => Some cap
            | 13%N :: [] => Some cap
            | 13%N :: 10%N :: _ => Some cap
            | _ => None
            end
        end in
      match try r with
      | Some c => Some c
      | None =>
          (* \s+ gives back whitespace, one byte at a time (at least one byte stays): the
             capture then starts inside the whitespace run, at a space, tab or form feed,
             possibly on a later line than the directive ("module \n \n" captures " ") *)
          (fix giveback (a : bytes) : option bytes :=
             match a with
             | [] => None
             | _ :: a' => match giveback a' with Some c => Some c | None => try (a ++ r) end
             end) (tl ws)
      end
  end.

Fixpoint find_module_go (fuel : nat) (at_bol : bool) (s : bytes) : option bytes :=
  match fuel with
  | O => None
  | S f =>
      let here :=
        if at_bol then
          match strip_prefix (s2b "module") s with
          | Some r => module_capture r
          | None => None
          end
        else None in
      match here with
      | Some c => Some c
      | None => match s with
                | [] => None
                | c :: s' => find_module_go f (N.eqb c 10) s'
                end
      end
  end.
Definition find_module (content : bytes) : option bytes := find_module_go (S (List.length content)) true content.

(* ---- isGoModule with its cache: walks parts[:i] for i = len .. 1 ---- *)
Fixpoint prefixes_desc {A} (l : list A) : list (list A) :=
  (* [l; removelast l; ...; [first]] *)
  match l with
  | [] => []
  | _ => l :: (fix go (n : nat) (l : list A) : list (list A) :=
                 match n with
                 | O => []
                 | S n' => match removelast l with [] => [] | l' => l' :: go n' l' end
                 end) (List.length l) l
  end.

Fixpoint is_go_module_go (fs : fsys) (cache : list bytes) (cands : list (list bytes))
  : list bytes * option (bytes * bytes) :=
  match cands with
  | [] => (cache, None)
  | parts :: rest =>
      let prefix := path_join parts in
      if existsb (beq prefix) cache then (cache, None)
      else
        let cache' := prefix :: cache in
        match fs_lookup fs (path_join [prefix; s2b "go.mod"]) with
        | None => is_go_module_go fs cache' rest
        | Some content =>
            match find_module content with
            | Some m => (cache', Some (prefix, m))
            | None => is_go_module_go fs cache' rest
            end
        end
  end.

(* ---- getFiles: deduped and sorted (sort.Strings = byte order) ---- *)
Fixpoint insert_sorted_uniq (x : bytes) (l : list bytes) : list bytes :=
  match l with
  | [] => [x]
  | y :: l' => match bcmp x y with
               | Lt => x :: l
               | Eq => l
               | Gt => y :: insert_sorted_uniq x l'
               end
  end.
Definition get_files (gs : list Goroutine) : list bytes :=
  fold_left (fun acc c => insert_sorted_uniq (RemoteSrcPath c) acc)
            (flat_map (fun g => Calls (SStack (GSig g))) gs) [].

(* ---- hasPrefix / hasSrcPrefix over the keys of a map ---- *)
Definition has_prefix_in (p : bytes) (keys : list bytes) : bool :=
  existsb (fun k => Nat.ltb (List.length k + 1) (List.length p) && has_prefix p (k ++ [b_slash])) keys.
Definition has_src_prefix_in (p : bytes) (keys : list bytes) : bool :=
  existsb (fun k =>
    (Nat.ltb (List.length k + 5) (List.length p) && has_prefix p (k ++ s2b "/src/")) ||
    (Nat.ltb (List.length k + 9) (List.length p) && has_prefix p (k ++ s2b "/pkg/mod/"))) keys.

(* map assignment m[k] = v *)
Fixpoint map_set (m : list (bytes * bytes)) (k v : bytes) : list (bytes * bytes) :=
  match m with
  | [] => [(k, v)]
  | (k', v') :: m' => if beq k k' then (k, v) :: m' else (k', v') :: map_set m' k v
  end.

Record roots := mkRoots {
  remote_goroot : bytes;
  remote_gopaths : list (bytes * bytes);
  local_gomods : list (bytes * bytes);
  gm_cache : list bytes;
  missing : nat }.

(* path.Dir for a cleaned absolute path: everything before the last '/', "/" for a file in the root, "." without slash *)
Definition path_dir (f : bytes) : bytes :=
  match last_index_byte f b_slash with
  | None => s2b "."
  | Some 0 => s2b "/"
  | Some i => firstn i f
  end.

Definition strip_suffix_root (r suffix : bytes) : option bytes :=
  if has_suffix r suffix then Some (firstn (List.length r - List.length suffix) r) else None.

Section FindRoots.
  Variable fs : fsys.
  Variable local_goroot : bytes.
  Variable local_gopaths : list bytes.

  Fixpoint try_gopaths (parts : list bytes) (ls : list bytes) : option (bytes * bytes) :=
    match ls with
    | [] => None
    | l :: ls' =>
        match strip_suffix_root (is_rooted_in fs (l ++ s2b "/src") parts) (s2b "/src") with
        | Some r => Some (r, l)
        | None =>
            match strip_suffix_root (is_rooted_in fs (l ++ s2b "/pkg/mod") parts) (s2b "/pkg/mod") with
            | Some r => Some (r, l)
            | None => try_gopaths parts ls'
            end
        end
    end.

  Definition find_roots_step (st : roots) (f : bytes) : roots :=
    if (match remote_goroot st with [] => false | _ => has_prefix f (remote_goroot st ++ s2b "/src/") end) then st else
    if has_src_prefix_in f (map fst (remote_gopaths st)) then st else
    (* under a known module AND its directory already examined (gmc.seen): nothing left to discover *)
    if has_prefix_in f (map fst (local_gomods st)) && existsb (beq (path_dir f)) (gm_cache st) then st else
    let parts := split_path f in
    let goroot_hit :=
      match remote_goroot st with
      | [] => strip_suffix_root (is_rooted_in fs (local_goroot ++ s2b "/src") parts) (s2b "/src")
      | _ => None
      end in
    match goroot_hit with
    | Some r => mkRoots r (remote_gopaths st) (local_gomods st) (gm_cache st) (missing st)
    | None =>
        match try_gopaths parts local_gopaths with
        | Some (r, l) => mkRoots (remote_goroot st) (map_set (remote_gopaths st) r l) (local_gomods st) (gm_cache st) (missing st)
        | None =>
            let '(cache', gm) :=
              if Nat.ltb 1 (List.length parts)
              then is_go_module_go fs (gm_cache st) (prefixes_desc (removelast parts))
              else (gm_cache st, None) in
            match gm with
            | Some (root, path) => mkRoots (remote_goroot st) (remote_gopaths st) (map_set (local_gomods st) root path) cache' (missing st)
            | None =>
                (* no go.mod below the module root already found *)
                if has_prefix_in f (map fst (local_gomods st))
                then mkRoots (remote_goroot st) (remote_gopaths st) (local_gomods st) cache' (missing st) else
                if is_file fs f
                then mkRoots (remote_goroot st) (remote_gopaths st) (map_set (local_gomods st) (path_dir f) (s2b "main")) cache' (missing st)
                else mkRoots (remote_goroot st) (remote_gopaths st) (local_gomods st) cache' (S (missing st))
            end
        end
    end.

  Definition find_roots (gs : list Goroutine) : roots :=
    fold_left find_roots_step (get_files gs) (mkRoots [] [] [] [] 0).
End FindRoots.

(* sortedRoots (fix 73b31a4): longest key first, then alphabetical *)
Definition root_before (a b : bytes * bytes) : bool :=
  let la := List.length (fst a) in let lb := List.length (fst b) in
  if Nat.eqb la lb then bltb (fst a) (fst b) else Nat.ltb lb la.
Definition sorted_roots (m : list (bytes * bytes)) : list (bytes * bytes) := sort_stable root_before m.

Definition import_of_rel (rel : bytes) : option bytes :=
  match last_index_byte rel b_slash with Some i => Some (firstn i rel) | None => None end.

Definition set_loc (c : Call) (local rel imp : bytes) (loc : Location) : Call :=
  mkCall (CFunc c) (CArgs c) (RemoteSrcPath c) (Line c) (SrcName c) (DirSrc c) local rel imp
         (match CLocation c with LocationUnknown => loc | l => l end).

(* Call.updateLocations *)
Definition update_call (goroot localgoroot : bytes) (gopaths gomods : list (bytes * bytes)) (c : Call) : Call :=
  match RemoteSrcPath c with
  | [] => c
  | rsp =>
      let keep_imp (rel : bytes) := match import_of_rel rel with Some i => i | None => CImportPath c end in
      let goroot_hit :=
        match goroot with
        | [] => None
        | _ => strip_prefix (goroot ++ s2b "/src/") rsp
        end in
      match goroot_hit with
      | Some rel => set_loc c (path_join [localgoroot; s2b "src"; rel]) rel (keep_imp rel) Stdlib
      | None =>
          let fix gp (l : list (bytes * bytes)) : option Call :=
            match l with
            | [] => None
            | (prefix, dest) :: l' =>
                match strip_prefix (prefix ++ s2b "/src/") rsp with
                | Some rel => Some (set_loc c (path_join [dest; s2b "src"; rel]) rel (keep_imp rel) GOPATH)
                | None =>
                    match strip_prefix (prefix ++ s2b "/pkg/mod/") rsp with
                    | Some rel => Some (set_loc c (path_join [dest; s2b "pkg/mod"; rel]) rel (keep_imp rel) GoPkg)
                    | None => gp l'
                    end
                end
            end in
          match gp (sorted_roots gopaths) with
          | Some c' => c'
          | None =>
              let fix gm (l : list (bytes * bytes)) : option Call :=
                match l with
                | [] => None
                | (prefix, pkg) :: l' =>
                    match strip_prefix (prefix ++ [b_slash]) rsp with
                    | Some rel =>
                        let imp := match import_of_rel rel with Some i => pkg ++ [b_slash] ++ i | None => pkg end in
                        Some (set_loc c rsp rel imp GoMod)
                    | None => gm l'
                    end
                end in
              match gm (sorted_roots gomods) with
              | Some c' => c'
              | None => c
              end
          end
      end
  end.

Definition update_goroutine (goroot localgoroot : bytes) (gopaths gomods : list (bytes * bytes)) (g : Goroutine) : Goroutine :=
  let upd (s : Stack) := mkStack (map (update_call goroot localgoroot gopaths gomods) (Calls s)) (SElided s) in
  set_created (set_stack g (upd (SStack (GSig g)))) (upd (CreatedBy (GSig g))).

(* Snapshot.guessPaths *)
Definition guess_paths (fs : fsys) (local_goroot : bytes) (local_gopaths : list bytes) (gs : list Goroutine)
  : roots * list Goroutine :=
  let r := find_roots fs local_goroot local_gopaths gs in
  (r, map (update_goroutine (remote_goroot r) local_goroot (remote_gopaths r) (local_gomods r)) gs).
