(* Properties/C10.v — Truncation / read-failure tolerance.  Statements only.

   B' = firstn k B is the stream cut after k bytes, delivered with a terminal
   error f' (io.EOF, or a failure Fail e); B is the whole stream.  Scanning B'
   never panics; it sees the complete lines of B up to the cut plus at most
   one partial line; up to the cut the scanner goes through exactly the same
   states as on B, so the goroutines found in B' are those found in B after
   the same lines, except that the partial line may make one more step
   (touching only the last goroutine, or adding one, outside the race-report
   goroutine states); the error obeys "a reader failure is never replaced by
   a scan error"; the forwarded bytes are a prefix of those of B except for
   the partial last line (finding K2).

   Vocabulary: Spec/SeqSpec.v, see the header of Properties/C07.v
   (run_lines, lerr, combine_err, rejects, ...), and
     all_lf P           every line of P ends with LF
     scan_lines s ls    fold of scan over ls (Proofs/ScanInv)
     frame gs gs'       gs' = gs, or gs ++ [g], or gs with its last element
                        replaced
     race_goroutine_state x
                        x is one of betweenRaceOperations, betweenRaceGoroutines,
                        gotRaceGoroutineHeader/Func/File: the states of the
                        "Goroutine N (running) created at:" part of a race
                        report, where scan updates goroutine number gindex
     nonrace_path s ls  scanning ls from s, no line is handled in such a state
   Every statement holds for all stall-free delivery schedules of both
   streams. *)
From PP Require Import Base.Bytes Base.BytesX Base.GoResult Model.Types Model.Lines Model.Reader Model.FuncInit Model.Scan Model.Names Model.ScanSnapshot Model.ScanSeq.
From PP Require Import Proofs.ScanInv Proofs.LoopBase Proofs.LoopProofs.
From PP Require Import Spec.ReaderSpec Spec.LoopSpec Spec.SeqSpec Proofs.PrefixBase Proofs.PrefixFrame Proofs.PrefixProofs.
From Coq Require Import String.

(* C1. No cut makes ScanSnapshot panic, whatever the schedule and the error. *)
Theorem C10_total : forall na B k sc f,
  exists res, scan_snapshot na (mkSource (firstn k B) sc f) = Ok res.
Proof. exact PrefixProofs.cut_total. Qed.
Print Assumptions C10_total.

(* C2. The lines of the cut stream: complete lines P of B, then at most one
   partial line t, a prefix of the next line t ++ u of B (a strict prefix when
   the cut is inside B). *)
Theorem C10_lines_prefix : forall B k,
  exists P T rest',
    lines (firstn k B) = P ++ T /\ lines B = P ++ rest' /\ all_lf P /\
    (T = [] \/
     exists t u rest'', T = [t] /\ t <> [] /\ has_lf t = false /\ rest' = (t ++ u) :: rest'' /\
       (k < List.length B -> u <> [])).
Proof. exact PrefixProofs.lines_firstn. Qed.
Print Assumptions C10_lines_prefix.

(* C3. One scan step outside the race-goroutine states leaves every goroutine
   but the last alone. *)
Theorem C10_scan_step_frame : forall s line s' l e,
  race_goroutine_state (st s) = false ->
  scan s line = Ok (s', l, e) -> frame (goroutines s) (goroutines s').
Proof. exact PrefixFrame.scan_step_frame. Qed.
Print Assumptions C10_scan_step_frame.

Theorem C10_frame_stable : forall gs gs', frame gs gs' ->
  List.length gs <= List.length gs' <= S (List.length gs) /\
  forall i, S i < List.length gs -> nth_error gs' i = nth_error gs i.
Proof. exact PrefixFrame.frame_stable. Qed.
Print Assumptions C10_frame_stable.

(* C3. Either both scans stop inside the complete lines before the cut, with
   the same outcome (the cut is invisible), or both reach the cut in the same
   scanner state s (= scan_lines ss0 P, the state of the scan of B after the
   same lines); the truncated scan then makes at most one more step, on the
   partial line, and its snapshot is that of the resulting state.  Outside
   the race-goroutine states that step changes at most the last goroutine or
   adds one; and every goroutine but the last one at the cut is already final
   for the scan of the whole stream. *)
Theorem C10_prefix_goroutines : forall na B k sc sc' f f' res res',
  stall_free sc -> stall_free sc' ->
  scan_snapshot na (mkSource B sc f) = Ok res ->
  scan_snapshot na (mkSource (firstn k B) sc' f') = Ok res' ->
  exists P T R,
    lines (firstn k B) = P ++ T /\ lines B = P ++ R /\ all_lf P /\
    (T = [] \/ exists t u R', T = [t] /\ has_lf t = false /\ R = (t ++ u) :: R') /\
    ((snap res' = snap res /\ fwd res' = fwd res /\ rerr_out res' = rerr_out res /\
      final_state res' = final_state res /\ lines_read res' = lines_read res /\
      exists rm, suffix res' ++ rest (unread res') = List.concat (rm ++ T) /\
                 suffix res ++ rest (unread res) = List.concat (rm ++ R)) \/
     (exists s s', scan_lines ss0 P = Ok s /\ Inv s /\
        snap res' = snap_of na (goroutines s') /\
        (s' = s \/ exists t l e, T = [t] /\ scan s t = Ok (s', l, e)) /\
        (race_goroutine_state (st s) = false -> frame (goroutines s) (goroutines s')) /\
        (nonrace_path s R ->
         exists sB, snap res = snap_of na (goroutines sB) /\
           forall i, S i < List.length (goroutines s) ->
             nth_error (goroutines sB) i = nth_error (goroutines s) i /\
             nth_error (goroutines s') i = nth_error (goroutines s) i))).
Proof. exact PrefixProofs.prefix_goroutines. Qed.
Print Assumptions C10_prefix_goroutines.

(* C4. The error of a call (any stream B, in particular a cut one, with
   terminal error f): nil, f, or a scan error; a scan error belongs to a
   rejected line that came without reader error or with io.EOF (a reader
   failure is never replaced); a reader error means that the whole stream was
   read and at most the unterminated last line is handed back; if everything
   was handled and the scanner is not done, the reader error is reported. *)
Theorem C10_error : forall na B sc f res,
  stall_free sc ->
  scan_snapshot na (mkSource B sc f) = Ok res ->
  (rerr_out res = ENil \/ rerr_out res = EIo f \/ exists x, rerr_out res = EScan x) /\
  (forall x, rerr_out res = EScan x ->
     exists hd d rm sh s', lines B = hd ++ d :: rm /\ suffix res ++ rest (unread res) = List.concat (d :: rm) /\
       rejects sh d s' (Some x) /\ (has_lf d = true \/ f = EOF)) /\
  (is_eio (rerr_out res) = true ->
     rest (unread res) = [] /\ (suffix res = [] \/ (lines B <> [] /\ last (lines B) [] = suffix res /\ has_lf (suffix res) = false))) /\
  (suffix res ++ rest (unread res) = [] -> final_state res <> done -> rerr_out res = EIo f).
Proof. exact PrefixProofs.error_rule. Qed.
Print Assumptions C10_error.

(* C5. fwd of the cut stream = Pf ++ T with Pf a prefix of fwd of the whole
   stream, and T empty or the partial last line, forwarded because after the
   complete lines the scanner is looking (or has just seen a lone
   "=================="). *)
Theorem C10_fwd_prefix : forall na B k sc sc' f f' res res',
  stall_free sc -> stall_free sc' ->
  scan_snapshot na (mkSource B sc f) = Ok res ->
  scan_snapshot na (mkSource (firstn k B) sc' f') = Ok res' ->
  exists Pf T Y,
    fwd res' = Pf ++ T /\ fwd res = Pf ++ Y /\
    (T = [] \/
     exists P s, lines (firstn k B) = P ++ [T] /\ all_lf P /\ has_lf T = false /\
       scan_lines ss0 P = Ok s /\ (st s = looking \/ st s = gotRaceHeader1)).
Proof. exact PrefixProofs.fwd_prefix. Qed.
Print Assumptions C10_fwd_prefix.

(* ------------------------------------------------------------------ *)
(* K2 (known finding) and non-vacuity.                                  *)

Definition ln (s : string) : bytes := s2b s ++ [LF].
Definition TAB : string := String (Ascii.ascii_of_nat 9) EmptyString.
Definition K2_B : bytes :=
  ln "x" ++ ln "goroutine 1 [running]:" ++ ln "main.main()" ++ ln (TAB ++ "/a/b.go:1 +0x1") ++ ln "".

(* K2: "the forwarded bytes of a cut stream are a prefix of those of the whole
   stream" is FALSE: cut inside the header line, the partial line "gorout" is
   not recognised and is forwarded; in the whole stream the header is withheld *)
Theorem C10_K2_refuted :
  match scan_snapshot true (mkSource K2_B [] EOF), scan_snapshot true (mkSource (firstn 8 K2_B) [] EOF) with
  | Ok res, Ok res' =>
      fwd res = ln "x" /\ fwd res' = ln "x" ++ s2b "gorout" /\
      ~ (exists w, fwd res' ++ w = fwd res) /\
      snap res' = None /\ rerr_out res' = EIo EOF /\ option_map (@List.length _) (snap res) = Some 1
  | _, _ => False
  end.
Proof.
  vm_compute. repeat split; try discriminate. intros (w & F). discriminate F.
Qed.
Print Assumptions C10_K2_refuted.

(* every cut of K2_B, delivered 7 bytes then a zero-length read then the rest,
   ending with the failure Fail 9: the failure is always reported; a cut
   before the end of the header line (k < 25) forwards everything, partial
   line included, and finds nothing; a later cut forwards "x" only and reports
   goroutine 1 *)
Definition cut_ok (k : nat) : bool :=
  match scan_snapshot false (mkSource (firstn k K2_B) [(7, false); (0, false)] (Fail 9)) with
  | Ok res =>
      match rerr_out res with EIo (Fail 9) => true | _ => false end &&
      match rest (unread res) with [] => true | _ => false end &&
      if Nat.ltb k 25
      then beq (fwd res) (firstn k K2_B) && match snap res with None => true | _ => false end
      else beq (fwd res) (ln "x") &&
           match option_map (map ID) (snap res) with Some [z] => Z.eqb z 1 | _ => false end
  | Panic _ => false
  end.

Example C10_all_cuts : forallb cut_ok (seq 0 57) = true.
Proof. vm_compute. reflexivity. Qed.

(* a scan error on an unterminated last line: reported with io.EOF, replaced
   by the reader failure otherwise *)
Example C10_error_precedence :
  let B := ln "goroutine 1 [running]:" ++ s2b "junk" in
  match scan_snapshot false (mkSource B [] EOF), scan_snapshot false (mkSource B [] (Fail 3)) with
  | Ok r1, Ok r2 =>
      (exists x, rerr_out r1 = EScan x) /\ rerr_out r2 = EIo (Fail 3) /\
      suffix r1 = s2b "junk" /\ suffix r2 = s2b "junk" /\ snap r1 = snap r2 /\ snap r1 <> None
  | _, _ => False
  end.
Proof. vm_compute. repeat split; try discriminate. eexists. reflexivity. Qed.
