(* Spec/Abi.v — vocabulary of C19 (source-based argument augmentation).

   A Gallina description of what a Go function call looks like in a traceback
   of a binary built with -gcflags '-N -l' on a 64-bit target (stack-spilled
   arguments, one line "f(0x.., 0x.., ...)"): the parameter VALUES of the
   call, the type names go/ast gives for them, the machine words the runtime
   prints for them, and the rendering a reader would call truthful.
   Nothing here mentions augmentCall; definitions only, plus computable
   well-formedness. *)
From PP Require Import Base.Bytes Base.BytesX Base.Num Model.Types.
From Coq Require Import String.

(* integer widths: int8 .. int64, and the word-sized int / uint *)
Inductive isize := I8 | I16 | I32 | I64 | IWord.
Definition size_bits (s : isize) : N :=
  match s with I8 => 8 | I16 => 16 | I32 => 32 | I64 => 64 | IWord => 64 end.
Definition size_suffix (s : isize) : bytes :=
  match s with I8 => s2b "8" | I16 => s2b "16" | I32 => s2b "32" | I64 => s2b "64" | IWord => [] end.

Inductive param : Type :=
| PBool (b : bool)
| PInt (sz : isize) (z : Z)
| PUint (sz : isize) (n : N)
| PFloat32 (bits : N)                     (* math.Float32bits *)
| PFloat64 (bits : N)                     (* math.Float64bits *)
| PString (ptr len : N)
| PSlice (elem : bytes) (ptr len cap : N)  (* []elem *)
| PPtr (elem : bytes) (ptr : N)            (* *elem *)
| PMap (text : bytes) (ptr : N)            (* "map[" ++ text, e.g. text = "int]int" *)
| PChan (text : bytes) (ptr : N)           (* "chan " ++ text *)
| PFunc (ptr : N).

(* what fieldToType (stack/source.go:182) yields for the parameter *)
Definition type_name (p : param) : bytes :=
  match p with
  | PBool _ => s2b "bool"
  | PInt sz _ => s2b "int" ++ size_suffix sz
  | PUint sz _ => s2b "uint" ++ size_suffix sz
  | PFloat32 _ => s2b "float32"
  | PFloat64 _ => s2b "float64"
  | PString _ _ => s2b "string"
  | PSlice elem _ _ _ => s2b "[]" ++ elem
  | PPtr elem _ => s2b "*" ++ elem
  | PMap text _ => s2b "map[" ++ text
  | PChan text _ => s2b "chan " ++ text
  | PFunc _ => s2b "func"
  end.

(* two's complement of z in [bits] bits, as an unsigned number *)
Definition zext (bits : N) (z : Z) : N := Z.to_N (z mod 2 ^ Z.of_N bits).

(* the traceback words: sub-word integers are zero-extended from their size *)
Definition encode (p : param) : list N :=
  match p with
  | PBool b => [if b then 1%N else 0%N]
  | PInt sz z => [zext (size_bits sz) z]
  | PUint _ n => [n]
  | PFloat32 bits => [bits]
  | PFloat64 bits => [bits]
  | PString ptr len => [ptr; len]
  | PSlice _ ptr len cap => [ptr; len; cap]
  | PPtr _ ptr => [ptr]
  | PMap _ ptr => [ptr]
  | PChan _ ptr => [ptr]
  | PFunc ptr => [ptr]
  end.

Definition hex0x (v : N) : bytes := s2b "0x" ++ N_to_hex false v.

Section Show.
  Variable fmt_float32 : N -> bytes.
  Variable fmt_float64 : N -> bytes.

  (* the truthful rendering *)
  Definition show (p : param) : bytes :=
    match p with
    | PBool b => if b then s2b "true" else s2b "false"
    | PInt _ z => Z_to_dec z
    | PUint _ n => N_to_dec n
    | PFloat32 bits => fmt_float32 bits
    | PFloat64 bits => fmt_float64 bits
    | PString ptr len => s2b "string(" ++ hex0x ptr ++ s2b ", len=" ++ N_to_dec len ++ s2b ")"
    | PSlice elem ptr len cap =>
        (s2b "[]" ++ elem) ++ s2b "(" ++ hex0x ptr ++ s2b " len=" ++ N_to_dec len ++ s2b " cap=" ++ N_to_dec cap ++ s2b ")"
    | PPtr elem ptr => (s2b "*" ++ elem) ++ s2b "(" ++ hex0x ptr ++ s2b ")"
    | PMap text ptr => (s2b "map[" ++ text) ++ s2b "(" ++ hex0x ptr ++ s2b ")"
    | PChan text ptr => (s2b "chan " ++ text) ++ s2b "(" ++ hex0x ptr ++ s2b ")"
    | PFunc ptr => s2b "func(" ++ hex0x ptr ++ s2b ")"
    end.
End Show.

(* values in range for their width, every word below 2^64.
   No condition on elem / text is needed: "*.." , "[].." , "map[.." and
   "chan .." can never equal one of the literal case labels ("float32", ...,
   "string", "func"), "[].." / "map[.." / "chan .." do not start with '*',
   and "[].." starts with none of "map[" / "chan " (AugmentProofs.type_name_class
   proves the classification for arbitrary texts). *)
Definition word_ok (v : N) : bool := N.ltb v 18446744073709551616.
Definition wf_param (p : param) : bool :=
  match p with
  | PBool _ => true
  | PInt sz z =>
      let h := (2 ^ (Z.of_N (size_bits sz) - 1))%Z in Z.leb (- h) z && Z.ltb z h
  | PUint sz n => N.ltb n (2 ^ size_bits sz)
  | PFloat32 bits => N.ltb bits 4294967296
  | PFloat64 bits => word_ok bits
  | PString ptr len => word_ok ptr && word_ok len
  | PSlice _ ptr len cap => word_ok ptr && word_ok len && word_ok cap
  | PPtr _ ptr => word_ok ptr
  | PMap _ ptr => word_ok ptr
  | PChan _ ptr => word_ok ptr
  | PFunc ptr => word_ok ptr
  end.

(* the Args the traceback parser produces for a line of plain words: one
   scalar per word, no pseudo-name, nothing elided.  IsPtr is whatever the
   pointer heuristic says. *)
Definition word_arg (isptr : N -> bool) (w : N) : Arg := MkArg false [] w (isptr w) false false [] [] false.
Definition args_of_words (isptr : N -> bool) (ws : list N) : Args :=
  mkArgs (map (word_arg isptr) ws) [] false.

(* how a word without type information is shown *)
Definition raw_word (w : N) : bytes := hex0x w.
