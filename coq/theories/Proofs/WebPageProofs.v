(* Proofs/WebPageProofs.v — the web handler composed with capture, scan,
   aggregate and render (Model/WebPage.v): proofs of Properties/C20b.v. *)
From PP Require Import Base.Bytes Base.BytesX Base.Num Base.GoResult Model.Types Model.Reader Model.Lines Model.FuncInit Model.ParseArgs
  Model.Scan Model.Names Model.ScanSnapshot Model.ScanSeq Model.Bucket Model.Paths Model.Html Model.UI Model.HtmlDoc
  Model.HtmlTpl Model.HtmlPage Model.Web.
From PP Require Import Spec.ReaderSpec Spec.LoopSpec Spec.SeqSpec Spec.Printer Spec.BucketSpec.
From PP Require Import Proofs.ReaderBase Proofs.ReaderProofs Proofs.LoopBase Proofs.LoopProofs Proofs.ScanInv
  Proofs.PrefixBase Proofs.PrefixFrame Proofs.PrefixProofs Proofs.PrefixLast
  Proofs.RoundTripLines Proofs.RoundTripScan Proofs.Compose Proofs.Aggregate Proofs.PathsProofs
  Proofs.HtmlBase Proofs.HtmlProofs Proofs.HtmlDocProofs Proofs.HtmlPageProofs Proofs.WebProofs.
From PP Require Import Model.WebPage.
From Coq Require Import String Permutation.

(* ------------------------------------------------------------------ *)
(* 1. the reader, the scan, the capture                                 *)
(* ------------------------------------------------------------------ *)

Lemma bytes_reader_stall_free b : stall_free (sched (bytes_reader b)).
Proof.
  apply positive_stall_free. unfold positive, bytes_reader. cbn [sched].
  apply Forall_forall. intros x Hx. apply repeat_spec in Hx. subst x. cbn [fst]. exact buf_cap_pos.
Qed.

(* scan_captured never panics; its two cases *)
Lemma scan_captured_spec W a cap :
  (opts_valid W = false /\ scan_captured W a cap = Ok (None, true)) \/
  (opts_valid W = true /\ exists res,
     scan_snapshot true (bytes_reader cap) = Ok res /\
     scan_captured W a cap = Ok (option_map (finish_snapshot W a) (snap res), snapshot_err (rerr_out res))).
Proof.
  unfold scan_captured. destruct (opts_valid W); cbn [negb]; [right|left; split; reflexivity].
  split; [reflexivity|].
  destruct (scan_snapshot_total true (bytes_reader cap)) as (res & Hres).
  exists res. split; [exact Hres|]. rewrite Hres. reflexivity.
Qed.

(* the error of ScanSnapshot on a bytes.Reader: nil, io.EOF or a scan error *)
Lemma bytes_reader_err cap res :
  scan_snapshot true (bytes_reader cap) = Ok res ->
  rerr_out res = ENil \/ rerr_out res = EIo EOF \/ exists x, rerr_out res = EScan x.
Proof.
  intros H.
  exact (proj1 (PrefixProofs.error_rule true cap _ EOF res (bytes_reader_stall_free cap) H)).
Qed.

Lemma snapshot_err_iff e :
  (e = ENil \/ e = EIo EOF \/ exists x, e = EScan x) ->
  (snapshot_err e = true <-> exists x, e = EScan x).
Proof.
  intros [->|[->|(x & ->)]]; cbn [snapshot_err]; split; intros H; try discriminate H.
  - destruct H as (x & F). discriminate F.
  - destruct H as (x & F). discriminate F.
  - exists x. reflexivity.
  - reflexivity.
Qed.

Lemma maxmem_is_int64 mm m : maxmem_is mm m -> (m <= max_int64)%Z.
Proof.
  intros [[_ ->]|[_ H]].
  - unfold default_maxmem, max_int64. lia.
  - exact (proj2 (proj1 (atoi_some _ _ H))).
Qed.

Lemma captured_some m dump : (m <= max_int64)%Z ->
  exists buflen n, capture m (Z.of_nat (List.length dump)) = Some (buflen, n) /\
                   captured_bytes m dump = Some (firstn (Z.to_nat n) dump).
Proof.
  intros H. destruct (capture_int64 m (Z.of_nat (List.length dump)) H) as (bl & n & E).
  exists bl, n. split; [exact E|]. unfold captured_bytes. rewrite E. reflexivity.
Qed.

(* ------------------------------------------------------------------ *)
(* 2. the handler, case by case                                         *)
(* ------------------------------------------------------------------ *)

Lemma handler_page_spec W dump method mm au sim :
  let o := handler_page W dump method mm au sim in
  (method <> GET /\ o = http_error S405 msg_method) \/
  (method = GET /\
   ((maxmem_bad mm /\ o = http_error S400 msg_maxmem) \/
    exists m, maxmem_is mm m /\
      ((augment_bad au /\ o = http_error S400 msg_augment) \/
       exists a, augment_is au a /\
         exists cap, captured_bytes m dump = Some cap /\ o = respond_captured W cap m a sim))).
Proof.
  cbv zeta. unfold handler_page. fold GET.
  destruct (beq method GET) eqn:EM; cbn [negb].
  2:{ left. split; [now apply beq_neq | reflexivity]. }
  right. split; [now apply beq_eq|].
  assert (HM : (maxmem_bad mm /\ match mm with [] => Some 67108864%Z | _ :: _ => atoi mm end = None) \/
               exists m, maxmem_is mm m /\ match mm with [] => Some 67108864%Z | _ :: _ => atoi mm end = Some m).
  { unfold maxmem_bad, maxmem_is. destruct mm as [|c r].
    - right. exists default_maxmem. split; [left; split; reflexivity | reflexivity].
    - destruct (atoi (c :: r)) as [m|] eqn:E.
      + right. exists m. split; [right; split; [discriminate | reflexivity] | reflexivity].
      + left. split; [split; [discriminate | reflexivity] | reflexivity]. }
  destruct HM as [[HB ->] | (m & HI & ->)]; [left; split; [exact HB | reflexivity]|].
  right. exists m. split; [exact HI|].
  set (AU := match au with
             | [] => Some true
             | _ :: _ => match atoi au with Some 0%Z => Some false | Some 1%Z => Some true | _ => None end
             end).
  assert (HA : (augment_bad au /\ AU = None) \/ exists a, augment_is au a /\ AU = Some a).
  { unfold augment_bad, augment_is, AU. destruct au as [|c r].
    - right. exists true. split; [left; split; reflexivity | reflexivity].
    - destruct (atoi (c :: r)) as [[|[p|p|]|p]|] eqn:E;
        try (left; split; [split; [discriminate | split; discriminate] | reflexivity]).
      + right. exists false. split; [right; left; split; [discriminate | split; reflexivity] | reflexivity].
      + right. exists true. split; [right; right; split; [discriminate | split; reflexivity] | reflexivity]. }
  destruct HA as [[HB ->] | (a & HI2 & ->)]; [left; split; [exact HB | reflexivity]|].
  right. exists a. split; [exact HI2|].
  destruct (captured_some m dump (maxmem_is_int64 _ _ HI)) as (bl & n & _ & EC).
  exists (firstn (Z.to_nat n) dump). split; [exact EC|]. rewrite EC. reflexivity.
Qed.

Lemma respond_captured_spec W cap m a sim :
  let o := respond_captured W cap m a sim in
  exists c failed, scan_captured W a cap = Ok (c, failed) /\
   ((failed = true /\ o = http_error S500 msg_snapshot) \/
    (failed = false /\
      ((similarity_bad sim /\ o = http_error S400 msg_similarity) \/
       exists l, similarity_is sim l /\
         ((c = None /\ o = Crash nil_deref) \/
          exists sn bs, c = Some sn /\ aggregate (we_shuffle W) l (sn_goroutines sn) = Ok bs /\
             o = Reply (S200 l a m) (render_page_buckets (handler_env W) (sn_meta sn) bs))))).
Proof.
  cbv zeta. unfold respond_captured.
  assert (HT : exists c failed, scan_captured W a cap = Ok (c, failed)).
  { destruct (scan_captured_spec W a cap) as [[_ E]|(_ & res & _ & E)]; rewrite E; eauto. }
  destruct HT as (c & failed & E). exists c, failed. split; [exact E|]. rewrite E.
  destruct failed; [left; split; reflexivity|]. right. split; [reflexivity|].
  destruct (parse_similarity sim) as [l|] eqn:EP.
  - right. exists l. split; [now apply parse_similarity_some|].
    destruct c as [sn|]; [|left; split; reflexivity]. right.
    destruct (partition_ok (we_shuffle W) l (sn_goroutines sn)) as (bs & EA & _).
    exists sn, bs. split; [reflexivity|]. split; [exact EA|]. rewrite EA. reflexivity.
  - left. split; [now apply parse_similarity_none | reflexivity].
Qed.

Lemma scan_fails_concrete_eq W dump m a cap c failed :
  captured_bytes m dump = Some cap -> scan_captured W a cap = Ok (c, failed) ->
  scan_fails_concrete W dump m a = failed.
Proof. intros E1 E2. unfold scan_fails_concrete. rewrite E1, E2. reflexivity. Qed.

(* ------------------------------------------------------------------ *)
(* 3. C20b_refines_table                                                *)
(* ------------------------------------------------------------------ *)

Theorem refines_table : forall W dump method mm au sim,
  match handler_page W dump method mm au sim with
  | Reply st _ => st = handler method mm au sim (scan_fails_concrete W dump)
  | Crash msg =>
      msg = nil_deref /\ opts_valid W = true /\
      exists l a m cap,
        handler method mm au sim (scan_fails_concrete W dump) = S200 l a m /\
        captured_bytes m dump = Some cap /\ found_goroutines cap = None
  end.
Proof.
  intros W dump method mm au sim.
  pose proof (handler_table method mm au sim (scan_fails_concrete W dump)) as T. cbv zeta in T.
  destruct T as (T405 & T500 & T200 & T400).
  destruct (handler_page_spec W dump method mm au sim)
    as [[NG ->]|(G & [[MB ->]|(m & MI & [[AB ->]|(a & AI & cap & EC & ->)])])]; cbv zeta.
  - cbn [http_error]. symmetry. now apply T405.
  - cbn [http_error]. symmetry. apply T400. split; [exact G|]. now left.
  - cbn [http_error]. symmetry. apply T400. split; [exact G|]. right. now left.
  - destruct (respond_captured_spec W cap m a sim) as (c & failed & ES & HO). cbv zeta in HO.
    pose proof (scan_fails_concrete_eq W dump m a cap c failed EC ES) as SF.
    destruct HO as [[-> ->]|(-> & [[SB ->]|(l & SI & [[-> ->]|(sn & bs & -> & _ & ->)])])].
    + cbn [http_error]. symmetry. apply T500. split; [exact G|]. exists m, a. auto.
    + cbn [http_error]. symmetry. apply T400. split; [exact G|]. right. right. exists m, a. auto.
    + split; [reflexivity|].
      destruct (scan_captured_spec W a cap) as [[_ E]|(OV & res & ER & E)]; rewrite E in ES.
      * discriminate ES.
      * split; [exact OV|]. exists l, a, m, cap. split; [apply T200; auto|]. split; [exact EC|].
        unfold found_goroutines. rewrite ER. injection ES as ES _.
        destruct (snap res); [discriminate ES|reflexivity].
    + symmetry. apply T200. auto.
Qed.

(* the body of every answer *)
Theorem reply_bodies : forall W dump method mm au sim st body,
  handler_page W dump method mm au sim = Reply st body ->
  match st with
  | S405 => body = s2b msg_method ++ [LF]
  | S500 => body = s2b msg_snapshot ++ [LF]
  | S400 => body = s2b msg_maxmem ++ [LF] \/ body = s2b msg_augment ++ [LF] \/ body = s2b msg_similarity ++ [LF]
  | S200 l a m =>
      exists cap gs bs,
        captured_bytes m dump = Some cap /\ found_goroutines cap = Some gs /\
        aggregate (we_shuffle W) l (sn_goroutines (finish_snapshot W a gs)) = Ok bs /\
        body = render_page_buckets (handler_env W) (sn_meta (finish_snapshot W a gs)) bs
  end.
Proof.
  intros W dump method mm au sim st body H.
  destruct (handler_page_spec W dump method mm au sim)
    as [[NG E]|(G & [[MB E]|(m & MI & [[AB E]|(a & AI & cap & EC & E)])])]; cbv zeta in E; rewrite E in H.
  - injection H as <- <-. reflexivity.
  - injection H as <- <-. now left.
  - injection H as <- <-. right. now left.
  - destruct (respond_captured_spec W cap m a sim) as (c & failed & ES & HO). cbv zeta in HO.
    destruct HO as [[-> E1]|(-> & [[SB E1]|(l & SI & [[-> E1]|(sn & bs & -> & EA & E1)])])]; rewrite E1 in H.
    + injection H as <- <-. reflexivity.
    + injection H as <- <-. right. now right.
    + discriminate H.
    + injection H as <- <-.
      destruct (scan_captured_spec W a cap) as [[_ E2]|(OV & res & ER & E2)]; rewrite E2 in ES; [discriminate ES|].
      injection ES as ES _. destruct (snap res) as [gs|] eqn:Hs; [|discriminate ES].
      cbn [option_map] in ES. injection ES as <-.
      exists cap, gs, bs. split; [exact EC|]. split; [unfold found_goroutines; rewrite ER; exact Hs|].
      split; [exact EA|reflexivity].
Qed.

(* ------------------------------------------------------------------ *)
(* 4. C20b_status_precedence                                            *)
(* ------------------------------------------------------------------ *)

Theorem status_precedence : forall W dump method mm au sim,
  let o := handler_page W dump method mm au sim in
  (method <> GET -> o = http_error S405 msg_method) /\
  (method = GET -> maxmem_bad mm -> o = http_error S400 msg_maxmem) /\
  (forall m, method = GET -> maxmem_is mm m -> augment_bad au -> o = http_error S400 msg_augment) /\
  (forall m a, method = GET -> maxmem_is mm m -> augment_is au a ->
     scan_fails_concrete W dump m a = true -> o = http_error S500 msg_snapshot) /\
  (forall m a, method = GET -> maxmem_is mm m -> augment_is au a ->
     scan_fails_concrete W dump m a = false -> similarity_bad sim -> o = http_error S400 msg_similarity).
Proof.
  intros W dump method mm au sim. cbv zeta.
  destruct (handler_page_spec W dump method mm au sim)
    as [[NG E]|(G & [[MB E]|(m0 & MI & [[AB E]|(a0 & AI & cap & EC & E)])])]; cbv zeta in E; rewrite E; clear E.
  - split; [reflexivity|]. repeat split; intros; contradiction.
  - split; [intros; contradiction|]. split; [reflexivity|].
    repeat split; intros; exfalso; eapply maxmem_excl; eauto.
  - split; [intros; contradiction|]. split; [intros; exfalso; eapply maxmem_excl; eauto|].
    split; [reflexivity|]. split; intros; exfalso; eapply augment_excl; eauto.
  - split; [intros; contradiction|]. split; [intros; exfalso; eapply maxmem_excl; eauto|].
    split; [intros; exfalso; eapply augment_excl; eauto|].
    destruct (respond_captured_spec W cap m0 a0 sim) as (c & failed & ES & HO). cbv zeta in HO.
    pose proof (scan_fails_concrete_eq W dump m0 a0 cap c failed EC ES) as SF.
    split.
    + intros m a _ M1 A1 S1. rewrite (maxmem_fun _ _ _ M1 MI), (augment_fun _ _ _ A1 AI), SF in S1.
      destruct HO as [[_ ->]|(F & _)]; [reflexivity|congruence].
    + intros m a _ M1 A1 S1 SB. rewrite (maxmem_fun _ _ _ M1 MI), (augment_fun _ _ _ A1 AI), SF in S1.
      destruct HO as [[F _]|(_ & [[_ ->]|(l & SI & _)])]; [congruence|reflexivity|].
      exfalso. eapply similarity_excl; eauto.
Qed.

(* the true form of "invalid => 4xx" *)
Theorem invalid_params : forall W dump method mm au sim,
  let o := handler_page W dump method mm au sim in
  (method <> GET \/ maxmem_bad mm \/ augment_bad au ->
     exists body, o = Reply S405 body \/ o = Reply S400 body) /\
  (similarity_bad sim ->
     exists body, o = Reply S405 body \/ o = Reply S400 body \/
       (o = Reply S500 body /\ method = GET /\
        exists m a, maxmem_is mm m /\ augment_is au a /\ scan_fails_concrete W dump m a = true)).
Proof.
  intros W dump method mm au sim. cbv zeta.
  destruct (handler_page_spec W dump method mm au sim)
    as [[NG E]|(G & [[MB E]|(m0 & MI & [[AB E]|(a0 & AI & cap & EC & E)])])]; cbv zeta in E; rewrite E; clear E.
  - split; intros _; eexists; left; reflexivity.
  - split; intros _; eexists; [right|right; left]; reflexivity.
  - split; intros _; eexists; [right|right; left]; reflexivity.
  - destruct (respond_captured_spec W cap m0 a0 sim) as (c & failed & ES & HO). cbv zeta in HO.
    pose proof (scan_fails_concrete_eq W dump m0 a0 cap c failed EC ES) as SF.
    split.
    + intros [NG|[MB|AB]]; exfalso; [contradiction|eapply maxmem_excl; eauto|eapply augment_excl; eauto].
    + intros SB. destruct HO as [[-> ->]|(_ & [[_ ->]|(l & SI & _)])].
      * eexists. right. right. split; [reflexivity|]. split; [exact G|]. exists m0, a0. auto.
      * eexists. right. left. reflexivity.
      * exfalso. eapply similarity_excl; eauto.
Qed.

(* when does snapshot() fail: invalid options, or a line rejected by the scanner *)
Theorem scan_fails_iff : forall W dump m a cap, captured_bytes m dump = Some cap ->
  (scan_fails_concrete W dump m a = true <->
   opts_valid W = false \/
   exists res x, scan_snapshot true (bytes_reader cap) = Ok res /\ rerr_out res = EScan x).
Proof.
  intros W dump m a cap EC.
  destruct (scan_captured_spec W a cap) as [[OV E]|(OV & res & ER & E)];
    rewrite (scan_fails_concrete_eq W dump m a cap _ _ EC E).
  - split; [intros _; now left|reflexivity].
  - rewrite (snapshot_err_iff _ (bytes_reader_err cap res ER)). split.
    + intros (x & Hx). right. exists res, x. auto.
    + intros [F|(res' & x & ER' & Hx)]; [congruence|]. rewrite ER in ER'. injection ER' as <-. eauto.
Qed.

(* ------------------------------------------------------------------ *)
(* 5. the heading of a bucket shows its number of goroutines            *)
(* ------------------------------------------------------------------ *)

Definition heading (i : nat) (b : Bucket) : list piece :=
  [Lit (HtmlDoc.lines [""; "<h1>Signature #"]%string); Num (Z.of_nat i); Lit (s2b ": ");
   Num (Z.of_nat (List.length (IDs b))); Lit (s2b " routine")].

Lemma heading_bytes i b :
  flatten_pieces (heading i b) =
  (LF :: s2b "<h1>Signature #") ++ Z_to_dec (Z.of_nat i) ++ s2b ": " ++
  Z_to_dec (Z.of_nat (List.length (IDs b))) ++ s2b " routine".
Proof.
  unfold heading, flatten_pieces. cbn [flat_map flatten_piece]. rewrite app_nil_r. reflexivity.
Qed.

Lemma buckets_pieces_heading ver : forall bs k i b, nth_error bs i = Some b ->
  exists pre post, buckets_pieces ver k bs = pre ++ heading (k + i) b ++ post.
Proof.
  induction bs as [|b0 bs IH]; intros k i b H; [destruct i; discriminate H|].
  destruct i as [|i]; cbn [nth_error buckets_pieces] in *.
  - injection H as ->. exists []. rewrite Nat.add_0_r. unfold bucket_pieces, heading.
    eexists. cbn [app]. reflexivity.
  - destruct (IH (S k) i b H) as (pre & post & E). rewrite E.
    exists (bucket_pieces ver k b0 ++ pre), post.
    replace (k + S i) with (S k + i) by lia. rewrite <- app_assoc. reflexivity.
Qed.

Theorem page_heading : forall env m bs i b, nth_error bs i = Some b ->
  exists pre post, page_pieces_buckets env m bs = pre ++ map Tpl (heading i b) ++ post.
Proof.
  intros env m bs i b H.
  destruct (buckets_pieces_heading (pe_ver env) bs 0 i b H) as (pre & post & E). cbn [Nat.add] in E.
  unfold page_pieces_buckets, page_of, content_pieces_buckets. rewrite E.
  exists (map Tpl (head_pieces ++ [Lit div_open] ++ pre)),
         (map Tpl (post ++ [Lit div_close] ++ meta_pieces env m) ++ [Raw (pe_footer env); Tpl (Lit tpl_tail)]).
  rewrite !map_app, <- !app_assoc. reflexivity.
Qed.

(* the footer of the handler's page is empty: every delimiter of the page is template text *)
Theorem handler_page_delims : forall W m bs i c,
  nth_error (render_page_buckets (handler_env W) m bs) i = Some c -> delim c = true ->
  exists s k, ppiece_at (page_pieces_buckets (handler_env W) m bs) i = Some (Tpl (Lit s), k) /\ nth_error s k = Some c.
Proof.
  intros W m bs i c H D.
  destruct (page_holes_escaped (handler_env W) m (content_pieces_buckets (pe_ver (handler_env W)) bs) i c H D)
    as [E|(k & _ & F)]; [exact E|].
  cbn [handler_env pe_footer] in F. destruct k; discriminate F.
Qed.

(* ------------------------------------------------------------------ *)
(* 6. C20b_valid_complete                                               *)
(* ------------------------------------------------------------------ *)

Lemma finish_length W a gs : List.length (sn_goroutines (finish_snapshot W a gs)) = List.length gs.
Proof.
  unfold finish_snapshot. cbn [sn_goroutines]. destruct a; rewrite ?map_length; apply guess_length.
Qed.

Lemma name_arguments_length gs : List.length (name_arguments gs) = List.length gs.
Proof. unfold name_arguments. apply map_length. Qed.

Lemma snapshot_of_length d : List.length (snapshot_of d) = List.length d.
Proof. destruct d as [|g d]; [reflexivity|]. cbn [snapshot_of List.length]. now rewrite map_length. Qed.

Lemma valid_request W dump method mm au sim m a :
  method = GET -> maxmem_is mm m -> augment_is au a ->
  exists cap, captured_bytes m dump = Some cap /\
              handler_page W dump method mm au sim = respond_captured W cap m a sim.
Proof.
  intros G M1 A1.
  destruct (handler_page_spec W dump method mm au sim)
    as [[NG _]|(_ & [[MB _]|(m0 & MI & [[AB _]|(a0 & AI & cap & EC & E)])])]; cbv zeta in *.
  - contradiction.
  - exfalso. eapply maxmem_excl; eauto.
  - exfalso. eapply augment_excl; eauto.
  - rewrite (maxmem_fun _ _ _ M1 MI), (augment_fun _ _ _ A1 AI). eauto.
Qed.

(* a captured buffer in which ScanSnapshot finds goroutines and no scan error: the 200 page *)
Lemma respond_found W cap m a sim l gs res :
  opts_valid W = true -> scan_snapshot true (bytes_reader cap) = Ok res -> snap res = Some gs ->
  snapshot_err (rerr_out res) = false -> similarity_is sim l ->
  exists bs,
    aggregate (we_shuffle W) l (sn_goroutines (finish_snapshot W a gs)) = Ok bs /\
    respond_captured W cap m a sim =
      Reply (S200 l a m) (render_page_buckets (handler_env W) (sn_meta (finish_snapshot W a gs)) bs) /\
    fold_right Nat.add 0 (map (fun b => List.length (IDs b)) bs) = List.length gs.
Proof.
  intros OV ER Hs He SI.
  destruct (partition_ok (we_shuffle W) l (sn_goroutines (finish_snapshot W a gs))) as (bs & EA & _).
  exists bs. split; [exact EA|]. split.
  - unfold respond_captured, scan_captured. rewrite OV. cbn [negb]. rewrite ER, Hs, He. cbn [option_map].
    apply parse_similarity_some in SI. rewrite SI, EA. reflexivity.
  - rewrite (counts_add_up _ _ _ _ EA). apply finish_length.
Qed.

Lemma captured_whole m dump buflen :
  capture m (Z.of_nat (List.length dump)) = Some (buflen, Z.of_nat (List.length dump)) ->
  captured_bytes m dump = Some dump.
Proof.
  intros E. unfold captured_bytes. rewrite E, Nat2Z.id, firstn_all. reflexivity.
Qed.

Theorem valid_complete : forall W v d trailing method mm au sim m a l buflen,
  method = GET -> maxmem_is mm m -> augment_is au a -> similarity_is sim l ->
  opts_valid W = true -> wf_dump v d = true ->
  let dump := print_dump v d trailing in
  capture m (Z.of_nat (List.length dump)) = Some (buflen, Z.of_nat (List.length dump)) ->
  let sn := finish_snapshot W a (name_arguments (snapshot_of d)) in
  exists bs,
    aggregate (we_shuffle W) l (sn_goroutines sn) = Ok bs /\
    handler_page W dump method mm au sim =
      Reply (S200 l a m) (render_page_buckets (handler_env W) (sn_meta sn) bs) /\
    scan_fails_concrete W dump m a = false /\
    page_counts (page_pieces_buckets (handler_env W) (sn_meta sn) bs) (List.length bs)
                (total_calls (map BSig bs) + 2 * elided_stacks (map BSig bs)) (meta_items (sn_meta sn)) /\
    fold_right Nat.add 0 (map (fun b => List.length (IDs b)) bs) = List.length d /\
    (forall i b, nth_error bs i = Some b ->
       exists pre post,
         page_pieces_buckets (handler_env W) (sn_meta sn) bs = pre ++ map Tpl (heading i b) ++ post).
Proof.
  intros W v d trailing method mm au sim m a l buflen G M1 A1 SI OV Hwf dump Hcap sn.
  destruct (valid_request W dump method mm au sim m a G M1 A1) as (cap & EC & EH).
  rewrite (captured_whole _ _ _ Hcap) in EC. injection EC as <-.
  destruct (fidelity_named v d trailing _ Hwf (bytes_reader_stall_free dump)) as (res & ER & Hs & _ & _ & He).
  change (mkSource (print_dump v d trailing) (sched (bytes_reader dump)) EOF) with (bytes_reader dump) in ER.
  assert (He' : snapshot_err (rerr_out res) = false) by (rewrite He; reflexivity).
  destruct (respond_found W dump m a sim l _ res OV ER Hs He' SI) as (bs & EA & ER2 & Hsum).
  exists bs. split; [exact EA|]. split; [rewrite EH; exact ER2|]. split.
  - unfold scan_fails_concrete. rewrite (captured_whole _ _ _ Hcap). unfold scan_captured.
    rewrite OV. cbn [negb]. rewrite ER. exact He'.
  - split; [apply page_complete_buckets|]. split.
    + rewrite Hsum, name_arguments_length. apply snapshot_of_length.
    + intros i b Hb. now apply page_heading.
Qed.

(* the whole dump is captured as soon as it is shorter than max(maxmem, 1 MiB) *)
Lemma capture_whole_when_short m dlen : (m <= max_int64)%Z -> (0 <= dlen < Z.max m mib)%Z ->
  exists buflen, capture m dlen = Some (buflen, dlen).
Proof.
  intros Hm Hd. destruct (capture_spec m dlen) as (bl & n & E & _ & _ & _ & _ & H & _).
  - unfold max_int64 in Hm. unfold max_capture_mem. lia.
  - destruct (H (proj2 Hd)) as [-> _]. eauto.
Qed.

(* ------------------------------------------------------------------ *)
(* 7. one scan step in an open state of a dump keeps the number of      *)
(*    goroutines (a header is only accepted in looking/betweenRoutine)  *)
(* ------------------------------------------------------------------ *)

Definition open_state (x : state) : bool :=
  match x with gotRoutineHeader | gotFunc | gotCreated | gotFileFunc | gotUnavail => true | _ => false end.

Lemma open_of_dump x : dump_state x = true -> closed_state x = false -> open_state x = true.
Proof. destruct x; intros H1 H2; try discriminate H1; try discriminate H2; reflexivity. Qed.

Definition LenR (s : sstate) (r : result) : Prop :=
  forall s' l e, r = Ok (s', l, e) -> List.length (goroutines s') = List.length (goroutines s).

Lemma lenR_ret s s' l e : List.length (goroutines s') = List.length (goroutines s) -> LenR s (ret s' l e).
Proof. intros H s1 l1 e1 E. injection E as <- _ _. exact H. Qed.

Lemma lenR_panic s m : LenR s (Panic m).
Proof. intros s1 l1 e1 E. discriminate E. Qed.

Lemma add_call_cur_len s c s1 : add_call_cur c s = Ok s1 -> List.length (goroutines s1) = List.length (goroutines s).
Proof.
  unfold add_call_cur. destruct (last_opt (goroutines s)) as [g|]; [|discriminate].
  intros E. injection E as <-. apply set_cur_length.
Qed.

Lemma func_step_len s line next nf :
  LenR s nf -> LenR s (func_step s line next add_call_cur nf).
Proof.
  intros Hnf. unfold func_step.
  destruct (parse_func line) as [[[c e]|]|m]; unfold bind; [|exact Hnf|apply lenR_panic].
  destruct (add_call_cur c s) as [s1|m] eqn:E; [|apply lenR_panic].
  apply lenR_ret. change (goroutines (with_state s1 next)) with (goroutines s1). now apply (add_call_cur_len s c).
Qed.

Lemma file_step_len s line calls store next what :
  (forall cs, List.length (goroutines (store cs)) = List.length (goroutines s)) ->
  LenR s (file_step s line calls store next what).
Proof.
  intros Hst. unfold file_step. destruct (last_opt calls) as [c|]; [|apply lenR_panic].
  destruct (parse_file c line) as [[c' [e|]]|].
  - apply lenR_ret. reflexivity.
  - apply lenR_ret. change (goroutines (with_state ?x _)) with (goroutines x). apply Hst.
  - apply lenR_ret. reflexivity.
Qed.

Lemma created_step_len s g sym b : LenR s (created_step s g sym b).
Proof.
  unfold created_step. destruct (func_init sym) as [[f|]|m]; unfold bind; [| |apply lenR_panic].
  - apply lenR_ret. change (goroutines (with_state ?x _)) with (goroutines x). apply set_cur_length.
  - apply lenR_ret. apply set_cur_length.
Qed.

Lemma with_cur_len s k : (forall g, LenR s (k g)) -> LenR s (with_cur s k).
Proof. intros H. unfold with_cur. destruct (last_opt (goroutines s)); [apply H|apply lenR_panic]. Qed.

Lemma scan_body_len s t : open_state (st s) = true -> LenR s (scan_body s t).
Proof.
  intros Hop. unfold scan_body.
  assert (Hsame : forall x l e, LenR s (ret (with_state s x) l e)).
  { intros. apply lenR_ret. reflexivity. }
  assert (Hself : forall l e, LenR s (ret s l e)).
  { intros. apply lenR_ret. reflexivity. }
  destruct (st s) eqn:Hst; try discriminate Hop.
  - apply with_cur_len. intros cur. destruct (match_unavail t).
    + apply lenR_ret. change (goroutines (with_state ?x _)) with (goroutines x). apply set_cur_length.
    + apply func_step_len, Hself.
  - apply with_cur_len. intros cur. apply file_step_len. intros cs. apply set_cur_length.
  - apply with_cur_len. intros cur.
    destruct (Calls (CreatedBy (GSig cur))) as [|c rest]; [apply lenR_panic|].
    destruct (parse_file c t) as [[c' [e|]]|]; try apply Hself.
    apply lenR_ret. change (goroutines (with_state ?x _)) with (goroutines x). apply set_cur_length.
  - apply with_cur_len. intros cur. destruct (match_created t) as [sym|].
    + apply created_step_len.
    + destruct (is_frames_elided t); [apply lenR_ret, set_cur_length|].
      apply func_step_len. destruct t; apply Hsame.
  - destruct t as [|x t']; [apply Hsame|].
    apply with_cur_len. intros cur. destruct (match_created (x :: t')) as [sym|].
    + apply created_step_len.
    + apply Hself.
Qed.

Theorem open_step_len : forall s line s' l e,
  open_state (st s) = true -> scan s line = Ok (s', l, e) ->
  List.length (goroutines s') = List.length (goroutines s).
Proof.
  intros s line s' l e Hop H. rewrite scan_unfold in H.
  destruct (scan_tr s line) as [t0|].
  - destruct (scan_pre_cases s t0) as [(t & Ht)|(Ht & _)]; rewrite Ht in H.
    + apply (scan_body_len s t Hop _ _ _ H).
    + injection H as <- _ _. reflexivity.
  - injection H as <- _ _. reflexivity.
Qed.

(* along the lines of a dump: the state stays a dump state, the list never shrinks *)
Lemma dump_path : forall ls s s', dump_state (st s) = true -> scan_lines s ls = Ok s' ->
  dump_state (st s') = true /\ List.length (goroutines s) <= List.length (goroutines s').
Proof.
  induction ls as [|d ls IH]; intros s s' Hd H; cbn [scan_lines] in H.
  - injection H as <-. split; [exact Hd|lia].
  - destruct (scan s d) as [[[s1 l] e]|m] eqn:Hscan; [|discriminate H].
    pose proof (dump_step _ _ _ _ _ Hd Hscan) as Hd1.
    pose proof (scan_step_frame _ _ _ _ _ (dump_not_race _ Hd) Hscan) as Hfr.
    destruct (frame_stable _ _ Hfr) as [[Hl _] _].
    destruct (IH s1 s' Hd1 H) as [Hd' Hl']. split; [exact Hd'|lia].
Qed.

(* ------------------------------------------------------------------ *)
(* 8. a printed dump cut after k bytes                                  *)
(* ------------------------------------------------------------------ *)

Section Cut.
Variable v : p_variant.
Variable d : list p_goroutine.
Variable trailing : bool.
Hypothesis Hwf : wf_dump v d = true.

Let B := print_dump v d trailing.

Lemma lines_B : LoopSpec.lines B = all_lines v d trailing.
Proof. unfold B. rewrite print_dump_eq. apply lines_concat_ok. now apply all_lines_ok. Qed.

(* the first line is the header of the first goroutine: after it the scanner is in a dump state *)
Lemma first_line_B : exists l0 rest s1,
  all_lines v d trailing = l0 :: rest /\ scan ss0 l0 = Ok (s1, true, None) /\
  dump_state (st s1) = true /\ 1 <= List.length (goroutines s1).
Proof.
  destruct (wf_dump_spec v d Hwf) as (Hind & Hfi & Hne & Hgs).
  destruct d as [|g d']; [congruence|].
  cbn [forallb] in Hgs. apply andb_true_iff in Hgs as [Hg _]. unfold wf_goroutine in Hg.
  apply andb_true_iff in Hg as [Hg _]. apply andb_true_iff in Hg as [Hg _].
  apply andb_true_iff in Hg as [Hg Hannot]. apply andb_true_iff in Hg as [Hg Hmin].
  apply andb_true_iff in Hg as [Hid Hstate].
  exists (phys_line v (print_header g)).
  assert (E : exists rest, all_lines v (g :: d') trailing = phys_line v (print_header g) :: rest).
  { unfold all_lines. destruct d' as [|g' d'']; [cbn [dump_lines]|rewrite dump_lines_cons2];
      unfold print_goroutine_lines; rewrite !map_app; cbn [map app]; eexists; reflexivity. }
  destruct E as (rest & E). exists rest. eexists. split; [exact E|].
  rewrite scan_phys_first; [|reflexivity|apply header_no_cr].
  rewrite (step_header ss0 (pv_indent v) g (or_introl eq_refl) Hind Hid Hstate Hmin Hannot).
  split; [reflexivity|]. split; [reflexivity|]. cbn [goroutines ss0 app List.length]. lia.
Qed.

Lemma snap_of_false_inj gs gs' : gs' <> [] -> snap_of false gs = Some gs' -> gs = gs'.
Proof. intros Hne H. destruct gs; [discriminate H|]. injection H as <-. reflexivity. Qed.

(* the goroutines found in the first k bytes: all but the last one are those of the dump *)
Lemma cut_raw : forall k sc' res',
  stall_free sc' -> scan_snapshot false (mkSource (firstn k B) sc' EOF) = Ok res' ->
  exists gs0, snap res' = snap_of false gs0 /\
    (forall i, S i < List.length gs0 -> nth_error gs0 i = nth_error (snapshot_of d) i) /\
    (gs0 = [] -> has_lf (firstn k B) = false).
Proof.
  intros k sc' res' Hsf' H'.
  destruct (wf_dump_spec v d Hwf) as (_ & _ & Hne & _).
  assert (Hsne : snapshot_of d <> []) by (destruct d; [congruence|discriminate]).
  destruct (fidelity v d trailing [] Hwf I) as (res & H & Hsnap & _).
  fold B in H.
  destruct (prefix_all_goroutines false B k [] sc' EOF EOF res res' I Hsf' H H')
    as (P & T & R & E1 & E2 & _ & HT & [(Hs & _)|(s & s' & HsP & _ & Hsn & Hstep & Hfr & Hnr & Hcl & Hdp)]).
  - exists (snapshot_of d). rewrite Hs, Hsnap. split.
    + destruct (snapshot_of d); [congruence|reflexivity].
    + split; [reflexivity|]. intros F. congruence.
  - exists (goroutines s'). split; [exact Hsn|].
    destruct P as [|l0 P'].
    + cbn [scan_lines] in HsP. injection HsP as <-.
      destruct (Hcl eq_refl) as [E|(g & E)]; rewrite E; cbn [goroutines ss0 app List.length].
      * split; [intros i Hi; lia|]. intros _.
        rewrite <- (concat_lines (firstn k B)), E1. cbn [app].
        destruct HT as [->|(t & u & R' & -> & Hlf & _)]; [reflexivity|].
        cbn [List.concat]. rewrite app_nil_r. exact Hlf.
      * split; [intros i Hi; lia|]. intros F. discriminate F.
    + destruct first_line_B as (h & rest & s1 & EA & Hscan & Hd1 & Hl1).
      rewrite lines_B, EA in E2. cbn [app] in E2. injection E2 as <- E2.
      cbn [scan_lines] in HsP. rewrite Hscan in HsP.
      destruct (dump_path P' s1 s Hd1 HsP) as [Hds Hls].
      destruct (Hnr (Hdp Hds)) as (sB & HsB & Hall & HclB).
      rewrite Hsnap in HsB. symmetry in HsB. apply (snap_of_false_inj _ _ Hsne) in HsB.
      pose proof (Hfr (dump_not_race _ Hds)) as Hframe.
      destruct (frame_stable _ _ Hframe) as [[Hl _] _].
      split; [|intros F; rewrite F in Hl; cbn [List.length] in Hl; lia].
      intros i Hi. rewrite <- HsB.
      destruct (closed_state (st s)) eqn:Hc.
      * destruct (HclB eq_refl) as (tl & Etl). rewrite Etl.
        destruct (Hcl eq_refl) as [E|(g & E)]; rewrite E in Hi |- *.
        -- rewrite nth_error_app1 by lia. reflexivity.
        -- rewrite app_length in Hi. cbn [List.length] in Hi. rewrite !nth_error_app1 by lia. reflexivity.
      * assert (Hlen : List.length (goroutines s') = List.length (goroutines s)).
        { destruct Hstep as [->|(t & l & e & _ & Est)]; [reflexivity|].
          exact (open_step_len _ _ _ _ _ (open_of_dump _ Hds Hc) Est). }
        rewrite Hlen in Hi. destruct (Hall i Hi) as [A1 A2]. rewrite A1, A2. reflexivity.
Qed.

End Cut.

(* ------------------------------------------------------------------ *)
(* 9. C20b_truncated                                                    *)
(* ------------------------------------------------------------------ *)

(* whatever prefix of a printed dump ends up in the buffer: 500, the nil dereference (no line feed in
   the buffer), or the page of goroutines gs0 of which all but the last are goroutines of the dump *)
Theorem cut_page : forall W v d trailing k m a sim l,
  similarity_is sim l -> opts_valid W = true -> wf_dump v d = true ->
  let cap := firstn k (print_dump v d trailing) in
  let o := respond_captured W cap m a sim in
  o = http_error S500 msg_snapshot \/
  (o = Crash nil_deref /\ found_goroutines cap = None /\ has_lf cap = false) \/
  exists gs0 bs,
    gs0 <> [] /\
    found_goroutines cap = Some (name_arguments gs0) /\
    aggregate (we_shuffle W) l (sn_goroutines (finish_snapshot W a (name_arguments gs0))) = Ok bs /\
    o = Reply (S200 l a m)
          (render_page_buckets (handler_env W) (sn_meta (finish_snapshot W a (name_arguments gs0))) bs) /\
    fold_right Nat.add 0 (map (fun b => List.length (IDs b)) bs) = List.length gs0 /\
    (forall i, S i < List.length gs0 -> nth_error gs0 i = nth_error (snapshot_of d) i).
Proof.
  intros W v d trailing k m a sim l SI OV Hwf cap o.
  destruct (scan_snapshot_total false (bytes_reader cap)) as (r0 & H0).
  destruct (scan_snapshot_total true (bytes_reader cap)) as (r1 & H1).
  destruct (names_only_snap _ _ _ H0 H1) as (_ & _ & He & _ & _ & _ & _ & Hs).
  destruct (cut_raw v d trailing Hwf k _ r0 (bytes_reader_stall_free cap) H0) as (gs0 & Hs0 & Hpre & Hnil).
  rewrite Hs0 in Hs.
  destruct (snapshot_err (rerr_out r1)) eqn:Herr.
  - left. unfold o, respond_captured, scan_captured. rewrite OV. cbn [negb]. rewrite H1, Herr. reflexivity.
  - right. destruct gs0 as [|g0 gs0'].
    + left. cbn [snap_of option_map] in Hs. split; [|split].
      * unfold o, respond_captured, scan_captured. rewrite OV. cbn [negb]. rewrite H1, Herr, Hs. cbn [option_map].
        apply parse_similarity_some in SI. rewrite SI. reflexivity.
      * unfold found_goroutines. rewrite H1. exact Hs.
      * now apply Hnil.
    + right. cbn [snap_of option_map] in Hs.
      destruct (respond_found W cap m a sim l _ r1 OV H1 Hs Herr SI) as (bs & EA & ER & Hsum).
      exists (g0 :: gs0'), bs. split; [discriminate|]. split; [unfold found_goroutines; rewrite H1; exact Hs|].
      split; [exact EA|]. split; [exact ER|]. split; [rewrite Hsum; apply name_arguments_length|exact Hpre].
Qed.

Theorem truncated : forall W v d trailing method mm au sim m a l buflen n,
  method = GET -> maxmem_is mm m -> augment_is au a -> similarity_is sim l ->
  opts_valid W = true -> wf_dump v d = true ->
  let dump := print_dump v d trailing in
  capture m (Z.of_nat (List.length dump)) = Some (buflen, n) -> (n < Z.of_nat (List.length dump))%Z ->
  let cap := firstn (Z.to_nat n) dump in
  let o := handler_page W dump method mm au sim in
  (mib <= n)%Z /\ n = Z.max m mib /\
  (o = http_error S500 msg_snapshot \/
   (o = Crash nil_deref /\ found_goroutines cap = None /\ has_lf cap = false) \/
   exists gs0 bs,
     gs0 <> [] /\
     found_goroutines cap = Some (name_arguments gs0) /\
     aggregate (we_shuffle W) l (sn_goroutines (finish_snapshot W a (name_arguments gs0))) = Ok bs /\
     o = Reply (S200 l a m)
           (render_page_buckets (handler_env W) (sn_meta (finish_snapshot W a (name_arguments gs0))) bs) /\
     fold_right Nat.add 0 (map (fun b => List.length (IDs b)) bs) = List.length gs0 /\
     (forall i, S i < List.length gs0 -> nth_error gs0 i = nth_error (snapshot_of d) i)).
Proof.
  intros W v d trailing method mm au sim m a l buflen n G M1 A1 SI OV Hwf dump Hcap Hlt cap o.
  assert (Hn : (mib <= n)%Z /\ n = Z.max m mib).
  { destruct (capture_spec m (Z.of_nat (List.length dump))) as (bl & n' & E & R1 & R2 & R3 & R4 & R5 & R6 & _).
    - pose proof (maxmem_is_int64 _ _ M1) as Hm. unfold max_int64 in Hm. unfold max_capture_mem. lia.
    - rewrite Hcap in E. injection E as <- <-. lia. }
  split; [exact (proj1 Hn)|]. split; [exact (proj2 Hn)|].
  destruct (valid_request W dump method mm au sim m a G M1 A1) as (cap' & EC & EH).
  unfold captured_bytes in EC. rewrite Hcap in EC. injection EC as <-.
  unfold o. rewrite EH.
  exact (cut_page W v d trailing (Z.to_nat n) m a sim l SI OV Hwf).
Qed.
