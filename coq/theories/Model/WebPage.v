(* Model/WebPage.v — stack/webstack/webstack.go, the WHOLE handler: what
   SnapshotHandler writes for a request, as a function of the request and of
   the goroutine dump of the process.  Definitions only (theorems in
   Proofs/WebPageProofs.v, statements in Properties/C20b.v).

   Model/Web.v has the decision chain with an abstract oracle [scan_fails] and
   the capture loop; here the oracle becomes concrete and the 200 answer gets
   its body:

     SnapshotHandler                                   webstack.go
       method <> "GET"            -> 405               :47-50
       maxmem  (Atoi)             -> 400               :52-59
       augment (Atoi, 0 or 1)     -> 400               :60-70
       c, err := snapshot(maxmem, opts); err != nil -> 500      :71-75
       similarity                 -> 400               :77-90
       c.Aggregate(s).ToHTML(w, "")                    :92-93
     snapshot                                          :98-127
       grow-and-retry runtime.Stack   = Web.capture     :102-120
       ScanSnapshot(bytes.NewReader(buf), io.Discard, opts)     :121
       err == io.EOF  ->  nil                          :123-125

   INPUTS
   [dump]   the bytes runtime.Stack(buf, true) would write into an unbounded
            buffer.  runtime.Stack truncates bytewise, so a buffer of length L
            receives  firstn L dump.  The dump is taken to be the same at every
            round of the retry loop (only its LENGTH matters for the rounds
            before the last one).
   [web_env] what the handler reads from the process and the machine:
     we_goroot, we_gopaths   stack.DefaultOpts(): runtime.GOROOT(), getGOPATHs()
     we_fs                   the disk as seen by guessPaths (Model/Paths.v)
     we_augment              ORACLE: cacheAST.augmentGoroutine (context.go:245),
                             the per-goroutine effect of Snapshot.augment().  It
                             mutates the goroutines IN PLACE, hence a map over
                             the list: the number of goroutines cannot change.
                             Its error is dropped (context.go:201  _ = s.augment()).
     we_shuffle              ORACLE: iteration order of the map inside Aggregate
                             (Model/Bucket.v; C06: the buckets do not depend on it)
     we_page                 runtime.Version(), time.Now(), GOMAXPROCS (Model/HtmlPage.v);
                             its footer field is IGNORED: the handler passes "".

   OPTIONS  DefaultOpts(): NameArguments, GuessPaths, AnalyzeSources all true;
   augment=0 clears AnalyzeSources only.  So ScanSnapshot runs nameArguments,
   then guessPaths, then (augment) augment().  Opts.isValid (context.go:78)
   rejects a LocalGOROOT / LocalGOPATH containing a backslash: ScanSnapshot
   then returns errors.New("invalid Opts"), which is not io.EOF -> 500.

   THE READER  bytes.Reader.Read(p) copies min(len p, remaining) bytes and
   returns a nil error; once exhausted it returns (0, io.EOF).  In the
   vocabulary of Model/Reader.v: every schedule step is (buf_cap, false)
   (as much as fits, the error never comes with data), terminal error EOF.
   One step per byte is more than is ever consumed.  (C09: any other
   stall-free schedule gives the same snapshot and error.)

   OUTCOMES  [Reply st body]: status and body written.  http.Error writes its
   message followed by LF.  [Crash m]: the handler panics (net/http recovers,
   logs and closes the connection: no status line).  The one reachable crash:
   ScanSnapshot returns a nil *Snapshot when no goroutine was found
   (context.go:207), snapshot() turns io.EOF into nil (webstack.go:123), and
   webstack.go:93 calls c.Aggregate on the nil pointer, whose first statement
   ranges over s.Goroutines (bucket.go:51): nil dereference.  runtime.Stack
   always starts with the header of the calling goroutine, so a live process
   does not get there unless that first line is longer than the buffer.  The
   other Crash values are model artefacts proved unreachable (fuel, aggregate).

   NOT MODELLED  memory exhaustion of make([]byte, l) for a huge maxmem; the
   error of ToHTML (dropped by the handler: `_ =`); response headers. *)
From PP Require Import Base.Bytes Base.BytesX Base.Num Base.GoResult Model.Types Model.Reader Model.Scan
  Model.ScanSnapshot Model.Bucket Model.Paths Model.Html Model.UI Model.HtmlDoc Model.HtmlTpl Model.HtmlPage Model.Web.
From Coq Require Import String.

Record web_env := mkWebEnv {
  we_goroot : bytes;
  we_gopaths : list bytes;
  we_fs : fsys;
  we_augment : Goroutine -> Goroutine;
  we_shuffle : nat -> list nat -> list nat;
  we_page : page_env }.

Inductive response := Reply (st : status) (body : bytes) | Crash (msg : string).

Definition response_status (o : response) : option status :=
  match o with Reply st _ => Some st | Crash _ => None end.

(* http.Error(w, msg, code): the body is msg LF *)
Definition http_error (st : status) (msg : string) : response := Reply st (s2b msg ++ [LF]).
Definition msg_method : string := "invalid method".
Definition msg_maxmem : string := "invalid maxmem value".
Definition msg_augment : string := "invalid augment value".
Definition msg_similarity : string := "invalid similarity value".
Definition msg_snapshot : string := "failed to process the snapshot, try a larger maxmem value".
Definition nil_deref : string := "runtime error: invalid memory address or nil pointer dereference (Aggregate on a nil *Snapshot)".

(* Opts.isValid for DefaultOpts (GuessPaths is on): no backslash in the local roots *)
Definition has_backslash (s : bytes) : bool := existsb (N.eqb 92) s.
Definition opts_valid (W : web_env) : bool :=
  negb (has_backslash (we_goroot W)) && forallb (fun p => negb (has_backslash p)) (we_gopaths W).

(* bytes.NewReader(b) *)
Definition bytes_reader (b : bytes) : source :=
  mkSource b (repeat (buf_cap, false) (List.length b)) EOF.

(* the *Snapshot: metadata and goroutines *)
Record snapshot := mkSnapshot { sn_meta : snap_meta; sn_goroutines : list Goroutine }.

(* the tail of ScanSnapshot (context.go:194-205) after nameArguments:
   guessPaths, then augment() when AnalyzeSources is set *)
Definition finish_snapshot (W : web_env) (augment : bool) (gs : list Goroutine) : snapshot :=
  let r := guess_paths (we_fs W) (we_goroot W) (we_gopaths W) gs in
  mkSnapshot
    (mkSnapMeta (we_goroot W) (we_gopaths W) (remote_goroot (fst r)) (remote_gopaths (fst r)) (local_gomods (fst r)))
    (if augment then map (we_augment W) (snd r) else snd r).

(* snapshot(): "err != nil" after io.EOF was turned into nil *)
Definition snapshot_err (e : go_err) : bool :=
  match e with ENil => false | EIo EOF => false | _ => true end.

(* ScanSnapshot(bytes.NewReader(buf), io.Discard, opts) and the error rule of snapshot():
   (the *Snapshot or nil, err != nil) *)
Definition scan_captured (W : web_env) (augment : bool) (captured : bytes) : GoResult (option snapshot * bool) :=
  if negb (opts_valid W) then Ok (None, true) else
  match scan_snapshot true (bytes_reader captured) with
  | Panic m => Panic m
  | Ok res => Ok (option_map (finish_snapshot W augment) (snap res), snapshot_err (rerr_out res))
  end.

(* the page environment of the handler: footer "" *)
Definition handler_env (W : web_env) : page_env :=
  mkPageEnv (pe_ver (we_page W)) (pe_now (we_page W)) (pe_maxprocs (we_page W)) [].

(* webstack.go:71-93, given the bytes left in buf by the capture loop *)
Definition respond_captured (W : web_env) (captured : bytes) (maxmem : Z) (augment : bool) (similarity_s : bytes)
  : response :=
  match scan_captured W augment captured with
  | Panic m => Crash m
  | Ok (c, failed) =>
      if failed then http_error S500 msg_snapshot else
      match parse_similarity similarity_s with
      | None => http_error S400 msg_similarity
      | Some lvl =>
          match c with
          | None => Crash nil_deref
          | Some sn =>
              match aggregate (we_shuffle W) lvl (sn_goroutines sn) with
              | Panic m => Crash m
              | Ok bs => Reply (S200 lvl augment maxmem) (render_page_buckets (handler_env W) (sn_meta sn) bs)
              end
          end
      end
  end.

(* what the retry loop leaves in buf: buf[:n] when n < len(buf), else the full buffer (n = len(buf)) *)
Definition captured_bytes (maxmem : Z) (dump : bytes) : option bytes :=
  match capture maxmem (Z.of_nat (List.length dump)) with
  | Some (_, n) => Some (firstn (Z.to_nat n) dump)
  | None => None
  end.

(* SnapshotHandler *)
Definition handler_page (W : web_env) (dump : bytes) (method maxmem_s augment_s similarity_s : bytes) : response :=
  if negb (beq method (s2b "GET")) then http_error S405 msg_method else
  let mm := match maxmem_s with [] => Some 67108864%Z | _ => atoi maxmem_s end in
  match mm with
  | None => http_error S400 msg_maxmem
  | Some maxmem =>
      let au := match augment_s with
                | [] => Some true
                | _ => match atoi augment_s with
                       | Some 0%Z => Some false
                       | Some 1%Z => Some true
                       | _ => None
                       end
                end in
      match au with
      | None => http_error S400 msg_augment
      | Some augment =>
          match captured_bytes maxmem dump with
          | None => Crash "model: capture out of fuel"
          | Some captured => respond_captured W captured maxmem augment similarity_s
          end
      end
  end.

(* the oracle of Web.handler, concretely: does snapshot(maxmem, opts) return an error? *)
Definition scan_fails_concrete (W : web_env) (dump : bytes) (maxmem : Z) (augment : bool) : bool :=
  match captured_bytes maxmem dump with
  | None => false
  | Some captured =>
      match scan_captured W augment captured with
      | Ok (_, failed) => failed
      | Panic _ => false
      end
  end.

(* the goroutines ScanSnapshot finds in the captured bytes (None: nil *Snapshot) *)
Definition found_goroutines (captured : bytes) : option (list Goroutine) :=
  match scan_snapshot true (bytes_reader captured) with
  | Ok res => snap res
  | Panic _ => None
  end.
