// Generators of goroutine dumps and race reports as ASTs, an independent
// printer following runtime/traceback.go and tsan's Go report printer, and
// the snapshot each AST denotes (computed without any parser code).
package main

import (
	"fmt"
	"math/rand"
	"strconv"
	"strings"
	"unicode"
	"unicode/utf8"

	"github.com/maruel/panicparse/v2/stack"
)

type dArg struct {
	Agg          bool
	Fields       []dArg
	FieldsElided bool
	TooLarge     bool
	V            uint64
	Inacc        bool
	Dec          bool // printed in decimal instead of hex
}

type dSym struct {
	Pkg  string // unescaped package path; "" for a bare (C) symbol
	Name string
}

type dFrame struct {
	Sym        dSym
	Args       []dArg
	ArgsElided bool
	File       string
	Line       int
	Off        string // "" or " +0x1b"
	Regs       string // "" or " fp=0x.. sp=0x..[ pc=0x..]"
}

type dCreator struct {
	Sym  dSym
	GID  int // -1: no " in goroutine N"
	File string
	Line int
	Off  string
}

type dGoroutine struct {
	ID          int
	State       string
	Minutes     int
	Locked      bool
	Annot       string // "" or " gp=0x.. m=3 mp=0x.."
	Unavailable bool
	Frames      []dFrame
	ElideAfter  int // -1 none; else marker printed after frame index
	ElideNew    int // 0: old wording; n>0: go1.21 wording with count n
	Creator     *dCreator
}

type dVariant struct {
	Indent       string
	CRLF         bool
	FileIndent   string
	BlankIndents bool
}

// pathToPrefix is cmd/internal/objabi.PathToPrefix.
func pathToPrefix(s string) string {
	slash := strings.LastIndex(s, "/")
	const hexd = "0123456789abcdef"
	p := make([]byte, 0, len(s)+8)
	for r := 0; r < len(s); r++ {
		if c := s[r]; c <= ' ' || (c == '.' && r > slash) || c == '%' || c == '"' || c >= 0x7F {
			p = append(p, '%', hexd[c>>4], hexd[c&0xF])
		} else {
			p = append(p, c)
		}
	}
	return string(p)
}

func (s dSym) raw() string {
	if s.Pkg == "" {
		return s.Name
	}
	return pathToPrefix(s.Pkg) + "." + s.Name
}

func printArgs(b *strings.Builder, args []dArg, elided bool) {
	for i, a := range args {
		if i != 0 {
			b.WriteString(", ")
		}
		switch {
		case a.Agg:
			b.WriteByte('{')
			printArgs(b, a.Fields, a.FieldsElided)
			b.WriteByte('}')
		case a.TooLarge:
			b.WriteByte('_')
		default:
			if a.Dec {
				b.WriteString(strconv.FormatUint(a.V, 10))
			} else {
				b.WriteString("0x" + strconv.FormatUint(a.V, 16))
			}
			if a.Inacc {
				b.WriteByte('?')
			}
		}
	}
	if elided {
		if len(args) != 0 {
			b.WriteString(", ")
		}
		b.WriteString("...")
	}
}

func (v dVariant) eol() string {
	if v.CRLF {
		return "\r\n"
	}
	return "\n"
}

// lines of one goroutine, without indentation and EOL; "" is the blank line
func (g *dGoroutine) lines(v dVariant) []string {
	var out []string
	h := "goroutine " + strconv.Itoa(g.ID) + g.Annot + " [" + g.State
	if g.Minutes != 0 {
		h += ", " + strconv.Itoa(g.Minutes) + " minutes"
	}
	if g.Locked {
		h += ", locked to thread"
	}
	out = append(out, h+"]:")
	if g.Unavailable {
		out = append(out, v.FileIndent+"goroutine running on other thread; stack unavailable")
	}
	for i, f := range g.Frames {
		var b strings.Builder
		b.WriteString(f.Sym.raw())
		b.WriteByte('(')
		printArgs(&b, f.Args, f.ArgsElided)
		b.WriteByte(')')
		out = append(out, b.String())
		out = append(out, v.FileIndent+f.File+":"+strconv.Itoa(f.Line)+f.Off+f.Regs)
		if g.ElideAfter == i {
			if g.ElideNew == 0 {
				out = append(out, "...additional frames elided...")
			} else {
				out = append(out, "..."+strconv.Itoa(g.ElideNew)+" frames elided...")
			}
		}
	}
	if c := g.Creator; c != nil {
		l := "created by " + c.Sym.raw()
		if c.GID >= 0 {
			l += " in goroutine " + strconv.Itoa(c.GID)
		}
		out = append(out, l)
		out = append(out, v.FileIndent+c.File+":"+strconv.Itoa(c.Line)+c.Off)
	}
	return out
}

// printDump renders goroutines separated by one blank line; trailingBlank
// adds the blank line the runtime prints after the last goroutine.
func printDump(gs []dGoroutine, v dVariant, trailingBlank bool) string {
	var b strings.Builder
	blank := func() {
		if v.BlankIndents {
			b.WriteString(v.Indent)
		}
		b.WriteString(v.eol())
	}
	for i := range gs {
		if i != 0 {
			blank()
		}
		for _, l := range gs[i].lines(v) {
			b.WriteString(v.Indent)
			b.WriteString(l)
			b.WriteString(v.eol())
		}
	}
	if trailingBlank {
		blank()
	}
	return b.String()
}

// ---- the snapshot an AST denotes ----

func expArgs(args []dArg, elided bool) stack.Args {
	out := stack.Args{Elided: elided}
	for _, a := range args {
		switch {
		case a.Agg:
			out.Values = append(out.Values, stack.Arg{IsAggregate: true, Fields: expArgs(a.Fields, a.FieldsElided)})
		case a.TooLarge:
			out.Values = append(out.Values, stack.Arg{IsOffsetTooLarge: true})
		default:
			out.Values = append(out.Values, stack.Arg{Value: a.V, IsPtr: a.V > 512*1024 && a.V < (1<<63-1), IsInaccurate: a.Inacc})
		}
	}
	return out
}

func expFunc(s dSym, suffix string) stack.Func {
	f := stack.Func{Name: s.Name}
	if s.Pkg == "" {
		// bare symbol: everything before the first dot (if any) is the package
		f.Complete = s.Name + suffix
		if i := strings.IndexByte(s.Name, '.'); i >= 0 {
			f.ImportPath = s.Name[:i]
			f.Name = s.Name[i+1:]
		}
	} else {
		f.Complete = s.Pkg + "." + s.Name + suffix
		f.ImportPath = s.Pkg
	}
	f.DirName = f.ImportPath
	if i := strings.LastIndexByte(f.DirName, '/'); i >= 0 {
		f.DirName = f.DirName[i+1:]
	}
	if f.ImportPath == "main" {
		f.IsPkgMain = true
		f.IsExported = f.Name == "main"
	} else {
		last := f.Name
		if i := strings.LastIndexByte(last, '.'); i >= 0 {
			last = last[i+1:]
		}
		r, _ := utf8.DecodeRuneInString(last)
		f.IsExported = unicode.ToUpper(r) == r
	}
	return f
}

func expCall(fn stack.Func, args stack.Args, file string, line int) stack.Call {
	c := stack.Call{Func: fn, Args: args, RemoteSrcPath: file, Line: line, ImportPath: fn.ImportPath}
	if i := strings.LastIndexByte(file, '/'); i >= 0 {
		c.SrcName = file[i+1:]
		if j := strings.LastIndexByte(file[:i], '/'); j >= 0 {
			c.DirSrc = file[j+1:]
		}
	}
	if c.DirSrc == "_test/_testmain.go" {
		c.Location = stack.Stdlib
	}
	return c
}

func expGoroutines(gs []dGoroutine) []*stack.Goroutine {
	var out []*stack.Goroutine
	for i := range gs {
		g := &gs[i]
		e := &stack.Goroutine{ID: g.ID, First: i == 0}
		e.State, e.SleepMin, e.SleepMax, e.Locked = g.State, g.Minutes, g.Minutes, g.Locked
		if g.Unavailable {
			e.Stack.Calls = []stack.Call{{RemoteSrcPath: "<unavailable>"}}
		}
		for _, f := range g.Frames {
			e.Stack.Calls = append(e.Stack.Calls, expCall(expFunc(f.Sym, ""), expArgs(f.Args, f.ArgsElided), f.File, f.Line))
		}
		e.Stack.Elided = g.ElideAfter >= 0
		if c := g.Creator; c != nil {
			sfx := ""
			if c.GID >= 0 {
				sfx = " in goroutine " + strconv.Itoa(c.GID)
			}
			e.CreatedBy.Calls = []stack.Call{expCall(expFunc(c.Sym, sfx), stack.Args{}, c.File, c.Line)}
		}
		out = append(out, e)
	}
	return out
}

// ---- universes ----

var waitReasons = []string{
	"running", "runnable", "syscall", "waiting", "dead", "copystack", "preempted", "idle",
	"GC assist marking", "IO wait", "chan receive (nil chan)", "chan send (nil chan)", "dumping heap",
	"garbage collection", "garbage collection scan", "panicwait", "select", "select (no cases)",
	"GC assist wait", "GC sweep wait", "GC scavenge wait", "chan receive", "chan send", "finalizer wait",
	"force gc (idle)", "semacquire", "sleep", "sync.Cond.Wait", "sync.Mutex.Lock", "sync.RWMutex.RLock",
	"sync.RWMutex.Lock", "sync.WaitGroup.Wait", "trace reader (blocked)", "wait for GC cycle", "GC worker (idle)",
	"GC worker (active)", "preempted", "debug call", "GC mark termination", "stopping the world",
	"flushing proc caches", "trace goroutine status", "trace proc status", "page trace flush", "coroutine",
	"running (scan)", "runnable (scan)", "chan receive (scan)", "GC weak to strong wait", "synctest",
}

var pkgUniverse = []string{
	"main", "main", "runtime", "fmt", "sync", "net/http", "internal/poll", "github.com/x/y", "gopkg.in/yaml.v2",
	"github.com/foo/c++lib", "example.com/a b/c", "example.com/ünï/cødé", "golang.org/x/sys/unix", "k8s.io/client-go/tools/cache",
	"github.com/a/b%c", "example.com/q\"uote", "github.com/x/y.v3/sub.pkg", "go.uber.org/zap",
}

var nameUniverse = []string{
	"main", "foo", "Foo", "(*T).Method", "(*T).method", "T.Value", "main.func1", "main.func1.2", "init.0", "glob..func1",
	"F[...]", "(*G[...]).Do", "_Cfunc_puts", "Ünï", "ünï", "(*Client).do.func2.1", "gopark", "goexit", "Println", "Ping·1",
}

var bareUniverse = []string{"foo", "_cgo_sys_thread_start", "runtime.cgocall", "x_cgo_thread_start"}

var fileDirs = []string{
	"/home/u/src/proj", "/usr/local/go/src/runtime", "/usr/local/go/src/net/http", "/gopath/src/github.com/x/y",
	"/gopath/pkg/mod/example.com/mod@v1.2.3/pkg", "C:/Users/me/go/src/app", "/tmp/with space/dir", "/a", "",
	"/go/src/pkg/_test", "/x.go.d/y.c.d", "/ünï/cødé",
}
var fileNames = []string{"main.go", "proc.go", "asm_amd64.s", "cgo.c", "a b.go", "x.y.go", "_testmain.go", "z.go", "ü.go", "server.go"}

type dgen struct{ r *rand.Rand }

func (g dgen) pick(l []string) string { return l[g.r.Intn(len(l))] }

func (g dgen) value() uint64 {
	r := g.r
	switch r.Intn(8) {
	case 0:
		return uint64(r.Intn(10))
	case 1:
		return []uint64{512 * 1024, 512*1024 + 1, 512*1024 - 1, 1<<63 - 1, 1<<63 - 2, 1 << 63, 1<<64 - 1, 0}[r.Intn(8)]
	case 2, 3:
		return 0xc000000000 + uint64(r.Intn(64))*8
	case 4:
		return r.Uint64()
	default:
		return uint64(r.Intn(1 << 20))
	}
}

func (g dgen) args(depth int) ([]dArg, bool) {
	r := g.r
	n := r.Intn(5)
	if depth == 0 && r.Intn(3) == 0 {
		n = 0
	}
	var out []dArg
	for i := 0; i < n; i++ {
		switch {
		case depth < 5 && r.Intn(6) == 0:
			f, el := g.args(depth + 1)
			out = append(out, dArg{Agg: true, Fields: f, FieldsElided: el})
		case r.Intn(12) == 0:
			out = append(out, dArg{TooLarge: true})
		default:
			out = append(out, dArg{V: g.value(), Inacc: r.Intn(8) == 0, Dec: r.Intn(15) == 0})
		}
	}
	return out, r.Intn(8) == 0
}

func (g dgen) sym() dSym {
	if g.r.Intn(15) == 0 {
		return dSym{Name: g.pick(bareUniverse)}
	}
	return dSym{Pkg: g.pick(pkgUniverse), Name: g.pick(nameUniverse)}
}

func (g dgen) file() string {
	switch g.r.Intn(20) {
	case 0:
		return "??"
	case 1:
		return "<autogenerated>"
	case 2:
		return "_test/_testmain.go"
	}
	d := g.pick(fileDirs)
	if d == "" {
		return g.pick(fileNames)
	}
	return d + "/" + g.pick(fileNames)
}

func (g dgen) off() string {
	if g.r.Intn(4) == 0 {
		return ""
	}
	return " +0x" + strconv.FormatUint(uint64(g.r.Intn(1<<16)), 16)
}

func (g dgen) frame() dFrame {
	r := g.r
	a, el := g.args(0)
	f := dFrame{Sym: g.sym(), Args: a, ArgsElided: el, File: g.file(), Line: 1 + r.Intn(5000), Off: g.off()}
	if r.Intn(40) == 0 {
		f.Line = []int{0, 999999999999999999, 100000000000000000}[r.Intn(3)]
	}
	if r.Intn(12) == 0 {
		f.Regs = fmt.Sprintf(" fp=0x%x sp=0x%x", 0xc000100000+r.Intn(4096), 0xc0000ff000+r.Intn(4096))
		if r.Intn(2) == 0 {
			f.Regs += fmt.Sprintf(" pc=0x%x", 0x400000+r.Intn(1<<20))
		}
	}
	return f
}

func (g dgen) goroutine(id int, maxFrames int) dGoroutine {
	r := g.r
	d := dGoroutine{ID: id, State: g.pick(waitReasons), ElideAfter: -1}
	if r.Intn(4) == 0 {
		d.Minutes = 1 + r.Intn(5000)
	}
	d.Locked = r.Intn(6) == 0
	if r.Intn(8) == 0 {
		d.Annot = fmt.Sprintf(" gp=0x%x m=%d", 0xc000002000+r.Intn(1<<16), r.Intn(16))
		if r.Intn(2) == 0 {
			d.Annot = fmt.Sprintf(" gp=0x%x m=nil", 0xc000002000+r.Intn(1<<16))
		} else if r.Intn(2) == 0 {
			d.Annot += fmt.Sprintf(" mp=0x%x", 0xc000050000+r.Intn(1<<16))
		}
	}
	if r.Intn(12) == 0 {
		d.Unavailable = true
	} else {
		n := 1 + r.Intn(4)
		if r.Intn(10) == 0 {
			n = 1 + r.Intn(maxFrames)
		}
		for i := 0; i < n; i++ {
			d.Frames = append(d.Frames, g.frame())
		}
		if r.Intn(8) == 0 {
			d.ElideAfter = r.Intn(n)
			if r.Intn(2) == 0 {
				d.ElideNew = 1 + r.Intn(500)
			}
		}
	}
	if r.Intn(3) != 0 {
		c := &dCreator{Sym: g.sym(), GID: -1, File: g.file(), Line: 1 + r.Intn(3000), Off: g.off()}
		if r.Intn(2) == 0 {
			c.GID = 1 + r.Intn(100)
		}
		d.Creator = c
	}
	return d
}

func (g dgen) variant() dVariant {
	r := g.r
	v := dVariant{FileIndent: "\t"}
	switch r.Intn(6) {
	case 0:
		v.Indent = strings.Repeat(" ", 1+r.Intn(8))
	case 1:
		v.Indent = strings.Repeat("\t", 1+r.Intn(2))
	case 2:
		v.Indent = " \t "[0 : 1+r.Intn(3)]
	}
	v.CRLF = r.Intn(5) == 0
	if r.Intn(4) == 0 {
		v.FileIndent = strings.Repeat(" ", 1+r.Intn(8))
	}
	v.BlankIndents = v.Indent != "" && r.Intn(2) == 0
	return v
}

// fileOKForVariant: a file that starts with a space cannot be told from the
// indentation when file lines are indented with spaces (outside the statement).
func (g dgen) dump(n, maxFrames int) []dGoroutine {
	ids := g.r.Perm(n*3 + 5)
	var gs []dGoroutine
	for i := 0; i < n; i++ {
		id := ids[i] + 1
		if g.r.Intn(50) == 0 {
			id = 100000000000000000 + g.r.Intn(1000)
		}
		gs = append(gs, g.goroutine(id, maxFrames))
	}
	return gs
}

// ---- race reports ----

type dRaceOp struct {
	Write  bool
	Addr   uint64
	GID    int
	Frames []dFrame
}
type dRaceCreation struct {
	GID     int
	Running bool
	Frames  []dFrame
}
type dRace struct {
	Ops       []dRaceOp
	Creations []dRaceCreation
}

func (g dgen) raceFrames(n int) []dFrame {
	var out []dFrame
	for i := 0; i < n; i++ {
		f := g.frame()
		f.Regs = ""
		out = append(out, f)
	}
	return out
}

// raceDepth: mostly short stacks, sometimes deeper than any fixed initial capacity
func raceDepth(r *rand.Rand) int {
	if r.Intn(4) == 0 {
		return 5 + r.Intn(8)
	}
	return 1 + r.Intn(4)
}

func (g dgen) race() dRace {
	r := g.r
	nops := 2
	if r.Intn(3) == 0 {
		nops = 2 + r.Intn(5)
	}
	ids := r.Perm(nops*2 + 3)
	var d dRace
	for i := 0; i < nops; i++ {
		d.Ops = append(d.Ops, dRaceOp{Write: r.Intn(2) == 0, Addr: 0xc000000000 + uint64(r.Intn(1<<20))*8 + 1, GID: ids[i] + 1, Frames: g.raceFrames(raceDepth(r))})
	}
	if r.Intn(10) == 0 {
		d.Ops[r.Intn(nops)].Addr = []uint64{1, 1<<64 - 1, 0xfff}[r.Intn(3)]
	}
	for _, i := range r.Perm(nops) {
		if r.Intn(5) != 0 {
			d.Creations = append(d.Creations, dRaceCreation{GID: d.Ops[i].GID, Running: r.Intn(2) == 0, Frames: g.raceFrames(raceDepth(r))})
		}
	}
	return d
}

func printRaceFrames(b *strings.Builder, fs []dFrame) {
	for _, f := range fs {
		b.WriteString("  " + f.Sym.raw() + "(")
		printArgs(b, f.Args, f.ArgsElided)
		b.WriteString(")\n")
		b.WriteString("      " + f.File + ":" + strconv.Itoa(f.Line) + f.Off + "\n")
	}
}

func printRace(d dRace) string {
	var b strings.Builder
	b.WriteString("==================\nWARNING: DATA RACE\n")
	for i, op := range d.Ops {
		kind := "Read"
		if op.Write {
			kind = "Write"
		}
		if i != 0 {
			kind = "Previous " + strings.ToLower(kind)
		}
		fmt.Fprintf(&b, "%s at 0x%012x by goroutine %d:\n", kind, op.Addr, op.GID)
		printRaceFrames(&b, op.Frames)
		b.WriteString("\n")
	}
	for i, c := range d.Creations {
		st := "finished"
		if c.Running {
			st = "running"
		}
		fmt.Fprintf(&b, "Goroutine %d (%s) created at:\n", c.GID, st)
		printRaceFrames(&b, c.Frames)
		if i != len(d.Creations)-1 {
			b.WriteString("\n")
		}
	}
	b.WriteString("==================\n")
	return b.String()
}

func expRace(d dRace) []*stack.Goroutine {
	var out []*stack.Goroutine
	for i, op := range d.Ops {
		e := &stack.Goroutine{ID: op.GID, First: i == 0, RaceWrite: op.Write, RaceAddr: op.Addr}
		for _, f := range op.Frames {
			e.Stack.Calls = append(e.Stack.Calls, expCall(expFunc(f.Sym, ""), expArgs(f.Args, f.ArgsElided), f.File, f.Line))
		}
		for _, c := range d.Creations {
			if c.GID == op.GID {
				e.State = "finished"
				if c.Running {
					e.State = "running"
				}
				for _, f := range c.Frames {
					e.CreatedBy.Calls = append(e.CreatedBy.Calls, expCall(expFunc(f.Sym, ""), expArgs(f.Args, f.ArgsElided), f.File, f.Line))
				}
			}
		}
		out = append(out, e)
	}
	return out
}
