// op handler (C20): webstack.SnapshotHandler under httptest over parameter
// combinations; op live (C20/C01): runtime.Stack(all) dumps of this very
// process under a churn workload, scanned by the implementation and checked
// against an independent header count and a registry of known goroutines.
package main

import (
	"fmt"
	"io"
	"math/rand"
	"net/http/httptest"
	"net/url"
	"regexp"
	"runtime"
	"strconv"
	"strings"
	"sync"
	"time"

	"bytes"
	"github.com/maruel/panicparse/v2/stack"
	"github.com/maruel/panicparse/v2/stack/webstack"
	xhtml "golang.org/x/net/html"
)

var reRoutines = regexp.MustCompile(`Signature #\d+: (\d+) routine`)

// handler id method maxmem augment similarity | status complete
// wantAugmented: is source analysis on for this request (nil error path only)
func wantAugmented(augment string) bool {
	if augment == "\x00" {
		return true
	}
	v, err := strconv.Atoi(augment)
	return err == nil && v == 1
}

// handlerHung: a request did not return; later ones are not attempted
var handlerHung bool

// abortFirst: the next request is preceded by one whose client disconnects mid-page
var abortFirst bool

type failingWriter struct {
	*httptest.ResponseRecorder
	left int
}

func (f *failingWriter) Write(p []byte) (int, error) {
	if len(p) > f.left {
		n := f.left
		f.left = 0
		f.ResponseRecorder.Write(p[:n])
		return n, fmt.Errorf("client went away")
	}
	f.left -= len(p)
	return f.ResponseRecorder.Write(p)
}

func emitHandler(id, method, maxmem, augment, similarity string) {
	emitHandlerBig(id, method, maxmem, augment, similarity, 0)
}

// dlen: the size of this process's dump when it is known to exceed the initial 1 MiB buffer (0 otherwise)
func emitHandlerBig(id, method, maxmem, augment, similarity string, dlen int) {
	q := url.Values{}
	if maxmem != "\x00" {
		q.Set("maxmem", maxmem)
	}
	if augment != "\x00" {
		q.Set("augment", augment)
	}
	if similarity != "\x00" {
		q.Set("similarity", similarity)
	}
	status, complete := 0, "-"
	func() {
		defer func() {
			if e := recover(); e != nil {
				complete = "P"
			}
		}()
		if abortFirst {
			// a client that goes away in the middle of a page: its ResponseWriter fails after a few KiB
			abortFirst = false
			fw := &failingWriter{ResponseRecorder: httptest.NewRecorder(), left: 3000}
			webstack.SnapshotHandler(fw, httptest.NewRequest("GET", "/debug", nil))
		}
		n0 := runtime.NumGoroutine()
		req := httptest.NewRequest(method, "/debug?"+q.Encode(), nil)
		w := httptest.NewRecorder()
		if handlerHung {
			complete = "H"
			return
		}
		// the handler must answer: a request that blocks forever is reported, not waited for
		doneCh := make(chan string, 1)
		go func() {
			defer func() {
				if e := recover(); e != nil {
					doneCh <- "P"
					return
				}
				doneCh <- ""
			}()
			webstack.SnapshotHandler(w, req)
		}()
		select {
		case r := <-doneCh:
			if r == "P" {
				complete = "P"
				return
			}
		case <-time.After(30 * time.Second):
			handlerHung = true
			complete = "H"
			return
		}
		n1 := runtime.NumGoroutine()
		status = w.Code
		if status == 200 {
			complete = "1"
			body := w.Body.Bytes()
			// a well-formed page: tokenises to the end, has the content div and the metadata list
			z := xhtml.NewTokenizer(bytes.NewReader(body))
			h1 := 0
			for {
				tt := z.Next()
				if tt == xhtml.ErrorToken {
					break
				}
				if tt == xhtml.StartTagToken {
					if tn, _ := z.TagName(); string(tn) == "h1" {
						h1++
					}
				}
			}
			sum := 0
			for _, m := range reRoutines.FindAllSubmatch(body, -1) {
				v, _ := strconv.Atoi(string(m[1]))
				sum += v
			}
			if h1 == 0 || !bytes.Contains(body, []byte("GOMAXPROCS")) || sum == 0 {
				complete = "0"
			}
			// one page, from its first byte: nothing of an earlier response in front of it or inside it
			if !bytes.HasPrefix(body, []byte("<!DOCTYPE html>")) || bytes.Count(body, []byte("<!DOCTYPE")) != 1 || bytes.Count(body, []byte(`id="content"`)) != 1 {
				complete = "0"
			}
			// (the goroutine running the handler is part of the dump; a capture cut by maxmem accounts for fewer)
			cutByMaxmem := false
			if mm, err := strconv.Atoi(maxmem); err == nil && dlen > 0 && mm < dlen {
				cutByMaxmem = true
			}
			if n0 == n1 && sum != n0+1 && !cutByMaxmem {
				complete = "0"
			}
			// the parked goroutines of this harness have sources on disk: their arguments are typed iff augment is on
			if has := bytes.Contains(body, []byte("*WaitGroup(")); has != wantAugmented(augment) {
				complete = "A"
			}
		}
	}()
	enc := func(s string) string {
		if s == "\x00" {
			return hexs(nil)
		}
		return hexs([]byte(s))
	}
	emit("handler", id, hexs([]byte(method)), enc(maxmem), enc(augment), enc(similarity), strconv.Itoa(status), complete, strconv.Itoa(dlen))
}

func opHandler(r *rand.Rand, n int, tier string) {
	methods := []string{"GET", "GET", "GET", "GET", "GET", "GET", "GET", "GET", "POST", "HEAD", "PUT", "get"}
	maxmems := []string{"\x00", "1", "2097152", "abc", "-5", "+7", "1_000", "99999999999999999999", " 1", "0x10", "1048576"}
	augments := []string{"\x00", "0", "1", "2", "-1", "x", "+1", "01"}
	sims := []string{"\x00", "exactflags", "exactlines", "anypointer", "anyvalue", "alike", "AnyPointer", " anyvalue"}
	// a few goroutines parked in functions whose sources are on disk
	stop := make(chan int)
	var wg sync.WaitGroup
	wg.Add(3)
	// the same line of one generic function, instantiated with differently shaped type arguments: the runtime prints
	// both as parkGeneric[...] with an aggregate resp. a scalar argument (the aggregate one comes first in the dump)
	wg.Add(2)
	launchGeneric(stop, struct{ a, b uintptr }{1, 2}, &wg)
	time.Sleep(time.Millisecond)
	launchGeneric(stop, uintptr(3), &wg)
	for k := 0; k < 3; k++ {
		// (a multi-line function: for a one-line function the frame's line starts at the declaration itself
		//  and the source analysis finds no enclosing function)
		go parkSelect(stop, stop, &wg)
	}
	wg.Wait()
	time.Sleep(2 * time.Millisecond)
	for i := 0; i < n; i++ {
		abortFirst = r.Intn(5) == 0
		emitHandler(fmt.Sprintf("handler-%d", i), methods[r.Intn(len(methods))], maxmems[r.Intn(len(maxmems))], augments[r.Intn(len(augments))], sims[r.Intn(len(sims))])
	}
	// a process whose dump exceeds the initial 1 MiB buffer: the grow-and-retry capture
	big := 6000
	var wg2 sync.WaitGroup
	wg2.Add(big)
	for k := 0; k < big; k++ {
		go parkRecv(stop, &wg2)
	}
	wg2.Wait()
	time.Sleep(20 * time.Millisecond)
	buf := make([]byte, 64<<20)
	dlen := runtime.Stack(buf, true)
	buf = nil
	for k, mm := range []int{dlen + 4096, dlen + 200000, 2 << 20, 3<<20 + 12345, 64 << 20} {
		if mm > dlen {
			emitHandlerBig(fmt.Sprintf("handler-big-%d", k), "GET", strconv.Itoa(mm), "0", "anyvalue", dlen)
		}
	}
	// a buffer limit below the size of the dump: the capture is cut (possibly mid-line: a legitimate 500),
	// and the handler must keep answering afterwards
	for k, mm := range []int{1<<20 + 1, 1<<20 + 4097, 1<<20 + 77777, dlen - 10, dlen - 1} {
		if mm >= 1<<20 && mm < dlen {
			emitHandlerBig(fmt.Sprintf("handler-cut-%d", k), "GET", strconv.Itoa(mm), "0", "anyvalue", dlen)
			emitHandlerBig(fmt.Sprintf("handler-after-cut-%d", k), "GET", strconv.Itoa(dlen+4096), "0", "anypointer", dlen)
		}
	}
	close(stop)
	time.Sleep(50 * time.Millisecond)
}

func init() {
	replayers["handler"] = func(id string, in []string) {
		dec := func(s string) string {
			b := unhexs(s)
			if len(b) == 0 {
				return "\x00"
			}
			return string(b)
		}
		emitHandler(id, string(unhexs(in[0])), dec(in[1]), dec(in[2]), dec(in[3]))
	}
}

// ---- live ----

var reHeaderLine = regexp.MustCompile(`(?m)^goroutine \d+ `)

// launchGeneric: ONE go statement for every instantiation (same creator line)
//
//go:noinline
func launchGeneric[T any](c chan int, v T, wg *sync.WaitGroup) { go parkGeneric(c, v, wg) }

//go:noinline
func parkGeneric[T any](c chan int, v T, wg *sync.WaitGroup) {
	wg.Done()
	<-c
	_ = v
}

//go:noinline
func parkRecv(c chan int, wg *sync.WaitGroup) { wg.Done(); <-c }

//go:noinline
func parkSelect(a, b chan int, wg *sync.WaitGroup) {
	wg.Done()
	select {
	case <-a:
	case <-b:
	}
}

//go:noinline
func parkMutex(m *sync.Mutex, wg *sync.WaitGroup) { wg.Done(); m.Lock(); m.Unlock() }

//go:noinline
func parkSleep(wg *sync.WaitGroup, stop chan int) {
	wg.Done()
	for {
		select {
		case <-stop:
			return
		default:
			time.Sleep(time.Hour)
		}
	}
}

//go:noinline
func parkLocked(c chan int, wg *sync.WaitGroup) {
	runtime.LockOSThread()
	wg.Done()
	<-c
}

//go:noinline
func deep(n int, c chan int, wg *sync.WaitGroup) {
	if n == 0 {
		wg.Done()
		<-c
		return
	}
	deep(n-1, c, wg)
}

func opLive(r *rand.Rand, n int, tier string) {
	sleepers := 0 // a goroutine in time.Sleep cannot be woken: they accumulate over the cases
	for i := 0; i < n; i++ {
		stop := make(chan int)
		var wg sync.WaitGroup
		var mu sync.Mutex
		mu.Lock()
		nRecv, nSel, nMu, nSleep, nLocked, nDeep := r.Intn(5), r.Intn(4), r.Intn(3), r.Intn(3), r.Intn(2), r.Intn(2)
		depth := 5 + r.Intn(150)
		wg.Add(nRecv + nSel + nMu + nSleep + nLocked + nDeep)
		if i%2 == 0 {
			// one generic function parked on the same line under two instantiations of different argument shape
			wg.Add(2)
			launchGeneric(stop, struct{ a, b uintptr }{1, 2}, &wg)
			launchGeneric(stop, uintptr(3), &wg)
		}
		for k := 0; k < nRecv; k++ {
			go parkRecv(stop, &wg)
		}
		for k := 0; k < nSel; k++ {
			go parkSelect(stop, stop, &wg)
		}
		for k := 0; k < nMu; k++ {
			go parkMutex(&mu, &wg)
		}
		for k := 0; k < nSleep; k++ {
			go parkSleep(&wg, stop)
		}
		for k := 0; k < nLocked; k++ {
			go parkLocked(stop, &wg)
		}
		for k := 0; k < nDeep; k++ {
			go deep(depth, stop, &wg)
		}
		// churn: short-lived goroutines being created and exiting while the dump is taken
		churnStop := make(chan int)
		go func() {
			for {
				select {
				case <-churnStop:
					return
				default:
					go func() { runtime.Gosched() }()
					time.Sleep(20 * time.Microsecond) // bounded churn: the dump must still fit the buffer
				}
			}
		}()
		wg.Wait()
		time.Sleep(2 * time.Millisecond) // let them park
		buf := make([]byte, 4<<20)
		buf = buf[:runtime.Stack(buf, true)]
		close(churnStop)
		headers := len(reHeaderLine.FindAllIndex(buf, -1))
		sleepers += nSleep
		reg := fmt.Sprintf("parkRecv:%d,parkSelect:%d,parkMutex:%d,parkSleep:%d,parkLocked:%d,deep:%d", nRecv, nSel, nMu, sleepers, nLocked, nDeep)
		emitScan(fmt.Sprintf("live-%d", i), buf, genSched(r, len(buf)), "eof", r.Intn(2) == 0, "live", strconv.Itoa(headers), reg)
		// ... and what the handler does next with such a snapshot: aggregation at a level of the request's choosing
		if s, _, _ := stack.ScanSnapshot(bytes.NewReader(buf), io.Discard, &stack.Opts{}); s != nil {
			emitAggregate(fmt.Sprintf("live-agg-%d", i), s.Goroutines, levels[r.Intn(4)])
		}
		close(stop)
		mu.Unlock()
		time.Sleep(time.Millisecond)
	}
	_ = strings.TrimSpace
}
