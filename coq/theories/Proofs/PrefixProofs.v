(* Proofs/PrefixProofs.v — C07 (delimitation and resumable scanning) and C10
   (truncation / read-failure tolerance).  Everything is derived from the
   characterisation of ScanSnapshot as a fold of scan over the lines of the
   input (Proofs/PrefixBase.snapshot_lines), valid for every stall-free
   delivery schedule. *)
From PP Require Import Base.Bytes Base.BytesX Base.GoResult Model.Types Model.Lines Model.Reader Model.FuncInit Model.Scan Model.Names Model.ScanSnapshot Model.ScanSeq.
From PP Require Import Proofs.ReaderBase Proofs.ScanErrShape Proofs.ReaderProofs Proofs.ScanInv Proofs.LoopBase Proofs.LoopProofs.
From PP Require Import Spec.ReaderSpec Spec.LoopSpec Spec.SeqSpec Proofs.PrefixBase Proofs.PrefixFrame.
From Coq Require Import String.

(* ------------------------------------------------------------------ *)
(* 0. helpers                                                           *)

Lemma snapshot_lines_inv na B sc f res : stall_free sc ->
  scan_snapshot na (mkSource B sc f) = Ok res ->
  exists lr, run_lines f ss0 [] 0 (lines B) = Ok lr /\ agrees na res lr /\ Inv (lr_ss lr) /\
    (is_eio (rerr_out res) = true -> rest (unread res) = []).
Proof.
  intros Hsf H. destruct (snapshot_lines na B sc f Hsf) as (res' & lr & H1 & H2).
  rewrite H in H1. injection H1 as <-. exists lr. exact H2.
Qed.

Lemma lines_nil b : lines b = [] -> b = [].
Proof. intros H. rewrite <- (concat_lines b), H. reflexivity. Qed.

Lemma concat_length_lt (hd rm : list bytes) :
  hd <> [] -> (forall d, In d hd -> d <> []) ->
  List.length (List.concat rm) < List.length (List.concat (hd ++ rm)).
Proof.
  intros Hne Hd. destruct hd as [|d hd]; [contradiction|].
  cbn [app List.concat]. rewrite app_length, concat_app, app_length.
  assert (d <> []) by (apply Hd; now left). destruct d; [contradiction|cbn [List.length]; lia].
Qed.

(* the first line handed to scan is never rejected *)
Lemma ss0_not_rejects d s' e : ~ rejects ss0 d s' e.
Proof.
  intros (_ & Hscan & Hl).
  destruct (scan_looking ss0 d Inv_ss0 eq_refl) as (s1 & l1 & H1 & Hc).
  rewrite Hscan in H1. injection H1 as <- <- ->.
  destruct Hc as [(_ & ->)|[(F & _)|(F & _)]]; try discriminate F.
  discriminate Hl.
Qed.

(* ------------------------------------------------------------------ *)
(* 1. C07 B1: where the handled region ends                             *)

Theorem ends_at_first_non_continuing : forall na B sc f res,
  stall_free sc ->
  scan_snapshot na (mkSource B sc f) = Ok res ->
  exists hd rm sh,
    lines B = hd ++ rm /\
    Handled ss0 [] hd sh (fwd res) /\
    suffix res ++ rest (unread res) = List.concat rm /\
    ((st sh = done /\ snap res = snap_of na (goroutines sh) /\ final_state res = done /\
      rerr_out res = ENil /\ lines_read res = List.length hd) \/
     (rm = [] /\ snap res = snap_of na (goroutines sh) /\ final_state res = st sh /\
      rerr_out res = EIo f /\ lines_read res = List.length hd) \/
     (exists d rm' s' e, rm = d :: rm' /\ rejects sh d s' e /\
        snap res = snap_of na (goroutines s') /\ final_state res = st s' /\
        rerr_out res = combine_err (lerr f d) e /\ lines_read res = S (List.length hd))).
Proof.
  intros na B sc f res Hsf H.
  destruct (snapshot_lines_inv _ _ _ _ _ Hsf H) as (lr & Hrun & (A1 & A2 & A3 & A4 & A5 & A6) & _ & _).
  destruct (run_lines_char f _ _ _ _ _ Inv_ss0 (lines_abl B) Hrun) as (hd & sh & C1 & C2 & C3).
  exists hd, (lr_rem lr), sh. rewrite A2. split; [exact C2|]. split; [exact C1|]. split; [exact A3|].
  rewrite A1, A4, A5, A6.
  destruct C3 as [(D1 & D2 & D3 & D4)|[(D1 & D2 & D3 & D4)|(d & rm & e & D1 & D2 & D3 & D4)]].
  - left. rewrite D2. tauto.
  - right. left. rewrite D2. tauto.
  - right. right. exists d, rm, (lr_ss lr), e. tauto.
Qed.

(* ------------------------------------------------------------------ *)
(* 2. C07 B2: progress, and the totality of the resume protocol         *)

Theorem progress_strong : forall na B sc f res,
  stall_free sc ->
  scan_snapshot na (mkSource B sc f) = Ok res ->
  B <> [] \/ is_eio (rerr_out res) = false ->
  List.length (suffix res ++ rest (unread res)) < List.length B.
Proof.
  intros na B sc f res Hsf H Hor.
  destruct (ends_at_first_non_continuing _ _ _ _ _ Hsf H) as (hd & rm & sh & E1 & E2 & E3 & E4).
  rewrite E3, <- (concat_lines B), E1.
  apply concat_length_lt.
  - intros ->. inversion E2. subst.
    destruct E4 as [(D1 & _)|[(D1 & _ & _ & D4 & _)|(d & rm' & s' & e & _ & D2 & _)]].
    + discriminate D1.
    + subst rm. cbn [app] in E1. apply lines_nil in E1. rewrite D4 in Hor.
      destruct Hor as [F|F]; [contradiction|discriminate F].
    + exact (ss0_not_rejects _ _ _ D2).
  - intros d Hin. apply (lines_ne_nil B). rewrite E1. apply in_or_app. now left.
Qed.

Theorem progress : forall na B sc f res,
  stall_free sc ->
  scan_snapshot na (mkSource B sc f) = Ok res ->
  rerr_out res = ENil ->
  List.length (suffix res ++ rest (unread res)) < List.length B.
Proof.
  intros na B sc f res Hsf H He. apply (progress_strong _ _ _ _ _ Hsf H). right. now rewrite He.
Qed.

Lemma scan_seq_S n B f :
  scan_seq (S n) B f =
  match scan_snapshot false (mkSource B [] f) with
  | Panic m => Panic m
  | Ok res =>
      let item := (snap res, fwd res, rerr_out res) in
      match rerr_out res with
      | EIo _ => Ok ([item], suffix res)
      | _ =>
          match scan_seq n (suffix res ++ rest (unread res)) f with
          | Panic m => Panic m
          | Ok (l, r) => Ok (item :: l, r)
          end
      end
  end.
Proof. reflexivity. Qed.

(* with fuel > length B the iteration ends because the stream ended: its last
   item carries a reader error, no earlier item does, and more fuel changes
   nothing *)
Theorem seq_total_gen : forall n B f, List.length B < n ->
  exists l it r,
    scan_seq n B f = Ok (l ++ [it], r) /\
    is_eio (snd it) = true /\ Forall (fun x => is_eio (snd x) = false) l /\
    forall k, scan_seq (n + k) B f = Ok (l ++ [it], r).
Proof.
  induction n as [|n IH]; intros B f Hlen; [lia|].
  destruct (scan_snapshot_total false (mkSource B [] f)) as (res & Hres).
  assert (Hstep : forall k, scan_seq (S (n + k)) B f =
            match rerr_out res with
            | EIo _ => Ok ([(snap res, fwd res, rerr_out res)], suffix res)
            | _ => match scan_seq (n + k) (suffix res ++ rest (unread res)) f with
                   | Panic m => Panic m
                   | Ok (l, r) => Ok ((snap res, fwd res, rerr_out res) :: l, r)
                   end
            end).
  { intros k. rewrite scan_seq_S, Hres. reflexivity. }
  destruct (is_eio (rerr_out res)) eqn:Heio.
  - exists [], (snap res, fwd res, rerr_out res), (suffix res). cbn [app snd].
    assert (Hk : forall k, scan_seq (S (n + k)) B f = Ok ([(snap res, fwd res, rerr_out res)], suffix res)).
    { intros k. rewrite Hstep. destruct (rerr_out res); try discriminate Heio. reflexivity. }
    split; [rewrite <- (Nat.add_0_r n); apply Hk|]. split; [exact Heio|]. split; [constructor|exact Hk].
  - assert (Hlt : List.length (suffix res ++ rest (unread res)) < n).
    { pose proof (progress_strong false B [] f res I Hres (or_intror Heio)). lia. }
    destruct (IH _ f Hlt) as (l & it & r & I1 & I2 & I3 & I4).
    exists ((snap res, fwd res, rerr_out res) :: l), it, r.
    assert (Hk : forall k, scan_seq (S (n + k)) B f = Ok (((snap res, fwd res, rerr_out res) :: l) ++ [it], r)).
    { intros k. rewrite Hstep, I4. destruct (rerr_out res); try discriminate Heio; reflexivity. }
    split; [rewrite <- (Nat.add_0_r n); apply Hk|]. split; [exact I2|]. split; [|exact Hk].
    constructor; [exact Heio|exact I3].
Qed.

Theorem seq_total : forall B f, exists l r, scan_seq (S (List.length B)) B f = Ok (l, r).
Proof.
  intros B f. destruct (seq_total_gen (S (List.length B)) B f) as (l & it & r & H & _); [lia|].
  eexists. eexists. exact H.
Qed.

Theorem seq_fuel_enough : forall B f k,
  scan_seq (S (List.length B) + k) B f = scan_seq (S (List.length B)) B f.
Proof.
  intros B f k. destruct (seq_total_gen (S (List.length B)) B f) as (l & it & r & H1 & _ & _ & H2); [lia|].
  now rewrite H1, H2.
Qed.

Theorem seq_ends_with_io_error : forall B f l r,
  scan_seq (S (List.length B)) B f = Ok (l, r) ->
  exists l' it x, l = l' ++ [it] /\ snd it = EIo x /\
    Forall (fun y => is_eio (snd y) = false) l'.
Proof.
  intros B f l r H. destruct (seq_total_gen (S (List.length B)) B f) as (l' & it & r' & H1 & H2 & H3 & _); [lia|].
  rewrite H in H1. injection H1 as -> ->. destruct (snd it) as [|x|] eqn:E; try discriminate H2.
  exists l', it, x. tauto.
Qed.

(* ------------------------------------------------------------------ *)
(* 3. C07 B3: the calls of the resume protocol tile the stream          *)

Definition handled_bytes (hl : list (bytes * kind)) : bytes := bytes_of (filter k_handled hl).
Definition fwd_bytes_hl (hl : list (bytes * kind)) : bytes := bytes_of (filter k_fwd hl).
Definition consumed_bytes (hl : list (bytes * kind)) : bytes := bytes_of (filter k_consumed hl).
Definition item_fwd (it : seq_item) : bytes := snd (fst it).

Theorem seq_chain_exists : forall n B f items r,
  scan_seq n B f = Ok (items, r) ->
  exists hls, seq_chain f B hls items r.
Proof.
  induction n as [|n IH]; intros B f items r H.
  - injection H as <- <-. exists []. reflexivity.
  - rewrite scan_seq_S in H.
    destruct (scan_snapshot false (mkSource B [] f)) as [res|m] eqn:Hres; [|discriminate H].
    destruct (conservation _ _ _ _ _ Hres) as (hl & K1 & K2 & _ & K4 & _).
    destruct (snapshot_lines_inv false B [] f res I Hres) as (_ & _ & _ & _ & Hio).
    cbv zeta in H.
    assert (Hone : forall hls items', seq_chain f (suffix res ++ rest (unread res)) hls items' r ->
              seq_chain f B (hl :: hls) ((snap res, fwd res, rerr_out res) :: items') r).
    { intros hls items' Hc. cbn [seq_chain]. exists res. split; [exact Hres|]. split; [reflexivity|].
      split; [exact K1|]. split; [exact K2|]. split; [now rewrite K4|exact Hc]. }
    destruct (is_eio (rerr_out res)) eqn:Heio.
    + assert (E : items = [(snap res, fwd res, rerr_out res)] /\ r = suffix res).
      { destruct (rerr_out res); try discriminate Heio. injection H as <- <-. split; reflexivity. }
      destruct E as [-> ->]. exists [hl]. apply (Hone [] []). cbn [seq_chain].
      rewrite (Hio eq_refl). apply app_nil_r.
    + destruct (scan_seq n (suffix res ++ rest (unread res)) f) as [[l r']|m] eqn:Hrec.
      * assert (E : items = (snap res, fwd res, rerr_out res) :: l /\ r = r').
        { destruct (rerr_out res); try discriminate Heio; injection H as <- <-; split; reflexivity. }
        destruct E as [-> ->]. destruct (IH _ _ _ _ Hrec) as (hls & Hc).
        exists (hl :: hls). now apply Hone.
      * destruct (rerr_out res); try discriminate Heio; discriminate H.
Qed.

Lemma seq_chain_tiles f : forall hls c items r,
  seq_chain f c hls items r ->
  List.concat (map handled_bytes hls) ++ r = c /\
  map item_fwd items = map fwd_bytes_hl hls /\
  List.length (List.concat (map item_fwd items)) +
    List.length (List.concat (map consumed_bytes hls)) + List.length r = List.length c.
Proof.
  induction hls as [|hl hls IH]; intros c items r H; destruct items as [|it items]; cbn [seq_chain] in H;
    try contradiction.
  - subst r. cbn [map List.concat app List.length]. tauto.
  - destruct H as (res & _ & -> & _ & K2 & K4 & Hc).
    destruct (IH _ _ _ Hc) as (I1 & I2 & I3).
    cbn [map List.concat item_fwd fst snd]. split; [|split].
    + rewrite <- app_assoc, I1. now rewrite K4.
    + rewrite I2. unfold fwd_bytes_hl at 1. now rewrite K2.
    + apply (f_equal (@List.length N)) in K4. rewrite app_length in K4.
      pose proof (handled_split hl) as Hs. rewrite <- K2 in Hs.
      unfold consumed_bytes at 1. rewrite !app_length. lia.
Qed.

Theorem seq_conservation : forall n B f items r,
  scan_seq n B f = Ok (items, r) ->
  exists hls,
    seq_chain f B hls items r /\
    List.concat (map handled_bytes hls) ++ r = B /\
    map item_fwd items = map fwd_bytes_hl hls /\
    List.length (List.concat (map item_fwd items)) +
      List.length (List.concat (map consumed_bytes hls)) + List.length r = List.length B.
Proof.
  intros n B f items r H. destruct (seq_chain_exists _ _ _ _ _ H) as (hls & Hc).
  exists hls. split; [exact Hc|]. now apply (seq_chain_tiles f).
Qed.

(* ------------------------------------------------------------------ *)
(* 4. the lines of a concatenation, of a truncation (C10 C2)            *)

Definition all_lf (P : list bytes) : Prop := Forall (fun d => has_lf d = true) P.

Lemma lines_cons_inv b d L : lines b = d :: L ->
  d = first_line b /\ L = lines (skipn (List.length (first_line b)) b) /\ b <> [].
Proof.
  intros H. assert (Hne : b <> []) by (intros ->; discriminate H).
  rewrite (lines_split b _ Hne (first_line_skipn b)) in H. injection H as <- <-. tauto.
Qed.

Lemma lines_prefix_app X : forall P b rest',
  lines b = P ++ rest' -> all_lf P -> lines (List.concat P ++ X) = P ++ lines X.
Proof.
  induction P as [|d P IH]; intros b rest' H Hc; [reflexivity|].
  inversion Hc as [|? ? Hd Hc']. subst. cbn [app] in H.
  destruct (lines_cons_inv _ _ _ H) as (E1 & E2 & Hne).
  rewrite E1, has_lf_first_line in Hd. destruct (has_lf_true _ Hd) as (a & t0 & _ & Hno & Hf).
  cbn [List.concat app]. rewrite E1, Hf, <- !app_assoc. cbn [app].
  rewrite (lines_lf _ _ Hno). f_equal. apply (IH _ _ (eq_sym E2) Hc').
Qed.

Lemma terminated_all_lf b : terminated b <-> all_lf (lines b).
Proof. unfold terminated, all_lf. now rewrite Forall_forall. Qed.

Lemma lines_app_terminated J X : terminated J -> lines (J ++ X) = lines J ++ lines X.
Proof.
  intros Ht. rewrite <- (concat_lines J) at 1.
  apply (lines_prefix_app X (lines J) J []); [now rewrite app_nil_r|now apply terminated_all_lf].
Qed.

Lemma abl_decomp ls : abl ls ->
  all_lf ls \/ exists P t, ls = P ++ [t] /\ all_lf P /\ has_lf t = false.
Proof.
  induction ls as [|d ls IH]; intros H; [left; constructor|].
  destruct H as [H1 H2]. destruct ls as [|d' ls'].
  - destruct (has_lf d) eqn:E.
    + left. constructor; [exact E|constructor].
    + right. exists [], d. split; [reflexivity|]. split; [constructor|exact E].
  - assert (Hd : has_lf d = true) by (apply H1; discriminate).
    destruct (IH H2) as [Ha|(P & t & E & Ha & Ht)].
    + left. now constructor.
    + right. exists (d :: P), t. rewrite E. split; [reflexivity|]. split; [now constructor|exact Ht].
Qed.

Lemma first_line_app_nolf t c : ~ In LF t -> first_line (t ++ c) = t ++ first_line c.
Proof.
  induction t as [|x t IH]; intros H; [reflexivity|].
  cbn [app first_line]. destruct (N.eqb_spec x LF) as [E|E].
  - exfalso. apply H. now left.
  - rewrite IH; [reflexivity|]. intros F. apply H. now right.
Qed.

(* C10 C2: the lines of a truncation are complete lines of the original,
   followed by at most one partial line, a prefix of the next line *)
Theorem lines_firstn : forall B k,
  exists P T rest',
    lines (firstn k B) = P ++ T /\ lines B = P ++ rest' /\ all_lf P /\
    (T = [] \/
     exists t u rest'', T = [t] /\ t <> [] /\ has_lf t = false /\ rest' = (t ++ u) :: rest'' /\
       (k < List.length B -> u <> [])).
Proof.
  intros B k. set (B' := firstn k B). set (C := skipn k B).
  assert (EB : B = B' ++ C) by (symmetry; apply firstn_skipn).
  destruct (abl_decomp _ (lines_abl B')) as [Ha|(P & t & E & Ha & Ht)].
  - exists (lines B'), [], (lines C). rewrite app_nil_r. split; [reflexivity|].
    split; [|split; [exact Ha|now left]].
    rewrite EB. apply lines_app_terminated. now apply terminated_all_lf.
  - assert (Hne : t <> []).
    { apply (lines_ne_nil B'). rewrite E. apply in_or_app. right. now left. }
    destruct (has_lf_false _ Ht) as [Hno _].
    assert (EB' : B' = List.concat P ++ t).
    { rewrite <- (concat_lines B'), E, concat_app. cbn [List.concat]. now rewrite app_nil_r. }
    assert (Hne' : t ++ C <> []) by (destruct t; [contradiction|discriminate]).
    exists P, [t], (lines (t ++ C)). split; [exact E|]. split; [|split; [exact Ha|]].
    + rewrite EB, EB', <- app_assoc. apply (lines_prefix_app _ P B' [t] E Ha).
    + right. exists t, (first_line C), (lines (skipn (List.length (first_line (t ++ C))) (t ++ C))).
      split; [reflexivity|]. split; [exact Hne|]. split; [exact Ht|]. split.
      * rewrite (lines_split _ _ Hne' (first_line_skipn _)). now rewrite first_line_app_nolf.
      * intros Hk. apply first_line_ne. unfold C. intros F.
        apply (f_equal (@List.length N)) in F. rewrite skipn_length in F. cbn [List.length] in F. lia.
Qed.

(* ------------------------------------------------------------------ *)
(* 5. comparing the scan of a stream with the scan of a truncation      *)

Definition with_rem (lr : lrun) (X : list bytes) : lrun :=
  mkLrun (lr_ss lr) (lr_fwd lr) (lr_rem lr ++ X) (lr_err lr) (lr_n lr).

(* on complete lines the terminal error only shows when the lines are exhausted *)
Lemma run_lines_final_indep f f' : forall P s fw n lr,
  all_lf P -> run_lines f s fw n P = Ok lr ->
  run_lines f' s fw n P =
    Ok (mkLrun (lr_ss lr) (lr_fwd lr) (lr_rem lr)
               (if is_eio (lr_err lr) then EIo f' else lr_err lr) (lr_n lr)).
Proof.
  induction P as [|d P IH]; intros s fw n lr Hc H; rewrite run_lines_eq in H; rewrite run_lines_eq.
  - destruct (state_eqb (st s) done); injection H as <-; reflexivity.
  - inversion Hc as [|? ? Hd Hc']. subst.
    destruct (state_eqb (st s) done); [injection H as <-; reflexivity|].
    destruct (scan s d) as [[[s' l] e1]|m]; [|discriminate H]. cbv zeta in *.
    unfold lerr in *. rewrite Hd in *. cbn [combine_err io_is_nil_or_eof] in *.
    destruct l.
    + destruct e1 as [x|]; [injection H as <-; reflexivity|]. now apply IH.
    + destruct (negb (state_eqb (st s') looking)).
      * injection H as <-. destruct e1; reflexivity.
      * destruct e1 as [x|]; [injection H as <-; reflexivity|]. now apply IH.
Qed.

Lemma run_lines_thru f : forall P s fw n lr,
  all_lf P -> run_lines f s fw n P = Ok lr -> is_eio (lr_err lr) = true ->
  scan_lines s P = Ok (lr_ss lr) /\ lr_n lr = n + List.length P /\ lr_rem lr = [].
Proof.
  induction P as [|d P IH]; intros s fw n lr Hc H He; rewrite run_lines_eq in H.
  - destruct (state_eqb (st s) done); injection H as <-; [discriminate He|].
    cbn [scan_lines lr_ss lr_n lr_rem List.length]. now rewrite Nat.add_0_r.
  - inversion Hc as [|? ? Hd Hc']. subst.
    destruct (state_eqb (st s) done); [injection H as <-; discriminate He|].
    cbn [scan_lines]. destruct (scan s d) as [[[s' l] e1]|m]; [|discriminate H]. cbv zeta in *.
    unfold lerr in *. rewrite Hd in *. cbn [combine_err io_is_nil_or_eof] in *.
    assert (Hn : forall k, S n + k = n + S k) by (intros; lia).
    destruct l.
    + destruct e1 as [x|]; [injection H as <-; discriminate He|].
      cbn [List.length]. rewrite <- Hn. now apply (IH _ _ _ _ Hc' H).
    + destruct (negb (state_eqb (st s') looking)).
      * injection H as <-. destruct e1; discriminate He.
      * destruct e1 as [x|]; [injection H as <-; discriminate He|].
        cbn [List.length]. rewrite <- Hn. now apply (IH _ _ _ _ Hc' H).
Qed.

(* the scans of P ++ R and of P ++ T (P complete lines) either both stop inside
   P, with the same outcome, or both reach the end of P in the same state *)
Lemma cut_compare f f' P T R s0 fw0 n0 lr lr' :
  all_lf P -> Inv s0 ->
  run_lines f s0 fw0 n0 (P ++ R) = Ok lr -> run_lines f' s0 fw0 n0 (P ++ T) = Ok lr' ->
  (exists lrP, run_lines f s0 fw0 n0 P = Ok lrP /\ is_eio (lr_err lrP) = false /\
               lr = with_rem lrP R /\ lr' = with_rem lrP T) \/
  (exists s fw, scan_lines s0 P = Ok s /\ Inv s /\
     run_lines f s fw (n0 + List.length P) R = Ok lr /\
     run_lines f' s fw (n0 + List.length P) T = Ok lr').
Proof.
  intros Hc Hinv H H'.
  destruct (run_lines_total f P s0 fw0 n0 Hinv) as (lrP & HP & HiP).
  pose proof (run_lines_final_indep f f' _ _ _ _ _ Hc HP) as HP'.
  rewrite (run_lines_app f R _ _ _ _ _ Hc HP) in H.
  rewrite (run_lines_app f' T _ _ _ _ _ Hc HP') in H'.
  cbn [lr_ss lr_fwd lr_rem lr_err lr_n] in H'.
  destruct (is_eio (lr_err lrP)) eqn:He.
  - right. destruct (run_lines_thru f _ _ _ _ _ Hc HP He) as (T1 & T2 & _).
    cbn [is_eio] in H'. rewrite T2 in H, H'.
    exists (lr_ss lrP), (lr_fwd lrP). tauto.
  - left. exists lrP. rewrite He in H'. injection H as <-. injection H' as <-.
    unfold with_rem. tauto.
Qed.

(* one more step on the partial line *)
Lemma run_lines_one f s fw n t lr : Inv s ->
  run_lines f s fw n [t] = Ok lr ->
  lr_fwd lr = fw \/ (lr_fwd lr = fw ++ t /\ (st s = looking \/ st s = gotRaceHeader1)).
Proof.
  intros Hinv H. rewrite run_lines_eq in H.
  destruct (state_eqb (st s) done); [injection H as <-; now left|].
  destruct (scan_post s t Hinv) as (s' & l & e1 & Hscan & HPost). rewrite Hscan in H. cbv zeta in H.
  assert (Hnil : forall s1 fw1 n1 lr1, run_lines f s1 fw1 n1 [] = Ok lr1 -> lr_fwd lr1 = fw1).
  { intros s1 fw1 n1 lr1 H1. rewrite run_lines_eq in H1. destruct (state_eqb (st s1) done); injection H1 as <-; reflexivity. }
  destruct l.
  - left. destruct (combine_err (lerr f t) e1); try (injection H as <-; reflexivity). apply (Hnil _ _ _ _ H).
  - destruct (state_eqb (st s') looking) eqn:Hlook; cbn [negb] in H; [|injection H as <-; now left].
    right. split.
    + destruct (combine_err (lerr f t) e1); try (injection H as <-; reflexivity). apply (Hnil _ _ _ _ H).
    + apply state_eqb_true in Hlook.
      assert (He1 : e1 = None).
      { destruct e1 as [x|]; [|reflexivity]. destruct (scan_error_suffix _ _ _ _ _ Hscan) as [_ F].
        rewrite Hlook in F. discriminate F. }
      destruct HPost as (_ & _ & _ & H4). destruct (H4 eq_refl He1) as [E|[E|[E _]]].
      * left. now rewrite <- E.
      * rewrite Hlook in E. discriminate E.
      * now right.
Qed.

(* C10 C5: the bytes forwarded from a truncation are a prefix of those
   forwarded from the whole stream, except possibly for the partial last
   line, forwarded when the scanner is still looking (finding K2) *)
Theorem fwd_prefix : forall na B k sc sc' f f' res res',
  stall_free sc -> stall_free sc' ->
  scan_snapshot na (mkSource B sc f) = Ok res ->
  scan_snapshot na (mkSource (firstn k B) sc' f') = Ok res' ->
  exists Pf T Y,
    fwd res' = Pf ++ T /\ fwd res = Pf ++ Y /\
    (T = [] \/
     exists P s, lines (firstn k B) = P ++ [T] /\ all_lf P /\ has_lf T = false /\
       scan_lines ss0 P = Ok s /\ (st s = looking \/ st s = gotRaceHeader1)).
Proof.
  intros na B k sc sc' f f' res res' Hsf Hsf' H H'.
  destruct (snapshot_lines_inv _ _ _ _ _ Hsf H) as (lr & Hrun & (_ & A2 & _) & _).
  destruct (snapshot_lines_inv _ _ _ _ _ Hsf' H') as (lr' & Hrun' & (_ & A2' & _) & _).
  destruct (lines_firstn B k) as (P & T & R & E1 & E2 & Hc & HT).
  rewrite E2 in Hrun. rewrite E1 in Hrun'. rewrite A2, A2'.
  destruct (cut_compare _ _ _ _ _ _ _ _ _ _ Hc Inv_ss0 Hrun Hrun')
    as [(lrP & _ & _ & -> & ->)|(s & fw & S1 & S2 & S3 & S4)].
  - exists (lr_fwd lrP), [], []. cbn [with_rem lr_fwd]. rewrite app_nil_r. split; [reflexivity|].
    split; [reflexivity|now left].
  - destruct (run_lines_fwd_mono _ _ _ _ _ _ S3) as (Y & HY).
    destruct HT as [->|(t & u & R' & -> & Hne & Hlf & _)].
    + exists fw, [], Y. rewrite app_nil_r. split; [|split; [exact HY|now left]].
      rewrite run_lines_eq in S4. destruct (state_eqb (st s) done); injection S4 as <-; reflexivity.
    + destruct (run_lines_one _ _ _ _ _ _ S2 S4) as [E|[E Hst]].
      * exists fw, [], Y. rewrite app_nil_r. split; [exact E|]. split; [exact HY|now left].
      * exists fw, t, Y. split; [exact E|]. split; [exact HY|]. right. exists P, s. tauto.
Qed.

(* ------------------------------------------------------------------ *)
(* 6. C07 B4: a dump embedded in a stream                               *)

Lemma snap_of_ne na gs : gs <> [] -> snap_of na gs <> None.
Proof. destruct gs; [contradiction|discriminate]. Qed.

(* the dump scanned alone *)
Lemma dump_alone na D nxt sc' : stall_free sc' -> delimits D nxt ->
  exists res' s, scan_snapshot na (mkSource D sc' EOF) = Ok res' /\
    accept_all ss0 (lines D) = Some s /\ goroutines s <> [] /\
    snap res' = snap_of na (goroutines s) /\ fwd res' = [] /\
    suffix res' ++ rest (unread res') = [] /\
    (rerr_out res' = ENil \/ rerr_out res' = EIo EOF) /\
    lines_read res' = List.length (lines D).
Proof.
  intros Hsf (HtD & s & Ha & Hg & _).
  destruct (snapshot_lines na D sc' EOF Hsf) as (res' & lr & H & Hrun & (A1 & A2 & A3 & A4 & A5 & A6) & _).
  apply terminated_all_lf in HtD.
  destruct (run_lines_accept EOF [] _ _ _ [] 0 HtD Inv_ss0 Ha) as [E _].
  rewrite app_nil_r in E. rewrite E, run_lines_eq in Hrun.
  exists res', s. split; [exact H|]. split; [exact Ha|]. split; [exact Hg|].
  rewrite A1, A2, A3, A4, A6.
  destruct (state_eqb (st s) done); injection Hrun as <-; cbn [lr_ss lr_fwd lr_rem lr_err lr_n List.concat];
    repeat split; try reflexivity; [now left|now right].
Qed.

Theorem dump_in_stream : forall na J D R sc f res,
  stall_free sc -> no_start J -> terminated J -> delimits D (hd_error (lines R)) ->
  scan_snapshot na (mkSource (J ++ D ++ R) sc f) = Ok res ->
  fwd res = J /\ suffix res ++ rest (unread res) = R /\ snap res <> None /\
  (forall sc', stall_free sc' ->
     exists res', scan_snapshot na (mkSource D sc' EOF) = Ok res' /\ snap res' = snap res /\
       fwd res' = [] /\ suffix res' ++ rest (unread res') = []) /\
  (is_eio (rerr_out res) = true ->
     rest (unread res) = [] /\ forall d, In d (lines R) -> has_lf d = false).
Proof.
  intros na J D R sc f res Hsf Hns HtJ Hdel H.
  destruct (snapshot_lines_inv _ _ _ _ _ Hsf H) as (lr & Hrun & (A1 & A2 & A3 & A4 & _) & _ & Hio).
  pose proof Hdel as (HtD & s & Ha & Hg & Hend).
  rewrite (lines_app_terminated _ _ HtJ), (lines_app_terminated _ _ HtD) in Hrun.
  apply terminated_all_lf in HtJ. apply terminated_all_lf in HtD.
  rewrite (run_lines_junk f _ _ _ _ HtJ Hns) in Hrun. cbn [app] in Hrun. rewrite concat_lines in Hrun.
  destruct (run_lines_accept f (lines R) _ _ _ J (0 + List.length (lines J)) HtD Inv_ss0 Ha) as [E Hinv].
  rewrite E, run_lines_eq in Hrun. clear E.
  assert (Halone : forall sc', stall_free sc' ->
            exists res', scan_snapshot na (mkSource D sc' EOF) = Ok res' /\
              snap res' = snap_of na (goroutines s) /\
              fwd res' = [] /\ suffix res' ++ rest (unread res') = []).
  { intros sc' Hsf'.
    destruct (dump_alone na D _ sc' Hsf' Hdel) as (res' & s2 & B1 & B2 & _ & B4 & B5 & B6 & _).
    rewrite Ha in B2. injection B2 as <-. exists res'. tauto. }
  rewrite A1, A2, A3, A4.
  destruct (state_eqb (st s) done) eqn:Hdone.
  { injection Hrun as <-. cbn [lr_ss lr_fwd lr_rem lr_err] in *. rewrite concat_lines.
    split; [reflexivity|]. split; [reflexivity|]. split; [now apply snap_of_ne|].
    split; [exact Halone|]. discriminate. }
  destruct Hend as [F|Hend]; [rewrite F in Hdone; discriminate Hdone|].
  pose proof (lines_abl R) as Habl. pose proof (concat_lines R) as HcatR.
  destruct (lines R) as [|d rm].
  - injection Hrun as <-. cbn [lr_ss lr_fwd lr_rem lr_err] in *. cbn [List.concat] in HcatR.
    split; [reflexivity|]. split; [exact HcatR|]. split; [now apply snap_of_ne|].
    split; [exact Halone|]. intros _. split; [apply Hio; now rewrite A4|]. intros d [].
  - cbn [hd_error] in Hend. destruct Hend as (s' & e & (_ & Hscan & Hlook) & Hgs).
    rewrite Hscan in Hrun. cbv zeta in Hrun. rewrite Hlook in Hrun. cbn [negb] in Hrun.
    injection Hrun as <-. cbn [lr_ss lr_fwd lr_rem lr_err] in *.
    split; [reflexivity|]. split; [exact HcatR|]. rewrite Hgs. split; [now apply snap_of_ne|].
    split; [exact Halone|].
    intros He. split; [apply Hio; now rewrite A4|].
    assert (Hd : has_lf d = false).
    { unfold lerr in He. destruct (has_lf d); [|reflexivity]. destruct e; discriminate He. }
    destruct Habl as [Hd1 _]. destruct rm as [|d2 rm].
    + intros d' [<-|[]]. exact Hd.
    + rewrite Hd1 in Hd by discriminate. discriminate Hd.
Qed.

(* the general case: junk and dumps alternating *)
Lemma delimits_has_line D nxt : delimits D nxt -> exists d, In d (lines D) /\ has_lf d = true.
Proof.
  intros (Ht & s & Ha & Hg & _). destruct (lines D) as [|d ls] eqn:E.
  - injection Ha as <-. exfalso. now apply Hg.
  - exists d. split; [now left|]. apply Ht. rewrite E. now left.
Qed.

Theorem resume : forall segs Jk f n,
  well_delimited segs Jk -> List.length (stream_of segs Jk) < n ->
  exists items r,
    scan_seq n (stream_of segs Jk) f = Ok (items, r) /\
    map Some (nonempty_snaps items) = map (fun x => alone (snd x)) segs /\
    List.concat (map item_fwd items) ++ r = List.concat (map fst segs) ++ Jk.
Proof.
  induction segs as [|[J D] t IH]; intros Jk f n Hwd Hlen; (destruct n as [|n]; [lia|]);
    cbn [stream_of well_delimited] in *.
  - destruct (scan_snapshot_total false (mkSource Jk [] f)) as (res & Hres).
    destruct (no_dump_identity false Jk [] f res I Hwd Hres) as (N1 & N2 & N3 & _ & N5 & _).
    rewrite scan_seq_S, Hres. cbv zeta. rewrite N5, N1, N2, N3.
    eexists. eexists. split; [reflexivity|]. split; [reflexivity|].
    cbn [map item_fwd fst snd List.concat app]. now rewrite !app_nil_r.
  - destruct Hwd as (HnsJ & HtJ & Hdel & Hwd').
    set (R := stream_of t Jk) in *.
    destruct (scan_snapshot_total false (mkSource (J ++ D ++ R) [] f)) as (res & Hres).
    destruct (dump_in_stream false J D R [] f res I HnsJ HtJ Hdel Hres) as (F1 & F2 & F3 & F4 & F5).
    destruct (F4 [] I) as (res' & G1 & G2 & _).
    assert (Hal : alone D = snap res) by (unfold alone; now rewrite G1).
    destruct (snap res) as [gs|] eqn:Hsn; [|contradiction].
    rewrite scan_seq_S, Hres. cbv zeta. rewrite Hsn, F1.
    destruct (is_eio (rerr_out res)) eqn:Heio.
    + destruct (F5 eq_refl) as [U1 U2]. rewrite U1, app_nil_r in F2.
      assert (Ht : t = []).
      { destruct t as [|[J' D'] t']; [reflexivity|]. exfalso.
        cbn [well_delimited] in Hwd'. destruct Hwd' as (_ & HtJ' & Hdel' & _).
        destruct (delimits_has_line _ _ Hdel') as (d & Hin & Hlf).
        assert (Hin' : In d (lines R)).
        { unfold R. cbn [stream_of]. rewrite (lines_app_terminated _ _ HtJ').
          destruct Hdel' as (HtD' & _). rewrite (lines_app_terminated _ _ HtD').
          apply in_or_app. right. apply in_or_app. now left. }
        rewrite (U2 _ Hin') in Hlf. discriminate Hlf. }
      subst t. cbn [stream_of] in R.
      exists [(Some gs, J, rerr_out res)], (suffix res). split.
      * destruct (rerr_out res); try discriminate Heio. reflexivity.
      * cbn [map nonempty_snaps flat_map fst snd app item_fwd List.concat]. rewrite Hal, F2.
        split; reflexivity.
    + assert (Hlt : List.length R < n).
      { pose proof (progress_strong false _ [] f res I Hres (or_intror Heio)) as Hp.
        rewrite F2 in Hp. lia. }
      destruct (IH Jk f n Hwd' Hlt) as (items & r & I1 & I2 & I3).
      exists ((Some gs, J, rerr_out res) :: items), r. split.
      * rewrite F2. fold R in I1. rewrite I1. destruct (rerr_out res); try discriminate Heio; reflexivity.
      * cbn [map nonempty_snaps flat_map fst snd app item_fwd List.concat].
        fold (nonempty_snaps items). rewrite Hal. cbn [map]. rewrite I2.
        split; [reflexivity|]. rewrite <- !app_assoc. fold item_fwd in I3. rewrite I3. reflexivity.
Qed.

(* ------------------------------------------------------------------ *)
(* 7. C07 B5: a header line anywhere in junk starts a dump              *)

Lemma strip_suffix_lf a : strip_suffix [LF] (a ++ [LF]) = Some a.
Proof.
  unfold strip_suffix, has_suffix. rewrite app_length. cbn [List.length].
  replace (List.length a + 1 - 1) with (List.length a) by lia.
  rewrite skipn_length_app', firstn_length_app, beq_refl.
  replace (Nat.leb 1 (List.length a + 1)) with true by (symmetry; apply Nat.leb_le; lia).
  reflexivity.
Qed.

Lemma eol_trim_complete h : complete_line h -> eol_trim h <> None.
Proof.
  intros (a & -> & _). unfold eol_trim. destruct (strip_suffix [CR; LF] (a ++ [LF])); [discriminate|].
  rewrite strip_suffix_lf. discriminate.
Qed.

Lemma complete_line_has_lf h : complete_line h -> has_lf h = true.
Proof. intros (a & -> & Hno). change (a ++ [LF]) with (a ++ LF :: []). now apply has_lf_split. Qed.

Lemma header_scan h : eol_trim h <> None -> try_header ss0 (trim_eol h) <> None ->
  exists s1 g, scan ss0 h = Ok (s1, true, None) /\ goroutines s1 = [g] /\ First g = true /\
               st s1 = gotRoutineHeader /\ Inv s1.
Proof.
  unfold trim_eol, eol_trim. intros Hne Hh. rewrite scan_unfold. unfold scan_tr.
  assert (Hbody : forall t, try_header ss0 t <> None ->
            exists s1 g,
              match scan_pre ss0 t with
              | (s', None) => ret s' false (Some ErrIndent)
              | (_, Some trimmed) => scan_body ss0 trimmed
              end = Ok (s1, true, None) /\ goroutines s1 = [g] /\ First g = true /\
              st s1 = gotRoutineHeader /\ Inv s1).
  { intros t Ht. rewrite scan_pre_noprefix by reflexivity.
    unfold scan_body. change (st ss0) with looking. cbv iota. unfold header_or_end.
    destruct (try_header ss0 t) as [s1|] eqn:E; [|contradiction].
    destruct (try_header_shape _ _ _ E) as (g & ind & -> & _ & _ & Hf).
    eexists. exists g. split; [reflexivity|]. split; [reflexivity|]. split; [exact Hf|].
    split; [reflexivity|]. unfold Inv. cbn. discriminate. }
  destruct (strip_suffix [CR; LF] h) as [t|]; [now apply Hbody|].
  destruct (strip_suffix [LF] h) as [t|]; [now apply Hbody|contradiction].
Qed.

Lemma run_lines_goroutines_mono f : forall ls s fw n lr, Inv s ->
  run_lines f s fw n ls = Ok lr ->
  List.length (goroutines s) <= List.length (goroutines (lr_ss lr)).
Proof.
  induction ls as [|d ls IH]; intros s fw n lr Hinv H; rewrite run_lines_eq in H;
    destruct (state_eqb (st s) done); try (injection H as <-; apply le_n).
  destruct (scan_post s d Hinv) as (s' & l & e1 & Hscan & Hi' & _ & Hm & _). rewrite Hscan in H. cbv zeta in H.
  assert (Hrec : forall fw1, run_lines f s' fw1 (S n) ls = Ok lr ->
            List.length (goroutines s) <= List.length (goroutines (lr_ss lr))).
  { intros fw1 H1. specialize (IH _ _ _ _ Hi' H1). lia. }
  destruct l.
  - destruct (combine_err (lerr f d) e1); try (injection H as <-; exact Hm). now apply (Hrec fw).
  - destruct (negb (state_eqb (st s') looking)); [injection H as <-; exact Hm|].
    destruct (combine_err (lerr f d) e1); try (injection H as <-; exact Hm). now apply (Hrec (fw ++ d)).
Qed.

Theorem start_anywhere : forall na J h R sc f res,
  stall_free sc -> no_start J -> terminated J ->
  complete_line h -> try_header ss0 (trim_eol h) <> None ->
  scan_snapshot na (mkSource (J ++ h ++ R) sc f) = Ok res ->
  fwd res = J /\ snap res <> None /\
  (exists s1 g, scan ss0 h = Ok (s1, true, None) /\ goroutines s1 = [g] /\ First g = true /\
                st s1 = gotRoutineHeader) /\
  (exists handled, R = handled ++ suffix res ++ rest (unread res)).
Proof.
  intros na J h R sc f res Hsf Hns HtJ Hh Hth H.
  destruct (snapshot_lines_inv _ _ _ _ _ Hsf H) as (lr & Hrun & (A1 & A2 & A3 & A4 & A5 & A6) & _ & _).
  destruct (header_scan h (eol_trim_complete _ Hh) Hth) as (s1 & g & S1 & S2 & S3 & S4 & S5).
  rewrite (lines_app_terminated _ _ HtJ) in Hrun.
  assert (El : lines (h ++ R) = h :: lines R).
  { destruct Hh as (a & -> & Hno). rewrite <- app_assoc. cbn [app]. now apply lines_lf. }
  rewrite El in Hrun. apply terminated_all_lf in HtJ.
  rewrite (run_lines_junk f _ _ _ _ HtJ Hns) in Hrun. cbn [app] in Hrun. rewrite concat_lines in Hrun.
  rewrite run_lines_eq in Hrun. change (state_eqb (st ss0) done) with false in Hrun. cbv iota in Hrun.
  rewrite S1 in Hrun. cbv zeta in Hrun. unfold lerr in Hrun.
  rewrite (complete_line_has_lf _ Hh) in Hrun. cbn [combine_err] in Hrun.
  assert (Hg1 : goroutines s1 <> []) by (rewrite S2; discriminate).
  split; [rewrite A2; apply (run_lines_nofwd f _ _ _ _ _ S5 Hg1 Hrun)|].
  split.
  { rewrite A1. apply snap_of_ne. intros E.
    pose proof (run_lines_goroutines_mono f _ _ _ _ _ S5 Hrun) as Hm. rewrite E, S2 in Hm. cbn in Hm. lia. }
  split; [exists s1, g; tauto|].
  destruct (run_lines_char f _ _ _ _ _ S5 (lines_abl R) Hrun) as (hd & sh & _ & C2 & _).
  exists (List.concat hd). rewrite A3, <- concat_app.
  rewrite <- (concat_lines R) at 1. now rewrite C2.
Qed.

(* ------------------------------------------------------------------ *)
(* 8. C10 C1 / C4: totality and the error rule                          *)

Theorem cut_total : forall na B k sc f, exists res, scan_snapshot na (mkSource (firstn k B) sc f) = Ok res.
Proof. intros. apply scan_snapshot_total. Qed.

Theorem error_rule : forall na B sc f res,
  stall_free sc ->
  scan_snapshot na (mkSource B sc f) = Ok res ->
  (* the error is nil, the terminal error of the source, or a scan error *)
  (rerr_out res = ENil \/ rerr_out res = EIo f \/ exists x, rerr_out res = EScan x) /\
  (* a scan error is reported for a rejected line that came without a reader
     error, or with io.EOF: a reader failure is never replaced *)
  (forall x, rerr_out res = EScan x ->
     exists hd d rm sh s', lines B = hd ++ d :: rm /\ suffix res ++ rest (unread res) = List.concat (d :: rm) /\
       rejects sh d s' (Some x) /\ (has_lf d = true \/ f = EOF)) /\
  (* a reader error means that the whole stream was read; at most one
     unterminated rejected line is handed back *)
  (is_eio (rerr_out res) = true ->
     rest (unread res) = [] /\ (suffix res = [] \/ (lines B <> [] /\ last (lines B) [] = suffix res /\ has_lf (suffix res) = false))) /\
  (* if everything was handled and the scanner is not done, the terminal error is reported *)
  (suffix res ++ rest (unread res) = [] -> final_state res <> done -> rerr_out res = EIo f).
Proof.
  intros na B sc f res Hsf H.
  destruct (snapshot_lines_inv _ _ _ _ _ Hsf H) as (_ & _ & _ & _ & Hio).
  destruct (ends_at_first_non_continuing _ _ _ _ _ Hsf H) as (hd & rm & sh & E1 & E2 & E3 & E4).
  pose proof (lines_abl B) as Habl. rewrite E1 in Habl. apply abl_app in Habl. destruct Habl as [_ Habl].
  destruct E4 as [(D1 & D2 & D3 & D4 & D5)|[(D1 & D2 & D3 & D4 & D5)|(d & rm' & s' & e & D1 & D2 & D3 & D4 & D5 & D6)]].
  - rewrite D4. split; [now left|]. split; [intros x F; discriminate F|]. split; [intros F; discriminate F|].
    intros _ F. contradiction.
  - rewrite D4. split; [right; now left|]. split; [intros x F; discriminate F|]. split; [|reflexivity].
    intros _. split; [apply Hio; now rewrite D4|]. left. subst rm. cbn [List.concat] in E3.
    apply app_eq_nil in E3. tauto.
  - subst rm. destruct Habl as [Hd _].
    assert (Hdne : d <> []).
    { apply (lines_ne_nil B). rewrite E1. apply in_or_app. right. now left. }
    split; [|split; [|split]].
    + rewrite D5. unfold lerr. destruct (has_lf d); destruct e as [x|]; cbn [combine_err io_is_nil_or_eof].
      * right. right. now exists x.
      * now left.
      * destruct f; cbn; [right; right; now exists x|right; now left|right; now left].
      * right. now left.
    + intros x Hx. rewrite D5 in Hx. unfold lerr in Hx.
      exists hd, d, rm', sh, s'. split; [exact E1|]. split; [exact E3|].
      destruct (has_lf d); destruct e as [y|]; cbn [combine_err io_is_nil_or_eof] in Hx; try discriminate Hx.
      * injection Hx as ->. split; [exact D2|now left].
      * destruct f; cbn in Hx; try discriminate Hx. injection Hx as ->. split; [exact D2|now right].
    + intros He. pose proof (Hio He) as Hr. split; [exact Hr|]. right.
      assert (Hlf : has_lf d = false).
      { rewrite D5 in He. unfold lerr in He. destruct (has_lf d); [|reflexivity]. destruct e; discriminate He. }
      assert (Hrm : rm' = []).
      { destruct rm'; [reflexivity|]. rewrite Hd in Hlf by discriminate. discriminate Hlf. }
      subst rm'. cbn [List.concat] in E3. rewrite Hr, !app_nil_r in E3. rewrite E3.
      split; [rewrite E1; now destruct hd|]. split; [|exact Hlf]. rewrite E1. apply last_last.
    + intros F. rewrite E3 in F. cbn [List.concat] in F. apply app_eq_nil in F. tauto.
Qed.

(* ------------------------------------------------------------------ *)
(* 9. C10 C3: the goroutines of a truncation                            *)

Lemma run_lines_nil_state f s fw n lr : run_lines f s fw n [] = Ok lr -> lr_ss lr = s.
Proof. rewrite run_lines_eq. destruct (state_eqb (st s) done); intros H; injection H as <-; reflexivity. Qed.

Lemma run_lines_one_state f s fw n t lr : run_lines f s fw n [t] = Ok lr ->
  lr_ss lr = s \/ exists l e, scan s t = Ok (lr_ss lr, l, e).
Proof.
  rewrite run_lines_eq. destruct (state_eqb (st s) done); [intros H; injection H as <-; now left|].
  destruct (scan s t) as [[[s' l] e1]|m]; [|discriminate]. cbv zeta. intros H. right. exists l, e1.
  assert (E : lr_ss lr = s'); [|now rewrite E].
  destruct l.
  - destruct (combine_err (lerr f t) e1); try (injection H as <-; reflexivity). apply (run_lines_nil_state _ _ _ _ _ H).
  - destruct (negb (state_eqb (st s') looking)); [injection H as <-; reflexivity|].
    destruct (combine_err (lerr f t) e1); try (injection H as <-; reflexivity). apply (run_lines_nil_state _ _ _ _ _ H).
Qed.

(* no line of ls is handled in a race-goroutine state *)
Fixpoint nonrace_path (s : sstate) (ls : list bytes) : Prop :=
  match ls with
  | [] => True
  | d :: ls' =>
      race_goroutine_state (st s) = false /\
      match scan s d with
      | Ok (s1, _, _) => nonrace_path s1 ls'
      | Panic _ => True
      end
  end.

(* along such a path every goroutine but the last one is final *)
Lemma run_lines_stable f : forall ls s fw n lr,
  nonrace_path s ls -> run_lines f s fw n ls = Ok lr ->
  List.length (goroutines s) <= List.length (goroutines (lr_ss lr)) /\
  forall i, S i < List.length (goroutines s) ->
    nth_error (goroutines (lr_ss lr)) i = nth_error (goroutines s) i.
Proof.
  induction ls as [|d ls IH]; intros s fw n lr Hp H; rewrite run_lines_eq in H;
    destruct (state_eqb (st s) done); try (injection H as <-; split; [apply le_n|reflexivity]).
  destruct Hp as [Hnr Hp].
  destruct (scan s d) as [[[s' l] e1]|m] eqn:Hscan; [|discriminate H]. cbv zeta in H.
  destruct (frame_stable _ _ (scan_step_frame _ _ _ _ _ Hnr Hscan)) as [[F1 _] F2].
  assert (Hone : lr_ss lr = s' ->
            List.length (goroutines s) <= List.length (goroutines (lr_ss lr)) /\
            forall i, S i < List.length (goroutines s) ->
              nth_error (goroutines (lr_ss lr)) i = nth_error (goroutines s) i).
  { intros ->. split; [exact F1|exact F2]. }
  assert (Hrec : forall fw1, run_lines f s' fw1 (S n) ls = Ok lr ->
            List.length (goroutines s) <= List.length (goroutines (lr_ss lr)) /\
            forall i, S i < List.length (goroutines s) ->
              nth_error (goroutines (lr_ss lr)) i = nth_error (goroutines s) i).
  { intros fw1 H1. destruct (IH _ _ _ _ Hp H1) as [I1 I2]. split; [lia|].
    intros i Hi. rewrite I2 by lia. now apply F2. }
  destruct l.
  - destruct (combine_err (lerr f d) e1); try (apply Hone; injection H as <-; reflexivity). now apply (Hrec fw).
  - destruct (negb (state_eqb (st s') looking)); [apply Hone; injection H as <-; reflexivity|].
    destruct (combine_err (lerr f d) e1); try (apply Hone; injection H as <-; reflexivity). now apply (Hrec (fw ++ d)).
Qed.

Theorem prefix_goroutines : forall na B k sc sc' f f' res res',
  stall_free sc -> stall_free sc' ->
  scan_snapshot na (mkSource B sc f) = Ok res ->
  scan_snapshot na (mkSource (firstn k B) sc' f') = Ok res' ->
  exists P T R,
    lines (firstn k B) = P ++ T /\ lines B = P ++ R /\ all_lf P /\
    (T = [] \/ exists t u R', T = [t] /\ has_lf t = false /\ R = (t ++ u) :: R') /\
    ((* the scan stops inside the complete lines P: identical outcome *)
     (snap res' = snap res /\ fwd res' = fwd res /\ rerr_out res' = rerr_out res /\
      final_state res' = final_state res /\ lines_read res' = lines_read res /\
      exists rm, suffix res' ++ rest (unread res') = List.concat (rm ++ T) /\
                 suffix res ++ rest (unread res) = List.concat (rm ++ R)) \/
     (* both scans reach the end of P in the same state s; the truncated one
        then takes at most one more step, on the partial line *)
     (exists s s', scan_lines ss0 P = Ok s /\ Inv s /\
        snap res' = snap_of na (goroutines s') /\
        (s' = s \/ exists t l e, T = [t] /\ scan s t = Ok (s', l, e)) /\
        (race_goroutine_state (st s) = false -> frame (goroutines s) (goroutines s')) /\
        (* every goroutine but the last one at the cut is final in the scan of
           the whole stream, as long as no race-goroutine state is entered *)
        (nonrace_path s R ->
         exists sB, snap res = snap_of na (goroutines sB) /\
           forall i, S i < List.length (goroutines s) ->
             nth_error (goroutines sB) i = nth_error (goroutines s) i /\
             nth_error (goroutines s') i = nth_error (goroutines s) i))).
Proof.
  intros na B k sc sc' f f' res res' Hsf Hsf' H H'.
  destruct (snapshot_lines_inv _ _ _ _ _ Hsf H) as (lr & Hrun & (A1 & A2 & A3 & A4 & A5 & A6) & _).
  destruct (snapshot_lines_inv _ _ _ _ _ Hsf' H') as (lr' & Hrun' & (A1' & A2' & A3' & A4' & A5' & A6') & _).
  destruct (lines_firstn B k) as (P & T & R & E1 & E2 & Hc & HT).
  exists P, T, R. split; [exact E1|]. split; [exact E2|]. split; [exact Hc|]. split.
  { destruct HT as [->|(t & u & R' & -> & _ & Hlf & -> & _)]; [now left|].
    right. exists t, u, R'. tauto. }
  rewrite E2 in Hrun. rewrite E1 in Hrun'.
  destruct (cut_compare _ _ _ _ _ _ _ _ _ _ Hc Inv_ss0 Hrun Hrun')
    as [(lrP & _ & _ & -> & ->)|(s & fw & S1 & S2 & S3 & S4)].
  - left. rewrite A1, A1', A2, A2', A4, A4', A5, A5', A6, A6', A3, A3'. cbn [with_rem lr_ss lr_fwd lr_err lr_n lr_rem].
    repeat split. exists (lr_rem lrP). split; reflexivity.
  - right. exists s, (lr_ss lr'). split; [exact S1|]. split; [exact S2|]. split; [exact A1'|].
    assert (Hstep : lr_ss lr' = s \/ exists t l e, T = [t] /\ scan s t = Ok (lr_ss lr', l, e)).
    { destruct HT as [->|(t & u & R' & -> & _)].
      - left. apply (run_lines_nil_state _ _ _ _ _ S4).
      - destruct (run_lines_one_state _ _ _ _ _ _ S4) as [E|(l & e & E)]; [now left|].
        right. exists t, l, e. split; [reflexivity|exact E]. }
    split; [exact Hstep|].
    assert (Hfr : race_goroutine_state (st s) = false -> frame (goroutines s) (goroutines (lr_ss lr'))).
    { intros Hnr. destruct Hstep as [->|(t & l & e & _ & E)]; [apply frame_refl|].
      apply (scan_step_frame _ _ _ _ _ Hnr E). }
    split; [exact Hfr|].
    intros Hp. exists (lr_ss lr). split; [exact A1|]. intros i Hi.
    destruct (run_lines_stable f _ _ _ _ _ Hp S3) as [_ St]. split; [now apply St|].
    destruct Hstep as [->|(t & l & e & -> & E)]; [reflexivity|].
    destruct HT as [F|(t1 & u & R' & Et & _ & _ & ER & _)]; [discriminate F|].
    rewrite ER in Hp. destruct Hp as [Hnr _].
    destruct (frame_stable _ _ (Hfr Hnr)) as [_ F2]. now apply F2.
Qed.
