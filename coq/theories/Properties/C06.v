(* Properties/C06.v — The final output is a function of the input: Go's random
   map iteration order (the oracle [shuffle] of Model/Bucket.v, the only map
   range whose order can reach the output) does not influence the result.
   Statements only. *)
From PP Require Import Base.Bytes Base.GoResult Model.Types Model.Stack Model.Bucket Spec.BucketSpec Spec.Wf.
From PP Require Import Model.Reader Model.Scan Model.ScanSnapshot Model.UI Model.Process Model.Names.
From PP Require Import Proofs.Aggregate Proofs.DetProofs.
From Coq Require Import Permutation.

(* when at most one element qualifies, find over any permutation agrees *)
Theorem C06_find_unique_perm : forall (A : Type) (p : A -> bool) (l l' : list A),
  Permutation l l' ->
  (forall x y, In x l -> In y l -> p x = true -> p y = true -> x = y) ->
  find p l = find p l'.
Proof. exact @DetProofs.find_unique_perm. Qed.
Print Assumptions C06_find_unique_perm.

(* one search: with pairwise non-similar keys every oracle finds the same entry *)
Theorem C06_step_oracle_independent : forall sh1 sh2 lvl st k g,
  (forall k l, Permutation (sh1 k l) l) -> (forall k l, Permutation (sh2 k l) l) ->
  NoDup (map (fun e => canon_sig lvl (ekey e)) st) ->
  agg_step sh1 lvl st k g = agg_step sh2 lvl st k g.
Proof. exact DetProofs.agg_step_indep. Qed.
Print Assumptions C06_step_oracle_independent.

(* the ENTIRE result: buckets in order, merged signatures, id lists *)
Theorem C06_aggregate_oracle_independent : forall sh1 sh2 lvl gs,
  (forall k l, Permutation (sh1 k l) l) -> (forall k l, Permutation (sh2 k l) l) ->
  wf_goroutines gs = true -> aggregate sh1 lvl gs = aggregate sh2 lvl gs.
Proof. exact DetProofs.aggregate_oracle_independent. Qed.
Print Assumptions C06_aggregate_oracle_independent.

(* already before the final sort *)
Theorem C06_agg_loop_oracle_independent : forall sh1 sh2 lvl gs,
  (forall k l, Permutation (sh1 k l) l) -> (forall k l, Permutation (sh2 k l) l) ->
  wf_goroutines gs = true -> agg_loop sh1 lvl [] 0 gs = agg_loop sh2 lvl [] 0 gs.
Proof. exact DetProofs.agg_loop_oracle_independent. Qed.
Print Assumptions C06_agg_loop_oracle_independent.

(* the model's fixed choice (id_shuffle) stands for every run of the program *)
Theorem C06_aggregate_deterministic_ok : forall sh lvl gs,
  (forall k l, Permutation (sh k l) l) -> wf_goroutines gs = true ->
  exists bs, aggregate sh lvl gs = Ok bs /\ aggregate id_shuffle lvl gs = Ok bs.
Proof. exact DetProofs.aggregate_deterministic_ok. Qed.
Print Assumptions C06_aggregate_deterministic_ok.

(* well-formedness is needed: hand-set names on too-large non-pointers make
   goroutine 4 match two entries, and the two oracles put it in different buckets *)
Theorem C06_nonwf_refuted : exists gs sh1 sh2 bs1 bs2,
  wf_goroutines gs = false /\
  (forall k l, Permutation (sh1 k l) l) /\ (forall k l, Permutation (sh2 k l) l) /\
  aggregate sh1 AnyPointer gs = Ok bs1 /\ aggregate sh2 AnyPointer gs = Ok bs2 /\
  map IDs bs1 = [[1; 4]; [2; 3]]%Z /\ map IDs bs2 = [[1]; [2; 3; 4]]%Z.
Proof. exact DetProofs.nonwf_refuted. Qed.
Print Assumptions C06_nonwf_refuted.

(* the rest of the pipeline: Gallina functions.  render_snapshot_sh / process_sh /
   pp_run_sh are Process.render_snapshot / process / pp_run with the oracle as
   a parameter instead of id_shuffle. *)
Theorem C06_render_snapshot_functional : forall sh,
  (forall k l, Permutation (sh k l) l) ->
  forall o gs, wf_goroutines gs = true -> render_snapshot_sh sh o gs = render_snapshot o gs.
Proof. exact DetProofs.render_snapshot_functional. Qed.
Print Assumptions C06_render_snapshot_functional.

(* whole program, GIVEN that the scanner only produces well-formed snapshots
   (scans_wf: a premise here, not yet a theorem of the development) *)
Theorem C06_pipeline_functional : forall sh,
  (forall k l, Permutation (sh k l) l) ->
  scans_wf -> forall o content, pp_run_sh sh o content = pp_run o content.
Proof. exact DetProofs.pipeline_functional. Qed.
Print Assumptions C06_pipeline_functional.

(* ---- examples ---- *)
(* three goroutines, two classes: same buckets whichever way the map is walked *)
Example C06_ex_wf : wf_goroutines ex_gs = true /\
  aggregate id_shuffle AnyPointer ex_gs = aggregate rev_shuffle AnyPointer ex_gs /\
  map IDs (ok_or_nil (aggregate rev_shuffle AnyPointer ex_gs)) = [[1; 3]; [2]]%Z.
Proof. vm_compute. repeat split; reflexivity. Qed.

(* the witness of C06_nonwf_refuted *)
Example C06_ex_nonwf :
  map IDs (ok_or_nil (aggregate id_shuffle AnyPointer nonwf_gs)) = [[1; 4]; [2; 3]]%Z /\
  map IDs (ok_or_nil (aggregate rev_shuffle AnyPointer nonwf_gs)) = [[1]; [2; 3; 4]]%Z.
Proof. vm_compute. split; reflexivity. Qed.

(* NameArguments has no oracle: the pointer keys are collected into sorted
   duplicate-free lists (sort_uniq) before numbering, so the table does not
   depend on the order in which the other goroutines are visited *)
Example C06_names_canonical :
  let g1 := ex_gor 1 true (s2b "main.f") [ex_ptr 824633786368; ex_ptr 824633790464] in
  let g2 := ex_gor 2 false (s2b "main.g") [ex_ptr 824633794560; ex_ptr 824633786368] in
  let g3 := ex_gor 3 false (s2b "main.h") [ex_ptr 824633790464; ex_ptr 824633798656] in
  name_table [g1; g2; g3] = name_table [g1; g3; g2] /\
  map fst (name_table [g1; g2; g3]) = [824633786368; 824633790464; 824633794560; 824633798656]%N.
Proof. vm_compute. split; reflexivity. Qed.
