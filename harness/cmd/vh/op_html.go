// op html (C17): Aggregated.ToHTML / Snapshot.ToHTML on snapshots whose every
// string field carries hostile payloads; the output is tokenised with
// golang.org/x/net/html.
// html id mode ver values | attrs skeleton scheme complete err det region | meta footer | now maxprocs doc
//
//	values = (bs ...) buckets for mode agg, (gs ...) goroutines for mode snap
//	attrs  = the href / class values of the content region, in document order (hex, comma separated)
//	meta   = the other fields of the Snapshot: LocalGOROOT;RemoteGOROOT;LocalGOPATHs;RemoteGOPATHs;LocalGomods
//	         (hex atoms; lists comma separated, "-" when empty; map entries key:value in Go's iteration order)
//	footer = the footer argument of ToHTML (hex)
//	now, maxprocs = what toHTML read from the clock (see renderHTML) and from runtime.GOMAXPROCS(0)
//	doc    = the whole document (hex); byte-exact model: Model/HtmlPage.v
package main

import (
	"bytes"
	"fmt"
	"html/template"
	"math/rand"
	"runtime"
	"sort"
	"strconv"
	"strings"
	"time"

	"github.com/maruel/panicparse/v2/stack"
	xhtml "golang.org/x/net/html"
)

var hostile = []string{
	`<script>alert(1)</script>`, `"><img src=x onerror=alert(1)>`, `' onmouseover='alert(1)`, `javascript:alert(1)`,
	`</a><a href="javascript:x">`, `&lt;b&gt;`, `&#34;`, `a b`, `%22%3E%3Cscript%3E`, `%`, `%zz`, `\`, "`", `{{.}}`, `--><!--`,
	`data:text/html,<script>x</script>`, `../../etc/passwd`, `?q=1&r=2#frag`, "tab\there", `ünï✓`, `+`, `=`, `]]>`, `<![CDATA[`, `</title>`, `</style><script>`,
	`"`, `'`, `<`, `>`, `&`, `" onclick="x`, `javascript&colon;alert(1)`, ` `, `//evil.example/x`, `@v1.2.3`, `v0.0.0-20200223170610-d5e6a3e2c0ae`,
}

var relPaths = []string{
	"github.com/maruel/panicparse/v2/stack/context.go", "github.com/x/y@v1.2.3/z.go", "github.com/x/y@v0.0.0-20200223170610-d5e6a3e2c0ae/sub/z.go",
	"golang.org/x/sys@v0.1.0/unix/syscall.go", "golang.org/x/tools/go/ssa/builder.go", "golang.org/y/z/w.go", "github.com/onlytwo/parts",
	"gopkg.in/yaml.v2@v2.4.0/decode.go", "example.com/a/vendor/github.com/p/q/r.go", "runtime/proc.go", "net/http/server.go", "",
	"github.com/<script>/\"y\"@v1'2/z<.go", "github.com/a/b@v1.0.0-1-abc\"/x.go",
	// versions of every length with a dash at every distance from the end (semver pre-releases)
	"github.com/x/y@v1.0.0-experimental/z.go", "github.com/x/y@v1.0.0-rc1/z.go", "golang.org/x/sys@v0.1.0-0.20230101-abcdefabcdef/unix/z.go",
	"github.com/x/y@v1.2.3-alpha.beta.gamma.1/z.go", "github.com/x/y@-/z.go", "github.com/x/y@v0.0.0-2-a/z.go", "github.com/x/y@v1.0.0-abcdefghijkl/z.go", "github.com/x/y@v1-abcdefghijklm/z.go",
	// module-cache case encoding ("!b" = "B"), including an exclamation mark with nothing after it
	"github.com/!burnt!sushi/toml@v1.3.2/decode.go", "github.com/acme!/widget@v1.2.3/pkg/w.go", "github.com/acme/widget!@v1.2.3/pkg/w.go", "github.com/!/!@!/!.go",
	"example.com/mail/user@/handler.go", "example.com/x@", "example.com/@/", "@", "gopkg.in/a@b@c/d.go", "example.com/mod@v2/sub/f.go",
}

type hgen struct {
	r *rand.Rand
}

func (g hgen) str(benignP int) string {
	if g.r.Intn(benignP) != 0 {
		return []string{"running", "main", "foo", "proc.go", "runtime", "x"}[g.r.Intn(6)]
	}
	h := hostile[g.r.Intn(len(hostile))]
	if g.r.Intn(3) == 0 {
		h = "pre" + h + hostile[g.r.Intn(len(hostile))]
	}
	return h
}

func (g hgen) call() stack.Call {
	r := g.r
	c := stack.Call{}
	c.Func.Complete = g.str(2)
	c.Func.ImportPath = g.str(2)
	if r.Intn(3) == 0 {
		c.Func.ImportPath = "example.com/a/vendor/" + g.str(2)
	}
	c.Func.DirName = g.str(2)
	c.Func.Name = g.str(2)
	if r.Intn(4) == 0 {
		c.Func.Name = "(*" + g.str(2) + ")." + g.str(2)
	}
	if r.Intn(6) == 0 {
		// receiver look-alikes that are not the method form: unbalanced or empty parentheses
		c.Func.Name = []string{"(*" + g.str(2), "(" + g.str(2), "(", "()", "(*)." + g.str(2), "(*" + g.str(2) + ")", "(*" + g.str(2) + ").", ")" + g.str(2) + "(", "(*a.b).c"}[r.Intn(9)]
	}
	c.Func.IsExported = r.Intn(2) == 0
	c.Func.IsPkgMain = r.Intn(6) == 0
	c.ImportPath = c.Func.ImportPath
	if r.Intn(3) == 0 {
		c.ImportPath = g.str(2)
	}
	c.RemoteSrcPath = "/remote/" + g.str(2)
	if r.Intn(5) == 0 {
		c.RemoteSrcPath = ""
	}
	switch r.Intn(3) {
	case 0:
		c.LocalSrcPath = "/local/" + g.str(2)
	case 1:
		c.LocalSrcPath = c.RemoteSrcPath
	}
	c.RelSrcPath = relPaths[r.Intn(len(relPaths))]
	if r.Intn(4) == 0 {
		c.RelSrcPath = g.str(1)
	}
	c.SrcName = g.str(2)
	c.DirSrc = g.str(2)
	c.Line = r.Intn(5000)
	c.Location = stack.Location(r.Intn(5))
	n := r.Intn(3)
	for i := 0; i < n; i++ {
		a := stack.Arg{Value: uint64(r.Intn(100000))}
		if r.Intn(3) == 0 {
			a.Name = g.str(2)
		}
		if r.Intn(5) == 0 {
			a = stack.Arg{IsAggregate: true, Fields: stack.Args{Values: []stack.Arg{{Value: 7, Name: g.str(2)}}, Elided: r.Intn(2) == 0}}
		}
		c.Args.Values = append(c.Args.Values, a)
	}
	if r.Intn(5) == 0 {
		c.Args.Processed = []string{g.str(2), g.str(2)}
	}
	c.Args.Elided = r.Intn(4) == 0
	return c
}

func (g hgen) sig() stack.Signature {
	r := g.r
	s := stack.Signature{State: g.str(2), Locked: r.Intn(4) == 0}
	if r.Intn(3) == 0 {
		s.SleepMin, s.SleepMax = 1+r.Intn(5), 6+r.Intn(5)
		if r.Intn(2) == 0 {
			s.SleepMin = s.SleepMax
		}
	}
	if r.Intn(2) == 0 {
		s.CreatedBy.Calls = []stack.Call{g.call()}
	}
	n := r.Intn(4)
	for i := 0; i < n; i++ {
		s.Stack.Calls = append(s.Stack.Calls, g.call())
	}
	s.Stack.Elided = r.Intn(4) == 0
	return s
}

// hmeta is everything ToHTML renders besides the goroutines.
type hmeta struct {
	snap   stack.Snapshot // Goroutines unused
	footer string
}

func (g hgen) path() string {
	base := []string{"/usr/local/go", "/home/user/go", "/src/app", "/opt/go", `C:\go`, ""}[g.r.Intn(6)]
	if g.r.Intn(2) == 0 {
		return base
	}
	return base + "/" + g.str(1)
}

func (g hgen) kv(n int) map[string]string {
	if n == 0 {
		if g.r.Intn(2) == 0 {
			return nil
		}
		return map[string]string{}
	}
	m := map[string]string{}
	for len(m) < n {
		m[g.path()] = g.str(2)
	}
	return m
}

var footers = []string{"", "", "", "<hr>", `<p class="f">made by 'x' & co</p>`, "</table><script>alert(1)</script>", "plain + text", "<!-- c -->"}

func (g hgen) meta() hmeta {
	r := g.r
	var m hmeta
	switch r.Intn(5) {
	case 0:
	case 1:
		m.snap.RemoteGOROOT = g.path()
	case 2:
		m.snap.LocalGOROOT = g.path()
	case 3:
		m.snap.LocalGOROOT = g.path()
		m.snap.RemoteGOROOT = m.snap.LocalGOROOT
	default:
		m.snap.LocalGOROOT, m.snap.RemoteGOROOT = g.path(), g.path()
	}
	for n := []int{0, 1, 1, 2, 3}[r.Intn(5)]; n > 0; n-- {
		m.snap.LocalGOPATHs = append(m.snap.LocalGOPATHs, g.path())
	}
	m.snap.RemoteGOPATHs = g.kv([]int{0, 0, 1, 2, 3}[r.Intn(5)])
	m.snap.LocalGomods = g.kv([]int{0, 0, 1, 2, 3, 4}[r.Intn(6)])
	m.footer = footers[r.Intn(len(footers))]
	return m
}

func hexList(l []string) string {
	if len(l) == 0 {
		return "-"
	}
	var o []string
	for _, x := range l {
		o = append(o, hexs([]byte(x)))
	}
	return strings.Join(o, ",")
}

func hexMap(m map[string]string) string {
	if len(m) == 0 {
		return "-"
	}
	var o []string
	for k, v := range m { // Go's iteration order on purpose: the model sorts
		o = append(o, hexs([]byte(k))+":"+hexs([]byte(v)))
	}
	return strings.Join(o, ",")
}

func (m hmeta) String() string {
	return strings.Join([]string{hexs([]byte(m.snap.LocalGOROOT)), hexs([]byte(m.snap.RemoteGOROOT)), hexList(m.snap.LocalGOPATHs),
		hexMap(m.snap.RemoteGOPATHs), hexMap(m.snap.LocalGomods)}, ";")
}

func unhexList(s string) []string {
	if s == "-" || s == "" {
		return nil
	}
	var o []string
	for _, x := range strings.Split(s, ",") {
		o = append(o, string(unhexs(x)))
	}
	return o
}

func unhexMap(s string) map[string]string {
	if s == "-" || s == "" {
		return nil
	}
	m := map[string]string{}
	for _, x := range strings.Split(s, ",") {
		kv := strings.SplitN(x, ":", 2)
		m[string(unhexs(kv[0]))] = string(unhexs(kv[1]))
	}
	return m
}

func parseHmeta(meta, footer string) hmeta {
	var m hmeta
	f := strings.Split(meta, ";")
	if len(f) == 5 {
		m.snap.LocalGOROOT, m.snap.RemoteGOROOT = string(unhexs(f[0])), string(unhexs(f[1]))
		m.snap.LocalGOPATHs, m.snap.RemoteGOPATHs, m.snap.LocalGomods = unhexList(f[2]), unhexMap(f[3]), unhexMap(f[4])
	}
	m.footer = string(unhexs(footer))
	return m
}

// twin of the metadata: same shape (which GOROOT items, number of GOPATHs and modules), harmless strings;
// the footer is trusted input and stays
func (t *twinner) meta(m hmeta) hmeta {
	out := hmeta{footer: m.footer}
	out.snap.LocalGOROOT, out.snap.RemoteGOROOT = t.s(m.snap.LocalGOROOT), t.s(m.snap.RemoteGOROOT)
	for _, p := range m.snap.LocalGOPATHs {
		// an empty path stays empty in the twin; that does not change the skeleton (text nodes only)
		out.snap.LocalGOPATHs = append(out.snap.LocalGOPATHs, "p"+t.s(p))
	}
	if m.snap.LocalGomods != nil {
		out.snap.LocalGomods = map[string]string{}
		keys := make([]string, 0, len(m.snap.LocalGomods))
		for k := range m.snap.LocalGomods {
			keys = append(keys, k)
		}
		sort.Strings(keys)
		for _, k := range keys {
			out.snap.LocalGomods["k"+t.s(k)] = "v" + t.s(m.snap.LocalGomods[k])
		}
	}
	return out
}

// benign twin: same structure, every string replaced injectively by a harmless token
type twinner struct{ m map[string]string }

func (t *twinner) s(x string) string {
	if x == "" {
		return ""
	}
	if v, ok := t.m[x]; ok {
		return v
	}
	v := fmt.Sprintf("s%d", len(t.m))
	t.m[x] = v
	return v
}
func (t *twinner) args(a stack.Args) stack.Args {
	out := stack.Args{Elided: a.Elided}
	for _, v := range a.Values {
		v.Name = t.s(v.Name)
		v.Fields = t.args(v.Fields)
		out.Values = append(out.Values, v)
	}
	for _, p := range a.Processed {
		out.Processed = append(out.Processed, t.s(p))
	}
	return out
}
func (t *twinner) call(c stack.Call) stack.Call {
	c.Func.Complete, c.Func.ImportPath, c.Func.DirName, c.Func.Name = t.s(c.Func.Complete), t.s(c.Func.ImportPath), t.s(c.Func.DirName), t.s(c.Func.Name)
	c.ImportPath, c.RemoteSrcPath, c.LocalSrcPath, c.RelSrcPath = t.s(c.ImportPath), t.s(c.RemoteSrcPath), t.s(c.LocalSrcPath), t.s(c.RelSrcPath)
	c.SrcName, c.DirSrc = t.s(c.SrcName), t.s(c.DirSrc)
	c.Args = t.args(c.Args)
	return c
}
func (t *twinner) sig(s stack.Signature) stack.Signature {
	out := s
	out.State = t.s(s.State)
	out.CreatedBy.Calls, out.Stack.Calls = nil, nil
	for _, c := range s.CreatedBy.Calls {
		out.CreatedBy.Calls = append(out.CreatedBy.Calls, t.call(c))
	}
	for _, c := range s.Stack.Calls {
		out.Stack.Calls = append(out.Stack.Calls, t.call(c))
	}
	return out
}

type tokInfo struct {
	skeleton []string
	attrs    []string // href / class values of the content region
	hrefs    []string // every href in the document
	h1, tr   int      // in the content region
	li       int      // in the metadata list: between <h2>Metadata</h2> and <h2>Legend</h2>
	doctype  int
	divs     int // <div id="content">
}

func tokenize(doc []byte) tokInfo {
	var ti tokInfo
	z := xhtml.NewTokenizer(bytes.NewReader(doc))
	in := false
	h2 := 0 // number of <h2> seen: the metadata list follows the first one
	for {
		tt := z.Next()
		if tt == xhtml.ErrorToken {
			return ti
		}
		tok := z.Token()
		switch tt {
		case xhtml.StartTagToken, xhtml.SelfClosingTagToken, xhtml.EndTagToken:
			var names []string
			for _, a := range tok.Attr {
				names = append(names, a.Key)
				if a.Key == "href" {
					ti.hrefs = append(ti.hrefs, a.Val)
				}
			}
			ti.skeleton = append(ti.skeleton, tt.String()+":"+tok.Data+"["+strings.Join(names, " ")+"]")
			if tt == xhtml.StartTagToken && tok.Data == "div" {
				for _, a := range tok.Attr {
					if a.Key == "id" && a.Val == "content" {
						in = true
						ti.divs++
					}
				}
			}
			if tt == xhtml.StartTagToken && tok.Data == "h2" {
				h2++
			}
			if tt == xhtml.StartTagToken && tok.Data == "li" && h2 == 1 {
				ti.li++
			}
			if tt == xhtml.EndTagToken && tok.Data == "div" {
				in = false
			}
			if in && tt == xhtml.StartTagToken {
				switch tok.Data {
				case "h1":
					ti.h1++
				case "tr":
					ti.tr++
				case "a":
					for _, a := range tok.Attr {
						if a.Key == "href" {
							ti.attrs = append(ti.attrs, a.Val)
						}
					}
				case "span":
					for _, a := range tok.Attr {
						if a.Key == "class" && strings.HasPrefix(a.Val, "Func") {
							ti.attrs = append(ti.attrs, a.Val)
						}
					}
				}
			}
		case xhtml.DoctypeToken:
			ti.doctype++
			ti.skeleton = append(ti.skeleton, tt.String())
		case xhtml.TextToken:
			ti.skeleton = append(ti.skeleton, "text")
		default:
			ti.skeleton = append(ti.skeleton, tt.String())
		}
	}
}

// renderHTML returns the document and the creation time toHTML used: toHTML calls
// time.Now().Truncate(time.Second) itself, so the clock is read before and after the call and the
// rendering is repeated until both readings fall into the same second.
func renderHTML(gs []*stack.Goroutine, mode string, lvl stack.Similarity, m hmeta) (doc []byte, buckets []*stack.Bucket, now string, err string) {
	defer func() {
		if e := recover(); e != nil {
			err = "PANIC:" + strings.ReplaceAll(fmt.Sprint(e), "\t", " ")
		}
	}()
	for {
		var buf bytes.Buffer
		snap := m.snap // copy
		snap.Goroutines = gs
		var e error
		var a *stack.Aggregated
		if mode == "agg" {
			a = snap.Aggregate(lvl)
			buckets = a.Buckets
		}
		t0 := time.Now().Truncate(time.Second)
		if mode == "agg" {
			e = a.ToHTML(&buf, template.HTML(m.footer))
		} else {
			e = snap.ToHTML(&buf, template.HTML(m.footer))
		}
		if t1 := time.Now().Truncate(time.Second); !t0.Equal(t1) {
			continue
		}
		if e != nil {
			err = "ERR:" + strings.ReplaceAll(e.Error(), "\t", " ")
		}
		return buf.Bytes(), buckets, t0.String(), err
	}
}

func emitHTML(id string, gs []*stack.Goroutine, mode string, m hmeta) {
	lvl := stack.ExactFlags // every goroutine its own bucket unless equal: keeps the twin's bucket structure identical
	doc, buckets, now, errs := renderHTML(deepCopyGoroutines(gs), mode, lvl, m)
	tw := &twinner{m: map[string]string{}}
	tm := tw.meta(m)
	var tdoc []byte
	terr := ""
	func() {
		defer func() {
			if e := recover(); e != nil {
				terr = "PANIC:" + strings.ReplaceAll(fmt.Sprint(e), "\t", " ")
			}
		}()
		var buf bytes.Buffer
		var e error
		if mode == "agg" {
			// same buckets in the same order (the twin is not re-aggregated: its strings sort differently)
			tsnap := tm.snap
			ta := &stack.Aggregated{Snapshot: &tsnap}
			for _, b := range buckets {
				ta.Buckets = append(ta.Buckets, &stack.Bucket{Signature: tw.sig(b.Signature), IDs: b.IDs, First: b.First})
			}
			e = ta.ToHTML(&buf, template.HTML(tm.footer))
		} else {
			var tgs []*stack.Goroutine
			for _, g := range gs {
				c := *g
				c.Signature = tw.sig(g.Signature)
				tgs = append(tgs, &c)
			}
			tsnap := tm.snap
			tsnap.Goroutines = tgs
			e = tsnap.ToHTML(&buf, template.HTML(tm.footer))
		}
		if e != nil {
			terr = "ERR:" + strings.ReplaceAll(e.Error(), "\t", " ")
		}
		tdoc = buf.Bytes()
	}()
	// determinism (C06): rendering again gives the same bytes apart from the creation time
	mask := func(b []byte) string {
		s := string(b)
		if i := strings.Index(s, "<li>Created on "); i >= 0 {
			if j := strings.Index(s[i:], "</li>"); j >= 0 {
				s = s[:i] + s[i+j:]
			}
		}
		return s
	}
	det := "1"
	for k := 0; k < 3; k++ {
		d2, _, _, _ := renderHTML(deepCopyGoroutines(gs), mode, lvl, m)
		if mask(d2) != mask(doc) {
			det = "0"
		}
	}
	ti, tt := tokenize(doc), tokenize(tdoc)
	skel := "1"
	if strings.Join(ti.skeleton, "|") != strings.Join(tt.skeleton, "|") || errs != terr {
		skel = "0"
	}
	scheme := "1"
	for _, h := range ti.hrefs {
		if !(h == "" || strings.HasPrefix(h, "https://") || strings.HasPrefix(h, "file:///") || strings.HasPrefix(h, "data:image/gif;base64,")) {
			scheme = "0"
		}
	}
	// completeness: one h1 per bucket/goroutine, one tr per frame (+2 for an elided marker row)
	wantH1, wantTr := 0, 0
	var values string
	if mode == "agg" {
		wantH1 = len(buckets)
		for _, b := range buckets {
			wantTr += len(b.Stack.Calls)
			if b.Stack.Elided {
				wantTr += 2
			}
		}
		values = sexpBuckets(buckets)
	} else {
		wantH1 = len(gs)
		for _, g := range gs {
			wantTr += len(g.Stack.Calls)
			if g.Stack.Elided {
				wantTr += 2
			}
		}
		values = sexpGoroutines(gs)
	}
	// the metadata list: creation time, version, one or two GOROOTs, ONE item for all GOPATHs,
	// the module list and one item per module, GOMAXPROCS; one doctype, one content div.
	// (the footer is trusted input and comes after the legend: the generated footers contain none of
	// these elements)
	wantLi := 5
	if m.snap.LocalGOROOT != "" && m.snap.LocalGOROOT != m.snap.RemoteGOROOT {
		wantLi++
	}
	if len(m.snap.LocalGomods) != 0 {
		wantLi += 1 + len(m.snap.LocalGomods)
	}
	complete := "1"
	if ti.h1 != wantH1 || ti.tr != wantTr || ti.li != wantLi || ti.doctype != 1 || ti.divs != 1 {
		complete = "0"
	}
	var at []string
	for _, a := range ti.attrs {
		at = append(at, hexs([]byte(a)))
	}
	ats := strings.Join(at, ",")
	if ats == "" {
		ats = "-"
	}
	if errs == "" {
		errs = "-"
	}
	// the dynamic region of the document: <div id="content"> ... </div> (byte-exact model: Model/HtmlDoc.v)
	region := "-"
	if i := bytes.Index(doc, []byte(`<div id="content">`)); i >= 0 {
		if j := bytes.Index(doc[i:], []byte("</div>\n<h2>Metadata</h2>")); j >= 0 {
			region = hexs(doc[i : i+j+len("</div>")])
		}
	}
	emit("html", id, mode, hexs([]byte(runtime.Version())), values, ats, skel, scheme, complete, errs, det, region,
		m.String(), hexs([]byte(m.footer)), hexs([]byte(now)), strconv.Itoa(runtime.GOMAXPROCS(0)), hexs(doc))
}

func opHTML(r *rand.Rand, n int, tier string) {
	g := hgen{r}
	for i := 0; i < n; i++ {
		ng := 1 + r.Intn(4)
		var gs []*stack.Goroutine
		mode := "agg"
		if r.Intn(3) == 0 {
			mode = "snap"
		}
		for k := 0; k < ng; k++ {
			gr := &stack.Goroutine{Signature: g.sig(), ID: k*3 + 1, First: k == 0}
			if r.Intn(25) == 0 {
				// longer than the 100 frames the runtime prints: 51..120 frames, marked elided
				gr.Stack.Calls = nil
				for n := 51 + r.Intn(70); n > 0; n-- {
					gr.Stack.Calls = append(gr.Stack.Calls, g.call())
				}
				gr.Stack.Elided = true
			}
			if mode == "snap" {
				gr.RaceAddr = 0xc000001000 + uint64(r.Intn(100))
				gr.RaceWrite = r.Intn(2) == 0
			}
			gs = append(gs, gr)
		}
		emitHTML(fmt.Sprintf("html-%d", i), gs, mode, g.meta())
	}
}

func init() {
	replayers["html"] = func(id string, in []string) {
		var gs []*stack.Goroutine
		if in[0] == "agg" {
			for i, n := range parseSx(in[2]).head("bs") {
				// (b first (ids ...) sig)
				ids := n.list[2].head("ids")
				gs = append(gs, &stack.Goroutine{Signature: readSig(n.list[3]), ID: ids[0].int(), First: i == 0})
			}
		} else {
			gs = readGoroutines(in[2])
		}
		var m hmeta
		if len(in) >= 12 {
			m = parseHmeta(in[10], in[11])
		}
		emitHTML(id, gs, in[0], m)
	}
}
