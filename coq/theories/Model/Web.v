(* Model/Web.v — stack/webstack/webstack.go: the decision logic of
   SnapshotHandler (status code as a function of method, the three query
   parameters and whether scanning the captured dump failed) and the
   grow-and-retry capture loop of snapshot().  runtime.Stack is abstracted to
   the length of the dump it wants to write. *)
From PP Require Import Base.Bytes Base.BytesX Base.Num Base.GoResult Model.Types.
From Coq Require Import String.

(* strconv.Atoi: optional sign, decimal digits, no underscores, int64 range *)
Definition atoi (s : bytes) : option Z :=
  let '(neg, ds) := match s with
                    | 45%N :: r => (true, r)
                    | 43%N :: r => (false, r)
                    | _ => (false, s)
                    end in
  match ds with
  | [] => None
  | _ =>
      if forallb is_digit ds then
        let v := Z.of_N (fold_left (fun acc c => acc * 10 + (c - 48))%N ds 0%N) in
        let z := if neg then Z.opp v else v in
        if (Z.leb (-9223372036854775808) z && Z.leb z 9223372036854775807)%Z then Some z else None
      else None
  end.

Inductive status := S200 (lvl : Similarity) (augment : bool) (maxmem : Z) | S400 | S405 | S500.

Definition parse_similarity (s : bytes) : option Similarity :=
  if beq s (s2b "exactflags") then Some ExactFlags
  else if beq s (s2b "exactlines") then Some ExactLines
  else if beq s (s2b "anypointer") || beq s [] then Some AnyPointer
  else if beq s (s2b "anyvalue") then Some AnyValue
  else None.

(* scan_fails maxmem augment: does snapshot() return an error? (decided by the capture + C10) *)
Definition handler (method maxmem_s augment_s similarity_s : bytes) (scan_fails : Z -> bool -> bool) : status :=
  if negb (beq method (s2b "GET")) then S405 else
  let mm := match maxmem_s with [] => Some 67108864%Z | _ => atoi maxmem_s end in
  match mm with
  | None => S400
  | Some maxmem =>
      let au := match augment_s with
                | [] => Some true
                | _ => match atoi augment_s with
                       | Some 0%Z => Some false
                       | Some 1%Z => Some true
                       | _ => None
                       end
                end in
      match au with
      | None => S400
      | Some augment =>
          if scan_fails maxmem augment then S500 else
          match parse_similarity similarity_s with
          | None => S400
          | Some lvl => S200 lvl augment maxmem
          end
      end
  end.

Definition status_class (s : status) : nat :=
  match s with S200 _ _ _ => 200 | S400 => 400 | S405 => 405 | S500 => 500 end.

(* snapshot(): returns (final buffer length, bytes captured) for a dump of [dlen] bytes *)
Definition mib : Z := 1048576.
Fixpoint capture_loop (fuel : nat) (buflen maxmem dlen : Z) : option (Z * Z) :=
  match fuel with
  | O => None
  | S f =>
      let n := Z.min dlen buflen in
      if (n <? buflen)%Z then Some (buflen, n)
      else if (maxmem <=? buflen)%Z then Some (buflen, n)
      else capture_loop f (Z.min (buflen * 2) maxmem) maxmem dlen
  end.
Definition capture (maxmem dlen : Z) : option (Z * Z) :=
  capture_loop 64 mib (Z.max maxmem mib) dlen.
