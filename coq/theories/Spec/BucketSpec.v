(* Spec/BucketSpec.v — the bucket properties (C04, C05, C12, C13) as
   executable predicates over an arbitrary (snapshot, buckets) pair.  They are
   the statements of the theorems (applied to the model's [aggregate]) and, run
   on the implementation's output, the search oracle. Written without
   reference to similar/merge/less of the model. *)
From PP Require Import Base.Bytes Model.Types.

(* ---------- canonical key per similarity level (C05 reference) ---------- *)

Inductive cval :=
| CScalar (name : bytes) (toolarge isptr : bool) (v : N)
| CAgg (elided : bool) (fields : list cval).

Fixpoint canon_arg (lvl : Similarity) (a : Arg) : cval :=
  match a with
  | MkArg ag n v p tl _ fv _ fe =>
      if ag then
        CAgg fe ((fix go (l : list Arg) : list cval :=
                    match l with [] => [] | x :: l' => canon_arg lvl x :: go l' end) fv)
      else
        match lvl with
        | ExactFlags | ExactLines => CScalar n tl p v
        | AnyPointer => CScalar [] tl p (if p then 0%N else v)
        | AnyValue => CScalar [] false false 0%N
        end
  end.

Definition canon_args (lvl : Similarity) (a : Args) : bool * list cval :=
  (Elided a, map (canon_arg lvl) (Values a)).

Definition canon_call (lvl : Similarity) (c : Call) :=
  (Line c, Complete (CFunc c), RemoteSrcPath c, canon_args lvl (CArgs c)).

Definition canon_stack (lvl : Similarity) (s : Stack) := (SElided s, map (canon_call lvl) (Calls s)).

Definition canon_sig (lvl : Similarity) (s : Signature) :=
  (State s, canon_stack lvl (CreatedBy s),
   (match lvl with ExactFlags => Locked s | _ => false end),
   canon_stack lvl (SStack s)).

(* decidable equality of canonical keys *)
Fixpoint cval_eqb (a b : cval) : bool :=
  match a, b with
  | CScalar n1 t1 p1 v1, CScalar n2 t2 p2 v2 => beq n1 n2 && Bool.eqb t1 t2 && Bool.eqb p1 p2 && N.eqb v1 v2
  | CAgg e1 f1, CAgg e2 f2 =>
      Bool.eqb e1 e2 &&
      (fix go (l1 l2 : list cval) : bool :=
         match l1, l2 with
         | [], [] => true
         | x :: l1', y :: l2' => cval_eqb x y && go l1' l2'
         | _, _ => false
         end) f1 f2
  | _, _ => false
  end.
Fixpoint list_eqb {A} (eqb : A -> A -> bool) (l1 l2 : list A) : bool :=
  match l1, l2 with
  | [], [] => true
  | x :: l1', y :: l2' => eqb x y && list_eqb eqb l1' l2'
  | _, _ => false
  end.
Definition canon_args_eqb (a b : bool * list cval) : bool :=
  Bool.eqb (fst a) (fst b) && list_eqb cval_eqb (snd a) (snd b).
Definition canon_call_eqb (a b : Z * bytes * bytes * (bool * list cval)) : bool :=
  let '(l1, c1, r1, a1) := a in let '(l2, c2, r2, a2) := b in
  Z.eqb l1 l2 && beq c1 c2 && beq r1 r2 && canon_args_eqb a1 a2.
Definition canon_stack_eqb (a b : bool * list (Z * bytes * bytes * (bool * list cval))) : bool :=
  Bool.eqb (fst a) (fst b) && list_eqb canon_call_eqb (snd a) (snd b).
Definition canon_sig_eqb (lvl : Similarity) (a b : Signature) : bool :=
  let '(s1, c1, k1, t1) := canon_sig lvl a in let '(s2, c2, k2, t2) := canon_sig lvl b in
  beq s1 s2 && canon_stack_eqb c1 c2 && Bool.eqb k1 k2 && canon_stack_eqb t1 t2.

(* ---------- helpers ---------- *)
Definition memZ (x : Z) (l : list Z) : bool := existsb (Z.eqb x) l.
Fixpoint nodupZ (l : list Z) : bool :=
  match l with [] => true | x :: l' => negb (memZ x l') && nodupZ l' end.
Fixpoint sortedZ (l : list Z) : bool :=
  match l with
  | x :: ((y :: _) as l') => Z.leb x y && sortedZ l'
  | _ => true
  end.
Fixpoint insertZ (x : Z) (l : list Z) : list Z :=
  match l with [] => [x] | y :: l' => if Z.leb x y then x :: l else y :: insertZ x l' end.
Definition sortZ (l : list Z) : list Z := fold_right insertZ [] l.

Definition members (gs : list Goroutine) (b : Bucket) : list Goroutine :=
  filter (fun g => memZ (ID g) (IDs b)) gs.

(* ---------- C04: partition that conserves goroutines ---------- *)
(* For any snapshot: no bucket empty, ids sorted, the multiset of all bucket
   ids is the multiset of goroutine ids.  When the goroutine ids are distinct
   (what the runtime guarantees) this is: pairwise disjoint and covering, and
   a bucket is First iff it holds a First goroutine. *)
Definition c04_ok (gs : list Goroutine) (bs : list Bucket) : bool :=
  forallb (fun b => negb (Nat.eqb (List.length (IDs b)) 0) && sortedZ (IDs b)) bs &&
  list_eqb Z.eqb (sortZ (flat_map IDs bs)) (sortZ (map ID gs)) &&
  (if nodupZ (map ID gs) then
     forallb (fun b => Bool.eqb (BFirst b) (existsb First (members gs b))) bs
   else true).

(* ---------- C05: buckets are the classes of the canonical key ---------- *)
(* needs distinct ids to identify members *)
Definition bucket_index (bs : list Bucket) (id : Z) : option nat :=
  (fix go (l : list Bucket) (i : nat) :=
     match l with [] => None | b :: l' => if memZ id (IDs b) then Some i else go l' (S i) end) bs 0.
Definition opt_nat_eqb (a b : option nat) : bool :=
  match a, b with Some x, Some y => Nat.eqb x y | None, None => true | _, _ => false end.

Definition c05_ok (lvl : Similarity) (gs : list Goroutine) (bs : list Bucket) : bool :=
  if negb (nodupZ (map ID gs)) then true else
  forallb (fun g1 =>
    forallb (fun g2 =>
      Bool.eqb (opt_nat_eqb (bucket_index bs (ID g1)) (bucket_index bs (ID g2)))
               (canon_sig_eqb lvl (GSig g1) (GSig g2))) gs) gs.

(* ---------- C12: the bucket signature generalises its members ---------- *)
(* argument position by position: equal in all members => shown as in the
   members; otherwise the wildcard.  "equal" is equality of the ExactLines
   canonical value (name, too-large, pointer-ness, value; shape for aggregates). *)
Fixpoint c12_arg (b : Arg) (ms : list Arg) {struct b} : bool :=
  match b with
  | MkArg bag bn bv bp bt _ bfv _ bfe =>
      if forallb IsAggregate ms && negb (Nat.eqb (List.length ms) 0) then
        (* all members are aggregates: bucket is the aggregate of the merged fields *)
        bag && forallb (fun m => Bool.eqb (Elided (Fields m)) bfe &&
                                 Nat.eqb (List.length (Values (Fields m))) (List.length bfv)) ms &&
        (fix go (l : list Arg) (i : nat) {struct l} : bool :=
           match l with
           | [] => true
           | x :: l' => c12_arg x (flat_map (fun m => match nth_error (Values (Fields m)) i with
                                                      | Some y => [y] | None => [] end) ms)
                        && go l' (S i)
           end) bfv 0
      else
        match ms with
        | [] => true
        | m1 :: _ =>
            negb bag && negb (existsb IsAggregate ms) &&
            if forallb (fun m => cval_eqb (canon_arg ExactLines m) (canon_arg ExactLines m1)) ms
            then cval_eqb (canon_arg ExactLines b) (canon_arg ExactLines m1)
            else beq bn (s2b "*")
        end
  end.

Definition c12_args (b : Args) (ms : list Args) : bool :=
  forallb (fun m => Bool.eqb (Elided m) (Elided b) && Nat.eqb (List.length (Values m)) (List.length (Values b))) ms &&
  (fix go (l : list Arg) (i : nat) {struct l} : bool :=
     match l with
     | [] => true
     | x :: l' => c12_arg x (flat_map (fun m => match nth_error (Values m) i with
                                                | Some y => [y] | None => [] end) ms)
                  && go l' (S i)
     end) (Values b) 0.

Definition c12_call (b : Call) (ms : list Call) : bool :=
  forallb (fun m => Z.eqb (Line m) (Line b) && beq (Complete (CFunc m)) (Complete (CFunc b)) &&
                    beq (RemoteSrcPath m) (RemoteSrcPath b)) ms &&
  c12_args (CArgs b) (map CArgs ms).

Definition c12_stack (b : Stack) (ms : list Stack) : bool :=
  forallb (fun m => Bool.eqb (SElided m) (SElided b) && Nat.eqb (List.length (Calls m)) (List.length (Calls b))) ms &&
  (fix go (l : list Call) (i : nat) {struct l} : bool :=
     match l with
     | [] => true
     | x :: l' => c12_call x (flat_map (fun m => match nth_error (Calls m) i with
                                                 | Some y => [y] | None => [] end) ms)
                  && go l' (S i)
     end) (Calls b) 0.

Definition zmin_list (d : Z) (l : list Z) : Z := fold_right Z.min d l.
Definition zmax_list (d : Z) (l : list Z) : Z := fold_right Z.max d l.

Definition c12_bucket (gs : list Goroutine) (b : Bucket) : bool :=
  let ms := map GSig (members gs b) in
  match ms with
  | [] => true
  | m1 :: _ =>
      forallb (fun m => beq (State m) (State (BSig b))) ms &&
      (* creator: taken unchanged from the members (all equal under every level's similarity
         up to the level; here: frames' function, file, line) *)
      c12_stack (mkStack (map (fun c => mkCall (CFunc c) emptyArgs (RemoteSrcPath c) (Line c) (SrcName c) (DirSrc c)
                                               (LocalSrcPath c) (RelSrcPath c) (CImportPath c) (CLocation c))
                              (Calls (CreatedBy (BSig b)))) (SElided (CreatedBy (BSig b))))
                (map (fun m => mkStack (map (fun c => mkCall (CFunc c) emptyArgs (RemoteSrcPath c) (Line c) (SrcName c) (DirSrc c)
                                               (LocalSrcPath c) (RelSrcPath c) (CImportPath c) (CLocation c))
                                            (Calls (CreatedBy m))) (SElided (CreatedBy m))) ms) &&
      c12_stack (SStack (BSig b)) (map SStack ms) &&
      Z.eqb (SleepMin (BSig b)) (zmin_list (SleepMin m1) (map SleepMin ms)) &&
      Z.eqb (SleepMax (BSig b)) (zmax_list (SleepMax m1) (map SleepMax ms)) &&
      Bool.eqb (Locked (BSig b)) (existsb Locked ms)
  end.

Definition c12_ok (gs : list Goroutine) (bs : list Bucket) : bool :=
  if negb (nodupZ (map ID gs)) then true else forallb (c12_bucket gs) bs.

(* ---------- C13: order contract on a bucket list ---------- *)
Definition all_stdlib_no_main (b : Bucket) : bool :=
  forallb (fun c => loc_eqb (CLocation c) Stdlib && negb (IsPkgMain (CFunc c))) (Calls (SStack (BSig b))).
Definition has_user_code (b : Bucket) : bool :=
  existsb (fun c => IsPkgMain (CFunc c) || loc_eqb (CLocation c) GoMod || loc_eqb (CLocation c) GOPATH ||
                    loc_eqb (CLocation c) GoPkg) (Calls (SStack (BSig b))).

(* First leads; no stdlib-only bucket precedes a bucket with user code
   (the First bucket excepted, which leads whatever it contains) *)
Fixpoint c13_stdlib_last (bs : list Bucket) : bool :=
  match bs with
  | [] => true
  | b :: bs' =>
      (if all_stdlib_no_main b && negb (BFirst b)
       then negb (existsb (fun b' => has_user_code b' && negb (BFirst b')) bs') else true)
      && c13_stdlib_last bs'
  end.
Definition c13_first_leads (bs : list Bucket) : bool :=
  match bs with
  | [] => true
  | _ :: bs' => negb (existsb BFirst bs')
  end.
Definition c13_ok (bs : list Bucket) : bool := c13_first_leads bs && c13_stdlib_last bs.
