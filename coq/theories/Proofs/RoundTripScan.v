(* Proofs/RoundTripScan.v — C01: stepping the scanner through the lines of a
   printed goroutine, then through a whole printed dump, then ScanSnapshot. *)
From PP Require Import Base.Bytes Base.BytesX Base.Num Base.GoResult Model.Types Model.Reader Model.Lines
  Model.FuncInit Model.ParseArgs Model.Scan Model.Names Model.ScanSnapshot.
From PP Require Import Spec.Printer Spec.ReaderSpec Proofs.ScanInv Proofs.ReaderBase Proofs.ReaderProofs.
From PP Require Import Proofs.RoundTripNum Proofs.RoundTripArgs Proofs.RoundTripSym Proofs.RoundTripLines.

Local Open Scope N_scope.

(* ------------------------------------------------------------------ *)
(* 1. splitting the bracket text of a header                           *)
(* ------------------------------------------------------------------ *)

Definition csep : bytes := [44; 32].

Lemma csep_eq : s2b ", " = csep.
Proof. reflexivity. Qed.

Lemma index_sub_none_cons : forall x t,
  index_sub (x :: t) csep = None -> has_prefix (x :: t) csep = false /\ index_sub t csep = None.
Proof.
  intros x t H. cbn [index_sub] in H.
  destruct (has_prefix (x :: t) csep); [discriminate|]. split; [reflexivity|].
  destruct (index_sub t csep); [discriminate|reflexivity].
Qed.

Definition starts_comma (rest : bytes) : Prop :=
  match rest with [] => True | x :: _ => x = 44 end.

Lemma split_go_piece : forall t cur fuel rest,
  index_sub t csep = None -> starts_comma rest ->
  split_go (List.length t + fuel) (t ++ rest) csep cur = split_go fuel rest csep (rev t ++ cur).
Proof.
  induction t as [|x t IH]; intros cur fuel rest Hns Hrest; [reflexivity|].
  apply index_sub_none_cons in Hns as [Hp Hns].
  cbn [List.length Nat.add app split_go].
  assert (Hp' : has_prefix (x :: t ++ rest) csep = false).
  { unfold csep in *. cbn [has_prefix] in *.
    destruct (N.eqb x 44) eqn:Ex; [|reflexivity]. cbn [andb] in *.
    destruct t as [|y t].
    - destruct rest as [|z rest]; [reflexivity|]. cbn in Hrest. subst z. reflexivity.
    - cbn [app has_prefix] in *. rewrite has_prefix_nil in *. exact Hp. }
  rewrite Hp'. rewrite (IH (x :: cur) fuel rest Hns Hrest). cbn [rev]. rewrite <- app_assoc. reflexivity.
Qed.

Lemma split_go_nil' : forall fuel cur, split_go fuel [] csep cur = [rev cur].
Proof. intros [|fuel] cur; reflexivity. Qed.

Lemma split_go_csep : forall fuel rest cur,
  split_go (S fuel) (csep ++ rest) csep cur = rev cur :: split_go fuel rest csep [].
Proof. intros fuel rest cur. unfold csep. destruct rest; reflexivity. Qed.

Lemma join_cons2' : forall x y l sep, join (x :: y :: l) sep = x ++ sep ++ join (y :: l) sep.
Proof. reflexivity. Qed.

Lemma split_go_join' : forall l x cur fuel,
  Forall (fun t => index_sub t csep = None) (x :: l) -> (List.length (join (x :: l) csep) <= fuel)%nat ->
  split_go fuel (join (x :: l) csep) csep cur = (rev cur ++ x) :: l.
Proof.
  induction l as [|y l IH]; intros x cur fuel Hns Hfuel.
  - cbn [join] in *. inversion Hns as [|x0 l0 Hx _]; subst.
    replace fuel with (List.length x + (fuel - List.length x))%nat by lia.
    pose proof (split_go_piece x cur (fuel - List.length x) [] Hx I) as E.
    rewrite app_nil_r in E. rewrite E, split_go_nil'.
    rewrite rev_app_distr, rev_involutive. reflexivity.
  - inversion Hns as [|x0 l0 Hx Hrest]; subst.
    rewrite join_cons2' in *. rewrite !app_length in Hfuel. cbn [csep List.length] in Hfuel.
    replace fuel with (List.length x + S (fuel - List.length x - 1))%nat by lia.
    rewrite (split_go_piece x cur _ _ Hx) by reflexivity. rewrite split_go_csep.
    rewrite (IH y [] _ Hrest) by lia.
    rewrite rev_app_distr, rev_involutive. reflexivity.
Qed.

Lemma split_join_csep : forall l, l <> [] ->
  Forall (fun t => contains t (s2b ", ") = false) l -> split (join l (s2b ", ")) (s2b ", ") = l.
Proof.
  intros [|x l] Hne Hns; [contradiction|]. rewrite csep_eq. unfold split.
  rewrite (split_go_join' l x []); [reflexivity| |lia].
  revert Hns. apply Forall_impl. intros t Ht. rewrite csep_eq in Ht. unfold contains in Ht.
  destruct (index_sub t csep); [discriminate|reflexivity].
Qed.

Lemma no_comma_contains : forall t, no_byte 44 t = true -> contains t (s2b ", ") = false.
Proof.
  intros t H. rewrite csep_eq. unfold contains.
  assert (E : index_sub t csep = None); [|rewrite E; reflexivity].
  induction t as [|x t IH]; [reflexivity|].
  rewrite no_byte_cons in H. apply andb_true_iff in H as [Hx Ht].
  apply negb_true_iff in Hx. rewrite N.eqb_sym in Hx.
  cbn [index_sub]. unfold csep at 1. cbn [has_prefix]. rewrite Hx. cbn [andb].
  rewrite (IH Ht). reflexivity.
Qed.

(* ------------------------------------------------------------------ *)
(* 2. the header                                                       *)
(* ------------------------------------------------------------------ *)

(* the goroutine under construction *)
Definition gor (g : p_goroutine) (first : bool) (calls : list Call) (el : bool) (cr : list Call) : Goroutine :=
  mkGoroutine (mkSig (pg_state g) (mkStack cr false) (Z.of_N (pg_minutes g)) (Z.of_N (pg_minutes g))
                     (mkStack calls el) (pg_locked g))
              (Z.of_N (pg_id g)) first false 0.

Definition header_items_of (g : p_goroutine) : list bytes :=
  (if pg_minutes g =? 0 then [] else [N_to_dec (pg_minutes g) ++ s2b " minutes"]) ++
  (if pg_locked g then [s2b "locked to thread"] else []).

Definition bracket_text (g : p_goroutine) : bytes := join (pg_state g :: header_items_of g) (s2b ", ").

Lemma print_header_eq : forall g,
  print_header g =
  s2b "goroutine " ++ N_to_dec (pg_id g) ++ print_annot (pg_annot g) ++ s2b " [" ++ bracket_text g ++ s2b "]:".
Proof.
  intros g. unfold print_header, bracket_text, header_items_of.
  destruct (pg_minutes g =? 0); destruct (pg_locked g); cbn [app join];
    rewrite <- ?app_assoc; reflexivity.
Qed.

Lemma wf_state_spec : forall s, wf_state s = true ->
  s <> [] /\ no_byte 93 s = true /\ no_byte LF s = true /\ contains s (s2b ", ") = false.
Proof.
  intros s H. unfold wf_state in H.
  apply andb_true_iff in H as [H H4]. apply andb_true_iff in H as [H H3].
  apply andb_true_iff in H as [H1 H2].
  split; [destruct s; [discriminate|discriminate]|]. split; [exact H2|]. split; [exact H3|].
  apply negb_true_iff. exact H4.
Qed.

Lemma minutes_item_no_byte : forall c n, is_digit c = false -> no_byte c (s2b " minutes") = true ->
  no_byte c (N_to_dec n ++ s2b " minutes") = true.
Proof. intros c n Hc Hl. rewrite no_byte_app, (dec_no_byte c n Hc), Hl. reflexivity. Qed.

Lemma bracket_text_no_byte : forall c g,
  no_byte c (pg_state g) = true -> is_digit c = false ->
  no_byte c (s2b ",  minutes locked to thread") = true ->
  no_byte c (bracket_text g) = true.
Proof.
  intros c g Hs Hd Hl. unfold bracket_text, header_items_of.
  assert (Hc : forall l, no_byte c l = negb (existsb (N.eqb c) l)) by reflexivity.
  assert (H1 : no_byte c (s2b ", ") = true).
  { destruct (no_byte c (s2b ", ")) eqn:E; [reflexivity|].
    unfold no_byte in *. apply negb_false_iff in E. apply negb_true_iff in Hl.
    cbn [s2b list_ascii_of_string map existsb] in *.
    apply orb_true_iff in E as [E|E]; [rewrite E in Hl; discriminate|].
    apply orb_true_iff in E as [E|E]; [|discriminate].
    rewrite E in Hl. rewrite orb_true_r in Hl. discriminate. }
  assert (H2 : no_byte c (s2b " minutes") = true).
  { change (s2b ",  minutes locked to thread") with (s2b ", " ++ s2b " minutes" ++ s2b " locked to thread") in Hl.
    rewrite !no_byte_app in Hl. apply andb_true_iff in Hl as [_ Hl]. apply andb_true_iff in Hl as [Hl _]. exact Hl. }
  assert (H3 : no_byte c (s2b "locked to thread") = true).
  { change (s2b ",  minutes locked to thread") with (s2b ",  minutes " ++ s2b "locked to thread") in Hl.
    rewrite !no_byte_app in Hl. apply andb_true_iff in Hl as [_ Hl]. exact Hl. }
  destruct (pg_minutes g =? 0); destruct (pg_locked g); cbn [app join];
    rewrite ?no_byte_app, ?Hs, ?H1, ?H3, ?(dec_no_byte c _ Hd), ?H2; reflexivity.
Qed.

Lemma bracket_text_nonempty : forall g, pg_state g <> [] -> bracket_text g <> [].
Proof.
  intros g H. unfold bracket_text. destruct (header_items_of g) as [|y l]; [exact H|].
  rewrite join_cons2'. intros C. apply app_eq_nil in C as [C _]. contradiction.
Qed.

Lemma split_bracket_text : forall g, wf_state (pg_state g) = true ->
  split (bracket_text g) (s2b ", ") = pg_state g :: header_items_of g.
Proof.
  intros g Hwf. destruct (wf_state_spec _ Hwf) as (_ & _ & _ & Hc).
  unfold bracket_text. apply split_join_csep; [discriminate|].
  constructor; [exact Hc|]. unfold header_items_of.
  apply Forall_app. split.
  - destruct (pg_minutes g =? 0); constructor; [|constructor].
    apply no_comma_contains. apply minutes_item_no_byte; reflexivity.
  - destruct (pg_locked g); constructor; [reflexivity|constructor].
Qed.

Lemma header_items_minutes : forall n items sleep locked,
  wf_num n = true ->
  header_items ((N_to_dec n ++ s2b " minutes") :: items) sleep locked = header_items items n locked.
Proof.
  intros n items sleep locked Hn. cbn [header_items].
  assert (Hb : beq (N_to_dec n ++ s2b " minutes") (s2b "locked to thread") = false).
  { pose proof (N_to_dec_digits n) as Hd. pose proof (N_to_dec_nonempty n) as Hne.
    destruct (N_to_dec n) as [|d t]; [congruence|].
    cbn [forallb] in Hd. apply andb_true_iff in Hd as [Hd _].
    apply beq_neq. intros C. injection C as C _. subst d. discriminate. }
  rewrite Hb. unfold match_minutes.
  rewrite (span_app is_digit (N_to_dec n) (s2b " minutes")); [|apply N_to_dec_digits|reflexivity].
  rewrite dec_nonempty_b, beq_refl. cbn [andb]. rewrite (atou_N_to_dec_wf n Hn). reflexivity.
Qed.

Lemma header_items_of_spec : forall g, wf_num (pg_minutes g) = true ->
  header_items (header_items_of g) 0 false = (pg_minutes g, pg_locked g).
Proof.
  intros g Hn. unfold header_items_of.
  destruct (pg_minutes g =? 0) eqn:E.
  - apply N.eqb_eq in E. rewrite E. destruct (pg_locked g); reflexivity.
  - cbn [app]. rewrite header_items_minutes by exact Hn. destruct (pg_locked g); reflexivity.
Qed.

(* (e.1) a printed header line starts a new goroutine *)
Theorem try_header_print : forall s ind g,
  forallb is_space_tab ind = true ->
  wf_num (pg_id g) = true -> wf_state (pg_state g) = true -> wf_num (pg_minutes g) = true ->
  wf_annot (pg_annot g) = true ->
  try_header s (ind ++ print_header g) =
  Some (mkSS (goroutines s ++ [gor g (match goroutines s with [] => true | _ => false end) [] false []])
             gotRoutineHeader (sprefix s ++ ind) (gindex s)).
Proof.
  intros s ind g Hind Hid Hstate Hmin Hannot.
  destruct (wf_state_spec _ Hstate) as (Hne & H93 & _ & _).
  unfold try_header. rewrite print_header_eq.
  rewrite (match_routine_header_print ind (pg_id g) (pg_annot g) (bracket_text g) Hind Hannot).
  - rewrite (atou_N_to_dec_wf _ Hid), (split_bracket_text g Hstate).
    cbn [tl hd]. rewrite (header_items_of_spec g Hmin). reflexivity.
  - apply bracket_text_nonempty. exact Hne.
  - apply bracket_text_no_byte; [exact H93|reflexivity|reflexivity].
Qed.

(* ------------------------------------------------------------------ *)
(* 3. end of line and indentation                                      *)
(* ------------------------------------------------------------------ *)

Definition no_cr_end (t : bytes) : Prop := last_opt t <> Some CR.

Lemma no_cr_end_suffix : forall (p : N -> bool) a b,
  b <> [] -> forallb p b = true -> p CR = false -> no_cr_end (a ++ b).
Proof.
  intros p a b Hne Hp Hcr. destruct (exists_last Hne) as (b' & x & ->).
  rewrite forallb_app in Hp. apply andb_true_iff in Hp as [_ Hp]. cbn [forallb] in Hp.
  apply andb_true_iff in Hp as [Hx _].
  unfold no_cr_end. rewrite app_assoc, last_opt_app_cons. intros C. injection C as ->. congruence.
Qed.

Lemma no_cr_end_forallb : forall (p : N -> bool) t, forallb p t = true -> p CR = false -> no_cr_end t.
Proof.
  intros p t Hp Hcr. destruct t as [|x t]; [discriminate|].
  apply (no_cr_end_suffix p [] (x :: t)); [discriminate|exact Hp|exact Hcr].
Qed.

Lemma scan_tr_eol : forall s v t, no_cr_end t -> scan_tr s (t ++ eol v) = Some t.
Proof.
  intros s v t Hcr. unfold scan_tr, eol. destruct (pv_crlf v).
  - rewrite RoundTripLines.strip_suffix_app. reflexivity.
  - assert (E : strip_suffix [CR; LF] (t ++ [LF]) = None).
    { unfold strip_suffix. destruct (has_suffix (t ++ [LF]) [CR; LF]) eqn:Hs; [|reflexivity].
      exfalso. apply has_suffix_spec in Hs. change [CR; LF] with ([CR] ++ [LF]) in Hs.
      rewrite app_assoc in Hs. apply app_inj_tail in Hs as [Hs _].
      apply Hcr. rewrite Hs. apply last_opt_app_cons. }
    rewrite E, RoundTripLines.strip_suffix_app. reflexivity.
Qed.

Lemma scan_pre_ind : forall s l, scan_pre s (sprefix s ++ l) = (s, Some l).
Proof.
  intros s l. unfold scan_pre. destruct (sprefix s) as [|y p] eqn:Hp.
  - cbn [app]. destruct l; reflexivity.
  - change ((y :: p) ++ l) with (y :: (p ++ l)). cbv iota.
    change (y :: (p ++ l)) with ((y :: p) ++ l). rewrite strip_prefix_app. reflexivity.
Qed.

Lemma scan_pre_nil : forall s, scan_pre s [] = (s, Some []).
Proof. intros s. unfold scan_pre. destruct (sprefix s); reflexivity. Qed.

(* a printed line, once the indentation of the dump is known *)
Lemma scan_phys : forall s v l,
  sprefix s = pv_indent v -> no_cr_end (pv_indent v ++ l) ->
  scan s (phys_line v l) = scan_body s l.
Proof.
  intros s v l Hpre Hcr. rewrite scan_unfold. unfold phys_line.
  rewrite app_assoc, (scan_tr_eol s v _ Hcr), <- Hpre, scan_pre_ind. reflexivity.
Qed.

(* ... and before it is known *)
Lemma scan_phys_first : forall s v l,
  sprefix s = [] -> no_cr_end (pv_indent v ++ l) ->
  scan s (phys_line v l) = scan_body s (pv_indent v ++ l).
Proof.
  intros s v l Hpre Hcr. rewrite scan_unfold. unfold phys_line.
  rewrite app_assoc, (scan_tr_eol s v _ Hcr), (scan_pre_noprefix _ _ Hpre). reflexivity.
Qed.

Lemma space_tab_no_cr : forall ind, forallb is_space_tab ind = true -> no_cr_end ind.
Proof. intros ind H. apply (no_cr_end_forallb is_space_tab); [exact H|reflexivity]. Qed.

Lemma scan_blank : forall s v,
  sprefix s = pv_indent v -> forallb is_space_tab (pv_indent v) = true ->
  scan s (blank_line v) = scan_body s [].
Proof.
  intros s v Hpre Hind. rewrite scan_unfold. unfold blank_line.
  destruct (pv_blank_indents v).
  - rewrite (scan_tr_eol s v _ (space_tab_no_cr _ Hind)).
    rewrite <- (app_nil_r (pv_indent v)), <- Hpre, scan_pre_ind. reflexivity.
  - change ([] ++ eol v) with (@nil N ++ eol v).
    rewrite (scan_tr_eol s v []) by discriminate. rewrite scan_pre_nil. reflexivity.
Qed.

(* no printed line ends with a carriage return *)
Definition not_cr (c : N) : bool := negb (c =? 13).

Lemma header_no_cr : forall ind g, no_cr_end (ind ++ print_header g).
Proof.
  intros ind g. unfold print_header. rewrite !app_assoc.
  apply (no_cr_end_suffix not_cr); [discriminate|reflexivity|reflexivity].
Qed.

Lemma func_line_no_cr : forall ind s args el, no_cr_end (ind ++ print_func_line s args el).
Proof.
  intros ind s args el. unfold print_func_line. rewrite !app_assoc.
  apply (no_cr_end_suffix not_cr); [discriminate|reflexivity|reflexivity].
Qed.

Lemma hex0x_no_cr : forall a v, no_cr_end (a ++ hex0x v).
Proof.
  intros a v. unfold hex0x. rewrite app_assoc.
  apply (no_cr_end_suffix is_lower_hex); [apply N_to_hex_nonempty|apply N_to_hex_lower|reflexivity].
Qed.

Lemma file_line_no_cr : forall ind fi file line off regs,
  no_cr_end (ind ++ print_file_line fi file line off regs).
Proof.
  intros ind fi file line off regs. unfold print_file_line.
  destruct regs as [[fp sp pc]|].
  - unfold print_regs. cbn [r_fp r_sp r_pc]. destruct pc as [pc|].
    + rewrite !app_assoc. apply hex0x_no_cr.
    + rewrite app_nil_r, !app_assoc. apply hex0x_no_cr.
  - cbn [print_regs]. rewrite app_nil_r. destruct off as [o|].
    + unfold print_off. rewrite !app_assoc. apply hex0x_no_cr.
    + cbn [print_off]. rewrite app_nil_r, !app_assoc.
      apply (no_cr_end_suffix is_digit); [apply N_to_dec_nonempty|apply N_to_dec_digits|reflexivity].
Qed.

Lemma unavail_no_cr : forall ind fi, no_cr_end (ind ++ print_findent fi ++ unavailable_text).
Proof.
  intros ind fi. rewrite app_assoc.
  apply (no_cr_end_suffix not_cr); [discriminate|reflexivity|reflexivity].
Qed.

Lemma elide_no_cr : forall ind e, no_cr_end (ind ++ print_elide e).
Proof.
  intros ind [|n]; unfold print_elide.
  - apply (no_cr_end_suffix not_cr); [discriminate|reflexivity|reflexivity].
  - rewrite !app_assoc. apply (no_cr_end_suffix not_cr); [discriminate|reflexivity|reflexivity].
Qed.

Lemma nosp_cr : nosp CR = false.
Proof. reflexivity. Qed.

Lemma created_line_no_cr : forall ind s gid, wf_sym s = true ->
  no_cr_end (ind ++ s2b "created by " ++ sym_raw s ++ in_goroutine_text gid).
Proof.
  intros ind s gid Hwf. destruct gid as [n|].
  - unfold in_goroutine_text. rewrite !app_assoc.
    apply (no_cr_end_suffix is_digit); [apply N_to_dec_nonempty|apply N_to_dec_digits|reflexivity].
  - cbn [in_goroutine_text]. rewrite app_nil_r, !app_assoc.
    apply (no_cr_end_suffix nosp); [apply sym_raw_nonempty; exact Hwf|apply sym_raw_nosp; exact Hwf|reflexivity].
Qed.

(* ------------------------------------------------------------------ *)
(* 4. one line, one transition                                         *)
(* ------------------------------------------------------------------ *)

Lemma upd_last_app1 : forall (A : Type) (f : A -> A) (l : list A) x, upd_last f (l ++ [x]) = l ++ [f x].
Proof.
  intros A f l x. induction l as [|y l IH]; [reflexivity|].
  cbn [app upd_last]. destruct (l ++ [x]) eqn:E; [destruct l; discriminate|].
  rewrite IH. reflexivity.
Qed.

Lemma with_cur_app1 : forall gs cur x ind gi k,
  with_cur (mkSS (gs ++ [cur]) x ind gi) k = k cur.
Proof. intros. unfold with_cur. cbn [goroutines]. rewrite last_opt_app1. reflexivity. Qed.

Lemma set_cur_app1 : forall gs cur x ind gi g',
  set_cur (mkSS (gs ++ [cur]) x ind gi) g' = mkSS (gs ++ [g']) x ind gi.
Proof. intros. unfold set_cur, with_gs. cbn [goroutines st sprefix gindex]. rewrite upd_last_app1. reflexivity. Qed.

(* the call a function line yields, before its file line is read *)
Definition pre_call (s : p_sym) (args : list p_arg) (ael : bool) : Call :=
  mkCall (func_of s []) (args_of args ael) [] 0 [] [] [] [] (FImportPath (func_of s [])) LocationUnknown.

Theorem parse_func_print : forall s args ael,
  wf_sym s = true -> wf_args args = true ->
  parse_func (print_func_line s args ael) = Ok (Some (pre_call s args ael, None)).
Proof.
  intros s args ael Hs Ha. unfold parse_func.
  rewrite (match_func_print_line s args ael (sym_raw_nonempty s Hs)).
  pose proof (func_init_sym_raw s None Hs) as Hf. cbn [in_goroutine_text] in Hf.
  rewrite app_nil_r in Hf. rewrite Hf. cbn [bind].
  rewrite (parse_args_print_args args ael Ha). reflexivity.
Qed.

Lemma parse_func_nil : parse_func [] = Ok None.
Proof. reflexivity. Qed.

Definition fi_ok (fi : p_findent) : Prop :=
  match fi with FISpaces k => (0 < k)%nat | FITab => True end.

(* header, from looking or betweenRoutine *)
Lemma step_header : forall s ind g,
  st s = looking \/ st s = betweenRoutine ->
  forallb is_space_tab ind = true ->
  wf_num (pg_id g) = true -> wf_state (pg_state g) = true -> wf_num (pg_minutes g) = true ->
  wf_annot (pg_annot g) = true ->
  scan_body s (ind ++ print_header g) =
  ret (mkSS (goroutines s ++ [gor g (match goroutines s with [] => true | _ => false end) [] false []])
            gotRoutineHeader (sprefix s ++ ind) (gindex s)) true None.
Proof.
  intros s ind g Hst Hind Hid Hstate Hmin Hannot.
  assert (E : scan_body s (ind ++ print_header g) = header_or_end (ind ++ print_header g) s).
  { unfold scan_body. destruct Hst as [-> | ->]; reflexivity. }
  rewrite E. unfold header_or_end.
  rewrite (try_header_print s ind g Hind Hid Hstate Hmin Hannot). reflexivity.
Qed.

Lemma step_unavail : forall gs g f ind gi fi,
  fi_ok fi ->
  scan_body (mkSS (gs ++ [gor g f [] false []]) gotRoutineHeader ind gi) (print_findent fi ++ unavailable_text) =
  ret (mkSS (gs ++ [gor g f [unavailable_call] false []]) gotUnavail ind gi) true None.
Proof.
  intros gs g f ind gi fi Hfi. unfold scan_body. cbn [st]. rewrite with_cur_app1.
  rewrite (match_unavail_print fi Hfi). rewrite set_cur_app1. reflexivity.
Qed.

Lemma func_step_print : forall gs g f calls el ind gi x s args ael nf,
  wf_sym s = true -> wf_args args = true ->
  func_step (mkSS (gs ++ [gor g f calls el []]) x ind gi) (print_func_line s args ael) gotFunc add_call_cur nf =
  ret (mkSS (gs ++ [gor g f (calls ++ [pre_call s args ael]) el []]) gotFunc ind gi) true None.
Proof.
  intros gs g f calls el ind gi x s args ael nf Hs Ha. unfold func_step.
  rewrite (parse_func_print s args ael Hs Ha). cbn [bind].
  unfold add_call_cur. cbn [goroutines]. rewrite last_opt_app1. cbn [bind].
  rewrite set_cur_app1. reflexivity.
Qed.

Lemma step_func : forall gs g f calls el ind gi x s args ael,
  x = gotRoutineHeader \/ x = gotFileFunc ->
  wf_sym s = true -> wf_args args = true ->
  scan_body (mkSS (gs ++ [gor g f calls el []]) x ind gi) (print_func_line s args ael) =
  ret (mkSS (gs ++ [gor g f (calls ++ [pre_call s args ael]) el []]) gotFunc ind gi) true None.
Proof.
  intros gs g f calls el ind gi x s args ael Hx Hs Ha. unfold scan_body. cbn [st].
  destruct Hx as [-> | ->]; rewrite with_cur_app1.
  - rewrite (match_unavail_func_line s args ael Hs). apply func_step_print; assumption.
  - rewrite (match_created_func_line s args ael Hs), (is_frames_elided_func_line s args ael).
    apply func_step_print; assumption.
Qed.

Lemma step_file : forall gs g f calls el ind gi fi fr,
  fi_ok fi -> wf_file fi (pf_file fr) = true -> wf_num (pf_line fr) = true ->
  scan_body (mkSS (gs ++ [gor g f (calls ++ [pre_call (pf_sym fr) (pf_args fr) (pf_elided fr)]) el []]) gotFunc ind gi)
            (print_file_line fi (pf_file fr) (pf_line fr) (pf_off fr) (pf_regs fr)) =
  ret (mkSS (gs ++ [gor g f (calls ++ [call_of_frame fr]) el []]) gotFileFunc ind gi) true None.
Proof.
  intros gs g f calls el ind gi fi fr Hfi Hfile Hline. unfold scan_body. cbn [st].
  rewrite with_cur_app1. unfold file_step.
  cbn [gor GSig SStack Calls]. rewrite last_opt_app1.
  unfold pre_call. rewrite (parse_file_print fi _ _ _ _ _ (pf_off fr) (pf_regs fr) Hfile Hfi Hline).
  rewrite set_cur_app1, upd_last_app1. reflexivity.
Qed.

Lemma step_elide : forall gs g f calls el ind gi e,
  scan_body (mkSS (gs ++ [gor g f calls el []]) gotFileFunc ind gi) (print_elide e) =
  ret (mkSS (gs ++ [gor g f calls true []]) gotFileFunc ind gi) true None.
Proof.
  intros gs g f calls el ind gi e. unfold scan_body. cbn [st]. rewrite with_cur_app1.
  rewrite match_created_elide, is_frames_elided_print, set_cur_app1. reflexivity.
Qed.

(* the call a "created by" line yields, before its file line is read *)
Definition pre_created (c : p_creator) (ip : bytes) : Call :=
  mkCall (func_of (pc_sym c) (in_goroutine_text (pc_gid c))) emptyArgs [] 0 [] [] [] [] ip LocationUnknown.

Lemma step_created : forall gs g f calls el ind gi x c,
  x = gotFileFunc \/ x = gotUnavail ->
  wf_sym (pc_sym c) = true ->
  exists ip,
  scan_body (mkSS (gs ++ [gor g f calls el []]) x ind gi)
            (s2b "created by " ++ sym_raw (pc_sym c) ++ in_goroutine_text (pc_gid c)) =
  ret (mkSS (gs ++ [gor g f calls el [pre_created c ip]]) gotCreated ind gi) true None.
Proof.
  intros gs g f calls el ind gi x c Hx Hs.
  assert (Hne : sym_raw (pc_sym c) ++ in_goroutine_text (pc_gid c) <> []).
  { intros C. apply app_eq_nil in C as [C _]. exact (sym_raw_nonempty _ Hs C). }
  pose proof (match_created_print _ Hne) as Hm.
  pose proof (func_init_sym_raw (pc_sym c) (pc_gid c) Hs) as Hf.
  destruct Hx as [-> | ->].
  - exists (FImportPath (func_of (pc_sym c) (in_goroutine_text (pc_gid c)))).
    unfold scan_body. cbn [st]. rewrite with_cur_app1, Hm.
    unfold created_step. rewrite Hf. cbn [bind]. rewrite set_cur_app1. reflexivity.
  - exists [].
    unfold scan_body. cbn [st].
    change (s2b "created by " ++ sym_raw (pc_sym c) ++ in_goroutine_text (pc_gid c))
      with (99 :: (s2b "reated by " ++ sym_raw (pc_sym c) ++ in_goroutine_text (pc_gid c))).
    cbv iota.
    change (99 :: (s2b "reated by " ++ sym_raw (pc_sym c) ++ in_goroutine_text (pc_gid c)))
      with (s2b "created by " ++ sym_raw (pc_sym c) ++ in_goroutine_text (pc_gid c)).
    rewrite with_cur_app1, Hm.
    unfold created_step. rewrite Hf. cbn [bind]. rewrite set_cur_app1. reflexivity.
Qed.

Lemma step_created_file : forall gs g f calls el ind gi fi c ip,
  fi_ok fi -> wf_file fi (pc_file c) = true -> wf_num (pc_line c) = true ->
  scan_body (mkSS (gs ++ [gor g f calls el [pre_created c ip]]) gotCreated ind gi)
            (print_file_line fi (pc_file c) (pc_line c) (pc_off c) None) =
  ret (mkSS (gs ++ [gor g f calls el [call_of_creator c]]) gotFileCreated ind gi) true None.
Proof.
  intros gs g f calls el ind gi fi c ip Hfi Hfile Hline. unfold scan_body. cbn [st].
  rewrite with_cur_app1. cbn [gor GSig CreatedBy Calls]. unfold pre_created.
  rewrite (parse_file_print fi _ _ _ _ _ (pc_off c) None Hfile Hfi Hline).
  rewrite set_cur_app1. reflexivity.
Qed.

Lemma step_blank : forall gs cur ind gi x,
  x = gotFileFunc \/ x = gotFileCreated \/ x = gotUnavail ->
  scan_body (mkSS (gs ++ [cur]) x ind gi) [] = ret (mkSS (gs ++ [cur]) betweenRoutine ind gi) true None.
Proof.
  intros gs cur ind gi x [-> | [-> | ->]]; unfold scan_body; cbn [st]; [|reflexivity|reflexivity].
  rewrite with_cur_app1. reflexivity.
Qed.

(* ------------------------------------------------------------------ *)
(* 5. runs of accepted lines                                           *)
(* ------------------------------------------------------------------ *)

(* every line is accepted (flag true, no error) from a state that is not done *)
Fixpoint steps (s : sstate) (lines : list bytes) : option sstate :=
  match lines with
  | [] => Some s
  | l :: ls =>
      if state_eqb (st s) done then None else
      match scan s l with
      | Ok (s', true, None) => steps s' ls
      | _ => None
      end
  end.

Lemma steps_app : forall l1 l2 s s1,
  steps s l1 = Some s1 -> steps s (l1 ++ l2) = steps s1 l2.
Proof.
  induction l1 as [|l l1 IH]; intros l2 s s1 H.
  - cbn in H. injection H as <-. reflexivity.
  - cbn [app steps] in *. destruct (state_eqb (st s) done); [discriminate|].
    destruct (scan s l) as [[[s' [|]] [e|]]|m]; try discriminate. apply IH. exact H.
Qed.

Lemma steps_one : forall s l s',
  state_eqb (st s) done = false -> scan s l = ret s' true None -> steps s [l] = Some s'.
Proof. intros s l s' Hd H. cbn [steps]. rewrite Hd, H. reflexivity. Qed.

Lemma steps_cons : forall s l ls s',
  state_eqb (st s) done = false -> scan s l = ret s' true None -> steps s (l :: ls) = steps s' ls.
Proof. intros s l ls s' Hd H. cbn [steps]. rewrite Hd, H. reflexivity. Qed.

Definition elide_hit (i n : nat) (elide : option (nat * p_elide)) : bool :=
  match elide with Some (k, _) => Nat.leb i k && Nat.ltb k (i + n) | None => false end.
Definition elide_at (i : nat) (elide : option (nat * p_elide)) : bool :=
  match elide with Some (k, _) => Nat.eqb k i | None => false end.

Lemma elide_hit_0 : forall i elide, elide_hit i 0 elide = false.
Proof.
  intros i [[k e]|]; [|reflexivity]. cbn [elide_hit].
  destruct (Nat.leb i k) eqn:E1; [|reflexivity]. apply Nat.leb_le in E1.
  cbn [andb]. apply Nat.ltb_ge. lia.
Qed.

Lemma elide_hit_S : forall i n elide, elide_hit i (S n) elide = elide_at i elide || elide_hit (S i) n elide.
Proof.
  intros i n [[k e]|]; [|reflexivity]. cbn [elide_hit elide_at].
  destruct (Nat.eqb_spec k i) as [E0|E0]; destruct (Nat.leb_spec i k) as [E1|E1];
    destruct (Nat.ltb_spec k (i + S n)) as [E2|E2]; destruct (Nat.leb_spec (S i) k) as [E3|E3];
    destruct (Nat.ltb_spec k (S i + n)) as [E4|E4]; try reflexivity; exfalso; lia.
Qed.

Lemma wf_frame_spec : forall fi fr, wf_frame fi fr = true ->
  wf_sym (pf_sym fr) = true /\ wf_args (pf_args fr) = true /\
  wf_file fi (pf_file fr) = true /\ wf_num (pf_line fr) = true.
Proof.
  intros fi fr H. unfold wf_frame in H.
  apply andb_true_iff in H as [H H4]. apply andb_true_iff in H as [H H3].
  apply andb_true_iff in H as [H1 H2]. tauto.
Qed.

Section Run.
Variable v : p_variant.
Hypothesis Hind : forallb is_space_tab (pv_indent v) = true.
Hypothesis Hfi : fi_ok (pv_findent v).

Let fi := pv_findent v.
Let ind := pv_indent v.

Lemma steps_frame : forall gs g f calls el gi x fr,
  x = gotRoutineHeader \/ x = gotFileFunc ->
  wf_frame fi fr = true ->
  steps (mkSS (gs ++ [gor g f calls el []]) x ind gi) (map (phys_line v) (print_frame_lines fi fr)) =
  Some (mkSS (gs ++ [gor g f (calls ++ [call_of_frame fr]) el []]) gotFileFunc ind gi).
Proof.
  intros gs g f calls el gi x fr Hx Hwf.
  destruct (wf_frame_spec _ _ Hwf) as (Hs & Ha & Hfile & Hline).
  cbn [print_frame_lines map].
  rewrite (steps_cons _ _ _ (mkSS (gs ++ [gor g f (calls ++ [pre_call (pf_sym fr) (pf_args fr) (pf_elided fr)]) el []]) gotFunc ind gi)).
  - apply steps_one; [reflexivity|].
    rewrite scan_phys; [|reflexivity|apply file_line_no_cr].
    apply step_file; assumption.
  - destruct Hx as [-> | ->]; reflexivity.
  - rewrite scan_phys; [|reflexivity|apply func_line_no_cr].
    apply step_func; assumption.
Qed.

Lemma steps_marker : forall gs g f calls el gi i elide,
  steps (mkSS (gs ++ [gor g f calls el []]) gotFileFunc ind gi)
        (map (phys_line v) (match elide with
                            | Some (k, e) => if Nat.eqb k i then [print_elide e] else []
                            | None => []
                            end)) =
  Some (mkSS (gs ++ [gor g f calls (el || elide_at i elide) []]) gotFileFunc ind gi).
Proof.
  intros gs g f calls el gi i [[k e]|]; cbn [elide_at]; [|rewrite orb_false_r; reflexivity].
  destruct (Nat.eqb k i); [|rewrite orb_false_r; reflexivity].
  rewrite orb_true_r. cbn [map]. apply steps_one; [reflexivity|].
  rewrite scan_phys; [|reflexivity|apply elide_no_cr]. apply step_elide.
Qed.

Lemma steps_frames : forall fs i gs g f calls el gi elide,
  forallb (wf_frame fi) fs = true ->
  steps (mkSS (gs ++ [gor g f calls el []]) gotFileFunc ind gi)
        (map (phys_line v) (print_frames_lines fi i fs elide)) =
  Some (mkSS (gs ++ [gor g f (calls ++ map call_of_frame fs) (el || elide_hit i (List.length fs) elide) []])
             gotFileFunc ind gi).
Proof.
  induction fs as [|fr fs IH]; intros i gs g f calls el gi elide Hwf.
  - cbn [print_frames_lines map steps List.length]. rewrite elide_hit_0, orb_false_r, app_nil_r. reflexivity.
  - cbn [forallb] in Hwf. apply andb_true_iff in Hwf as [Hfr Hfs].
    cbn [print_frames_lines]. rewrite !map_app.
    rewrite (steps_app _ _ _ _ (steps_frame gs g f calls el gi gotFileFunc fr (or_intror eq_refl) Hfr)).
    rewrite (steps_app _ _ _ _ (steps_marker gs g f _ el gi i elide)).
    rewrite (IH (S i) gs g f _ _ gi elide Hfs).
    cbn [map List.length]. rewrite elide_hit_S, <- app_assoc, orb_assoc. reflexivity.
Qed.

Lemma steps_frames_ne : forall fr fs gs g f gi elide,
  forallb (wf_frame fi) (fr :: fs) = true ->
  steps (mkSS (gs ++ [gor g f [] false []]) gotRoutineHeader ind gi)
        (map (phys_line v) (print_frames_lines fi 0 (fr :: fs) elide)) =
  Some (mkSS (gs ++ [gor g f (map call_of_frame (fr :: fs)) (elide_hit 0 (List.length (fr :: fs)) elide) []])
             gotFileFunc ind gi).
Proof.
  intros fr fs gs g f gi elide Hwf.
  cbn [forallb] in Hwf. apply andb_true_iff in Hwf as [Hfr Hfs].
  cbn [print_frames_lines]. rewrite !map_app.
  rewrite (steps_app _ _ _ _ (steps_frame gs g f [] false gi gotRoutineHeader fr (or_introl eq_refl) Hfr)).
  rewrite (steps_app _ _ _ _ (steps_marker gs g f _ false gi 0%nat elide)).
  rewrite (steps_frames fs 1%nat gs g f _ _ gi elide Hfs).
  cbn [map List.length app]. rewrite elide_hit_S. cbn [orb]. reflexivity.
Qed.

Lemma goroutine_of_gor : forall first g,
  goroutine_of first g =
  gor g first
      (match pg_body g with BUnavailable => [unavailable_call] | BFrames fs _ => map call_of_frame fs end)
      (match pg_body g with BUnavailable => false | BFrames _ (Some _) => true | BFrames _ None => false end)
      (match pg_creator g with Some c => [call_of_creator c] | None => [] end).
Proof.
  intros first g. unfold goroutine_of, gor.
  destruct (pg_body g) as [|fs [e|]]; destruct (pg_creator g); reflexivity.
Qed.

Definition end_state (x : state) : Prop := x = gotFileFunc \/ x = gotFileCreated \/ x = gotUnavail.

Lemma steps_creator : forall gs g f calls el gi x c,
  x = gotFileFunc \/ x = gotUnavail ->
  wf_creator fi c = true ->
  steps (mkSS (gs ++ [gor g f calls el []]) x ind gi) (map (phys_line v) (print_creator_lines fi (Some c))) =
  Some (mkSS (gs ++ [gor g f calls el [call_of_creator c]]) gotFileCreated ind gi).
Proof.
  intros gs g f calls el gi x c Hx Hwf. unfold wf_creator in Hwf.
  apply andb_true_iff in Hwf as [Hwf Hline]. apply andb_true_iff in Hwf as [Hs Hfile].
  destruct (step_created gs g f calls el ind gi x c Hx Hs) as (ip & Hstep).
  cbn [print_creator_lines map].
  rewrite (steps_cons _ _ _ (mkSS (gs ++ [gor g f calls el [pre_created c ip]]) gotCreated ind gi)).
  - apply steps_one; [reflexivity|].
    rewrite scan_phys; [|reflexivity|apply file_line_no_cr].
    apply step_created_file; assumption.
  - destruct Hx as [-> | ->]; reflexivity.
  - rewrite scan_phys; [exact Hstep|reflexivity|apply created_line_no_cr; exact Hs].
Qed.

Definition start_state (s : sstate) : Prop :=
  (st s = looking /\ sprefix s = []) \/ (st s = betweenRoutine /\ sprefix s = ind).

Definition is_first (s : sstate) : bool := match goroutines s with [] => true | _ => false end.

(* (e.2) the lines of one goroutine *)
Theorem steps_goroutine : forall g s,
  start_state s -> wf_goroutine fi g = true ->
  exists x, end_state x /\
    steps s (map (phys_line v) (print_goroutine_lines v g)) =
    Some (mkSS (goroutines s ++ [goroutine_of (is_first s) g]) x ind (gindex s)).
Proof.
  intros g s Hstart Hwf. unfold wf_goroutine in Hwf.
  apply andb_true_iff in Hwf as [Hwf Hcr]. apply andb_true_iff in Hwf as [Hwf Hbody].
  apply andb_true_iff in Hwf as [Hwf Hannot]. apply andb_true_iff in Hwf as [Hwf Hmin].
  apply andb_true_iff in Hwf as [Hid Hstate].
  (* the header *)
  assert (Hhdr : state_eqb (st s) done = false /\
                 scan s (phys_line v (print_header g)) =
                 ret (mkSS (goroutines s ++ [gor g (is_first s) [] false []]) gotRoutineHeader ind (gindex s)) true None).
  { destruct Hstart as [[Hst Hpre]|[Hst Hpre]].
    - split; [rewrite Hst; reflexivity|].
      rewrite scan_phys_first; [|exact Hpre|apply header_no_cr].
      rewrite (step_header s (pv_indent v) g (or_introl Hst) Hind Hid Hstate Hmin Hannot), Hpre. reflexivity.
    - split; [rewrite Hst; reflexivity|].
      rewrite scan_phys; [|exact Hpre|apply header_no_cr].
      change (print_header g) with ([] ++ print_header g).
      rewrite (step_header s [] g (or_intror Hst) eq_refl Hid Hstate Hmin Hannot), Hpre, app_nil_r. reflexivity. }
  destruct Hhdr as [Hnd Hhdr].
  rewrite goroutine_of_gor. unfold print_goroutine_lines. rewrite !map_app. cbn [map app].
  rewrite (steps_cons _ _ _ _ Hnd Hhdr).
  fold fi.
  (* the body *)
  assert (Hb : exists x, (x = gotFileFunc \/ x = gotUnavail) /\
            steps (mkSS (goroutines s ++ [gor g (is_first s) [] false []]) gotRoutineHeader ind (gindex s))
                  (map (phys_line v)
                       match pg_body g with
                       | BUnavailable => [print_findent fi ++ unavailable_text]
                       | BFrames fs el => print_frames_lines fi 0 fs el
                       end) =
            Some (mkSS (goroutines s ++
                        [gor g (is_first s)
                             (match pg_body g with BUnavailable => [unavailable_call] | BFrames fs _ => map call_of_frame fs end)
                             (match pg_body g with BUnavailable => false | BFrames _ (Some _) => true | BFrames _ None => false end)
                             []]) x ind (gindex s))).
  { destruct (pg_body g) as [|fs el].
    - exists gotUnavail. split; [right; reflexivity|]. cbn [map].
      apply steps_one; [reflexivity|].
      rewrite scan_phys; [|reflexivity|apply unavail_no_cr]. apply step_unavail. exact Hfi.
    - exists gotFileFunc. split; [left; reflexivity|]. cbn [wf_body] in Hbody.
      apply andb_true_iff in Hbody as [Hbody Hel]. apply andb_true_iff in Hbody as [Hne Hfs].
      destruct fs as [|fr fs]; [discriminate|].
      rewrite (steps_frames_ne fr fs _ g _ _ el Hfs).
      destruct el as [[k e]|]; [|reflexivity].
      cbn [elide_hit]. change (Nat.leb 0 k) with true. cbn [andb Nat.add]. rewrite Hel. reflexivity. }
  destruct Hb as (x & Hx & Hb).
  rewrite (steps_app _ _ _ _ Hb).
  (* the creator *)
  destruct (pg_creator g) as [c|].
  - exists gotFileCreated. split; [right; left; reflexivity|].
    apply steps_creator; assumption.
  - exists x. split; [destruct Hx as [-> | ->]; [left|right; right]; reflexivity|]. reflexivity.
Qed.

End Run.

(* ------------------------------------------------------------------ *)
(* 6. the whole dump                                                   *)
(* ------------------------------------------------------------------ *)

Lemma is_first_app1 : forall gs G x ind gi, is_first (mkSS (gs ++ [G]) x ind gi) = false.
Proof. intros gs G x ind gi. unfold is_first. cbn [goroutines]. destruct gs; reflexivity. Qed.

Lemma steps_blank : forall v gs cur x gi,
  forallb is_space_tab (pv_indent v) = true -> end_state x ->
  steps (mkSS (gs ++ [cur]) x (pv_indent v) gi) [blank_line v] =
  Some (mkSS (gs ++ [cur]) betweenRoutine (pv_indent v) gi).
Proof.
  intros v gs cur x gi Hind Hx. apply steps_one.
  - destruct Hx as [-> | [-> | ->]]; reflexivity.
  - rewrite scan_blank; [|reflexivity|exact Hind]. apply step_blank. exact Hx.
Qed.

Lemma dump_lines_cons2 : forall v g g' gs,
  dump_lines v (g :: g' :: gs) =
  map (phys_line v) (print_goroutine_lines v g) ++ [blank_line v] ++ dump_lines v (g' :: gs).
Proof. reflexivity. Qed.

Theorem steps_dump : forall v gs' g s,
  forallb is_space_tab (pv_indent v) = true -> fi_ok (pv_findent v) ->
  start_state v s -> forallb (wf_goroutine (pv_findent v)) (g :: gs') = true ->
  exists x, end_state x /\
    steps s (dump_lines v (g :: gs')) =
    Some (mkSS (goroutines s ++ goroutine_of (is_first s) g :: map (goroutine_of false) gs')
               x (pv_indent v) (gindex s)).
Proof.
  intros v gs'. induction gs' as [|g' rest IH]; intros g s Hind Hfi Hstart Hwf.
  - cbn [forallb] in Hwf. apply andb_true_iff in Hwf as [Hg _].
    destruct (steps_goroutine v Hind Hfi g s Hstart Hg) as (x & Hx & Hsteps).
    exists x. split; [exact Hx|]. exact Hsteps.
  - cbn [forallb] in Hwf. apply andb_true_iff in Hwf as [Hg Hrest].
    destruct (steps_goroutine v Hind Hfi g s Hstart Hg) as (x & Hx & Hsteps).
    rewrite dump_lines_cons2.
    rewrite (steps_app _ _ _ _ Hsteps).
    rewrite (steps_app _ _ _ _ (steps_blank v _ _ x _ Hind Hx)).
    destruct (IH g' (mkSS (goroutines s ++ [goroutine_of (is_first s) g]) betweenRoutine (pv_indent v) (gindex s))
                 Hind Hfi) as (x' & Hx' & Hsteps').
    + right. split; reflexivity.
    + exact Hrest.
    + exists x'. split; [exact Hx'|]. rewrite Hsteps'. rewrite is_first_app1.
      cbn [goroutines gindex map]. rewrite <- app_assoc. reflexivity.
Qed.

Definition all_lines (v : p_variant) (d : list p_goroutine) (trailing : bool) : list bytes :=
  dump_lines v d ++ (if trailing then [blank_line v] else []).

Lemma print_dump_eq : forall v d trailing, print_dump v d trailing = List.concat (all_lines v d trailing).
Proof. reflexivity. Qed.

Lemma wf_dump_spec : forall v d, wf_dump v d = true ->
  forallb is_space_tab (pv_indent v) = true /\ fi_ok (pv_findent v) /\ d <> [] /\
  forallb (wf_goroutine (pv_findent v)) d = true.
Proof.
  intros v d H. unfold wf_dump in H.
  apply andb_true_iff in H as [H H3]. apply andb_true_iff in H as [H1 H2].
  unfold wf_variant in H1. apply andb_true_iff in H1 as [Hi Hf].
  split; [exact Hi|]. split.
  - unfold fi_ok. destruct (pv_findent v); [exact I|]. apply Nat.ltb_lt. exact Hf.
  - split; [destruct d; [discriminate|discriminate]|exact H3].
Qed.

(* (e.3) scanning all the lines of a printed dump from the initial state *)
Theorem steps_all : forall v d trailing,
  wf_dump v d = true ->
  exists sfin,
    steps ss0 (all_lines v d trailing) = Some sfin /\
    goroutines sfin = snapshot_of d /\ state_eqb (st sfin) done = false.
Proof.
  intros v d trailing Hwf. destruct (wf_dump_spec v d Hwf) as (Hind & Hfi & Hne & Hgs).
  destruct d as [|g gs']; [congruence|].
  destruct (steps_dump v gs' g ss0 Hind Hfi) as (x & Hx & Hsteps).
  - left. split; reflexivity.
  - exact Hgs.
  - unfold all_lines. rewrite (steps_app _ _ _ _ Hsteps).
    change (goroutines ss0 ++ goroutine_of (is_first ss0) g :: map (goroutine_of false) gs')
      with (snapshot_of (g :: gs')).
    destruct trailing.
    + assert (E : snapshot_of (g :: gs') <> []) by discriminate.
      destruct (exists_last E) as (l & G & El). rewrite El.
      rewrite (steps_blank v l G x _ Hind Hx).
      eexists. split; [reflexivity|]. split; [reflexivity|reflexivity].
    + eexists. split; [reflexivity|]. split; [reflexivity|].
      destruct Hx as [-> | [-> | ->]]; reflexivity.
Qed.

(* ------------------------------------------------------------------ *)
(* 7. physical lines: one LF, at the end                               *)
(* ------------------------------------------------------------------ *)

Definition line_ok (l : bytes) : Prop := exists t, l = t ++ [LF] /\ no_byte LF t = true.

Lemma space_tab_no_lf : forall ind, forallb is_space_tab ind = true -> no_byte LF ind = true.
Proof. intros ind H. apply (forallb_no_byte is_space_tab); [reflexivity|exact H]. Qed.

Lemma phys_line_ok : forall v l,
  forallb is_space_tab (pv_indent v) = true -> no_byte LF l = true -> line_ok (phys_line v l).
Proof.
  intros v l Hind Hl. unfold phys_line, eol.
  exists (pv_indent v ++ l ++ (if pv_crlf v then [CR] else [])). split.
  - destruct (pv_crlf v); rewrite <- !app_assoc; reflexivity.
  - rewrite !no_byte_app, (space_tab_no_lf _ Hind), Hl. destruct (pv_crlf v); reflexivity.
Qed.

Lemma blank_line_ok : forall v, forallb is_space_tab (pv_indent v) = true -> line_ok (blank_line v).
Proof.
  intros v Hind. unfold blank_line, eol.
  exists ((if pv_blank_indents v then pv_indent v else []) ++ (if pv_crlf v then [CR] else [])). split.
  - destruct (pv_crlf v); rewrite <- !app_assoc; reflexivity.
  - rewrite no_byte_app. destruct (pv_blank_indents v); destruct (pv_crlf v);
      rewrite ?(space_tab_no_lf _ Hind); reflexivity.
Qed.

Lemma wf_opaque_no_lf : forall s, wf_opaque s = true -> no_byte LF s = true.
Proof. intros s H. unfold wf_opaque in H. apply andb_true_iff in H as [_ H]. exact H. Qed.

Lemma header_no_lf : forall g,
  wf_state (pg_state g) = true -> wf_annot (pg_annot g) = true -> no_byte LF (print_header g) = true.
Proof.
  intros g Hstate Hannot. destruct (wf_state_spec _ Hstate) as (_ & _ & Hlf & _).
  rewrite print_header_eq, !no_byte_app.
  rewrite (dec_no_byte LF (pg_id g) eq_refl).
  rewrite (bracket_text_no_byte LF g Hlf eq_refl eq_refl).
  assert (Ha : no_byte LF (print_annot (pg_annot g)) = true).
  { destruct (pg_annot g) as [[gp m mp]|]; [|reflexivity].
    cbn [wf_annot an_gp an_m an_mp] in Hannot.
    apply andb_true_iff in Hannot as [Hannot Hmp]. apply andb_true_iff in Hannot as [Hgp Hm].
    unfold print_annot. cbn [an_gp an_m an_mp].
    rewrite !no_byte_app, (wf_opaque_no_lf _ Hgp), (wf_opaque_no_lf _ Hm).
    destruct mp as [z|]; [rewrite no_byte_app, (wf_opaque_no_lf _ Hmp)|]; reflexivity. }
  rewrite Ha. reflexivity.
Qed.

Lemma func_line_no_lf : forall s args el, wf_sym s = true -> no_byte LF (print_func_line s args el) = true.
Proof.
  intros s args el Hs. unfold print_func_line. rewrite !no_byte_app.
  rewrite (nosp_no_byte LF _ eq_refl (sym_raw_nosp s Hs)).
  rewrite (print_args_no_byte LF args el eq_refl). reflexivity.
Qed.

Lemma hex0x_no_lf : forall n, no_byte LF (hex0x n) = true.
Proof.
  intros n. unfold hex0x. rewrite no_byte_app. apply andb_true_iff. split; [reflexivity|].
  apply hex_no_byte. reflexivity.
Qed.

Lemma findent_no_lf : forall fi, no_byte LF (print_findent fi) = true.
Proof.
  intros [|k]; [reflexivity|]. cbn [print_findent].
  induction k as [|k IH]; [reflexivity|]. cbn [repeat]. rewrite no_byte_cons, IH. reflexivity.
Qed.

Lemma file_line_no_lf : forall fi file line off regs,
  wf_file fi file = true -> no_byte LF (print_file_line fi file line off regs) = true.
Proof.
  intros fi file line off regs Hwf. destruct (wf_file_spec _ _ Hwf) as (Hlf & _).
  unfold print_file_line. rewrite !no_byte_app, findent_no_lf, Hlf, (dec_no_byte LF line eq_refl).
  assert (Ho : no_byte LF (print_off off) = true).
  { destruct off as [o|]; [|reflexivity]. unfold print_off. rewrite no_byte_app, hex0x_no_lf. reflexivity. }
  assert (Hr : no_byte LF (print_regs regs) = true).
  { destruct regs as [[fp sp pc]|]; [|reflexivity]. unfold print_regs. cbn [r_fp r_sp r_pc].
    rewrite !no_byte_app, !hex0x_no_lf.
    destruct pc as [pc|]; [rewrite no_byte_app, hex0x_no_lf|]; reflexivity. }
  rewrite Ho, Hr. reflexivity.
Qed.

Lemma elide_no_lf : forall e, no_byte LF (print_elide e) = true.
Proof.
  intros [|n]; [reflexivity|]. unfold print_elide.
  rewrite !no_byte_app, (dec_no_byte LF n eq_refl). reflexivity.
Qed.

Lemma frames_lines_no_lf : forall fi fs i elide,
  forallb (wf_frame fi) fs = true ->
  Forall (fun l => no_byte LF l = true) (print_frames_lines fi i fs elide).
Proof.
  intros fi fs. induction fs as [|fr fs IH]; intros i elide Hwf; [constructor|].
  cbn [forallb] in Hwf. apply andb_true_iff in Hwf as [Hfr Hfs].
  destruct (wf_frame_spec _ _ Hfr) as (Hs & _ & Hfile & _).
  cbn [print_frames_lines print_frame_lines app].
  constructor; [apply func_line_no_lf; exact Hs|].
  constructor; [apply file_line_no_lf; exact Hfile|].
  apply Forall_app. split; [|apply IH; exact Hfs].
  destruct elide as [[k e]|]; [|constructor].
  destruct (Nat.eqb k i); [|constructor]. constructor; [apply elide_no_lf|constructor].
Qed.

Lemma goroutine_lines_no_lf : forall v g,
  wf_goroutine (pv_findent v) g = true ->
  Forall (fun l => no_byte LF l = true) (print_goroutine_lines v g).
Proof.
  intros v g Hwf. unfold wf_goroutine in Hwf.
  apply andb_true_iff in Hwf as [Hwf Hcr]. apply andb_true_iff in Hwf as [Hwf Hbody].
  apply andb_true_iff in Hwf as [Hwf Hannot]. apply andb_true_iff in Hwf as [Hwf _].
  apply andb_true_iff in Hwf as [_ Hstate].
  unfold print_goroutine_lines. cbn [app].
  constructor; [apply header_no_lf; assumption|].
  apply Forall_app. split.
  - destruct (pg_body g) as [|fs el].
    + constructor; [|constructor]. rewrite no_byte_app, findent_no_lf. reflexivity.
    + cbn [wf_body] in Hbody. apply andb_true_iff in Hbody as [Hbody _].
      apply andb_true_iff in Hbody as [_ Hfs]. apply frames_lines_no_lf. exact Hfs.
  - destruct (pg_creator g) as [c|]; [|constructor].
    unfold wf_creator in Hcr. apply andb_true_iff in Hcr as [Hcr _].
    apply andb_true_iff in Hcr as [Hs Hfile]. cbn [print_creator_lines].
    constructor.
    + rewrite !no_byte_app, (nosp_no_byte LF _ eq_refl (sym_raw_nosp _ Hs)), in_goroutine_text_nosp_last.
      reflexivity.
    + constructor; [apply file_line_no_lf; exact Hfile|constructor].
Qed.

Lemma dump_lines_ok : forall v d,
  forallb is_space_tab (pv_indent v) = true ->
  forallb (wf_goroutine (pv_findent v)) d = true -> Forall line_ok (dump_lines v d).
Proof.
  intros v d Hind. induction d as [|g d IH]; intros Hwf; [constructor|].
  cbn [forallb] in Hwf. apply andb_true_iff in Hwf as [Hg Hd].
  assert (Hgl : Forall line_ok (map (phys_line v) (print_goroutine_lines v g))).
  { apply Forall_map. generalize (goroutine_lines_no_lf v g Hg). apply Forall_impl.
    intros l Hl. apply phys_line_ok; assumption. }
  destruct d as [|g' d]; [exact Hgl|].
  rewrite dump_lines_cons2. apply Forall_app. split; [exact Hgl|].
  apply Forall_app. split; [constructor; [apply blank_line_ok; exact Hind|constructor]|].
  apply IH. exact Hd.
Qed.

Lemma all_lines_ok : forall v d trailing, wf_dump v d = true -> Forall line_ok (all_lines v d trailing).
Proof.
  intros v d trailing Hwf. destruct (wf_dump_spec v d Hwf) as (Hind & _ & _ & Hgs).
  unfold all_lines. apply Forall_app. split; [apply dump_lines_ok; assumption|].
  destruct trailing; [|constructor]. constructor; [apply blank_line_ok; exact Hind|constructor].
Qed.

(* ------------------------------------------------------------------ *)
(* 8. ScanSnapshot                                                     *)
(* ------------------------------------------------------------------ *)

Lemma line_ok_first : forall l rest, line_ok l ->
  first_line (l ++ rest) = l /\ has_lf (l ++ rest) = true /\ (0 < List.length l)%nat.
Proof.
  intros l rest (t & -> & Ht). apply no_byte_In in Ht.
  rewrite <- app_assoc. cbn [app].
  split; [apply first_line_lf; exact Ht|]. split; [apply has_lf_split; exact Ht|].
  rewrite app_length. cbn. lia.
Qed.

Lemma loop_steps : forall lines s sfin fuel r src fw tr n,
  steps s lines = Some sfin -> Forall line_ok lines ->
  stream r src = List.concat lines -> rinv_s r src -> stall_free (sched src) -> final src = EOF ->
  (List.length (List.concat lines) < fuel)%nat -> state_eqb (st sfin) done = false ->
  exists ls',
    scan_loop fuel (mkLoop s r src fw tr n) = Ok (ls', EIo EOF, None) /\
    l_ss ls' = sfin /\ l_fwd ls' = fw.
Proof.
  induction lines as [|l lines IH]; intros s sfin fuel r src fw tr n Hsteps Hok Hstream Hrinv Hsf Hfin Hfuel Hnd.
  - cbn [steps] in Hsteps. injection Hsteps as <-.
    destruct fuel as [|f]; [cbn in Hfuel; lia|].
    rewrite scan_loop_S. cbn [l_ss l_r l_src l_fwd l_trace l_lines]. rewrite Hnd.
    destruct (read_line_spec r src Hrinv Hsf) as (r' & src' & evs & Hrl & _).
    cbv zeta in Hrl. rewrite Hstream, Hfin in Hrl. cbn [List.concat first_line] in Hrl.
    change (line_err [] EOF) with (Some EOF) in Hrl. rewrite Hrl.
    eexists. split; [reflexivity|]. split; reflexivity.
  - cbn [steps] in Hsteps.
    destruct (state_eqb (st s) done) eqn:Hd; [discriminate|].
    destruct (scan s l) as [[[s1 [|]] [e|]]|m] eqn:Hscan; try discriminate.
    inversion Hok as [|l0 ls0 Hl Hls]; subst.
    cbn [List.concat] in *.
    destruct (line_ok_first l (List.concat lines) Hl) as (Hfl & Hlf & Hlen).
    destruct fuel as [|f]; [lia|].
    rewrite scan_loop_S. cbn [l_ss l_r l_src l_fwd l_trace l_lines]. rewrite Hd.
    destruct (read_line_spec r src Hrinv Hsf) as (r' & src' & evs & Hrl & Hrinv' & Hsf' & Hfin' & Hcons & _).
    cbv zeta in Hrl, Hcons. rewrite Hstream in Hrl, Hcons. rewrite Hfl in Hrl, Hcons.
    unfold line_err in Hrl. rewrite Hlf in Hrl. rewrite Hrl.
    apply app_inv_head in Hcons.
    destruct l as [|c d0]; [cbn in Hlen; lia|].
    rewrite Hscan. cbv beta iota zeta.
    apply IH; try assumption.
    + rewrite Hfin'. exact Hfin.
    + rewrite app_length in Hfuel. lia.
Qed.

(* (e.4) C01: parse fidelity of ScanSnapshot on printed dumps *)
Theorem fidelity : forall v d trailing sigma,
  wf_dump v d = true -> stall_free sigma ->
  exists res,
    scan_snapshot false (mkSource (print_dump v d trailing) sigma EOF) = Ok res /\
    snap res = Some (snapshot_of d) /\ fwd res = [] /\ suffix res = [] /\ rerr_out res = EIo EOF.
Proof.
  intros v d trailing sigma Hwf Hsf.
  destruct (steps_all v d trailing Hwf) as (sfin & Hsteps & Hgs & Hnd).
  unfold scan_snapshot. cbn [rest].
  destruct (loop_steps (all_lines v d trailing) ss0 sfin
              (S (S (List.length (print_dump v d trailing)))) reader0
              (mkSource (print_dump v d trailing) sigma EOF) [] [] 0%nat Hsteps
              (all_lines_ok v d trailing Hwf)) as (ls' & Hloop & Hss & Hfw).
  - reflexivity.
  - apply rinv_s_reader0.
  - exact Hsf.
  - reflexivity.
  - rewrite <- print_dump_eq. lia.
  - exact Hnd.
  - rewrite Hloop. eexists. split; [reflexivity|].
    cbn [snap fwd suffix rerr_out]. rewrite Hss, Hgs, Hnd, Hfw.
    destruct (wf_dump_spec v d Hwf) as (_ & _ & Hne & _).
    destruct d as [|g d]; [congruence|]. repeat split; reflexivity.
Qed.

(* ------------------------------------------------------------------ *)
(* 9. First                                                            *)
(* ------------------------------------------------------------------ *)

(* in the snapshot an AST denotes, exactly the goroutine of index 0 is First *)
Theorem first_unique_snapshot : forall d i G,
  nth_error (snapshot_of d) i = Some G -> First G = Nat.eqb i 0.
Proof.
  intros [|g d] i G H; [destruct i; discriminate|].
  destruct i as [|i]; cbn [snapshot_of nth_error] in H.
  - injection H as <-. reflexivity.
  - apply nth_error_In in H. apply in_map_iff in H as (g' & <- & _). reflexivity.
Qed.

(* in the scanner, a header line appends a goroutine that is First iff the
   list was empty, and leaves the others alone *)
Theorem first_unique_try_header : forall s t s',
  try_header s t = Some s' ->
  exists G, goroutines s' = goroutines s ++ [G] /\
            First G = (match goroutines s with [] => true | _ => false end).
Proof.
  intros s t s' H. destruct (try_header_shape s t s' H) as (G & ind & -> & _ & _ & HF).
  exists G. split; [reflexivity|exact HF].
Qed.

(* IsPtr of every parsed scalar is a function of its value *)
Theorem isptr_value_only : forall line a top x,
  parse_args line = inl a -> In top (Values a) -> sub_arg x top ->
  IsPtr x = is_ptr_value (Value x).
Proof. exact parse_args_isptr_reachable. Qed.
