(* Proofs/RoundTripArgs.v — C01, argument lists: what Spec.Printer.print_args
   prints is read back by Model.ParseArgs.parse_args as the Args value the
   AST denotes (args_of), for uint64 values and aggregates nested at most 5
   deep.  Also: every Arg that parse_args produces (at any nesting level) has
   IsPtr = is_ptr_value Value.

   Architecture of the round trip:
     1. the printed text is  join (map print_tok toks) ", "  for a non-empty
        list of tokens  '{'^o item '}'^c  (toks_of);
     2. no token contains a comma, hence split gives the tokens back;
     3. trim_curly on a printed token returns (o, item text, c);
     4. pa_piece on a printed token = o opens, the item action, c closes;
        the concatenated actions of all tokens are a flat event list that no
        longer depends on how the braces are attached to tokens (evs_arg);
     5. running the events of an argument tree on the frame stack appends
        arg_of of the tree to the top frame (induction on the tree, with the
        depth accounting of pa_open). *)
From PP Require Import Base.Bytes Base.BytesX Base.Num Model.Types Model.ParseArgs Spec.Printer.
From PP Require Import Proofs.RoundTripNum.

(* ------------------------------------------------------------------ *)
(* 0. small list facts                                                 *)

Definition sep : bytes := [44%N; 32%N].

Lemma sep_eq : s2b ", " = sep.
Proof. reflexivity. Qed.

(* the separator-prefixed concatenation: join (x :: l) = x ++ jtail l *)
Definition jtail (l : list bytes) : bytes := List.concat (map (fun x => sep ++ x) l).

Lemma jtail_cons : forall x l, jtail (x :: l) = sep ++ x ++ jtail l.
Proof. intros x l. unfold jtail. cbn [map List.concat]. rewrite <- app_assoc. reflexivity. Qed.

Lemma jtail_app : forall l1 l2, jtail (l1 ++ l2) = jtail l1 ++ jtail l2.
Proof. intros l1 l2. unfold jtail. rewrite map_app, concat_app. reflexivity. Qed.

Lemma join_cons2 : forall x y l, join (x :: y :: l) sep = x ++ sep ++ join (y :: l) sep.
Proof. reflexivity. Qed.

Lemma join_jtail : forall l x, join (x :: l) sep = x ++ jtail l.
Proof.
  induction l as [|y l IH]; intros x.
  - cbn [join]. unfold jtail. cbn [map List.concat]. rewrite app_nil_r. reflexivity.
  - rewrite join_cons2, IH, jtail_cons. reflexivity.
Qed.

Lemma jtail_join : forall l, l <> [] -> jtail l = sep ++ join l sep.
Proof.
  intros [|x l] H; [contradiction|]. rewrite jtail_cons, join_jtail. reflexivity.
Qed.

Lemma jtail_join_eq : forall l1 l2, jtail l1 = jtail l2 -> join l1 sep = join l2 sep.
Proof.
  intros [|x l1] [|y l2] H.
  - reflexivity.
  - rewrite jtail_cons in H. discriminate H.
  - rewrite jtail_cons in H. discriminate H.
  - rewrite !jtail_cons in H. apply app_inv_head in H. rewrite !join_jtail. exact H.
Qed.

Lemma rev_repeat : forall (A : Type) (x : A) n, rev (repeat x n) = repeat x n.
Proof.
  intros A x n. induction n as [|n IH]; [reflexivity|].
  cbn [repeat rev]. rewrite IH. symmetry. apply repeat_cons.
Qed.

Lemma repeat_S_end : forall (A : Type) (x : A) n, repeat x (S n) = repeat x n ++ [x].
Proof. intros A x n. cbn [repeat]. apply repeat_cons. Qed.

Lemma skipn_repeat_app : forall (A : Type) (x : A) n r, skipn n (repeat x n ++ r) = r.
Proof. intros A x n r. induction n as [|n IH]; [reflexivity|]. cbn [repeat app skipn]. exact IH. Qed.

Lemma count_while_repeat : forall p x n r, p x = true ->
  count_while p (repeat x n ++ r) = n + count_while p r.
Proof.
  intros p x n r Hp. induction n as [|n IH]; [reflexivity|].
  cbn [repeat app count_while]. rewrite Hp, IH. reflexivity.
Qed.

Lemma firstn_app_exact : forall (A : Type) (l r : list A), firstn (List.length l) (l ++ r) = l.
Proof.
  intros A l r. induction l as [|x l IH]; [reflexivity|].
  cbn [List.length app firstn]. rewrite IH. reflexivity.
Qed.

Lemma skipn_app_exact : forall (A : Type) (l r : list A), skipn (List.length l) (l ++ r) = r.
Proof. intros A l r. induction l as [|x l IH]; [reflexivity|]. exact IH. Qed.

Lemma forallb_impl : forall (A : Type) (p q : A -> bool) l,
  (forall x, p x = true -> q x = true) -> forallb p l = true -> forallb q l = true.
Proof.
  intros A p q l Hpq. induction l as [|x l IH]; intros H; [reflexivity|].
  cbn [forallb] in *. apply andb_true_iff in H as [H1 H2].
  rewrite (Hpq x H1), (IH H2). reflexivity.
Qed.

Lemma forallb_repeat : forall (A : Type) (p : A -> bool) x n, p x = true -> forallb p (repeat x n) = true.
Proof. intros A p x n Hp. induction n as [|n IH]; [reflexivity|]. cbn [repeat forallb]. rewrite Hp, IH. reflexivity. Qed.

Lemma nonempty_last : forall (A : Type) (p : A -> bool) (l : list A),
  l <> [] -> forallb p l = true -> exists l' x, l = l' ++ [x] /\ p x = true.
Proof.
  intros A p l Hne Hp. destruct (exists_last Hne) as (l' & x & E). subst l.
  exists l', x. split; [reflexivity|].
  rewrite forallb_app in Hp. apply andb_true_iff in Hp as [_ Hp]. cbn [forallb] in Hp.
  apply andb_true_iff in Hp as [Hp _]. exact Hp.
Qed.

(* ------------------------------------------------------------------ *)
(* 1. split (join l ", ") ", " = l for comma-free pieces               *)

Definition nocomma (t : bytes) : Prop := forallb (fun c => negb (N.eqb c 44)) t = true.

Lemma split_go_tok : forall t cur fuel rest, nocomma t ->
  split_go (List.length t + fuel) (t ++ rest) sep cur = split_go fuel rest sep (rev t ++ cur).
Proof.
  induction t as [|x t IH]; intros cur fuel rest Hnc; [reflexivity|].
  unfold nocomma in Hnc. cbn [forallb] in Hnc. apply andb_true_iff in Hnc as [Hx Ht].
  apply negb_true_iff in Hx.
  cbn [List.length Nat.add app split_go].
  replace (has_prefix (x :: t ++ rest) sep) with false
    by (unfold sep; cbn [has_prefix]; rewrite Hx; reflexivity).
  rewrite (IH (x :: cur) fuel rest Ht). cbn [rev]. rewrite <- app_assoc. reflexivity.
Qed.

Lemma split_go_nil : forall fuel cur, split_go fuel [] sep cur = [rev cur].
Proof. intros [|fuel] cur; reflexivity. Qed.

Lemma split_go_sep : forall fuel rest cur,
  split_go (S fuel) (sep ++ rest) sep cur = rev cur :: split_go fuel rest sep [].
Proof. intros fuel rest cur. unfold sep. destruct rest; reflexivity. Qed.

Lemma split_go_join : forall l x cur fuel,
  Forall nocomma (x :: l) -> List.length (join (x :: l) sep) <= fuel ->
  split_go fuel (join (x :: l) sep) sep cur = (rev cur ++ x) :: l.
Proof.
  induction l as [|y l IH]; intros x cur fuel Hnc Hfuel.
  - cbn [join] in *. inversion Hnc as [|x0 l0 Hx _]; subst.
    replace fuel with (List.length x + (fuel - List.length x)) by lia.
    pose proof (split_go_tok x cur (fuel - List.length x) [] Hx) as E.
    rewrite app_nil_r in E. rewrite E, split_go_nil.
    rewrite rev_app_distr, rev_involutive. reflexivity.
  - inversion Hnc as [|x0 l0 Hx Hrest]; subst.
    rewrite join_cons2 in *. rewrite !app_length in Hfuel. cbn [sep List.length] in Hfuel.
    replace fuel with (List.length x + S (fuel - List.length x - 1)) by lia.
    rewrite (split_go_tok x cur _ _ Hx), split_go_sep.
    rewrite (IH y [] _ Hrest) by lia.
    rewrite rev_app_distr, rev_involutive. reflexivity.
Qed.

Lemma split_join : forall l, l <> [] -> Forall nocomma l -> split (join l sep) (s2b ", ") = l.
Proof.
  intros [|x l] Hne Hnc; [contradiction|]. rewrite sep_eq. unfold split.
  rewrite (split_go_join l x [] _ Hnc) by lia. reflexivity.
Qed.

(* ------------------------------------------------------------------ *)
(* 2. tokens: '{'^o item '}'^c                                         *)

Inductive itm := IDots | IUnder | IVal (v : N) (inacc : bool).
Definition tok := (nat * option itm * nat)%type.

Definition print_itm (i : option itm) : bytes :=
  match i with
  | None => []
  | Some IDots => s2b "..."
  | Some IUnder => s2b "_"
  | Some (IVal v inacc) => hex0x v ++ (if inacc then s2b "?" else [])
  end.
Definition print_tok (t : tok) : bytes :=
  let '(o, i, c) := t in repeat b_lbrace o ++ print_itm i ++ repeat b_rbrace c.

Lemma lower_hex_range : forall x, is_lower_hex x = true ->
  ((48 <= x /\ x <= 57) \/ (97 <= x /\ x <= 102))%N.
Proof.
  intros x H. unfold is_lower_hex, is_digit in H.
  apply orb_true_iff in H as [H|H]; apply andb_true_iff in H as [H1 H2];
    apply N.leb_le in H1; apply N.leb_le in H2; lia.
Qed.

Lemma hex0x_cons : forall v, hex0x v = 48%N :: 120%N :: N_to_hex false v.
Proof. reflexivity. Qed.

(* the last byte of a printed number is a lower-case hex digit *)
Lemma hex0x_last : forall v, exists l x, hex0x v = l ++ [x] /\ is_lower_hex x = true.
Proof.
  intros v.
  destruct (nonempty_last _ is_lower_hex (N_to_hex false v) (N_to_hex_nonempty v) (N_to_hex_lower v))
    as (l & x & E & Hx).
  exists (48%N :: 120%N :: l), x. split; [|exact Hx]. rewrite hex0x_cons, E. reflexivity.
Qed.

Definition head_not (c : N) (m : bytes) : Prop :=
  match m with [] => True | y :: _ => N.eqb c y = false end.

Lemma print_itm_head : forall i, head_not b_lbrace (print_itm i).
Proof.
  intros [[| |v inacc]|]; try exact I; try reflexivity.
Qed.

Lemma print_itm_last : forall i, head_not b_rbrace (rev (print_itm i)).
Proof.
  intros [[| |v inacc]|]; try exact I; try reflexivity.
  cbn [print_itm]. destruct inacc.
  - rewrite rev_app_distr. reflexivity.
  - rewrite app_nil_r. destruct (hex0x_last v) as (l & x & E & Hx). rewrite E, rev_app_distr.
    cbn [rev app head_not]. apply lower_hex_range in Hx. apply N.eqb_neq. unfold b_rbrace. lia.
Qed.

Lemma count_head_not : forall c m, head_not c m -> count_while (N.eqb c) m = 0.
Proof. intros c [|y m] H; [reflexivity|]. cbn [head_not] in H. cbn [count_while]. rewrite H. reflexivity. Qed.

Lemma trim_curly_tok : forall o m c, head_not b_lbrace m -> head_not b_rbrace (rev m) ->
  trim_curly (repeat b_lbrace o ++ m ++ repeat b_rbrace c) = (o, m, c).
Proof.
  intros o m c Hh Hl. unfold trim_curly.
  assert (E1 : count_while (N.eqb b_lbrace) (repeat b_lbrace o ++ m ++ repeat b_rbrace c) = o).
  { rewrite count_while_repeat by apply N.eqb_refl.
    rewrite count_head_not; [lia|].
    destruct m as [|y m]; [|exact Hh]. destruct c as [|c]; [exact I|reflexivity]. }
  rewrite E1, skipn_repeat_app.
  assert (E2 : count_while (N.eqb b_rbrace) (rev (m ++ repeat b_rbrace c)) = c).
  { rewrite rev_app_distr, rev_repeat, count_while_repeat by apply N.eqb_refl.
    rewrite count_head_not by exact Hl. lia. }
  rewrite E2. rewrite app_length, repeat_length.
  replace (List.length m + c - c) with (List.length m) by lia.
  rewrite firstn_app_exact. reflexivity.
Qed.

Lemma trim_curly_print_tok : forall o i c, trim_curly (print_tok (o, i, c)) = (o, print_itm i, c).
Proof. intros o i c. apply trim_curly_tok; [apply print_itm_head|apply print_itm_last]. Qed.

Lemma print_tok_nocomma : forall t, nocomma (print_tok t).
Proof.
  intros [[o i] c]. unfold nocomma, print_tok. rewrite !forallb_app.
  rewrite !forallb_repeat by reflexivity. rewrite andb_true_r. cbn [andb].
  destruct i as [[| |v inacc]|]; try reflexivity.
  cbn [print_itm]. rewrite forallb_app, hex0x_cons. cbn [forallb].
  replace (forallb (fun c0 : N => negb (c0 =? 44)%N) (if inacc then s2b "?" else [])) with true
    by (destruct inacc; reflexivity).
  rewrite andb_true_r. change (48 =? 44)%N with false. change (120 =? 44)%N with false. cbn [negb andb].
  apply (forallb_impl _ is_lower_hex); [|apply N_to_hex_lower].
  intros x Hx. apply lower_hex_range in Hx. apply negb_true_iff, N.eqb_neq. lia.
Qed.

(* ------------------------------------------------------------------ *)
(* 3. the item of a piece                                              *)

(* the middle part of pa_piece *)
Definition parse_item (a : bytes) (st1 : list frame) : option (list frame) :=
  match a with
  | [] => Some st1
  | _ =>
      if beq a (s2b "...") then Some (set_elided st1)
      else if beq a (s2b "_") then Some (push_val (mk_arg false [] 0 false true false emptyArgs) st1)
      else
        let inacc := has_suffix a (s2b "?") in
        let a' := if inacc then firstn (List.length a - 1) a else a in
        match parse_uint a' with
        | None => None
        | Some v => Some (push_val (mk_arg false [] v (is_ptr_value v) false inacc emptyArgs) st1)
        end
  end.

Lemma pa_piece_eq : forall st piece,
  pa_piece st piece =
  let '(opened, a, closed) := trim_curly piece in
  match pa_open opened st with
  | None => inr PaDepth
  | Some st1 =>
      match parse_item a st1 with
      | None => inr PaInt
      | Some st2 =>
          match pa_close closed st2 with
          | None => inr PaClose
          | Some st3 => inl st3
          end
      end
  end.
Proof. reflexivity. Qed.

Definition item_act (i : itm) (st : list frame) : option (list frame) :=
  match i with
  | IDots => Some (set_elided st)
  | IUnder => Some (push_val (mk_arg false [] 0 false true false emptyArgs) st)
  | IVal v inacc =>
      if (v <? 18446744073709551616)%N
      then Some (push_val (mk_arg false [] v (is_ptr_value v) false inacc emptyArgs) st)
      else None
  end.
Definition oitem_act (i : option itm) (st : list frame) : option (list frame) :=
  match i with None => Some st | Some i => item_act i st end.

Lemma has_suffix_last1 : forall l x y, has_suffix (l ++ [x]) [y] = N.eqb x y.
Proof.
  intros l x y. unfold has_suffix. rewrite app_length. cbn [List.length].
  replace (List.length l + 1 - 1) with (List.length l) by lia.
  rewrite skipn_app_exact. cbn [beq]. rewrite andb_true_r.
  replace (Nat.leb 1 (List.length l + 1)) with true by (symmetry; apply Nat.leb_le; lia).
  reflexivity.
Qed.

Lemma firstn_last1 : forall (l : bytes) x, firstn (List.length (l ++ [x]) - 1) (l ++ [x]) = l.
Proof.
  intros l x. rewrite app_length. cbn [List.length].
  replace (List.length l + 1 - 1) with (List.length l) by lia. apply firstn_app_exact.
Qed.

Lemma parse_item_val : forall v (inacc : bool) st1, (v < 18446744073709551616)%N ->
  parse_item (hex0x v ++ (if inacc then s2b "?" else [])) st1 =
  Some (push_val (mk_arg false [] v (is_ptr_value v) false inacc emptyArgs) st1).
Proof.
  intros v inacc st1 Hv.
  remember (hex0x v ++ (if inacc then s2b "?" else [])) as a eqn:Ea.
  assert (Hc : exists r, a = 48%N :: 120%N :: r).
  { subst a. rewrite hex0x_cons. eexists. reflexivity. }
  destruct Hc as (r & Er).
  assert (H1 : beq a (s2b "...") = false) by (rewrite Er; reflexivity).
  assert (H2 : beq a (s2b "_") = false) by (rewrite Er; reflexivity).
  assert (H3 : has_suffix a (s2b "?") = inacc /\
               (if inacc then firstn (List.length a - 1) a else a) = hex0x v).
  { subst a. change (s2b "?") with [63%N]. destruct inacc.
    - rewrite has_suffix_last1, firstn_last1. split; reflexivity.
    - rewrite app_nil_r. split; [|reflexivity].
      destruct (hex0x_last v) as (l & x & E & Hx). rewrite E, has_suffix_last1.
      apply lower_hex_range in Hx. apply N.eqb_neq. lia. }
  destruct H3 as [H3 H4].
  unfold parse_item. rewrite H1, H2. cbv zeta. rewrite H3, H4, (parse_uint_hex0x v Hv).
  rewrite Er. reflexivity.
Qed.

Lemma parse_item_print : forall i st1 st2,
  oitem_act i st1 = Some st2 -> parse_item (print_itm i) st1 = Some st2.
Proof.
  intros [[| |v inacc]|] st1 st2 H; cbn [oitem_act item_act] in H.
  - rewrite <- H. reflexivity.
  - rewrite <- H. reflexivity.
  - destruct (v <? 18446744073709551616)%N eqn:Hv; [|discriminate].
    apply N.ltb_lt in Hv. rewrite <- H. cbn [print_itm]. apply parse_item_val. exact Hv.
  - rewrite <- H. reflexivity.
Qed.

Lemma pa_piece_tok : forall o i c st st1 st2 st3,
  pa_open o st = Some st1 -> oitem_act i st1 = Some st2 -> pa_close c st2 = Some st3 ->
  pa_piece st (print_tok (o, i, c)) = inl st3.
Proof.
  intros o i c st st1 st2 st3 H1 H2 H3.
  rewrite pa_piece_eq, trim_curly_print_tok, H1, (parse_item_print _ _ _ H2), H3. reflexivity.
Qed.

(* ------------------------------------------------------------------ *)
(* 4. events: the effect of a token list as a flat run                 *)

Inductive ev := EOpen | EClose | EItem (i : itm).

Definition run_ev (e : ev) (st : list frame) : option (list frame) :=
  match e with
  | EOpen => pa_open 1 st
  | EClose => pa_close 1 st
  | EItem i => item_act i st
  end.
Fixpoint run (es : list ev) (st : list frame) : option (list frame) :=
  match es with
  | [] => Some st
  | e :: es' => match run_ev e st with Some st' => run es' st' | None => None end
  end.

Lemma run_app : forall es1 es2 st,
  run (es1 ++ es2) st = match run es1 st with Some st' => run es2 st' | None => None end.
Proof.
  induction es1 as [|e es1 IH]; intros es2 st; [reflexivity|].
  cbn [app run]. destruct (run_ev e st) as [st'|]; [apply IH|reflexivity].
Qed.

Lemma run_opens : forall n st, run (repeat EOpen n) st = pa_open n st.
Proof.
  induction n as [|n IH]; intros st; [reflexivity|].
  cbn [repeat run run_ev pa_open].
  destruct (Nat.leb max_depth (List.length (mkFrame [] false :: st) - 1)); [reflexivity|apply IH].
Qed.

Lemma run_closes : forall n st, run (repeat EClose n) st = pa_close n st.
Proof.
  induction n as [|n IH]; intros st; [reflexivity|].
  cbn [repeat run run_ev pa_close].
  destruct st as [|f [|g st']]; try reflexivity. apply IH.
Qed.

Definition ievs (i : option itm) : list ev := match i with None => [] | Some i => [EItem i] end.
Definition evs_of_tok (t : tok) : list ev :=
  let '(o, i, c) := t in repeat EOpen o ++ ievs i ++ repeat EClose c.
Definition evs (ts : list tok) : list ev := List.concat (map evs_of_tok ts).

Lemma evs_app : forall l1 l2, evs (l1 ++ l2) = evs l1 ++ evs l2.
Proof. intros l1 l2. unfold evs. rewrite map_app, concat_app. reflexivity. Qed.

Lemma evs_cons : forall t l, evs (t :: l) = evs_of_tok t ++ evs l.
Proof. reflexivity. Qed.

Lemma run_tok : forall o i c st st',
  run (evs_of_tok (o, i, c)) st = Some st' ->
  exists st1 st2, pa_open o st = Some st1 /\ oitem_act i st1 = Some st2 /\ pa_close c st2 = Some st'.
Proof.
  intros o i c st st' H. unfold evs_of_tok in H.
  rewrite run_app, run_opens in H. destruct (pa_open o st) as [st1|]; [|discriminate].
  rewrite run_app in H.
  assert (E : run (ievs i) st1 = oitem_act i st1).
  { destruct i as [i|]; [|reflexivity]. cbn [ievs run run_ev oitem_act].
    destruct (item_act i st1); reflexivity. }
  rewrite E in H. destruct (oitem_act i st1) as [st2|] eqn:E2; [|discriminate].
  rewrite run_closes in H. exists st1, st2. auto.
Qed.

Lemma pa_loop_toks : forall ts st st',
  run (evs ts) st = Some st' -> pa_loop st (map print_tok ts) = inl st'.
Proof.
  induction ts as [|[[o i] c] ts IH]; intros st st' H.
  - cbn in H. injection H as <-. reflexivity.
  - rewrite evs_cons, run_app in H.
    destruct (run (evs_of_tok (o, i, c)) st) as [sta|] eqn:Ht; [|discriminate].
    destruct (run_tok _ _ _ _ _ Ht) as (st1 & st2 & H1 & H2 & H3).
    cbn [map pa_loop]. rewrite (pa_piece_tok _ _ _ _ _ _ _ H1 H2 H3). apply IH. exact H.
Qed.

(* ------------------------------------------------------------------ *)
(* 5. the tokens and the events of an argument tree                    *)

Definition etok : tok := (0, None, 0).
Definition ne_toks (l : list tok) : list tok := match l with [] => [etok] | _ => l end.
Definition open1 (t : tok) : tok := let '(o, i, c) := t in (S o, i, c).
Definition close1 (t : tok) : tok := let '(o, i, c) := t in (o, i, S c).
Definition upd_first {A} (f : A -> A) (l : list A) : list A :=
  match l with [] => [] | x :: l' => f x :: l' end.
Definition wrap (l : list tok) : list tok := upd_first open1 (upd_last close1 l).
Definition el_toks (el : bool) : list tok := if el then [(0, Some IDots, 0)] else [].

Fixpoint toks_arg (a : p_arg) : list tok :=
  match a with
  | PVal v i => [(0, Some (IVal v i), 0)]
  | PTooLarge => [(0, Some IUnder, 0)]
  | PAgg fs el => wrap (ne_toks (List.concat (map toks_arg fs) ++ el_toks el))
  end.
Definition toks_of (args : list p_arg) (el : bool) : list tok :=
  ne_toks (List.concat (map toks_arg args) ++ el_toks el).

Definition el_evs (el : bool) : list ev := if el then [EItem IDots] else [].
Fixpoint evs_arg (a : p_arg) : list ev :=
  match a with
  | PVal v i => [EItem (IVal v i)]
  | PTooLarge => [EItem IUnder]
  | PAgg fs el => EOpen :: (List.concat (map evs_arg fs) ++ el_evs el) ++ [EClose]
  end.
Definition evs_list (args : list p_arg) (el : bool) : list ev :=
  List.concat (map evs_arg args) ++ el_evs el.

(* induction on argument trees *)
Section p_arg_ind2.
  Variable P : p_arg -> Prop.
  Hypothesis HV : forall v i, P (PVal v i).
  Hypothesis HT : P PTooLarge.
  Hypothesis HA : forall fs el, Forall P fs -> P (PAgg fs el).
  Fixpoint p_arg_ind2 (a : p_arg) : P a :=
    match a with
    | PVal v i => HV v i
    | PTooLarge => HT
    | PAgg fs el =>
        HA fs el ((fix go (l : list p_arg) : Forall P l :=
                     match l with
                     | [] => Forall_nil P
                     | x :: l' => Forall_cons x (p_arg_ind2 x) (go l')
                     end) fs)
    end.
End p_arg_ind2.

Lemma ne_toks_nonempty : forall l, ne_toks l <> [].
Proof. intros [|x l]; discriminate. Qed.

Lemma upd_last_nonempty : forall (A : Type) (f : A -> A) l, l <> [] -> upd_last f l <> [].
Proof. intros A f [|x [|y l]] H; [contradiction|discriminate|discriminate]. Qed.

Lemma wrap_nonempty : forall l, l <> [] -> wrap l <> [].
Proof.
  intros l H. unfold wrap. pose proof (upd_last_nonempty _ close1 l H) as H1.
  destruct (upd_last close1 l); [contradiction|discriminate].
Qed.

Lemma toks_arg_nonempty : forall a, toks_arg a <> [].
Proof.
  intros [v i| |fs el]; try discriminate. cbn [toks_arg]. apply wrap_nonempty, ne_toks_nonempty.
Qed.

(* ---- text of the tokens ---- *)

Definition jtoks (l : list tok) : bytes := join (map print_tok l) sep.

Lemma print_tok_open1 : forall t, print_tok (open1 t) = b_lbrace :: print_tok t.
Proof. intros [[o i] c]. reflexivity. Qed.

Lemma print_tok_close1 : forall t, print_tok (close1 t) = print_tok t ++ [b_rbrace].
Proof.
  intros [[o i] c]. unfold close1, print_tok. rewrite repeat_S_end, !app_assoc. reflexivity.
Qed.

Lemma jtoks_cons : forall t l, jtoks (t :: l) = print_tok t ++ jtail (map print_tok l).
Proof. intros t l. unfold jtoks. cbn [map]. apply join_jtail. Qed.

Lemma jtoks_upd_first : forall l, l <> [] -> jtoks (upd_first open1 l) = b_lbrace :: jtoks l.
Proof.
  intros [|t l] H; [contradiction|]. cbn [upd_first]. rewrite !jtoks_cons, print_tok_open1. reflexivity.
Qed.

Lemma jtoks_upd_last : forall l, l <> [] -> jtoks (upd_last close1 l) = jtoks l ++ [b_rbrace].
Proof.
  induction l as [|t l IH]; intros H; [contradiction|].
  destruct l as [|u l].
  - cbn [upd_last]. rewrite !jtoks_cons, print_tok_close1. cbn [map]. unfold jtail. cbn [map List.concat].
    rewrite !app_nil_r. reflexivity.
  - change (upd_last close1 (t :: u :: l)) with (t :: upd_last close1 (u :: l)).
    assert (Hne : u :: l <> []) by discriminate.
    rewrite !jtoks_cons. rewrite !jtail_join.
    + fold (jtoks (upd_last close1 (u :: l))). fold (jtoks (u :: l)). rewrite (IH Hne).
      rewrite <- !app_assoc. reflexivity.
    + cbn [map]. discriminate.
    + intros C. apply map_eq_nil in C. revert C. apply upd_last_nonempty. exact Hne.
Qed.

Lemma jtoks_wrap : forall l, l <> [] -> jtoks (wrap l) = b_lbrace :: jtoks l ++ [b_rbrace].
Proof.
  intros l H. unfold wrap. rewrite jtoks_upd_first by (apply upd_last_nonempty; exact H).
  rewrite jtoks_upd_last by exact H. reflexivity.
Qed.

Lemma jtoks_ne_toks : forall l, jtoks (ne_toks l) = jtoks l.
Proof. intros [|t l]; reflexivity. Qed.

Lemma print_arg_agg : forall fs el,
  print_arg (PAgg fs el) =
  b_lbrace :: join (map print_arg fs ++ map print_tok (el_toks el)) sep ++ [b_rbrace].
Proof. intros fs el. destruct el; reflexivity. Qed.

Lemma print_args_eq : forall args el,
  print_args args el = join (map print_arg args ++ map print_tok (el_toks el)) sep.
Proof. intros args el. destruct el; reflexivity. Qed.

(* the printed items are the printed tokens, given that for each argument *)
Lemma jtail_items : forall args tail,
  Forall (fun a => print_arg a = jtoks (toks_arg a)) args ->
  jtail (map print_arg args ++ map print_tok tail) =
  jtail (map print_tok (List.concat (map toks_arg args) ++ tail)).
Proof.
  intros args tail H. induction H as [|a args Ha _ IH].
  - reflexivity.
  - cbn [map List.concat app]. rewrite jtail_cons, IH, <- app_assoc.
    rewrite (map_app print_tok (toks_arg a)), (jtail_app (map print_tok (toks_arg a))).
    rewrite (jtail_join (map print_tok (toks_arg a))).
    + rewrite Ha. unfold jtoks. rewrite <- !app_assoc. reflexivity.
    + intros C. apply map_eq_nil in C. revert C. apply toks_arg_nonempty.
Qed.

Lemma join_items : forall args el,
  Forall (fun a => print_arg a = jtoks (toks_arg a)) args ->
  join (map print_arg args ++ map print_tok (el_toks el)) sep =
  jtoks (ne_toks (List.concat (map toks_arg args) ++ el_toks el)).
Proof.
  intros args el H. rewrite jtoks_ne_toks. unfold jtoks.
  apply jtail_join_eq, jtail_items. exact H.
Qed.

Lemma print_arg_toks : forall a, print_arg a = jtoks (toks_arg a).
Proof.
  induction a as [v i| |fs el IH] using p_arg_ind2.
  - unfold jtoks. cbn [toks_arg map join print_tok repeat app]. rewrite app_nil_r. reflexivity.
  - reflexivity.
  - rewrite print_arg_agg. cbn [toks_arg]. rewrite jtoks_wrap by apply ne_toks_nonempty.
    rewrite (join_items fs el IH). reflexivity.
Qed.

Lemma print_args_toks : forall args el, print_args args el = jtoks (toks_of args el).
Proof.
  intros args el. rewrite print_args_eq. apply join_items.
  apply Forall_forall. intros a _. apply print_arg_toks.
Qed.

(* ---- events of the tokens ---- *)

Lemma evs_of_tok_open1 : forall t, evs_of_tok (open1 t) = EOpen :: evs_of_tok t.
Proof. intros [[o i] c]. reflexivity. Qed.

Lemma evs_of_tok_close1 : forall t, evs_of_tok (close1 t) = evs_of_tok t ++ [EClose].
Proof.
  intros [[o i] c]. unfold close1, evs_of_tok. rewrite repeat_S_end, !app_assoc. reflexivity.
Qed.

Lemma evs_upd_first : forall l, l <> [] -> evs (upd_first open1 l) = EOpen :: evs l.
Proof.
  intros [|t l] H; [contradiction|]. cbn [upd_first]. rewrite !evs_cons, evs_of_tok_open1. reflexivity.
Qed.

Lemma evs_upd_last : forall l, l <> [] -> evs (upd_last close1 l) = evs l ++ [EClose].
Proof.
  induction l as [|t l IH]; intros H; [contradiction|].
  destruct l as [|u l].
  - cbn [upd_last]. rewrite !evs_cons, evs_of_tok_close1. unfold evs. cbn [map List.concat].
    rewrite !app_nil_r. reflexivity.
  - change (upd_last close1 (t :: u :: l)) with (t :: upd_last close1 (u :: l)).
    rewrite (evs_cons t (upd_last close1 (u :: l))), IH by discriminate.
    rewrite (evs_cons t (u :: l)), <- app_assoc. reflexivity.
Qed.

Lemma evs_wrap : forall l, l <> [] -> evs (wrap l) = EOpen :: evs l ++ [EClose].
Proof.
  intros l H. unfold wrap. rewrite evs_upd_first by (apply upd_last_nonempty; exact H).
  rewrite evs_upd_last by exact H. reflexivity.
Qed.

Lemma evs_ne_toks : forall l, evs (ne_toks l) = evs l.
Proof. intros [|t l]; reflexivity. Qed.

Lemma evs_el_toks : forall el, evs (el_toks el) = el_evs el.
Proof. intros [|]; reflexivity. Qed.

Lemma evs_items : forall args,
  Forall (fun a => evs (toks_arg a) = evs_arg a) args ->
  evs (List.concat (map toks_arg args)) = List.concat (map evs_arg args).
Proof.
  intros args H. induction H as [|a args Ha _ IH]; [reflexivity|].
  cbn [map List.concat]. rewrite evs_app, Ha, IH. reflexivity.
Qed.

Lemma evs_toks_arg : forall a, evs (toks_arg a) = evs_arg a.
Proof.
  induction a as [v i| |fs el IH] using p_arg_ind2; try reflexivity.
  cbn [toks_arg evs_arg]. rewrite evs_wrap by apply ne_toks_nonempty.
  rewrite evs_ne_toks, evs_app, (evs_items fs IH), evs_el_toks. reflexivity.
Qed.

Lemma evs_toks_of : forall args el, evs (toks_of args el) = evs_list args el.
Proof.
  intros args el. unfold toks_of, evs_list. rewrite evs_ne_toks, evs_app, evs_el_toks.
  rewrite evs_items; [reflexivity|]. apply Forall_forall. intros a _. apply evs_toks_arg.
Qed.

(* ------------------------------------------------------------------ *)
(* 6. running the events of a tree appends what the tree denotes       *)

(* depth accounting: the stack [frame :: st] has length S |st|; an aggregate
   that may still nest d levels needs S |st| + d <= max_depth *)
Definition run_ok (a : p_arg) : Prop :=
  forall d vs e st, wf_arg d a = true -> S (List.length st) + d <= max_depth ->
    run (evs_arg a) (mkFrame vs e :: st) = Some (mkFrame (vs ++ [arg_of a]) e :: st).

Lemma run_items : forall args, Forall run_ok args ->
  forall d vs e st, forallb (wf_arg d) args = true -> S (List.length st) + d <= max_depth ->
    run (List.concat (map evs_arg args)) (mkFrame vs e :: st) =
    Some (mkFrame (vs ++ map arg_of args) e :: st).
Proof.
  intros args H. induction H as [|a args Ha _ IH]; intros d vs e st Hwf Hd.
  - cbn [map List.concat run]. rewrite app_nil_r. reflexivity.
  - cbn [forallb] in Hwf. apply andb_true_iff in Hwf as [Hwa Hwf].
    cbn [map List.concat]. rewrite run_app, (Ha d vs e st Hwa Hd), (IH d _ e st Hwf Hd).
    rewrite <- app_assoc. reflexivity.
Qed.

Lemma run_el : forall el vs e st,
  run (el_evs el) (mkFrame vs e :: st) = Some (mkFrame vs (e || el) :: st).
Proof.
  intros [|] vs e st; cbn.
  - rewrite orb_true_r. reflexivity.
  - rewrite orb_false_r. reflexivity.
Qed.

Lemma run_arg : forall a, run_ok a.
Proof.
  induction a as [v i| |fs el IH] using p_arg_ind2; intros d vs e st Hwf Hd.
  - assert (Hv : (v <? 18446744073709551616)%N = true) by (destruct d; exact Hwf).
    cbn [evs_arg run run_ev item_act]. rewrite Hv. reflexivity.
  - reflexivity.
  - destruct d as [|d']; [discriminate Hwf|]. cbn [wf_arg] in Hwf.
    cbn [evs_arg run run_ev pa_open].
    replace (Nat.leb max_depth (List.length (mkFrame [] false :: mkFrame vs e :: st) - 1)) with false
      by (symmetry; apply Nat.leb_gt; cbn [List.length]; lia).
    rewrite !run_app.
    rewrite (run_items fs IH d' [] false (mkFrame vs e :: st) Hwf) by (cbn [List.length]; lia).
    rewrite run_el. reflexivity.
Qed.

Lemma run_evs_list : forall args el, wf_args args = true ->
  run (evs_list args el) [mkFrame [] false] = Some [mkFrame (map arg_of args) el].
Proof.
  intros args el Hwf. unfold evs_list. rewrite run_app.
  rewrite (run_items args) with (d := 5) (vs := []) (e := false) (st := []).
  - rewrite run_el. reflexivity.
  - apply Forall_forall. intros a _. apply run_arg.
  - exact Hwf.
  - unfold max_depth. cbn [List.length]. lia.
Qed.

(* ------------------------------------------------------------------ *)
(* 7. the round trip                                                   *)

Theorem parse_args_print_args : forall args elided,
  wf_args args = true -> parse_args (print_args args elided) = inl (args_of args elided).
Proof.
  intros args el Hwf. unfold parse_args.
  rewrite print_args_toks. unfold jtoks. rewrite split_join.
  - rewrite (pa_loop_toks (toks_of args el) _ [mkFrame (map arg_of args) el]).
    + reflexivity.
    + rewrite evs_toks_of. apply run_evs_list. exact Hwf.
  - intros C. apply map_eq_nil in C. revert C. apply ne_toks_nonempty.
  - apply Forall_forall. intros t Ht. apply in_map_iff in Ht as (t0 & <- & _). apply print_tok_nocomma.
Qed.

(* ------------------------------------------------------------------ *)
(* 8. IsPtr is a function of Value in everything parse_args produces   *)

(* every Arg reachable from [a] (itself and, recursively, its fields) has
   IsPtr = is_ptr_value Value.  This covers the "_" placeholder and the
   aggregates as well: their value is 0 and is_ptr_value 0 = false. *)
Fixpoint arg_isptr_ok (a : Arg) : bool :=
  match a with
  | MkArg _ _ v p _ _ fv _ _ => Bool.eqb p (is_ptr_value v) && forallb arg_isptr_ok fv
  end.
Definition args_isptr_ok (l : list Arg) : Prop := forallb arg_isptr_ok l = true.

(* the same as a statement about reachable Args *)
Inductive sub_arg : Arg -> Arg -> Prop :=
| sub_refl : forall a, sub_arg a a
| sub_field : forall a b g n v p t i fv fp fe,
    In b fv -> sub_arg a b -> sub_arg a (MkArg g n v p t i fv fp fe).

Lemma arg_isptr_ok_sub : forall a b, sub_arg a b -> arg_isptr_ok b = true ->
  IsPtr a = is_ptr_value (Value a).
Proof.
  intros a b H. induction H as [a|a b g n v p t i fv fp fe Hin _ IH]; intros Hok.
  - destruct a as [g n v p t i fv fp fe]. cbn [arg_isptr_ok] in Hok.
    apply andb_true_iff in Hok as [Hok _]. apply eqb_prop in Hok. exact Hok.
  - cbn [arg_isptr_ok] in Hok. apply andb_true_iff in Hok as [_ Hok].
    apply IH. rewrite forallb_forall in Hok. apply Hok. exact Hin.
Qed.

Definition frames_ok (st : list frame) : Prop :=
  Forall (fun f => args_isptr_ok (fvals f)) st.

Lemma frames_ok_new : forall st, frames_ok st -> frames_ok (mkFrame [] false :: st).
Proof. intros st H. constructor; [reflexivity|exact H]. Qed.

Lemma pa_open_ok : forall n st st', frames_ok st -> pa_open n st = Some st' -> frames_ok st'.
Proof.
  induction n as [|n IH]; intros st st' Hok H; cbn [pa_open] in H.
  - injection H as <-. exact Hok.
  - destruct (Nat.leb max_depth (List.length (mkFrame [] false :: st) - 1)); [discriminate|].
    apply (IH _ _ (frames_ok_new _ Hok) H).
Qed.

Lemma push_val_ok : forall a st, arg_isptr_ok a = true -> frames_ok st -> frames_ok (push_val a st).
Proof.
  intros a [|f st] Ha Hok; [exact Hok|]. inversion Hok as [|f0 st0 Hf Hst]; subst.
  cbn [push_val]. constructor; [|exact Hst].
  unfold args_isptr_ok in *. cbn [fvals]. rewrite forallb_app, Hf. cbn [forallb]. rewrite Ha. reflexivity.
Qed.

Lemma set_elided_ok : forall st, frames_ok st -> frames_ok (set_elided st).
Proof.
  intros [|f st] Hok; [exact Hok|]. inversion Hok as [|f0 st0 Hf Hst]; subst.
  cbn [set_elided]. constructor; [exact Hf|exact Hst].
Qed.

Lemma pa_close_ok : forall n st st', frames_ok st -> pa_close n st = Some st' -> frames_ok st'.
Proof.
  induction n as [|n IH]; intros st st' Hok H; cbn [pa_close] in H.
  - injection H as <-. exact Hok.
  - destruct st as [|f [|g st2]]; try discriminate.
    inversion Hok as [|f0 st0 Hf Hst]; subst.
    eapply IH; [|exact H]. apply push_val_ok; [exact Hf|exact Hst].
Qed.

Lemma parse_item_ok : forall a st1 st2, frames_ok st1 -> parse_item a st1 = Some st2 -> frames_ok st2.
Proof.
  intros a st1 st2 Hok H. unfold parse_item in H. destruct a as [|a0 a'].
  - injection H as <-. exact Hok.
  - destruct (beq (a0 :: a') (s2b "...")).
    + injection H as <-. apply set_elided_ok. exact Hok.
    + destruct (beq (a0 :: a') (s2b "_")).
      * injection H as <-. apply push_val_ok; [reflexivity|exact Hok].
      * cbv zeta in H.
        match type of H with
        | match ?X with _ => _ end = _ => destruct X as [v|]; [|discriminate]
        end.
        injection H as <-. apply push_val_ok; [|exact Hok].
        cbn. rewrite eqb_reflx. reflexivity.
Qed.

Lemma pa_piece_ok : forall st piece st', frames_ok st -> pa_piece st piece = inl st' -> frames_ok st'.
Proof.
  intros st piece st' Hok H. rewrite pa_piece_eq in H.
  destruct (trim_curly piece) as [[opened a] closed].
  destruct (pa_open opened st) as [st1|] eqn:H1; [|discriminate].
  destruct (parse_item a st1) as [st2|] eqn:H2; [|discriminate].
  destruct (pa_close closed st2) as [st3|] eqn:H3; [|discriminate].
  injection H as <-.
  apply (pa_close_ok _ _ _ (parse_item_ok _ _ _ (pa_open_ok _ _ _ Hok H1) H2) H3).
Qed.

Lemma pa_loop_ok : forall pieces st st', frames_ok st -> pa_loop st pieces = inl st' -> frames_ok st'.
Proof.
  induction pieces as [|p ps IH]; intros st st' Hok H; cbn [pa_loop] in H.
  - injection H as <-. exact Hok.
  - destruct (pa_piece st p) as [st1|e] eqn:Hp; [|discriminate].
    apply (IH _ _ (pa_piece_ok _ _ _ Hok Hp) H).
Qed.

Theorem parse_args_isptr_value_only : forall line a,
  parse_args line = inl a -> args_isptr_ok (Values a).
Proof.
  intros line a H. unfold parse_args in H.
  destruct (pa_loop [mkFrame [] false] (split line (s2b ", "))) as [st|e] eqn:Hl; [|discriminate].
  assert (Hok : frames_ok st).
  { apply (pa_loop_ok _ _ _ (frames_ok_new [] (Forall_nil _)) Hl). }
  destruct st as [|f [|g st]]; try discriminate.
  injection H as <-. inversion Hok as [|f0 st0 Hf _]; subst. exact Hf.
Qed.

(* for every Arg reachable in the result *)
Corollary parse_args_isptr_reachable : forall line a top x,
  parse_args line = inl a -> In top (Values a) -> sub_arg x top ->
  IsPtr x = is_ptr_value (Value x).
Proof.
  intros line a top x H Hin Hsub. apply (arg_isptr_ok_sub x top Hsub).
  pose proof (parse_args_isptr_value_only line a H) as Hok. unfold args_isptr_ok in Hok.
  rewrite forallb_forall in Hok. apply Hok. exact Hin.
Qed.

Print Assumptions parse_args_print_args.
Print Assumptions parse_args_isptr_value_only.
Print Assumptions parse_args_isptr_reachable.
