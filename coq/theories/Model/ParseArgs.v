(* Model/ParseArgs.v — parseArgs and trimCurlyBrackets (stack/context.go:840,
   1192), parseFunc, parseFile.  The Go loop keeps an array of pointers into
   the value under construction; functionally that is a stack of open frames
   (values so far, elided flag), the head being stack[depth].  Closing a frame
   stores it as the Fields of the placeholder aggregate that was appended to
   its parent when it was opened - nothing else is appended to the parent in
   between, so the placeholder is the parent's last value at that time. *)
From PP Require Import Base.Bytes Base.BytesX Base.Num Base.GoResult Model.Types Model.Lines Model.FuncInit.
From Coq Require Import String.

(* trimCurlyBrackets: (opened, middle, closed) *)
Definition trim_curly (s : bytes) : nat * bytes * nat :=
  let i := count_while (N.eqb b_lbrace) s in
  let mid0 := skipn i s in
  let c := count_while (N.eqb b_rbrace) (rev mid0) in
  (i, firstn (List.length mid0 - c) mid0, c).

Definition pointer_floor : N := 524288.
Definition pointer_ceiling : N := 9223372036854775807.
Definition is_ptr_value (v : N) : bool := N.ltb pointer_floor v && N.ltb v pointer_ceiling.

Record frame := mkFrame { fvals : list Arg; felid : bool }.
Definition max_depth : nat := 6.

Inductive pa_err := PaDepth | PaInt | PaClose | PaOpen.

(* open [n] aggregates: push n frames; depth = length stack - 1 *)
Fixpoint pa_open (n : nat) (st : list frame) : option (list frame) :=
  match n with
  | O => Some st
  | S n' =>
      let st' := mkFrame [] false :: st in
      (* depth++ ; if depth >= maxDepth: error *)
      if Nat.leb max_depth (List.length st' - 1) then None else pa_open n' st'
  end.

Definition push_val (a : Arg) (st : list frame) : list frame :=
  match st with
  | f :: st' => mkFrame (fvals f ++ [a]) (felid f) :: st'
  | [] => []
  end.
Definition set_elided (st : list frame) : list frame :=
  match st with
  | f :: st' => mkFrame (fvals f) true :: st'
  | [] => []
  end.

Fixpoint pa_close (n : nat) (st : list frame) : option (list frame) :=
  match n with
  | O => Some st
  | S n' =>
      match st with
      | f :: ((_ :: _) as st') =>
          pa_close n' (push_val (mk_arg true [] 0 false false false (mkArgs (fvals f) [] (felid f))) st')
      | _ => None   (* depth < 0 *)
      end
  end.

Definition pa_piece (st : list frame) (piece : bytes) : list frame + pa_err :=
  let '(opened, a, closed) := trim_curly piece in
  match pa_open opened st with
  | None => inr PaDepth
  | Some st1 =>
      let st2 : option (list frame) :=
        match a with
        | [] => Some st1
        | _ =>
            if beq a (s2b "...") then Some (set_elided st1)
            else if beq a (s2b "_") then Some (push_val (mk_arg false [] 0 false true false emptyArgs) st1)
            else
              let inacc := has_suffix a (s2b "?") in
              let a' := if inacc then firstn (List.length a - 1) a else a in
              match parse_uint a' with
              | None => None
              | Some v => Some (push_val (mk_arg false [] v (is_ptr_value v) false inacc emptyArgs) st1)
              end
        end in
      match st2 with
      | None => inr PaInt
      | Some st2 =>
          match pa_close closed st2 with
          | None => inr PaClose
          | Some st3 => inl st3
          end
      end
  end.

Fixpoint pa_loop (st : list frame) (pieces : list bytes) : list frame + pa_err :=
  match pieces with
  | [] => inl st
  | p :: ps => match pa_piece st p with inl st' => pa_loop st' ps | inr e => inr e end
  end.

Definition parse_args (line : bytes) : Args + pa_err :=
  match pa_loop [mkFrame [] false] (split line (s2b ", ")) with
  | inr e => inr e
  | inl [f] => inl (mkArgs (fvals f) [] (felid f))
  | inl _ => inr PaOpen
  end.

(* parseFunc: (found, call, error) *)
Definition parse_func (line : bytes) : GoResult (option (Call * option scan_err)) :=
  match match_func line with
  | None => Ok None
  | Some (sym, argtext) =>
      fi <- func_init sym ;;
      match fi with
      | None => Ok (Some (emptyCall, Some ErrBadFunc))
      | Some f =>
          let c := mkCall f emptyArgs [] 0 [] [] [] [] (FImportPath f) LocationUnknown in
          match parse_args argtext with
          | inr e => Ok (Some (c, Some (ErrArgs (match e with PaDepth => 0 | PaInt => 1 | PaClose => 2 | PaOpen => 3 end))))
          | inl a => Ok (Some (mkCall f a [] 0 [] [] [] [] (FImportPath f) LocationUnknown, None))
          end
      end
  end.

(* parseFile on a call: (found, call', error) *)
Definition parse_file (c : Call) (line : bytes) : option (Call * option scan_err) :=
  match match_file line with
  | None => None
  | Some (file, ds) =>
      match atou ds with
      | None => Some (c, Some ErrParseInt)
      | Some n => Some (call_init c file (Z.of_N n), None)
      end
  end.
