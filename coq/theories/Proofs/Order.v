(* Proofs/Order.v — the ordering contract (C13): Stack.less, Signature.less and
   the closure handed to sort.SliceStable are strict weak orders; the stable
   sort returns the unique stable sorted permutation, First leads, stdlib-only
   buckets come last. *)
From PP Require Import Base.Bytes Base.GoResult Model.Types Model.Stack Model.Bucket Spec.BucketSpec Spec.Wf.
From Coq Require Import Permutation Sorted.

(* ====================================================================== *)
(* 1. Three-way comparisons that are total preorders                       *)
(* ====================================================================== *)

Definition cmp_ok {A} (c : A -> A -> comparison) : Prop :=
  (forall a, c a a = Eq) /\
  (forall a b, c a b = CompOpp (c b a)) /\
  (forall a b d, c a b = Lt -> c b d = Lt -> c a d = Lt) /\
  (forall a b, c a b = Eq -> forall d, c a d = c b d).

Lemma cmp_refl {A} {c : A -> A -> comparison} (Hc : cmp_ok c) a : c a a = Eq.
Proof. destruct Hc as (R & _). apply R. Qed.

Lemma cmp_sym {A} {c : A -> A -> comparison} (Hc : cmp_ok c) a b : c a b = CompOpp (c b a).
Proof. destruct Hc as (_ & S & _). apply S. Qed.

Lemma cmp_trans_lt {A} {c : A -> A -> comparison} (Hc : cmp_ok c) a b d :
  c a b = Lt -> c b d = Lt -> c a d = Lt.
Proof. destruct Hc as (_ & _ & T & _). apply T. Qed.

Lemma cmp_eq_l {A} {c : A -> A -> comparison} (Hc : cmp_ok c) a b d : c a b = Eq -> c a d = c b d.
Proof. destruct Hc as (_ & _ & _ & E). intros H. apply E. exact H. Qed.

Lemma cmp_eq_r {A} {c : A -> A -> comparison} (Hc : cmp_ok c) a b d : c a b = Eq -> c d a = c d b.
Proof. intros H. rewrite (cmp_sym Hc d a), (cmp_sym Hc d b), (cmp_eq_l Hc a b d H). reflexivity. Qed.

Lemma cmp_gt_lt {A} {c : A -> A -> comparison} (Hc : cmp_ok c) a b : c a b = Gt -> c b a = Lt.
Proof. intros H. rewrite (cmp_sym Hc), H. reflexivity. Qed.

Lemma cmp_lt_gt {A} {c : A -> A -> comparison} (Hc : cmp_ok c) a b : c a b = Lt -> c b a = Gt.
Proof. intros H. rewrite (cmp_sym Hc), H. reflexivity. Qed.

Lemma cmp_eq_sym {A} {c : A -> A -> comparison} (Hc : cmp_ok c) a b : c a b = Eq -> c b a = Eq.
Proof. intros H. rewrite (cmp_sym Hc), H. reflexivity. Qed.

Lemma cmp_ok_ext {A} (c c' : A -> A -> comparison) :
  (forall a b, c' a b = c a b) -> cmp_ok c -> cmp_ok c'.
Proof.
  intros Hext (R & S & T & E). unfold cmp_ok. split; [|split; [|split]].
  - intros a. rewrite Hext. apply R.
  - intros a b. rewrite !Hext. apply S.
  - intros a b d. rewrite !Hext. apply T.
  - intros a b Hab d. rewrite !Hext. apply E. rewrite <- Hext. exact Hab.
Qed.

(* combinators *)
Definition lexf {A} (c1 c2 : A -> A -> comparison) : A -> A -> comparison :=
  fun a b => lexc (c1 a b) (c2 a b).
Definition keyc {A B} (f : A -> B) (c : B -> B -> comparison) : A -> A -> comparison :=
  fun a b => c (f a) (f b).
Definition flipc {A} (c : A -> A -> comparison) : A -> A -> comparison := fun a b => c b a.

Lemma lexc_eq c1 c2 : lexc c1 c2 = Eq -> c1 = Eq /\ c2 = Eq.
Proof. destruct c1; simpl; intros H; try discriminate H. split; [reflexivity|exact H]. Qed.

Lemma lexc_assoc a b c : lexc (lexc a b) c = lexc a (lexc b c).
Proof. destruct a; reflexivity. Qed.

(* the transitivity step shared by lexf and list_cmp *)
Lemma lexc_lt_trans (p_ab p_bd p_ad q_ab q_bd q_ad : comparison) :
  (p_ab = Eq -> p_ad = p_bd) ->
  (p_bd = Eq -> p_ad = p_ab) ->
  (p_ab = Lt -> p_bd = Lt -> p_ad = Lt) ->
  (q_ab = Lt -> q_bd = Lt -> q_ad = Lt) ->
  lexc p_ab q_ab = Lt -> lexc p_bd q_bd = Lt -> lexc p_ad q_ad = Lt.
Proof.
  intros H1 H2 H3 H4.
  destruct p_ab; simpl; intros Ha; try discriminate Ha;
    destruct p_bd; simpl; intros Hb; try discriminate Hb.
  - rewrite (H1 eq_refl). simpl. apply H4; assumption.
  - rewrite (H1 eq_refl). reflexivity.
  - rewrite (H2 eq_refl). reflexivity.
  - rewrite (H3 eq_refl eq_refl). reflexivity.
Qed.

Lemma cmp_ok_lexf {A} (c1 c2 : A -> A -> comparison) :
  cmp_ok c1 -> cmp_ok c2 -> cmp_ok (lexf c1 c2).
Proof.
  intros H1 H2. unfold cmp_ok, lexf. split; [|split; [|split]].
  - intros a. rewrite (cmp_refl H1), (cmp_refl H2). reflexivity.
  - intros a b. rewrite (cmp_sym H1 a b), (cmp_sym H2 a b).
    destruct (c1 b a), (c2 b a); reflexivity.
  - intros a b d. apply lexc_lt_trans.
    + intros E. apply (cmp_eq_l H1). exact E.
    + intros E. symmetry. apply (cmp_eq_r H1). exact E.
    + apply (cmp_trans_lt H1).
    + apply (cmp_trans_lt H2).
  - intros a b Hab d. apply lexc_eq in Hab as [E1 E2].
    rewrite (cmp_eq_l H1 a b d E1), (cmp_eq_l H2 a b d E2). reflexivity.
Qed.

Lemma cmp_ok_keyc {A B} (f : A -> B) (c : B -> B -> comparison) : cmp_ok c -> cmp_ok (keyc f c).
Proof.
  intros H. unfold cmp_ok, keyc. split; [|split; [|split]].
  - intros a. apply (cmp_refl H).
  - intros a b. apply (cmp_sym H).
  - intros a b d. apply (cmp_trans_lt H).
  - intros a b Hab d. apply (cmp_eq_l H). exact Hab.
Qed.

Lemma cmp_ok_flipc {A} (c : A -> A -> comparison) : cmp_ok c -> cmp_ok (flipc c).
Proof.
  intros H. unfold cmp_ok, flipc. split; [|split; [|split]].
  - intros a. apply (cmp_refl H).
  - intros a b. apply (cmp_sym H).
  - intros a b d Hab Hbd. apply (cmp_trans_lt H d b a); assumption.
  - intros a b Hab d. apply (cmp_eq_r H). apply (cmp_eq_sym H). exact Hab.
Qed.

(* base comparisons *)
Lemma nat_cmp_ok : cmp_ok Nat.compare.
Proof.
  unfold cmp_ok. split; [|split; [|split]].
  - apply Nat.compare_refl.
  - intros a b. apply Nat.compare_antisym.
  - intros a b d Hab Hbd. apply Nat.compare_lt_iff in Hab. apply Nat.compare_lt_iff in Hbd.
    apply Nat.compare_lt_iff. exact (Nat.lt_trans a b d Hab Hbd).
  - intros a b Hab d. apply Nat.compare_eq_iff in Hab. subst. reflexivity.
Qed.

Lemma N_cmp_ok : cmp_ok N.compare.
Proof.
  unfold cmp_ok. split; [|split; [|split]].
  - apply N.compare_refl.
  - intros a b. apply N.compare_antisym.
  - intros a b d Hab Hbd. apply N.compare_lt_iff in Hab. apply N.compare_lt_iff in Hbd.
    apply N.compare_lt_iff. exact (N.lt_trans a b d Hab Hbd).
  - intros a b Hab d. apply N.compare_eq_iff in Hab. subst. reflexivity.
Qed.

Lemma Z_cmp_ok : cmp_ok Z.compare.
Proof.
  unfold cmp_ok. split; [|split; [|split]].
  - apply Z.compare_refl.
  - intros a b. apply Z.compare_antisym.
  - intros a b d Hab Hbd. apply Z.compare_lt_iff in Hab. apply Z.compare_lt_iff in Hbd.
    apply Z.compare_lt_iff. exact (Z.lt_trans a b d Hab Hbd).
  - intros a b Hab d. apply Z.compare_eq_iff in Hab. subst. reflexivity.
Qed.

(* true sorts before false: "locked first", "First first" *)
Definition true_first (a b : bool) : comparison :=
  match a, b with true, false => Lt | false, true => Gt | _, _ => Eq end.

Lemma true_first_ok : cmp_ok true_first.
Proof.
  unfold cmp_ok. split; [|split; [|split]].
  - intros []; reflexivity.
  - intros [] []; reflexivity.
  - intros [] [] []; simpl; intros H1 H2; try discriminate; reflexivity.
  - intros [] []; simpl; intros H d; try discriminate; reflexivity.
Qed.

(* total lexicographic comparison of lists: a proper prefix is smaller *)
Fixpoint list_cmp {A} (c : A -> A -> comparison) (l r : list A) : comparison :=
  match l, r with
  | [], [] => Eq
  | [], _ :: _ => Lt
  | _ :: _, [] => Gt
  | x :: l', y :: r' => lexc (c x y) (list_cmp c l' r')
  end.

Lemma cmp_ok_list {A} (c : A -> A -> comparison) : cmp_ok c -> cmp_ok (list_cmp c).
Proof.
  intros H. unfold cmp_ok. split; [|split; [|split]].
  - intros a. induction a as [|x a IH]; simpl; [reflexivity|].
    rewrite (cmp_refl H), IH. reflexivity.
  - intros a. induction a as [|x a IH]; intros [|y b]; simpl; try reflexivity.
    rewrite (cmp_sym H x y), (IH b). destruct (c y x), (list_cmp c b a); reflexivity.
  - intros a. induction a as [|x a IH]; intros [|y b] [|z d]; simpl; intros Hab Hbd;
      try discriminate Hab; try discriminate Hbd; try reflexivity.
    revert Hab Hbd. apply lexc_lt_trans.
    + intros E. apply (cmp_eq_l H). exact E.
    + intros E. symmetry. apply (cmp_eq_r H). exact E.
    + apply (cmp_trans_lt H).
    + apply IH.
  - intros a. induction a as [|x a IH]; intros [|y b]; simpl; intros Hab d;
      try discriminate Hab; [reflexivity|].
    apply lexc_eq in Hab as [E1 E2]. destruct d as [|z d]; simpl; [reflexivity|].
    rewrite (cmp_eq_l H x y z E1), (IH b E2 d). reflexivity.
Qed.

Lemma bcmp_list_cmp a b : bcmp a b = list_cmp N.compare a b.
Proof.
  revert b. induction a as [|x a IH]; intros [|y b]; simpl; try reflexivity.
  rewrite IH. destruct (N.compare x y); reflexivity.
Qed.

Lemma bcmp_ok : cmp_ok bcmp.
Proof. apply (cmp_ok_ext (list_cmp N.compare)); [apply bcmp_list_cmp|]. apply cmp_ok_list, N_cmp_ok. Qed.

(* ====================================================================== *)
(* 2. less := is_lt . cmp is a strict weak order                           *)
(* ====================================================================== *)

Definition swo {A} (lt : A -> A -> bool) : Prop :=
  (forall a, lt a a = false) /\
  (forall a b, lt a b = true -> lt b a = false) /\
  (forall a b c, lt a b = true -> lt b c = true -> lt a c = true) /\
  (forall a b c, lt a b = false -> lt b a = false -> lt b c = false -> lt c b = false ->
                 lt a c = false /\ lt c a = false).

Definition ltb_of {A} (c : A -> A -> comparison) : A -> A -> bool := fun a b => is_lt (c a b).

Lemma is_lt_true c : is_lt c = true <-> c = Lt.
Proof. destruct c; simpl; split; intros H; try discriminate H; reflexivity. Qed.

Lemma ltb_incomparable {A} {c : A -> A -> comparison} (Hc : cmp_ok c) a b :
  ltb_of c a b = false -> ltb_of c b a = false -> c a b = Eq.
Proof.
  unfold ltb_of. intros H1 H2. destruct (c a b) eqn:E; [reflexivity|discriminate H1|].
  rewrite (cmp_gt_lt Hc a b E) in H2. discriminate H2.
Qed.

Lemma ltb_irrefl {A} {c : A -> A -> comparison} (Hc : cmp_ok c) a : ltb_of c a a = false.
Proof. unfold ltb_of. rewrite (cmp_refl Hc). reflexivity. Qed.

Lemma ltb_asym {A} {c : A -> A -> comparison} (Hc : cmp_ok c) a b :
  ltb_of c a b = true -> ltb_of c b a = false.
Proof. unfold ltb_of. intros H. apply is_lt_true in H. rewrite (cmp_lt_gt Hc a b H). reflexivity. Qed.

Lemma ltb_trans {A} {c : A -> A -> comparison} (Hc : cmp_ok c) a b d :
  ltb_of c a b = true -> ltb_of c b d = true -> ltb_of c a d = true.
Proof.
  unfold ltb_of. intros H1 H2. apply is_lt_true in H1. apply is_lt_true in H2.
  rewrite (cmp_trans_lt Hc a b d H1 H2). reflexivity.
Qed.

(* negative transitivity *)
Lemma ltb_negtrans {A} {c : A -> A -> comparison} (Hc : cmp_ok c) a b d :
  ltb_of c a b = false -> ltb_of c b d = false -> ltb_of c a d = false.
Proof.
  unfold ltb_of. intros H1 H2.
  destruct (c a b) eqn:Eab; try discriminate H1; destruct (c b d) eqn:Ebd; try discriminate H2.
  - rewrite (cmp_eq_l Hc a b d Eab), Ebd. reflexivity.
  - rewrite (cmp_eq_l Hc a b d Eab), Ebd. reflexivity.
  - rewrite <- (cmp_eq_r Hc b d a Ebd), Eab. reflexivity.
  - rewrite (cmp_lt_gt Hc d a); [reflexivity|].
    apply (cmp_trans_lt Hc d b a); apply (cmp_gt_lt Hc); assumption.
Qed.

Lemma ltb_swo {A} (c : A -> A -> comparison) : cmp_ok c -> swo (ltb_of c).
Proof.
  intros Hc. unfold swo. split; [|split; [|split]].
  - apply (ltb_irrefl Hc).
  - apply (ltb_asym Hc).
  - apply (ltb_trans Hc).
  - intros a b d H1 H2 H3 H4.
    pose proof (ltb_incomparable Hc a b H1 H2) as Eab.
    pose proof (ltb_incomparable Hc b d H3 H4) as Ebd.
    assert (Ead : c a d = Eq) by (rewrite (cmp_eq_l Hc a b d Eab); exact Ebd).
    unfold ltb_of. rewrite Ead, (cmp_eq_sym Hc a d Ead). split; reflexivity.
Qed.

(* ====================================================================== *)
(* 3. Stack.less                                                           *)
(* ====================================================================== *)

Lemma count_loc_cons loc a l :
  count_loc loc (a :: l) = (if loc_eqb (CLocation a) loc then 1 else 0) + count_loc loc l.
Proof. unfold count_loc. simpl. destruct (loc_eqb (CLocation a) loc); reflexivity. Qed.

Lemma count_main_cons a l :
  count_main (a :: l) = (if IsPkgMain (CFunc a) then 1 else 0) + count_main l.
Proof. unfold count_main. simpl. destruct (IsPkgMain (CFunc a)); reflexivity. Qed.

(* every frame is counted by exactly one of the five location counters *)
Lemma length_counts l :
  List.length l = count_loc LocationUnknown l + count_loc GoMod l + count_loc GOPATH l +
                  count_loc GoPkg l + count_loc Stdlib l.
Proof.
  induction l as [|a l IH]; [reflexivity|].
  rewrite !count_loc_cons. simpl List.length. rewrite IH.
  destruct (CLocation a); simpl; lia.
Qed.

Lemma counts_eq_length l r : counts_cmp l r = Eq -> List.length l = List.length r.
Proof.
  unfold counts_cmp, cmp_desc. intros H.
  apply lexc_eq in H as [_ H].
  apply lexc_eq in H as [H1 H]. apply lexc_eq in H as [H2 H]. apply lexc_eq in H as [H3 H].
  apply lexc_eq in H as [H4 H5].
  apply Nat.compare_eq_iff in H1. apply Nat.compare_eq_iff in H2. apply Nat.compare_eq_iff in H3.
  apply Nat.compare_eq_iff in H4. apply Nat.compare_eq_iff in H5.
  rewrite (length_counts l), (length_counts r). lia.
Qed.

Definition cnt_cmp (m : list Call -> nat) : list Call -> list Call -> comparison :=
  keyc m (flipc Nat.compare).

Lemma cnt_cmp_ok m : cmp_ok (cnt_cmp m).
Proof. apply cmp_ok_keyc, cmp_ok_flipc, nat_cmp_ok. Qed.

Lemma counts_cmp_ok : cmp_ok counts_cmp.
Proof.
  apply (cmp_ok_ext
    (lexf (cnt_cmp count_main)
    (lexf (cnt_cmp (count_loc GoMod))
    (lexf (cnt_cmp (count_loc GOPATH))
    (lexf (cnt_cmp (count_loc GoPkg))
    (lexf (cnt_cmp (count_loc Stdlib)) (cnt_cmp (count_loc LocationUnknown)))))))).
  - intros a b. reflexivity.
  - repeat apply cmp_ok_lexf; apply cnt_cmp_ok.
Qed.

(* one frame: function name, then source directory, then line *)
Definition call_cmp : Call -> Call -> comparison :=
  lexf (keyc (fun x => Complete (CFunc x)) bcmp) (lexf (keyc DirSrc bcmp) (keyc Line Z.compare)).

Lemma call_cmp_ok : cmp_ok call_cmp.
Proof.
  unfold call_cmp. apply cmp_ok_lexf; [|apply cmp_ok_lexf]; apply cmp_ok_keyc.
  - exact bcmp_ok.
  - exact bcmp_ok.
  - exact Z_cmp_ok.
Qed.

(* between stacks of the same depth the per-frame loop is the lexicographic order *)
Lemma frames_cmp_list_cmp l r :
  List.length l = List.length r -> frames_cmp l r = list_cmp call_cmp l r.
Proof.
  revert r. induction l as [|x l IH]; intros [|y r]; simpl; intros Hlen; try discriminate Hlen.
  - reflexivity.
  - injection Hlen as Hlen. rewrite (IH r Hlen). unfold call_cmp, lexf, keyc.
    rewrite !lexc_assoc. reflexivity.
Qed.

Definition calls_cmp : list Call -> list Call -> comparison := lexf counts_cmp (list_cmp call_cmp).

Lemma calls_cmp_ok : cmp_ok calls_cmp.
Proof. apply cmp_ok_lexf; [exact counts_cmp_ok|]. apply cmp_ok_list, call_cmp_ok. Qed.

Lemma stack_cmp_calls_cmp s r : stack_cmp s r = calls_cmp (Calls s) (Calls r).
Proof.
  unfold stack_cmp, calls_cmp, lexf.
  destruct (counts_cmp (Calls s) (Calls r)) eqn:E; simpl; try reflexivity.
  apply frames_cmp_list_cmp, counts_eq_length, E.
Qed.

Lemma stack_cmp_ok : cmp_ok stack_cmp.
Proof.
  apply (cmp_ok_ext (keyc Calls calls_cmp)); [exact stack_cmp_calls_cmp|].
  apply cmp_ok_keyc, calls_cmp_ok.
Qed.

Theorem stack_less_swo : swo stack_less.
Proof. exact (ltb_swo stack_cmp stack_cmp_ok). Qed.

(* ====================================================================== *)
(* 4. Signature.less                                                       *)
(* ====================================================================== *)

Definition sig_cmp : Signature -> Signature -> comparison :=
  lexf (keyc SStack stack_cmp) (lexf (keyc Locked true_first) (keyc State bcmp)).

Lemma sig_cmp_ok : cmp_ok sig_cmp.
Proof.
  unfold sig_cmp. apply cmp_ok_lexf; [|apply cmp_ok_lexf]; apply cmp_ok_keyc.
  - exact stack_cmp_ok.
  - exact true_first_ok.
  - exact bcmp_ok.
Qed.

Lemma sig_less_cmp s r : sig_less s r = ltb_of sig_cmp s r.
Proof.
  unfold sig_less, stack_less, ltb_of, sig_cmp, lexf, keyc.
  rewrite (cmp_sym stack_cmp_ok (SStack r) (SStack s)).
  destruct (stack_cmp (SStack s) (SStack r)); simpl; try reflexivity.
  destruct (Locked s), (Locked r); simpl; try reflexivity.
Qed.

Theorem sig_less_swo : swo sig_less.
Proof.
  assert (H : swo (ltb_of sig_cmp)) by (apply ltb_swo, sig_cmp_ok).
  unfold swo in *. destruct H as (H1 & H2 & H3 & H4).
  split; [|split; [|split]].
  - intros a. rewrite sig_less_cmp. apply H1.
  - intros a b. rewrite !sig_less_cmp. apply H2.
  - intros a b c. rewrite !sig_less_cmp. apply H3.
  - intros a b c. rewrite !sig_less_cmp. apply H4.
Qed.

Lemma stack_less_safe_all s r : stack_less_safe s r = true.
Proof.
  unfold stack_less_safe. destruct (counts_cmp (Calls s) (Calls r)) eqn:E; try reflexivity.
  apply counts_eq_length in E. rewrite E. apply Nat.leb_refl.
Qed.

Theorem sig_less_safe_all : forall s r, sig_less_safe s r = true.
Proof. intros s r. unfold sig_less_safe. rewrite !stack_less_safe_all. reflexivity. Qed.

(* ====================================================================== *)
(* 5. The closure handed to sort.SliceStable                               *)
(* ====================================================================== *)

Definition bkt_cmp : Bucket -> Bucket -> comparison :=
  lexf (keyc BFirst true_first)
 (lexf (keyc BSig sig_cmp) (keyc (fun b => List.length (IDs b)) Nat.compare)).

Lemma bkt_cmp_ok : cmp_ok bkt_cmp.
Proof.
  unfold bkt_cmp. apply cmp_ok_lexf; [|apply cmp_ok_lexf]; apply cmp_ok_keyc.
  - exact true_first_ok.
  - exact sig_cmp_ok.
  - exact nat_cmp_ok.
Qed.

Definition bkt_lt : Bucket -> Bucket -> bool := ltb_of bkt_cmp.

Lemma nat_ltb_cmp a b : Nat.ltb a b = is_lt (Nat.compare a b).
Proof.
  destruct (Nat.compare a b) eqn:E; simpl.
  - apply Nat.compare_eq_iff in E. subst. apply Nat.ltb_irrefl.
  - apply Nat.compare_lt_iff in E. apply Nat.ltb_lt. exact E.
  - apply Nat.compare_gt_iff in E. apply Nat.ltb_ge. apply Nat.lt_le_incl. exact E.
Qed.

(* bucket_before is the strict part of bkt_cmp except between two First buckets *)
Lemma bucket_before_cmp l r :
  BFirst l && BFirst r = false -> bucket_before l r = bkt_lt l r.
Proof.
  unfold bucket_before, bkt_lt, ltb_of, bkt_cmp, lexf, keyc.
  destruct (BFirst l), (BFirst r); simpl; intros H; try discriminate H; try reflexivity.
  rewrite !sig_less_cmp. unfold ltb_of.
  rewrite (cmp_sym sig_cmp_ok (BSig r) (BSig l)).
  destruct (sig_cmp (BSig l) (BSig r)); simpl; try reflexivity.
  apply nat_ltb_cmp.
Qed.

Lemma count_bfirst_cons b bs :
  count_bfirst (b :: bs) = (if BFirst b then 1 else 0) + count_bfirst bs.
Proof. unfold count_bfirst. simpl. destruct (BFirst b); reflexivity. Qed.

Lemma count_bfirst_zero bs b : count_bfirst bs = 0 -> In b bs -> BFirst b = false.
Proof.
  induction bs as [|x bs IH]; intros Hc Hin; [destruct Hin|].
  rewrite count_bfirst_cons in Hc. destruct Hin as [->|Hin].
  - destruct (BFirst b); [discriminate Hc|reflexivity].
  - apply IH; [|exact Hin]. destruct (BFirst x); [discriminate Hc|exact Hc].
Qed.

Lemma head_tail_not_both_first x bs y :
  count_bfirst (x :: bs) <= 1 -> In y bs -> BFirst x && BFirst y = false.
Proof.
  rewrite count_bfirst_cons. intros Hc Hin. destruct (BFirst x) eqn:Ex; [|reflexivity].
  simpl. apply (count_bfirst_zero bs); [lia|exact Hin].
Qed.

Lemma count_bfirst_tail x bs : count_bfirst (x :: bs) <= 1 -> count_bfirst bs <= 1.
Proof. rewrite count_bfirst_cons. lia. Qed.

Lemma not_both_first bs :
  count_bfirst bs <= 1 ->
  forall i j a b, nth_error bs i = Some a -> nth_error bs j = Some b -> i <> j ->
  BFirst a && BFirst b = false.
Proof.
  induction bs as [|x bs IH]; intros Hc i j a b Hi Hj Hij.
  - destruct i; discriminate Hi.
  - destruct i as [|i], j as [|j]; simpl in Hi, Hj.
    + contradiction Hij; reflexivity.
    + injection Hi as <-. apply (head_tail_not_both_first x bs b Hc). eapply nth_error_In, Hj.
    + injection Hj as <-. rewrite andb_comm.
      apply (head_tail_not_both_first x bs a Hc). eapply nth_error_In, Hi.
    + apply (IH (count_bfirst_tail x bs Hc) i j a b Hi Hj). intros E. apply Hij. rewrite E. reflexivity.
Qed.

Theorem bucket_before_swo :
  forall bs, count_bfirst bs <= 1 ->
  forall i j k a b c, nth_error bs i = Some a -> nth_error bs j = Some b -> nth_error bs k = Some c ->
  i <> j -> j <> k -> i <> k ->
  (bucket_before a b = true -> bucket_before b a = false) /\
  (bucket_before a b = true -> bucket_before b c = true -> bucket_before a c = true) /\
  (bucket_before a b = false -> bucket_before b a = false -> bucket_before b c = false -> bucket_before c b = false ->
     bucket_before a c = false /\ bucket_before c a = false).
Proof.
  intros bs Hc i j k a b c Hi Hj Hk Hij Hjk Hik.
  pose proof (not_both_first bs Hc i j a b Hi Hj Hij) as Nab.
  pose proof (not_both_first bs Hc j k b c Hj Hk Hjk) as Nbc.
  pose proof (not_both_first bs Hc i k a c Hi Hk Hik) as Nac.
  assert (Nba : BFirst b && BFirst a = false) by (rewrite andb_comm; exact Nab).
  assert (Ncb : BFirst c && BFirst b = false) by (rewrite andb_comm; exact Nbc).
  assert (Nca : BFirst c && BFirst a = false) by (rewrite andb_comm; exact Nac).
  rewrite (bucket_before_cmp a b Nab), (bucket_before_cmp b a Nba), (bucket_before_cmp b c Nbc),
          (bucket_before_cmp c b Ncb), (bucket_before_cmp a c Nac), (bucket_before_cmp c a Nca).
  destruct (ltb_swo bkt_cmp bkt_cmp_ok) as (_ & H2 & H3 & H4).
  split; [|split].
  - apply H2.
  - apply H3.
  - apply H4.
Qed.

Theorem two_first_refuted :
  exists a b, BFirst a = true /\ BFirst b = true /\ bucket_before a b = true /\ bucket_before b a = true.
Proof.
  exists (mkBucket emptySig [] true), (mkBucket emptySig [] true).
  split; [reflexivity|]. split; [reflexivity|]. split; reflexivity.
Qed.

(* ====================================================================== *)
(* 6. Insertion sort: generic facts                                        *)
(* ====================================================================== *)

Lemma insert_perm {B} (bf : B -> B -> bool) x l : Permutation (insert_stable bf x l) (x :: l).
Proof.
  induction l as [|a l IH]; simpl.
  - apply Permutation_refl.
  - destruct (bf a x).
    + eapply perm_trans; [apply perm_skip, IH|apply perm_swap].
    + apply Permutation_refl.
Qed.

Lemma sort_perm {B} (bf : B -> B -> bool) l : Permutation (sort_stable bf l) l.
Proof.
  induction l as [|a l IH]; simpl.
  - apply perm_nil.
  - eapply perm_trans; [apply insert_perm|apply perm_skip, IH].
Qed.

Lemma insert_In {B} (bf : B -> B -> bool) x l z : In z (insert_stable bf x l) -> z = x \/ In z l.
Proof.
  intros H. apply (Permutation_in z (insert_perm bf x l)) in H.
  destruct H as [H|H]; [left; symmetry; exact H|right; exact H].
Qed.

(* a property of all pairs of elements at distinct positions *)
Fixpoint all_pairs {B} (S : B -> B -> Prop) (l : list B) : Prop :=
  match l with
  | [] => True
  | x :: l' => (forall y, In y l' -> S x y /\ S y x) /\ all_pairs S l'
  end.

Lemma all_pairs_perm {B} (S : B -> B -> Prop) l l' :
  Permutation l l' -> all_pairs S l -> all_pairs S l'.
Proof.
  intros HP. induction HP as [|x l l' HP IH|x y l|l l' l'' HP1 IH1 HP2 IH2]; simpl.
  - intros H. exact H.
  - intros [Hx Hl]. split; [|apply IH, Hl].
    intros y Hy. apply Hx. apply (Permutation_in y (Permutation_sym HP)). exact Hy.
  - intros [Hy [Hx Hl]]. split; [|split; [|exact Hl]].
    + intros z [<-|Hz].
      * destruct (Hy x (or_introl eq_refl)) as [H1 H2]. split; assumption.
      * apply Hx, Hz.
    + intros z Hz. apply Hy. right. exact Hz.
  - intros H. apply IH2, IH1, H.
Qed.

Lemma all_pairs_map {B C} (f : C -> B) (S : B -> B -> Prop) l :
  all_pairs S (map f l) -> all_pairs (fun x y => S (f x) (f y)) l.
Proof.
  induction l as [|a l IH]; simpl; [intros H; exact H|].
  intros [Ha Hl]. split; [|apply IH, Hl].
  intros y Hy. apply Ha. apply in_map. exact Hy.
Qed.

Lemma all_pairs_impl {B} (S S' : B -> B -> Prop) l :
  (forall x y, S x y -> S' x y) -> all_pairs S l -> all_pairs S' l.
Proof.
  intros HS. induction l as [|a l IH]; simpl; [intros H; exact H|].
  intros [Ha Hl]. split; [|apply IH, Hl].
  intros y Hy. destruct (Ha y Hy) as [H1 H2]. split; apply HS; assumption.
Qed.

(* two closures that agree on all pairs at distinct positions sort alike *)
Lemma insert_ext {B} (b1 b2 : B -> B -> bool) x l :
  (forall y, In y l -> b1 y x = b2 y x) -> insert_stable b1 x l = insert_stable b2 x l.
Proof.
  induction l as [|a l IH]; simpl; intros H; [reflexivity|].
  rewrite (H a (or_introl eq_refl)). rewrite IH; [reflexivity|].
  intros y Hy. apply H. right. exact Hy.
Qed.

Lemma sort_ext {B} (b1 b2 : B -> B -> bool) l :
  all_pairs (fun x y => b1 x y = b2 x y) l -> sort_stable b1 l = sort_stable b2 l.
Proof.
  induction l as [|a l IH]; simpl; [reflexivity|].
  intros [Ha Hl]. rewrite (IH Hl). apply insert_ext.
  intros y Hy. apply Ha. apply (Permutation_in y (sort_perm b2 l)). exact Hy.
Qed.

(* ---- position tags ---- *)

(* tagn n l pairs every element of l with its position, counted from n *)
Fixpoint tagn {B} (n : nat) (l : list B) : list (nat * B) :=
  match l with
  | [] => []
  | a :: l' => (n, a) :: tagn (S n) l'
  end.

Lemma map_snd_tagn {B} n (l : list B) : map snd (tagn n l) = l.
Proof. revert n. induction l as [|a l IH]; intros n; simpl; [reflexivity|]. rewrite IH. reflexivity. Qed.

Lemma tagn_ge {B} n (l : list B) y : In y (tagn n l) -> n <= fst y.
Proof.
  revert n. induction l as [|a l IH]; intros n; simpl; intros H; [destruct H|].
  destruct H as [<-|H]; [simpl; lia|]. apply IH in H. lia.
Qed.

Definition tbefore {B} (bf : B -> B -> bool) (x y : nat * B) : bool := bf (snd x) (snd y).

(* x may stand before y in a stable sorted list: y is not strictly before x,
   and if they are incomparable then x came first in the input *)
Definition stab_rel {B} (bf : B -> B -> bool) (x y : nat * B) : Prop :=
  bf (snd y) (snd x) = false /\ (bf (snd x) (snd y) = false -> fst x < fst y).

(* out is a stable sorted rearrangement of bs: the elements of bs, each with
   its original position, can be rearranged into a list [tout] whose second
   projections are out, such that for any two entries x before y of tout,
   y's element is not strictly before x's and, if neither is before the other,
   x's original position is the smaller one. *)
Definition stable_sorted_of {B} (bf : B -> B -> bool) (bs out : list B) : Prop :=
  exists tout : list (nat * B),
    Permutation tout (tagn 0 bs) /\ map snd tout = out /\ StronglySorted (stab_rel bf) tout.

Lemma map_snd_insert {B} (bf : B -> B -> bool) x l :
  map snd (insert_stable (tbefore bf) x l) = insert_stable bf (snd x) (map snd l).
Proof.
  induction l as [|a l IH]; simpl; [reflexivity|].
  unfold tbefore at 1. destruct (bf (snd a) (snd x)); simpl; [rewrite IH|]; reflexivity.
Qed.

Lemma map_snd_sort {B} (bf : B -> B -> bool) l :
  map snd (sort_stable (tbefore bf) l) = sort_stable bf (map snd l).
Proof.
  induction l as [|a l IH]; simpl; [reflexivity|]. rewrite map_snd_insert, IH. reflexivity.
Qed.

(* ---- uniqueness: needs nothing about the closure ---- *)

Lemma stab_rel_antisym {B} (bf : B -> B -> bool) x y : stab_rel bf x y -> stab_rel bf y x -> False.
Proof. unfold stab_rel. intros [H1 H2] [H3 H4]. specialize (H2 H3). specialize (H4 H1). lia. Qed.

Lemma ssorted_perm_unique {B} (R : B -> B -> Prop) :
  (forall x y, R x y -> R y x -> False) ->
  forall l1 l2, Permutation l1 l2 -> StronglySorted R l1 -> StronglySorted R l2 -> l1 = l2.
Proof.
  intros HR. induction l1 as [|h1 t1 IH]; intros l2 HP S1 S2.
  - apply Permutation_nil in HP. symmetry. exact HP.
  - destruct l2 as [|h2 t2]; [apply Permutation_sym, Permutation_nil in HP; discriminate HP|].
    apply StronglySorted_inv in S1 as [S1 F1]. apply StronglySorted_inv in S2 as [S2 F2].
    rewrite Forall_forall in F1, F2.
    assert (Hh : h1 = h2).
    { assert (I1 : In h1 (h2 :: t2)) by (apply (Permutation_in h1 HP); left; reflexivity).
      assert (I2 : In h2 (h1 :: t1)) by (apply (Permutation_in h2 (Permutation_sym HP)); left; reflexivity).
      destruct I1 as [E|I1]; [symmetry; exact E|].
      destruct I2 as [E|I2]; [exact E|].
      exfalso. apply (HR h1 h2); [apply F1, I2|apply F2, I1]. }
    subst h2. f_equal. apply IH; [|exact S1|exact S2].
    apply (Permutation_cons_inv HP).
Qed.

Theorem stable_sorted_unique_gen {B} (bf : B -> B -> bool) bs out1 out2 :
  stable_sorted_of bf bs out1 -> stable_sorted_of bf bs out2 -> out1 = out2.
Proof.
  intros (t1 & P1 & M1 & S1) (t2 & P2 & M2 & S2).
  assert (E : t1 = t2).
  { apply (ssorted_perm_unique (stab_rel bf) (stab_rel_antisym bf)); [|exact S1|exact S2].
    eapply perm_trans; [exact P1|apply Permutation_sym, P2]. }
  subst t2. rewrite <- M1, <- M2. reflexivity.
Qed.

(* ---- existence: insertion sort under a total preorder ---- *)

Section SortCmp.
  Context {B : Type}.
  Variable c : B -> B -> comparison.
  Hypothesis Hc : cmp_ok c.
  Let lt := ltb_of c.

  Lemma insert_tag_sorted k a s :
    StronglySorted (stab_rel lt) s -> (forall y, In y s -> k < fst y) ->
    StronglySorted (stab_rel lt) (insert_stable (tbefore lt) (k, a) s).
  Proof.
    induction s as [|y s IH]; simpl; intros HS Hk.
    - apply SSorted_cons; [apply SSorted_nil|apply Forall_nil].
    - apply StronglySorted_inv in HS as [HS HF]. rewrite Forall_forall in HF.
      unfold tbefore at 1. simpl snd. destruct (lt (snd y) a) eqn:Eya.
      + apply SSorted_cons.
        * apply IH; [exact HS|]. intros z Hz. apply Hk. right. exact Hz.
        * apply Forall_forall. intros z Hz. apply insert_In in Hz as [->|Hz]; [|apply HF, Hz].
          unfold stab_rel. simpl. split.
          -- apply (ltb_asym Hc). exact Eya.
          -- intros H. change (lt (snd y) a = false) in H. rewrite Eya in H. discriminate H.
      + apply SSorted_cons.
        * apply SSorted_cons; [exact HS|apply Forall_forall; exact HF].
        * apply Forall_forall. intros z Hz. unfold stab_rel. simpl. split.
          -- destruct Hz as [<-|Hz]; [exact Eya|].
             destruct (HF z Hz) as [Hzy _].
             apply (ltb_negtrans Hc (snd z) (snd y) a Hzy Eya).
          -- intros _. apply Hk. exact Hz.
  Qed.

  Lemma sort_tag_sorted n l :
    StronglySorted (stab_rel lt) (sort_stable (tbefore lt) (tagn n l)).
  Proof.
    revert n. induction l as [|a l IH]; intros n; simpl.
    - apply SSorted_nil.
    - apply insert_tag_sorted; [apply IH|].
      intros y Hy. apply (Permutation_in y (sort_perm _ _)) in Hy. apply tagn_ge in Hy. lia.
  Qed.
End SortCmp.

(* transfer from the total preorder to a closure that agrees with it on all
   pairs at distinct positions *)
Lemma ssorted_stab_transfer {B} (b1 b2 : B -> B -> bool) l :
  all_pairs (fun x y : nat * B => b1 (snd x) (snd y) = b2 (snd x) (snd y)) l ->
  StronglySorted (stab_rel b2) l -> StronglySorted (stab_rel b1) l.
Proof.
  induction l as [|x l IH]; simpl; intros HA HS.
  - apply SSorted_nil.
  - destruct HA as [Hx HA]. apply StronglySorted_inv in HS as [HS HF]. rewrite Forall_forall in HF.
    apply SSorted_cons; [apply IH; assumption|].
    apply Forall_forall. intros y Hy. destruct (Hx y Hy) as [E1 E2]. destruct (HF y Hy) as [H1 H2].
    unfold stab_rel. rewrite E1, E2. split; assumption.
Qed.

Lemma sort_is_stable_sorted {B} (bf : B -> B -> bool) (c : B -> B -> comparison) bs :
  cmp_ok c -> all_pairs (fun x y => bf x y = ltb_of c x y) bs ->
  stable_sorted_of bf bs (sort_stable bf bs).
Proof.
  intros Hc HA.
  assert (HT : all_pairs (fun x y : nat * B => bf (snd x) (snd y) = ltb_of c (snd x) (snd y)) (tagn 0 bs)).
  { apply (all_pairs_map snd (fun x y => bf x y = ltb_of c x y)). rewrite map_snd_tagn. exact HA. }
  exists (sort_stable (tbefore bf) (tagn 0 bs)). split; [|split].
  - apply sort_perm.
  - rewrite map_snd_sort, map_snd_tagn. reflexivity.
  - apply (ssorted_stab_transfer bf (ltb_of c)).
    + apply (all_pairs_perm _ (tagn 0 bs)); [apply Permutation_sym, sort_perm|exact HT].
    + rewrite (sort_ext (tbefore bf) (tbefore (ltb_of c)) (tagn 0 bs) HT).
      apply sort_tag_sorted. exact Hc.
Qed.

(* consequences of stable sortedness *)
Lemma stable_sorted_perm {B} (bf : B -> B -> bool) bs out :
  stable_sorted_of bf bs out -> Permutation out bs.
Proof.
  intros (t & P & M & _). rewrite <- M, <- (map_snd_tagn 0 bs). apply Permutation_map. exact P.
Qed.

Lemma stable_sorted_no_inv {B} (bf : B -> B -> bool) bs out :
  stable_sorted_of bf bs out -> StronglySorted (fun a b => bf b a = false) out.
Proof.
  intros (t & _ & M & S). subst out. induction t as [|x t IH]; simpl.
  - apply SSorted_nil.
  - apply StronglySorted_inv in S as [S F]. apply SSorted_cons; [apply IH, S|].
    rewrite Forall_forall in F. apply Forall_forall. intros b Hb.
    apply in_map_iff in Hb as (y & <- & Hy). apply (F y Hy).
Qed.

Lemma ssorted_nth {B} (R : B -> B -> Prop) l :
  StronglySorted R l ->
  forall i j a b, i < j -> nth_error l i = Some a -> nth_error l j = Some b -> R a b.
Proof.
  induction l as [|x l IH]; intros HS i j a b Hij Hi Hj.
  - destruct i; discriminate Hi.
  - apply StronglySorted_inv in HS as [HS HF]. rewrite Forall_forall in HF.
    destruct j as [|j]; [lia|]. destruct i as [|i]; simpl in Hi, Hj.
    + injection Hi as <-. apply HF. eapply nth_error_In, Hj.
    + apply (IH HS i j a b); [lia|exact Hi|exact Hj].
Qed.

(* ====================================================================== *)
(* 7. The bucket sort                                                      *)
(* ====================================================================== *)

Lemma bucket_pairs_agree bs :
  count_bfirst bs <= 1 -> all_pairs (fun x y => bucket_before x y = ltb_of bkt_cmp x y) bs.
Proof.
  induction bs as [|x bs IH]; simpl; intros Hc; [exact I|].
  split; [|apply IH, (count_bfirst_tail x bs Hc)].
  intros y Hy. pose proof (head_tail_not_both_first x bs y Hc Hy) as N. split.
  - apply bucket_before_cmp. exact N.
  - apply bucket_before_cmp. rewrite andb_comm. exact N.
Qed.

Theorem sort_stable_is_stable_sorted :
  forall bs, count_bfirst bs <= 1 -> stable_sorted_of bucket_before bs (sort_stable bucket_before bs).
Proof.
  intros bs Hc. apply (sort_is_stable_sorted bucket_before bkt_cmp bs bkt_cmp_ok).
  apply bucket_pairs_agree. exact Hc.
Qed.

Theorem stable_sorted_unique :
  forall bs out1 out2, count_bfirst bs <= 1 ->
  stable_sorted_of bucket_before bs out1 -> stable_sorted_of bucket_before bs out2 -> out1 = out2.
Proof. intros bs out1 out2 _. apply stable_sorted_unique_gen. Qed.

(* ---- the order contract c13_ok on a list without inversion ---- *)

Definition no_inv (a b : Bucket) : Prop := bucket_before b a = false.

Lemma first_leads_of_no_inv out : StronglySorted no_inv out -> c13_first_leads out = true.
Proof.
  intros HS. destruct out as [|h t]; simpl; [reflexivity|].
  apply StronglySorted_inv in HS as [_ HF]. rewrite Forall_forall in HF.
  destruct (existsb BFirst t) eqn:E; [|reflexivity]. exfalso.
  apply existsb_exists in E as (f & Hin & Hf). specialize (HF f Hin).
  unfold no_inv, bucket_before in HF. rewrite Hf in HF. simpl in HF. discriminate HF.
Qed.

Lemma stdlib_counts l :
  forallb (fun c => loc_eqb (CLocation c) Stdlib && negb (IsPkgMain (CFunc c))) l = true ->
  count_main l = 0 /\ count_loc GoMod l = 0 /\ count_loc GOPATH l = 0 /\ count_loc GoPkg l = 0.
Proof.
  induction l as [|a l IH]; simpl; intros H.
  - repeat split; reflexivity.
  - apply andb_true_iff in H as [Ha Hl]. apply andb_true_iff in Ha as [Hloc Hmain].
    destruct (IH Hl) as (I1 & I2 & I3 & I4).
    rewrite count_main_cons, !count_loc_cons, I1, I2, I3, I4.
    apply negb_true_iff in Hmain. rewrite Hmain.
    destruct (CLocation a); try discriminate Hloc. simpl. repeat split; reflexivity.
Qed.

Lemma user_counts l :
  existsb (fun c => IsPkgMain (CFunc c) || loc_eqb (CLocation c) GoMod || loc_eqb (CLocation c) GOPATH ||
                    loc_eqb (CLocation c) GoPkg) l = true ->
  0 < count_main l + count_loc GoMod l + count_loc GOPATH l + count_loc GoPkg l.
Proof.
  induction l as [|a l IH]; simpl; intros H; [discriminate H|].
  rewrite count_main_cons, !count_loc_cons.
  apply orb_true_iff in H as [H|H]; [|apply IH in H; lia].
  destruct (IsPkgMain (CFunc a)); [lia|]. simpl in H.
  destruct (loc_eqb (CLocation a) GoMod); [lia|]. simpl in H.
  destruct (loc_eqb (CLocation a) GOPATH); [lia|]. simpl in H.
  rewrite H. lia.
Qed.

Lemma user_counts_before_stdlib l' l :
  count_main l = 0 -> count_loc GoMod l = 0 -> count_loc GOPATH l = 0 -> count_loc GoPkg l = 0 ->
  0 < count_main l' + count_loc GoMod l' + count_loc GOPATH l' + count_loc GoPkg l' ->
  counts_cmp l' l = Lt.
Proof.
  intros E1 E2 E3 E4. unfold counts_cmp, cmp_desc. rewrite E1, E2, E3, E4.
  generalize (count_main l') (count_loc GoMod l') (count_loc GOPATH l') (count_loc GoPkg l').
  intros m1 m2 m3 m4 Hpos.
  destruct m1 as [|m1]; simpl; [|reflexivity].
  destruct m2 as [|m2]; simpl; [|reflexivity].
  destruct m3 as [|m3]; simpl; [|reflexivity].
  destruct m4 as [|m4]; simpl; [|reflexivity].
  simpl in Hpos. lia.
Qed.

Lemma user_before_stdlib b' b :
  all_stdlib_no_main b = true -> BFirst b = false -> has_user_code b' = true -> BFirst b' = false ->
  bucket_before b' b = true.
Proof.
  unfold all_stdlib_no_main, has_user_code. intros Hs Fb Hu Fb'.
  destruct (stdlib_counts _ Hs) as (E1 & E2 & E3 & E4). apply user_counts in Hu.
  pose proof (user_counts_before_stdlib _ _ E1 E2 E3 E4 Hu) as HC.
  unfold bucket_before, sig_less, stack_less, stack_cmp. rewrite Fb, Fb', HC. reflexivity.
Qed.

Lemma stdlib_last_of_no_inv out : StronglySorted no_inv out -> c13_stdlib_last out = true.
Proof.
  induction out as [|b t IH]; intros HS; simpl; [reflexivity|].
  apply StronglySorted_inv in HS as [HS HF]. rewrite Forall_forall in HF.
  rewrite (IH HS), andb_true_r.
  destruct (all_stdlib_no_main b && negb (BFirst b)) eqn:E; [|reflexivity].
  apply andb_true_iff in E as [Hs Fb]. apply negb_true_iff in Fb.
  destruct (existsb (fun b' => has_user_code b' && negb (BFirst b')) t) eqn:E2; [|reflexivity].
  exfalso. apply existsb_exists in E2 as (b' & Hin & Hb').
  apply andb_true_iff in Hb' as [Hu Fb']. apply negb_true_iff in Fb'.
  pose proof (HF b' Hin) as HN. unfold no_inv in HN.
  rewrite (user_before_stdlib b' b Hs Fb Hu Fb') in HN. discriminate HN.
Qed.

Lemma c13_ok_of_no_inv out : StronglySorted no_inv out -> c13_ok out = true.
Proof.
  intros HS. unfold c13_ok. rewrite (first_leads_of_no_inv out HS), (stdlib_last_of_no_inv out HS).
  reflexivity.
Qed.

Lemma sort_no_inv bs :
  count_bfirst bs <= 1 -> StronglySorted no_inv (sort_stable bucket_before bs).
Proof.
  intros Hc. apply (stable_sorted_no_inv bucket_before bs). apply sort_stable_is_stable_sorted, Hc.
Qed.

Theorem sorted_ok :
  forall bs, count_bfirst bs <= 1 ->
  let out := sort_stable bucket_before bs in
  Permutation out bs /\
  (forall i j a b, i < j -> nth_error out i = Some a -> nth_error out j = Some b -> bucket_before b a = false) /\
  c13_ok out = true.
Proof.
  intros bs Hc out. pose proof (sort_no_inv bs Hc) as HS. fold out in HS.
  split; [apply sort_perm|]. split.
  - intros i j a b Hij Hi Hj. apply (ssorted_nth no_inv out HS i j a b Hij Hi Hj).
  - apply c13_ok_of_no_inv, HS.
Qed.

(* ====================================================================== *)
(* 8. Aggregate                                                            *)
(* ====================================================================== *)

Definition b2n (b : bool) : nat := if b then 1 else 0.
Definition ecount (st : list entry) : nat := List.length (filter efirst st).

Lemma ecount_cons e st : ecount (e :: st) = b2n (efirst e) + ecount st.
Proof. unfold ecount. simpl. destruct (efirst e); reflexivity. Qed.

Lemma ecount_snoc st e : ecount (st ++ [e]) = ecount st + b2n (efirst e).
Proof.
  induction st as [|a st IH]; [simpl app; rewrite ecount_cons; unfold ecount; simpl; lia|].
  simpl app. rewrite !ecount_cons, IH. lia.
Qed.

Lemma ecount_upd_nth st i e e' :
  nth_error st i = Some e ->
  ecount (upd_nth i (fun _ => e') st) + b2n (efirst e) = ecount st + b2n (efirst e').
Proof.
  revert i. induction st as [|a st IH]; intros i Hi; [destruct i; discriminate Hi|].
  destruct i as [|i]; simpl in Hi |- *.
  - injection Hi as ->. rewrite !ecount_cons. lia.
  - rewrite !ecount_cons. specialize (IH i Hi). lia.
Qed.

Lemma count_first_cons g gs : count_first (g :: gs) = b2n (First g) + count_first gs.
Proof. unfold count_first. simpl. destruct (First g); reflexivity. Qed.

Lemma b2n_orb a b : b2n (a || b) <= b2n a + b2n b.
Proof. destruct a, b; simpl; lia. Qed.

Lemma agg_step_ecount shuffle lvl st k g st' :
  agg_step shuffle lvl st k g = Ok st' -> ecount st' <= ecount st + b2n (First g).
Proof.
  unfold agg_step.
  destruct (find (entry_similar lvl st g) (shuffle k (seq 0 (List.length st)))) as [i|].
  - destruct (nth_error st i) as [e|] eqn:En; [|intros H; discriminate H].
    destruct (sig_equal (ekey e) (GSig g)).
    + intros H. injection H as <-.
      pose proof (ecount_upd_nth st i e (mkEntry (ekey e) (eids e ++ [ID g]) (efirst e || First g)) En) as HU.
      simpl in HU. pose proof (b2n_orb (efirst e) (First g)). lia.
    + destruct (sig_merge_safe (ekey e) (GSig g)); [|intros H; discriminate H].
      intros H. injection H as <-.
      pose proof (ecount_upd_nth st i e
                    (mkEntry (sig_merge (ekey e) (GSig g)) (eids e ++ [ID g]) (efirst e || First g)) En) as HU.
      simpl in HU. pose proof (b2n_orb (efirst e) (First g)). lia.
  - intros H. injection H as <-. rewrite ecount_snoc. simpl. lia.
Qed.

Lemma agg_loop_ecount shuffle lvl gs : forall st k st',
  agg_loop shuffle lvl st k gs = Ok st' -> ecount st' <= ecount st + count_first gs.
Proof.
  induction gs as [|g gs IH]; intros st k st'; simpl.
  - intros H. injection H as <-. lia.
  - destruct (agg_step shuffle lvl st k g) as [st1|msg] eqn:Es; simpl; [|intros H; discriminate H].
    intros H. apply IH in H. apply agg_step_ecount in Es. rewrite count_first_cons. lia.
Qed.

Lemma count_bfirst_entries st : count_bfirst (map bucket_of_entry st) = ecount st.
Proof.
  induction st as [|e st IH]; [reflexivity|].
  simpl map. rewrite count_bfirst_cons, ecount_cons, IH. reflexivity.
Qed.

Theorem aggregate_order_ok :
  forall shuffle lvl gs bs, count_first gs <= 1 ->
  aggregate shuffle lvl gs = Ok bs -> c13_ok bs = true.
Proof.
  intros shuffle lvl gs bs Hc. unfold aggregate.
  destruct (agg_loop shuffle lvl [] 0 gs) as [st|msg] eqn:El; simpl; [|intros H; discriminate H].
  intros H. injection H as <-.
  apply agg_loop_ecount in El. change (ecount []) with 0 in El.
  apply c13_ok_of_no_inv, sort_no_inv. rewrite count_bfirst_entries. lia.
Qed.

(* ====================================================================== *)
(* 9. Non-vacuity                                                          *)
(* ====================================================================== *)

Definition ex_stdlib_call : Call := mkCall emptyFunc emptyArgs [] 0 [] [] [] [] [] Stdlib.
Definition ex_main_call : Call :=
  mkCall (mkFunc [] [] [] [] false true) emptyArgs [] 0 [] [] [] [] [] LocationUnknown.
Definition ex_sig (c : Call) : Signature := mkSig [] emptyStack 0 0 (mkStack [c] false) false.
Definition ex_buckets : list Bucket :=
  [ mkBucket (ex_sig ex_stdlib_call) [1%Z] false;
    mkBucket (ex_sig ex_main_call) [2%Z] false;
    mkBucket emptySig [3%Z] true ].

Theorem example_sorted : exists bs, count_bfirst bs = 1 /\ List.length bs = 3 /\
  c13_ok (sort_stable bucket_before bs) = true /\ sort_stable bucket_before bs <> bs.
Proof.
  exists ex_buckets. split; [reflexivity|]. split; [reflexivity|]. split; [vm_compute; reflexivity|].
  intros H. vm_compute in H. discriminate H.
Qed.
