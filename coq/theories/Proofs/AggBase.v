(* Proofs/AggBase.v — reusable material for the bucket proofs:
   induction principles for the nested inductives Arg and cval, unfolding
   equations that replace the anonymous nested fixes by the named list
   functions, generic list/permutation lemmas, the two insertion sorts. *)
From PP Require Import Base.Bytes Base.GoResult Model.Types Model.Stack Model.Bucket Spec.BucketSpec Spec.Wf.
From Coq Require Import Permutation.

(* ------------------------------------------------------------------ *)
(* induction principles                                                *)
(* ------------------------------------------------------------------ *)
Section ArgInd.
  Variable P : Arg -> Prop.
  Hypothesis HP : forall g n v p t i fv fp fe, Forall P fv -> P (MkArg g n v p t i fv fp fe).
  Fixpoint Arg_ind' (a : Arg) : P a :=
    match a with
    | MkArg g n v p t i fv fp fe =>
        HP g n v p t i fv fp fe
          ((fix go (l : list Arg) : Forall P l :=
              match l with
              | [] => Forall_nil P
              | x :: l' => Forall_cons x (Arg_ind' x) (go l')
              end) fv)
    end.
End ArgInd.

Section CvalInd.
  Variable P : cval -> Prop.
  Hypothesis HS : forall n t p v, P (CScalar n t p v).
  Hypothesis HA : forall e fs, Forall P fs -> P (CAgg e fs).
  Fixpoint cval_ind' (c : cval) : P c :=
    match c with
    | CScalar n t p v => HS n t p v
    | CAgg e fs =>
        HA e fs
          ((fix go (l : list cval) : Forall P l :=
              match l with
              | [] => Forall_nil P
              | x :: l' => Forall_cons x (cval_ind' x) (go l')
              end) fs)
    end.
End CvalInd.

(* ------------------------------------------------------------------ *)
(* unfolding equations: nested fix = named list function               *)
(* ------------------------------------------------------------------ *)
Lemma arg_similar_eq lvl ag an av ap at_ ai afv afp afe rg rn rv rp rt ri rfv rfp rfe :
  arg_similar lvl (MkArg ag an av ap at_ ai afv afp afe) (MkArg rg rn rv rp rt ri rfv rfp rfe) =
  if negb (Bool.eqb ag rg) then false else
  if ag then Bool.eqb afe rfe && args_list_similar lvl afv rfv
  else match lvl with
       | ExactFlags | ExactLines => beq an rn && Bool.eqb at_ rt && Bool.eqb ap rp && N.eqb av rv
       | AnyValue => true
       | AnyPointer => Bool.eqb at_ rt && Bool.eqb ap rp && (ap || N.eqb av rv)
       end.
Proof.
  simpl. destruct (negb (Bool.eqb ag rg)); [reflexivity|]. destruct ag; [|reflexivity].
  f_equal. clear. revert rfv. induction afv as [|x l IH]; intros [|y r]; simpl; try reflexivity.
  now rewrite IH.
Qed.

Lemma canon_arg_eq lvl ag n v p tl i fv fp fe :
  canon_arg lvl (MkArg ag n v p tl i fv fp fe) =
  if ag then CAgg fe (map (canon_arg lvl) fv)
  else match lvl with
       | ExactFlags | ExactLines => CScalar n tl p v
       | AnyPointer => CScalar [] tl p (if p then 0%N else v)
       | AnyValue => CScalar [] false false 0%N
       end.
Proof.
  simpl. destruct ag; reflexivity.
Qed.

Lemma cval_eqb_agg e1 f1 e2 f2 :
  cval_eqb (CAgg e1 f1) (CAgg e2 f2) = Bool.eqb e1 e2 && list_eqb cval_eqb f1 f2.
Proof.
  simpl. f_equal. revert f2. induction f1 as [|x l IH]; intros [|y r]; simpl; try reflexivity.
  now rewrite IH.
Qed.

Lemma arg_merge_eq lg ln lv lp lt li lfv lfp lfe r :
  arg_merge (MkArg lg ln lv lp lt li lfv lfp lfe) r =
  if lg then MkArg true [] 0 false false false (args_list_merge lfv (Values (Fields r))) [] lfe
  else if negb (arg_equal (MkArg lg ln lv lp lt li lfv lfp lfe) r)
       then MkArg false (s2b "*") lv lp false false [] [] false
       else MkArg lg ln lv lp lt li lfv lfp lfe.
Proof.
  destruct r as [rg rn rv rp rt ri rfv rfp rfe].
  cbn [arg_merge Fields Values]. destruct lg; reflexivity.
Qed.

Lemma arg_merge_safe_eq lg ln lv lp lt li lfv lfp lfe r :
  arg_merge_safe (MkArg lg ln lv lp lt li lfv lfp lfe) r =
  if lg then args_list_merge_safe lfv (Values (Fields r)) else true.
Proof.
  destruct r as [rg rn rv rp rt ri rfv rfp rfe].
  cbn [arg_merge_safe Fields Values]. destruct lg; reflexivity.
Qed.

Lemma wf_arg_eq ag n v p tl i fv fp fe :
  wf_arg (MkArg ag n v p tl i fv fp fe) =
  if ag then forallb wf_arg fv else (p || beq n []) && (negb tl || negb p).
Proof.
  simpl. destruct ag; reflexivity.
Qed.

(* ------------------------------------------------------------------ *)
(* boolean equalities                                                  *)
(* ------------------------------------------------------------------ *)
Lemma list_eqb_iff {A} (eqb : A -> A -> bool) (l1 : list A) :
  Forall (fun x => forall y, eqb x y = true <-> x = y) l1 ->
  forall l2, list_eqb eqb l1 l2 = true <-> l1 = l2.
Proof.
  intros HF. induction HF as [|x l Hx HF IH]; intros [|y r]; simpl; split; intros H;
    try discriminate; try reflexivity.
  - apply andb_true_iff in H as [H1 H2]. apply Hx in H1. apply IH in H2. now subst.
  - inversion H; subst. apply andb_true_iff. split; [now apply Hx | now apply IH].
Qed.

Lemma list_eqb_iff' {A} (eqb : A -> A -> bool) :
  (forall x y, eqb x y = true <-> x = y) ->
  forall l1 l2, list_eqb eqb l1 l2 = true <-> l1 = l2.
Proof.
  intros H l1. apply list_eqb_iff. apply Forall_forall. intros x _. apply H.
Qed.

Lemma bool_eqb_iff a b : Bool.eqb a b = true <-> a = b.
Proof. apply eqb_true_iff. Qed.

Lemma cval_eqb_iff a : forall b, cval_eqb a b = true <-> a = b.
Proof.
  induction a as [n t p v | e fs IH] using cval_ind'; intros [n' t' p' v' | e' fs'].
  - simpl. rewrite !andb_true_iff, beq_eq, !bool_eqb_iff, N.eqb_eq.
    split; [intros [[[-> ->] ->] ->]; reflexivity | intros H; inversion H; auto].
  - simpl. split; discriminate.
  - simpl. split; discriminate.
  - rewrite cval_eqb_agg, andb_true_iff, bool_eqb_iff, (list_eqb_iff _ _ IH).
    split; [intros [-> ->]; reflexivity | intros H; inversion H; auto].
Qed.

Lemma canon_args_eqb_iff a b : canon_args_eqb a b = true <-> a = b.
Proof.
  destruct a as [e1 l1], b as [e2 l2]. unfold canon_args_eqb. simpl.
  rewrite andb_true_iff, bool_eqb_iff, (list_eqb_iff' _ cval_eqb_iff).
  split; [intros [-> ->]; reflexivity | intros H; inversion H; auto].
Qed.

Lemma canon_call_eqb_iff a b : canon_call_eqb a b = true <-> a = b.
Proof.
  destruct a as [[[l1 c1] r1] a1], b as [[[l2 c2] r2] a2]. unfold canon_call_eqb.
  rewrite !andb_true_iff, Z.eqb_eq, !beq_eq, canon_args_eqb_iff.
  split; [intros [[[-> ->] ->] ->]; reflexivity | intros H; inversion H; auto].
Qed.

Lemma canon_stack_eqb_iff a b : canon_stack_eqb a b = true <-> a = b.
Proof.
  destruct a as [e1 l1], b as [e2 l2]. unfold canon_stack_eqb. simpl.
  rewrite andb_true_iff, bool_eqb_iff, (list_eqb_iff' _ canon_call_eqb_iff).
  split; [intros [-> ->]; reflexivity | intros H; inversion H; auto].
Qed.

Lemma canon_sig_eqb_iff lvl a b : canon_sig_eqb lvl a b = true <-> canon_sig lvl a = canon_sig lvl b.
Proof.
  unfold canon_sig_eqb, canon_sig.
  rewrite !andb_true_iff, beq_eq, !canon_stack_eqb_iff, bool_eqb_iff.
  split; [intros [[[-> ->] ->] ->]; reflexivity | intros H; injection H as H1 H2 H3 H4 H5 H6; unfold canon_stack; repeat split; congruence].
Qed.

Lemma canon_sig_eqb_false lvl a b : canon_sig_eqb lvl a b = false <-> canon_sig lvl a <> canon_sig lvl b.
Proof.
  split.
  - intros H E. apply canon_sig_eqb_iff in E. congruence.
  - intros H. destruct (canon_sig_eqb lvl a b) eqn:E; [|reflexivity].
    apply canon_sig_eqb_iff in E. contradiction.
Qed.

(* ------------------------------------------------------------------ *)
(* generic list lemmas                                                 *)
(* ------------------------------------------------------------------ *)
Lemma NoDup_map_inj_in {A B} (f : A -> B) (l : list A) x y :
  NoDup (map f l) -> In x l -> In y l -> f x = f y -> x = y.
Proof.
  induction l as [|a l IH]; simpl; intros HN Hx Hy E; [contradiction|].
  inversion HN as [|? ? Hni HN']; subst.
  destruct Hx as [-> | Hx], Hy as [-> | Hy]; try reflexivity.
  - exfalso. apply Hni. rewrite E. now apply in_map.
  - exfalso. apply Hni. rewrite <- E. now apply in_map.
  - now apply IH.
Qed.

Lemma Permutation_filter {A} (f : A -> bool) (l l' : list A) :
  Permutation l l' -> Permutation (filter f l) (filter f l').
Proof.
  intros HP. induction HP as [| x l l' HP IH | x y l | l l' l'' HP1 IH1 HP2 IH2]; simpl.
  - constructor.
  - destruct (f x); [now constructor | assumption].
  - destruct (f x), (f y); try apply Permutation_refl. apply perm_swap.
  - now transitivity (filter f l').
Qed.

Lemma Permutation_flat_map_ext {A B} (f g : A -> list B) (l : list A) :
  (forall x, In x l -> Permutation (f x) (g x)) -> Permutation (flat_map f l) (flat_map g l).
Proof.
  induction l as [|x l IH]; simpl; intros H; [constructor|].
  apply Permutation_app; [apply H; now left | apply IH; intros y Hy; apply H; now right].
Qed.

Lemma length_flat_map {A B} (f : A -> list B) (l : list A) :
  List.length (flat_map f l) = fold_right Nat.add 0 (map (fun x => List.length (f x)) l).
Proof.
  induction l as [|x l IH]; simpl; [reflexivity|]. now rewrite app_length, IH.
Qed.

Lemma upd_nth_app {A} (f : A -> A) (l1 : list A) x l2 :
  upd_nth (List.length l1) f (l1 ++ x :: l2) = l1 ++ f x :: l2.
Proof. induction l1 as [|a l1 IH]; simpl; [reflexivity|]. now rewrite IH. Qed.

Lemma nth_error_split' {A} (l : list A) n x :
  nth_error l n = Some x -> exists l1 l2, l = l1 ++ x :: l2 /\ List.length l1 = n.
Proof. apply nth_error_split. Qed.

Lemma map_eq_app_inv {A B} (f : A -> B) (l : list A) l1 y l2 :
  map f l = l1 ++ y :: l2 ->
  exists k1 x k2, l = k1 ++ x :: k2 /\ map f k1 = l1 /\ f x = y /\ map f k2 = l2.
Proof.
  revert l1. induction l as [|a l IH]; intros [|b l1]; simpl; intros H; try discriminate.
  - inversion H; subst. exists [], a, l. auto.
  - inversion H as [[H1 H2]]. destruct (IH _ H2) as (k1 & x & k2 & -> & E1 & E2 & E3).
    exists (a :: k1), x, k2. simpl. rewrite E1. auto.
Qed.

(* ------------------------------------------------------------------ *)
(* the stable insertion sort                                           *)
(* ------------------------------------------------------------------ *)
Lemma insert_stable_perm {A} (f : A -> A -> bool) x l : Permutation (insert_stable f x l) (x :: l).
Proof.
  induction l as [|y l IH]; simpl; [apply Permutation_refl|].
  destruct (f y x); [|apply Permutation_refl].
  transitivity (y :: x :: l); [now constructor | apply perm_swap].
Qed.

Lemma sort_stable_perm {A} (f : A -> A -> bool) l : Permutation (sort_stable f l) l.
Proof.
  induction l as [|x l IH]; simpl; [constructor|].
  transitivity (x :: sort_stable f l); [apply insert_stable_perm | now constructor].
Qed.

Lemma insert_ints_sorted x l : sortedZ l = true -> sortedZ (insert_stable Z.ltb x l) = true.
Proof.
  induction l as [|y l IH]; intros HS; [reflexivity|].
  cbn [insert_stable]. destruct (Z.ltb_spec y x) as [Hlt|Hge].
  - destruct l as [|z l]; cbn [insert_stable] in *.
    + cbn. rewrite andb_true_r. apply Z.leb_le. lia.
    + cbn [sortedZ] in HS. apply andb_true_iff in HS as [H1 H2].
      specialize (IH H2). destruct (Z.ltb_spec z x) as [Hzx|Hzx].
      * cbn [sortedZ]. rewrite H1. exact IH.
      * cbn [sortedZ]. cbn [sortedZ] in IH. rewrite IH.
        replace (y <=? x)%Z with true; [reflexivity|]. symmetry. apply Z.leb_le. lia.
  - cbn [sortedZ]. cbn [sortedZ] in HS. rewrite HS.
    replace (x <=? y)%Z with true; [reflexivity|]. symmetry. apply Z.leb_le. lia.
Qed.

Lemma sort_ints_sorted l : sortedZ (sort_ints l) = true.
Proof.
  unfold sort_ints. induction l as [|x l IH]; [reflexivity|].
  cbn [sort_stable]. now apply insert_ints_sorted.
Qed.

Lemma sort_ints_perm l : Permutation (sort_ints l) l.
Proof. apply sort_stable_perm. Qed.

(* ------------------------------------------------------------------ *)
(* the spec's insertion sort and id helpers                            *)
(* ------------------------------------------------------------------ *)
Lemma insertZ_comm x y l : insertZ x (insertZ y l) = insertZ y (insertZ x l).
Proof.
  induction l as [|a l IH]; simpl.
  - destruct (Z.leb_spec x y), (Z.leb_spec y x); try reflexivity; try lia.
    assert (x = y) by lia. now subst.
  - destruct (Z.leb_spec y a) as [Hy|Hy], (Z.leb_spec x a) as [Hx|Hx]; simpl.
    + destruct (Z.leb_spec x y), (Z.leb_spec y x), (Z.leb_spec x a), (Z.leb_spec y a);
        try reflexivity; try lia.
      assert (x = y) by lia. now subst.
    + destruct (Z.leb_spec x y), (Z.leb_spec x a), (Z.leb_spec y a); try reflexivity; try lia.
    + destruct (Z.leb_spec y x), (Z.leb_spec x a), (Z.leb_spec y a); try reflexivity; try lia.
    + destruct (Z.leb_spec x a), (Z.leb_spec y a); try lia. now rewrite IH.
Qed.

Lemma sortZ_perm l1 l2 : Permutation l1 l2 -> sortZ l1 = sortZ l2.
Proof.
  unfold sortZ. intros HP.
  induction HP as [| x l l' HP IH | x y l | l l' l'' HP1 IH1 HP2 IH2]; simpl.
  - reflexivity.
  - now rewrite IH.
  - apply insertZ_comm.
  - congruence.
Qed.

Lemma list_eqb_Z_refl l : list_eqb Z.eqb l l = true.
Proof. induction l as [|x l IH]; simpl; [reflexivity|]. now rewrite Z.eqb_refl, IH. Qed.

Lemma memZ_In x l : memZ x l = true <-> In x l.
Proof.
  unfold memZ. rewrite existsb_exists. split.
  - intros (y & Hy & E). apply Z.eqb_eq in E. now subst.
  - intros H. exists x. split; [assumption | apply Z.eqb_refl].
Qed.

Lemma nodupZ_NoDup l : nodupZ l = true <-> NoDup l.
Proof.
  induction l as [|x l IH]; simpl.
  - split; [constructor | reflexivity].
  - rewrite andb_true_iff, negb_true_iff, IH. split.
    + intros [H1 H2]. constructor; [|assumption]. intros Hin. apply memZ_In in Hin. congruence.
    + intros H. inversion H as [|? ? Hni Hnd]; subst. split; [|assumption].
      destruct (memZ x l) eqn:E; [|reflexivity]. apply memZ_In in E. contradiction.
Qed.
