(* Proofs/AugmentSnapProofs.v — the snapshot-level driver of the source
   analysis (Model/AugmentSnap.v): the cache is invisible, the driver is the
   uncached per-call computation mapped over the stacks; per call: totality,
   only Processed is written, identity on unusable / mismatching sources,
   truthful rendering lifted from SourceProofs.types_compose, and what really
   happens for value receivers. *)
From PP Require Import Base.Bytes Base.BytesX Base.Num Base.GoResult Model.Types Model.UI Model.Augment Model.Source Spec.Abi
     Model.AugmentSnap.
From PP Require Import Proofs.AugmentProofs Proofs.SourceProofs.
From Coq Require Import String.

(* ------------------------------------------------------------------ *)
(* map_res *)
Lemma map_res_nth : forall {A B} (f : A -> GoResult B) l l',
  map_res f l = Ok l' ->
  forall i, match nth_error l i with
            | Some x => exists y, nth_error l' i = Some y /\ f x = Ok y
            | None => nth_error l' i = None
            end.
Proof.
  intros A B f l. induction l as [|x l IH]; intros l' H i.
  - simpl in H. inversion H; subst. destruct i; reflexivity.
  - simpl in H. destruct (f x) as [y|m] eqn:Ex; [|discriminate]. simpl in H.
    destruct (map_res f l) as [ys|m] eqn:El; [|discriminate]. simpl in H. inversion H; subst. clear H.
    destruct i as [|i]; simpl.
    + exists y. split; [reflexivity|assumption].
    + apply (IH ys eq_refl i).
Qed.

Lemma map_res_total : forall {A B} (f : A -> GoResult B) l,
  (forall x, In x l -> exists y, f x = Ok y) -> exists l', map_res f l = Ok l'.
Proof.
  intros A B f l. induction l as [|x l IH]; intros H.
  - exists []. reflexivity.
  - destruct (H x (or_introl eq_refl)) as [y Hy].
    destruct IH as [ys Hys]. { intros z Hz. apply H. right. assumption. }
    exists (y :: ys). simpl. rewrite Hy. simpl. rewrite Hys. reflexivity.
Qed.

Lemma map_res_map : forall {A B C} (f : A -> GoResult B) (h : B -> C) (k : A -> C) l l',
  (forall x y, f x = Ok y -> h y = k x) -> map_res f l = Ok l' -> map h l' = map k l.
Proof.
  intros A B C f h k l. induction l as [|x l IH]; intros l' Hf H.
  - simpl in H. inversion H; subst. reflexivity.
  - simpl in H. destruct (f x) as [y|m] eqn:Ex; [|discriminate]. simpl in H.
    destruct (map_res f l) as [ys|m] eqn:El; [|discriminate]. simpl in H. inversion H; subst. clear H.
    simpl. rewrite (Hf x y Ex), (IH ys Hf eq_refl). reflexivity.
Qed.

Lemma nth_error_In' : forall {A} (l : list A) i x, nth_error l i = Some x -> In x l.
Proof. intros A l i x H. exact (nth_error_In l i H). Qed.

(* ------------------------------------------------------------------ *)
(* set_processed / strip *)
Lemma set_processed_same : forall c, set_processed c (Processed (CArgs c)) = c.
Proof. intros [fn [vs pr el] rp ln sn ds lp rs ip loc]. reflexivity. Qed.

Lemma strip_set_processed : forall c pr, strip_call (set_processed c pr) = strip_call c.
Proof. intros c pr. reflexivity. Qed.

Lemma strip_call_inv : forall c c', strip_call c' = strip_call c -> c' = set_processed c (Processed (CArgs c')).
Proof.
  intros [fn [vs pr el] rp ln sn ds lp rs ip loc] [fn' [vs' pr' el'] rp' ln' sn' ds' lp' rs' ip' loc'] H.
  unfold strip_call, set_processed in H. cbn in H. inversion H; subst. reflexivity.
Qed.

Lemma cons_inj : forall {A} (x y : A) l l', x :: l = y :: l' -> x = y /\ l = l'.
Proof. intros A x y l l' H. split; [exact (f_equal (hd x) H)|exact (f_equal (@tl A) H)]. Qed.

Lemma strip_calls_inv : forall cs cs', map strip_call cs' = map strip_call cs ->
  Forall2 (fun c c' => c' = set_processed c (Processed (CArgs c'))) cs cs'.
Proof.
  induction cs as [|c cs IH]; intros [|c' cs'] H; simpl in H; try discriminate; constructor;
    apply cons_inj in H; destruct H as [H1 H2].
  - apply strip_call_inv. assumption.
  - apply IH. assumption.
Qed.

(* what the eraser forgets is exactly Processed of the stack's calls *)
Lemma strip_goroutine_inv : forall g g', strip_goroutine g' = strip_goroutine g ->
  State (GSig g') = State (GSig g) /\ CreatedBy (GSig g') = CreatedBy (GSig g) /\
  SleepMin (GSig g') = SleepMin (GSig g) /\ SleepMax (GSig g') = SleepMax (GSig g) /\
  Locked (GSig g') = Locked (GSig g) /\ ID g' = ID g /\ First g' = First g /\
  RaceWrite g' = RaceWrite g /\ RaceAddr g' = RaceAddr g /\
  SElided (SStack (GSig g')) = SElided (SStack (GSig g)) /\
  Forall2 (fun c c' => c' = set_processed c (Processed (CArgs c')))
          (Calls (SStack (GSig g))) (Calls (SStack (GSig g'))).
Proof.
  intros [[st cb mn mx [cs el] lk] id fi rw ra] [[st' cb' mn' mx' [cs' el'] lk'] id' fi' rw' ra'] H.
  unfold strip_goroutine, set_stack in H. cbn in H. inversion H; subst. cbn.
  repeat split. apply strip_calls_inv. assumption.
Qed.

Section Proofs.
  (* the oracles of Model/AugmentSnap.v, universally quantified after the section *)
  Variables f32 f64 : N -> bytes.               (* strconv.FormatFloat on the bit pattern *)
  Variable read_file : bytes -> option bytes.   (* os.ReadFile *)
  Variable parse : bytes -> option node.        (* go/parser *)

  Notation load := (load_file read_file parse).
  Notation loadU := (load_uncached read_file parse).
  Notation step := (augment_step f32 f64 read_file parse).
  Notation U := (augment_call_uncached f32 f64 read_file parse).
  Notation UG := (augment_goroutine_uncached f32 f64 read_file parse).
  Notation US := (augment_snapshot_uncached f32 f64 read_file parse).
  Notation snap := (augment_snapshot f32 f64 read_file parse).

  (* ---------------------------------------------------------------- *)
  (* the cache *)
  Definition cache_ok (c : cache) : Prop := forall k v, cache_find c k = Some v -> v = loadU k.

  Lemma cache_ok_nil : cache_ok [].
  Proof. intros k v H. discriminate. Qed.

  Lemma cache_ok_set : forall c k v, cache_ok c -> v = loadU k -> cache_ok (cache_set c k v).
  Proof.
    intros c k v Hc Hv k' v' H. unfold cache_set in H. simpl in H.
    destruct (beq k k') eqn:E.
    - apply beq_eq in E. subst k'. inversion H; subst. reflexivity.
    - apply Hc. assumption.
  Qed.

  Lemma cache_get_set_same : forall c k v, cache_get (cache_set c k v) k = v.
  Proof. intros c k v. unfold cache_get, cache_set. simpl. rewrite beq_refl. destruct v; reflexivity. Qed.

  Lemma cache_get_ok : forall c k v, cache_ok c -> cache_find c k = Some v -> cache_get c k = loadU k.
  Proof. intros c k v Hc H. unfold cache_get. rewrite H. rewrite <- (Hc k v H). destruct v; reflexivity. Qed.

  Lemma load_file_ok : forall c k, cache_ok c ->
    cache_ok (fst (load c k)) /\ cache_get (fst (load c k)) k = loadU k.
  Proof.
    intros c k Hc. destruct k as [|x k'].
    - simpl. split; [assumption|].
      unfold cache_get. destruct (cache_find c []) as [v|] eqn:E; [|reflexivity].
      rewrite (Hc [] v E). reflexivity.
    - remember (x :: k') as K eqn:EK.
      assert (EL : load c K =
                   match cache_find c K with
                   | Some _ => (c, None)
                   | None =>
                       let c0 := cache_set c K None in
                       if negb (has_suffix K GO_SUFFIX) then (c0, Some (ErrNonGo K))
                       else match read_file K with
                            | None => (c0, Some (ErrRead K))
                            | Some src =>
                                match parse src with
                                | None => (c0, Some (ErrParse K))
                                | Some tree => (cache_set c0 K (Some (mkParsed (line_offsets src) tree)), None)
                                end
                            end
                   end) by (subst K; reflexivity).
      assert (EU : loadU K =
                   if negb (has_suffix K GO_SUFFIX) then None
                   else match read_file K with
                        | None => None
                        | Some src => match parse src with
                                      | None => None
                                      | Some tree => Some (mkParsed (line_offsets src) tree)
                                      end
                        end) by (subst K; reflexivity).
      clear EK. rewrite EL. clear EL.
      destruct (cache_find c K) as [v|] eqn:E.
      + simpl. split; [assumption|]. apply (cache_get_ok c K v Hc E).
      + cbv zeta. destruct (negb (has_suffix K GO_SUFFIX)) eqn:Es.
        { simpl. split; [apply cache_ok_set; [assumption|]|rewrite cache_get_set_same]; rewrite EU; reflexivity. }
        destruct (read_file K) as [src|] eqn:Er.
        2:{ simpl. split; [apply cache_ok_set; [assumption|]|rewrite cache_get_set_same]; rewrite EU; reflexivity. }
        destruct (parse src) as [tree|] eqn:Ep.
        2:{ simpl. split; [apply cache_ok_set; [assumption|]|rewrite cache_get_set_same]; rewrite EU; reflexivity. }
        simpl. split.
        * intros k2 v2 H. unfold cache_set in H. simpl in H.
          destruct (beq K k2) eqn:Ek.
          -- apply beq_eq in Ek. subst k2. inversion H; subst. rewrite EU. reflexivity.
          -- apply Hc. assumption.
        * rewrite cache_get_set_same. rewrite EU. reflexivity.
  Qed.

  (* ---------------------------------------------------------------- *)
  (* one call: the driver's step is the uncached computation *)
  Lemma step_spec : forall c err call, cache_ok c ->
    match step c err call with
    | Ok (c1, _, call') => cache_ok c1 /\ U call = Ok call'
    | Panic m => U call = Panic m
    end.
  Proof.
    intros c err call Hc. unfold augment_step, augment_call_uncached.
    destruct (Values (CArgs call)) as [|a vs]; [split; [assumption|reflexivity]|].
    destruct (load_file_ok c (LocalSrcPath call) Hc) as [Hc1 Hg].
    destruct (load c (LocalSrcPath call)) as [c1 e1]. simpl in Hc1, Hg.
    rewrite Hg. destruct (loadU (LocalSrcPath call)) as [p|]; [|split; [assumption|reflexivity]].
    destruct (Line call <? 0)%Z; [reflexivity|].
    destruct (source_types (pf_offsets p) (pf_tree p) (Z.to_nat (Line call)) (FName (CFunc call))) as [r|m];
      [|reflexivity].
    simpl. destruct r as [| |pos nm ts ell]; try (split; [assumption|reflexivity]).
    destruct (augment_call f32 f64 ts ell (CArgs call)) as [pr|m]; simpl; [split; [assumption|reflexivity]|reflexivity].
  Qed.

  Lemma calls_spec : forall calls c err, cache_ok c ->
    match augment_calls f32 f64 read_file parse c err calls with
    | Ok (c1, _, calls') => cache_ok c1 /\ map_res U calls = Ok calls'
    | Panic m => map_res U calls = Panic m
    end.
  Proof.
    induction calls as [|call rest IH]; intros c err Hc.
    - simpl. split; [assumption|reflexivity].
    - cbn [augment_calls map_res].
      pose proof (step_spec c err call Hc) as Hs.
      destruct (step c err call) as [[[c1 err1] call']|m].
      + destruct Hs as [Hc1 Hu]. rewrite Hu. cbn [bind].
        pose proof (IH c1 err1 Hc1) as Hr.
        destruct (augment_calls f32 f64 read_file parse c1 err1 rest) as [[[c2 err2] rest']|m].
        * destruct Hr as [Hc2 Hm]. rewrite Hm. cbn [bind]. split; [assumption|reflexivity].
        * rewrite Hr. reflexivity.
      + rewrite Hs. reflexivity.
  Qed.

  Lemma goroutine_spec : forall c g, cache_ok c ->
    match augment_goroutine f32 f64 read_file parse c g with
    | Ok (c1, _, g') => cache_ok c1 /\ UG g = Ok g'
    | Panic m => UG g = Panic m
    end.
  Proof.
    intros c g Hc. unfold augment_goroutine, augment_goroutine_uncached.
    pose proof (calls_spec (Calls (SStack (GSig g))) c None Hc) as H.
    destruct (augment_calls f32 f64 read_file parse c None (Calls (SStack (GSig g)))) as [[[c1 err] calls]|m].
    - destruct H as [Hc1 Hm]. rewrite Hm. cbn [bind]. split; [assumption|reflexivity].
    - rewrite H. reflexivity.
  Qed.

  Lemma goroutines_spec : forall gs c err, cache_ok c ->
    match augment_goroutines f32 f64 read_file parse c err gs with
    | Ok (c1, _, gs') => cache_ok c1 /\ US gs = Ok gs'
    | Panic m => US gs = Panic m
    end.
  Proof.
    unfold augment_snapshot_uncached.
    induction gs as [|g rest IH]; intros c err Hc.
    - simpl. split; [assumption|reflexivity].
    - cbn [augment_goroutines map_res].
      pose proof (goroutine_spec c g Hc) as Hs.
      destruct (augment_goroutine f32 f64 read_file parse c g) as [[[c1 e1] g']|m].
      + destruct Hs as [Hc1 Hu]. rewrite Hu. cbn [bind].
        pose proof (IH c1 (upd_err err e1) Hc1) as Hr.
        destruct (augment_goroutines f32 f64 read_file parse c1 (upd_err err e1) rest) as [[[c2 err2] rest']|m].
        * destruct Hr as [Hc2 Hm]. rewrite Hm. cbn [bind]. split; [assumption|reflexivity].
        * rewrite Hr. reflexivity.
      + rewrite Hs. reflexivity.
  Qed.

  (* the goroutines the driver leaves are those of the uncached computation,
     panics included *)
  Theorem cache_irrelevant : forall gs, res_map fst (snap gs) = US gs.
  Proof.
    intros gs. unfold augment_snapshot.
    pose proof (goroutines_spec gs [] None cache_ok_nil) as H.
    destruct (augment_goroutines f32 f64 read_file parse [] None gs) as [[[c1 err] gs']|m]; cbn [bind res_map fst].
    - destruct H as [_ H]. symmetry. assumption.
    - symmetry. assumption.
  Qed.

  Lemma snap_uncached : forall gs gs' e, snap gs = Ok (gs', e) -> US gs = Ok gs'.
  Proof. intros gs gs' e H. rewrite <- cache_irrelevant, H. reflexivity. Qed.

  (* ---------------------------------------------------------------- *)
  (* call by call *)
  Lemma UG_calls : forall g g', UG g = Ok g' -> map_res U (Calls (SStack (GSig g))) = Ok (Calls (SStack (GSig g'))).
  Proof.
    intros g g' H. unfold augment_goroutine_uncached in H.
    destruct (map_res U (Calls (SStack (GSig g)))) as [calls|m]; [|discriminate].
    cbn [bind] in H. inversion H; subst. reflexivity.
  Qed.

  Lemma US_call_at : forall gs gs', US gs = Ok gs' ->
    forall gi ci, match call_at gs gi ci with
                  | Some c => exists c', call_at gs' gi ci = Some c' /\ U c = Ok c'
                  | None => call_at gs' gi ci = None
                  end.
  Proof.
    intros gs gs' H gi ci. unfold augment_snapshot_uncached in H.
    pose proof (map_res_nth _ _ _ H gi) as Hg. unfold call_at.
    destruct (nth_error gs gi) as [g|].
    - destruct Hg as [g' [Hn Hu]]. rewrite Hn.
      exact (map_res_nth _ _ _ (UG_calls g g' Hu) ci).
    - rewrite Hg. reflexivity.
  Qed.

  (* the pointwise form used by every per-call statement *)
  Theorem snapshot_pointwise : forall gs gs' e gi ci c,
    snap gs = Ok (gs', e) -> call_at gs gi ci = Some c ->
    exists c', call_at gs' gi ci = Some c' /\ U c = Ok c'.
  Proof.
    intros gs gs' e gi ci c H Hc.
    pose proof (US_call_at gs gs' (snap_uncached _ _ _ H) gi ci) as Hp. rewrite Hc in Hp. assumption.
  Qed.

  (* ---------------------------------------------------------------- *)
  (* one call, uncached: shape, totality *)
  Lemma U_shape : forall c c', U c = Ok c' -> c' = c \/ exists pr, c' = set_processed c pr.
  Proof.
    intros c c' H. unfold augment_call_uncached in H.
    destruct (Values (CArgs c)) as [|a vs]; [inversion H; auto|].
    destruct (loadU (LocalSrcPath c)) as [p|]; [|inversion H; auto].
    destruct (Line c <? 0)%Z; [discriminate|].
    destruct (source_types (pf_offsets p) (pf_tree p) (Z.to_nat (Line c)) (FName (CFunc c))) as [r|m]; [|discriminate].
    cbn [bind] in H. destruct r as [| |pos nm ts ell]; try (inversion H; auto; fail).
    destruct (augment_call f32 f64 ts ell (CArgs c)) as [pr|m]; [|discriminate].
    cbn [bind] in H. inversion H. right. exists pr. reflexivity.
  Qed.

  Lemma U_strip : forall c c', U c = Ok c' -> strip_call c' = strip_call c.
  Proof.
    intros c c' H. destruct (U_shape c c' H) as [->|[pr ->]]; [reflexivity|apply strip_set_processed].
  Qed.

  Lemma U_total : forall c, (0 <= Line c)%Z -> exists c', U c = Ok c'.
  Proof.
    intros c Hl. unfold augment_call_uncached.
    destruct (Values (CArgs c)) as [|a vs]; [eexists; reflexivity|].
    destruct (loadU (LocalSrcPath c)) as [p|]; [|eexists; reflexivity].
    assert (Hn : (Line c <? 0)%Z = false) by (apply Z.ltb_ge; assumption). rewrite Hn.
    destruct (source_total (pf_offsets p) (pf_tree p) (Z.to_nat (Line c)) (FName (CFunc c))) as [r Hr].
    rewrite Hr. cbn [bind]. destruct r as [| |pos nm ts ell]; try (eexists; reflexivity).
    destruct (selected_matches_frame _ _ _ _ _ _ _ _ Hr) as [d [_ [_ [_ [_ [_ [_ He]]]]]]].
    destruct (extract_then_augment_total f32 f64 d (CArgs c)) as [pr Hp].
    rewrite <- He in Hp. cbn [fst snd] in Hp. rewrite Hp. cbn [bind]. eexists; reflexivity.
  Qed.

  (* no panic, whatever the oracles answer *)
  Theorem snapshot_total : forall gs, lines_nonneg gs -> exists r, snap gs = Ok r.
  Proof.
    intros gs Hl.
    assert (HU : exists gs', US gs = Ok gs').
    { unfold augment_snapshot_uncached. apply map_res_total. intros g Hg.
      destruct (In_nth_error _ _ Hg) as [gi Hgi].
      unfold augment_goroutine_uncached.
      destruct (map_res_total U (Calls (SStack (GSig g)))) as [calls Hc].
      - intros c Hin. destruct (In_nth_error _ _ Hin) as [ci Hci].
        apply U_total. apply (Hl gi ci c). unfold call_at. rewrite Hgi. assumption.
      - rewrite Hc. cbn [bind]. eexists; reflexivity. }
    destruct HU as [gs' HU]. pose proof (cache_irrelevant gs) as H. rewrite HU in H.
    destruct (snap gs) as [r|m]; [exists r; reflexivity|discriminate].
  Qed.

  (* a negative line in a call whose file parses does panic (p.lineToByteOffset[l]) *)
  Lemma U_negative_line_panics : forall c p,
    Values (CArgs c) <> [] -> loadU (LocalSrcPath c) = Some p -> (Line c < 0)%Z ->
    U c = Panic "index out of range".
  Proof.
    intros c p Hv Hp Hl. unfold augment_call_uncached.
    destruct (Values (CArgs c)) as [|a vs]; [contradiction|].
    rewrite Hp. apply Z.ltb_lt in Hl. rewrite Hl. reflexivity.
  Qed.

  (* ---------------------------------------------------------------- *)
  (* only Processed of the stack's calls changes *)
  Theorem only_processed_changes : forall gs gs' e,
    snap gs = Ok (gs', e) -> strip_processed gs' = strip_processed gs.
  Proof.
    intros gs gs' e H. apply snap_uncached in H. unfold strip_processed.
    unfold augment_snapshot_uncached in H.
    apply (map_res_map UG strip_goroutine strip_goroutine gs gs'); [|assumption].
    intros g g' Hg. unfold augment_goroutine_uncached in Hg.
    destruct (map_res U (Calls (SStack (GSig g)))) as [calls|m] eqn:Ec; [|discriminate].
    cbn [bind] in Hg. inversion Hg; subst. clear Hg.
    unfold strip_goroutine, set_stack. cbn.
    rewrite (map_res_map U strip_call strip_call _ _ U_strip Ec). reflexivity.
  Qed.

  Lemma strip_processed_created : forall gs gs', strip_processed gs' = strip_processed gs ->
    map (fun g => CreatedBy (GSig g)) gs' = map (fun g => CreatedBy (GSig g)) gs.
  Proof.
    unfold strip_processed. induction gs as [|g gs IH]; intros [|g' gs'] H; simpl in H; try discriminate; [reflexivity|].
    apply cons_inj in H. destruct H as [H1 H2]. simpl. rewrite (IH gs' H2).
    destruct (strip_goroutine_inv g g' H1) as [_ [Hcb _]]. rewrite Hcb. reflexivity.
  Qed.

  Theorem created_by_untouched : forall gs gs' e,
    snap gs = Ok (gs', e) -> map (fun g => CreatedBy (GSig g)) gs' = map (fun g => CreatedBy (GSig g)) gs.
  Proof. intros gs gs' e H. apply strip_processed_created. apply (only_processed_changes gs gs' e H). Qed.

  (* the raw values of every call are what they were; so is every other field *)
  Theorem raw_values_unchanged : forall gs gs' e gi ci c,
    snap gs = Ok (gs', e) -> call_at gs gi ci = Some c ->
    exists c', call_at gs' gi ci = Some c' /\ c' = set_processed c (Processed (CArgs c')) /\
               Values (CArgs c') = Values (CArgs c).
  Proof.
    intros gs gs' e gi ci c H Hc.
    destruct (snapshot_pointwise gs gs' e gi ci c H Hc) as [c' [Hc' Hu]].
    exists c'. split; [assumption|].
    assert (E : c' = set_processed c (Processed (CArgs c'))) by (apply strip_call_inv; apply (U_strip c c' Hu)).
    split; [assumption|]. rewrite E. reflexivity.
  Qed.
End Proofs.

(* ------------------------------------------------------------------ *)
(* per call: sources that cannot be used or do not match; truthful rendering *)
Section PerCall.
  Variables f32 f64 : N -> bytes.
  Variable read_file : bytes -> option bytes.
  Variable parse : bytes -> option node.

  Notation loadU := (load_uncached read_file parse).
  Notation U := (augment_call_uncached f32 f64 read_file parse).
  Notation snap := (augment_snapshot f32 f64 read_file parse).
  Notation parses := (file_parses read_file parse).
  Notation unusable := (file_unusable read_file parse).

  Lemma loadU_unusable : forall k, unusable k -> loadU k = None.
  Proof.
    intros k H. unfold load_uncached. destruct k as [|x k']; [reflexivity|].
    destruct H as [H|[H|[H|[src [H1 H2]]]]].
    - discriminate.
    - rewrite H. reflexivity.
    - destruct (negb (has_suffix (x :: k') GO_SUFFIX)); [reflexivity|]. rewrite H. reflexivity.
    - destruct (negb (has_suffix (x :: k') GO_SUFFIX)); [reflexivity|]. rewrite H1, H2. reflexivity.
  Qed.

  Lemma loadU_parses : forall k src tree, parses k src tree -> loadU k = Some (mkParsed (line_offsets src) tree).
  Proof.
    intros k src tree [Hne [Hs [Hr Hp]]]. unfold load_uncached. destruct k as [|x k']; [contradiction|].
    rewrite Hs, Hr, Hp. reflexivity.
  Qed.

  (* the two predicates are the two outcomes of loadFile *)
  Lemma parses_or_unusable : forall k, unusable k \/ exists src tree, parses k src tree.
  Proof.
    intros k. unfold file_unusable, file_parses.
    destruct k as [|x k']; [left; left; reflexivity|].
    destruct (has_suffix (x :: k') GO_SUFFIX) eqn:Es; [|left; right; left; reflexivity].
    destruct (read_file (x :: k')) as [src|] eqn:Er; [|left; right; right; left; reflexivity].
    destruct (parse src) as [tree|] eqn:Ep.
    - right. exists src, tree. repeat split; try assumption. discriminate.
    - left. right. right. right. exists src. split; [reflexivity|assumption].
  Qed.

  Lemma U_no_values : forall c, Values (CArgs c) = [] -> U c = Ok c.
  Proof. intros c H. unfold augment_call_uncached. rewrite H. reflexivity. Qed.

  Lemma U_unusable : forall c, unusable (LocalSrcPath c) -> U c = Ok c.
  Proof.
    intros c H. unfold augment_call_uncached. rewrite (loadU_unusable _ H).
    destruct (Values (CArgs c)); reflexivity.
  Qed.

  (* the file parses: what is done with the answer of getFuncAST *)
  Lemma U_parsed : forall c src tree, parses (LocalSrcPath c) src tree -> (0 <= Line c)%Z ->
    U c = match Values (CArgs c) with
          | [] => Ok c
          | _ :: _ =>
              r <- source_types (line_offsets src) tree (Z.to_nat (Line c)) (FName (CFunc c)) ;;
              match r with
              | SrcErr => Ok c
              | SrcNone => Ok c
              | SrcTypes _ _ types ell =>
                  pr <- augment_call f32 f64 types ell (CArgs c) ;; Ok (set_processed c pr)
              end
          end.
  Proof.
    intros c src tree Hp Hl. unfold augment_call_uncached. rewrite (loadU_parses _ _ _ Hp).
    assert (Hn : (Line c <? 0)%Z = false) by (apply Z.ltb_ge; assumption). rewrite Hn. reflexivity.
  Qed.

  Lemma U_unaugmented : forall c src tree, parses (LocalSrcPath c) src tree -> (0 <= Line c)%Z ->
    (source_types (line_offsets src) tree (Z.to_nat (Line c)) (FName (CFunc c)) = Ok SrcNone \/
     source_types (line_offsets src) tree (Z.to_nat (Line c)) (FName (CFunc c)) = Ok SrcErr) ->
    U c = Ok c.
  Proof.
    intros c src tree Hp Hl H. rewrite (U_parsed c src tree Hp Hl).
    destruct (Values (CArgs c)); [reflexivity|]. destruct H as [H|H]; rewrite H; reflexivity.
  Qed.

  (* the line is beyond the file on disk *)
  Lemma U_overline : forall c src tree, parses (LocalSrcPath c) src tree -> (0 <= Line c)%Z ->
    2 + count_byte src LF <= Z.to_nat (Line c) -> U c = Ok c.
  Proof.
    intros c src tree Hp Hl H. apply (U_unaugmented c src tree Hp Hl). right.
    apply source_overline_iff. rewrite line_offsets_length. assumption.
  Qed.

  (* no declaration of the file on disk has the function name of the frame *)
  Lemma U_wrong_name : forall c src tree, parses (LocalSrcPath c) src tree -> (0 <= Line c)%Z ->
    (forall p d, In (p, d) (funcdecls tree) -> fd_name d <> last_component (FName (CFunc c))) -> U c = Ok c.
  Proof.
    intros c src tree Hp Hl H. apply (U_unaugmented c src tree Hp Hl).
    apply wrong_name_unaugmented. assumption.
  Qed.

  (* whatever the sources are: what was processed before is kept and at most
     one entry per leaf word and per top-level value is added (different arity) *)
  Lemma U_processed_extends : forall c c', U c = Ok c' ->
    exists more, c' = set_processed c (Processed (CArgs c) ++ more) /\
                 List.length more <= List.length (args_leaves (CArgs c)) + List.length (Values (CArgs c)).
  Proof.
    intros c c' H.
    assert (Hid : c = set_processed c (Processed (CArgs c) ++ [])).
    { rewrite app_nil_r. symmetry. apply set_processed_same. }
    assert (Hsame : forall x, Ok c = Ok x -> exists more, x = set_processed c (Processed (CArgs c) ++ more) /\
              List.length more <= List.length (args_leaves (CArgs c)) + List.length (Values (CArgs c))).
    { intros x Hx. inversion Hx; subst x. exists []. split; [exact Hid|simpl; lia]. }
    unfold augment_call_uncached in H.
    destruct (Values (CArgs c)) as [|a vs] eqn:Ev; [apply Hsame; assumption|].
    destruct (loadU (LocalSrcPath c)) as [p|]; [|apply Hsame; assumption].
    destruct (Line c <? 0)%Z; [discriminate|].
    destruct (source_types (pf_offsets p) (pf_tree p) (Z.to_nat (Line c)) (FName (CFunc c))) as [r|m] eqn:Hr;
      [|discriminate].
    cbn [bind] in H. destruct r as [| |pos nm ts ell]; try (apply Hsame; assumption).
    destruct (selected_matches_frame _ _ _ _ _ _ _ _ Hr) as [d [_ [_ [_ [_ [_ [_ He]]]]]]].
    destruct (arity_mismatch_harmless f32 f64 ts ell (CArgs c)) as [more [Hm Hlen]].
    { intros Hell. apply (extract_variadic_nonempty d ts ell); [symmetry; assumption|assumption]. }
    rewrite Hm in H. cbn [bind] in H. inversion H; subst c'. exists more.
    split; [reflexivity|]. rewrite <- Ev. assumption.
  Qed.

  (* the selection found declaration d and d declares the frame's function: d's types are applied *)
  Lemma U_typed : forall c src tree off pk d pr,
    parses (LocalSrcPath c) src tree -> (0 <= Line c)%Z ->
    nth_error (line_offsets src) (Z.to_nat (Line c)) = Some off ->
    get_func_ast_at off tree = AstFound pk d ->
    match_func_decl d (FName (CFunc c)) = true ->
    augment_call f32 f64 (fst (extract_arguments_type d)) (snd (extract_arguments_type d)) (CArgs c) = Ok pr ->
    U c = Ok (set_processed c pr).
  Proof.
    intros c src tree off pk d pr Hp Hl Hoff Hsel Hm Hpr. rewrite (U_parsed c src tree Hp Hl).
    destruct (Values (CArgs c)) as [|a vs] eqn:Ev.
    - unfold augment_call, args_leaves in Hpr. rewrite Ev in Hpr. cbn [flat_map] in Hpr.
      rewrite aloop_nil in Hpr. inversion Hpr. rewrite set_processed_same. reflexivity.
    - rewrite (source_of_raw _ _ _ _ _ Hoff), Hsel, Hm. cbn [bind]. rewrite Hpr. reflexivity.
  Qed.

  (* the geometry of C19_select_enclosing gives the selection *)
  Lemma enclosing_selected : forall off p0 pre pk d ch nxt post,
    wf_file (Node p0 KOther (pre ++ Node pk (KFuncDecl d) ch :: nxt :: post)) = true ->
    (pk < off)%N -> (off <= node_pos nxt)%N ->
    get_func_ast_at off (Node p0 KOther (pre ++ Node pk (KFuncDecl d) ch :: nxt :: post)) = AstFound pk d.
  Proof. intros. apply select_enclosing; assumption. Qed.

  (* ---- truthful rendering: function ---- *)
  Lemma U_truthful_func : forall isptr c src tree off pk d ps,
    parses (LocalSrcPath c) src tree -> (0 <= Line c)%Z ->
    nth_error (line_offsets src) (Z.to_nat (Line c)) = Some off ->
    get_func_ast_at off tree = AstFound pk d ->
    match_func_decl d (FName (CFunc c)) = true ->
    fd_recv d = None ->
    params_match (fd_params d) ps -> forallb wf_param ps = true ->
    CArgs c = args_of_words isptr (flat_map encode ps) ->
    U c = Ok (set_processed c (map (show f32 f64) ps)).
  Proof.
    intros isptr c src tree off pk d ps Hp Hl Hoff Hsel Hm Hr Hpm Hwf Ha.
    apply (U_typed c src tree off pk d); try assumption.
    rewrite Ha. apply types_compose; auto.
  Qed.

  (* ---- truthful rendering: method with a pointer receiver ---- *)
  Lemma U_truthful_ptr : forall isptr c src tree off pk d n x recv ps,
    parses (LocalSrcPath c) src tree -> (0 <= Line c)%Z ->
    nth_error (line_offsets src) (Z.to_nat (Line c)) = Some off ->
    get_func_ast_at off tree = AstFound pk d ->
    match_func_decl d (FName (CFunc c)) = true ->
    fd_recv d = Some [mkField n (TStar x)] -> n <= 1 ->
    params_match (fd_params d) ps -> word_ok recv = true -> forallb wf_param ps = true ->
    CArgs c = args_of_words isptr (recv :: flat_map encode ps) ->
    U c = Ok (set_processed c (((s2b "*" ++ Source.type_name x) ++ s2b "(" ++ hex0x recv ++ s2b ")")
                               :: map (show f32 f64) ps)).
  Proof.
    intros isptr c src tree off pk d n x recv ps Hp Hl Hoff Hsel Hm Hr Hn Hpm Hrecv Hwf Ha.
    apply (U_typed c src tree off pk d); try assumption.
    rewrite Ha. apply (types_compose_ptr_receiver f32 f64 isptr d n x recv ps); assumption.
  Qed.

  (* ---- value receivers ---- *)
  (* extractArgumentsType skips a value receiver: the types are those of the
     plain function with the same parameters *)
  Lemma value_receiver_types : forall d r, fd_recv d = Some [r] -> is_star (f_type r) = false ->
    extract_arguments_type d = extract_arguments_type (mkFuncDecl (fd_name d) None (fd_params d)).
  Proof.
    intros d r Hr Hs. unfold extract_arguments_type, recv_fields. cbn [fd_recv fd_params]. rewrite Hr, Hs. reflexivity.
  Qed.

  (* ... and they are applied from the FIRST word on, which belongs to the
     receiver: what is shown are the values ps' the leading words denote at the
     declared types, the words left over at the end are shown raw *)
  Lemma U_value_receiver : forall isptr c src tree off pk d r ps' ws,
    parses (LocalSrcPath c) src tree -> (0 <= Line c)%Z ->
    nth_error (line_offsets src) (Z.to_nat (Line c)) = Some off ->
    get_func_ast_at off tree = AstFound pk d ->
    match_func_decl d (FName (CFunc c)) = true ->
    fd_recv d = Some [r] -> is_star (f_type r) = false ->
    params_match (fd_params d) ps' -> forallb wf_param ps' = true ->
    CArgs c = args_of_words isptr (flat_map encode ps' ++ ws) ->
    U c = Ok (set_processed c (map (show f32 f64) ps' ++ map raw_word ws)).
  Proof.
    intros isptr c src tree off pk d r ps' ws Hp Hl Hoff Hsel Hm Hr Hs Hpm Hwf Ha.
    apply (U_typed c src tree off pk d); try assumption.
    rewrite (extract_of_params d ps'); [|right; exists r; auto|assumption].
    cbn [fst snd]. rewrite Ha. apply extra_words_rendered_raw. assumption.
  Qed.

  (* lifting a per-call equation to the snapshot *)
  Lemma lift_call : forall gs gs' e gi ci c c',
    snap gs = Ok (gs', e) -> call_at gs gi ci = Some c -> U c = Ok c' -> call_at gs' gi ci = Some c'.
  Proof.
    intros gs gs' e gi ci c c' H Hc Hu.
    destruct (snapshot_pointwise f32 f64 read_file parse gs gs' e gi ci c H Hc) as [c2 [Hc2 Hu2]].
    rewrite Hu in Hu2. inversion Hu2; subst. assumption.
  Qed.
End PerCall.

(* ------------------------------------------------------------------ *)
(* the one-word shift, made explicit for int parameters *)
Lemma params_match_retype : forall fs ps, params_match fs ps ->
  forall ps', map Abi.type_name ps' = map Abi.type_name ps -> params_match fs ps'.
Proof.
  intros fs ps H. induction H as [|f ps1 fs ps2 Hlen Hty Hrest IH]; intros ps' He.
  - destruct ps'; [apply pm_nil|discriminate].
  - rewrite <- (firstn_skipn (List.length ps1) ps').
    rewrite map_app in He.
    assert (H1 : map Abi.type_name (firstn (List.length ps1) ps') = map Abi.type_name ps1).
    { rewrite <- firstn_map, He. rewrite <- (map_length Abi.type_name ps1).
      rewrite firstn_app, Nat.sub_diag, firstn_all. simpl. apply app_nil_r. }
    assert (H2 : map Abi.type_name (skipn (List.length ps1) ps') = map Abi.type_name ps2).
    { rewrite <- skipn_map, He. rewrite <- (map_length Abi.type_name ps1).
      rewrite skipn_app, Nat.sub_diag, skipn_all. reflexivity. }
    apply pm_cons.
    + rewrite <- Hlen. rewrite <- (map_length Abi.type_name (firstn _ _)), H1. apply map_length.
    + intros p Hp. apply (in_map Abi.type_name) in Hp. rewrite H1 in Hp.
      apply in_map_iff in Hp. destruct Hp as [q [Hq Hin]]. rewrite <- Hq. apply Hty. assumption.
    + apply IH. assumption.
Qed.

Lemma zext_signed_64 : forall w, word_ok w = true -> zext 64 (signed 64 w) = w.
Proof.
  intros w H. unfold word_ok in H. apply N.ltb_lt in H. unfold zext, signed.
  change (2 ^ 64)%N with 18446744073709551616%N. change (2 ^ (64 - 1))%N with 9223372036854775808%N.
  rewrite (N.mod_small w 18446744073709551616 H).
  change (2 ^ Z.of_N 64)%Z with 18446744073709551616%Z.
  destruct (N.ltb w 9223372036854775808) eqn:E.
  - rewrite Z.mod_small by lia. apply N2Z.id.
  - apply N.ltb_ge in E.
    replace (Z.of_N w - Z.of_N 18446744073709551616)%Z with (Z.of_N w + (-1) * 18446744073709551616)%Z by lia.
    rewrite Z.mod_add by lia. rewrite Z.mod_small by lia. apply N2Z.id.
Qed.

Lemma signed_64_range : forall w, (- 2 ^ 63 <= signed 64 w < 2 ^ 63)%Z.
Proof.
  intros w. unfold signed.
  change (2 ^ 64)%N with 18446744073709551616%N. change (2 ^ (64 - 1))%N with 9223372036854775808%N.
  change (2 ^ 63)%Z with 9223372036854775808%Z.
  assert (Hb : (w mod 18446744073709551616 < 18446744073709551616)%N) by (apply N.mod_upper_bound; discriminate).
  set (x := (w mod 18446744073709551616)%N) in *. clearbody x.
  destruct (N.ltb x 9223372036854775808) eqn:E.
  - apply N.ltb_lt in E. lia.
  - apply N.ltb_ge in E. lia.
Qed.

Lemma int_type_names : forall zs a zl,
  map Abi.type_name (PInt IWord a :: map (PInt IWord) zs) = map Abi.type_name (map (PInt IWord) (zs ++ [zl])).
Proof.
  induction zs as [|z zs IH]; intros a zl; [reflexivity|].
  cbn [map app]. f_equal. apply (IH z zl).
Qed.

(* func (p P) m(x1, .., xn, y int) called with (x1, .., xn, y) on a receiver
   that occupies one word rw: the runtime prints rw, x1, .., xn, y; the n+1
   declared types are applied to rw, x1, .., xn: every value is shown one
   position late and the last one as a raw word *)
Lemma value_receiver_int_shift : forall f32 f64 isptr d r rw zs zl,
  fd_recv d = Some [r] -> is_star (f_type r) = false ->
  params_match (fd_params d) (map (PInt IWord) (zs ++ [zl])) ->
  word_ok rw = true -> forallb wf_param (map (PInt IWord) (zs ++ [zl])) = true ->
  augment_call f32 f64 (fst (extract_arguments_type d)) (snd (extract_arguments_type d))
     (args_of_words isptr (rw :: flat_map encode (map (PInt IWord) (zs ++ [zl])))) =
  Ok (Z_to_dec (signed 64 rw) :: map Z_to_dec zs ++ [raw_word (zext 64 zl)]).
Proof.
  intros f32 f64 isptr d r rw zs zl Hr Hs Hpm Hrw Hwf.
  set (ps' := PInt IWord (signed 64 rw) :: map (PInt IWord) zs).
  assert (Hpm' : params_match (fd_params d) ps').
  { apply (params_match_retype _ _ Hpm). apply int_type_names. }
  assert (Hwf' : forallb wf_param ps' = true).
  { unfold ps'. cbn [forallb]. apply andb_true_iff. split.
    - unfold wf_param. cbn [size_bits]. change (2 ^ (Z.of_N 64 - 1))%Z with (2 ^ 63)%Z.
      pose proof (signed_64_range rw) as [Hlo Hhi].
      apply andb_true_iff. split; [apply Z.leb_le|apply Z.ltb_lt]; assumption.
    - rewrite map_app, forallb_app in Hwf. apply andb_true_iff in Hwf. destruct Hwf as [Hwf _]. assumption. }
  assert (Hw : rw :: flat_map encode (map (PInt IWord) (zs ++ [zl])) = flat_map encode ps' ++ [zext 64 zl]).
  { unfold ps'. cbn [flat_map encode size_bits]. rewrite (zext_signed_64 rw Hrw).
    rewrite map_app, flat_map_app. reflexivity. }
  rewrite Hw. rewrite (extract_of_params d ps'); [|right; exists r; auto|assumption]. cbn [fst snd].
  rewrite (extra_words_rendered_raw f32 f64 isptr ps' [zext 64 zl] Hwf').
  unfold ps'. cbn [map show]. rewrite map_map. reflexivity.
Qed.

(* ------------------------------------------------------------------ *)
(* the per-call facts at the level of Snapshot.augment *)
Section Snapshot.
  Variables f32 f64 : N -> bytes.
  Variable read_file : bytes -> option bytes.
  Variable parse : bytes -> option node.

  Notation U := (augment_call_uncached f32 f64 read_file parse).
  Notation snap := (augment_snapshot f32 f64 read_file parse).
  Notation parses := (file_parses read_file parse).
  Notation unusable := (file_unusable read_file parse).
  Notation lift := (lift_call f32 f64 read_file parse).

  Theorem snap_negative_line_panics : forall c src tree g,
    Values (CArgs c) <> [] -> parses (LocalSrcPath c) src tree -> (Line c < 0)%Z ->
    Calls (SStack (GSig g)) = [c] ->
    snap [g] = Panic "index out of range".
  Proof.
    intros c src tree g Hv Hp Hl Hg.
    pose proof (cache_irrelevant f32 f64 read_file parse [g]) as H.
    unfold augment_snapshot_uncached, augment_goroutine_uncached in H. cbn [map_res] in H.
    rewrite Hg in H. cbn [map_res] in H.
    rewrite (U_negative_line_panics f32 f64 read_file parse c _ Hv (loadU_parses _ _ _ _ _ Hp) Hl) in H.
    cbn [bind] in H. destruct (snap [g]) as [r|m]; [discriminate|]. cbn [res_map] in H. inversion H. reflexivity.
  Qed.

  Theorem snap_missing_source_identity : forall gs gs' e gi ci c,
    snap gs = Ok (gs', e) -> call_at gs gi ci = Some c ->
    unusable (LocalSrcPath c) -> call_at gs' gi ci = Some c.
  Proof. intros gs gs' e gi ci c H Hc Hu. apply (lift gs gs' e gi ci c c H Hc). apply U_unusable. assumption. Qed.

  Theorem snap_no_values_identity : forall gs gs' e gi ci c,
    snap gs = Ok (gs', e) -> call_at gs gi ci = Some c ->
    Values (CArgs c) = [] -> call_at gs' gi ci = Some c.
  Proof. intros gs gs' e gi ci c H Hc Hv. apply (lift gs gs' e gi ci c c H Hc). apply U_no_values. assumption. Qed.

  Theorem snap_unaugmented_identity : forall gs gs' e gi ci c src tree,
    snap gs = Ok (gs', e) -> call_at gs gi ci = Some c ->
    parses (LocalSrcPath c) src tree -> (0 <= Line c)%Z ->
    (source_types (line_offsets src) tree (Z.to_nat (Line c)) (FName (CFunc c)) = Ok SrcNone \/
     source_types (line_offsets src) tree (Z.to_nat (Line c)) (FName (CFunc c)) = Ok SrcErr) ->
    call_at gs' gi ci = Some c.
  Proof.
    intros gs gs' e gi ci c src tree H Hc Hp Hl Hs. apply (lift gs gs' e gi ci c c H Hc).
    apply (U_unaugmented f32 f64 read_file parse c src tree); assumption.
  Qed.

  Theorem snap_overline_identity : forall gs gs' e gi ci c src tree,
    snap gs = Ok (gs', e) -> call_at gs gi ci = Some c ->
    parses (LocalSrcPath c) src tree -> (0 <= Line c)%Z ->
    2 + count_byte src LF <= Z.to_nat (Line c) ->
    call_at gs' gi ci = Some c.
  Proof.
    intros gs gs' e gi ci c src tree H Hc Hp Hl Ho. apply (lift gs gs' e gi ci c c H Hc).
    apply (U_overline f32 f64 read_file parse c src tree); assumption.
  Qed.

  Theorem snap_wrong_name_identity : forall gs gs' e gi ci c src tree,
    snap gs = Ok (gs', e) -> call_at gs gi ci = Some c ->
    parses (LocalSrcPath c) src tree -> (0 <= Line c)%Z ->
    (forall p d, In (p, d) (funcdecls tree) -> fd_name d <> last_component (FName (CFunc c))) ->
    call_at gs' gi ci = Some c.
  Proof.
    intros gs gs' e gi ci c src tree H Hc Hp Hl Hn. apply (lift gs gs' e gi ci c c H Hc).
    apply (U_wrong_name f32 f64 read_file parse c src tree); assumption.
  Qed.

  Theorem snap_arity_mismatch_harmless : forall gs gs' e gi ci c,
    snap gs = Ok (gs', e) -> call_at gs gi ci = Some c ->
    exists more, call_at gs' gi ci = Some (set_processed c (Processed (CArgs c) ++ more)) /\
                 List.length more <= List.length (args_leaves (CArgs c)) + List.length (Values (CArgs c)).
  Proof.
    intros gs gs' e gi ci c H Hc.
    destruct (snapshot_pointwise f32 f64 read_file parse gs gs' e gi ci c H Hc) as [c' [Hc' Hu]].
    destruct (U_processed_extends f32 f64 read_file parse c c' Hu) as [more [He Hl]].
    exists more. rewrite <- He. split; assumption.
  Qed.

  (* ---- truthful: the selection given by its specification ---- *)
  Theorem snap_truthful_spec : forall isptr gs gs' e gi ci c src tree off pk d ps,
    snap gs = Ok (gs', e) -> call_at gs gi ci = Some c ->
    parses (LocalSrcPath c) src tree -> wf_file tree = true -> (0 <= Line c)%Z ->
    nth_error (line_offsets src) (Z.to_nat (Line c)) = Some off ->
    select_spec off tree = AstFound pk d ->
    match_func_decl d (FName (CFunc c)) = true ->
    fd_recv d = None ->
    params_match (fd_params d) ps -> forallb wf_param ps = true ->
    CArgs c = args_of_words isptr (flat_map encode ps) ->
    call_at gs' gi ci = Some (set_processed c (map (show f32 f64) ps)).
  Proof.
    intros isptr gs gs' e gi ci c src tree off pk d ps H Hc Hp Hwf Hl Hoff Hsel Hm Hr Hpm Hw Ha.
    apply (lift gs gs' e gi ci c _ H Hc).
    apply (U_truthful_func f32 f64 read_file parse isptr c src tree off pk d ps); try assumption.
    rewrite (get_func_ast_spec off tree Hwf). assumption.
  Qed.

  Theorem snap_truthful_ptr_spec : forall isptr gs gs' e gi ci c src tree off pk d n x recv ps,
    snap gs = Ok (gs', e) -> call_at gs gi ci = Some c ->
    parses (LocalSrcPath c) src tree -> wf_file tree = true -> (0 <= Line c)%Z ->
    nth_error (line_offsets src) (Z.to_nat (Line c)) = Some off ->
    select_spec off tree = AstFound pk d ->
    match_func_decl d (FName (CFunc c)) = true ->
    fd_recv d = Some [mkField n (TStar x)] -> n <= 1 ->
    params_match (fd_params d) ps -> word_ok recv = true -> forallb wf_param ps = true ->
    CArgs c = args_of_words isptr (recv :: flat_map encode ps) ->
    call_at gs' gi ci =
    Some (set_processed c (((s2b "*" ++ Source.type_name x) ++ s2b "(" ++ hex0x recv ++ s2b ")")
                           :: map (show f32 f64) ps)).
  Proof.
    intros isptr gs gs' e gi ci c src tree off pk d n x recv ps H Hc Hp Hwf Hl Hoff Hsel Hm Hr Hn Hpm Hrw Hw Ha.
    apply (lift gs gs' e gi ci c _ H Hc).
    apply (U_truthful_ptr f32 f64 read_file parse isptr c src tree off pk d n x recv ps); try assumption.
    rewrite (get_func_ast_spec off tree Hwf). assumption.
  Qed.

  (* ---- truthful: the line lies inside declaration d (geometry of C19_select_enclosing) ---- *)
  Theorem snap_truthful : forall isptr gs gs' e gi ci c src off p0 pre pk d ch nxt post ps,
    snap gs = Ok (gs', e) -> call_at gs gi ci = Some c ->
    parses (LocalSrcPath c) src (Node p0 KOther (pre ++ Node pk (KFuncDecl d) ch :: nxt :: post)) ->
    wf_file (Node p0 KOther (pre ++ Node pk (KFuncDecl d) ch :: nxt :: post)) = true ->
    (0 <= Line c)%Z -> nth_error (line_offsets src) (Z.to_nat (Line c)) = Some off ->
    (pk < off)%N -> (off <= node_pos nxt)%N ->
    match_func_decl d (FName (CFunc c)) = true ->
    fd_recv d = None ->
    params_match (fd_params d) ps -> forallb wf_param ps = true ->
    CArgs c = args_of_words isptr (flat_map encode ps) ->
    call_at gs' gi ci = Some (set_processed c (map (show f32 f64) ps)).
  Proof.
    intros isptr gs gs' e gi ci c src off p0 pre pk d ch nxt post ps H Hc Hp Hwf Hl Hoff Hlt Hle Hm Hr Hpm Hw Ha.
    apply (lift gs gs' e gi ci c _ H Hc).
    apply (U_truthful_func f32 f64 read_file parse isptr c src (Node p0 KOther (pre ++ Node pk (KFuncDecl d) ch :: nxt :: post)) off pk d ps); try assumption.
    apply enclosing_selected; assumption.
  Qed.

  Theorem snap_truthful_ptr : forall isptr gs gs' e gi ci c src off p0 pre pk d ch nxt post n x recv ps,
    snap gs = Ok (gs', e) -> call_at gs gi ci = Some c ->
    parses (LocalSrcPath c) src (Node p0 KOther (pre ++ Node pk (KFuncDecl d) ch :: nxt :: post)) ->
    wf_file (Node p0 KOther (pre ++ Node pk (KFuncDecl d) ch :: nxt :: post)) = true ->
    (0 <= Line c)%Z -> nth_error (line_offsets src) (Z.to_nat (Line c)) = Some off ->
    (pk < off)%N -> (off <= node_pos nxt)%N ->
    match_func_decl d (FName (CFunc c)) = true ->
    fd_recv d = Some [mkField n (TStar x)] -> n <= 1 ->
    params_match (fd_params d) ps -> word_ok recv = true -> forallb wf_param ps = true ->
    CArgs c = args_of_words isptr (recv :: flat_map encode ps) ->
    call_at gs' gi ci =
    Some (set_processed c (((s2b "*" ++ Source.type_name x) ++ s2b "(" ++ hex0x recv ++ s2b ")")
                           :: map (show f32 f64) ps)).
  Proof.
    intros isptr gs gs' e gi ci c src off p0 pre pk d ch nxt post n x recv ps
           H Hc Hp Hwf Hl Hoff Hlt Hle Hm Hr Hn Hpm Hrw Hw Ha.
    apply (lift gs gs' e gi ci c _ H Hc).
    apply (U_truthful_ptr f32 f64 read_file parse isptr c src (Node p0 KOther (pre ++ Node pk (KFuncDecl d) ch :: nxt :: post)) off pk d n x recv ps); try assumption.
    apply enclosing_selected; assumption.
  Qed.

  (* ---- value receiver: the declared types are applied to the words shifted by the receiver ---- *)
  Theorem snap_value_receiver : forall isptr gs gs' e gi ci c src tree off pk d r ps' ws,
    snap gs = Ok (gs', e) -> call_at gs gi ci = Some c ->
    parses (LocalSrcPath c) src tree -> wf_file tree = true -> (0 <= Line c)%Z ->
    nth_error (line_offsets src) (Z.to_nat (Line c)) = Some off ->
    select_spec off tree = AstFound pk d ->
    match_func_decl d (FName (CFunc c)) = true ->
    fd_recv d = Some [r] -> is_star (f_type r) = false ->
    params_match (fd_params d) ps' -> forallb wf_param ps' = true ->
    CArgs c = args_of_words isptr (flat_map encode ps' ++ ws) ->
    call_at gs' gi ci = Some (set_processed c (map (show f32 f64) ps' ++ map raw_word ws)).
  Proof.
    intros isptr gs gs' e gi ci c src tree off pk d r ps' ws H Hc Hp Hwf Hl Hoff Hsel Hm Hr Hs Hpm Hw Ha.
    apply (lift gs gs' e gi ci c _ H Hc).
    apply (U_value_receiver f32 f64 read_file parse isptr c src tree off pk d r ps' ws); try assumption.
    rewrite (get_func_ast_spec off tree Hwf). assumption.
  Qed.

  (* the same for int parameters and a one-word receiver, with the words the runtime prints *)
  Theorem snap_value_receiver_int_shift : forall isptr gs gs' e gi ci c src tree off pk d r rw zs zl,
    snap gs = Ok (gs', e) -> call_at gs gi ci = Some c ->
    parses (LocalSrcPath c) src tree -> wf_file tree = true -> (0 <= Line c)%Z ->
    nth_error (line_offsets src) (Z.to_nat (Line c)) = Some off ->
    select_spec off tree = AstFound pk d ->
    match_func_decl d (FName (CFunc c)) = true ->
    fd_recv d = Some [r] -> is_star (f_type r) = false ->
    params_match (fd_params d) (map (PInt IWord) (zs ++ [zl])) ->
    word_ok rw = true -> forallb wf_param (map (PInt IWord) (zs ++ [zl])) = true ->
    CArgs c = args_of_words isptr (rw :: flat_map encode (map (PInt IWord) (zs ++ [zl]))) ->
    call_at gs' gi ci =
    Some (set_processed c (Z_to_dec (signed 64 rw) :: map Z_to_dec zs ++ [raw_word (zext 64 zl)])).
  Proof.
    intros isptr gs gs' e gi ci c src tree off pk d r rw zs zl H Hc Hp Hwf Hl Hoff Hsel Hm Hr Hs Hpm Hrw Hw Ha.
    apply (lift gs gs' e gi ci c _ H Hc).
    apply (U_typed f32 f64 read_file parse c src tree off pk d); try assumption.
    - rewrite (get_func_ast_spec off tree Hwf). assumption.
    - rewrite Ha. apply (value_receiver_int_shift f32 f64 isptr d r rw zs zl); assumption.
  Qed.
End Snapshot.
