(* Base/BytesX.v — further byte-string helpers used by the scanner model
   (bytes.TrimLeft-like functions, literal stripping, runs, hex escapes). *)
From PP Require Import Base.Bytes.

(* longest prefix all of whose bytes satisfy p, and the rest *)
Fixpoint span (p : N -> bool) (s : bytes) : bytes * bytes :=
  match s with
  | [] => ([], [])
  | x :: s' => if p x then let '(a, b) := span p s' in (x :: a, b) else ([], s)
  end.

(* strip a literal prefix *)
Fixpoint strip_prefix (lit s : bytes) : option bytes :=
  match lit, s with
  | [], _ => Some s
  | y :: lit', x :: s' => if N.eqb x y then strip_prefix lit' s' else None
  | _ :: _, [] => None
  end.

(* strip a literal suffix *)
Definition strip_suffix (lit s : bytes) : option bytes :=
  if has_suffix s lit then Some (firstn (List.length s - List.length lit) s) else None.

(* trimLeftSpace, context.go:1176 *)
Fixpoint trim_left_space (s : bytes) : bytes :=
  match s with
  | [] => []
  | x :: s' => if is_space_tab x then trim_left_space s' else s
  end.

Definition is_nonspace (c : N) : bool := negb (N.eqb c 32).

Definition hexval (c : N) : N :=
  if is_digit c then c - 48 else if (N.leb 97 c && N.leb c 102) then c - 87 else c - 55.

(* url.PathUnescape: error iff some '%' is not followed by two hex digits;
   '+' is left alone (path mode). *)
Fixpoint path_unescape_go (fuel : nat) (s : bytes) : option bytes :=
  match fuel with
  | O => Some []
  | S f =>
    match s with
    | [] => Some []
    | c :: s' =>
        if N.eqb c 37 then
          match s' with
          | h1 :: h2 :: s'' =>
              if is_hex h1 && is_hex h2 then
                option_map (cons (hexval h1 * 16 + hexval h2)%N) (path_unescape_go f s'')
              else None
          | _ => None
          end
        else option_map (cons c) (path_unescape_go f s')
    end
  end.
Definition path_unescape (s : bytes) : option bytes := path_unescape_go (S (List.length s)) s.

(* the three-dots / underscore / ? literals *)
Definition b_dot : N := 46.
Definition b_slash : N := 47.
Definition b_space : N := 32.
Definition b_lparen : N := 40.
Definition b_rparen : N := 41.
Definition b_lbrace : N := 123.
Definition b_rbrace : N := 125.
Definition b_percent : N := 37.

Fixpoint count_while (p : N -> bool) (s : bytes) : nat :=
  match s with
  | x :: s' => if p x then S (count_while p s') else 0
  | [] => 0
  end.
