(* Model/Types.v — the data types of package stack (stack/stack.go,
   stack/bucket.go, stack/context.go), field for field.
   Go int  -> Z   (ids, lines, minutes: the parser only produces 0 <= n < 10^18)
   uint64  -> N
   string / []byte -> bytes
   A nil slice and an empty slice are both []: the code never distinguishes
   them except for Snapshot.Goroutines, which is non-empty whenever non-nil. *)
From PP Require Import Base.Bytes.

Record Func := mkFunc {
  Complete : bytes;
  FImportPath : bytes;
  DirName : bytes;
  FName : bytes;
  IsExported : bool;
  IsPkgMain : bool }.

Definition emptyFunc : Func := mkFunc [] [] [] [] false false.

(* Arg is the flat Go struct; Fields (an Args value) is inlined as the last
   three components so that the type is a plain nested inductive. *)
Inductive Arg : Type :=
| MkArg (agg : bool) (name : bytes) (value : N) (isptr toolarge inacc : bool)
        (fvalues : list Arg) (fprocessed : list bytes) (felided : bool).

Record Args := mkArgs { Values : list Arg; Processed : list bytes; Elided : bool }.

Definition emptyArgs : Args := mkArgs [] [] false.
Definition emptyArg : Arg := MkArg false [] 0 false false false [] [] false.

Definition IsAggregate (a : Arg) := let 'MkArg g _ _ _ _ _ _ _ _ := a in g.
Definition Name (a : Arg) := let 'MkArg _ n _ _ _ _ _ _ _ := a in n.
Definition Value (a : Arg) := let 'MkArg _ _ v _ _ _ _ _ _ := a in v.
Definition IsPtr (a : Arg) := let 'MkArg _ _ _ p _ _ _ _ _ := a in p.
Definition IsOffsetTooLarge (a : Arg) := let 'MkArg _ _ _ _ t _ _ _ _ := a in t.
Definition IsInaccurate (a : Arg) := let 'MkArg _ _ _ _ _ i _ _ _ := a in i.
Definition Fields (a : Arg) : Args := let 'MkArg _ _ _ _ _ _ fv fp fe := a in mkArgs fv fp fe.

Definition mk_arg (g : bool) (n : bytes) (v : N) (p t i : bool) (f : Args) : Arg :=
  MkArg g n v p t i (Values f) (Processed f) (Elided f).

Inductive Location := LocationUnknown | GoMod | GOPATH | GoPkg | Stdlib.

Definition loc_index (l : Location) : nat :=
  match l with LocationUnknown => 0 | GoMod => 1 | GOPATH => 2 | GoPkg => 3 | Stdlib => 4 end.
Definition loc_eqb (a b : Location) : bool := Nat.eqb (loc_index a) (loc_index b).

Record Call := mkCall {
  CFunc : Func;
  CArgs : Args;
  RemoteSrcPath : bytes;
  Line : Z;
  SrcName : bytes;
  DirSrc : bytes;
  LocalSrcPath : bytes;
  RelSrcPath : bytes;
  CImportPath : bytes;
  CLocation : Location }.

Definition emptyCall : Call := mkCall emptyFunc emptyArgs [] 0 [] [] [] [] [] LocationUnknown.

Record Stack := mkStack { Calls : list Call; SElided : bool }.
Definition emptyStack : Stack := mkStack [] false.

Record Signature := mkSig {
  State : bytes;
  CreatedBy : Stack;
  SleepMin : Z;
  SleepMax : Z;
  SStack : Stack;
  Locked : bool }.
Definition emptySig : Signature := mkSig [] emptyStack 0 0 emptyStack false.

Record Goroutine := mkGoroutine {
  GSig : Signature;
  ID : Z;
  First : bool;
  RaceWrite : bool;
  RaceAddr : N }.

Inductive Similarity := ExactFlags | ExactLines | AnyPointer | AnyValue.

Record Bucket := mkBucket { BSig : Signature; IDs : list Z; BFirst : bool }.

(* setters used by the scanner model *)
Definition set_stack (g : Goroutine) (s : Stack) : Goroutine :=
  mkGoroutine (mkSig (State (GSig g)) (CreatedBy (GSig g)) (SleepMin (GSig g)) (SleepMax (GSig g)) s (Locked (GSig g)))
              (ID g) (First g) (RaceWrite g) (RaceAddr g).
Definition set_created (g : Goroutine) (s : Stack) : Goroutine :=
  mkGoroutine (mkSig (State (GSig g)) s (SleepMin (GSig g)) (SleepMax (GSig g)) (SStack (GSig g)) (Locked (GSig g)))
              (ID g) (First g) (RaceWrite g) (RaceAddr g).
Definition set_state (g : Goroutine) (st : bytes) : Goroutine :=
  mkGoroutine (mkSig st (CreatedBy (GSig g)) (SleepMin (GSig g)) (SleepMax (GSig g)) (SStack (GSig g)) (Locked (GSig g)))
              (ID g) (First g) (RaceWrite g) (RaceAddr g).
