# prints, for every differing sample, the first differing offset and 40 bytes of context
import re
t = open('/tmp/htmldoc/coq_out.txt').read()
for blk in t.split('     = (')[1:]:
    if 'Some' not in blk:
        continue
    name = re.match(r'"(\w+)"', blk).group(1)
    off = re.search(r'\((\d+),', blk).group(1)
    parts = re.findall(r'\[([^\]]*)\]', blk)
    ctx = [bytes(int(x) for x in re.findall(r'(\d+)%N', p)) for p in parts]
    print(name, 'first difference at offset', off)
    print('  coq:', ctx[0] if ctx else b'')
    print('  go :', ctx[1] if len(ctx) > 1 else b'')
