(* Properties/C02.v — Stream conservation of ScanSnapshot.  Statements only.

   Every byte of the input B ends up in exactly one of: a line forwarded to the
   prefix writer, a line consumed by the scanner (withheld), the suffix handed
   back to the caller, the unread part of the source.  Nothing forwarded is
   altered, reordered or duplicated.

   Vocabulary (Spec/LoopSpec.v):
     kind                 = KConsumed | KForwarded | KRejected: what the loop did
                            with a line handed to scan (processed / written to the
                            prefix writer / ended the scan and became the suffix)
     hl : list (bytes * kind)   the handled lines, in order, with their kind
     hl_events (d, k)     = [EvLine d; EvWrite d] if k = KForwarded, else [EvLine d]
     noreads t            = the trace t without its EvRead events
     bytes_of hl          = concatenation of the lines of hl
     k_fwd / k_consumed / k_handled   select the forwarded / consumed /
                            not-rejected entries
     complete_line d      = d is a ++ [LF] with no LF in a
     lines_of t, written t = data of the EvLine events; concatenated data of the EvWrite events
     lines B              = B cut after each LF (last piece possibly unterminated)
     eol_trim, trim_eol   = the EOL trimming of scan (CRLF, else LF)
     not_start_line d     = the tests of scan in state looking fail for d: not a
                            goroutine header, not "=================="
     no_start B           = every line of B satisfies not_start_line.

   The theorems of the first part hold for EVERY delivery schedule (zero-length
   reads, stalls answered by io.ErrNoProgress, error together with data or
   after it).  The caveat "bytes still buffered when the loop ends on a reader
   error would be lost" is vacuous: whenever the reader reports an error, for
   any schedule, it has returned its whole buffer with it (Proofs/ReaderBase:
   line_shape), so the equation below has no hidden term. *)
From PP Require Import Base.Bytes Base.BytesX Base.GoResult Model.Types Model.Lines Model.Reader Model.Scan Model.ScanSnapshot.
From PP Require Import Spec.ReaderSpec Spec.LoopSpec Proofs.ScanInv Proofs.LoopBase Proofs.LoopProofs.
From Coq Require Import String.

(* B1. The partition.  The handled lines are [body ++ last]: the trace without
   its Reads is exactly their events (so each EvLine is followed by EvWrite
   iff the line was forwarded); every line of [body] is a complete line that
   was consumed or forwarded; [last] is empty or is the one line that came
   with a reader error (unterminated tail) or was rejected; a rejected line is
   not consumed: it starts the suffix.  fwd is the concatenation of the
   forwarded lines, in order. *)
Theorem C02_partition : forall na B sc f res,
  scan_snapshot na (mkSource B sc f) = Ok res ->
  exists body last : list (bytes * kind),
    noreads (trace res) = flat_map hl_events (body ++ last) /\
    lines_read res = List.length (body ++ last) /\
    fwd res = bytes_of (filter k_fwd (body ++ last)) /\
    bytes_of body ++ bytes_of (filter k_handled last) ++ suffix res ++ rest (unread res) = B /\
    Forall (fun x => complete_line (fst x) /\ snd x <> KRejected) body /\
    (last = [] \/
     exists d k, last = [(d, k)] /\ d <> [] /\
       (k = KRejected -> exists buffered, suffix res = d ++ buffered)).
Proof. exact LoopProofs.partition. Qed.
Print Assumptions C02_partition.

(* The ordered form (hl with its mask of kinds) and the flat form:
   forwarded + withheld + handed back + unread = everything. *)
Theorem C02_conservation : forall na B sc f res,
  scan_snapshot na (mkSource B sc f) = Ok res ->
  exists hl : list (bytes * kind),
    lines_of (trace res) = map fst hl /\
    fwd res = bytes_of (filter k_fwd hl) /\
    written (trace res) = fwd res /\
    bytes_of (filter k_handled hl) ++ suffix res ++ rest (unread res) = B /\
    List.length (fwd res) + List.length (bytes_of (filter k_consumed hl)) +
      List.length (suffix res) + List.length (rest (unread res)) = List.length B.
Proof. exact LoopProofs.conservation. Qed.
Print Assumptions C02_conservation.

(* B2. Text without a dump passes through unchanged (stall-free schedules). *)
Theorem C02_not_start_scan : forall line,
  not_start_line line = true -> scan ss0 line = Ok (ss0, false, None).
Proof. exact LoopProofs.not_start_scan. Qed.
Print Assumptions C02_not_start_scan.

Theorem C02_no_dump_identity : forall na B sc f res,
  stall_free sc -> no_start B ->
  scan_snapshot na (mkSource B sc f) = Ok res ->
  fwd res = B /\ snap res = None /\ suffix res = [] /\ rest (unread res) = [] /\
  rerr_out res = EIo f /\ final_state res = looking.
Proof. exact LoopProofs.no_dump_identity. Qed.
Print Assumptions C02_no_dump_identity.

(* stall_free is necessary for B2 (not for B1): after 100 zero-length reads the
   reader gives up with io.ErrNoProgress and the content stays in the source. *)
Example C02_stall_refuted :
  let B := s2b "ab" in
  let sc := repeat (0, false) 100 in
  no_start B /\ ~ stall_free sc /\
  match scan_snapshot true (mkSource B sc EOF) with
  | Ok res => fwd res = [] /\ rest (unread res) = B /\ rerr_out res = EIo NoProgress /\ suffix res = []
  | Panic _ => False
  end.
Proof.
  cbv zeta. split; [vm_compute; reflexivity|]. split.
  - cbn [repeat stall_free leading_zeros]. lia.
  - vm_compute. repeat split.
Qed.

(* B3. The dump is one contiguous region.  The handled lines split into
   [pre ++ dump]: everything forwarded comes from [pre]; while [pre] is
   scanned no goroutine exists and the only lines withheld there are
   "==================" and "WARNING: DATA RACE" (finding K1, below); [dump]
   starts with the line that creates the first goroutine and none of its lines
   is forwarded; [dump] is empty iff no snapshot is returned. *)
Theorem C02_dump_contiguous : forall na B sc f res,
  scan_snapshot na (mkSource B sc f) = Ok res ->
  exists pre dump : list (bytes * kind),
    noreads (trace res) = flat_map hl_events (pre ++ dump) /\
    bytes_of (filter k_handled (pre ++ dump)) ++ suffix res ++ rest (unread res) = B /\
    fwd res = bytes_of (filter k_fwd pre) /\
    Forall (fun x => snd x <> KForwarded) dump /\
    Forall (fun x => snd x = KConsumed ->
              trim_eol (fst x) = race_header_footer \/ trim_eol (fst x) = race_header) pre /\
    (exists s, scan_lines ss0 (map fst pre) = Ok s /\ goroutines s = [] /\
       forall x dump', dump = x :: dump' ->
         exists s' l e, scan s (fst x) = Ok (s', l, e) /\ goroutines s' <> []) /\
    (dump = [] <-> snap res = None).
Proof. exact LoopProofs.dump_contiguous. Qed.
Print Assumptions C02_dump_contiguous.

(* K1 (known finding): a lone "==================" line (and a following
   "WARNING: DATA RACE") that no race report follows is swallowed: it is
   neither forwarded nor part of a snapshot.  So "without a snapshot the input
   passes through unchanged" is FALSE, and fwd is not even a prefix of B. *)
Definition ln (s : string) : bytes := s2b s ++ [LF].

Theorem C02_K1_refuted :
  exists B, match scan_snapshot true (mkSource B [] EOF) with
            | Ok res =>
                snap res = None /\ suffix res = [] /\ rest (unread res) = [] /\ rerr_out res = EIo EOF /\
                fwd res = ln "a" ++ ln "b" /\ B = ln "a" ++ ln "==================" ++ ln "b" /\
                fwd res ++ suffix res ++ rest (unread res) <> B /\
                ~ (exists w, fwd res ++ w = B)
            | Panic _ => False
            end.
Proof.
  exists (ln "a" ++ ln "==================" ++ ln "b"). vm_compute.
  repeat split; try discriminate. intros (w & F). discriminate F.
Qed.
Print Assumptions C02_K1_refuted.

(* Non-vacuity: junk, a goroutine dump, a blank line, trailing text, delivered
   3 bytes, then nothing, then the rest: the first line is forwarded, five
   lines are consumed, "exit status 2" is rejected and heads the suffix. *)
Definition TAB : string := String (Ascii.ascii_of_nat 9) EmptyString.

Example C02_example :
  let B := ln "x" ++ ln "goroutine 1 [running]:" ++ ln "main.main()" ++
           ln (TAB ++ "/tmp/x.go:10 +0x20") ++ ln "" ++ ln "exit status 2" ++ s2b "end" in
  match scan_snapshot true (mkSource B [(3, false); (0, false); (40, false)] EOF) with
  | Ok res =>
      fwd res = ln "x" /\ suffix res = ln "exit status 2" ++ s2b "end" /\ rest (unread res) = [] /\
      rerr_out res = ENil /\ final_state res = done /\ lines_read res = 6 /\
      option_map (@List.length _) (snap res) = Some 1 /\
      noreads (trace res) =
        flat_map hl_events
          [(ln "x", KForwarded); (ln "goroutine 1 [running]:", KConsumed); (ln "main.main()", KConsumed);
           (ln (TAB ++ "/tmp/x.go:10 +0x20"), KConsumed); (ln "", KConsumed);
           (ln "exit status 2", KRejected)]
  | Panic _ => False
  end.
Proof. vm_compute. repeat split. Qed.
