module verifharness

go 1.23.0

require (
	github.com/maruel/panicparse/v2 v2.0.0
	github.com/mgutz/ansi v0.0.0-20200706080929-d51e80ef957d
)

require (
	github.com/mattn/go-colorable v0.1.14 // indirect
	github.com/mattn/go-isatty v0.0.20 // indirect
	golang.org/x/net v0.34.0
	golang.org/x/sys v0.31.0 // indirect
)

replace github.com/maruel/panicparse/v2 => /repo
