#!/bin/sh
# Runs every quick check with several seeds on the unchanged tree: any VIOLATION is a false alarm to investigate.
cd "$(dirname "$0")/.."
for seed in "$@"; do
  for i in 01 02 03 04 05 06 07 08 09 10 11 12 13 14 15 16 17 18 19 20; do
    out=$(VERIF_SEED=$seed python3 scripts/check.py C$i quick 2>&1 | grep -v '^KNOWN-FINDING' | tail -2 | tr '\n' ' ')
    echo "seed=$seed C$i: $out" | cut -c1-260
  done
done
