//go:build !verif

package main

import "math/rand"

func opRegex(r *rand.Rand, n int, tier string) { hooksUnavailable() }
