(* Proofs/NamesProofs.v — C15: the model's name_arguments satisfies the
   independent labelling specification c15_ok (Spec/NamesSpec.v). *)
From PP Require Import Base.Bytes Base.Num Model.Types Model.Names Spec.Eqb Spec.NamesSpec Spec.Wf.
From PP Require Import Proofs.NamesBase.
From Coq Require Import Sorting.Sorted.

(* ------------------------------------------------------------------ *)
(* induction principle for the nested inductive Arg                     *)
(* ------------------------------------------------------------------ *)
Section ArgInd.
  Variable P : Arg -> Prop.
  Hypothesis HP : forall ag n v p tl i fv fp fe, Forall P fv -> P (MkArg ag n v p tl i fv fp fe).
  Fixpoint Arg_ind' (a : Arg) : P a :=
    match a with
    | MkArg ag n v p tl i fv fp fe =>
        HP ag n v p tl i fv fp fe
          ((fix go (l : list Arg) : Forall P l :=
              match l with
              | [] => Forall_nil P
              | x :: l' => @Forall_cons Arg P x l' (Arg_ind' x) (go l')
              end) fv)
    end.
End ArgInd.

(* ------------------------------------------------------------------ *)
(* scalar-level view of the walkers                                     *)
(* ------------------------------------------------------------------ *)
(* what arg_rename does to a non-aggregate argument *)
Definition rs (t : list (N * bytes)) (a : Arg) : Arg :=
  match a with
  | MkArg ag n v p tl i fv fp fe =>
      if p then match lookupN v t with Some nm => MkArg ag nm v p tl i fv fp fe | None => a end
      else a
  end.

Definition ptrvals (l : list Arg) : list N := map Value (filter IsPtr l).

Definition wf_scalar (a : Arg) : bool :=
  (IsPtr a || beq (Name a) []) && (negb (IsOffsetTooLarge a) || negb (IsPtr a)).

Lemma arg_scalars_eq ag n v p tl i fv fp fe :
  arg_scalars (MkArg ag n v p tl i fv fp fe) =
  if ag then flat_map arg_scalars fv else [MkArg ag n v p tl i fv fp fe].
Proof. destruct ag; reflexivity. Qed.

Lemma arg_ptrs_eq ag n v p tl i fv fp fe :
  arg_ptrs (MkArg ag n v p tl i fv fp fe) =
  if ag then flat_map arg_ptrs fv else if p then [v] else [].
Proof. destruct ag; reflexivity. Qed.

Lemma arg_rename_eq t ag n v p tl i fv fp fe :
  arg_rename t (MkArg ag n v p tl i fv fp fe) =
  if ag then MkArg ag n v p tl i (map (arg_rename t) fv) fp fe
  else rs t (MkArg ag n v p tl i fv fp fe).
Proof. destruct ag; reflexivity. Qed.

Lemma arg_erase_eq ag n v p tl i fv fp fe :
  arg_erase (MkArg ag n v p tl i fv fp fe) =
  if ag then MkArg ag n v p tl i (map arg_erase fv) fp fe
  else MkArg ag [] v p tl i fv fp fe.
Proof. destruct ag; reflexivity. Qed.

Lemma wf_arg_eq ag n v p tl i fv fp fe :
  wf_arg (MkArg ag n v p tl i fv fp fe) =
  if ag then forallb wf_arg fv else wf_scalar (MkArg ag n v p tl i fv fp fe).
Proof. destruct ag; reflexivity. Qed.

Lemma args_list_ptrs_eq l : args_list_ptrs l = flat_map arg_ptrs l.
Proof. reflexivity. Qed.

Lemma IsAggregate_rs t a : IsAggregate (rs t a) = IsAggregate a.
Proof. destruct a as [ag n v p tl i fv fp fe]. unfold rs. destruct p; [destruct (lookupN v t)|]; reflexivity. Qed.
Lemma Value_rs t a : Value (rs t a) = Value a.
Proof. destruct a as [ag n v p tl i fv fp fe]. unfold rs. destruct p; [destruct (lookupN v t)|]; reflexivity. Qed.
Lemma IsPtr_rs t a : IsPtr (rs t a) = IsPtr a.
Proof. destruct a as [ag n v p tl i fv fp fe]. unfold rs. destruct p; [destruct (lookupN v t)|]; reflexivity. Qed.
Lemma Name_rs t a :
  Name (rs t a) =
  if IsPtr a then match lookupN (Value a) t with Some nm => nm | None => Name a end else Name a.
Proof. destruct a as [ag n v p tl i fv fp fe]. unfold rs. simpl. destruct p; [destruct (lookupN v t)|]; reflexivity. Qed.

Lemma scalars_rename t a : arg_scalars (arg_rename t a) = map (rs t) (arg_scalars a).
Proof.
  induction a as [ag n v p tl i fv fp fe IH] using Arg_ind'.
  rewrite arg_rename_eq, (arg_scalars_eq ag n v p tl i fv). destruct ag.
  - rewrite arg_scalars_eq.
    induction IH as [|x l Hx Hl IHl]; simpl; [reflexivity|].
    rewrite map_app, Hx, IHl. reflexivity.
  - cbn [map]. unfold rs. destruct p; [destruct (lookupN v t)|]; reflexivity.
Qed.

Lemma ptrs_scalars a : arg_ptrs a = ptrvals (arg_scalars a).
Proof.
  induction a as [ag n v p tl i fv fp fe IH] using Arg_ind'.
  rewrite arg_ptrs_eq, arg_scalars_eq. destruct ag.
  - unfold ptrvals. induction IH as [|x l Hx Hl IHl]; simpl; [reflexivity|].
    rewrite filter_app, map_app, Hx, IHl. reflexivity.
  - destruct p; reflexivity.
Qed.

Lemma erase_rename t a : arg_erase (arg_rename t a) = arg_erase a.
Proof.
  induction a as [ag n v p tl i fv fp fe IH] using Arg_ind'.
  rewrite arg_rename_eq. destruct ag.
  - rewrite !arg_erase_eq. f_equal.
    induction IH as [|x l Hx Hl IHl]; simpl; [reflexivity|]. rewrite Hx, IHl. reflexivity.
  - unfold rs. destruct p; [destruct (lookupN v t)|]; reflexivity.
Qed.

Lemma wf_arg_scalars a : wf_arg a = forallb wf_scalar (arg_scalars a).
Proof.
  induction a as [ag n v p tl i fv fp fe IH] using Arg_ind'.
  rewrite wf_arg_eq, arg_scalars_eq. destruct ag.
  - induction IH as [|x l Hx Hl IHl]; simpl; [reflexivity|].
    rewrite forallb_app, Hx, IHl. reflexivity.
  - simpl. rewrite andb_true_r. reflexivity.
Qed.

Lemma forallb_ext' {A} (f g : A -> bool) (l : list A) :
  (forall x, f x = g x) -> forallb f l = forallb g l.
Proof. intros H. induction l as [|x l IH]; simpl; [reflexivity|]. rewrite H, IH. reflexivity. Qed.

(* ---- goroutine level ---- *)
Lemma goroutine_scalars_rename t g :
  goroutine_scalars (goroutine_rename t g) = map (rs t) (goroutine_scalars g).
Proof.
  unfold goroutine_scalars, goroutine_rename. simpl.
  rewrite flat_map_map, map_flat_map. apply flat_map_ext. intros c. simpl.
  rewrite flat_map_map, map_flat_map. apply flat_map_ext. intros a. apply scalars_rename.
Qed.

Lemma all_scalars_rename t gs :
  all_scalars (map (goroutine_rename t) gs) = map (rs t) (all_scalars gs).
Proof.
  unfold all_scalars. rewrite flat_map_map, map_flat_map. apply flat_map_ext.
  intros g. apply goroutine_scalars_rename.
Qed.

Lemma all_scalars_out gs :
  all_scalars (name_arguments gs) = map (rs (name_table gs)) (all_scalars gs).
Proof. apply all_scalars_rename. Qed.

Lemma goroutine_ptrs_eq g : goroutine_ptrs g = ptrvals (goroutine_scalars g).
Proof.
  unfold goroutine_ptrs, goroutine_scalars, ptrvals.
  rewrite filter_flat_map, map_flat_map. apply flat_map_ext. intros c.
  unfold call_ptrs. rewrite args_list_ptrs_eq, filter_flat_map, map_flat_map.
  apply flat_map_ext. intros a. apply ptrs_scalars.
Qed.

Lemma all_ptrs_eq gs : flat_map goroutine_ptrs gs = ptrvals (all_scalars gs).
Proof.
  unfold all_scalars, ptrvals. rewrite filter_flat_map, map_flat_map. apply flat_map_ext.
  intros g. apply goroutine_ptrs_eq.
Qed.

Lemma goroutine_erase_rename t g : goroutine_erase (goroutine_rename t g) = goroutine_erase g.
Proof.
  unfold goroutine_erase, goroutine_rename, set_stack. simpl.
  do 3 f_equal. rewrite map_map. apply map_ext. intros c.
  unfold call_erase, call_rename. simpl. do 2 f_equal.
  rewrite map_map. apply map_ext. intros a. apply erase_rename.
Qed.

Lemma erase_out gs : map goroutine_erase (name_arguments gs) = map goroutine_erase gs.
Proof.
  unfold name_arguments. rewrite map_map. apply map_ext. intros g. apply goroutine_erase_rename.
Qed.

Lemma wf_stack_scalars g : wf_stack (SStack (GSig g)) = forallb wf_scalar (goroutine_scalars g).
Proof.
  unfold wf_stack, wf_args, goroutine_scalars. rewrite forallb_flat_map.
  apply forallb_ext'. intros c. rewrite forallb_flat_map. apply forallb_ext'. intros a.
  apply wf_arg_scalars.
Qed.

Lemma wf_all_scalars gs :
  forallb (fun g => wf_stack (SStack (GSig g))) gs = forallb wf_scalar (all_scalars gs).
Proof.
  unfold all_scalars. rewrite forallb_flat_map. apply forallb_ext'. intros g. apply wf_stack_scalars.
Qed.

(* ------------------------------------------------------------------ *)
(* reflexivity of the structural boolean equalities                     *)
(* ------------------------------------------------------------------ *)
Lemma list_eqb_refl {A} (eqb : A -> A -> bool) (l : list A) :
  Forall (fun x => eqb x x = true) l -> list_eqb eqb l l = true.
Proof. induction 1 as [|x l Hx Hl IH]; simpl; [reflexivity|]. rewrite Hx, IH. reflexivity. Qed.

Lemma list_eqb_refl' {A} (eqb : A -> A -> bool) (l : list A) :
  (forall x, eqb x x = true) -> list_eqb eqb l l = true.
Proof. intros H. apply list_eqb_refl. apply Forall_forall. intros x _. apply H. Qed.

Lemma arg_eqb_unfold g1 n1 v1 p1 t1 i1 fv1 fp1 fe1 g2 n2 v2 p2 t2 i2 fv2 fp2 fe2 :
  arg_eqb (MkArg g1 n1 v1 p1 t1 i1 fv1 fp1 fe1) (MkArg g2 n2 v2 p2 t2 i2 fv2 fp2 fe2) =
  Bool.eqb g1 g2 && beq n1 n2 && N.eqb v1 v2 && Bool.eqb p1 p2 && Bool.eqb t1 t2 && Bool.eqb i1 i2 &&
  list_eqb arg_eqb fv1 fv2 && list_eqb beq fp1 fp2 && Bool.eqb fe1 fe2.
Proof.
  cbn [arg_eqb]. do 3 f_equal.
  revert fv2. induction fv1 as [|x l IH]; intros [|y l2]; cbn [list_eqb]; try reflexivity.
  rewrite IH. reflexivity.
Qed.

Lemma arg_eqb_refl a : arg_eqb a a = true.
Proof.
  induction a as [ag n v p tl i fv fp fe IH] using Arg_ind'.
  rewrite arg_eqb_unfold, !Bool.eqb_reflx, beq_refl, N.eqb_refl, (list_eqb_refl arg_eqb fv IH),
    (list_eqb_refl' beq fp beq_refl). reflexivity.
Qed.

Lemma func_eqb_refl f : func_eqb f f = true.
Proof. unfold func_eqb. rewrite !beq_refl, !Bool.eqb_reflx. reflexivity. Qed.

Lemma args_eqb_refl a : args_eqb a a = true.
Proof.
  unfold args_eqb. rewrite (list_eqb_refl' arg_eqb _ arg_eqb_refl), (list_eqb_refl' beq _ beq_refl), Bool.eqb_reflx.
  reflexivity.
Qed.

Lemma call_eqb_refl c : call_eqb c c = true.
Proof.
  unfold call_eqb, loc_eqb. rewrite func_eqb_refl, args_eqb_refl, !beq_refl, Z.eqb_refl, Nat.eqb_refl. reflexivity.
Qed.

Lemma stack_eqb_refl s : stack_eqb s s = true.
Proof. unfold stack_eqb. rewrite (list_eqb_refl' call_eqb _ call_eqb_refl), Bool.eqb_reflx. reflexivity. Qed.

Lemma sig_eqb_refl s : sig_eqb s s = true.
Proof. unfold sig_eqb. rewrite beq_refl, !stack_eqb_refl, !Z.eqb_refl, Bool.eqb_reflx. reflexivity. Qed.

Lemma goroutine_eqb_refl g : goroutine_eqb g g = true.
Proof.
  unfold goroutine_eqb. rewrite sig_eqb_refl, Z.eqb_refl, !Bool.eqb_reflx, N.eqb_refl. reflexivity.
Qed.

Lemma goroutines_eqb_refl l : goroutines_eqb l l = true.
Proof. apply list_eqb_refl'. apply goroutine_eqb_refl. Qed.

(* ------------------------------------------------------------------ *)
(* c15_ok, conjunct by conjunct                                         *)
(* ------------------------------------------------------------------ *)
Definition namedb (a : Arg) : bool := negb (beq (Name a) []).
Definition c2 (sc : list Arg) : bool := forallb IsPtr (filter namedb sc).
Definition c3 (sc : list Arg) : bool :=
  forallb (fun a => forallb (fun b =>
     negb (IsPtr a && IsPtr b && N.eqb (Value a) (Value b)) || beq (Name a) (Name b)) sc) sc.
Definition c4 (sc : list Arg) : bool :=
  forallb (fun v => negb (Nat.ltb 1 (count_val v (ptrvals sc)))
                    || memNb v (sorted_set (map Value (filter namedb sc)))) (ptrvals sc).
Definition c5 (sc : list Arg) (p0 : list N) : bool :=
  let V := sorted_set (map Value (filter namedb sc)) in
  let A := filter (fun v => memNb v p0) V in
  let B := filter (fun v => negb (memNb v p0)) V in
  forallb (fun a =>
    match index_of (Value a) A, index_of (Value a) B with
    | Some i, _ => beq (Name a) (label (S i))
    | None, Some j => beq (Name a) (label (S (List.length A + j)))
    | None, None => false
    end) (filter namedb sc).
Definition p0_of (after : list Goroutine) : list N :=
  match after with [] => [] | g0 :: _ => ptrvals (goroutine_scalars g0) end.

Lemma c15_ok_unfold before after :
  c15_ok before after =
  goroutines_eqb (map goroutine_erase after) (map goroutine_erase before) &&
  c2 (all_scalars after) && c3 (all_scalars after) && c4 (all_scalars after) &&
  c5 (all_scalars after) (p0_of after).
Proof. reflexivity. Qed.

Definition setA (allv p0v : list N) : list N :=
  sorted_set (filter (fun v => Nat.ltb 1 (count_val v allv) && memNb v p0v) allv).
Definition setB (allv p0v : list N) : list N :=
  sorted_set (filter (fun v => negb (memNb v p0v)) allv).
Definition table (allv p0v : list N) : list (N * bytes) :=
  number_from 1 (setA allv p0v ++ setB allv p0v).

Lemma name_table_eq g0 rest :
  name_table (g0 :: rest) =
  table (ptrvals (all_scalars (g0 :: rest))) (ptrvals (goroutine_scalars g0)).
Proof.
  unfold name_table, table. cbv zeta.
  rewrite number_from_app, !sort_uniq_eq, all_ptrs_eq, goroutine_ptrs_eq.
  unfold setA, setB. f_equal. f_equal. apply N.add_comm.
Qed.

Lemma In_ptrvals v l : In v (ptrvals l) <-> exists a, In a l /\ IsPtr a = true /\ Value a = v.
Proof.
  unfold ptrvals. rewrite in_map_iff. split.
  - intros (a & Hv & Hin). apply filter_In in Hin. destruct Hin as [Hin Hp]. exists a. auto.
  - intros (a & Hin & Hp & Hv). exists a. split; [exact Hv|]. apply filter_In. auto.
Qed.

Lemma ptrvals_rs t l : ptrvals (map (rs t) l) = ptrvals l.
Proof.
  unfold ptrvals. induction l as [|a l IH]; simpl; [reflexivity|].
  rewrite IsPtr_rs. destruct (IsPtr a); simpl; rewrite ?Value_rs, IH; reflexivity.
Qed.

Lemma NoDup_app' {A} (l1 l2 : list A) :
  NoDup l1 -> NoDup l2 -> (forall x, In x l1 -> In x l2 -> False) -> NoDup (l1 ++ l2).
Proof.
  induction l1 as [|x l1 IH]; intros H1 H2 Hd; simpl; [exact H2|].
  inversion H1 as [|x' l' Hx H1']; subst. constructor.
  - rewrite in_app_iff. intros [H|H]; [exact (Hx H)|]. apply (Hd x); [left; reflexivity|exact H].
  - apply IH; [exact H1'|exact H2|]. intros y Hy1 Hy2. apply (Hd y); [right; exact Hy1|exact Hy2].
Qed.

Section Core.
  Variables sc0 s0 : list Arg.
  Hypothesis Hincl : incl s0 sc0.
  Hypothesis Hnn : forall a, In a sc0 -> Name a = [].

  Local Notation allv := (ptrvals sc0).
  Local Notation p0v := (ptrvals s0).
  Local Notation sA := (setA (ptrvals sc0) (ptrvals s0)).
  Local Notation sB := (setB (ptrvals sc0) (ptrvals s0)).
  Local Notation tb := (table (ptrvals sc0) (ptrvals s0)).
  Local Notation sc := (map (rs (table (ptrvals sc0) (ptrvals s0))) sc0).

  Lemma In_A v : In v sA <-> In v allv /\ 1 < count_val v allv /\ In v p0v.
  Proof.
    unfold setA. rewrite In_sorted_set, filter_In, andb_true_iff, Nat.ltb_lt, memNb_In. tauto.
  Qed.

  Lemma In_B v : In v sB <-> In v allv /\ ~ In v p0v.
  Proof.
    unfold setB. rewrite In_sorted_set, filter_In, negb_true_iff, memNb_false. tauto.
  Qed.

  Lemma sorted_A : ssorted sA.
  Proof. apply sorted_set_sorted. Qed.
  Lemma sorted_B : ssorted sB.
  Proof. apply sorted_set_sorted. Qed.

  Lemma NoDup_AB : NoDup (sA ++ sB).
  Proof.
    apply NoDup_app'; [apply sorted_NoDup, sorted_A|apply sorted_NoDup, sorted_B|].
    intros x Ha Hb. apply In_A in Ha. apply In_B in Hb. tauto.
  Qed.

  Lemma AB_in_all v : In v (sA ++ sB) -> exists a0, In a0 sc0 /\ IsPtr a0 = true /\ Value a0 = v.
  Proof.
    intros H. apply In_ptrvals. apply in_app_iff in H. destruct H as [H|H].
    - apply In_A in H. tauto.
    - apply In_B in H. tauto.
  Qed.

  Lemma multi_in_AB v : In v allv -> 1 < count_val v allv -> In v (sA ++ sB).
  Proof.
    intros Hin Hc. apply in_app_iff. destruct (memNb v p0v) eqn:E.
    - left. apply In_A. apply memNb_In in E. tauto.
    - right. apply In_B. apply memNb_false in E. tauto.
  Qed.

  Lemma lookup_tb v : lookupN v tb = option_map (fun i => label (S i)) (index_of v (sA ++ sB)).
  Proof. unfold table. apply lookupN_number_from_1. Qed.

  Lemma named_label a0 : In a0 sc0 -> Name (rs tb a0) <> [] ->
    exists i, index_of (Value a0) (sA ++ sB) = Some i /\ Name (rs tb a0) = label (S i) /\ IsPtr a0 = true.
  Proof.
    intros Hin Hne. rewrite Name_rs in *. rewrite (Hnn a0 Hin) in *.
    destruct (IsPtr a0); [|congruence].
    rewrite lookup_tb in *. destruct (index_of (Value a0) (sA ++ sB)) as [i|]; simpl in *; [|congruence].
    exists i. auto.
  Qed.

  Lemma label_named a0 i : In a0 sc0 -> IsPtr a0 = true -> index_of (Value a0) (sA ++ sB) = Some i ->
    Name (rs tb a0) = label (S i).
  Proof.
    intros Hin Hp Hi. rewrite Name_rs, Hp, lookup_tb, Hi. reflexivity.
  Qed.

  Lemma named_char a0 : In a0 sc0 ->
    (Name (rs tb a0) <> [] <-> IsPtr a0 = true /\ In (Value a0) (sA ++ sB)).
  Proof.
    intros Hin. split.
    - intros Hne. destruct (named_label a0 Hin Hne) as (i & Hi & _ & Hp).
      split; [exact Hp|]. eapply index_of_Some_In. exact Hi.
    - intros [Hp Hv]. apply index_of_In in Hv. destruct Hv as [i Hi].
      rewrite (label_named a0 i Hin Hp Hi). apply label_nonempty.
  Qed.

  Lemma same_name a0 b0 : In a0 sc0 -> In b0 sc0 -> IsPtr a0 = true -> IsPtr b0 = true ->
    Value a0 = Value b0 -> Name (rs tb a0) = Name (rs tb b0).
  Proof.
    intros Ha Hb Hpa Hpb Hv. rewrite !Name_rs, Hpa, Hpb, Hv, (Hnn a0 Ha), (Hnn b0 Hb). reflexivity.
  Qed.

  Lemma name_inj a0 b0 : In a0 sc0 -> In b0 sc0 -> Name (rs tb a0) = Name (rs tb b0) ->
    Name (rs tb a0) <> [] -> Value a0 = Value b0.
  Proof.
    intros Ha Hb He Hne.
    assert (Hne' : Name (rs tb b0) <> []) by congruence.
    destruct (named_label a0 Ha Hne) as (i & Hi & Hli & _).
    destruct (named_label b0 Hb Hne') as (j & Hj & Hlj & _).
    rewrite Hli, Hlj in He. apply label_inj in He. injection He as He. subst j.
    eapply index_of_inj; eassumption.
  Qed.

  Lemma In_named a : In a (filter namedb sc) <->
    exists a0, In a0 sc0 /\ a = rs tb a0 /\ Name (rs tb a0) <> [].
  Proof.
    rewrite filter_In, in_map_iff. unfold namedb. rewrite negb_true_iff, beq_neq. split.
    - intros [(a0 & He & Hin) Hne]. subst a. exists a0. auto.
    - intros (a0 & Hin & He & Hne). subst a. split; [exists a0; auto|exact Hne].
  Qed.

  Lemma In_V v : In v (sorted_set (map Value (filter namedb sc))) <-> In v (sA ++ sB).
  Proof.
    rewrite In_sorted_set, in_map_iff. split.
    - intros (a & Hv & Ha). apply In_named in Ha. destruct Ha as (a0 & Hin & He & Hne).
      subst a. rewrite Value_rs in Hv. subst v. apply (named_char a0 Hin) in Hne. tauto.
    - intros Hv. destruct (AB_in_all v Hv) as (a0 & Hin & Hp & He).
      exists (rs tb a0). split; [rewrite Value_rs; exact He|].
      apply In_named. exists a0. split; [exact Hin|]. split; [reflexivity|].
      apply (named_char a0 Hin). subst v. auto.
  Qed.

  Lemma V_A : filter (fun v => memNb v p0v) (sorted_set (map Value (filter namedb sc))) = sA.
  Proof.
    apply sorted_ext; [apply filter_sorted, sorted_set_sorted|apply sorted_A|].
    intros x. rewrite filter_In, In_V, in_app_iff, memNb_In. rewrite In_A, In_B. tauto.
  Qed.

  Lemma V_B : filter (fun v => negb (memNb v p0v)) (sorted_set (map Value (filter namedb sc))) = sB.
  Proof.
    apply sorted_ext; [apply filter_sorted, sorted_set_sorted|apply sorted_B|].
    intros x. rewrite filter_In, In_V, in_app_iff, negb_true_iff, memNb_false. rewrite In_A, In_B. tauto.
  Qed.

  Lemma c2_ok : c2 sc = true.
  Proof.
    unfold c2. apply forallb_forall. intros a Ha. apply In_named in Ha.
    destruct Ha as (a0 & Hin & He & Hne). subst a. rewrite IsPtr_rs.
    apply (named_char a0 Hin) in Hne. tauto.
  Qed.

  Lemma c3_ok : c3 sc = true.
  Proof.
    unfold c3. apply forallb_forall. intros a Ha. apply forallb_forall. intros b Hb.
    apply in_map_iff in Ha. destruct Ha as (a0 & Ea & Ha). apply in_map_iff in Hb. destruct Hb as (b0 & Eb & Hb).
    subst a b. rewrite !IsPtr_rs, !Value_rs.
    destruct (IsPtr a0 && IsPtr b0 && N.eqb (Value a0) (Value b0)) eqn:E; [|reflexivity].
    simpl. apply andb_true_iff in E. destruct E as [E Ev]. apply andb_true_iff in E. destruct E as [Epa Epb].
    apply N.eqb_eq in Ev. apply beq_eq. apply same_name; assumption.
  Qed.

  Lemma c4_ok : c4 sc = true.
  Proof.
    unfold c4. rewrite ptrvals_rs. apply forallb_forall. intros v Hv.
    destruct (Nat.ltb 1 (count_val v allv)) eqn:E; [|reflexivity]. simpl.
    apply Nat.ltb_lt in E. apply memNb_In. apply In_V. apply multi_in_AB; assumption.
  Qed.

  Lemma c5_ok : c5 sc p0v = true.
  Proof.
    unfold c5. cbv zeta. rewrite V_A, V_B. apply forallb_forall. intros a Ha.
    apply In_named in Ha. destruct Ha as (a0 & Hin & He & Hne). subst a.
    destruct (named_label a0 Hin Hne) as (i & Hi & Hl & _).
    rewrite Value_rs, Hl. rewrite index_of_app in Hi.
    destruct (index_of (Value a0) sA) as [i'|].
    - injection Hi as Hi. subst i'. apply beq_refl.
    - destruct (index_of (Value a0) sB) as [j|]; simpl in Hi; [|discriminate].
      injection Hi as Hi. subst i. apply beq_refl.
  Qed.

  (* ---- Prop versions ---- *)
  Lemma L2 a : In a sc -> Name a <> [] -> IsPtr a = true.
  Proof.
    intros Ha Hne. apply in_map_iff in Ha. destruct Ha as (a0 & Ea & Ha). subst a.
    rewrite IsPtr_rs. apply (named_char a0 Ha) in Hne. tauto.
  Qed.

  Lemma L4 a b : In a sc -> In b sc -> IsPtr a = true -> IsPtr b = true ->
    Value a = Value b -> Name a = Name b.
  Proof.
    intros Ha Hb Hpa Hpb Hv.
    apply in_map_iff in Ha. destruct Ha as (a0 & Ea & Ha). apply in_map_iff in Hb. destruct Hb as (b0 & Eb & Hb).
    subst a b. rewrite IsPtr_rs in Hpa, Hpb. rewrite !Value_rs in Hv. apply same_name; assumption.
  Qed.

  Lemma L3 a b : In a sc -> In b sc -> IsPtr a = true -> IsPtr b = true ->
    (Value a = Value b <-> Name a = Name b) \/ (Name a = [] /\ Name b = []).
  Proof.
    intros Ha Hb Hpa Hpb.
    assert (Hinj : Name a <> [] \/ Name b <> [] -> Name a = Name b -> Value a = Value b).
    { intros Hor He.
      apply in_map_iff in Ha. destruct Ha as (a0 & Ea0 & Ha).
      apply in_map_iff in Hb. destruct Hb as (b0 & Eb0 & Hb). subst a b.
      rewrite !Value_rs. destruct Hor as [Hne|Hne].
      - apply name_inj; assumption.
      - symmetry. apply name_inj; [assumption|assumption|congruence|assumption]. }
    destruct (beq (Name a) []) eqn:Ea; destruct (beq (Name b) []) eqn:Eb.
    - apply beq_eq in Ea. apply beq_eq in Eb. right. auto.
    - apply (proj1 (beq_neq _ _)) in Eb. left. split; [apply L4; assumption|apply Hinj; right; exact Eb].
    - apply (proj1 (beq_neq _ _)) in Ea. left. split; [apply L4; assumption|apply Hinj; left; exact Ea].
    - apply (proj1 (beq_neq _ _)) in Ea. left. split; [apply L4; assumption|apply Hinj; left; exact Ea].
  Qed.

  Lemma L5 a : In a sc -> IsPtr a = true -> 1 < count_val (Value a) (ptrvals sc) -> Name a <> [].
  Proof.
    intros Ha Hp Hc. rewrite ptrvals_rs in Hc.
    apply in_map_iff in Ha. destruct Ha as (a0 & Ea & Ha). subst a.
    rewrite IsPtr_rs in Hp. rewrite Value_rs in Hc. apply (named_char a0 Ha). split; [exact Hp|].
    apply multi_in_AB; [|exact Hc]. apply In_ptrvals. exists a0. auto.
  Qed.

  Lemma L6 : exists k, forall n,
    (exists a, In a sc /\ Name a = n /\ n <> []) <-> (exists i, 1 <= i <= k /\ n = label i).
  Proof.
    exists (List.length (sA ++ sB)). intros n. split.
    - intros (a & Ha & Hn & Hne). apply in_map_iff in Ha. destruct Ha as (a0 & Ea & Ha). subst a n.
      destruct (named_label a0 Ha Hne) as (i & Hi & Hl & _).
      exists (S i). apply index_of_Some in Hi. destruct Hi as [Hlt _]. split; [lia|exact Hl].
    - intros (i & Hi & Hn). destruct i as [|i]; [lia|].
      assert (Hlt : i < List.length (sA ++ sB)) by lia.
      pose proof (index_of_nth (sA ++ sB) i NoDup_AB Hlt) as Hidx.
      assert (Hv : In (nth i (sA ++ sB) 0%N) (sA ++ sB)) by (apply nth_In; exact Hlt).
      destruct (AB_in_all _ Hv) as (a0 & Hin & Hp & He).
      rewrite <- He in Hidx.
      exists (rs tb a0). split; [apply in_map; exact Hin|].
      rewrite (label_named a0 i Hin Hp Hidx). split; [congruence|]. subst n. apply label_nonempty.
  Qed.
End Core.

(* ------------------------------------------------------------------ *)
(* the theorems                                                         *)
(* ------------------------------------------------------------------ *)
Lemma no_names_nn gs : no_names gs = true -> forall a, In a (all_scalars gs) -> Name a = [].
Proof.
  unfold no_names. intros H a Ha. rewrite forallb_forall in H. apply beq_eq. apply H. exact Ha.
Qed.

Lemma g0_incl g0 rest : incl (goroutine_scalars g0) (all_scalars (g0 :: rest)).
Proof. intros a Ha. unfold all_scalars. simpl. apply in_or_app. left. exact Ha. Qed.

Lemma p0_of_out g0 rest :
  p0_of (name_arguments (g0 :: rest)) = ptrvals (goroutine_scalars g0).
Proof.
  unfold name_arguments. cbn [map p0_of]. rewrite goroutine_scalars_rename. apply ptrvals_rs.
Qed.

Theorem labelling : forall gs, no_names gs = true -> c15_ok gs (name_arguments gs) = true.
Proof.
  intros gs Hnn. destruct gs as [|g0 rest]; [reflexivity|].
  pose proof (no_names_nn _ Hnn) as Hnn'. pose proof (g0_incl g0 rest) as Hincl.
  rewrite c15_ok_unfold, erase_out, goroutines_eqb_refl, p0_of_out, all_scalars_out, name_table_eq.
  rewrite (c2_ok _ _ Hnn'), (c3_ok _ _ Hnn'), (c4_ok _ _ Hnn'), (c5_ok _ _ Hnn').
  reflexivity.
Qed.

Theorem laws : forall gs, no_names gs = true ->
  let out := name_arguments gs in
  let sc := all_scalars out in
  map goroutine_erase out = map goroutine_erase gs /\
  (forall a, In a sc -> Name a <> [] -> IsPtr a = true) /\
  (forall a b, In a sc -> In b sc -> IsPtr a = true -> IsPtr b = true -> (Value a = Value b <-> Name a = Name b) \/ (Name a = [] /\ Name b = [])) /\
  (forall a b, In a sc -> In b sc -> IsPtr a = true -> IsPtr b = true -> Value a = Value b -> Name a = Name b) /\
  (forall a, In a sc -> IsPtr a = true -> 1 < count_val (Value a) (map Value (filter IsPtr sc)) -> Name a <> []) /\
  (exists k, forall n, (exists a, In a sc /\ Name a = n /\ n <> []) <-> (exists i, 1 <= i <= k /\ n = label i)).
Proof.
  intros gs Hnn out sc. subst sc out. split; [apply erase_out|].
  destruct gs as [|g0 rest].
  - simpl. repeat split; try (intros; contradiction).
    exists 0. intros n. split.
    + intros (a & Ha & _). contradiction.
    + intros (i & Hi & _). lia.
  - pose proof (no_names_nn _ Hnn) as Hnn'. pose proof (g0_incl g0 rest) as Hincl.
    rewrite all_scalars_out, name_table_eq.
    split; [exact (L2 _ _ Hnn')|]. split; [exact (L3 _ _ Hnn')|]. split; [exact (L4 _ _ Hnn')|].
    split; [exact (L5 _ _ Hnn')|]. exact (L6 _ _ Hnn').
Qed.

Lemma wf_scalar_rs t a0 : Name a0 = [] -> (IsOffsetTooLarge a0 = true -> IsPtr a0 = false) ->
  wf_scalar (rs t a0) = true.
Proof.
  destruct a0 as [ag n v p tl i fv fp fe]. simpl. intros Hn Htl. subst n.
  destruct p, tl; try (specialize (Htl eq_refl); discriminate); unfold rs;
    try destruct (lookupN v t); reflexivity.
Qed.

Theorem consistent : forall gs, no_names gs = true ->
  (forall a, In a (all_scalars gs) -> IsOffsetTooLarge a = true -> IsPtr a = false) ->
  forallb (fun g => wf_stack (SStack (GSig g))) (name_arguments gs) = true.
Proof.
  intros gs Hnn Htl. rewrite wf_all_scalars, all_scalars_out. apply forallb_forall.
  intros a Ha. apply in_map_iff in Ha. destruct Ha as (a0 & Ea & Ha). subst a.
  apply wf_scalar_rs; [apply (no_names_nn _ Hnn); exact Ha|apply Htl; exact Ha].
Qed.

(* ------------------------------------------------------------------ *)
(* a concrete snapshot                                                  *)
(* ------------------------------------------------------------------ *)
Definition ex_ptr (v : N) : Arg := MkArg false [] v true false false [] [] false.
Definition ex_int (v : N) : Arg := MkArg false [] v false false false [] [] false.
Definition ex_agg (l : list Arg) : Arg := MkArg true [] 0 false false false l [] false.
Definition ex_call (l : list Arg) : Call :=
  mkCall emptyFunc (mkArgs l [] false) [] 0 [] [] [] [] [] LocationUnknown.
Definition ex_gor (id : Z) (cs : list Call) : Goroutine :=
  mkGoroutine (mkSig [] emptyStack 0 0 (mkStack cs false) false) id false false 0.
(* goroutine 1: f(0xc000100, {0xc000100, 0xc000050}, 5)   — 0xc000050 occurs once: unnamed
   goroutine 2: g({0xc000300}); h(0xc000200)               — not seen in goroutine 1: #3, #2 *)
Definition ex_gs : list Goroutine :=
  [ ex_gor 1 [ex_call [ex_ptr 201326848; ex_agg [ex_ptr 201326848; ex_ptr 201326672]; ex_int 5]];
    ex_gor 2 [ex_call [ex_agg [ex_ptr 201327360]]; ex_call [ex_ptr 201327104]] ].

Lemma example_labelling : exists gs, no_names gs = true /\ List.length gs = 2 /\
  c15_ok gs (name_arguments gs) = true /\
  map Name (all_scalars (name_arguments gs)) = [s2b "#1"; s2b "#1"; []; []; s2b "#3"; s2b "#2"].
Proof.
  exists ex_gs. split; [vm_compute; reflexivity|]. split; [reflexivity|].
  split; vm_compute; reflexivity.
Qed.
