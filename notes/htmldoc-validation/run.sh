#!/bin/sh
# usage: ./run.sh [number of random samples, default 60] [number of Coq files, default 8]
# Regenerates samples_*.v from main.go, evaluates the Coq models (whole page: Model/HtmlPage.v,
# content region: Model/HtmlDoc.v) on every sample and compares them with the bytes produced
# by Go (comparison done inside Coq by first_diff).  Works in the directory of the script;
# COQ=<dir with theories/> (default ../../coq) must have Model/HtmlPage.vo compiled.
set -e
ulimit -s unlimited 2>/dev/null || ulimit -s 1000000 2>/dev/null || true
export GOFLAGS=-mod=mod GOPROXY=off GOSUMDB=off GOTOOLCHAIN=local
HERE=$(cd "$(dirname "$0")" && pwd)
COQ=${COQ:-$HERE/../../coq}
cd "$HERE"
go build -o htmldoc .
./htmldoc gen "${1:-60}" "${2:-8}"
coqc -Q "$COQ/theories" PP -Q "$HERE" HD samples_common.v
rm -f coq_out_*.txt
pids=""
for f in samples_[0-9]*.v; do
  ( coqc -Q "$COQ/theories" PP -Q "$HERE" HD "$f" > "coq_out_${f%.v}.txt" 2>&1 || echo "COQC FAILED $f" >> "coq_out_${f%.v}.txt" ) &
  pids="$pids $!"
done
wait $pids
cat coq_out_samples_*.txt > coq_out.txt
if grep -q "COQC FAILED\|^Error" coq_out.txt; then grep -n "COQC FAILED\|Error" -A5 coq_out.txt | head -30; exit 1; fi
for kind in page region; do
  total=$(cat samples_[0-9]*.v | grep -c "^Eval vm_compute in (\"$kind\"")
  equal=$(tr '\n' ' ' < coq_out.txt | sed 's/     = (/\n= (/g' | grep -c "^= (\"$kind\"%string, \"[A-Za-z0-9_]*\"%string, None)" || true)
  echo "$kind: samples: $total   equal: $equal"
  [ "$total" = "$equal" ] || bad=1
done
if [ -n "$bad" ]; then
  rm -f samples_*.vo samples_*.vok samples_*.vos samples_*.glob .samples_*.aux
  python3 "$HERE/diff.py"
  exit 1
fi
# the compiled samples are large; the sources (samples_*.v) and coq_out.txt stay for inspection
rm -f samples_*.vo samples_*.vok samples_*.vos samples_*.glob .samples_*.aux
