(* Proofs/ScanWf.v — the scanner only produces well-formed snapshots.

   [good_scalar]: what parseArgs establishes for every non-aggregate argument
   (nested fields included): no pseudo-name yet, a too-large argument is not a
   pointer, and for the others IsPtr is exactly the pointer heuristic applied to
   the value.  [WfS s]: every argument of every call of the main stack AND of
   the creator stack of every goroutine of s is good.  WfS is an invariant of
   [scan] (every state); hence every snapshot returned by [scan_snapshot]
   satisfies Spec/Wf.wf_goroutines, with or without NameArguments.  This
   discharges the premise [scans_wf] of DetProofs.pipeline_functional and the
   hypothesis [no_names] of C15. *)
From PP Require Import Base.Bytes Base.BytesX Base.Num Base.GoResult Model.Types Model.Lines Model.Reader Model.FuncInit Model.ParseArgs Model.Scan Model.Names Model.ScanSnapshot.
From PP Require Import Proofs.NamesBase Proofs.NamesProofs Proofs.ScanInv Proofs.LoopProofs.
From PP Require Import Spec.Wf Spec.NamesSpec.
From PP Require Import Model.Bucket Model.UI Model.Process Proofs.DetProofs.
From Coq Require Import String Permutation.

(* ------------------------------------------------------------------ *)
(* 1. the predicate                                                     *)
(* ------------------------------------------------------------------ *)

Definition good_scalar (a : Arg) : Prop :=
  Name a = [] /\
  (IsOffsetTooLarge a = true -> IsPtr a = false) /\
  (IsOffsetTooLarge a = false -> IsPtr a = is_ptr_value (Value a)).

(* all the scalars below a list of arguments *)
Definition good_vals (l : list Arg) : Prop := Forall good_scalar (flat_map arg_scalars l).
Definition good_args (a : Args) : Prop := good_vals (Values a).
Definition good_call (c : Call) : Prop := good_args (CArgs c).
Definition good_stack (s : Stack) : Prop := Forall good_call (Calls s).
Definition good_g (g : Goroutine) : Prop :=
  good_stack (CreatedBy (GSig g)) /\ good_stack (SStack (GSig g)).
Definition good_gs (gs : list Goroutine) : Prop := Forall good_g gs.
Definition WfS (s : sstate) : Prop := good_gs (goroutines s).

Lemma good_vals_nil : good_vals [].
Proof. constructor. Qed.

Lemma good_vals_app l1 l2 : good_vals l1 -> good_vals l2 -> good_vals (l1 ++ l2).
Proof. unfold good_vals. intros H1 H2. rewrite flat_map_app. apply Forall_app. split; assumption. Qed.

Lemma good_vals_agg n v p tl i fv fp fe :
  good_vals fv -> good_vals [MkArg true n v p tl i fv fp fe].
Proof.
  unfold good_vals. intros H. cbn [flat_map]. rewrite app_nil_r, arg_scalars_eq. exact H.
Qed.

Lemma good_vals_scalar n v p tl i fv fp fe :
  good_scalar (MkArg false n v p tl i fv fp fe) -> good_vals [MkArg false n v p tl i fv fp fe].
Proof.
  unfold good_vals. intros H. cbn [flat_map]. rewrite app_nil_r, arg_scalars_eq.
  constructor; [exact H|constructor].
Qed.

(* ------------------------------------------------------------------ *)
(* 2. parseArgs                                                         *)
(* ------------------------------------------------------------------ *)

Definition good_frames (st : list frame) : Prop := Forall (fun f => good_vals (fvals f)) st.

Lemma good_push a st : good_vals [a] -> good_frames st -> good_frames (push_val a st).
Proof.
  intros Ha Hst. destruct st as [|f st']; [constructor|].
  inversion Hst as [|? ? Hf Hst']; subst. cbn [push_val]. constructor; [|exact Hst'].
  cbn [fvals]. apply good_vals_app; assumption.
Qed.

Lemma good_set_elided st : good_frames st -> good_frames (set_elided st).
Proof.
  intros Hst. destruct st as [|f st']; [constructor|].
  inversion Hst as [|? ? Hf Hst']; subst. cbn [set_elided]. constructor; [exact Hf|exact Hst'].
Qed.

Lemma good_open : forall n st st', good_frames st -> pa_open n st = Some st' -> good_frames st'.
Proof.
  induction n as [|n IH]; intros st st' Hst H; cbn [pa_open] in H.
  - injection H as <-. exact Hst.
  - match type of H with (if ?X then _ else _) = _ => destruct X; [discriminate|] end.
    apply (IH _ _ (Forall_cons (mkFrame [] false) good_vals_nil Hst) H).
Qed.

Lemma good_close : forall n st st', good_frames st -> pa_close n st = Some st' -> good_frames st'.
Proof.
  induction n as [|n IH]; intros st st' Hst H; cbn [pa_close] in H.
  - injection H as <-. exact Hst.
  - destruct st as [|f [|g st2]]; try discriminate.
    inversion Hst as [|? ? Hf Hst2]; subst.
    apply (IH _ _ (good_push _ _ (good_vals_agg _ _ _ _ _ _ _ _ Hf) Hst2) H).
Qed.

Lemma good_piece st piece st' : good_frames st -> pa_piece st piece = inl st' -> good_frames st'.
Proof.
  intros Hst H. unfold pa_piece in H.
  destruct (trim_curly piece) as [[opened a] closed].
  destruct (pa_open opened st) as [st1|] eqn:Hopen; [|discriminate].
  pose proof (good_open _ _ _ Hst Hopen) as H1.
  match type of H with
  | match ?X with _ => _ end = _ => destruct X as [st2|] eqn:Hst2; [|discriminate]
  end.
  assert (H2 : good_frames st2).
  { destruct a as [|a0 a'].
    - injection Hst2 as <-. exact H1.
    - destruct (beq (a0 :: a') (s2b "...")).
      + injection Hst2 as <-. apply good_set_elided. exact H1.
      + destruct (beq (a0 :: a') (s2b "_")).
        * injection Hst2 as <-. apply good_push; [|exact H1].
          apply good_vals_scalar. split; [reflexivity|]. split; [reflexivity|]. intros F. discriminate F.
        * match type of Hst2 with
          | match ?X with _ => _ end = _ => destruct X as [v|]; [|discriminate]
          end.
          injection Hst2 as <-. apply good_push; [|exact H1].
          apply good_vals_scalar. split; [reflexivity|]. split; [intros F; discriminate F|]. reflexivity. }
  destruct (pa_close closed st2) as [st3|] eqn:Hclose; [|discriminate].
  injection H as <-. apply (good_close _ _ _ H2 Hclose).
Qed.

Lemma good_loop : forall pieces st st', good_frames st -> pa_loop st pieces = inl st' -> good_frames st'.
Proof.
  induction pieces as [|p ps IH]; intros st st' Hst H; cbn [pa_loop] in H.
  - injection H as <-. exact Hst.
  - destruct (pa_piece st p) as [st1|e] eqn:Hp; [|discriminate].
    apply (IH _ _ (good_piece _ _ _ Hst Hp) H).
Qed.

Theorem parse_args_good : forall text a, parse_args text = inl a -> good_args a.
Proof.
  intros text a H. unfold parse_args in H.
  destruct (pa_loop [mkFrame [] false] (split text (s2b ", "))) as [st|e] eqn:Hl; [|discriminate].
  assert (Hg : good_frames st).
  { apply (good_loop _ _ _ (Forall_cons (mkFrame [] false) good_vals_nil (Forall_nil _)) Hl). }
  destruct st as [|f [|g st']]; try discriminate.
  injection H as <-. inversion Hg as [|? ? Hf _]; subst. exact Hf.
Qed.

(* ------------------------------------------------------------------ *)
(* 3. calls: parseFunc, parseFile, Call.init                            *)
(* ------------------------------------------------------------------ *)

Lemma good_args_empty : good_args emptyArgs.
Proof. constructor. Qed.

Lemma call_init_args c src line : CArgs (call_init c src line) = CArgs c.
Proof.
  unfold call_init.
  destruct (match src with
            | [] => (RemoteSrcPath c, SrcName c, DirSrc c, CLocation c)
            | _ :: _ => _
            end) as [[[rsp sn] ds] loc].
  reflexivity.
Qed.

Lemma good_call_init c src line : good_call c -> good_call (call_init c src line).
Proof. unfold good_call. rewrite call_init_args. exact (fun H => H). Qed.

Lemma parse_func_good line c e : parse_func line = Ok (Some (c, e)) -> good_call c.
Proof.
  intros H. unfold parse_func in H.
  destruct (match_func line) as [[sym argtext]|]; [|discriminate].
  destruct (func_init sym) as [[f|]|m]; cbn [bind] in H; try discriminate.
  - destruct (parse_args argtext) as [a|pe] eqn:Ha.
    + injection H as <- _. exact (parse_args_good _ _ Ha).
    + injection H as <- _. exact good_args_empty.
  - injection H as <- _. exact good_args_empty.
Qed.

Lemma parse_file_good c line c' e : parse_file c line = Some (c', e) -> good_call c -> good_call c'.
Proof.
  intros H Hc. unfold parse_file in H.
  destruct (match_file line) as [[file ds]|]; [|discriminate].
  destruct (atou ds) as [n|].
  - injection H as <- _. apply good_call_init. exact Hc.
  - injection H as <- _. exact Hc.
Qed.

(* ------------------------------------------------------------------ *)
(* 4. lists and goroutines                                              *)
(* ------------------------------------------------------------------ *)

Lemma Forall_upd_last {A} (P : A -> Prop) (f : A -> A) (l : list A) :
  Forall P l -> (forall x, last_opt l = Some x -> P (f x)) -> Forall P (upd_last f l).
Proof.
  induction l as [|x l IH]; intros H Hf; [constructor|].
  inversion H as [|? ? Hx Hl]; subst.
  destruct l as [|y l'].
  - cbn [upd_last]. constructor; [apply Hf; reflexivity|constructor].
  - change (upd_last f (x :: y :: l')) with (x :: upd_last f (y :: l')).
    constructor; [exact Hx|]. apply IH; [exact Hl|]. intros z Hz. apply Hf. exact Hz.
Qed.

Lemma Forall_upd_nth {A} (P : A -> Prop) (f : A -> A) : forall (l : list A) n,
  Forall P l -> (forall x, nth_error l n = Some x -> P (f x)) -> Forall P (upd_nth n f l).
Proof.
  induction l as [|x l IH]; intros n H Hf; [destruct n; constructor|].
  inversion H as [|? ? Hx Hl]; subst. destruct n as [|n]; cbn [upd_nth].
  - constructor; [apply Hf; reflexivity|exact Hl].
  - constructor; [exact Hx|]. apply IH; [exact Hl|]. intros z Hz. apply Hf. exact Hz.
Qed.

Lemma last_opt_In {A} (l : list A) x : last_opt l = Some x -> In x l.
Proof.
  induction l as [|y l IH]; intros H; [discriminate|].
  destruct l as [|z l'].
  - injection H as <-. now left.
  - right. apply IH. exact H.
Qed.

Lemma good_gs_last gs g : good_gs gs -> last_opt gs = Some g -> good_g g.
Proof. intros H Hl. exact (proj1 (Forall_forall _ _) H g (last_opt_In _ _ Hl)). Qed.

Lemma good_gs_nth gs i g : good_gs gs -> nth_error gs i = Some g -> good_g g.
Proof. intros H Hn. exact (proj1 (Forall_forall _ _) H g (nth_error_In _ _ Hn)). Qed.

Lemma good_set_calls g cs : good_g g -> Forall good_call cs -> good_g (set_calls g cs).
Proof. intros [H1 H2] Hc. split; [exact H1|exact Hc]. Qed.

Lemma good_add_call g c : good_g g -> good_call c -> good_g (add_call g c).
Proof.
  intros [H1 H2] Hc. split; [exact H1|]. unfold good_stack. cbn.
  apply Forall_app. split; [exact H2|constructor; [exact Hc|constructor]].
Qed.

Lemma good_set_elided_stack g : good_g g -> good_g (set_elided_stack g).
Proof. intros [H1 H2]. split; [exact H1|exact H2]. Qed.

Lemma good_set_created_calls g cs : good_g g -> Forall good_call cs -> good_g (set_created_calls g cs).
Proof. intros [H1 H2] Hc. split; [exact Hc|exact H2]. Qed.

Lemma good_set_state g stt : good_g g -> good_g (set_state g stt).
Proof. intros [H1 H2]. split; [exact H1|exact H2]. Qed.

Lemma WfS_set_cur s g : WfS s -> good_g g -> WfS (set_cur s g).
Proof.
  intros H Hg. unfold WfS, set_cur. cbn [goroutines with_gs].
  apply Forall_upd_last; [exact H|]. intros _ _. exact Hg.
Qed.

Lemma WfS_ss0 : WfS ss0.
Proof. constructor. Qed.

(* ------------------------------------------------------------------ *)
(* 5. one step of scan                                                  *)
(* ------------------------------------------------------------------ *)

Definition StepWf (r : result) : Prop := forall s' l e, r = Ok (s', l, e) -> WfS s'.

Lemma stepwf_ret s' l e : WfS s' -> StepWf (ret s' l e).
Proof. intros H s1 l1 e1 E. injection E as <- _ _. exact H. Qed.

Lemma stepwf_panic m : StepWf (Panic m).
Proof. intros s1 l1 e1 E. discriminate E. Qed.

Lemma WfS_with_state s x : WfS s -> WfS (with_state s x).
Proof. exact (fun H => H). Qed.

Lemma try_header_wf s t s' : WfS s -> try_header s t = Some s' -> WfS s'.
Proof.
  intros H Hh. destruct (try_header_shape _ _ _ Hh) as (g & ind & -> & E1 & E2 & _).
  unfold WfS. cbn [goroutines]. apply Forall_app. split; [exact H|].
  constructor; [|constructor]. split; unfold good_stack; [rewrite E2|rewrite E1]; constructor.
Qed.

Lemma func_step_wf s line next upd notfound :
  (forall c s1, good_call c -> upd c s = Ok s1 -> WfS s1) ->
  StepWf notfound -> StepWf (func_step s line next upd notfound).
Proof.
  intros Hupd Hnf. unfold func_step.
  destruct (parse_func line) as [[[c e]|]|m] eqn:Hp; cbn [bind]; [| exact Hnf | apply stepwf_panic].
  destruct (upd c s) as [s1|m] eqn:Hu; cbn [bind]; [|apply stepwf_panic].
  apply stepwf_ret, WfS_with_state. apply (Hupd c s1 (parse_func_good _ _ _ Hp) Hu).
Qed.

Lemma add_call_cur_wf s : WfS s -> forall c s1, good_call c -> add_call_cur c s = Ok s1 -> WfS s1.
Proof.
  intros H c s1 Hc E. unfold add_call_cur in E.
  destruct (last_opt (goroutines s)) as [g|] eqn:Hl; [|discriminate].
  injection E as <-. apply WfS_set_cur; [exact H|].
  apply good_add_call; [exact (good_gs_last _ _ H Hl)|exact Hc].
Qed.

Lemma file_step_wf s line calls store next what :
  WfS s -> Forall good_call calls ->
  (forall cs, Forall good_call cs -> WfS (store cs)) ->
  StepWf (file_step s line calls store next what).
Proof.
  intros H Hc Hst. unfold file_step.
  destruct (last_opt calls) as [c|] eqn:Hl; [|apply stepwf_panic].
  destruct (parse_file c line) as [[c' [e|]]|] eqn:Hp; try (apply stepwf_ret; exact H).
  apply stepwf_ret, WfS_with_state, Hst.
  apply Forall_upd_last; [exact Hc|]. intros x Hx. rewrite Hl in Hx. injection Hx as <-.
  apply (parse_file_good _ _ _ _ Hp). exact (proj1 (Forall_forall _ _) Hc c (last_opt_In _ _ Hl)).
Qed.

Lemma created_step_wf s g sym b : WfS s -> good_g g -> StepWf (created_step s g sym b).
Proof.
  intros H Hg. unfold created_step.
  destruct (func_init sym) as [[f|]|m]; cbn [bind]; [| |apply stepwf_panic].
  - apply stepwf_ret, WfS_with_state, WfS_set_cur; [exact H|].
    apply good_set_created_calls; [exact Hg|]. constructor; [|constructor].
    destruct b; [apply good_call_init|]; exact good_args_empty.
  - apply stepwf_ret, WfS_set_cur; [exact H|]. apply good_set_created_calls; [exact Hg|constructor].
Qed.

Lemma race_goroutine_step_wf s t : WfS s -> StepWf (race_goroutine_step s t).
Proof.
  intros H. rewrite race_goroutine_step_unfold.
  destruct (match_race_goroutine t) as [[ds stt]|]; [|apply stepwf_ret; exact H].
  destruct (atou ds) as [id|]; [|apply stepwf_ret; exact H].
  destruct (find_id id 0 (goroutines s)) as [i|]; [|apply stepwf_ret; exact H].
  apply stepwf_ret. unfold WfS. cbn [goroutines].
  apply Forall_upd_nth; [exact H|]. intros g Hn. apply good_set_state. exact (good_gs_nth _ _ _ H Hn).
Qed.

Lemma race_goroutine_func_step_wf s t : WfS s -> StepWf (race_goroutine_func_step s t).
Proof.
  intros H. unfold race_goroutine_func_step.
  apply func_step_wf; [|apply stepwf_ret; exact H].
  intros c s1 Hc E. cbv beta in E.
  destruct (nth_error (goroutines s) (gindex s)) as [g|] eqn:Hn; [|discriminate].
  injection E as <-. unfold WfS. cbn [goroutines with_gs].
  apply Forall_upd_nth; [exact H|]. intros g' Hn'.
  pose proof (good_gs_nth _ _ _ H Hn') as Hg'.
  apply good_set_created_calls; [exact Hg'|].
  apply Forall_app. split; [exact (proj1 Hg')|constructor; [exact Hc|constructor]].
Qed.

Lemma race_op_header_wf s m first t r : WfS s -> race_op_header s m first t = Some r -> StepWf r.
Proof.
  intros H E. unfold race_op_header in E.
  destruct m as [[[w addr] ds]|]; [|discriminate].
  injection E as <-.
  destruct (parse_uint addr) as [a|]; [|apply stepwf_ret; exact H].
  destruct (atou ds) as [id|]; [|apply stepwf_ret; exact H].
  destruct (first && _); [apply stepwf_panic|].
  apply stepwf_ret. unfold WfS. cbn [goroutines]. apply Forall_app. split; [exact H|].
  constructor; [|constructor]. split; constructor.
Qed.

Lemma header_or_end_wf t s : WfS s -> StepWf (header_or_end t s).
Proof.
  intros H. unfold header_or_end.
  destruct (try_header s t) as [s'|] eqn:Hh.
  - apply stepwf_ret. exact (try_header_wf _ _ _ H Hh).
  - destruct (state_eqb (st s) looking && beq t race_header_footer).
    + apply stepwf_ret. exact H.
    + apply stepwf_ret. destruct (state_eqb (st s) looking); exact H.
Qed.

Ltac with_cur_wf H cur Hcur Hg :=
  unfold with_cur;
  match goal with
  | |- StepWf (match last_opt ?gs with _ => _ end) =>
      destruct (last_opt gs) as [cur|] eqn:Hcur; [|apply stepwf_panic];
      pose proof (good_gs_last _ _ H Hcur) as Hg
  end.

Lemma scan_body_wf s t : WfS s -> StepWf (scan_body s t).
Proof.
  intros H. unfold scan_body.
  destruct (st s) eqn:Hst.
  - (* looking *) apply header_or_end_wf, H.
  - (* done *) apply stepwf_ret, H.
  - (* betweenRoutine *) apply header_or_end_wf, H.
  - (* gotRoutineHeader *)
    with_cur_wf H cur Hcur Hg.
    destruct (match_unavail t).
    + apply stepwf_ret, WfS_with_state, WfS_set_cur; [exact H|].
      apply good_set_calls; [exact Hg|]. constructor; [exact good_args_empty|constructor].
    + apply func_step_wf; [apply add_call_cur_wf, H|apply stepwf_ret, H].
  - (* gotFunc *)
    with_cur_wf H cur Hcur Hg.
    apply file_step_wf; [exact H|exact (proj2 Hg)|].
    intros cs Hcs. apply WfS_set_cur; [exact H|]. apply good_set_calls; assumption.
  - (* gotCreated *)
    with_cur_wf H cur Hcur Hg.
    destruct (Calls (CreatedBy (GSig cur))) as [|c rest] eqn:Hcalls; [apply stepwf_panic|].
    assert (Hcr : Forall good_call (c :: rest)) by (rewrite <- Hcalls; exact (proj1 Hg)).
    inversion Hcr as [|? ? Hc Hrest]; subst.
    destruct (parse_file c t) as [[c' [e|]]|] eqn:Hp; try (apply stepwf_ret; exact H).
    apply stepwf_ret, WfS_with_state, WfS_set_cur; [exact H|].
    apply good_set_created_calls; [exact Hg|].
    constructor; [exact (parse_file_good _ _ _ _ Hp Hc)|exact Hrest].
  - (* gotFileFunc *)
    with_cur_wf H cur Hcur Hg.
    destruct (match_created t) as [sym|].
    + apply created_step_wf; assumption.
    + destruct (is_frames_elided t).
      * apply stepwf_ret, WfS_set_cur; [exact H|]. apply good_set_elided_stack, Hg.
      * apply func_step_wf; [apply add_call_cur_wf, H|].
        destruct t; apply stepwf_ret; exact H.
  - (* gotFileCreated *)
    destruct t; apply stepwf_ret; exact H.
  - (* gotUnavail *)
    destruct t as [|x t']; [apply stepwf_ret; exact H|].
    with_cur_wf H cur Hcur Hg.
    destruct (match_created (x :: t')) as [sym|].
    + apply created_step_wf; assumption.
    + apply stepwf_ret; exact H.
  - (* gotRaceHeader1 *)
    destruct (beq t race_header); apply stepwf_ret; exact H.
  - (* gotRaceHeader2 *)
    destruct (race_op_header s (match_race_op t) true t) as [r|] eqn:Hr.
    + exact (race_op_header_wf _ _ _ _ _ H Hr).
    + apply stepwf_ret; exact H.
  - (* gotRaceOperationHeader *)
    apply func_step_wf; [apply add_call_cur_wf, H|apply stepwf_ret, H].
  - (* gotRaceOperationFunc *)
    with_cur_wf H cur Hcur Hg.
    apply file_step_wf; [exact H|exact (proj2 Hg)|].
    intros cs Hcs. apply WfS_set_cur; [exact H|]. apply good_set_calls; assumption.
  - (* gotRaceOperationFile *)
    destruct t as [|x t']; [apply stepwf_ret; exact H|].
    apply func_step_wf; [apply add_call_cur_wf, H|apply stepwf_ret, H].
  - (* betweenRaceOperations *)
    destruct (race_op_header s (match_race_prev t) false t) as [r|] eqn:Hr.
    + exact (race_op_header_wf _ _ _ _ _ H Hr).
    + apply race_goroutine_step_wf, H.
  - (* gotRaceGoroutineHeader *)
    apply race_goroutine_func_step_wf, H.
  - (* gotRaceGoroutineFunc *)
    destruct (nth_error (goroutines s) (gindex s)) as [g|] eqn:Hn; [|apply stepwf_panic].
    pose proof (good_gs_nth _ _ _ H Hn) as Hg.
    apply file_step_wf; [exact H|exact (proj1 Hg)|].
    intros cs Hcs. unfold WfS. cbn [goroutines with_gs].
    apply Forall_upd_nth; [exact H|]. intros g' Hn'.
    apply good_set_created_calls; [exact (good_gs_nth _ _ _ H Hn')|exact Hcs].
  - (* gotRaceGoroutineFile *)
    destruct t as [|x t']; [apply stepwf_ret; exact H|].
    destruct (beq (x :: t') race_header_footer); [apply stepwf_ret; exact H|].
    apply race_goroutine_func_step_wf, H.
  - (* betweenRaceGoroutines *)
    apply race_goroutine_step_wf, H.
Qed.

(* the invariant: every state, every line *)
Theorem scan_preserves_wf : forall s line s' l e,
  scan s line = Ok (s', l, e) -> WfS s -> WfS s'.
Proof.
  intros s line s' l e E H. rewrite scan_unfold in E.
  destruct (scan_tr s line) as [t0|].
  - destruct (scan_pre_cases s t0) as [(t & Ht)|(Ht & _)]; rewrite Ht in E.
    + exact (scan_body_wf s t H _ _ _ E).
    + injection E as <- _ _. exact H.
  - injection E as <- _ _. exact H.
Qed.

(* ------------------------------------------------------------------ *)
(* 6. from the invariant to Spec/Wf                                     *)
(* ------------------------------------------------------------------ *)

Lemma good_scalar_wf a : good_scalar a -> wf_scalar a = true.
Proof.
  intros (Hn & Htl & _). unfold wf_scalar. rewrite Hn.
  change (beq (@nil N) []) with true. rewrite Bool.orb_true_r. cbn [andb].
  destruct (IsOffsetTooLarge a); [rewrite (Htl eq_refl)|]; reflexivity.
Qed.

Lemma Forall_forallb {A} (P : A -> Prop) (p : A -> bool) (l : list A) :
  (forall x, P x -> p x = true) -> Forall P l -> forallb p l = true.
Proof.
  intros Hp H. induction H as [|x l Hx _ IH]; [reflexivity|]. cbn [forallb]. now rewrite (Hp x Hx), IH.
Qed.

Lemma good_vals_wf l : good_vals l -> forallb wf_arg l = true.
Proof.
  intros H. rewrite (forallb_ext' wf_arg (fun a => forallb wf_scalar (arg_scalars a)) l wf_arg_scalars).
  rewrite <- forallb_flat_map. exact (Forall_forallb _ _ _ good_scalar_wf H).
Qed.

Lemma good_stack_wf s : good_stack s -> wf_stack s = true.
Proof.
  intros H. unfold wf_stack, wf_args.
  apply (Forall_forallb good_call); [|exact H]. intros c Hc. exact (good_vals_wf _ Hc).
Qed.

Lemma good_g_wf g : good_g g -> wf_sig (GSig g) = true.
Proof. intros [H1 H2]. unfold wf_sig. now rewrite (good_stack_wf _ H1), (good_stack_wf _ H2). Qed.

Lemma good_gs_wf gs : good_gs gs -> wf_goroutines gs = true.
Proof. intros H. exact (Forall_forallb _ _ _ good_g_wf H). Qed.

Lemma Forall_flat_map' {A B} (P : B -> Prop) (f : A -> list B) (l : list A) :
  Forall (fun x => Forall P (f x)) l -> Forall P (flat_map f l).
Proof.
  intros H. induction H as [|x l Hx _ IH]; [constructor|]. cbn [flat_map]. apply Forall_app. now split.
Qed.

Lemma good_all_scalars gs : good_gs gs -> Forall good_scalar (all_scalars gs).
Proof.
  intros H. unfold all_scalars. apply Forall_flat_map'.
  apply (Forall_impl _ (P := good_g)); [|exact H]. intros g [_ H2].
  unfold goroutine_scalars. apply Forall_flat_map'.
  apply (Forall_impl _ (P := good_call)); [|exact H2]. intros c Hc. exact Hc.
Qed.

Lemma good_no_names gs : good_gs gs -> no_names gs = true.
Proof.
  intros H. unfold no_names. apply (Forall_forallb good_scalar); [|exact (good_all_scalars _ H)].
  intros a (Hn & _). rewrite Hn. reflexivity.
Qed.

Lemma good_toolarge gs : good_gs gs ->
  forall a, In a (all_scalars gs) -> IsOffsetTooLarge a = true -> IsPtr a = false.
Proof.
  intros H a Ha. exact (proj1 (proj2 (proj1 (Forall_forall _ _) (good_all_scalars _ H) a Ha))).
Qed.

(* the pointer flag is the pointer heuristic: the third conjunct, exported *)
Lemma good_isptr gs : good_gs gs ->
  forall a, In a (all_scalars gs) -> IsOffsetTooLarge a = false -> IsPtr a = is_ptr_value (Value a).
Proof.
  intros H a Ha. exact (proj2 (proj2 (proj1 (Forall_forall _ _) (good_all_scalars _ H) a Ha))).
Qed.

(* naming leaves the creator stacks alone *)
Lemma created_rename t g : CreatedBy (GSig (goroutine_rename t g)) = CreatedBy (GSig g).
Proof. reflexivity. Qed.

Lemma good_gs_named_wf gs : good_gs gs -> wf_goroutines (name_arguments gs) = true.
Proof.
  intros H. pose proof (consistent gs (good_no_names _ H) (good_toolarge _ H)) as Hc.
  unfold wf_goroutines. rewrite forallb_forall in *. intros g' Hin.
  unfold wf_sig. rewrite (Hc g' Hin), Bool.andb_true_r.
  unfold name_arguments in Hin. apply in_map_iff in Hin. destruct Hin as (g & <- & Hg).
  rewrite created_rename. apply good_stack_wf.
  exact (proj1 (proj1 (Forall_forall _ _) H g Hg)).
Qed.

(* ------------------------------------------------------------------ *)
(* 7. ScanSnapshot                                                      *)
(* ------------------------------------------------------------------ *)

Lemma log_wf : forall log s, Forall item_ok log -> linked s log -> WfS s -> WfS (last_state s log).
Proof.
  induction log as [|it log IH]; intros s Hok Hl H; [exact H|].
  inversion Hok as [|? ? Hit Hok']; subst. destruct Hl as [Hpre Hl]. cbn [last_state].
  apply (IH _ Hok' Hl). destruct Hit as (_ & _ & _ & Hs & _). rewrite Hpre in Hs.
  exact (scan_preserves_wf _ _ _ _ _ Hs H).
Qed.

(* the goroutines behind a snapshot: the list held by the scanner when the
   loop ends, named or not *)
Theorem snapshot_goroutines : forall na src res,
  scan_snapshot na src = Ok res ->
  exists gs0, good_gs gs0 /\
    snap res = match gs0 with [] => None | _ => Some (if na then name_arguments gs0 else gs0) end.
Proof.
  intros na src res H.
  destruct (snapshot_inv _ _ _ H) as (out & log & -> & Hrun).
  destruct (run_linked _ _ _ Hrun) as [Hl Hls].
  pose proof (run_items _ _ _ Hrun) as Hi.
  cbn [init_ls l_ss] in Hl, Hls.
  pose proof (log_wf log ss0 Hi Hl WfS_ss0) as Hw. rewrite <- Hls in Hw.
  destruct out as [[ls err] sfx]. unfold o_ls in Hw. cbn [fst] in Hw.
  exists (goroutines (l_ss ls)). split; [exact Hw|reflexivity].
Qed.

Theorem scan_snapshot_wf : forall na src res,
  scan_snapshot na src = Ok res -> forall gs, snap res = Some gs -> wf_goroutines gs = true.
Proof.
  intros na src res H gs Hs.
  destruct (snapshot_goroutines _ _ _ H) as (gs0 & Hg & E). rewrite E in Hs.
  destruct gs0 as [|g0 gs0']; [discriminate|]. injection Hs as <-.
  destruct na; [exact (good_gs_named_wf _ Hg)|exact (good_gs_wf _ Hg)].
Qed.

(* C15: the hypothesis of the labelling theorem holds of every scanner output *)
Theorem scanner_sets_no_name : forall src res gs,
  scan_snapshot false src = Ok res -> snap res = Some gs -> no_names gs = true.
Proof.
  intros src res gs H Hs.
  destruct (snapshot_goroutines _ _ _ H) as (gs0 & Hg & E). rewrite E in Hs.
  destruct gs0 as [|g0 gs0']; [discriminate|]. injection Hs as <-. exact (good_no_names _ Hg).
Qed.

(* ... and so does the other hypothesis of C15_consistent *)
Theorem scanner_toolarge_not_ptr : forall src res gs,
  scan_snapshot false src = Ok res -> snap res = Some gs ->
  forall a, In a (all_scalars gs) -> IsOffsetTooLarge a = true -> IsPtr a = false.
Proof.
  intros src res gs H Hs.
  destruct (snapshot_goroutines _ _ _ H) as (gs0 & Hg & E). rewrite E in Hs.
  destruct gs0 as [|g0 gs0']; [discriminate|]. injection Hs as <-. exact (good_toolarge _ Hg).
Qed.

(* IsPtr is the pointer heuristic on the value, for every scalar of the main stacks *)
Theorem scanner_isptr_heuristic : forall src res gs,
  scan_snapshot false src = Ok res -> snap res = Some gs ->
  forall a, In a (all_scalars gs) -> IsOffsetTooLarge a = false -> IsPtr a = is_ptr_value (Value a).
Proof.
  intros src res gs H Hs.
  destruct (snapshot_goroutines _ _ _ H) as (gs0 & Hg & E). rewrite E in Hs.
  destruct gs0 as [|g0 gs0']; [discriminate|]. injection Hs as <-. exact (good_isptr _ Hg).
Qed.

(* ------------------------------------------------------------------ *)
(* 8. C06 without a premise                                             *)
(* ------------------------------------------------------------------ *)

Theorem scans_wf_holds : scans_wf.
Proof. intros content res gs H Hs. exact (scan_snapshot_wf true _ res H gs Hs). Qed.

Theorem pipeline_functional_unconditional : forall sh,
  (forall k l, Permutation (sh k l) l) ->
  forall o content, pp_run_sh sh o content = pp_run o content.
Proof. intros sh Hsh. exact (pipeline_functional sh Hsh scans_wf_holds). Qed.
