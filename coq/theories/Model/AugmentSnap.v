(* Model/AugmentSnap.v — the snapshot-level driver of the source analysis:
   Snapshot.augment (stack/context.go:239), cacheAST.augmentGoroutine
   (stack/source.go:34) and cacheAST.loadFile (stack/source.go:60).

   Model/Augment.v renders the words of ONE call given the parameter type
   names and Model/Source.v selects the declaration for ONE (line, frame name)
   in ONE parsed file; this file is what calls them: which calls are looked
   at, which file is loaded for a call, what is done when the file is missing,
   is not a Go file, cannot be read or does not parse, which (line, name) is
   handed to getFuncAST, which field of the call is written, and what becomes
   of the errors.

   The outside world is two oracles (Section variables):
     read_file : os.ReadFile(fileName);            None = an error
     parse     : parser.ParseFile(fset, fileName, src, 0) on a fresh file set;
                 None = an error (the partial tree go/parser returns together
                 with an error is dropped by loadFile).  The tree is the
                 abstraction of Model/Source.v (what ast.Inspect shows to
                 getFuncAST); it depends on src only: the file name goes into
                 the file set and into error messages, not into the tree, and
                 a fresh file set always has base 1.
   strconv.FormatFloat is the pair of oracles of Model/Augment.v.

   Mirrored as is:
     - `len(call.Args.Values) == 0 -> continue` BEFORE anything is loaded;
     - loadFile: "" -> nil without touching the cache; a file name present in
       c.parsed (even as nil) -> nil; otherwise c.parsed[fileName] = nil is
       written FIRST, so that every failure is remembered and the file is
       never read again; non-".go" suffix, read error, parse error -> error;
     - the error of loadFile does not stop anything: the cache is consulted
       right after it (`if p := c.parsed[call.LocalSrcPath]; p != nil`);
     - getFuncAST(call.Func.Name, call.Line): an over-line error overwrites
       err and `continue`s; d == nil: nothing; otherwise augmentCall, which
       assigns call.Args.Processed and nothing else (stack/source.go:333,425);
     - err is the LAST error, per goroutine, and Snapshot.augment keeps the
       last non-nil one over the goroutines, in order; all goroutines of
       s.Goroutines are visited, only g.Stack (never g.CreatedBy);
     - the cache lives for one Snapshot.augment call (c.files is written and
       never read: not modelled).
   call.Line is a Go int.  `len(p.lineToByteOffset) <= l` is false for a
   negative l and the first call of the closure then evaluates
   p.lineToByteOffset[l]: a run-time panic (the root *ast.File is never nil).
   The traceback parser only produces lines >= 0 (Model/Types.v); the model
   keeps the panic.

   The second half of the file is the UNCACHED reference computation (no
   cache, no error bookkeeping, one call at a time) that
   Proofs/AugmentSnapProofs.v proves equal to the driver, and the eraser used
   to say "nothing but Processed changes".

   Definitions only. *)
From PP Require Import Base.Bytes Base.BytesX Base.Num Base.GoResult Model.Types Model.UI Model.Augment Model.Source.
From Coq Require Import String.

(* *parsedFile *)
Record parsed_file := mkParsed { pf_offsets : list N; pf_tree : node }.

(* the errors of loadFile and getFuncAST (the texts are not modelled) *)
Inductive aug_error :=
| ErrNonGo (file : bytes)            (* cannot load non-go file %q *)
| ErrRead (file : bytes)             (* the error of os.ReadFile *)
| ErrParse (file : bytes)            (* failed to parse %w *)
| ErrOverLine (l : Z) (count : nat). (* line %d is over line count of %d *)

(* c.parsed : map[string]*parsedFile; newest binding first.  None = no key,
   Some None = the key is bound to nil *)
Definition cache := list (bytes * option parsed_file).

Fixpoint cache_find (c : cache) (k : bytes) : option (option parsed_file) :=
  match c with
  | [] => None
  | (k', v) :: c' => if beq k' k then Some v else cache_find c' k
  end.
Definition cache_set (c : cache) (k : bytes) (v : option parsed_file) : cache := (k, v) :: c.
(* c.parsed[k] as a pointer: nil for a missing key *)
Definition cache_get (c : cache) (k : bytes) : option parsed_file :=
  match cache_find c k with Some (Some p) => Some p | _ => None end.

Definition GO_SUFFIX : bytes := s2b ".go".

(* call.Args.Processed = pr *)
Definition set_processed (c : Call) (pr : list bytes) : Call :=
  mkCall (CFunc c) (mkArgs (Values (CArgs c)) pr (Elided (CArgs c)))
         (RemoteSrcPath c) (Line c) (SrcName c) (DirSrc c) (LocalSrcPath c) (RelSrcPath c)
         (CImportPath c) (CLocation c).

(* err = err1 when err1 != nil *)
Definition upd_err (err e1 : option aug_error) : option aug_error :=
  match e1 with Some _ => e1 | None => err end.

Section AugmentSnap.
  Variable fmt_float32 : N -> bytes.              (* as in Model/Augment.v *)
  Variable fmt_float64 : N -> bytes.
  Variable read_file : bytes -> option bytes.     (* ORACLE os.ReadFile; None = error *)
  Variable parse : bytes -> option node.          (* ORACLE go/parser; None = syntax error *)

  (* ---- cacheAST.loadFile ---- *)
  Definition load_file (c : cache) (fileName : bytes) : cache * option aug_error :=
    match fileName with
    | [] => (c, None)
    | _ :: _ =>
        match cache_find c fileName with
        | Some _ => (c, None)
        | None =>
            let c0 := cache_set c fileName None in
            if negb (has_suffix fileName GO_SUFFIX) then (c0, Some (ErrNonGo fileName))
            else
              match read_file fileName with
              | None => (c0, Some (ErrRead fileName))
              | Some src =>
                  match parse src with
                  | None => (c0, Some (ErrParse fileName))
                  | Some tree => (cache_set c0 fileName (Some (mkParsed (line_offsets src) tree)), None)
                  end
              end
        end
    end.

  (* ---- one iteration of the loop of augmentGoroutine ---- *)
  Definition augment_step (c : cache) (err : option aug_error) (call : Call)
    : GoResult (cache * option aug_error * Call) :=
    match Values (CArgs call) with
    | [] => Ok (c, err, call)                                 (* continue *)
    | _ :: _ =>
        let '(c1, e1) := load_file c (LocalSrcPath call) in
        let err1 := upd_err err e1 in
        match cache_get c1 (LocalSrcPath call) with
        | None => Ok (c1, err1, call)
        | Some p =>
            if (Line call <? 0)%Z then Panic "index out of range"
            else
              r <- source_types (pf_offsets p) (pf_tree p) (Z.to_nat (Line call)) (FName (CFunc call)) ;;
              match r with
              | SrcErr => Ok (c1, Some (ErrOverLine (Line call) (List.length (pf_offsets p) - 1)), call)
              | SrcNone => Ok (c1, err1, call)
              | SrcTypes _ _ types ell =>
                  pr <- augment_call fmt_float32 fmt_float64 types ell (CArgs call) ;;
                  Ok (c1, err1, set_processed call pr)
              end
        end
    end.

  Fixpoint augment_calls (c : cache) (err : option aug_error) (calls : list Call)
    : GoResult (cache * option aug_error * list Call) :=
    match calls with
    | [] => Ok (c, err, [])
    | call :: rest =>
        r1 <- augment_step c err call ;;
        let '(c1, err1, call') := r1 in
        r2 <- augment_calls c1 err1 rest ;;
        let '(c2, err2, rest') := r2 in
        Ok (c2, err2, call' :: rest')
    end.

  (* ---- cacheAST.augmentGoroutine: `var err error`, the loop, `return err` ---- *)
  Definition augment_goroutine (c : cache) (g : Goroutine) : GoResult (cache * option aug_error * Goroutine) :=
    r <- augment_calls c None (Calls (SStack (GSig g))) ;;
    let '(c1, err, calls) := r in
    Ok (c1, err, set_stack g (mkStack calls (SElided (SStack (GSig g))))).

  (* ---- Snapshot.augment: one cache, every goroutine in order ---- *)
  Fixpoint augment_goroutines (c : cache) (err : option aug_error) (gs : list Goroutine)
    : GoResult (cache * option aug_error * list Goroutine) :=
    match gs with
    | [] => Ok (c, err, [])
    | g :: rest =>
        r1 <- augment_goroutine c g ;;
        let '(c1, e1, g') := r1 in
        r2 <- augment_goroutines c1 (upd_err err e1) rest ;;
        let '(c2, err2, rest') := r2 in
        Ok (c2, err2, g' :: rest')
    end.

  (* the goroutines after the call and the returned error (which the only
     caller, context.go:207, discards) *)
  Definition augment_snapshot (gs : list Goroutine) : GoResult (list Goroutine * option aug_error) :=
    r <- augment_goroutines [] None gs ;;
    let '(_, err, gs') := r in Ok (gs', err).

  (* ================================================================== *)
  (* the uncached reference *)

  (* what loadFile leaves in c.parsed[fileName] on a first load *)
  Definition load_uncached (fileName : bytes) : option parsed_file :=
    match fileName with
    | [] => None
    | _ :: _ =>
        if negb (has_suffix fileName GO_SUFFIX) then None
        else
          match read_file fileName with
          | None => None
          | Some src =>
              match parse src with
              | None => None
              | Some tree => Some (mkParsed (line_offsets src) tree)
              end
          end
    end.

  (* the file of a call is there and parses / is not usable *)
  Definition file_parses (fileName src : bytes) (tree : node) : Prop :=
    fileName <> [] /\ has_suffix fileName GO_SUFFIX = true /\
    read_file fileName = Some src /\ parse src = Some tree.
  Definition file_unusable (fileName : bytes) : Prop :=
    fileName = [] \/ has_suffix fileName GO_SUFFIX = false \/ read_file fileName = None \/
    exists src, read_file fileName = Some src /\ parse src = None.

  Definition augment_call_uncached (call : Call) : GoResult Call :=
    match Values (CArgs call) with
    | [] => Ok call
    | _ :: _ =>
        match load_uncached (LocalSrcPath call) with
        | None => Ok call
        | Some p =>
            if (Line call <? 0)%Z then Panic "index out of range"
            else
              r <- source_types (pf_offsets p) (pf_tree p) (Z.to_nat (Line call)) (FName (CFunc call)) ;;
              match r with
              | SrcErr => Ok call
              | SrcNone => Ok call
              | SrcTypes _ _ types ell =>
                  pr <- augment_call fmt_float32 fmt_float64 types ell (CArgs call) ;;
                  Ok (set_processed call pr)
              end
        end
    end.
End AugmentSnap.

Definition res_map {A B} (f : A -> B) (r : GoResult A) : GoResult B :=
  match r with Ok a => Ok (f a) | Panic m => Panic m end.

(* f on every element, left to right, stopping at the first panic *)
Fixpoint map_res {A B} (f : A -> GoResult B) (l : list A) : GoResult (list B) :=
  match l with
  | [] => Ok []
  | x :: l' => y <- f x ;; ys <- map_res f l' ;; Ok (y :: ys)
  end.

Definition augment_goroutine_uncached (f32 f64 : N -> bytes) (read_file : bytes -> option bytes)
           (parse : bytes -> option node) (g : Goroutine) : GoResult Goroutine :=
  calls <- map_res (augment_call_uncached f32 f64 read_file parse) (Calls (SStack (GSig g))) ;;
  Ok (set_stack g (mkStack calls (SElided (SStack (GSig g))))).

Definition augment_snapshot_uncached (f32 f64 : N -> bytes) (read_file : bytes -> option bytes)
           (parse : bytes -> option node) (gs : list Goroutine) : GoResult (list Goroutine) :=
  map_res (augment_goroutine_uncached f32 f64 read_file parse) gs.

(* ---- the eraser: Processed of the calls of the goroutine's stack ---- *)
Definition strip_call (c : Call) : Call := set_processed c [].
Definition strip_goroutine (g : Goroutine) : Goroutine :=
  set_stack g (mkStack (map strip_call (Calls (SStack (GSig g)))) (SElided (SStack (GSig g)))).
Definition strip_processed (gs : list Goroutine) : list Goroutine := map strip_goroutine gs.

(* call number ci of the stack of goroutine number gi *)
Definition call_at (gs : list Goroutine) (gi ci : nat) : option Call :=
  match nth_error gs gi with
  | Some g => nth_error (Calls (SStack (GSig g))) ci
  | None => None
  end.

(* every line of every stack call is a line number (what the traceback parser produces) *)
Definition lines_nonneg (gs : list Goroutine) : Prop :=
  forall gi ci c, call_at gs gi ci = Some c -> (0 <= Line c)%Z.
