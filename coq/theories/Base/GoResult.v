(* Base/GoResult.v — Go run-time panics are explicit: every index, slice or
   nil-dereference that the Go code performs is a partial operation here. *)
From PP Require Import Base.Bytes.
From Coq Require Import String.

Inductive GoResult (A : Type) : Type :=
| Ok (a : A)
| Panic (msg : string).
Arguments Ok {A} a.
Arguments Panic {A} msg.

Definition bind {A B} (r : GoResult A) (f : A -> GoResult B) : GoResult B :=
  match r with Ok a => f a | Panic m => Panic m end.
Notation "x <- r ;; k" := (bind r (fun x => k)) (at level 61, r at next level, right associativity).
Notation "' p <- r ;; k" := (bind r (fun p => k)) (at level 61, p pattern, r at next level, right associativity).

Definition is_ok {A} (r : GoResult A) : bool := match r with Ok _ => true | Panic _ => false end.

(* l[i] *)
Definition go_index {A} (l : list A) (i : nat) : GoResult A :=
  match nth_error l i with Some x => Ok x | None => Panic "index out of range" end.

(* l[len(l)-1] *)
Definition go_last {A} (l : list A) : GoResult A :=
  match last_opt l with Some x => Ok x | None => Panic "index out of range [-1]" end.

(* s[lo:hi] with integer (possibly negative) bounds, as the Go expression evaluates them *)
Definition go_slice (s : bytes) (lo hi : Z) : GoResult bytes :=
  if ((0 <=? lo) && (lo <=? hi) && (hi <=? Z.of_nat (List.length s)))%Z
  then Ok (firstn (Z.to_nat hi - Z.to_nat lo) (skipn (Z.to_nat lo) s))
  else Panic "slice bounds out of range".
