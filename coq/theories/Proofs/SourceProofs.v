(* Proofs/SourceProofs.v — getFuncAST / extractArgumentsType (Model/Source.v):
   what the walk selects on a well-positioned file, totality, shape of the
   type list, composition with augment_call. *)
From PP Require Import Base.Bytes Base.BytesX Base.Num Base.GoResult Model.Types Model.UI Model.Augment Model.Source Spec.Abi.
From PP Require Import Proofs.AugmentProofs.
From Coq Require Import String.

Local Open Scope N_scope.

(* ------------------------------------------------------------------ *)
(* induction over rose trees *)
Definition node_rect' (P : node -> Prop)
  (H : forall p k ch, Forall P ch -> P (Node p k ch)) : forall n, P n :=
  fix IH (n : node) : P n :=
    match n with
    | Node p k ch =>
        H p k ch ((fix go (l : list node) : Forall P l :=
                     match l with
                     | [] => Forall_nil P
                     | c :: l' => Forall_cons c (IH c) (go l')
                     end) ch)
    end.

(* ------------------------------------------------------------------ *)
(* unfolding of the nested fixpoints *)
Lemma visit_children_eq : forall off l s,
  (fix visit_children (l : list node) (s : wstate) : wstate :=
     match l with
     | [] => s
     | c :: l' => visit_children l' (visit off c s)
     end) l s = visit_list off l s.
Proof. induction l as [|c l IH]; intros s; simpl; [reflexivity|]. apply IH. Qed.

Lemma visit_eq : forall off p k ch st,
  visit off (Node p k ch) st =
  match w_d st with
  | Some _ => st
  | None =>
      if N.leb off p then mkW (w_last st) (w_last st)
      else visit_list off ch (match k with
                              | KFuncDecl fd => mkW None (Some (p, fd))
                              | KOther => st
                              end)
  end.
Proof.
  intros off p k ch st. simpl. destruct (w_d st); [reflexivity|].
  destruct (N.leb off p); [reflexivity|]. apply visit_children_eq.
Qed.

Lemma all_lt_eq : forall b p k ch, all_lt b (Node p k ch) = N.ltb p b && all_lt_list b ch.
Proof.
  intros. simpl. apply (f_equal (andb _)). induction ch as [|c l IH]; simpl; [reflexivity|]. now rewrite IH.
Qed.
Lemma no_funcdecl_eq : forall p k ch, no_funcdecl (Node p k ch) = negb (is_funcdecl k) && no_funcdecl_list ch.
Proof.
  intros. simpl. apply (f_equal (andb _)). induction ch as [|c l IH]; simpl; [reflexivity|]. now rewrite IH.
Qed.
Lemma exists_ge_eq : forall off p k ch, exists_ge off (Node p k ch) = N.leb off p || exists_ge_list off ch.
Proof.
  intros. simpl. apply (f_equal (orb _)). induction ch as [|c l IH]; simpl; [reflexivity|]. now rewrite IH.
Qed.

(* ------------------------------------------------------------------ *)
(* once d is set nothing changes *)
Lemma visit_done : forall off n st x, w_d st = Some x -> visit off n st = st.
Proof. intros off [p k ch] st x H. rewrite visit_eq, H. reflexivity. Qed.

Lemma visit_list_done : forall off l st x, w_d st = Some x -> visit_list off l st = st.
Proof.
  induction l as [|c l IH]; intros st x H; simpl; [reflexivity|].
  rewrite (visit_done off c st x H). eapply IH; eauto.
Qed.

(* a state with d = lastFunc is a fixed point for nodes at or after the offset *)
Lemma visit_list_all_ge : forall off l a,
  Forall (fun c => off <= node_pos c) l -> visit_list off l (mkW a a) = mkW a a.
Proof.
  induction l as [|[p k ch] l IH]; intros a H; cbn [visit_list]; [reflexivity|].
  inversion H as [|? ? Hc Hl]; subst. simpl in Hc.
  rewrite visit_eq. destruct a as [x|]; simpl.
  - apply (visit_list_done off l _ x). reflexivity.
  - apply N.leb_le in Hc. rewrite Hc. simpl. apply IH; assumption.
Qed.

(* ------------------------------------------------------------------ *)
(* subtrees without FuncDecl: the only possible effect is d := lastFunc *)
Lemma visit_nofd : forall off n st,
  no_funcdecl n = true -> w_d st = None ->
  visit off n st = if exists_ge off n then mkW (w_last st) (w_last st) else st.
Proof.
  intros off n. induction n as [p k ch IH] using node_rect'.
  intros st Hn Hd. rewrite no_funcdecl_eq in Hn. apply andb_true_iff in Hn. destruct Hn as [Hk Hch].
  rewrite visit_eq, Hd, exists_ge_eq.
  destruct (N.leb off p); [reflexivity|]. simpl orb.
  destruct k as [fd|]; [discriminate|]. clear Hk.
  revert st Hd Hch. induction ch as [|c l IHl]; intros st Hd Hch; simpl; [reflexivity|].
  simpl in Hch. apply andb_true_iff in Hch. destruct Hch as [Hc Hl].
  inversion IH as [|? ? IHc IHrest]; subst.
  rewrite (IHc st Hc Hd).
  destruct (exists_ge off c); simpl.
  - destruct (w_last st) as [x|] eqn:E.
    + apply (visit_list_done off l _ x). reflexivity.
    + assert (Hst : mkW None None = st) by (destruct st; simpl in *; subst; reflexivity).
      rewrite Hst. rewrite (IHl IHrest st Hd Hl).
      destruct (exists_ge_list off l); [rewrite E|]; congruence.
  - apply IHl; assumption.
Qed.

Lemma visit_list_nofd : forall off l st,
  no_funcdecl_list l = true -> w_d st = None ->
  visit_list off l st = if exists_ge_list off l then mkW (w_last st) (w_last st) else st.
Proof.
  intros off l. induction l as [|c l IHl]; intros st Hch Hd; simpl; [reflexivity|].
  simpl in Hch. apply andb_true_iff in Hch. destruct Hch as [Hc Hl].
  rewrite (visit_nofd off c st Hc Hd).
  destruct (exists_ge off c); simpl.
  - destruct (w_last st) as [x|] eqn:E.
    + apply (visit_list_done off l _ x). reflexivity.
    + assert (Hst : mkW None None = st) by (destruct st; simpl in *; subst; reflexivity).
      rewrite Hst. rewrite (IHl st Hl Hd).
      destruct (exists_ge_list off l); [rewrite E|]; congruence.
  - apply IHl; assumption.
Qed.

(* ------------------------------------------------------------------ *)
(* positions of well-positioned declaration lists *)
Lemma decls_ok_ge : forall cs lo, decls_ok lo cs = true -> Forall (fun c => lo <= node_pos c) cs.
Proof.
  induction cs as [|c cs IH]; intros lo H; constructor.
  - simpl in H. repeat (apply andb_true_iff in H; destruct H as [H ?]). apply N.leb_le. assumption.
  - simpl in H. repeat (apply andb_true_iff in H; destruct H as [H ?]).
    apply N.leb_le in H. specialize (IH _ H0).
    eapply Forall_impl; [|exact IH]. simpl. intros a Ha. lia.
Qed.

Lemma all_lt_exists_ge : forall off b n, all_lt b n = true -> exists_ge off n = true -> off < b.
Proof.
  intros off b n. induction n as [p k ch IH] using node_rect'. intros Ha He.
  rewrite all_lt_eq in Ha. rewrite exists_ge_eq in He.
  apply andb_true_iff in Ha. destruct Ha as [Hp Hch]. apply N.ltb_lt in Hp.
  apply orb_true_iff in He. destruct He as [He|He].
  - apply N.leb_le in He. lia.
  - clear Hp. induction ch as [|c l IHl]; simpl in *; [discriminate|].
    apply andb_true_iff in Hch. destruct Hch as [Hc Hl].
    inversion IH as [|? ? IHc IHrest]; subst.
    apply orb_true_iff in He. destruct He as [He|He]; [apply IHc; assumption|apply IHl; assumption].
Qed.

Lemma lfb_all_ge : forall off cs acc,
  Forall (fun c => off <= node_pos c) cs -> last_func_before off cs acc = acc.
Proof.
  induction cs as [|[p k ch] cs IH]; intros acc H; simpl; [reflexivity|].
  inversion H as [|? ? Hc Hl]; subst. simpl in Hc.
  destruct k as [d|]; [|apply IH; assumption].
  assert (E : N.ltb p off = false) by (apply N.ltb_ge; assumption). rewrite E. apply IH; assumption.
Qed.

Lemma lfb_app : forall off a b acc,
  last_func_before off (a ++ b) acc = last_func_before off b (last_func_before off a acc).
Proof.
  induction a as [|[p k ch] a IH]; intros b acc; simpl; [reflexivity|].
  destruct k; apply IH.
Qed.

(* ------------------------------------------------------------------ *)
(* the walk over the declarations of a well-positioned file *)
Lemma decls_walk : forall off cs lo st,
  decls_ok lo cs = true -> w_d st = None ->
  visit_list off cs st =
  let lf := last_func_before off cs (w_last st) in
  if exists_ge_list off cs then mkW lf lf else mkW None lf.
Proof.
  intros off cs. induction cs as [|[p k ch] cs IH]; intros lo st Hok Hd.
  - simpl. destruct st; simpl in *; subst; reflexivity.
  - pose proof Hok as Hok0.
    simpl in Hok. repeat (apply andb_true_iff in Hok; destruct Hok as [Hok ?]).
    rename H into Hrest, H0 into Hnext, H1 into Hnf. simpl in Hnf.
    pose proof (decls_ok_ge _ _ Hrest) as Hge. simpl in Hge.
    cbv zeta. change (visit_list off (Node p k ch :: cs) st) with (visit_list off cs (visit off (Node p k ch) st)).
    rewrite visit_eq, Hd.
    change (exists_ge_list off (Node p k ch :: cs)) with (exists_ge off (Node p k ch) || exists_ge_list off cs).
    rewrite exists_ge_eq.
    destruct (N.leb off p) eqn:Ep.
    + (* the declaration starts at or after the offset *)
      apply N.leb_le in Ep. simpl orb. cbv iota.
      assert (Hall : Forall (fun c => off <= node_pos c) cs).
      { eapply Forall_impl; [|exact Hge]. simpl. intros a Ha. lia. }
      rewrite visit_list_all_ge by assumption.
      rewrite lfb_all_ge; [reflexivity|]. constructor; [simpl; lia|assumption].
    + apply N.leb_gt in Ep. simpl orb.
      set (st' := match k with KFuncDecl fd => mkW None (Some (p, fd)) | KOther => st end).
      assert (Hd' : w_d st' = None) by (destruct k; [reflexivity|assumption]).
      assert (Hl' : last_func_before off (Node p k ch :: cs) (w_last st) = last_func_before off cs (w_last st')).
      { simpl. destruct k; [|reflexivity]. simpl. apply N.ltb_lt in Ep. rewrite Ep. reflexivity. }
      rewrite Hl'. rewrite (visit_list_nofd off ch st' Hnf Hd').
      destruct (exists_ge_list off ch) eqn:Ech.
      * (* a node of this declaration is at or after the offset: the rest lies after it *)
        simpl orb. cbv iota.
        assert (Hall : Forall (fun c => off <= node_pos c) cs).
        { destruct cs as [|c' cs']; [constructor|].
          assert (Hlt : off < node_pos c').
          { apply (all_lt_exists_ge off (node_pos c') (Node p k ch)); [exact Hnext|].
            rewrite exists_ge_eq, Ech. apply orb_true_r. }
          simpl in Hrest. repeat (apply andb_true_iff in Hrest; destruct Hrest as [Hrest ?]).
          constructor; [lia|]. pose proof (decls_ok_ge _ _ H) as Hge'.
          eapply Forall_impl; [|exact Hge']. simpl. intros a Ha. lia. }
        rewrite visit_list_all_ge by assumption.
        rewrite lfb_all_ge by assumption. reflexivity.
      * simpl orb. apply (IH p st' Hrest Hd').
Qed.

(* getFuncAST on a well-positioned file computes select_spec *)
Lemma get_func_ast_spec : forall off root,
  wf_file root = true -> get_func_ast_at off root = select_spec off root.
Proof.
  intros off [p0 k cs] Hwf. unfold get_func_ast_at, select_spec, wf_file in *.
  apply andb_true_iff in Hwf. destruct Hwf as [Hk Hok].
  destruct k; [discriminate|]. clear Hk.
  rewrite visit_eq, exists_ge_eq. simpl w_d. simpl node_children.
  destruct (N.leb off p0) eqn:Ep.
  - simpl. apply N.leb_le in Ep.
    rewrite lfb_all_ge; [reflexivity|].
    eapply Forall_impl; [|exact (decls_ok_ge _ _ Hok)]. simpl. intros a Ha. lia.
  - simpl orb. rewrite (decls_walk off cs p0 w0 Hok eq_refl). simpl w_last. cbv zeta.
    destruct (exists_ge_list off cs); simpl; [|reflexivity].
    destruct (last_func_before off cs None) as [[q d]|]; reflexivity.
Qed.

(* ------------------------------------------------------------------ *)
(* consequences *)
Lemma decls_ok_app : forall a lo x b,
  decls_ok lo (a ++ x :: b) = true -> decls_ok (node_pos x) b = true /\ Forall (fun c => node_pos x <= node_pos c) b.
Proof.
  induction a as [|c a IH]; intros lo x b H.
  - simpl in H. repeat (apply andb_true_iff in H; destruct H as [H ?]).
    split; [assumption|apply decls_ok_ge; assumption].
  - change ((c :: a) ++ x :: b) with (c :: (a ++ x :: b)) in H.
    simpl in H. repeat (apply andb_true_iff in H; destruct H as [H ?]). eapply IH; eassumption.
Qed.

(* inside declaration k, up to the start of the next declaration *)
Lemma select_enclosing : forall off p0 pre pk fd ch nxt post,
  wf_file (Node p0 KOther (pre ++ Node pk (KFuncDecl fd) ch :: nxt :: post)) = true ->
  pk < off -> off <= node_pos nxt ->
  get_func_ast_at off (Node p0 KOther (pre ++ Node pk (KFuncDecl fd) ch :: nxt :: post)) = AstFound pk fd.
Proof.
  intros off p0 pre pk fd ch nxt post Hwf Hlt Hle.
  rewrite get_func_ast_spec by assumption. unfold select_spec. simpl node_children.
  unfold wf_file in Hwf. simpl in Hwf.
  destruct (decls_ok_app _ _ _ _ Hwf) as [Hk _].
  assert (Hge : Forall (fun c => off <= node_pos c) (nxt :: post)).
  { constructor; [assumption|].
    simpl in Hk. repeat (apply andb_true_iff in Hk; destruct Hk as [Hk ?]).
    match goal with H : decls_ok (node_pos nxt) post = true |- _ => pose proof (decls_ok_ge _ _ H) as Hp end.
    eapply Forall_impl; [|exact Hp]. simpl. intros a Ha. lia. }
  assert (He : exists_ge off (Node p0 KOther (pre ++ Node pk (KFuncDecl fd) ch :: nxt :: post)) = true).
  { rewrite exists_ge_eq. apply orb_true_iff. right.
    clear - Hle. induction pre as [|c pre IH]; simpl.
    - destruct nxt as [pn kn chn]. simpl in Hle. rewrite (exists_ge_eq off pn kn chn).
      apply N.leb_le in Hle. rewrite Hle. simpl. apply orb_true_r.
    - rewrite IH. apply orb_true_r. }
  rewrite He. rewrite lfb_app.
  change (last_func_before off (Node pk (KFuncDecl fd) ch :: nxt :: post) (last_func_before off pre None))
    with (last_func_before off (nxt :: post) (if N.ltb pk off then Some (pk, fd) else last_func_before off pre None)).
  apply N.ltb_lt in Hlt. rewrite Hlt. rewrite lfb_all_ge by assumption. reflexivity.
Qed.

Lemma decls_ok_cons : forall lo c cs,
  decls_ok lo (c :: cs) = true ->
  lo <= node_pos c /\ no_funcdecl_list (node_children c) = true /\
  match cs with [] => True | c' :: _ => all_lt (node_pos c') c = true end /\
  decls_ok (node_pos c) cs = true.
Proof.
  intros lo c cs H. simpl in H.
  destruct (andb_prop _ _ H) as [H123 H4]. destruct (andb_prop _ _ H123) as [H12 H3].
  destruct (andb_prop _ _ H12) as [H1 H2]. apply N.leb_le in H1.
  repeat split; try assumption. destruct cs; [exact I|assumption].
Qed.

Lemma decls_ok_last_ge : forall pre lo x,
  decls_ok lo (pre ++ [x]) = true -> Forall (fun c => node_pos c <= node_pos x) pre /\ lo <= node_pos x.
Proof.
  induction pre as [|c pre IH]; intros lo x H.
  - split; [constructor|]. apply decls_ok_cons in H. tauto.
  - change ((c :: pre) ++ [x]) with (c :: (pre ++ [x])) in H.
    apply decls_ok_cons in H. destruct H as [H1 [_ [_ H4]]].
    destruct (IH _ _ H4) as [F L]. split; [constructor; assumption|lia].
Qed.

(* the declarations before one that starts before the offset lie before the offset *)
Lemma prefix_no_ge : forall off pre lo x,
  decls_ok lo (pre ++ [x]) = true -> node_pos x < off -> exists_ge_list off pre = false.
Proof.
  intros off. induction pre as [|c pre IH]; intros lo x H Hx; [reflexivity|].
  change ((c :: pre) ++ [x]) with (c :: (pre ++ [x])) in H.
  apply decls_ok_cons in H. destruct H as [_ [_ [H3 H4]]].
  simpl. rewrite (IH _ _ H4 Hx). rewrite orb_false_r.
  destruct (exists_ge off c) eqn:E; [|reflexivity]. exfalso.
  destruct (decls_ok_last_ge _ _ _ H4) as [F _].
  destruct pre as [|c' pre'].
  - simpl in H3. pose proof (all_lt_exists_ge off _ _ H3 E). lia.
  - simpl in H3. pose proof (all_lt_exists_ge off _ _ H3 E) as Hlt'.
    inversion F; subst. lia.
Qed.

(* the last declaration: selected while one of its nodes is at or after the offset *)
Lemma select_last : forall off p0 pre pk fd ch,
  wf_file (Node p0 KOther (pre ++ [Node pk (KFuncDecl fd) ch])) = true ->
  pk < off ->
  get_func_ast_at off (Node p0 KOther (pre ++ [Node pk (KFuncDecl fd) ch])) =
  if exists_ge_list off ch then AstFound pk fd else AstNone.
Proof.
  intros off p0 pre pk fd ch Hwf Hlt.
  rewrite get_func_ast_spec by assumption. unfold select_spec. simpl node_children.
  unfold wf_file in Hwf. simpl in Hwf.
  pose proof (prefix_no_ge off _ _ _ Hwf Hlt) as Hpre.
  destruct (decls_ok_last_ge _ _ _ Hwf) as [_ Hp0]. simpl in Hp0.
  assert (E0 : N.leb off p0 = false) by (apply N.leb_gt; lia).
  rewrite exists_ge_eq, E0. simpl orb.
  assert (He : exists_ge_list off (pre ++ [Node pk (KFuncDecl fd) ch]) = exists_ge_list off ch).
  { clear - Hpre Hlt. induction pre as [|c pre IH]; cbn [app exists_ge_list] in *.
    - rewrite exists_ge_eq. assert (E : N.leb off pk = false) by (apply N.leb_gt; assumption).
      rewrite E. simpl. apply orb_false_r.
    - apply orb_false_iff in Hpre. destruct Hpre as [Hc Hp]. rewrite Hc. simpl. apply IH; assumption. }
  rewrite He. rewrite lfb_app.
  change (last_func_before off [Node pk (KFuncDecl fd) ch] (last_func_before off pre None))
    with (if N.ltb pk off then Some (pk, fd) else last_func_before off pre None).
  apply N.ltb_lt in Hlt. rewrite Hlt.
  destruct (exists_ge_list off ch); reflexivity.
Qed.

(* all FuncDecl nodes of the tree, in walk order *)
Fixpoint funcdecls (n : node) : list (N * funcdecl) :=
  match n with
  | Node p k ch =>
      (match k with KFuncDecl d => [(p, d)] | KOther => [] end) ++
      (fix go (l : list node) : list (N * funcdecl) := match l with [] => [] | c :: l' => funcdecls c ++ go l' end) ch
  end.
Fixpoint funcdecls_list (l : list node) : list (N * funcdecl) :=
  match l with [] => [] | c :: l' => funcdecls c ++ funcdecls_list l' end.
Lemma funcdecls_eq : forall p k ch,
  funcdecls (Node p k ch) = (match k with KFuncDecl d => [(p, d)] | KOther => [] end) ++ funcdecls_list ch.
Proof.
  intros. simpl. apply (f_equal (app _)). induction ch as [|c l IH]; simpl; [reflexivity|]. now rewrite IH.
Qed.

(* whatever is selected is a FuncDecl node of the tree that starts before the offset *)
Lemma visit_member : forall off n st,
  let st' := visit off n st in
  (w_d st' = w_d st \/ w_d st' = w_last st \/ exists x, w_d st' = Some x /\ In x (funcdecls n) /\ fst x < off) /\
  (w_last st' = w_last st \/ exists x, w_last st' = Some x /\ In x (funcdecls n) /\ fst x < off).
Proof.
  intros off n. induction n as [p k ch IH] using node_rect'. intros st. cbv zeta.
  rewrite visit_eq. destruct (w_d st) eqn:Hd.
  { split; [left; congruence|left; reflexivity]. }
  destruct (N.leb off p) eqn:Ep.
  { simpl. split; [right; left; reflexivity|left; reflexivity]. }
  apply N.leb_gt in Ep.
  rewrite funcdecls_eq.
  set (st0 := match k with KFuncDecl fd => mkW None (Some (p, fd)) | KOther => st end).
  assert (H0 : w_d st0 = None /\
               (w_last st0 = w_last st \/ exists x, w_last st0 = Some x /\
                  In x (match k with KFuncDecl d => [(p, d)] | KOther => [] end) /\ fst x < off)).
  { destruct k as [fd|]; simpl; split; auto.
    right. exists (p, fd). simpl. auto. }
  destruct H0 as [Hd0 Hl0]. clearbody st0.
  set (own := match k with KFuncDecl d => [(p, d)] | KOther => [] end) in *. clearbody own.
  (* generalise over the children *)
  assert (G : forall l s, Forall (fun n => forall st,
              let st' := visit off n st in
              (w_d st' = w_d st \/ w_d st' = w_last st \/ exists x, w_d st' = Some x /\ In x (funcdecls n) /\ fst x < off) /\
              (w_last st' = w_last st \/ exists x, w_last st' = Some x /\ In x (funcdecls n) /\ fst x < off)) l ->
            let s' := visit_list off l s in
            (w_d s' = w_d s \/ w_d s' = w_last s \/ exists x, w_d s' = Some x /\ In x (funcdecls_list l) /\ fst x < off) /\
            (w_last s' = w_last s \/ exists x, w_last s' = Some x /\ In x (funcdecls_list l) /\ fst x < off)).
  { clear. induction l as [|c l IHl]; intros s HF; cbv zeta; simpl.
    - split; left; reflexivity.
    - inversion HF as [|? ? Hc Hl]; subst.
      specialize (Hc s). cbv zeta in Hc. destruct Hc as [Hcd Hcl].
      specialize (IHl (visit off c s) Hl). cbv zeta in IHl. destruct IHl as [Hld Hll].
      split.
      + destruct Hld as [Hld|[Hld|[x [Hx [Hin Hlt]]]]].
        * rewrite Hld. destruct Hcd as [Hcd|[Hcd|[x [Hx [Hin Hlt]]]]]; auto.
          right. right. exists x. repeat split; auto. apply in_or_app. auto.
        * rewrite Hld. destruct Hcl as [Hcl|[x [Hx [Hin Hlt]]]]; auto.
          right. right. exists x. repeat split; auto. apply in_or_app. auto.
        * right. right. exists x. repeat split; auto. apply in_or_app. auto.
      + destruct Hll as [Hll|[x [Hx [Hin Hlt]]]].
        * rewrite Hll. destruct Hcl as [Hcl|[x [Hx [Hin Hlt]]]]; auto.
          right. exists x. repeat split; auto. apply in_or_app. auto.
        * right. exists x. repeat split; auto. apply in_or_app. auto. }
  specialize (G ch st0 IH). cbv zeta in G. destruct G as [Gd Gl].
  split.
  - destruct Gd as [Gd|[Gd|[x [Hx [Hin Hlt]]]]].
    + left. congruence.
    + rewrite Gd. destruct Hl0 as [Hl0|[x [Hx [Hin Hlt]]]]; auto.
      right. right. exists x. repeat split; auto. apply in_or_app. auto.
    + right. right. exists x. repeat split; auto. apply in_or_app. auto.
  - destruct Gl as [Gl|[x [Hx [Hin Hlt]]]].
    + rewrite Gl. destruct Hl0 as [Hl0|[x [Hx [Hin Hlt]]]]; auto.
      right. exists x. repeat split; auto. apply in_or_app. auto.
    + right. exists x. repeat split; auto. apply in_or_app. auto.
Qed.

Lemma selected_is_member : forall off root p d,
  get_func_ast_at off root = AstFound p d -> In (p, d) (funcdecls root) /\ p < off.
Proof.
  intros off root p d H. unfold get_func_ast_at in H.
  pose proof (visit_member off root w0) as M. cbv zeta in M. destruct M as [Md _].
  destruct (w_d (visit off root w0)) as [[q e]|] eqn:E; [|discriminate].
  inversion H; subst. simpl in Md.
  destruct Md as [Md|[Md|[x [Hx [Hin Hlt]]]]]; try discriminate.
  inversion Hx; subst. auto.
Qed.

(* no FuncDecl starts before the offset: nothing is selected (no hypothesis on the tree) *)
Lemma select_none_before_first : forall off root,
  Forall (fun x => off <= fst x) (funcdecls root) -> get_func_ast_at off root = AstNone.
Proof.
  intros off root H. destruct (get_func_ast_at off root) as [| |p d] eqn:E; [|reflexivity|].
  - unfold get_func_ast_at in E. destruct (w_d (visit off root w0)) as [[? ?]|]; discriminate.
  - apply selected_is_member in E. destruct E as [Hin Hlt].
    rewrite Forall_forall in H. specialize (H _ Hin). simpl in H. lia.
Qed.

(* ------------------------------------------------------------------ *)
(* lineToByteOffsets *)
Lemma line_offsets_from_length : forall src a,
  List.length (line_offsets_from src a) = count_byte src LF.
Proof.
  induction src as [|c s IH]; intros a; simpl; [reflexivity|].
  destruct (N.eqb c LF); simpl; rewrite IH; reflexivity.
Qed.

Lemma line_offsets_length : forall src,
  List.length (line_offsets src) = (2 + count_byte src LF)%nat.
Proof. intros. unfold line_offsets. simpl. rewrite line_offsets_from_length. reflexivity. Qed.

(* every offset beyond the two leading zeros follows a LF *)
Lemma line_offsets_from_lf : forall src a o,
  In o (line_offsets_from src a) ->
  a < o /\ o <= a + N.of_nat (List.length src) /\ nth_error src (N.to_nat (o - a) - 1) = Some LF.
Proof.
  induction src as [|c s IH]; intros a o H; simpl in H; [contradiction|].
  assert (R : forall o, In o (line_offsets_from s (a + 1)) ->
              a < o /\ o <= a + N.of_nat (List.length (c :: s)) /\ nth_error (c :: s) (N.to_nat (o - a) - 1) = Some LF).
  { intros o' Ho. destruct (IH _ _ Ho) as [H1 [H2 H3]].
    split; [lia|]. split; [simpl List.length; lia|].
    replace (N.to_nat (o' - a) - 1)%nat with (S (N.to_nat (o' - (a + 1)) - 1)) by lia. exact H3. }
  destruct (N.eqb c LF) eqn:E.
  - destruct H as [H|H]; [|apply R; assumption].
    subst o. apply N.eqb_eq in E. subst c.
    split; [lia|]. split; [simpl List.length; lia|].
    replace (N.to_nat (a + 1 - a) - 1)%nat with 0%nat by lia. reflexivity.
  - apply R; assumption.
Qed.

Lemma line_offsets_lf : forall src k off,
  nth_error (line_offsets src) (S (S k)) = Some off ->
  0 < off /\ off <= N.of_nat (List.length src) /\ nth_error src (N.to_nat off - 1) = Some LF.
Proof.
  intros src k off H. unfold line_offsets in H. simpl in H.
  apply nth_error_In in H. destruct (line_offsets_from_lf _ _ _ H) as [H1 [H2 H3]].
  rewrite N.sub_0_r in H3. split; [assumption|]. split; [lia|assumption].
Qed.

(* Pos = byte offset + 1 is compared with a byte offset: the two comparisons
   differ only for a node starting ON the line feed that precedes the line *)
Lemma pos_off_by_one_harmless : forall src l off b c,
  nth_error (line_offsets src) l = Some off ->
  nth_error src (N.to_nat b) = Some c -> c <> LF ->
  N.leb off (b + 1) = N.leb off b.
Proof.
  intros src l off b c Hoff Hb Hc.
  destruct l as [|[|k]].
  - simpl in Hoff. inversion Hoff; subst.
    transitivity true; [apply N.leb_le; lia|symmetry; apply N.leb_le; lia].
  - simpl in Hoff. inversion Hoff; subst.
    transitivity true; [apply N.leb_le; lia|symmetry; apply N.leb_le; lia].
  - destruct (line_offsets_lf _ _ _ Hoff) as [H1 [H2 H3]].
    destruct (N.eq_dec off (b + 1)) as [E|E].
    + subst off. replace (N.to_nat (b + 1) - 1)%nat with (N.to_nat b) in H3 by lia. congruence.
    + destruct (N.leb off (b + 1)) eqn:E1; destruct (N.leb off b) eqn:E2; try reflexivity.
      * apply N.leb_le in E1. apply N.leb_gt in E2. lia.
      * apply N.leb_gt in E1. apply N.leb_le in E2. lia.
Qed.

(* ------------------------------------------------------------------ *)
(* extractArgumentsType *)
Definition recv_wf (d : funcdecl) : bool :=
  match fd_recv d with None => true | Some [_] => true | Some _ => false end.

(* the fields the loop ranges over *)
Definition arg_fields (d : funcdecl) : list field :=
  match fd_recv d with
  | Some [r] => if is_star (f_type r) then [r] else []
  | _ => []
  end ++ fd_params d.

Definition field_types (f : field) : list bytes := repeat (fst (field_to_type (f_type f))) (mult f).

(* a receiver list without exactly one field: nothing (commit 4cb43b4; it was the explicit panic) *)
Lemma extract_bad_receiver : forall d, recv_wf d = false -> extract_arguments_type d = ([], false).
Proof.
  intros d. unfold extract_arguments_type, recv_fields, recv_wf.
  destruct (fd_recv d) as [[|r [|r' l]]|]; try discriminate; reflexivity.
Qed.

Lemma last_opt_cons_some : forall {A} (g : A) fs, exists x, last_opt (g :: fs) = Some x.
Proof.
  intros A g fs. revert g. induction fs as [|h fs IH]; intros g; [exists g; reflexivity|].
  destruct (IH h) as [x Hx]. exists x. exact Hx.
Qed.

Lemma args_loop_spec : forall fs types ell,
  args_loop fs types ell =
  (types ++ flat_map field_types fs,
   match last_opt fs with Some f => snd (field_to_type (f_type f)) | None => ell end).
Proof.
  induction fs as [|f fs IH]; intros types ell.
  - simpl. rewrite app_nil_r. reflexivity.
  - cbn [args_loop]. destruct (field_to_type (f_type f)) as [t e] eqn:E. rewrite IH.
    cbn [flat_map]. change (field_types f) with (repeat (fst (field_to_type (f_type f))) (mult f)).
    rewrite E. cbn [fst]. rewrite <- app_assoc. f_equal.
    destruct fs as [|g fs'].
    + simpl. rewrite E. reflexivity.
    + destruct (last_opt_cons_some g fs') as [x Hx].
      change (last_opt (f :: g :: fs')) with (last_opt (g :: fs')). rewrite Hx. reflexivity.
Qed.

Lemma field_to_type_ellipsis : forall t, snd (field_to_type t) = is_ellipsis t.
Proof. intros t. destruct t as [| | |[l|] e| | | | | | | |]; reflexivity. Qed.

Lemma extract_spec : forall d,
  recv_wf d = true ->
  extract_arguments_type d =
  (flat_map field_types (arg_fields d),
   match last_opt (arg_fields d) with Some f => is_ellipsis (f_type f) | None => false end).
Proof.
  intros d H. unfold extract_arguments_type, recv_fields, arg_fields, recv_wf in *.
  assert (G : forall fs, args_loop fs [] false =
                         (flat_map field_types fs,
                          match last_opt fs with Some f => is_ellipsis (f_type f) | None => false end)).
  { intros fs. rewrite args_loop_spec. simpl app. f_equal.
    destruct (last_opt fs); [apply field_to_type_ellipsis|reflexivity]. }
  destruct (fd_recv d) as [[|r [|r' l]]|]; try discriminate; apply G.
Qed.

Lemma mult_pos : forall f, (1 <= mult f)%nat.
Proof. intros [n t]. unfold mult. simpl. destruct n; lia. Qed.

Lemma flat_map_field_types_length : forall fs,
  List.length (flat_map field_types fs) = list_sum (map mult fs).
Proof.
  induction fs as [|f fs IH]; simpl; [reflexivity|].
  rewrite app_length, IH. unfold field_types. rewrite repeat_length. reflexivity.
Qed.

Lemma last_opt_app_nonempty : forall {A} (a b : list A), b <> [] -> last_opt (a ++ b) = last_opt b.
Proof.
  induction a as [|x a IH]; intros b Hb; simpl; [reflexivity|].
  destruct (a ++ b) eqn:E.
  - destruct a; destruct b; simpl in E; congruence.
  - rewrite <- E. apply IH. assumption.
Qed.

Lemma types_shape : forall d types ell,
  recv_wf d = true ->
  extract_arguments_type d = (types, ell) ->
  types = flat_map field_types (arg_fields d) /\
  List.length types = list_sum (map mult (arg_fields d)) /\
  ell = match last_opt (arg_fields d) with Some f => is_ellipsis (f_type f) | None => false end /\
  ell = match last_opt (fd_params d) with Some f => is_ellipsis (f_type f) | None => false end /\
  (ell = true -> types <> []) /\
  Forall (fun t => exists f, In f (arg_fields d) /\ t = fst (field_to_type (f_type f))) types.
Proof.
  intros d types ell Hwf H.
  rewrite (extract_spec d Hwf) in H. inversion H as [[Ht He]]. clear H.
  split; [reflexivity|]. split; [apply flat_map_field_types_length|]. split; [reflexivity|].
  split.
  { unfold arg_fields. destruct (fd_params d) as [|p ps] eqn:Ep.
    - rewrite app_nil_r. destruct (fd_recv d) as [[|r [|r' l]]|]; try reflexivity.
      destruct (f_type r) eqn:Er; simpl; try rewrite Er; reflexivity.
    - rewrite last_opt_app_nonempty by discriminate. reflexivity. }
  split.
  { destruct (arg_fields d) as [|f fs] eqn:Ef; simpl; [discriminate|].
    intros _ Hnil. apply app_eq_nil in Hnil. destruct Hnil as [Hnil _].
    unfold field_types in Hnil. pose proof (mult_pos f). destruct (mult f); [lia|discriminate]. }
  { apply Forall_forall. intros t Hin. apply in_flat_map in Hin. destruct Hin as [f [Hf Ht']].
    exists f. split; [assumption|]. unfold field_types in Ht'. apply repeat_spec in Ht'. assumption. }
Qed.

(* a variadic flag comes with at least one type, whatever the declaration *)
Lemma extract_variadic_nonempty : forall d types ell,
  extract_arguments_type d = (types, ell) -> ell = true -> types <> [].
Proof.
  intros d types ell H. destruct (recv_wf d) eqn:Hwf.
  - destruct (types_shape d types ell Hwf H) as [_ [_ [_ [_ [Hne _]]]]]. exact Hne.
  - rewrite (extract_bad_receiver d Hwf) in H. inversion H; subst. discriminate.
Qed.

(* ------------------------------------------------------------------ *)
(* composition with augment_call: the type list is computed from the declaration *)

(* the declared fields describe the parameter values ps: every field stands
   for mult-many values of one of the supported kinds, written with the type
   the kind is named by *)
Inductive params_match : list field -> list param -> Prop :=
| pm_nil : params_match [] []
| pm_cons : forall f ps1 fs ps2,
    List.length ps1 = mult f ->
    (forall p, In p ps1 -> field_to_type (f_type f) = (Abi.type_name p, false)) ->
    params_match fs ps2 ->
    params_match (f :: fs) (ps1 ++ ps2).

Lemma params_match_types : forall fs ps,
  params_match fs ps -> flat_map field_types fs = map Abi.type_name ps.
Proof.
  intros fs ps H. induction H as [|f ps1 fs ps2 Hlen Hty _ IH]; [reflexivity|].
  simpl. rewrite map_app, IH. f_equal.
  unfold field_types. rewrite <- Hlen. clear Hlen.
  induction ps1 as [|p ps1 IH1]; [reflexivity|].
  simpl. f_equal.
  - rewrite (Hty p (or_introl eq_refl)). reflexivity.
  - apply IH1. intros q Hq. apply Hty. right. assumption.
Qed.

Lemma params_match_last : forall fs ps,
  params_match fs ps ->
  match last_opt fs with Some f => is_ellipsis (f_type f) | None => false end = false.
Proof.
  intros fs ps H. induction H as [|f ps1 fs ps2 Hlen Hty Hrest IH]; [reflexivity|].
  simpl. destruct fs as [|g fs']; [|exact IH].
  rewrite <- field_to_type_ellipsis.
  destruct ps1 as [|p ps1'].
  - pose proof (mult_pos f). simpl in Hlen. lia.
  - rewrite (Hty p (or_introl eq_refl)). reflexivity.
Qed.

Lemma extract_of_params : forall d ps,
  (fd_recv d = None \/ exists r, fd_recv d = Some [r] /\ is_star (f_type r) = false) ->
  params_match (fd_params d) ps ->
  extract_arguments_type d = (map Abi.type_name ps, false).
Proof.
  intros d ps Hr Hm.
  assert (Hwf : recv_wf d = true).
  { unfold recv_wf. destruct Hr as [Hr|[r [Hr _]]]; rewrite Hr; reflexivity. }
  rewrite (extract_spec d Hwf).
  assert (Hf : arg_fields d = fd_params d).
  { unfold arg_fields. destruct Hr as [Hr|[r [Hr Hs]]]; rewrite Hr; [|rewrite Hs]; reflexivity. }
  rewrite Hf. rewrite (params_match_types _ _ Hm), (params_match_last _ _ Hm). reflexivity.
Qed.

Lemma types_compose : forall f32 f64 isptr d ps,
  (fd_recv d = None \/ exists r, fd_recv d = Some [r] /\ is_star (f_type r) = false) ->
  params_match (fd_params d) ps ->
  forallb wf_param ps = true ->
  augment_call f32 f64 (fst (extract_arguments_type d)) (snd (extract_arguments_type d))
               (args_of_words isptr (flat_map encode ps)) = Ok (map (show f32 f64) ps).
Proof.
  intros f32 f64 isptr d ps Hr Hm Hwf.
  rewrite (extract_of_params d ps Hr Hm). simpl fst. simpl snd.
  apply AugmentProofs.truthful. assumption.
Qed.

Lemma types_compose_ptr_receiver : forall f32 f64 isptr d n x recv ps,
  fd_recv d = Some [mkField n (TStar x)] -> (n <= 1)%nat ->
  params_match (fd_params d) ps ->
  word_ok recv = true -> forallb wf_param ps = true ->
  augment_call f32 f64 (fst (extract_arguments_type d)) (snd (extract_arguments_type d))
               (args_of_words isptr (recv :: flat_map encode ps)) =
  Ok (((s2b "*" ++ Source.type_name x) ++ s2b "(" ++ hex0x recv ++ s2b ")") :: map (show f32 f64) ps).
Proof.
  intros f32 f64 isptr d n x recv ps Hr Hn Hm Hrecv Hwf.
  assert (E : extract_arguments_type d = ((s2b "*" ++ Source.type_name x) :: map Abi.type_name ps, false)).
  { assert (Hw : recv_wf d = true) by (unfold recv_wf; rewrite Hr; reflexivity).
    rewrite (extract_spec d Hw).
    assert (Hf : arg_fields d = mkField n (TStar x) :: fd_params d).
    { unfold arg_fields. rewrite Hr. reflexivity. }
    rewrite Hf. simpl flat_map.
    rewrite (params_match_types _ _ Hm).
    assert (Hl : match last_opt (mkField n (TStar x) :: fd_params d) with
                 | Some f => is_ellipsis (f_type f) | None => false end = false).
    { simpl. destruct (fd_params d) as [|g fs'] eqn:E; [reflexivity|].
      rewrite <- E in Hm. pose proof (params_match_last _ _ Hm) as HL. rewrite E in HL. exact HL. }
    rewrite Hl.
    assert (Hone : field_types (mkField n (TStar x)) = [s2b "*" ++ Source.type_name x]).
    { unfold field_types, mult. simpl. destruct n as [|[|n']]; [reflexivity|reflexivity|lia]. }
    rewrite Hone. reflexivity. }
  rewrite E. simpl fst. simpl snd.
  apply AugmentProofs.truthful_ptr_receiver; assumption.
Qed.

(* extract then augment never panics, whatever the declaration *)
Lemma extract_then_augment_total : forall f32 f64 d a,
  exists r, augment_call f32 f64 (fst (extract_arguments_type d)) (snd (extract_arguments_type d)) a = Ok r.
Proof.
  intros f32 f64 d a. apply AugmentProofs.total.
  destruct (extract_arguments_type d) as [types ell] eqn:E. simpl.
  apply (extract_variadic_nonempty d types ell E).
Qed.

(* ------------------------------------------------------------------ *)
(* matchFuncDecl *)
Lemma beq_true : forall a b, beq a b = true -> a = b.
Proof. intros a b H. apply beq_eq. assumption. Qed.

(* recv[2:len(recv)-1] is evaluated only when the bounds are in range *)
Lemma peel_in_range : forall recv,
  has_prefix recv OPEN_STAR = true -> has_suffix recv CLOSE = true -> (2 <= List.length recv - 1)%nat.
Proof.
  intros recv Hp Hs. destruct recv as [|a [|b [|c rest]]].
  - simpl in Hp. discriminate.
  - simpl in Hp. rewrite ?andb_false_r in Hp. discriminate.
  - simpl in Hp. rewrite ?andb_true_r in Hp. apply andb_true_iff in Hp. destruct Hp as [Ha Hb].
    apply N.eqb_eq in Ha. apply N.eqb_eq in Hb. subst a b. vm_compute in Hs. discriminate.
  - simpl. lia.
Qed.

Lemma skipn_last_one : forall (s : bytes) x,
  (1 <= List.length s)%nat -> skipn (List.length s - 1) s = [x] -> s = firstn (List.length s - 1) s ++ [x].
Proof. intros s x _ H. rewrite <- H. symmetry. apply firstn_skipn. Qed.

Lemma peel_spec : forall recv,
  has_prefix recv OPEN_STAR = true -> has_suffix recv CLOSE = true ->
  recv = OPEN_STAR ++ peel_ptr recv ++ CLOSE.
Proof.
  intros recv Hp Hs. pose proof (peel_in_range recv Hp Hs) as Hr.
  destruct recv as [|a [|b rest]]; simpl in Hp; rewrite ?andb_false_r in Hp; try discriminate.
  apply andb_true_iff in Hp. destruct Hp as [Ha Hb]. apply andb_true_iff in Hb. destruct Hb as [Hb _].
  apply N.eqb_eq in Ha. apply N.eqb_eq in Hb. subst a b.
  unfold has_suffix in Hs. apply andb_true_iff in Hs. destruct Hs as [_ Hs]. apply beq_true in Hs.
  simpl List.length in *. unfold peel_ptr, OPEN_STAR, CLOSE in *. simpl List.length.
  assert (Hn : (1 <= List.length rest)%nat) by lia.
  replace (S (S (List.length rest)) - 1)%nat with (S (S (List.length rest - 1))) in Hs by lia.
  simpl skipn in Hs.
  replace (S (S (List.length rest)) - 3)%nat with (List.length rest - 1)%nat by lia.
  simpl skipn. simpl app. f_equal. f_equal.
  apply skipn_last_one; assumption.
Qed.

Lemma has_suffix_app1 : forall (a p : bytes), has_suffix (a ++ p) p = true.
Proof.
  intros a p. unfold has_suffix. rewrite app_length. apply andb_true_iff. split.
  - apply Nat.leb_le. lia.
  - replace (List.length a + List.length p - List.length p)%nat with (List.length a) by lia.
    rewrite skipn_app, skipn_all, Nat.sub_diag. simpl. apply beq_refl.
Qed.

Lemma peel_of_wrapped : forall base, peel_ptr (OPEN_STAR ++ base ++ CLOSE) = base.
Proof.
  intros base. unfold peel_ptr, OPEN_STAR, CLOSE. simpl. rewrite app_length. simpl.
  replace (List.length base + 1 - 1)%nat with (List.length base) by lia.
  rewrite firstn_app, firstn_all, Nat.sub_diag. simpl. apply app_nil_r.
Qed.

(* the base identifier of a receiver type: T, *T, T[..], *T[..] *)
Definition recv_base (t : texpr) : option bytes :=
  match unindex (match t with TStar x => x | _ => t end) with
  | TIdent nm => Some nm
  | _ => None
  end.

(* the receiver as a traceback prints it; Some [] for a plain function *)
Definition recv_text (d : funcdecl) : option bytes :=
  match fd_recv d with
  | None => Some []
  | Some [r] =>
      match recv_base (f_type r) with
      | Some b => Some (if is_star (f_type r) then OPEN_STAR ++ b ++ CLOSE else b)
      | None => None
      end
  | Some _ => None
  end.

Lemma match_spec : forall d f,
  match_func_decl d f = true ->
  fd_name d = last_component f /\ recv_wf d = true /\ recv_text d = Some (recv_part f).
Proof.
  intros d f H. unfold match_func_decl, last_component, recv_part, recv_text, recv_wf in *.
  destruct (split_last_dot (strip_tparams f)) as [recv f1]. simpl fst. simpl snd.
  destruct (beq f1 (fd_name d)) eqn:En; simpl in H; [|discriminate].
  apply beq_true in En. split; [congruence|].
  destruct (fd_recv d) as [[|r [|r' l]]|]; try discriminate.
  - split; [reflexivity|]. unfold recv_base.
    destruct (f_type r) as [nm| |x|? ?|?| | |? ?|?|?|x|] eqn:Et; simpl in H; try discriminate.
    + apply beq_true in H. subst. reflexivity.
    + (* pointer receiver *)
      destruct (has_prefix recv OPEN_STAR && has_suffix recv CLOSE) eqn:Eb; [|discriminate].
      apply andb_true_iff in Eb. destruct Eb as [Hp Hs].
      destruct (unindex x) as [nm| | | | | | | | | | |] eqn:Eu; try discriminate.
      apply beq_true in H. subst nm. simpl. f_equal. symmetry. apply peel_spec; assumption.
    + destruct x as [nm| | | | | | | | | | |]; simpl in H; try discriminate.
      apply beq_true in H. subst. reflexivity.
  - split; [reflexivity|]. apply beq_true in H. subst. reflexivity.
Qed.

Lemma match_name : forall d f, match_func_decl d f = true -> fd_name d = last_component f.
Proof. intros d f H. apply (match_spec d f H). Qed.

(* two declarations that both match a frame name have the same name and are printed with the same receiver *)
Lemma match_injective : forall d1 d2 f,
  match_func_decl d1 f = true -> match_func_decl d2 f = true ->
  fd_name d1 = fd_name d2 /\ recv_text d1 = recv_text d2.
Proof.
  intros d1 d2 f H1 H2. destruct (match_spec _ _ H1) as [N1 [_ R1]]. destruct (match_spec _ _ H2) as [N2 [_ R2]].
  split; congruence.
Qed.

Lemma split_last_dot_app : forall a b, ~ In DOT b -> split_last_dot (a ++ DOT :: b) = (a, b).
Proof.
  intros a b Hb. unfold split_last_dot.
  assert (E : last_index_byte (a ++ DOT :: b) DOT = Some (List.length a)).
  { clear - Hb. induction a as [|x a IH]; simpl.
    - assert (Hn : last_index_byte b DOT = None).
      { clear - Hb. induction b as [|y b IH]; [reflexivity|]. simpl.
        rewrite IH by (intros H; apply Hb; right; assumption).
        destruct (N.eqb y DOT) eqn:E; [|reflexivity]. apply N.eqb_eq in E. exfalso. apply Hb. left. assumption. }
      rewrite Hn. reflexivity.
    - rewrite IH. reflexivity. }
  rewrite E. f_equal.
  - rewrite firstn_app, firstn_all, Nat.sub_diag. simpl. apply app_nil_r.
  - change (S (List.length a)) with (1 + List.length a)%nat.
    replace (1 + List.length a)%nat with (List.length a + 1)%nat by lia.
    rewrite skipn_app. rewrite skipn_all2 by lia.
    replace (List.length a + 1 - List.length a)%nat with 1%nat by lia. reflexivity.
Qed.

Lemma split_last_dot_none : forall b, ~ In DOT b -> split_last_dot b = ([], b).
Proof.
  intros b Hb. unfold split_last_dot.
  assert (Hn : last_index_byte b DOT = None).
  { induction b as [|y b IH]; [reflexivity|]. simpl.
    rewrite IH by (intros H; apply Hb; right; assumption).
    destruct (N.eqb y DOT) eqn:E; [|reflexivity]. apply N.eqb_eq in E. exfalso. apply Hb. left. assumption. }
  rewrite Hn. reflexivity.
Qed.

(* the name a traceback prints for a declaration matches it (legitimate augmentation is kept) *)
Lemma match_complete_func : forall d f,
  fd_recv d = None -> strip_tparams f = fd_name d -> ~ In DOT (fd_name d) -> match_func_decl d f = true.
Proof.
  intros d f Hr Hs Hd. unfold match_func_decl. rewrite Hs, (split_last_dot_none _ Hd).
  rewrite beq_refl. simpl. rewrite Hr. reflexivity.
Qed.

Lemma match_complete_method : forall d f r b,
  fd_recv d = Some [r] -> recv_base (f_type r) = Some b ->
  strip_tparams f = (if is_star (f_type r) then OPEN_STAR ++ b ++ CLOSE else b) ++ DOT :: fd_name d ->
  ~ In DOT (fd_name d) -> match_func_decl d f = true.
Proof.
  intros d f r b Hr Hb Hs Hd. unfold match_func_decl. rewrite Hs, (split_last_dot_app _ _ Hd).
  rewrite beq_refl. simpl negb. cbv iota. rewrite Hr. unfold recv_base in Hb.
  destruct (f_type r) as [nm| |x|? ?|?| | |? ?|?|?|x|] eqn:Et; simpl in Hb; try discriminate.
  - inversion Hb; subst. simpl. apply beq_refl.
  - simpl is_star. cbv iota.
    assert (Hp : has_prefix (OPEN_STAR ++ b ++ CLOSE) OPEN_STAR = true).
    { unfold OPEN_STAR. simpl. apply AugmentProofs.has_prefix_nil. }
    assert (Hsf : has_suffix (OPEN_STAR ++ b ++ CLOSE) CLOSE = true).
    { rewrite app_assoc. apply has_suffix_app1. }
    rewrite Hp, Hsf. simpl andb. cbv iota.
    destruct (unindex x) as [nm| | | | | | | | | | |]; try discriminate.
    inversion Hb; subst. rewrite peel_of_wrapped. apply beq_refl.
  - destruct x as [nm| | | | | | | | | | |]; simpl in Hb; try discriminate.
    inversion Hb; subst. simpl. apply beq_refl.
Qed.

(* ------------------------------------------------------------------ *)
(* source_types: totality, the over-line error, what a result means *)
Lemma get_func_ast_at_not_err : forall off root, get_func_ast_at off root <> AstErr.
Proof. intros off root. unfold get_func_ast_at. destruct (w_d (visit off root w0)) as [[? ?]|]; discriminate. Qed.

Lemma source_total : forall offsets root l f, exists r, source_types offsets root l f = Ok r.
Proof.
  intros offsets root l f. unfold source_types.
  destruct (get_func_ast offsets root l f) as [| |p d]; try (eexists; reflexivity).
  destruct (extract_arguments_type d). eexists; reflexivity.
Qed.

Lemma source_overline_iff : forall offsets root l f,
  source_types offsets root l f = Ok SrcErr <-> (List.length offsets <= l)%nat.
Proof.
  intros offsets root l f. unfold source_types, get_func_ast. split.
  - intros H. apply nth_error_None.
    destruct (nth_error offsets l) as [off|]; [|reflexivity]. exfalso.
    destruct (get_func_ast_at off root) as [| |p d] eqn:E.
    + exact (get_func_ast_at_not_err _ _ E).
    + discriminate.
    + destruct (match_func_decl d f); [|discriminate].
      destruct (extract_arguments_type d); discriminate.
  - intros H. apply nth_error_None in H. rewrite H. reflexivity.
Qed.

(* the filtered selection in terms of the raw one *)
Lemma get_func_ast_found : forall offsets root l f p d,
  get_func_ast offsets root l f = AstFound p d ->
  exists off, nth_error offsets l = Some off /\ get_func_ast_at off root = AstFound p d /\ match_func_decl d f = true.
Proof.
  intros offsets root l f p d H. unfold get_func_ast in H.
  destruct (nth_error offsets l) as [off|]; [|discriminate]. exists off. split; [reflexivity|].
  destruct (get_func_ast_at off root) as [| |q e]; try discriminate.
  destruct (match_func_decl e f) eqn:M; [|discriminate]. inversion H; subst. auto.
Qed.

Lemma selected_matches_frame : forall offsets root l f p nm ts ell,
  source_types offsets root l f = Ok (SrcTypes p nm ts ell) ->
  exists d, In (p, d) (funcdecls root) /\ match_func_decl d f = true /\
            nm = fd_name d /\ nm = last_component f /\ recv_wf d = true /\
            recv_text d = Some (recv_part f) /\ (ts, ell) = extract_arguments_type d.
Proof.
  intros offsets root l f p nm ts ell H. unfold source_types in H.
  destruct (get_func_ast offsets root l f) as [| |q d] eqn:E; try discriminate.
  destruct (extract_arguments_type d) as [ts' ell'] eqn:Ex. inversion H; subst. clear H.
  destruct (get_func_ast_found _ _ _ _ _ _ E) as [off [_ [Hsel Hm]]].
  destruct (selected_is_member _ _ _ _ Hsel) as [Hin _].
  destruct (match_spec _ _ Hm) as [Hn [Hw Hr]].
  exists d. repeat split; auto.
Qed.

(* a frame whose function name no declaration of the file has is never augmented:
   function literals "x.funcN", wrappers "T.m-fm", hostile names *)
Lemma wrong_name_unaugmented : forall offsets root l f,
  (forall p d, In (p, d) (funcdecls root) -> fd_name d <> last_component f) ->
  source_types offsets root l f = Ok SrcNone \/ source_types offsets root l f = Ok SrcErr.
Proof.
  intros offsets root l f H.
  destruct (source_total offsets root l f) as [[| |p nm ts ell] Hr]; auto.
  exfalso. destruct (selected_matches_frame _ _ _ _ _ _ _ _ Hr) as [d [Hin [_ [Hn [Hl _]]]]].
  apply (H p d Hin). congruence.
Qed.

Lemma source_of_raw : forall offsets root l f off,
  nth_error offsets l = Some off ->
  source_types offsets root l f =
  match get_func_ast_at off root with
  | AstErr => Ok SrcErr
  | AstNone => Ok SrcNone
  | AstFound p d =>
      if match_func_decl d f
      then Ok (SrcTypes p (fd_name d) (fst (extract_arguments_type d)) (snd (extract_arguments_type d)))
      else Ok SrcNone
  end.
Proof.
  intros offsets root l f off H. unfold source_types, get_func_ast. rewrite H.
  destruct (get_func_ast_at off root) as [| |p d]; try reflexivity.
  destruct (match_func_decl d f); [|reflexivity].
  destruct (extract_arguments_type d); reflexivity.
Qed.

(* inside declaration k with k's name: k's types *)
Lemma select_enclosing_types : forall offsets l f off p0 pre pk fd ch nxt post,
  nth_error offsets l = Some off ->
  wf_file (Node p0 KOther (pre ++ Node pk (KFuncDecl fd) ch :: nxt :: post)) = true ->
  pk < off -> off <= node_pos nxt ->
  match_func_decl fd f = true ->
  source_types offsets (Node p0 KOther (pre ++ Node pk (KFuncDecl fd) ch :: nxt :: post)) l f =
  Ok (SrcTypes pk (fd_name fd) (fst (extract_arguments_type fd)) (snd (extract_arguments_type fd))).
Proof.
  intros offsets l f off p0 pre pk fd ch nxt post Hoff Hwf Hlt Hle Hm.
  rewrite (source_of_raw _ _ _ _ _ Hoff). rewrite select_enclosing by assumption. rewrite Hm. reflexivity.
Qed.

(* the line of the func keyword of k (a one-line function, the top frame of a
   stack overflow): the walk finds j, the filter drops it unless the frame names j *)
Lemma func_keyword_line_unaugmented : forall offsets l f off p0 pre pj fj chj pk fk chk post,
  nth_error offsets l = Some off ->
  wf_file (Node p0 KOther (pre ++ Node pj (KFuncDecl fj) chj :: Node pk (KFuncDecl fk) chk :: post)) = true ->
  pj < off -> off <= pk ->
  match_func_decl fj f = false ->
  source_types offsets (Node p0 KOther (pre ++ Node pj (KFuncDecl fj) chj :: Node pk (KFuncDecl fk) chk :: post)) l f =
  Ok SrcNone.
Proof.
  intros offsets l f off p0 pre pj fj chj pk fk chk post Hoff Hwf Hlt Hle Hm.
  rewrite (source_of_raw _ _ _ _ _ Hoff). rewrite select_enclosing by assumption. rewrite Hm. reflexivity.
Qed.

Lemma one_line_func_unaugmented : forall offsets l f off p0 pre pj fj chj pk fk chk post,
  nth_error offsets l = Some off ->
  wf_file (Node p0 KOther (pre ++ Node pj (KFuncDecl fj) chj :: Node pk (KFuncDecl fk) chk :: post)) = true ->
  pj < off -> off <= pk ->
  match_func_decl fk f = true ->
  (fd_name fj <> fd_name fk \/ recv_text fj <> recv_text fk) ->
  source_types offsets (Node p0 KOther (pre ++ Node pj (KFuncDecl fj) chj :: Node pk (KFuncDecl fk) chk :: post)) l f =
  Ok SrcNone.
Proof.
  intros offsets l f off p0 pre pj fj chj pk fk chk post Hoff Hwf Hlt Hle Hk Hdiff.
  apply (func_keyword_line_unaugmented _ _ _ off); try assumption.
  destruct (match_func_decl fj f) eqn:Hj; [|reflexivity]. exfalso.
  destruct (match_injective _ _ _ Hj Hk) as [Hn Hr]. destruct Hdiff as [Hd|Hd]; contradiction.
Qed.
