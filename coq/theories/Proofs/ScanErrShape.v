(* Proofs/ScanErrShape.v — the only fact about [scan] that C09 needs: when scan
   reports an error it returns l = false and a state other than [looking]
   (so ScanSnapshot returns the line and the buffered bytes as the suffix). *)
From PP Require Import Base.Bytes Base.BytesX Base.Num Base.GoResult Model.Types Model.Lines Model.FuncInit Model.ParseArgs Model.Scan.

Definition err_shape (res : result) : Prop :=
  forall ss' l x, res = Ok (ss', l, Some x) -> l = false /\ state_eqb (st ss') looking = false.

Lemma es_none s l : err_shape (ret s l None).
Proof. intros ss' l' x H. discriminate H. Qed.

Lemma es_err s x : state_eqb (st s) looking = false -> err_shape (ret s false (Some x)).
Proof. intros Hs ss' l' y H. injection H as <- <- _. split; [reflexivity|exact Hs]. Qed.

Lemma es_panic m : err_shape (Panic m).
Proof. intros ss' l' x H. discriminate H. Qed.

Lemma es_func_step s line next upd nf :
  state_eqb next looking = false -> err_shape nf -> err_shape (func_step s line next upd nf).
Proof.
  intros Hn Hnf. unfold func_step, bind.
  destruct (parse_func line) as [[[c e]|]|m]; [|exact Hnf|apply es_panic].
  destruct (upd c s) as [s'|m]; [|apply es_panic].
  destruct e as [x|]; [|apply es_none].
  intros ss' l' y H. injection H as <- <- _. split; [reflexivity|exact Hn].
Qed.

Lemma es_file_step s line calls store next what :
  state_eqb (st s) looking = false -> err_shape (file_step s line calls store next what).
Proof.
  intros Hs. unfold file_step.
  destruct (last_opt calls) as [c|]; [|apply es_panic].
  destruct (parse_file c line) as [[c' [e|]]|].
  - now apply es_err.
  - apply es_none.
  - now apply es_err.
Qed.

Lemma es_created_step s g sym b :
  state_eqb (st s) looking = false -> err_shape (created_step s g sym b).
Proof.
  intros Hs. unfold created_step, bind.
  destruct (func_init sym) as [[f|]|m]; [apply es_none| |apply es_panic].
  apply es_err. exact Hs.
Qed.

Lemma es_race_goroutine_step s t :
  state_eqb (st s) looking = false -> err_shape (race_goroutine_step s t).
Proof.
  intros Hs. unfold race_goroutine_step.
  destruct (match_race_goroutine t) as [[ds stt]|]; [|now apply es_err].
  destruct (atou ds) as [id|]; [|now apply es_err].
  match goal with |- err_shape (match ?x with _ => _ end) => destruct x end.
  - apply es_none.
  - now apply es_err.
Qed.

Lemma es_race_goroutine_func_step s t :
  state_eqb (st s) looking = false -> err_shape (race_goroutine_func_step s t).
Proof.
  intros Hs. unfold race_goroutine_func_step. apply es_func_step; [reflexivity|now apply es_err].
Qed.

Lemma es_race_op_header s m first t r :
  state_eqb (st s) looking = false -> race_op_header s m first t = Some r -> err_shape r.
Proof.
  intros Hs. unfold race_op_header. destruct m as [[[w addr] ds]|]; [|discriminate].
  intros H. injection H as <-.
  destruct (parse_uint addr); [|now apply es_err].
  destruct (atou ds); [|now apply es_err].
  match goal with |- err_shape (if ?c then _ else _) => destruct c end.
  - apply es_panic.
  - apply es_none.
Qed.

Lemma es_with_cur s k : (forall g, err_shape (k g)) -> err_shape (with_cur s k).
Proof. intros H. unfold with_cur. destruct (last_opt (goroutines s)); [apply H|apply es_panic]. Qed.

Ltac body_tac s :=
  let Hst := fresh "Hst" in
  destruct (st s) eqn:Hst;
  try (assert (Hs : state_eqb (st s) looking = false) by (rewrite Hst; reflexivity)).

Ltac es_solve :=
  repeat first
    [ apply es_none | apply es_panic | (apply es_err; assumption)
    | (apply es_with_cur; intros ?)
    | (apply es_func_step; [reflexivity|])
    | (apply es_file_step; assumption)
    | (apply es_created_step; assumption)
    | (apply es_race_goroutine_step; assumption)
    | (apply es_race_goroutine_func_step; assumption)
    | match goal with
      | |- err_shape (match race_op_header ?s ?m ?f ?t with _ => _ end) =>
          let H := fresh "Hro" in
          destruct (race_op_header s m f t) eqn:H;
          [eapply es_race_op_header; [|exact H]; assumption|]
      end
    | match goal with |- err_shape (match ?x with _ => _ end) => destruct x end ].

Lemma scan_err_shape s line : err_shape (scan s line).
Proof.
  unfold scan. cbv zeta.
  match goal with |- err_shape (match ?tr with _ => _ end) => destruct tr as [trimmed0|] end;
    [|apply es_none].
  destruct trimmed0 as [|c0 t0]; [|destruct (sprefix s) as [|p0 ps] eqn:Hpre;
     [|destruct (strip_prefix (p0 :: ps) (c0 :: t0)) as [tt|]]]; cbv iota beta.
  4:{ apply es_err. reflexivity. }
  all: body_tac s.
  all: es_solve.
Qed.

Theorem scan_error_suffix s line ss' l x :
  scan s line = Ok (ss', l, Some x) -> l = false /\ state_eqb (st ss') looking = false.
Proof. apply scan_err_shape. Qed.
