// op scan: stack.ScanSnapshot under a scripted io.Reader and a recording
// io.Writer.  One case = (content, delivery schedule, terminal error,
// NameArguments) [+ what the generator knows: the expected snapshot, the cut
// point, ...].  Emitted per case:
//
//	scan id content sched final nameargs kind expect aux | snap writes suffix unread err reads oneshot
package main

import (
	"bytes"
	"errors"
	"fmt"
	"io"
	"math/rand"
	"regexp"
	"strconv"
	"strings"

	"github.com/maruel/panicparse/v2/stack"
)

type schedStep struct {
	n       int
	withErr bool
}

type failErr struct{ code int }

func (e *failErr) Error() string { return "injected failure " + strconv.Itoa(e.code) }

// scriptedReader implements the source contract of Model/Reader.v.
type scriptedReader struct {
	rest  []byte
	sched []schedStep
	final error
	w     *recWriter
	reads []string // "len(p):n@bytes written before the call"
}

func (s *scriptedReader) Read(p []byte) (int, error) {
	n, err := s.read(p)
	s.reads = append(s.reads, strconv.Itoa(len(p))+":"+strconv.Itoa(n)+"@"+strconv.Itoa(s.w.total))
	return n, err
}

func (s *scriptedReader) read(p []byte) (int, error) {
	if len(s.rest) == 0 {
		if len(s.sched) != 0 {
			s.sched = s.sched[1:]
		}
		return 0, s.final
	}
	k, we := len(p), true
	if len(s.sched) != 0 {
		k, we = s.sched[0].n, s.sched[0].withErr
		s.sched = s.sched[1:]
	}
	n := k
	if len(p) < n {
		n = len(p)
	}
	if len(s.rest) < n {
		n = len(s.rest)
	}
	copy(p, s.rest[:n])
	s.rest = s.rest[n:]
	if len(s.rest) == 0 && we {
		return n, s.final
	}
	return n, nil
}

type recWriter struct {
	writes [][]byte
	total  int
}

func (w *recWriter) Write(p []byte) (int, error) {
	w.writes = append(w.writes, append([]byte{}, p...))
	w.total += len(p)
	return len(p), nil
}

func errClass(err error, final error) string {
	switch {
	case err == nil:
		return "nil"
	case err == io.EOF:
		return "eof"
	case errors.Is(err, io.ErrNoProgress):
		return "noprogress"
	}
	var fe *failErr
	if errors.As(err, &fe) {
		return "fail:" + strconv.Itoa(fe.code)
	}
	return "scan"
}

type scanOut struct {
	snap    string
	writes  string
	fwd     []byte
	suffix  []byte
	unread  []byte
	err     string
	reads   string
	errText string
}

func finalOf(s string) error {
	if s == "eof" {
		return io.EOF
	}
	c, _ := strconv.Atoi(strings.TrimPrefix(s, "fail:"))
	return &failErr{c}
}

func parseSched(s string) []schedStep {
	var out []schedStep
	if s == "" || s == "-" {
		return nil
	}
	for _, p := range strings.Split(s, ",") {
		we := strings.HasSuffix(p, "e")
		n, _ := strconv.Atoi(strings.TrimSuffix(p, "e"))
		out = append(out, schedStep{n, we})
	}
	return out
}

func fmtSched(s []schedStep) string {
	if len(s) == 0 {
		return "-"
	}
	var b strings.Builder
	for i, st := range s {
		if i != 0 {
			b.WriteByte(',')
		}
		b.WriteString(strconv.Itoa(st.n))
		if st.withErr {
			b.WriteByte('e')
		}
	}
	return b.String()
}

func scanOpts(nameArgs bool) *stack.Opts {
	return &stack.Opts{NameArguments: nameArgs}
}

func runScan(content []byte, sched []schedStep, final string, nameArgs bool) (o scanOut) {
	w := &recWriter{}
	rd := &scriptedReader{rest: append([]byte{}, content...), sched: sched, final: finalOf(final), w: w}
	defer func() {
		if e := recover(); e != nil {
			o.snap = "PANIC:" + strings.ReplaceAll(fmt.Sprint(e), "\t", " ")
		}
	}()
	s, suffix, err := stack.ScanSnapshot(rd, w, scanOpts(nameArgs))
	if s == nil {
		o.snap = "nil"
	} else {
		o.snap = sexpGoroutines(s.Goroutines)
	}
	var ws []string
	for _, x := range w.writes {
		ws = append(ws, hexs(x))
		o.fwd = append(o.fwd, x...)
	}
	o.writes = strings.Join(ws, ",")
	if o.writes == "" {
		o.writes = "-"
	}
	o.suffix = suffix
	o.unread = rd.rest
	o.err = errClass(err, rd.final)
	if err != nil {
		o.errText = err.Error()
	}
	o.reads = strings.Join(rd.reads, ",")
	if o.reads == "" {
		o.reads = "-"
	}
	return
}

// sameOutcome: the observables C09 declares independent of delivery.
func sameOutcome(a, b scanOut) bool {
	return a.snap == b.snap && bytes.Equal(a.fwd, b.fwd) && a.err == b.err &&
		bytes.Equal(append(append([]byte{}, a.suffix...), a.unread...), append(append([]byte{}, b.suffix...), b.unread...))
}

// emitScan runs the case and prints it.  kind/expect/aux are generator
// knowledge passed through to the driver:
//
//	kind=dump|race  expect=(gs ...) the snapshot the AST denotes, aux="pre,post" byte lengths around the dump
//	kind=stream     aux = region list "start:end,..." of the generated dumps
//	kind=cut        aux = cut offset into the uncut content carried in expect (hex)
//	kind=junk|mutant|other
func emitScan(id string, content []byte, sched []schedStep, final string, nameArgs bool, kind, expect, aux string) {
	o := runScan(content, sched, final, nameArgs)
	// the same content delivered in one piece with EOF after the data
	one := runScan(content, nil, final, nameArgs)
	same := "1"
	if !sameOutcome(o, one) {
		same = "0"
	}
	// the very same case again: nothing may depend on earlier calls in the process (C06)
	if again := runScan(content, sched, final, nameArgs); !sameOutcome(o, again) || again.reads != o.reads {
		same = "R"
	}
	na := "0"
	if nameArgs {
		na = "1"
	}
	emit("scan", id, hexs(content), fmtSched(sched), final, na, kind, expect, aux,
		o.snap, o.writes, hexs(o.suffix), hexs(o.unread), o.err, o.reads, same)
}

func init() {
	replayers["scan"] = func(id string, in []string) {
		content := unhexs(in[0])
		emitScan(id, content, parseSched(in[1]), in[2], in[3] == "1", in[4], in[5], in[6])
	}
}

func unhexs(s string) []byte {
	b := make([]byte, (len(s)-1)/2)
	for i := range b {
		v, _ := strconv.ParseUint(s[1+2*i:3+2*i], 16, 8)
		b[i] = byte(v)
	}
	return b
}

// ---- schedules ----

func genSched(r *rand.Rand, n int) []schedStep {
	switch r.Intn(8) {
	case 7: // many zero-length reads in total, never 100 in a row (legal for an io.Reader)
		if n > 6000 {
			return nil
		}
		var out []schedStep
		for tot := 0; tot < n+10; {
			for z := r.Intn(4); z > 0; z-- {
				out = append(out, schedStep{0, false})
			}
			k := 1 + r.Intn(12)
			out = append(out, schedStep{k, r.Intn(2) == 0})
			tot += k
		}
		return out
	case 0:
		return nil
	case 1: // one byte at a time (bounded to keep the model fast)
		if n > 3000 {
			return nil
		}
		out := make([]schedStep, n)
		for i := range out {
			out[i] = schedStep{1, r.Intn(2) == 0}
		}
		return out
	case 2: // adversarial sizes around the buffer
		var out []schedStep
		for tot := 0; tot < n+10; {
			k := []int{0, 1, 16383, 16384, 16385, 100, 7}[r.Intn(7)]
			out = append(out, schedStep{k, r.Intn(2) == 0})
			tot += k
		}
		return out
	default:
		var out []schedStep
		max := 1 + r.Intn(200)
		if r.Intn(3) == 0 || n > 4000 {
			max = 400 + r.Intn(40000)
		}
		for tot := 0; tot < n+10 && len(out) < 4000; {
			k := r.Intn(max + 1)
			if r.Intn(10) != 0 && k == 0 {
				k = 1
			}
			out = append(out, schedStep{k, r.Intn(2) == 0})
			tot += k
		}
		return out
	}
}

func genFinal(r *rand.Rand) string {
	if r.Intn(4) == 0 {
		return "fail:" + strconv.Itoa(1+r.Intn(3))
	}
	return "eof"
}

// ---- junk ----

var lookAlikes = []string{
	"==================", "WARNING: DATA RACE", "goroutine 1 [", "goroutine x [running]:", "goroutine 12345678901234567890 [running]:",
	"created by main.main", "\t/x/y.go:12 +0x1", "main.main()", "panic: oops", "exit status 2", "", "", "Read at 0x1 by goroutine 1:",
	"Previous write at 0x2 by goroutine 2:", "Goroutine 3 (running) created at:", "...additional frames elided...",
	"[signal SIGSEGV: segmentation violation code=0x1 addr=0x0 pc=0x0]", "goroutine running on other thread; stack unavailable",
	"=================== ", " ==================", "fatal error: all goroutines are asleep - deadlock!",
	"...", "... output truncated ...", "...retrying in 5s...", "..frames elided...", "... 3 frames elided ... ",
}

// junkSafe: lines that can neither start a dump nor be swallowed as a race header
func junkLine(r *rand.Rand, safe bool) string {
	for {
		var l string
		switch r.Intn(10) {
		case 0:
			l = lookAlikes[r.Intn(len(lookAlikes))]
		case 1:
			n := []int{16382, 16383, 16384, 16385, 16386, 32768, 40000}[r.Intn(7)]
			l = variedText(r, n-1) // + EOL
			if !safe && r.Intn(3) == 0 {
				// a long junk line whose text right after a buffer's worth of bytes reads like the start of a dump
				l = variedText(r, 16384*(1+r.Intn(2))) + []string{"goroutine 7 [running]:", "==================", "goroutine 1 [chan receive]:"}[r.Intn(3)]
			}
		case 2:
			b := make([]byte, 1+r.Intn(30))
			for i := range b {
				b[i] = byte(r.Intn(256))
				if b[i] == '\n' {
					b[i] = ' '
				}
			}
			l = string(b)
		case 3:
			l = ""
		default:
			words := []string{"INFO", "server", "started", "on", ":8080", "err=", "nil", "2024/01/02", "12:00:00", "panic:", "x"}
			n := 1 + r.Intn(6)
			var p []string
			for i := 0; i < n; i++ {
				p = append(p, words[r.Intn(len(words))])
			}
			l = strings.Join(p, " ")
		}
		if safe && (isHeaderLike(l) || l == "==================") {
			continue
		}
		return l
	}
}

// variedText: n bytes of non-uniform printable text without line ends (so that a misplaced copy is visible)
func variedText(r *rand.Rand, n int) string {
	var b strings.Builder
	b.Grow(n + 16)
	k := r.Intn(1000)
	for b.Len() < n {
		fmt.Fprintf(&b, "w%d-", k)
		k++
	}
	return b.String()[:n]
}

// isHeaderLike: conservative test "could be taken for a goroutine header"
func isHeaderLike(l string) bool {
	t := strings.TrimLeft(l, " \t")
	return strings.HasPrefix(t, "goroutine ") && strings.HasSuffix(strings.TrimRight(l, "\r"), "]:")
}

func genJunk(r *rand.Rand, nlines int, safe bool, crlf bool) string {
	var b strings.Builder
	for i := 0; i < nlines; i++ {
		if !safe && r.Intn(25) == 0 {
			// a run of separator lines that no race report follows
			for k := 2 + r.Intn(3); k > 0; k-- {
				b.WriteString("==================\n")
			}
		}
		b.WriteString(junkLine(r, safe))
		if crlf && r.Intn(2) == 0 {
			b.WriteString("\r\n")
		} else {
			b.WriteString("\n")
		}
	}
	return b.String()
}

// ---- mutation (C03) ----

func mutate(r *rand.Rand, s string) string {
	lines := strings.SplitAfter(s, "\n")
	nm := 1 + r.Intn(3)
	for k := 0; k < nm && len(lines) > 0; k++ {
		i := r.Intn(len(lines))
		switch r.Intn(16) {
		case 15: // number surgery: a number of a header / address / line replaced by one that does not fit
			lines[i] = reNumber.ReplaceAllStringFunc(lines[i], func(m string) string {
				if r.Intn(2) == 0 {
					return m
				}
				return []string{"99999999999999999999", "9223372036854775808", "0x10000000000000000", "18446744073709551616", "1000000000000000000", "0xffffffffffffffff"}[r.Intn(6)]
			})
		case 0: // delete
			lines = append(lines[:i], lines[i+1:]...)
		case 1: // duplicate
			lines = append(lines[:i+1], lines[i:]...)
		case 2: // swap
			j := r.Intn(len(lines))
			lines[i], lines[j] = lines[j], lines[i]
		case 3: // splice a look-alike
			lines = append(lines[:i], append([]string{lookAlikes[r.Intn(len(lookAlikes))] + "\n"}, lines[i:]...)...)
		case 4: // truncate the line
			if len(lines[i]) > 1 {
				lines[i] = lines[i][:r.Intn(len(lines[i]))]
			}
		case 5: // byte flip
			if len(lines[i]) > 0 {
				b := []byte(lines[i])
				b[r.Intn(len(b))] = byte(r.Intn(256))
				lines[i] = string(b)
			}
		case 6: // token insertion
			toks := []string{"%", "%4", "%zz", "%41%41%41", "{", "}", "{{{{{{{", "}}", ", ", "...", "_", "?", "0x", "99999999999999999999", "(", ")", " in goroutine 7", "/", ".", " ", "\t", "\r", "]:", " [", "goroutine ", "created by ", "18446744073709551616", "0x_1", "0b2", ".go:", ":"}
			if len(lines[i]) > 0 {
				p := r.Intn(len(lines[i]))
				lines[i] = lines[i][:p] + toks[r.Intn(len(toks))] + lines[i][p:]
			}
		case 7: // token deletion
			if len(lines[i]) > 2 {
				p := r.Intn(len(lines[i]) - 1)
				q := p + 1 + r.Intn(minInt(6, len(lines[i])-p-1))
				lines[i] = lines[i][:p] + lines[i][q:]
			}
		case 8: // indent the line
			lines[i] = "  " + lines[i]
		case 9: // move a block
			j := r.Intn(len(lines))
			if i < j {
				blk := append([]string{}, lines[i:j]...)
				lines = append(lines[:i], lines[j:]...)
				lines = append(lines, blk...)
			}
		case 10: // a race report or a dump in the middle
			g := dgen{r}
			ins := printRace(g.race())
			if r.Intn(2) == 0 {
				ins = printDump(g.dump(1, 3), dVariant{FileIndent: "\t"}, true)
			}
			lines = append(lines[:i], append([]string{ins}, lines[i:]...)...)
		case 11: // drop the final EOL
			last := lines[len(lines)-1]
			lines[len(lines)-1] = strings.TrimRight(last, "\r\n")
		case 12: // bracket surgery inside an argument list: tokens with surplus / missing curly brackets
			for t := 0; t < 8; t++ {
				j := (i + t) % len(lines)
				l := strings.TrimRight(lines[j], "\r\n")
				if op := strings.IndexByte(l, '('); op > 0 && strings.HasSuffix(l, ")") {
					ins := []string{"}}", "}}}", "}", "{", "{{", "{}", "{}}", "}}{", ", }}", "{0x1}}}", "?}", "_}}"}[r.Intn(12)]
					pos := len(l) - 1 // before the closing parenthesis
					if c := strings.IndexByte(l[op:], ','); c > 0 && r.Intn(2) == 0 {
						pos = op + c // before the first comma
					}
					lines[j] = l[:pos] + ins + l[pos:] + lines[j][len(l):]
					break
				}
			}
		case 13: // the stream ends right after line i, without its EOL
			lines = lines[:i+1]
			lines[i] = strings.TrimRight(lines[i], "\r\n")
		case 14: // a blanks-only line (shorter or longer than any indentation)
			lines = append(lines[:i], append([]string{[]string{" ", "\t", "  ", "   \t", " \r"}[r.Intn(5)] + "\n"}, lines[i:]...)...)
		}
	}
	return strings.Join(lines, "")
}

func minInt(a, b int) int {
	if a < b {
		return a
	}
	return b
}

// one representative line per kind of both grammars (plus near misses)
var lineKinds = []string{
	"goroutine 1 [running]:", "goroutine 2 [chan receive, 5 minutes, locked to thread]:", "  goroutine 3 [select]:",
	"main.main()", "main.f(0x1, {0x2, 0x3}, ...)", "\t/a/b.go:12 +0x1f", "    /a/c.go:7", "created by main.g in goroutine 1", "created by main.h",
	"", "...additional frames elided...", "\tgoroutine running on other thread; stack unavailable",
	"==================", "WARNING: DATA RACE", "Read at 0x00c000010000 by goroutine 7:", "Previous write at 0x00c000010000 by goroutine 6:",
	"Goroutine 7 (running) created at:", "Goroutine 6 (finished) created at:", "Goroutine 9 (running) created at:",
	"  main.racy()", "      /a/r.go:33 +0x44", "some junk line", "a.%41%41%41()", "goroutine x [running]:",
	"main.f(0x1}})", "main.f({0x1, 0x2}}}, 0x3)", "  ", "created by net/http.", "net/http.(*conn)",
}

var reHexAddr = regexp.MustCompile(`0x[0-9a-f]+`)
var reGorID = regexp.MustCompile(`goroutine \d+:`)
var reNumber = regexp.MustCompile(`0x[0-9a-f]+|\d+`)
var reLaterHeader = regexp.MustCompile(`(?m)^[ \t]*goroutine \d+ \[[^\n]*\]:`)

// cutAfterLaterHeader cuts a dump of several goroutines right after the header
// line of one that is not the first, dropping the end of line.
func cutAfterLaterHeader(r *rand.Rand, d string) string {
	m := reLaterHeader.FindAllStringIndex(d, -1)
	if len(m) < 2 {
		return d
	}
	k := 1 + r.Intn(len(m)-1)
	return d[:m[k][1]]
}

// ---- the mixes ----

func opScan(r *rand.Rand, n int, tier, mix string) {
	g := dgen{r}
	for i := 0; i < n; i++ {
		id := fmt.Sprintf("scan-%s-%d", mix, i)
		nameArgs := r.Intn(3) == 0
		switch mix {
		case "c01": // pure dumps, all variants, optional trailer
			ng := 1 + r.Intn(4)
			if r.Intn(20) == 0 {
				ng = 5 + r.Intn(30)
			}
			maxf := 12
			if tier == "thorough" || r.Intn(40) == 0 {
				maxf = 150
			}
			d := g.dump(ng, maxf)
			if r.Intn(15) == 0 {
				// a frame line longer than the 16 KiB read buffer: thousands of (varied) argument words
				gi := r.Intn(len(d))
				if len(d[gi].Frames) > 0 && !d[gi].Unavailable {
					fi := r.Intn(len(d[gi].Frames))
					var as []dArg
					for k := 0; k < 2500+r.Intn(3000); k++ {
						as = append(as, dArg{V: uint64(0xc000000000 + k*8)})
					}
					d[gi].Frames[fi].Args, d[gi].Frames[fi].ArgsElided = as, false
				}
			}
			v := g.variant()
			if strings.HasPrefix(v.FileIndent, " ") {
				// a file starting with a space is ambiguous under space indentation: none generated
			}
			// the usual preamble of a crash ("panic: ..." and a blank line) half of the time
			pre := ""
			if r.Intn(2) == 0 {
				pre = []string{"panic: boom\n\n", "fatal error: all goroutines are asleep - deadlock!\n\n", "SIGQUIT: quit\nPC=0x45f0a1 m=0 sigcode=0\n\n"}[r.Intn(3)]
			}
			txt := pre + printDump(d, v, r.Intn(2) == 0)
			emitScan(id, []byte(txt), genSched(r, len(txt)), "eof", false, "dump", sexpGoroutines(expGoroutines(d)), fmt.Sprintf("%d,0", len(pre)))
		case "c08": // race reports with surrounding text
			d := g.race()
			for len(d.Creations) == 0 {
				d = g.race()
			}
			pre := genJunk(r, r.Intn(4), true, false)
			post := genJunk(r, r.Intn(4), false, false)
			if r.Intn(4) == 0 {
				post += "tail without eol"
			}
			if r.Intn(6) == 0 {
				// a creation section naming a goroutine that took part in no operation: an error, never a misattribution
				p := r.Intn(len(d.Creations) + 1)
				bogus := dRaceCreation{GID: 900000 + r.Intn(1000), Running: r.Intn(2) == 0, Frames: g.raceFrames(1 + r.Intn(2))}
				cs := append(append(append([]dRaceCreation{}, d.Creations[:p]...), bogus), d.Creations[p:]...)
				bad := dRace{Ops: d.Ops, Creations: cs}
				txt := pre + printRace(bad) + post
				emitScan(id, []byte(txt), genSched(r, len(txt)), "eof", false, "race-unknown",
					sexpGoroutines(expRace(dRace{Ops: d.Ops, Creations: d.Creations[:p]})), fmt.Sprintf("%d,%d", len(pre), 0))
				continue
			}
			txt := pre + printRace(d) + post
			emitScan(id, []byte(txt), genSched(r, len(txt)), "eof", false, "race", sexpGoroutines(expRace(d)), fmt.Sprintf("%d,%d", len(pre), len(post)))
		case "c02": // streams: junk / dumps / race reports interleaved
			var b strings.Builder
			var regions []string
			k := r.Intn(4)
			crlf := r.Intn(6) == 0
			b.WriteString(genJunk(r, r.Intn(6), true, crlf))
			for j := 0; j < k; j++ {
				st := b.Len()
				if r.Intn(3) == 0 {
					d := g.race()
					for len(d.Creations) == 0 {
						d = g.race()
					}
					b.WriteString(printRace(d))
				} else if r.Intn(4) == 0 {
					// no blank line after the dump: it ends at the first line that cannot continue it
					// (never a line that a frame could be followed by: func-like, created-by, elided marker, header)
					v := g.variant()
					v.Indent, v.BlankIndents = "", false
					dd := g.dump(1+r.Intn(2), 4)
					last := &dd[len(dd)-1]
					frameLike := false
					if r.Intn(3) == 0 && !last.Unavailable {
						// after the file line of a "created by" section nothing but a blank line continues the dump:
						// even lines that look like a further frame end it
						if last.Creator == nil {
							last.Creator = &dCreator{Sym: dSym{Pkg: "main", Name: "spawn"}, GID: -1, File: "/home/u/proj/spawn.go", Line: 12}
						}
						frameLike = true
					}
					b.WriteString(printDump(dd, v, false))
					regions = append(regions, fmt.Sprintf("%d:%d", st, b.Len()))
					if frameLike {
						b.WriteString("main.cleanup(0x1)\n\t/home/u/proj/cleanup.go:9 +0x1d\n")
					}
					b.WriteString([]string{"...", "... output truncated ...", "exit status 2", "...retrying in 5s...", "PASS", variedText(r, 20000)}[r.Intn(6)] + "\n")
					b.WriteString(genJunk(r, r.Intn(3), true, crlf))
					continue
				} else {
					b.WriteString(printDump(g.dump(1+r.Intn(3), 6), g.variant(), true))
				}
				regions = append(regions, fmt.Sprintf("%d:%d", st, b.Len()))
				b.WriteString(genJunk(r, 1+r.Intn(5), true, crlf))
			}
			if r.Intn(8) == 0 {
				// the stream ends inside a dump, right after the header of a later goroutine, without EOL
				st := b.Len()
				b.WriteString(cutAfterLaterHeader(r, printDump(g.dump(2+r.Intn(3), 3), g.variant(), true)))
				regions = append(regions, fmt.Sprintf("%d:%d", st, b.Len()))
			} else if r.Intn(3) == 0 {
				b.WriteString("unterminated tail")
			}
			txt := b.String()
			aux := strings.Join(regions, ",")
			if aux == "" {
				aux = "-"
			}
			emitScan(id, []byte(txt), genSched(r, len(txt)), genFinal(r), nameArgs, "stream", "-", aux)
		case "junk": // no dump at all (possibly with look-alikes that are not headers)
			txt := genJunk(r, r.Intn(12), true, r.Intn(4) == 0)
			if r.Intn(3) == 0 {
				txt += "no eol"
			}
			if r.Intn(8) == 0 {
				// an unterminated last line of exactly k read buffers (or one byte off), at the start of the stream or after a few short lines
				txt = genJunk(r, r.Intn(3), true, false) + variedText(r, (1+r.Intn(3))*16384+[]int{0, 0, 0, -1, 1}[r.Intn(5)])
			}
			emitScan(id, []byte(txt), genSched(r, len(txt)), genFinal(r), nameArgs, "junk", "-", "-")
		case "c03": // mutants
			var base string
			switch r.Intn(4) {
			case 0:
				base = printRace(g.race())
				if r.Intn(5) == 0 {
					// the first operation header carries a number that does not fit (address of 17 hex digits / id of 20 digits)
					ls := strings.SplitAfter(base, "\n")
					if len(ls) > 2 {
						if r.Intn(2) == 0 {
							ls[2] = reHexAddr.ReplaceAllString(ls[2], "0x10000000000000000")
						} else {
							ls[2] = reGorID.ReplaceAllString(ls[2], "goroutine 99999999999999999999:")
						}
						base = strings.Join(ls, "")
					}
				}
			case 1:
				base = genJunk(r, 2, false, false) + printDump(g.dump(1+r.Intn(3), 5), g.variant(), true) + genJunk(r, 2, false, false)
			case 2:
				base = printDump(g.dump(1+r.Intn(2), 4), dVariant{FileIndent: "\t"}, true) + printRace(g.race())
			default:
				base = printDump(g.dump(1+r.Intn(3), 5), g.variant(), r.Intn(2) == 0)
			}
			txt := mutate(r, base)
			if r.Intn(3) == 0 {
				txt = mutate(r, txt)
			}
			emitScan(id, []byte(txt), genSched(r, len(txt)), genFinal(r), nameArgs, "mutant", "-", "-")
		case "kinds": // sequences of line kinds: the scanner's state graph (quick: sampled; thorough: exhaustive up to length 4)
			L := len(lineKinds)
			var seq []int
			if tier == "thorough" {
				// enumerate: i in base L, lengths 1..4
				k, rem := 1, i
				for pw := L; rem >= pw && k < 4; pw *= L {
					rem -= pw
					k++
				}
				for j := 0; j < k; j++ {
					seq = append(seq, rem%L)
					rem /= L
				}
			} else {
				k := 1 + r.Intn(7)
				for j := 0; j < k; j++ {
					seq = append(seq, r.Intn(L))
				}
			}
			var b strings.Builder
			for j, x := range seq {
				b.WriteString(lineKinds[x])
				if j != len(seq)-1 || r.Intn(6) != 0 {
					b.WriteString("\n")
				}
			}
			txt := b.String()
			emitScan(id, []byte(txt), nil, genFinal(r), false, "kinds", "-", "-")
		case "c09": // delivery: short contents x adversarial schedules, long lines
			var txt string
			switch r.Intn(5) {
			case 0:
				txt = printDump(g.dump(1+r.Intn(2), 3), g.variant(), true) + genJunk(r, 2, false, false)
			case 1:
				n := []int{16382, 16383, 16384, 16385, 16386, 32767, 32768, 32769, 49152}[r.Intn(9)]
				txt = variedText(r, n-1) + "\n" + printDump(g.dump(1, 2), dVariant{FileIndent: "\t"}, true) + "z"
				if r.Intn(3) == 0 {
					// ... and an unterminated last line of exactly k buffers (or one byte off)
					txt = txt[:len(txt)-1] + variedText(r, (1+r.Intn(2))*16384+[]int{0, 0, -1, 1}[r.Intn(4)])
				}
			case 2:
				// a dump line longer than the buffer: many arguments
				d := g.dump(1, 1)
				if len(d[0].Frames) > 0 {
					var as []dArg
					for k := 0; k < 3000+r.Intn(3000); k++ {
						as = append(as, dArg{V: uint64(k)})
					}
					d[0].Frames[0].Args = as
				}
				txt = "pre\n" + printDump(d, dVariant{FileIndent: "\t"}, true) + "post\n"
			default:
				txt = genJunk(r, 1+r.Intn(3), false, false) + printRace(g.race())
				if r.Intn(3) != 0 {
					// (otherwise the closing separator is the very end of the stream)
					txt += genJunk(r, 1+r.Intn(3), false, false)
				}
			}
			emitScan(id, []byte(txt), genSched(r, len(txt)), genFinal(r), nameArgs, "other", "-", "-")
		}
	}
}
