(* Spec/SeqSpec.v — vocabulary of C07 (delimitation, resumable scanning) and
   C10 (truncation tolerance).  Definitions only.

   The central notion is [run_lines]: ScanSnapshot as a pure fold of [scan]
   over the lines of the input (Spec/LoopSpec.lines), with the stopping rules
   of the loop of stack/context.go:160-208. *)
From PP Require Import Base.Bytes Base.BytesX Base.GoResult Model.Types Model.Lines Model.Reader Model.FuncInit Model.Scan Model.Names Model.ScanSnapshot Model.ScanSeq.
From PP Require Import Spec.ReaderSpec Spec.LoopSpec.
From Coq Require Import String.

(* the reader error that accompanies a line of a stream whose terminal error
   is f: none for an LF-terminated line, f for the unterminated tail *)
Definition lerr (f : io_err) (d : bytes) : option io_err :=
  if has_lf d then None else Some f.

(* the error of one iteration: "err1 != nil && (err == nil || err == io.EOF)" *)
Definition combine_err (e : option io_err) (e1 : option scan_err) : go_err :=
  let err0 := match e with None => ENil | Some x => EIo x end in
  match e1 with
  | Some x => if io_is_nil_or_eof e then EScan x else err0
  | None => err0
  end.

(* outcome of the fold: scanner state, bytes forwarded, lines NOT handled
   (starting with the rejected line, if any), error, number of calls of scan *)
Record lrun := mkLrun {
  lr_ss : sstate; lr_fwd : bytes; lr_rem : list bytes; lr_err : go_err; lr_n : nat }.

Fixpoint run_lines (f : io_err) (s : sstate) (fw : bytes) (n : nat) (ls : list bytes) : GoResult lrun :=
  if state_eqb (st s) done then Ok (mkLrun s fw ls ENil n) else
  match ls with
  | [] => Ok (mkLrun s fw [] (EIo f) n)
  | d :: ls' =>
      match scan s d with
      | Panic m => Panic m
      | Ok (s', l, e1) =>
          let err := combine_err (lerr f d) e1 in
          if l then
            match err with
            | ENil => run_lines f s' fw (S n) ls'
            | _ => Ok (mkLrun s' fw ls' err (S n))
            end
          else if negb (state_eqb (st s') looking) then
            Ok (mkLrun s' fw (d :: ls') err (S n))
          else
            match err with
            | ENil => run_lines f s' (fw ++ d) (S n) ls'
            | _ => Ok (mkLrun s' (fw ++ d) ls' err (S n))
            end
      end
  end.

Definition snap_of (na : bool) (gs : list Goroutine) : option (list Goroutine) :=
  match gs with [] => None | _ => Some (if na then name_arguments gs else gs) end.

(* the observable part of a scan_result agrees with a fold outcome *)
Definition agrees (na : bool) (res : scan_result) (lr : lrun) : Prop :=
  snap res = snap_of na (goroutines (lr_ss lr)) /\
  fwd res = lr_fwd lr /\
  suffix res ++ rest (unread res) = List.concat (lr_rem lr) /\
  rerr_out res = lr_err lr /\
  final_state res = st (lr_ss lr) /\
  lines_read res = lr_n lr.

Definition is_eio (e : go_err) : bool := match e with EIo _ => true | _ => false end.

(* ------------------------------------------------------------------ *)
(* C07: the handled region                                              *)

(* [Handled s fw ds s' fw']: folding scan from s over ds, every line is
   accepted (flag true) or forwarded (flag false, new state looking), the state
   is never [done] before a line; fw' = fw ++ the forwarded lines *)
Inductive Handled : sstate -> bytes -> list bytes -> sstate -> bytes -> Prop :=
| H_nil s fw : Handled s fw [] s fw
| H_acc s fw d ds s1 s' fw' :
    state_eqb (st s) done = false -> scan s d = Ok (s1, true, None) ->
    Handled s1 fw ds s' fw' -> Handled s fw (d :: ds) s' fw'
| H_fwd s fw d ds s1 s' fw' :
    state_eqb (st s) done = false -> scan s d = Ok (s1, false, None) -> st s1 = looking ->
    Handled s1 (fw ++ d) ds s' fw' -> Handled s fw (d :: ds) s' fw'.

(* scan rejects d in state s: not processed, and the scanner does not go back
   to looking *)
Definition rejects (s : sstate) (d : bytes) (s' : sstate) (e : option scan_err) : Prop :=
  state_eqb (st s) done = false /\ scan s d = Ok (s', false, e) /\ state_eqb (st s') looking = false.

(* B is empty or ends with LF *)
Definition terminated (B : bytes) : Prop := forall d, In d (lines B) -> has_lf d = true.

(* all lines accepted (flag true), never in state done before a line *)
Fixpoint accept_all (s : sstate) (ls : list bytes) : option sstate :=
  match ls with
  | [] => Some s
  | d :: ls' =>
      if state_eqb (st s) done then None else
      match scan s d with
      | Ok (s', true, _) => accept_all s' ls'
      | _ => None
      end
  end.

(* D is a dump delimited by what follows ([nxt] = the first line of what
   follows, None at the end of the stream): scanning D from the initial state
   accepts all of its lines, produces at least one goroutine, and the scanner
   is then done or rejects the next line without touching the goroutines *)
Definition delimits (D : bytes) (nxt : option bytes) : Prop :=
  terminated D /\
  exists s, accept_all ss0 (lines D) = Some s /\ goroutines s <> [] /\
    (st s = done \/
     match nxt with
     | None => True
     | Some d => exists s' e, rejects s d s' e /\ goroutines s' = goroutines s
     end).

(* J0 ++ D1 ++ J1 ++ ... ++ Dk ++ Jk as [(J0, D1); ...; (J(k-1), Dk)] and Jk *)
Fixpoint stream_of (segs : list (bytes * bytes)) (Jk : bytes) : bytes :=
  match segs with
  | [] => Jk
  | (J, D) :: t => J ++ D ++ stream_of t Jk
  end.

Fixpoint well_delimited (segs : list (bytes * bytes)) (Jk : bytes) : Prop :=
  match segs with
  | [] => no_start Jk
  | (J, D) :: t =>
      no_start J /\ terminated J /\ delimits D (hd_error (lines (stream_of t Jk))) /\
      well_delimited t Jk
  end.

Definition nonempty_snaps (items : list seq_item) : list (list Goroutine) :=
  flat_map (fun it => match fst (fst it) with Some gs => [gs] | None => [] end) items.

(* the goroutines of a dump scanned alone *)
Definition alone (D : bytes) : option (list Goroutine) :=
  match scan_snapshot false (mkSource D [] EOF) with
  | Ok res => snap res
  | Panic _ => None
  end.

(* the successive calls of scan_seq: call i scans content c_i; hl_i are the
   lines it handed to scan with what it did with them; the next call scans
   exactly what call i did not handle *)
Fixpoint seq_chain (f : io_err) (c : bytes) (hls : list (list (bytes * kind)))
         (items : list seq_item) (r : bytes) : Prop :=
  match hls, items with
  | [], [] => c = r
  | hl :: hls', it :: items' =>
      exists res, scan_snapshot false (mkSource c [] f) = Ok res /\
        it = (snap res, fwd res, rerr_out res) /\
        lines_of (trace res) = map fst hl /\
        fwd res = bytes_of (filter k_fwd hl) /\
        c = bytes_of (filter k_handled hl) ++ (suffix res ++ rest (unread res)) /\
        seq_chain f (suffix res ++ rest (unread res)) hls' items' r
  | _, _ => False
  end.

Definition last_err (items : list seq_item) : option go_err :=
  match rev items with [] => None | it :: _ => Some (snd it) end.

(* ------------------------------------------------------------------ *)
(* C10                                                                  *)

(* what one scan step may do to the goroutine list outside the race states *)
Definition frame (gs gs' : list Goroutine) : Prop :=
  gs' = gs \/ (exists g, gs' = gs ++ [g]) \/ (exists g, gs' = upd_last (fun _ => g) gs).

Definition race_goroutine_state (x : state) : bool :=
  match x with
  | betweenRaceOperations | betweenRaceGoroutines
  | gotRaceGoroutineHeader | gotRaceGoroutineFunc | gotRaceGoroutineFile => true
  | _ => false
  end.
