(* Spec/LoopSpec.v — vocabulary of C02 (stream conservation), C03 (totality
   of the loop) and C11 (streaming progress).  Definitions only. *)
From PP Require Import Base.Bytes Base.BytesX Base.GoResult Model.Types Model.Lines Model.Reader Model.Scan Model.ScanSnapshot.
From Coq Require Import String.

(* number of LF bytes *)
Definition count_lf (b : bytes) : nat := count_byte b LF.

(* bytes delivered by the io.Reader *)
Fixpoint delivered (t : list event) : nat :=
  match t with
  | [] => 0
  | EvRead _ n :: t' => n + delivered t'
  | _ :: t' => delivered t'
  end.

(* lines handed to the scanner *)
Fixpoint lines_of (t : list event) : list bytes :=
  match t with
  | [] => []
  | EvLine d :: t' => d :: lines_of t'
  | _ :: t' => lines_of t'
  end.
Definition handed (t : list event) : nat := List.length (lines_of t).

(* bytes written to the prefix writer *)
Fixpoint written (t : list event) : bytes :=
  match t with
  | [] => []
  | EvWrite d :: t' => d ++ written t'
  | _ :: t' => written t'
  end.

(* the lines of a byte string: cut after each LF; the last piece may be
   unterminated; no empty piece *)
Fixpoint lines (b : bytes) : list bytes :=
  match b with
  | [] => []
  | x :: b' =>
      if N.eqb x LF then [x] :: lines b'
      else match lines b' with
           | [] => [[x]]
           | l :: ls => (x :: l) :: ls
           end
  end.

(* what the loop did with a line handed to the scanner *)
Inductive kind := KConsumed | KForwarded | KRejected.

(* the trace without its Read events *)
Definition noreads (t : list event) : list event :=
  filter (fun e => match e with EvRead _ _ => false | _ => true end) t.

Definition k_fwd (x : bytes * kind) : bool := match snd x with KForwarded => true | _ => false end.
Definition k_consumed (x : bytes * kind) : bool := match snd x with KConsumed => true | _ => false end.
Definition k_handled (x : bytes * kind) : bool := match snd x with KRejected => false | _ => true end.
Definition hl_events (x : bytes * kind) : list event :=
  EvLine (fst x) :: (if k_fwd x then [EvWrite (fst x)] else []).
Definition complete_line (d : bytes) : Prop := exists a, d = a ++ [LF] /\ ~ In LF a.
Definition bytes_of (hl : list (bytes * kind)) : bytes := List.concat (map fst hl).

(* the EOL trimming of scan in state [looking]: an unterminated line is not
   looked at *)
Definition eol_trim (line : bytes) : option bytes :=
  match strip_suffix [CR; LF] line with
  | Some t => Some t
  | None => strip_suffix [LF] line
  end.

(* the line without its EOL *)
Definition trim_eol (line : bytes) : bytes :=
  match eol_trim line with Some t => t | None => line end.

(* the tests of scan in state [looking] (empty indentation prefix): the line
   is neither a goroutine header nor the race report separator *)
Definition not_start_line (line : bytes) : bool :=
  match eol_trim line with
  | None => true
  | Some t =>
      match try_header ss0 t with
      | Some _ => false
      | None => negb (beq t race_header_footer)
      end
  end.

(* no line of s starts a goroutine dump or a race report *)
Definition no_start (s : bytes) : Prop := forallb not_start_line (lines s) = true.
