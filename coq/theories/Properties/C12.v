(* Properties/C12.v — A bucket's signature truthfully generalises its members.  Statements only. *)
From PP Require Import Base.Bytes Base.GoResult Model.Types Model.Stack Model.Bucket Spec.BucketSpec Spec.Wf.
From PP Require Import Proofs.Truthful.

(* For every snapshot, level and oracle: every bucket satisfies c12_bucket -
   state, creator frames and every frame's function/file/line equal those of
   all members; an argument position on which all members agree is shown as in
   the members, any other carries the name "*"; shapes and elision flags are
   those of all members; sleep range = exact min/max; locked iff some member is. *)
Theorem C12_truthful :
  forall shuffle lvl gs bs, aggregate shuffle lvl gs = Ok bs -> c12_ok gs bs = true.
Proof. exact Truthful.truthful. Qed.
Print Assumptions C12_truthful.

(* "No value held by only some members is ever presented as common": a scalar
   shown without the wildcard is held by every member at that position. *)
Theorem C12_unstarred_is_common :
  forall b ms, ms <> [] -> forallb (fun m => negb (IsAggregate m)) ms = true ->
  c12_arg b ms = true -> beq (Name b) (s2b "*") = false ->
  forall m, In m ms -> Value m = Value b /\ IsPtr m = IsPtr b /\ IsOffsetTooLarge m = IsOffsetTooLarge b /\ Name m = Name b.
Proof. exact Truthful.unstarred_is_common. Qed.
Print Assumptions C12_unstarred_is_common.

Example C12_example : exists gs bs, List.length gs = 3 /\ aggregate id_shuffle AnyPointer gs = Ok bs /\
  List.length bs = 1 /\ c12_ok gs bs = true /\
  exists b c a, bs = [b] /\ Calls (SStack (BSig b)) = [c] /\ Values (CArgs c) = [a] /\ Name a = s2b "*".
Proof. exact Truthful.example_truthful. Qed.
