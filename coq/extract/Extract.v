(* extract/Extract.v — extraction of the executable model for the
   correspondence check.  Only ExtrOcamlBasic is used: bool, option, unit,
   list, prod, sumbool, sumor map to OCaml's own types; nat, positive, N, Z
   stay the extracted inductives (2^64 does not fit OCaml's int). *)
From Coq Require Import Extraction ExtrOcamlBasic.
From PP Require Import Base.Bytes Base.GoResult Base.Num Model.Types Model.Stack Model.Bucket Model.Names
  Spec.BucketSpec Spec.NamesSpec Base.BytesX Model.Reader Model.Lines Model.FuncInit Model.ParseArgs Model.Scan Model.ScanSnapshot Model.ScanSeq Model.UI Model.Process Model.Html Model.Paths Model.Augment Model.Web Model.Alias Model.HtmlDoc Model.Source Model.HtmlPage Spec.Regex Spec.RegexDefs.

Extraction Language OCaml.
Extraction "model.ml"
  s2b beq bcmp N_to_dec Z_to_dec N_to_hex atou parse_uint
  N.add N.mul N.of_nat N.to_nat Z.of_N Z.to_N Z.opp Z.add Z.mul Z.of_nat Z.to_nat Nat.add
  mk_arg Fields
  sig_similar sig_equal sig_less sig_merge stack_less
  aggregate id_shuffle bucket_before
  name_arguments
  canon_sig_eqb c04_ok c05_ok c12_ok c13_ok c15_ok no_names
  scan_snapshot scan ss0 func_init parse_args match_file match_func match_routine_header read_line reader0 state_index scan_seq pp_run contains rune_count sig_attrs href_attr html_escape src_url pkg_url func_class
  guess_paths augment_call handler status_class capture alias_graph is_ptr_value all_scalars has_suffix render_content_buckets render_content_goroutines
  render_page_buckets render_page_goroutines
  line_offsets source_types wf_file
  re_find re_all match_minutes match_unavail match_created match_race_op match_race_prev match_race_goroutine
  find_module find_version match_method_symbol.
