(* Properties/C00_pipeline.v — the stage theorems composed: statements about
   the WHOLE pipeline (bytes -> scan -> snapshot -> NameArguments -> Aggregate
   -> console rendering), for every input.  Statements only.

   Vocabulary: scan_snapshot na src (Model/ScanSnapshot.v; src = content,
   delivery schedule and terminal error of the io.Reader; na = NameArguments
   option), aggregate sh lvl gs (Model/Bucket.v; sh = the map-iteration
   oracle), c04_ok / c05_ok / c12_ok / c13_ok (Spec/BucketSpec.v: partition,
   similarity classes, truthful signatures, ordering contract), c15_ok
   (Spec/NamesSpec.v), pp_run / render_snapshot (Model/Process.v),
   print_dump / snapshot_of / wf_dump (Spec/Printer.v), no_start / terminated
   (Spec/LoopSpec.v, Spec/SeqSpec.v). *)
From PP Require Import Base.Bytes Base.BytesX Base.Num Base.GoResult Model.Types Model.Reader Model.Lines Model.Scan
  Model.Names Model.ScanSnapshot Model.Stack Model.Bucket Model.UI Model.Process.
From PP Require Import Proofs.ReaderProofs Proofs.LoopProofs Proofs.ProcessProofs.
From PP Require Import Spec.Wf Spec.NamesSpec Spec.BucketSpec Spec.ReaderSpec Spec.LoopSpec Spec.SeqSpec Spec.Printer.
From PP Require Import Proofs.Compose.
From Coq Require Import String Permutation.

(* 1. In every snapshot the parser returns - any byte stream, any delivery
   schedule, any terminal error, NameArguments on or off - the goroutine
   flagged First is exactly the one at index 0; in particular at most one is.
   (Invariant of scan: a header sets First iff the list is empty; a race
   operation header carries first = true only from gotRaceHeader2, where the
   list is empty; no other step touches First, nor does NameArguments.) *)
Theorem P_first_at_most_one : forall na src res gs,
  scan_snapshot na src = Ok res -> snap res = Some gs ->
  count_first gs <= 1 /\ (forall i g, nth_error gs i = Some g -> First g = Nat.eqb i 0).
Proof. exact Compose.first_at_most_one. Qed.
Print Assumptions P_first_at_most_one.

(* the invariant itself: every reachable scanner state (ScanInv.Inv), every line *)
Theorem P_scan_preserves_first : forall s line s' l e,
  scan s line = Ok (s', l, e) -> ScanInv.Inv s ->
  Compose.FirstOk (goroutines s) -> Compose.FirstOk (goroutines s').
Proof. exact Compose.scan_preserves_first. Qed.
Print Assumptions P_scan_preserves_first.

Theorem P_FirstOk_def : forall gs, Compose.FirstOk gs <->
  map First gs = match List.length gs with O => [] | S k => true :: repeat false k end.
Proof. intros gs. reflexivity. Qed.
Print Assumptions P_FirstOk_def.

(* 2. Whatever the parser returns, Aggregate partitions it into exactly its
   similarity classes, with truthful signatures, in contract order: for EVERY
   byte stream, schedule, terminal error, naming option, level and permutation
   oracle; and the bucket list is the one of the model's fixed oracle. *)
Theorem P_aggregate_parsed : forall na src res gs sh lvl,
  (forall k l, Permutation (sh k l) l) ->
  scan_snapshot na src = Ok res -> snap res = Some gs ->
  exists bs, aggregate sh lvl gs = Ok bs /\
    c04_ok gs bs = true /\ c05_ok lvl gs bs = true /\ c12_ok gs bs = true /\ c13_ok bs = true /\
    aggregate id_shuffle lvl gs = Ok bs.
Proof. exact Compose.aggregate_parsed. Qed.
Print Assumptions P_aggregate_parsed.

Theorem P_aggregate_parsed_oracle_free : forall na src res gs sh1 sh2 lvl,
  (forall k l, Permutation (sh1 k l) l) -> (forall k l, Permutation (sh2 k l) l) ->
  scan_snapshot na src = Ok res -> snap res = Some gs ->
  aggregate sh1 lvl gs = aggregate sh2 lvl gs.
Proof. exact Compose.aggregate_parsed_oracle_free. Qed.
Print Assumptions P_aggregate_parsed_oracle_free.

(* 3. NameArguments on vs off on the same input: the named snapshot is
   name_arguments of the unnamed one and the labelling laws hold. *)
Theorem P_names_parsed : forall src r0 r1 g0,
  scan_snapshot false src = Ok r0 -> scan_snapshot true src = Ok r1 -> snap r0 = Some g0 ->
  exists g1, snap r1 = Some g1 /\ g1 = name_arguments g0 /\ c15_ok g0 g1 = true.
Proof. exact Compose.names_parsed. Qed.
Print Assumptions P_names_parsed.

(* ... and nothing else in the result depends on the option *)
Theorem P_names_only_snap : forall src r0 r1,
  scan_snapshot false src = Ok r0 -> scan_snapshot true src = Ok r1 ->
  fwd r1 = fwd r0 /\ suffix r1 = suffix r0 /\ rerr_out r1 = rerr_out r0 /\ unread r1 = unread r0 /\
  trace r1 = trace r0 /\ final_state r1 = final_state r0 /\ lines_read r1 = lines_read r0 /\
  snap r1 = option_map name_arguments (snap r0).
Proof. exact Compose.names_only_snap. Qed.
Print Assumptions P_names_only_snap.

(* 4. C01 with NameArguments on (as pp runs it) *)
Theorem P_fidelity_named : forall v d trailing sigma,
  wf_dump v d = true -> stall_free sigma ->
  exists res,
    scan_snapshot true (mkSource (print_dump v d trailing) sigma EOF) = Ok res /\
    snap res = Some (name_arguments (snapshot_of d)) /\ fwd res = [] /\ suffix res = [] /\
    rerr_out res = EIo EOF.
Proof. exact Compose.fidelity_named. Qed.
Print Assumptions P_fidelity_named.

(* print a well-formed dump (any variant, with or without the trailing blank
   line), run pp on it: exit 0 and the output is exactly the console rendering
   of the buckets of the named snapshot the AST denotes *)
Theorem P_dump_end_to_end : forall o v d trailing,
  wf_dump v d = true ->
  exists bs,
    aggregate id_shuffle (o_level o) (name_arguments (snapshot_of d)) = Ok bs /\
    render_snapshot o (name_arguments (snapshot_of d)) =
      Ok (flatten (o_pal o) (write_buckets (o_pal o) (o_filter o) (o_match o) (o_pf o)
                               (Nat.eqb (List.length d) 1 && o_banner o) bs)) /\
    pp_run o (print_dump v d trailing) =
      Ok (flatten (o_pal o) (write_buckets (o_pal o) (o_filter o) (o_match o) (o_pf o)
                               (Nat.eqb (List.length d) 1 && o_banner o) bs), true).
Proof. exact Compose.dump_end_to_end. Qed.
Print Assumptions P_dump_end_to_end.

(* the same dump between two stretches of text without start lines: the text
   passes through, the dump is replaced by its rendering, exit 0.  For
   variants without indentation (with one, the unindented line after the dump
   is an indentation error and pp exits 1: P_ex_indented_exit_1), the text
   before ending with LF, the text after empty or with an LF-terminated first
   line (P_junk_unterminated_header_refuted). *)
Theorem P_dump_in_junk_end_to_end : forall o v d J0 J1,
  wf_dump v d = true -> pv_indent v = [] ->
  no_start J0 -> terminated J0 -> no_start J1 -> Compose.first_line_terminated J1 ->
  exists bs,
    aggregate id_shuffle (o_level o) (name_arguments (snapshot_of d)) = Ok bs /\
    pp_run o (J0 ++ print_dump v d true ++ J1) =
      Ok (J0 ++ flatten (o_pal o) (write_buckets (o_pal o) (o_filter o) (o_match o) (o_pf o)
                                     (Nat.eqb (List.length d) 1 && o_banner o) bs) ++ J1, true).
Proof. exact Compose.dump_in_junk_end_to_end. Qed.
Print Assumptions P_dump_in_junk_end_to_end.

Theorem P_first_line_terminated_def : forall J, Compose.first_line_terminated J <->
  match lines J with [] => True | d :: _ => has_lf d = true end.
Proof. intros J. reflexivity. Qed.
Print Assumptions P_first_line_terminated_def.

(* the delimiting hypothesis of C02/C07, discharged for printed dumps *)
Theorem P_printed_delimits_clean : forall v d J1,
  wf_dump v d = true -> pv_indent v = [] -> no_start J1 -> Compose.first_line_terminated J1 ->
  delimits_clean (print_dump v d true) (hd_error (lines J1)).
Proof. exact Compose.printed_delimits_clean. Qed.
Print Assumptions P_printed_delimits_clean.

(* 5. the whole program never panics ... *)
Theorem P_total_pipeline : forall o content, exists out ok, pp_run o content = Ok (out, ok).
Proof. exact Compose.total_pipeline. Qed.
Print Assumptions P_total_pipeline.

(* ... and every snapshot it meets is well-formed, has at most one First
   goroutine, aggregates into buckets satisfying the four bucket contracts,
   and its rendering is what the iteration wrote *)
Theorem P_total_pipeline_calls : forall o content, exists cs last,
  PRun o content cs last /\
  pp_run o content = Ok (List.concat (map pc_out cs) ++ suffix last, is_eof (rerr_out last)) /\
  Forall (fun pc => forall gs, snap (pc_res pc) = Some gs ->
            render_snapshot o gs = Ok (pc_render pc) /\
            wf_goroutines gs = true /\ count_first gs <= 1 /\
            exists bs, aggregate id_shuffle (o_level o) gs = Ok bs /\
              c04_ok gs bs = true /\ c05_ok (o_level o) gs bs = true /\
              c12_ok gs bs = true /\ c13_ok bs = true) cs.
Proof. exact Compose.total_pipeline_calls. Qed.
Print Assumptions P_total_pipeline_calls.

(* ---- examples (vm_compute) ------------------------------------------- *)
Local Open Scope N_scope.

Definition ex_opts : pp_opts := mkPP AnyPointer BasePath empty_palette None None false.
Definition ex_v : p_variant := mkPV [] false FITab false.
Definition ex_fr (name : string) (args : list p_arg) (line : N) : p_frame :=
  mkPFrame (SPkg (s2b "main") (s2b name)) args false (s2b "/home/u/src/proj/main.go") line (Some 29) None.
Definition ex_cr : option p_creator :=
  Some (mkPCreator (SPkg (s2b "main") (s2b "main")) (Some 1) (s2b "/home/u/src/proj/main.go") 12 (Some 85)).
(* goroutines 2 and 3 differ only in a pointer argument; goroutine 1 holds the pointer of goroutine 2 *)
Definition ex_d3 : list p_goroutine :=
  [ mkPG 1 (s2b "running") 0 false None
      (BFrames [ ex_fr "run" [PVal 824633819136 false] 21; ex_fr "main" [] 14 ] None) None;
    mkPG 2 (s2b "chan receive") 0 false None
      (BFrames [ ex_fr "worker" [PVal 824633819136 false; PVal 3 false] 30 ] None) ex_cr;
    mkPG 3 (s2b "chan receive") 0 false None
      (BFrames [ ex_fr "worker" [PVal 824633827328 false; PVal 3 false] 30 ] None) ex_cr ].

Example P_ex_wf : wf_dump ex_v ex_d3 = true.
Proof. vm_compute. reflexivity. Qed.

Example P_ex_text : print_dump ex_v ex_d3 true = s2b
"goroutine 1 [running]:
main.run(0xc000018000)
" ++ [9] ++ s2b "/home/u/src/proj/main.go:21 +0x1d
main.main()
" ++ [9] ++ s2b "/home/u/src/proj/main.go:14 +0x1d

goroutine 2 [chan receive]:
main.worker(0xc000018000, 0x3)
" ++ [9] ++ s2b "/home/u/src/proj/main.go:30 +0x1d
created by main.main in goroutine 1
" ++ [9] ++ s2b "/home/u/src/proj/main.go:12 +0x55

goroutine 3 [chan receive]:
main.worker(0xc00001a000, 0x3)
" ++ [9] ++ s2b "/home/u/src/proj/main.go:30 +0x1d
created by main.main in goroutine 1
" ++ [9] ++ s2b "/home/u/src/proj/main.go:12 +0x55

".
Proof. vm_compute. reflexivity. Qed.

Definition ex_rendering : bytes := s2b
"1: running
    main main.go:21 run(#1)
    main main.go:14 main()
2: chan receive [Created by main.main @ main.go:12]
    main main.go:30 worker(*, 3)
".

(* two blocks: the First goroutine alone (its pointer named #1 because
   goroutine 2 holds it too), and goroutines 2 and 3 merged with the
   differing pointer (#1 vs #2) shown as * *)
Example P_ex_run : pp_run ex_opts (print_dump ex_v ex_d3 true) = Ok (ex_rendering, true).
Proof. vm_compute. reflexivity. Qed.

Example P_ex_names :
  map Name (all_scalars (name_arguments (snapshot_of ex_d3))) = [s2b "#1"; s2b "#1"; []; s2b "#2"; []].
Proof. vm_compute. reflexivity. Qed.

Example P_ex_buckets :
  match aggregate id_shuffle AnyPointer (name_arguments (snapshot_of ex_d3)) with
  | Ok bs => map IDs bs = [[1]; [2; 3]]%Z /\ map BFirst bs = [true; false]
  | Panic _ => False
  end.
Proof. vm_compute. split; reflexivity. Qed.

Definition ex_J0 : bytes := s2b "panic: boom
".
Definition ex_J1 : bytes := s2b "exit status 2
bye".

Example P_ex_junk_hyps : no_start ex_J0 /\ no_start ex_J1 /\ has_lf (hd [] (lines ex_J1)) = true.
Proof. vm_compute. repeat split. Qed.

Example P_ex_run_junk :
  pp_run ex_opts (ex_J0 ++ print_dump ex_v ex_d3 true ++ ex_J1) = Ok (ex_J0 ++ ex_rendering ++ ex_J1, true).
Proof. vm_compute. reflexivity. Qed.

(* the hypothesis on the first line after the dump is needed: an unterminated
   "goroutine 5 [running]:" at the very end of the stream is not a start line
   (scan in state looking does not look at an unterminated line), yet after a
   dump it is taken as the header of one more goroutine *)
Theorem P_junk_unterminated_header_refuted : exists J1,
  no_start J1 /\
  pp_run ex_opts (print_dump ex_v ex_d3 true ++ J1) = Ok (ex_rendering ++ s2b "1: running

", true) /\
  pp_run ex_opts (print_dump ex_v ex_d3 true ++ J1) <> Ok (ex_rendering ++ J1, true).
Proof.
  exists (s2b "goroutine 5 [running]:"). split; [vm_compute; reflexivity|].
  split; [vm_compute; reflexivity|]. vm_compute. intros H. discriminate H.
Qed.
Print Assumptions P_junk_unterminated_header_refuted.

(* observation O1: the same dump indented by two spaces, followed by an
   unindented line: same output, exit status 1 (indentation error) *)
Example P_ex_indented_exit_1 :
  pp_run ex_opts (ex_J0 ++ print_dump (mkPV [32; 32] false FITab false) ex_d3 true ++ ex_J1)
  = Ok (ex_J0 ++ ex_rendering ++ ex_J1, false).
Proof. vm_compute. reflexivity. Qed.
