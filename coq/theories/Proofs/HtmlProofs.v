(* Proofs/HtmlProofs.v — proofs for property C17 (HTML rendering is
   injection-safe) over Model/Html.v.  Stdlib only, no axioms, all Qed.

   Bytes are arbitrary [N] in the model.  Findings about the range hypothesis:
   - "no quote / angle bracket / blank / control byte" statements hold for ALL
     lists of N (no hypothesis);
   - "only bytes of the allowed class" and "'%' is followed by two hex digits"
     need [bytes_ok s = true] (every element < 256): [pct] of a value >= 256
     prints a non-hex "digit" (see [url_normalize_needs_bytes_ok]). *)
From PP Require Import Base.Bytes Base.BytesX Base.Num Base.GoResult Model.Types Model.Html.
From PP Require Import Proofs.HtmlBase.

Local Open Scope N_scope.

(* ================================================================== *)
(* 1. html_escape                                                      *)
(* ================================================================== *)
Definition esc1 (c : N) : bytes :=
  if N.eqb c 0 then [239; 191; 189]
  else if N.eqb c 34 then s2b "&#34;"
  else if N.eqb c 38 then s2b "&amp;"
  else if N.eqb c 39 then s2b "&#39;"
  else if N.eqb c 43 then s2b "&#43;"
  else if N.eqb c 60 then s2b "&lt;"
  else if N.eqb c 62 then s2b "&gt;"
  else [c].

Lemma html_escape_eq s : html_escape s = flat_map esc1 s.
Proof. reflexivity. Qed.

Definition plain_byte (c : N) : bool := negb (memb c [0; 34; 38; 39; 43; 60; 62]).
Definition entities6 : list bytes :=
  [s2b "&#34;"; s2b "&amp;"; s2b "&#39;"; s2b "&#43;"; s2b "&lt;"; s2b "&gt;"].
Definition fffd : bytes := [239; 191; 189].

Definition chunk_ok (ch : bytes) : Prop :=
  (exists c, ch = [c] /\ plain_byte c = true) \/ In ch entities6 \/ ch = fffd.

Definition html_chunks (s : bytes) : list bytes := map esc1 s.

Lemma esc1_cases c : chunk_ok (esc1 c).
Proof.
  unfold chunk_ok, esc1.
  destruct (c =? 0) eqn:E0; [right; right; reflexivity|].
  destruct (c =? 34) eqn:E1; [right; left; simpl; tauto|].
  destruct (c =? 38) eqn:E2; [right; left; simpl; tauto|].
  destruct (c =? 39) eqn:E3; [right; left; simpl; tauto|].
  destruct (c =? 43) eqn:E4; [right; left; simpl; tauto|].
  destruct (c =? 60) eqn:E5; [right; left; simpl; tauto|].
  destruct (c =? 62) eqn:E6; [right; left; simpl; tauto|].
  left. exists c. split; [reflexivity|]. unfold plain_byte, memb. simpl. now rewrite E0, E1, E2, E3, E4, E5, E6.
Qed.

Theorem text_chunks : forall s, Forall chunk_ok (html_chunks s) /\ List.concat (html_chunks s) = html_escape s.
Proof.
  intros s. split.
  - unfold html_chunks. apply Forall_forall. intros ch Hin. apply in_map_iff in Hin as [c [<- _]]. apply esc1_cases.
  - unfold html_chunks. rewrite html_escape_eq. symmetry. apply flat_map_concat_map.
Qed.

(* the bytes of a legal chunk *)
Lemma chunk_bytes ch x : chunk_ok ch -> In x ch ->
  (plain_byte x = true /\ ch = [x]) \/ In x [38; 35; 51; 52; 59; 97; 109; 112; 57; 108; 116; 103; 239; 191; 189].
Proof.
  intros [[c [-> Hp]]|[He| ->]] Hin.
  - left. destruct Hin as [<- |[]]. now split.
  - right. simpl in He. repeat (destruct He as [<- |He]; [simpl in Hin; simpl; tauto|]). destruct He.
  - right. simpl in Hin. simpl. tauto.
Qed.

Lemma html_escape_in s x : In x (html_escape s) ->
  (plain_byte x = true /\ In x s) \/ In x [38; 35; 51; 52; 59; 97; 109; 112; 57; 108; 116; 103; 239; 191; 189].
Proof.
  rewrite html_escape_eq. intros Hin. apply in_flat_map in Hin as [c [Hc Hx]].
  destruct (chunk_bytes _ _ (esc1_cases c) Hx) as [[Hp E]|Hr]; [left|now right].
  split; [assumption|]. unfold esc1 in E.
  repeat match type of E with (if ?b then _ else _) = _ => destruct b; [discriminate|] end.
  injection E as <-. assumption.
Qed.

Theorem text_safe : forall s c, In c (html_escape s) -> c <> 60 /\ c <> 62 /\ c <> 34 /\ c <> 39 /\ c <> 0.
Proof.
  intros s c Hin. apply html_escape_in in Hin as [[Hp _]|Hr].
  - unfold plain_byte, memb in Hp. simpl in Hp. b2p. lia.
  - simpl in Hr. lia.
Qed.

(* every '&' of the output begins one of the six entities *)
Lemma amp_ok_esc1 c rest : amp_ok entities6 (esc1 c ++ rest) = amp_ok entities6 rest.
Proof.
  unfold esc1.
  destruct (c =? 0) eqn:E0; [reflexivity|].
  destruct (c =? 34) eqn:E1; [destruct rest; reflexivity|].
  destruct (c =? 38) eqn:E2; [destruct rest; reflexivity|].
  destruct (c =? 39) eqn:E3; [destruct rest; reflexivity|].
  destruct (c =? 43) eqn:E4; [destruct rest; reflexivity|].
  destruct (c =? 60) eqn:E5; [destruct rest; reflexivity|].
  destruct (c =? 62) eqn:E6; [destruct rest; reflexivity|].
  simpl app. apply amp_ok_single. now apply N.eqb_neq.
Qed.

Lemma amp_ok_html_escape s : amp_ok entities6 (html_escape s) = true.
Proof.
  rewrite html_escape_eq. induction s as [|c s IH]; [reflexivity|].
  simpl flat_map. now rewrite amp_ok_esc1.
Qed.

Theorem text_amp : forall s pre post, html_escape s = pre ++ 38 :: post ->
  exists e, In e entities6 /\ has_prefix (38 :: post) e = true.
Proof. intros s pre post E. exact (amp_ok_spec entities6 pre _ post (amp_ok_html_escape s) E). Qed.

(* ================================================================== *)
(* 2. url_normalize                                                    *)
(* ================================================================== *)
Definition url_keep (c : N) : bool := memb c (s2b "!#$&*+,/:;=?@[]-._~") || is_alnum c.

Lemma url_normalize_cons c t :
  url_normalize (c :: t) =
  if url_keep c then c :: url_normalize t
  else if (c =? 37) && (match t with h1 :: h2 :: _ => is_hex h1 && is_hex h2 | _ => false end)
       then c :: url_normalize t
       else pct false c ++ url_normalize t.
Proof.
  unfold url_keep. cbn [url_normalize].
  destruct (memb c (s2b "!#$&*+,/:;=?@[]-._~") || is_alnum c); [reflexivity|].
  destruct (c =? 37); [|reflexivity].
  destruct t as [|h1 [|h2 t]]; try reflexivity.
  destruct (is_hex h1 && is_hex h2); reflexivity.
Qed.

Lemma url_normalize_keep c t : url_keep c = true -> url_normalize (c :: t) = c :: url_normalize t.
Proof. intros H. now rewrite url_normalize_cons, H. Qed.

Lemma url_keep_safe c : url_keep c = true -> url_safe c = true.
Proof. unfold url_keep. intros H. byte_lia. Qed.

Lemma hex_url_keep c : is_hex c = true -> url_keep c = true.
Proof. unfold url_keep. intros H. byte_lia. Qed.

Lemma url_keep_ne37 c : url_keep c = true -> c <> 37.
Proof. unfold url_keep. intros H. byte_lia. Qed.

(* the three bytes of a lower-case escape *)
Lemma pct_false_in c x : In x (pct false c) -> x = 37 \/ x = hex_digit false (c / 16) \/ x = hex_digit false (c mod 16).
Proof. unfold pct. simpl. intuition. Qed.

Theorem attr_safe : forall u, bytes_ok u = true -> forall c, In c (url_normalize u) -> url_safe c = true.
Proof.
  induction u as [|a u IH]; intros Hok c Hin; [destruct Hin|].
  simpl in Hok. apply andb_true_iff in Hok as [Ha Hu]. apply N.ltb_lt in Ha.
  rewrite url_normalize_cons in Hin.
  destruct (url_keep a) eqn:Ek.
  - destruct Hin as [<- |Hin]; [now apply url_keep_safe|now apply IH].
  - destruct ((a =? 37) && _) eqn:E37.
    + destruct Hin as [<- |Hin]; [|now apply IH].
      apply andb_true_iff in E37 as [E37 _]. apply N.eqb_eq in E37. subst a. reflexivity.
    + apply in_app_or in Hin as [Hin|Hin]; [|now apply IH].
      apply pct_false_in in Hin as [-> |[-> | ->]]; [reflexivity| |].
      * apply hex_url_safe, lower_hex_is_hex, hex_digit_lower, div16_lt, Ha.
      * apply hex_url_safe, lower_hex_is_hex, hex_digit_lower, mod16_lt.
Qed.

(* without the range hypothesis: safe, or some byte >= 103 (never a delimiter) *)
Theorem attr_no_danger : forall u c, In c (url_normalize u) -> attr_danger c = false.
Proof.
  induction u as [|a u IH]; intros c Hin; [destruct Hin|].
  rewrite url_normalize_cons in Hin.
  destruct (url_keep a) eqn:Ek.
  - destruct Hin as [<- |Hin]; [now apply url_safe_not_danger, url_keep_safe|now apply IH].
  - destruct ((a =? 37) && _) eqn:E37.
    + destruct Hin as [<- |Hin]; [|now apply IH].
      apply andb_true_iff in E37 as [E37 _]. apply N.eqb_eq in E37. subst a. reflexivity.
    + apply in_app_or in Hin as [Hin|Hin]; [|now apply IH].
      apply pct_false_in in Hin as [-> |[-> | ->]]; [reflexivity| |].
      * destruct (hex_digit_lower_any (a / 16)) as [H|H].
        -- now apply url_safe_not_danger, hex_url_safe, lower_hex_is_hex.
        -- unfold attr_danger. b2p. lia.
      * destruct (hex_digit_lower_any (a mod 16)) as [H|H].
        -- now apply url_safe_not_danger, hex_url_safe, lower_hex_is_hex.
        -- unfold attr_danger. b2p. lia.
Qed.

Theorem attr_pct_ok : forall u, bytes_ok u = true -> pct_ok is_hex (url_normalize u) = true.
Proof.
  induction u as [|a u IH]; intros Hok; [reflexivity|].
  simpl in Hok. apply andb_true_iff in Hok as [Ha Hu]. apply N.ltb_lt in Ha. specialize (IH Hu).
  rewrite url_normalize_cons.
  destruct (url_keep a) eqn:Ek.
  - rewrite pct_ok_single; [assumption|now apply url_keep_ne37].
  - destruct ((a =? 37) && _) eqn:E37.
    + apply andb_true_iff in E37 as [E37 Eh]. apply N.eqb_eq in E37. subst a.
      destruct u as [|h1 [|h2 u']]; try discriminate.
      apply andb_true_iff in Eh as [Eh1 Eh2].
      rewrite (url_normalize_keep h1) in * by now apply hex_url_keep.
      rewrite (url_normalize_keep h2) in * by now apply hex_url_keep.
      rewrite pct_ok_triple by (assumption || now apply hex_ne37).
      rewrite !pct_ok_single in IH by now apply hex_ne37. assumption.
    + unfold pct. simpl app.
      assert (H1 : is_hex (hex_digit false (a / 16)) = true) by apply lower_hex_is_hex, hex_digit_lower, div16_lt, Ha.
      assert (H2 : is_hex (hex_digit false (a mod 16)) = true) by apply lower_hex_is_hex, hex_digit_lower, mod16_lt.
      rewrite pct_ok_triple by (assumption || now apply hex_ne37). assumption.
Qed.

Theorem attr_pct : forall u pre post, bytes_ok u = true -> url_normalize u = pre ++ 37 :: post ->
  exists h1 h2 r, post = h1 :: h2 :: r /\ is_hex h1 = true /\ is_hex h2 = true.
Proof. intros u pre post Hok E. exact (pct_ok_spec is_hex pre _ post (attr_pct_ok u Hok) E). Qed.

(* the hypothesis is needed: 592 = 37 * 16 is not a byte and prints as "%|0" *)
Lemma url_normalize_needs_bytes_ok :
  url_normalize [592] = [37; 124; 48] /\ url_safe 124 = false /\ is_hex 124 = false.
Proof. vm_compute. repeat split. Qed.

(* what reaches the document between the quotes of href="..." *)
Theorem href_safe : forall u c, In c (href_attr u) ->
  c <> 34 /\ c <> 39 /\ c <> 60 /\ c <> 62 /\ c <> 32 /\ 32 <= c.
Proof.
  intros u c Hin. unfold href_attr in Hin. apply html_escape_in in Hin as [[_ Hin]|Hr].
  - apply attr_no_danger in Hin. unfold attr_danger in Hin. b2p. lia.
  - simpl in Hr. lia.
Qed.
