(* Model/UI.v — internal/ui.go and the two console writers of
   internal/main.go.  Output is a list of tokens (palette slot or text) that
   is flattened with a palette; fmt's %-*s pads to a RUNE count
   (utf8.RuneCountInString: an invalid byte counts as one rune). *)
From PP Require Import Base.Bytes Base.BytesX Base.Num Base.GoResult Model.Types.

(* ---- utf8.RuneCountInString ---- *)
Definition in_range (lo hi c : N) : bool := N.leb lo c && N.leb c hi.
Definition cont (c : N) : bool := in_range 128 191 c.

(* width of the rune at the head of s (1 for invalid encodings) *)
Definition rune_width (s : bytes) : nat :=
  match s with
  | [] => 0
  | c :: t =>
      if N.ltb c 128 then 1 else
      if in_range 194 223 c then
        match t with c1 :: _ => if cont c1 then 2 else 1 | _ => 1 end
      else if in_range 224 239 c then
        match t with
        | c1 :: c2 :: _ =>
            let lo : N := if N.eqb c 224 then 160%N else 128%N in
            let hi : N := if N.eqb c 237 then 159%N else 191%N in
            if in_range lo hi c1 && cont c2 then 3 else 1
        | _ => 1
        end
      else if in_range 240 244 c then
        match t with
        | c1 :: c2 :: c3 :: _ =>
            let lo : N := if N.eqb c 240 then 144%N else 128%N in
            let hi : N := if N.eqb c 244 then 143%N else 191%N in
            if in_range lo hi c1 && cont c2 && cont c3 then 4 else 1
        | _ => 1
        end
      else 1
  end.

Fixpoint rune_count_go (fuel : nat) (s : bytes) : nat :=
  match fuel with
  | O => 0
  | S f => match s with [] => 0 | _ => S (rune_count_go f (skipn (rune_width s) s)) end
  end.
Definition rune_count (s : bytes) : nat := rune_count_go (List.length s) s.

(* fmt "%-*s": pad on the right with spaces up to [w] runes *)
Definition pad_right (w : nat) (s : bytes) : bytes := s ++ repeat 32%N (w - rune_count s).

(* ---- Arg.String / Args.String, stack/stack.go:153,236 ---- *)
Fixpoint arg_string (a : Arg) : bytes :=
  match a with
  | MkArg ag n v _ tl _ fv fp fe =>
      match n with
      | _ :: _ => n
      | [] =>
          if tl then s2b "_" else
          if ag then
            s2b "{" ++
            (match fp with
             | _ :: _ => join (fp ++ (if fe then [s2b "..."] else [])) (s2b ", ")
             | [] => join ((fix go (l : list Arg) : list bytes :=
                              match l with [] => [] | x :: l' => arg_string x :: go l' end) fv
                           ++ (if fe then [s2b "..."] else [])) (s2b ", ")
             end) ++ s2b "}"
          else if N.ltb v 10 then [48 + v]%N
          else s2b "0x" ++ N_to_hex false v
      end
  end.

Definition args_string (a : Args) : bytes :=
  let v := match Processed a with
           | _ :: _ => Processed a
           | [] => map arg_string (Values a)
           end in
  join (v ++ (if Elided a then [s2b "..."] else [])) (s2b ", ").

(* ---- palette ---- *)
Inductive slot :=
| PEOLReset | PRoutineFirst | PRoutine | PCreatedBy | PRace | PPackage | PSrcFile | PFuncMain
| PFuncLocationUnknown | PFuncLocationUnknownExported | PFuncGoMod | PFuncGoModExported
| PFuncGOPATH | PFuncGOPATHExported | PFuncGoPkg | PFuncGoPkgExported | PFuncStdLib | PFuncStdLibExported
| PArguments.

Definition slot_index (s : slot) : nat :=
  match s with
  | PEOLReset => 0 | PRoutineFirst => 1 | PRoutine => 2 | PCreatedBy => 3 | PRace => 4 | PPackage => 5
  | PSrcFile => 6 | PFuncMain => 7 | PFuncLocationUnknown => 8 | PFuncLocationUnknownExported => 9
  | PFuncGoMod => 10 | PFuncGoModExported => 11 | PFuncGOPATH => 12 | PFuncGOPATHExported => 13
  | PFuncGoPkg => 14 | PFuncGoPkgExported => 15 | PFuncStdLib => 16 | PFuncStdLibExported => 17
  | PArguments => 18
  end.

(* a palette is the list of the 19 strings in slot order *)
Definition palette := list bytes.
Definition pal (p : palette) (s : slot) : bytes := nth (slot_index s) p [].
Definition empty_palette : palette := [].

Inductive token := Col (s : slot) | Txt (b : bytes).
Definition flatten (p : palette) (ts : list token) : bytes :=
  flat_map (fun t => match t with Col s => pal p s | Txt b => b end) ts.

(* ---- pathFormat ---- *)
Inductive path_format := FullPath | RelPath | BasePath.

Definition with_line (path : bytes) (line : Z) : bytes := path ++ s2b ":" ++ Z_to_dec line.

Definition format_call (pf : path_format) (c : Call) : bytes :=
  let full := match LocalSrcPath c with _ :: _ => with_line (LocalSrcPath c) (Line c) | [] => with_line (RemoteSrcPath c) (Line c) end in
  match pf with
  | RelPath => match RelSrcPath c with _ :: _ => with_line (RelSrcPath c) (Line c) | [] => full end
  | FullPath => full
  | BasePath => with_line (SrcName c) (Line c)
  end.

Definition created_by_string (pf : path_format) (s : Signature) : bytes :=
  match Calls (CreatedBy s) with
  | [] => []
  | c :: _ => DirName (CFunc c) ++ s2b "." ++ FName (CFunc c) ++ s2b " @ " ++ format_call pf c
  end.

(* calcBucketsLengths / calcGoroutinesLengths: BYTE lengths *)
Definition calc_lengths (pf : path_format) (sigs : list Signature) : nat * nat :=
  fold_left (fun '(sl, pl) c =>
               (Nat.max sl (List.length (format_call pf c)), Nat.max pl (List.length (DirName (CFunc c)))))
            (flat_map (fun s => Calls (SStack s)) sigs) (0, 0).

Definition func_slot (c : Call) : slot :=
  if IsPkgMain (CFunc c) then PFuncMain else
  let e := IsExported (CFunc c) in
  match CLocation c with
  | LocationUnknown => if e then PFuncLocationUnknownExported else PFuncLocationUnknown
  | GoMod => if e then PFuncGoModExported else PFuncGoMod
  | GOPATH => if e then PFuncGOPATHExported else PFuncGOPATH
  | GoPkg => if e then PFuncGoPkgExported else PFuncGoPkg
  | Stdlib => if e then PFuncStdLibExported else PFuncStdLib
  end.

Definition sleep_string (s : Signature) : bytes :=
  if Z.eqb (SleepMax s) 0 then [] else
  if negb (Z.eqb (SleepMin s) (SleepMax s)) then Z_to_dec (SleepMin s) ++ s2b "~" ++ Z_to_dec (SleepMax s) ++ s2b " minutes"
  else Z_to_dec (SleepMax s) ++ s2b " minutes".

Definition header_extra (pf : path_format) (s : Signature) : list token :=
  (match sleep_string s with [] => [] | x => [Txt (s2b " [" ++ x ++ s2b "]")] end) ++
  (if Locked s then [Txt (s2b " [locked]")] else []) ++
  (match created_by_string pf s with [] => [] | c => [Col PCreatedBy; Txt (s2b " [Created by " ++ c ++ s2b "]")] end).

Definition routine_slot (first multi : bool) : slot := if first && multi then PRoutineFirst else PRoutine.

Definition bucket_header (pf : path_format) (multi : bool) (b : Bucket) : list token :=
  [Col (routine_slot (BFirst b) multi); Txt (N_to_dec (N.of_nat (List.length (IDs b))) ++ s2b ": " ++ State (BSig b))] ++
  header_extra pf (BSig b) ++ [Col PEOLReset; Txt [LF]].

Definition goroutine_header (pf : path_format) (multi : bool) (g : Goroutine) : list token :=
  [Col (routine_slot (First g) multi); Txt (Z_to_dec (ID g) ++ s2b ": " ++ State (GSig g))] ++
  header_extra pf (GSig g) ++
  (if N.eqb (RaceAddr g) 0 then [] else
     [Col PEOLReset; Col PRace;
      Txt (s2b " Race " ++ (if RaceWrite g then s2b "write" else s2b "read") ++ s2b " @ 0x" ++ N_to_hex08 false (RaceAddr g))]) ++
  [Col PEOLReset; Txt [LF]].

Definition call_line (pf : path_format) (srcLen pkgLen : nat) (c : Call) : list token :=
  [Txt (s2b "    "); Col PPackage; Txt (pad_right pkgLen (DirName (CFunc c)) ++ s2b " ");
   Col PSrcFile; Txt (pad_right srcLen (format_call pf c) ++ s2b " ");
   Col (func_slot c); Txt (FName (CFunc c)); Col PArguments; Txt (s2b "(" ++ args_string (CArgs c) ++ s2b ")");
   Col PEOLReset].

(* StackLines: lines joined with LF plus a final LF *)
Definition stack_lines (pf : path_format) (srcLen pkgLen : nat) (s : Signature) : list token :=
  let ls := map (call_line pf srcLen pkgLen) (Calls (SStack s)) ++
            (if SElided (SStack s) then [[Txt (s2b "    (...)")]] else []) in
  (fix go (l : list (list token)) : list token :=
     match l with
     | [] => []
     | [x] => x
     | x :: l' => x ++ Txt [LF] :: go l'
     end) ls ++ [Txt [LF]].

Definition banner : bytes :=
  [LF] ++ s2b "To see all goroutines, visit https://github.com/maruel/panicparse#gotraceback" ++ [LF; LF].

(* filter / match are predicates on the FLATTENED header (the regexps see the colour codes) *)
Section Writers.
  Variable p : palette.
  Variable filter : option (bytes -> bool).
  Variable matchp : option (bytes -> bool).

  Definition admitted (header : list token) : bool :=
    let h := flatten p header in
    (match filter with Some f => negb (f h) | None => true end) &&
    (match matchp with Some m => m h | None => true end).

  Definition write_buckets (pf : path_format) (needs_env : bool) (bs : list Bucket) : list token :=
    let '(srcLen, pkgLen) := calc_lengths pf (map BSig bs) in
    let multi := Nat.ltb 1 (List.length bs) in
    (if needs_env then [Txt banner] else []) ++
    flat_map (fun b => let h := bucket_header pf multi b in
                       if admitted h then h ++ stack_lines pf srcLen pkgLen (BSig b) else []) bs.

  Definition write_goroutines (pf : path_format) (needs_env : bool) (gs : list Goroutine) : list token :=
    let '(srcLen, pkgLen) := calc_lengths pf (map GSig gs) in
    let multi := Nat.ltb 1 (List.length gs) in
    (if needs_env then [Txt banner] else []) ++
    flat_map (fun g => let h := goroutine_header pf multi g in
                       if admitted h then h ++ stack_lines pf srcLen pkgLen (GSig g) else []) gs.
End Writers.
