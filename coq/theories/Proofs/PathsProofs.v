(* Proofs/PathsProofs.v — proofs for C18 (path rebasing): shape of
   Call.updateLocations, longest root wins, roots are backed by the disk,
   guessPaths preserves everything else, reModule facts. *)
From PP Require Import Base.Bytes Base.BytesX Base.GoResult Model.Types Model.Stack Model.Bucket Model.Paths.
From PP Require Import Proofs.Order Proofs.PathsBase.
From Coq Require Import Permutation Sorted.

(* ====================================================================== *)
(* 1. the shape of update_call                                              *)
(* ====================================================================== *)

Definition is_prefix (p s : bytes) : Prop := exists r, s = p ++ r.

(* the fields update_call never touches *)
Definition same_core (c c' : Call) : Prop :=
  CFunc c' = CFunc c /\ CArgs c' = CArgs c /\ RemoteSrcPath c' = RemoteSrcPath c /\
  Line c' = Line c /\ SrcName c' = SrcName c /\ DirSrc c' = DirSrc c.

(* the directory part of rel when rel contains a '/', else the old import path *)
Definition dir_import (c : Call) (rel : bytes) : bytes :=
  match import_of_rel rel with Some i => i | None => CImportPath c end.

(* the module import path extended with the directory part of rel *)
Definition mod_import (pkg rel : bytes) : bytes :=
  match import_of_rel rel with Some i => pkg ++ [b_slash] ++ i | None => pkg end.

(* a call that is already classified keeps its class *)
Definition classify (c : Call) (loc : Location) : Location :=
  match CLocation c with LocationUnknown => loc | l => l end.

Definition goroot_miss (goroot rsp : bytes) : Prop :=
  goroot = [] \/ forall rel, rsp <> goroot ++ s2b "/src/" ++ rel.
Definition gopath_entry_miss (rsp p : bytes) : Prop :=
  (forall rel, rsp <> p ++ s2b "/src/" ++ rel) /\ (forall rel, rsp <> p ++ s2b "/pkg/mod/" ++ rel).
Definition gopaths_miss (gopaths : list (bytes * bytes)) (rsp : bytes) : Prop :=
  forall p d, In (p, d) gopaths -> gopath_entry_miss rsp p.
Definition gomods_miss (gomods : list (bytes * bytes)) (rsp : bytes) : Prop :=
  forall p k, In (p, k) gomods -> forall rel, rsp <> p ++ s2b "/" ++ rel.

(* the key [prefix] is at least as long as every other key of the table that matches *)
Definition gopath_longest (gopaths : list (bytes * bytes)) (rsp prefix : bytes) : Prop :=
  forall p d, In (p, d) gopaths ->
    is_prefix (p ++ s2b "/src/") rsp \/ is_prefix (p ++ s2b "/pkg/mod/") rsp ->
    List.length p <= List.length prefix.
Definition gomod_longest (gomods : list (bytes * bytes)) (rsp prefix : bytes) : Prop :=
  forall p k, In (p, k) gomods -> is_prefix (p ++ s2b "/") rsp -> List.length p <= List.length prefix.

Inductive update_case (goroot localgoroot : bytes) (gopaths gomods : list (bytes * bytes)) (c c' : Call) : Prop :=
| UC_unchanged :
    c' = c ->
    RemoteSrcPath c = [] \/
      (goroot_miss goroot (RemoteSrcPath c) /\ gopaths_miss gopaths (RemoteSrcPath c) /\
       gomods_miss gomods (RemoteSrcPath c)) ->
    update_case goroot localgoroot gopaths gomods c c'
| UC_goroot (rel : bytes) :
    goroot <> [] ->
    RemoteSrcPath c = goroot ++ s2b "/src/" ++ rel ->
    LocalSrcPath c' = localgoroot ++ s2b "/src/" ++ rel ->
    RelSrcPath c' = rel ->
    CImportPath c' = dir_import c rel ->
    CLocation c' = classify c Stdlib ->
    same_core c c' ->
    update_case goroot localgoroot gopaths gomods c c'
| UC_gopath (prefix dest rel : bytes) :
    RemoteSrcPath c <> [] ->
    goroot_miss goroot (RemoteSrcPath c) ->
    In (prefix, dest) gopaths ->
    gopath_longest gopaths (RemoteSrcPath c) prefix ->
    RemoteSrcPath c = prefix ++ s2b "/src/" ++ rel ->
    LocalSrcPath c' = dest ++ s2b "/src/" ++ rel ->
    RelSrcPath c' = rel ->
    CImportPath c' = dir_import c rel ->
    CLocation c' = classify c GOPATH ->
    same_core c c' ->
    update_case goroot localgoroot gopaths gomods c c'
| UC_gopkg (prefix dest rel : bytes) :
    RemoteSrcPath c <> [] ->
    goroot_miss goroot (RemoteSrcPath c) ->
    In (prefix, dest) gopaths ->
    gopath_longest gopaths (RemoteSrcPath c) prefix ->
    RemoteSrcPath c = prefix ++ s2b "/pkg/mod/" ++ rel ->
    LocalSrcPath c' = dest ++ s2b "/pkg/mod/" ++ rel ->
    RelSrcPath c' = rel ->
    CImportPath c' = dir_import c rel ->
    CLocation c' = classify c GoPkg ->
    same_core c c' ->
    update_case goroot localgoroot gopaths gomods c c'
| UC_gomod (prefix pkg rel : bytes) :
    RemoteSrcPath c <> [] ->
    goroot_miss goroot (RemoteSrcPath c) ->
    gopaths_miss gopaths (RemoteSrcPath c) ->
    In (prefix, pkg) gomods ->
    gomod_longest gomods (RemoteSrcPath c) prefix ->
    RemoteSrcPath c = prefix ++ s2b "/" ++ rel ->
    LocalSrcPath c' = RemoteSrcPath c ->
    RelSrcPath c' = rel ->
    CImportPath c' = mod_import pkg rel ->
    CLocation c' = classify c GoMod ->
    same_core c c' ->
    update_case goroot localgoroot gopaths gomods c c'.

(* stand-alone copies of the two local loops *)
Definition gp_find (c : Call) (rsp : bytes) : list (bytes * bytes) -> option Call :=
  fix gp_find (l : list (bytes * bytes)) : option Call :=
  match l with
  | [] => None
  | (prefix, dest) :: l' =>
      match strip_prefix (prefix ++ s2b "/src/") rsp with
      | Some rel => Some (set_loc c (path_join [dest; s2b "src"; rel]) rel (dir_import c rel) GOPATH)
      | None =>
          match strip_prefix (prefix ++ s2b "/pkg/mod/") rsp with
          | Some rel => Some (set_loc c (path_join [dest; s2b "pkg/mod"; rel]) rel (dir_import c rel) GoPkg)
          | None => gp_find l'
          end
      end
  end.

Definition gm_find (c : Call) (rsp : bytes) : list (bytes * bytes) -> option Call :=
  fix gm_find (l : list (bytes * bytes)) : option Call :=
  match l with
  | [] => None
  | (prefix, pkg) :: l' =>
      match strip_prefix (prefix ++ [b_slash]) rsp with
      | Some rel => Some (set_loc c rsp rel (mod_import pkg rel) GoMod)
      | None => gm_find l'
      end
  end.

Lemma update_call_eq goroot localgoroot gopaths gomods c :
  update_call goroot localgoroot gopaths gomods c =
  match RemoteSrcPath c with
  | [] => c
  | rsp =>
      match (match goroot with [] => None | _ => strip_prefix (goroot ++ s2b "/src/") rsp end) with
      | Some rel => set_loc c (path_join [localgoroot; s2b "src"; rel]) rel (dir_import c rel) Stdlib
      | None =>
          match gp_find c rsp (sorted_roots gopaths) with
          | Some c' => c'
          | None => match gm_find c rsp (sorted_roots gomods) with Some c' => c' | None => c end
          end
      end
  end.
Proof. reflexivity. Qed.

Lemma same_core_set_loc c l r i loc : same_core c (set_loc c l r i loc).
Proof. unfold same_core, set_loc. simpl. repeat split. Qed.

(* first hit in a list: everything before it misses *)
Lemma gp_find_some c rsp l c' : gp_find c rsp l = Some c' ->
  exists l1 prefix dest l2 rel, l = l1 ++ (prefix, dest) :: l2 /\
    (forall p d, In (p, d) l1 -> gopath_entry_miss rsp p) /\
    ((rsp = prefix ++ s2b "/src/" ++ rel /\
      c' = set_loc c (dest ++ s2b "/src/" ++ rel) rel (dir_import c rel) GOPATH) \/
     (rsp = prefix ++ s2b "/pkg/mod/" ++ rel /\
      c' = set_loc c (dest ++ s2b "/pkg/mod/" ++ rel) rel (dir_import c rel) GoPkg)).
Proof.
  induction l as [|[prefix dest] l IH]; simpl; intros H; [discriminate H|].
  destruct (strip_prefix (prefix ++ s2b "/src/") rsp) as [rel|] eqn:E1.
  - injection H as <-. apply strip_prefix_some in E1. rewrite <- app_assoc in E1.
    exists [], prefix, dest, l, rel. split; [reflexivity|]. split; [intros p d []|].
    left. split; [exact E1|reflexivity].
  - destruct (strip_prefix (prefix ++ s2b "/pkg/mod/") rsp) as [rel|] eqn:E2.
    + injection H as <-. apply strip_prefix_some in E2. rewrite <- app_assoc in E2.
      exists [], prefix, dest, l, rel. split; [reflexivity|]. split; [intros p d []|].
      right. split; [exact E2|reflexivity].
    + destruct (IH H) as (l1 & p0 & d0 & l2 & rel & -> & Hm & Hc).
      exists ((prefix, dest) :: l1), p0, d0, l2, rel. split; [reflexivity|]. split; [|exact Hc].
      intros p d [Hpd|Hpd]; [|apply (Hm p d Hpd)].
      injection Hpd as <- <-. split; intros r Hr.
      * rewrite app_assoc in Hr. apply (proj1 (strip_prefix_none _ _) E1 r Hr).
      * rewrite app_assoc in Hr. apply (proj1 (strip_prefix_none _ _) E2 r Hr).
Qed.

Lemma gp_find_none c rsp l : gp_find c rsp l = None -> gopaths_miss l rsp.
Proof.
  induction l as [|[prefix dest] l IH]; simpl; intros H p d Hin; [contradiction|].
  destruct (strip_prefix (prefix ++ s2b "/src/") rsp) as [rel|] eqn:E1; [discriminate H|].
  destruct (strip_prefix (prefix ++ s2b "/pkg/mod/") rsp) as [rel|] eqn:E2; [discriminate H|].
  destruct Hin as [Hpd|Hin]; [|apply (IH H p d Hin)].
  injection Hpd as <- <-. split; intros r Hr.
  - rewrite app_assoc in Hr. apply (proj1 (strip_prefix_none _ _) E1 r Hr).
  - rewrite app_assoc in Hr. apply (proj1 (strip_prefix_none _ _) E2 r Hr).
Qed.

Lemma gm_find_some c rsp l c' : gm_find c rsp l = Some c' ->
  exists l1 prefix pkg l2 rel, l = l1 ++ (prefix, pkg) :: l2 /\
    (forall p k, In (p, k) l1 -> forall r, rsp <> p ++ s2b "/" ++ r) /\
    rsp = prefix ++ s2b "/" ++ rel /\
    c' = set_loc c rsp rel (mod_import pkg rel) GoMod.
Proof.
  induction l as [|[prefix pkg] l IH]; simpl; intros H; [discriminate H|].
  destruct (strip_prefix (prefix ++ [b_slash]) rsp) as [rel|] eqn:E1.
  - injection H as <-. apply strip_prefix_some in E1. rewrite <- app_assoc in E1.
    exists [], prefix, pkg, l, rel. split; [reflexivity|]. split; [intros p d []|].
    split; [exact E1|reflexivity].
  - destruct (IH H) as (l1 & p0 & d0 & l2 & rel & -> & Hm & Hc).
    exists ((prefix, pkg) :: l1), p0, d0, l2, rel. split; [reflexivity|]. split; [|exact Hc].
    intros p d [Hpd|Hpd]; [|apply (Hm p d Hpd)].
    injection Hpd as <- <-. intros r Hr.
    apply (proj1 (strip_prefix_none _ _) E1 r). rewrite <- app_assoc. exact Hr.
Qed.

Lemma gm_find_none c rsp l : gm_find c rsp l = None -> gomods_miss l rsp.
Proof.
  induction l as [|[prefix pkg] l IH]; simpl; intros H p d Hin; [contradiction|].
  destruct (strip_prefix (prefix ++ [b_slash]) rsp) as [rel|] eqn:E1; [discriminate H|].
  destruct Hin as [Hpd|Hin]; [|apply (IH H p d Hin)].
  injection Hpd as <- <-. intros r Hr.
  apply (proj1 (strip_prefix_none _ _) E1 r). rewrite <- app_assoc. exact Hr.
Qed.

(* in a table sorted by sortedRoots, the first hit has the longest key *)
Lemma sorted_first_longest (l1 l2 : list (bytes * bytes)) e (hit : bytes -> Prop) :
  StronglySorted root_no_inv (l1 ++ e :: l2) ->
  (forall p d, In (p, d) l1 -> ~ hit p) ->
  forall p d, In (p, d) (l1 ++ e :: l2) -> hit p -> List.length p <= List.length (fst e).
Proof.
  intros Hs Hm p d Hin Hh.
  apply in_app_or in Hin as [Hin|Hin]; [exfalso; apply (Hm p d Hin Hh)|].
  destruct Hin as [He|Hin]; [subst e; simpl; lia|].
  assert (Hs2 : StronglySorted root_no_inv (e :: l2)).
  { clear -Hs. induction l1 as [|x l1 IH]; [exact Hs|]. apply IH. simpl in Hs.
    apply StronglySorted_inv in Hs as [Hs _]. exact Hs. }
  apply StronglySorted_inv in Hs2 as [_ Hf]. rewrite Forall_forall in Hf.
  apply (root_no_inv_length e (p, d)). apply Hf. exact Hin.
Qed.

Theorem update_shape goroot localgoroot gopaths gomods c :
  update_case goroot localgoroot gopaths gomods c (update_call goroot localgoroot gopaths gomods c).
Proof.
  rewrite update_call_eq.
  destruct (RemoteSrcPath c) as [|x0 rsp0] eqn:Ersp.
  { apply UC_unchanged; [reflexivity|left; exact Ersp]. }
  cbv zeta. set (rsp := x0 :: rsp0) in *.
  assert (Hne : RemoteSrcPath c <> []) by (rewrite Ersp; discriminate).
  destruct (match goroot with [] => None | _ => strip_prefix (goroot ++ s2b "/src/") rsp end)
    as [rel|] eqn:Eg.
  { assert (Hg : goroot <> []) by (intros ->; discriminate Eg).
    destruct goroot as [|g0 goroot]; [contradiction|].
    apply strip_prefix_some in Eg. rewrite <- app_assoc in Eg.
    apply (UC_goroot _ _ _ _ _ _ rel); try reflexivity; [exact Hg|rewrite Ersp; exact Eg|apply same_core_set_loc]. }
  assert (Hgm : goroot_miss goroot (RemoteSrcPath c)).
  { destruct goroot as [|g0 goroot]; [left; reflexivity|right].
    intros r Hr. rewrite Ersp in Hr. fold rsp in Hr. rewrite app_assoc in Hr.
    apply (proj1 (strip_prefix_none _ _) Eg r Hr). }
  destruct (gp_find c rsp (sorted_roots gopaths)) as [c'|] eqn:Egp.
  { apply gp_find_some in Egp as (l1 & prefix & dest & l2 & rel & El & Hm & Hc).
    assert (Hin : In (prefix, dest) gopaths).
    { apply sorted_roots_in. rewrite El. apply in_or_app. right. left. reflexivity. }
    assert (Hl : gopath_longest gopaths (RemoteSrcPath c) prefix).
    { intros p d Hpd Hh.
      apply (sorted_first_longest l1 l2 (prefix, dest)
               (fun p => is_prefix (p ++ s2b "/src/") rsp \/ is_prefix (p ++ s2b "/pkg/mod/") rsp)) with (d := d).
      - rewrite <- El. apply sorted_roots_sorted.
      - intros p' d' Hin' [[r Hr]|[r Hr]]; destruct (Hm p' d' Hin') as [M1 M2].
        + rewrite <- app_assoc in Hr. apply (M1 r Hr).
        + rewrite <- app_assoc in Hr. apply (M2 r Hr).
      - rewrite <- El. apply sorted_roots_in. exact Hpd.
      - rewrite Ersp in Hh. exact Hh. }
    destruct Hc as [[Hr ->]|[Hr ->]].
    - apply (UC_gopath _ _ _ _ _ _ prefix dest rel); try reflexivity;
        [exact Hne|exact Hgm|exact Hin|exact Hl|rewrite Ersp; exact Hr|apply same_core_set_loc].
    - apply (UC_gopkg _ _ _ _ _ _ prefix dest rel); try reflexivity;
        [exact Hne|exact Hgm|exact Hin|exact Hl|rewrite Ersp; exact Hr|apply same_core_set_loc]. }
  assert (Hpm : gopaths_miss gopaths (RemoteSrcPath c)).
  { intros p d Hpd. rewrite Ersp. apply (gp_find_none c rsp _ Egp p d). apply sorted_roots_in. exact Hpd. }
  destruct (gm_find c rsp (sorted_roots gomods)) as [c'|] eqn:Egm.
  { apply gm_find_some in Egm as (l1 & prefix & pkg & l2 & rel & El & Hm & Hr & ->).
    assert (Hin : In (prefix, pkg) gomods).
    { apply sorted_roots_in. rewrite El. apply in_or_app. right. left. reflexivity. }
    assert (Hl : gomod_longest gomods (RemoteSrcPath c) prefix).
    { intros p d Hpd Hh.
      apply (sorted_first_longest l1 l2 (prefix, pkg) (fun p => is_prefix (p ++ s2b "/") rsp)) with (d := d).
      - rewrite <- El. apply sorted_roots_sorted.
      - intros p' d' Hin' [r Hr']. rewrite <- app_assoc in Hr'. apply (Hm p' d' Hin' r Hr').
      - rewrite <- El. apply sorted_roots_in. exact Hpd.
      - rewrite Ersp in Hh. exact Hh. }
    apply (UC_gomod _ _ _ _ _ _ prefix pkg rel); try reflexivity;
      [exact Hne|exact Hgm|exact Hpm|exact Hin|exact Hl|rewrite Ersp; exact Hr|
       simpl; symmetry; exact Ersp|apply same_core_set_loc]. }
  apply UC_unchanged; [reflexivity|right].
  split; [exact Hgm|]. split; [exact Hpm|].
  intros p d Hpd. rewrite Ersp. apply (gm_find_none c rsp _ Egm p d). apply sorted_roots_in. exact Hpd.
Qed.

(* ---------------------------------------------------------------------- *)
(* corollaries of the shape theorem                                        *)
(* ---------------------------------------------------------------------- *)

Lemma is_prefix_intro p r : is_prefix p (p ++ r).
Proof. exists r. reflexivity. Qed.

Theorem update_empty_remote goroot localgoroot gopaths gomods c :
  RemoteSrcPath c = [] -> update_call goroot localgoroot gopaths gomods c = c.
Proof. intros H. unfold update_call. rewrite H. reflexivity. Qed.

(* no table matches: the call is returned as it is *)
Theorem unmatched_unchanged goroot localgoroot gopaths gomods c :
  goroot_miss goroot (RemoteSrcPath c) ->
  gopaths_miss gopaths (RemoteSrcPath c) ->
  gomods_miss gomods (RemoteSrcPath c) ->
  update_call goroot localgoroot gopaths gomods c = c.
Proof.
  intros Hg Hp Hm.
  destruct (update_shape goroot localgoroot gopaths gomods c)
    as [H _|rel Hne Hr _ _ _ _ _|prefix dest rel _ _ Hin _ Hr _ _ _ _ _
        |prefix dest rel _ _ Hin _ Hr _ _ _ _ _|prefix pkg rel _ _ _ Hin _ Hr _ _ _ _ _].
  - exact H.
  - exfalso. destruct Hg as [Hg|Hg]; [contradiction|apply (Hg rel Hr)].
  - exfalso. apply (proj1 (Hp prefix dest Hin) rel Hr).
  - exfalso. apply (proj2 (Hp prefix dest Hin) rel Hr).
  - exfalso. apply (Hm prefix pkg Hin rel Hr).
Qed.

Theorem unmatched_unknown goroot localgoroot gopaths gomods c :
  goroot_miss goroot (RemoteSrcPath c) ->
  gopaths_miss gopaths (RemoteSrcPath c) ->
  gomods_miss gomods (RemoteSrcPath c) ->
  LocalSrcPath c = [] -> RelSrcPath c = [] -> CLocation c = LocationUnknown ->
  let c' := update_call goroot localgoroot gopaths gomods c in
  LocalSrcPath c' = [] /\ RelSrcPath c' = [] /\ CImportPath c' = CImportPath c /\ CLocation c' = LocationUnknown.
Proof.
  intros Hg Hp Hm H1 H2 H3 c'. unfold c'. rewrite (unmatched_unchanged _ _ _ _ _ Hg Hp Hm).
  split; [exact H1|]. split; [exact H2|]. split; [reflexivity|exact H3].
Qed.

(* the three separators between a root and the relative path *)
Definition root_seps : list bytes := [s2b "/src/"; s2b "/pkg/mod/"; s2b "/"].

Theorem local_ends_with_rel goroot localgoroot gopaths gomods c :
  let c' := update_call goroot localgoroot gopaths gomods c in
  LocalSrcPath c' <> [] -> LocalSrcPath c = [] ->
  exists root mid, In mid root_seps /\ LocalSrcPath c' = root ++ mid ++ RelSrcPath c'.
Proof.
  intros c' Hne Hl. unfold c' in *.
  destruct (update_shape goroot localgoroot gopaths gomods c)
    as [H _|rel _ _ HL HR _ _ _|prefix dest rel _ _ _ _ _ HL HR _ _ _
        |prefix dest rel _ _ _ _ _ HL HR _ _ _|prefix pkg rel _ _ _ _ _ Hr HL HR _ _ _].
  - exfalso. apply Hne. rewrite H. exact Hl.
  - exists localgoroot, (s2b "/src/"). rewrite HR. split; [left; reflexivity|exact HL].
  - exists dest, (s2b "/src/"). rewrite HR. split; [left; reflexivity|exact HL].
  - exists dest, (s2b "/pkg/mod/"). rewrite HR. split; [right; left; reflexivity|exact HL].
  - exists prefix, (s2b "/"). rewrite HR, HL. split; [right; right; left; reflexivity|exact Hr].
Qed.

(* in a hit case the matching remote root, followed by its separator and the
   relative path, IS the remote path *)
Theorem remote_root_prefix goroot localgoroot gopaths gomods c :
  let c' := update_call goroot localgoroot gopaths gomods c in
  c' = c \/
  exists root mid,
    ((root = goroot /\ goroot <> [] /\ mid = s2b "/src/") \/
     (In root (map fst gopaths) /\ (mid = s2b "/src/" \/ mid = s2b "/pkg/mod/")) \/
     (In root (map fst gomods) /\ mid = s2b "/")) /\
    RemoteSrcPath c = root ++ mid ++ RelSrcPath c' /\
    is_prefix (root ++ mid) (RemoteSrcPath c).
Proof.
  intros c'. unfold c'.
  destruct (update_shape goroot localgoroot gopaths gomods c)
    as [H _|rel Hg Hr _ HR _ _ _|prefix dest rel _ _ Hin _ Hr _ HR _ _ _
        |prefix dest rel _ _ Hin _ Hr _ HR _ _ _|prefix pkg rel _ _ _ Hin _ Hr _ HR _ _ _].
  - left. exact H.
  - right. exists goroot, (s2b "/src/"). rewrite HR. split; [left; repeat split; exact Hg|].
    split; [exact Hr|]. rewrite Hr, app_assoc. apply is_prefix_intro.
  - right. exists prefix, (s2b "/src/"). rewrite HR. split.
    + right. left. split; [apply (in_map fst _ _ Hin)|left; reflexivity].
    + split; [exact Hr|]. rewrite Hr, app_assoc. apply is_prefix_intro.
  - right. exists prefix, (s2b "/pkg/mod/"). rewrite HR. split.
    + right. left. split; [apply (in_map fst _ _ Hin)|right; reflexivity].
    + split; [exact Hr|]. rewrite Hr, app_assoc. apply is_prefix_intro.
  - right. exists prefix, (s2b "/"). rewrite HR. split.
    + right. right. split; [apply (in_map fst _ _ Hin)|reflexivity].
    + split; [exact Hr|]. rewrite Hr, app_assoc. apply is_prefix_intro.
Qed.

(* classification table *)
Theorem classified_keeps goroot localgoroot gopaths gomods c :
  CLocation c <> LocationUnknown ->
  CLocation (update_call goroot localgoroot gopaths gomods c) = CLocation c.
Proof.
  intros Hc.
  assert (K : forall loc, classify c loc = CLocation c).
  { intros loc. unfold classify. destruct (CLocation c); [contradiction|reflexivity..]. }
  destruct (update_shape goroot localgoroot gopaths gomods c)
    as [H _|rel _ _ _ _ _ HC _|prefix dest rel _ _ _ _ _ _ _ _ HC _
        |prefix dest rel _ _ _ _ _ _ _ _ HC _|prefix pkg rel _ _ _ _ _ _ _ _ _ HC _].
  - rewrite H. reflexivity.
  - rewrite HC. apply K.
  - rewrite HC. apply K.
  - rewrite HC. apply K.
  - rewrite HC. apply K.
Qed.

Theorem testmain_stays_stdlib goroot localgoroot gopaths gomods c :
  CLocation c = Stdlib ->
  CLocation (update_call goroot localgoroot gopaths gomods c) = Stdlib.
Proof. intros H. rewrite classified_keeps; [exact H|rewrite H; discriminate]. Qed.

Theorem class_table goroot localgoroot gopaths gomods c :
  CLocation c = LocationUnknown ->
  let c' := update_call goroot localgoroot gopaths gomods c in
  match CLocation c' with
  | LocationUnknown => c' = c
  | Stdlib => goroot <> [] /\ RemoteSrcPath c = goroot ++ s2b "/src/" ++ RelSrcPath c'
  | GOPATH => exists prefix dest, In (prefix, dest) gopaths /\
                RemoteSrcPath c = prefix ++ s2b "/src/" ++ RelSrcPath c' /\
                LocalSrcPath c' = dest ++ s2b "/src/" ++ RelSrcPath c'
  | GoPkg => exists prefix dest, In (prefix, dest) gopaths /\
                RemoteSrcPath c = prefix ++ s2b "/pkg/mod/" ++ RelSrcPath c' /\
                LocalSrcPath c' = dest ++ s2b "/pkg/mod/" ++ RelSrcPath c'
  | GoMod => exists prefix pkg, In (prefix, pkg) gomods /\
                RemoteSrcPath c = prefix ++ s2b "/" ++ RelSrcPath c' /\
                LocalSrcPath c' = RemoteSrcPath c /\
                CImportPath c' = mod_import pkg (RelSrcPath c')
  end.
Proof.
  intros Hc c'. unfold c'.
  assert (K : forall loc, classify c loc = loc).
  { intros loc. unfold classify. rewrite Hc. reflexivity. }
  destruct (update_shape goroot localgoroot gopaths gomods c)
    as [H _|rel Hg Hr HL HR _ HC _|prefix dest rel _ _ Hin _ Hr HL HR _ HC _
        |prefix dest rel _ _ Hin _ Hr HL HR _ HC _|prefix pkg rel _ _ _ Hin _ Hr HL HR HI HC _].
  - rewrite H, Hc. reflexivity.
  - rewrite HC, K, HR. split; [exact Hg|exact Hr].
  - rewrite HC, K, HR. exists prefix, dest. split; [exact Hin|]. split; [exact Hr|exact HL].
  - rewrite HC, K, HR. exists prefix, dest. split; [exact Hin|]. split; [exact Hr|exact HL].
  - rewrite HC, K, HR. exists prefix, pkg. split; [exact Hin|]. split; [exact Hr|]. split; [exact HL|exact HI].
Qed.

(* the directory part of rel, spelled out *)
Lemma import_of_rel_some rel i : import_of_rel rel = Some i ->
  exists base, rel = i ++ [b_slash] ++ base /\ ~ In b_slash base.
Proof.
  unfold import_of_rel. destruct (last_index_byte rel b_slash) as [n|] eqn:E; [|discriminate].
  intros H. injection H as <-. apply last_index_split in E as (base & E1 & E2).
  exists base. split; [exact E1|exact E2].
Qed.

Lemma import_of_rel_none rel : import_of_rel rel = None <-> ~ In b_slash rel.
Proof.
  unfold import_of_rel. destruct (last_index_byte rel b_slash) as [n|] eqn:E.
  - split; [discriminate|]. intros H. apply last_index_none in H. rewrite H in E. discriminate E.
  - split; [|reflexivity]. intros _. apply last_index_none. exact E.
Qed.

Lemma import_of_rel_dir dir base : ~ In b_slash base -> import_of_rel (dir ++ [b_slash] ++ base) = Some dir.
Proof.
  intros H. unfold import_of_rel. simpl app. rewrite (last_index_app_no b_slash base H dir).
  rewrite firstn_app, firstn_all, Nat.sub_diag. simpl. rewrite app_nil_r. reflexivity.
Qed.

Theorem dir_import_spec c rel :
  (forall dir base, rel = dir ++ [b_slash] ++ base -> ~ In b_slash base -> dir_import c rel = dir) /\
  (~ In b_slash rel -> dir_import c rel = CImportPath c).
Proof.
  split.
  - intros dir base -> Hb. unfold dir_import. rewrite (import_of_rel_dir dir base Hb). reflexivity.
  - intros H. unfold dir_import. apply import_of_rel_none in H. rewrite H. reflexivity.
Qed.

Theorem mod_import_spec pkg rel :
  (forall dir base, rel = dir ++ [b_slash] ++ base -> ~ In b_slash base ->
     mod_import pkg rel = pkg ++ [b_slash] ++ dir) /\
  (~ In b_slash rel -> mod_import pkg rel = pkg).
Proof.
  split.
  - intros dir base -> Hb. unfold mod_import. rewrite (import_of_rel_dir dir base Hb). reflexivity.
  - intros H. unfold mod_import. apply import_of_rel_none in H. rewrite H. reflexivity.
Qed.

(* ====================================================================== *)
(* 2. longest root wins; the result depends on the table as a set           *)
(* ====================================================================== *)

Theorem sorted_roots_desc m i j a b :
  i < j -> nth_error (sorted_roots m) i = Some a -> nth_error (sorted_roots m) j = Some b ->
  List.length (fst b) <= List.length (fst a).
Proof.
  intros Hij Hi Hj. apply root_no_inv_length.
  apply (ssorted_nth root_no_inv (sorted_roots m) (sorted_roots_sorted m) i j a b Hij Hi Hj).
Qed.

(* nested modules: the deepest go.mod root that contains the file is used *)
Theorem longest_gomod_wins goroot localgoroot gopaths gomods c p1 k1 :
  goroot_miss goroot (RemoteSrcPath c) ->
  gopaths_miss gopaths (RemoteSrcPath c) ->
  In (p1, k1) gomods -> is_prefix (p1 ++ s2b "/") (RemoteSrcPath c) ->
  let c' := update_call goroot localgoroot gopaths gomods c in
  exists prefix pkg, In (prefix, pkg) gomods /\
    List.length p1 <= List.length prefix /\
    (forall p k, In (p, k) gomods -> is_prefix (p ++ s2b "/") (RemoteSrcPath c) ->
       List.length p <= List.length prefix) /\
    RemoteSrcPath c = prefix ++ s2b "/" ++ RelSrcPath c' /\
    LocalSrcPath c' = RemoteSrcPath c /\
    CImportPath c' = mod_import pkg (RelSrcPath c') /\
    CLocation c' = classify c GoMod.
Proof.
  intros Hg Hp Hin [r1 Hr1] c'. unfold c'.
  destruct (update_shape goroot localgoroot gopaths gomods c)
    as [H [He|(_ & _ & Hm)]|rel Hne Hr _ _ _ _ _|prefix dest rel _ _ Hin' _ Hr _ _ _ _ _
        |prefix dest rel _ _ Hin' _ Hr _ _ _ _ _|prefix pkg rel _ _ _ Hin' Hl Hr HL HR HI HC _].
  - exfalso. rewrite He in Hr1. destruct p1; discriminate Hr1.
  - exfalso. rewrite <- app_assoc in Hr1. apply (Hm p1 k1 Hin r1 Hr1).
  - exfalso. destruct Hg as [Hg|Hg]; [contradiction|apply (Hg rel Hr)].
  - exfalso. apply (proj1 (Hp prefix dest Hin') rel Hr).
  - exfalso. apply (proj2 (Hp prefix dest Hin') rel Hr).
  - exists prefix, pkg. split; [exact Hin'|]. split; [apply (Hl p1 k1 Hin); exists r1; exact Hr1|].
    split; [exact Hl|]. rewrite HR. split; [exact Hr|]. split; [exact HL|]. split; [exact HI|exact HC].
Qed.

(* overlapping GOPATHs: the longest remote GOPATH that contains the file is used *)
Theorem longest_gopath_wins goroot localgoroot gopaths gomods c p1 d1 :
  goroot_miss goroot (RemoteSrcPath c) ->
  In (p1, d1) gopaths ->
  is_prefix (p1 ++ s2b "/src/") (RemoteSrcPath c) \/ is_prefix (p1 ++ s2b "/pkg/mod/") (RemoteSrcPath c) ->
  let c' := update_call goroot localgoroot gopaths gomods c in
  exists prefix dest mid, In (prefix, dest) gopaths /\
    List.length p1 <= List.length prefix /\
    gopath_longest gopaths (RemoteSrcPath c) prefix /\
    ((mid = s2b "/src/" /\ CLocation c' = classify c GOPATH) \/
     (mid = s2b "/pkg/mod/" /\ CLocation c' = classify c GoPkg)) /\
    RemoteSrcPath c = prefix ++ mid ++ RelSrcPath c' /\
    LocalSrcPath c' = dest ++ mid ++ RelSrcPath c'.
Proof.
  intros Hg Hin Hh c'. unfold c'.
  destruct (update_shape goroot localgoroot gopaths gomods c)
    as [H [He|(_ & Hm & _)]|rel Hne Hr _ _ _ _ _|prefix dest rel _ _ Hin' Hl Hr HL HR _ HC _
        |prefix dest rel _ _ Hin' Hl Hr HL HR _ HC _|prefix pkg rel _ _ Hm _ _ _ _ _ _ _ _].
  - exfalso. rewrite He in Hh. destruct Hh as [[r Hr]|[r Hr]]; destruct p1; discriminate Hr.
  - exfalso. destruct (Hm p1 d1 Hin) as [M1 M2].
    destruct Hh as [[r Hr]|[r Hr]]; rewrite <- app_assoc in Hr; [apply (M1 r Hr)|apply (M2 r Hr)].
  - exfalso. destruct Hg as [Hg|Hg]; [contradiction|apply (Hg rel Hr)].
  - exists prefix, dest, (s2b "/src/"). split; [exact Hin'|]. split; [apply (Hl p1 d1 Hin Hh)|].
    split; [exact Hl|]. split; [left; split; [reflexivity|exact HC]|]. rewrite HR. split; [exact Hr|exact HL].
  - exists prefix, dest, (s2b "/pkg/mod/"). split; [exact Hin'|]. split; [apply (Hl p1 d1 Hin Hh)|].
    split; [exact Hl|]. split; [right; split; [reflexivity|exact HC]|]. rewrite HR. split; [exact Hr|exact HL].
  - exfalso. destruct (Hm p1 d1 Hin) as [M1 M2].
    destruct Hh as [[r Hr]|[r Hr]]; rewrite <- app_assoc in Hr; [apply (M1 r Hr)|apply (M2 r Hr)].
Qed.

Theorem update_deterministic goroot localgoroot gopaths gopaths' gomods gomods' c :
  NoDup (map fst gopaths) -> NoDup (map fst gomods) ->
  Permutation gopaths gopaths' -> Permutation gomods gomods' ->
  update_call goroot localgoroot gopaths gomods c = update_call goroot localgoroot gopaths' gomods' c.
Proof.
  intros N1 N2 P1 P2. rewrite !update_call_eq.
  rewrite (sorted_roots_canonical gopaths gopaths' N1 P1), (sorted_roots_canonical gomods gomods' N2 P2).
  reflexivity.
Qed.

(* ====================================================================== *)
(* 5. guess_paths only touches the four location fields                     *)
(* ====================================================================== *)

Definition call_core (c : Call) := (CFunc c, CArgs c, RemoteSrcPath c, Line c, SrcName c, DirSrc c).
Definition stack_core (s : Stack) := (map call_core (Calls s), SElided s).
Definition goroutine_core (g : Goroutine) :=
  (State (GSig g), stack_core (CreatedBy (GSig g)), SleepMin (GSig g), SleepMax (GSig g),
   stack_core (SStack (GSig g)), Locked (GSig g), ID g, First g, RaceWrite g, RaceAddr g).

Lemma update_call_core goroot localgoroot gopaths gomods c :
  call_core (update_call goroot localgoroot gopaths gomods c) = call_core c.
Proof.
  assert (K : forall c', same_core c c' -> call_core c' = call_core c).
  { intros c' (H1 & H2 & H3 & H4 & H5 & H6). unfold call_core. rewrite H1, H2, H3, H4, H5, H6. reflexivity. }
  destruct (update_shape goroot localgoroot gopaths gomods c)
    as [H _|rel _ _ _ _ _ _ HS|prefix dest rel _ _ _ _ _ _ _ _ _ HS
        |prefix dest rel _ _ _ _ _ _ _ _ _ HS|prefix pkg rel _ _ _ _ _ _ _ _ _ _ HS].
  - rewrite H. reflexivity.
  - apply K, HS.
  - apply K, HS.
  - apply K, HS.
  - apply K, HS.
Qed.

Lemma update_goroutine_core goroot localgoroot gopaths gomods g :
  goroutine_core (update_goroutine goroot localgoroot gopaths gomods g) = goroutine_core g.
Proof.
  unfold goroutine_core, update_goroutine, stack_core. simpl.
  rewrite !map_map.
  rewrite !(map_ext _ call_core (update_call_core goroot localgoroot gopaths gomods)).
  reflexivity.
Qed.

Theorem guess_preserves fs local_goroot local_gopaths gs :
  map goroutine_core (snd (guess_paths fs local_goroot local_gopaths gs)) = map goroutine_core gs.
Proof.
  unfold guess_paths. simpl. rewrite map_map. apply map_ext. intros g. apply update_goroutine_core.
Qed.

Theorem guess_length fs local_goroot local_gopaths gs :
  List.length (snd (guess_paths fs local_goroot local_gopaths gs)) = List.length gs.
Proof. unfold guess_paths. simpl. apply map_length. Qed.

(* pointwise reading of guess_preserves *)
Theorem guess_preserves_nth fs local_goroot local_gopaths gs i g :
  nth_error gs i = Some g ->
  exists g', nth_error (snd (guess_paths fs local_goroot local_gopaths gs)) i = Some g' /\
    goroutine_core g' = goroutine_core g /\
    List.length (Calls (SStack (GSig g'))) = List.length (Calls (SStack (GSig g))) /\
    List.length (Calls (CreatedBy (GSig g'))) = List.length (Calls (CreatedBy (GSig g))) /\
    (forall j c, nth_error (Calls (SStack (GSig g))) j = Some c ->
       exists c', nth_error (Calls (SStack (GSig g'))) j = Some c' /\ call_core c' = call_core c) /\
    (forall j c, nth_error (Calls (CreatedBy (GSig g))) j = Some c ->
       exists c', nth_error (Calls (CreatedBy (GSig g'))) j = Some c' /\ call_core c' = call_core c).
Proof.
  intros Hi. unfold guess_paths. simpl.
  set (r := find_roots fs local_goroot local_gopaths gs).
  set (upd := update_goroutine (remote_goroot r) local_goroot (remote_gopaths r) (local_gomods r)).
  exists (upd g). split; [apply map_nth_error; exact Hi|].
  split; [apply update_goroutine_core|].
  unfold upd, update_goroutine. simpl. rewrite !map_length.
  split; [reflexivity|]. split; [reflexivity|]. split.
  - intros j c Hj. eexists. split; [apply map_nth_error; exact Hj|apply update_call_core].
  - intros j c Hj. eexists. split; [apply map_nth_error; exact Hj|apply update_call_core].
Qed.

(* ====================================================================== *)
(* 4. the walk: get_files is sorted and duplicate free; missing is bounded  *)
(* ====================================================================== *)

Definition blt (a b : bytes) : Prop := bcmp a b = Lt.

Lemma blt_trans a b c : blt a b -> blt b c -> blt a c.
Proof. apply (cmp_trans_lt bcmp_ok). Qed.

Lemma blt_irrefl a : ~ blt a a.
Proof. unfold blt. rewrite bcmp_refl. discriminate. Qed.

Lemma insert_sorted_uniq_in x l z : In z (insert_sorted_uniq x l) <-> z = x \/ In z l.
Proof.
  induction l as [|y l IH]; simpl.
  - split; [intros [H|[]]; left; symmetry; exact H|intros [H|[]]; left; symmetry; exact H].
  - destruct (bcmp x y) eqn:E; simpl.
    + apply bcmp_eq in E. subst y. split; [intros H; right; exact H|].
      intros [->|H]; [left; reflexivity|exact H].
    + split; [intros [H|H]; [left; symmetry; exact H|right; exact H]|].
      intros [H|H]; [left; symmetry; exact H|right; exact H].
    + rewrite IH. split.
      * intros [H|[H|H]]; [right; left; exact H|left; exact H|right; right; exact H].
      * intros [H|[H|H]]; [right; left; exact H|left; exact H|right; right; exact H].
Qed.

Lemma insert_sorted_uniq_sorted x l :
  StronglySorted blt l -> StronglySorted blt (insert_sorted_uniq x l).
Proof.
  induction l as [|y l IH]; simpl; intros Hs.
  - apply SSorted_cons; [apply SSorted_nil|apply Forall_nil].
  - pose proof Hs as Hs0. apply StronglySorted_inv in Hs as [Hs Hf].
    destruct (bcmp x y) eqn:E.
    + exact Hs0.
    + apply SSorted_cons; [exact Hs0|]. apply Forall_cons; [exact E|].
      rewrite Forall_forall in Hf |- *. intros z Hz. apply (blt_trans x y z E). apply Hf, Hz.
    + apply SSorted_cons; [apply IH, Hs|].
      rewrite Forall_forall in Hf |- *. intros z Hz. apply insert_sorted_uniq_in in Hz as [->|Hz].
      * apply (cmp_gt_lt bcmp_ok). exact E.
      * apply Hf, Hz.
Qed.

Lemma fold_insert_sorted {A} (key : A -> bytes) (cs : list A) : forall acc,
  StronglySorted blt acc ->
  StronglySorted blt (fold_left (fun acc c => insert_sorted_uniq (key c) acc) cs acc).
Proof.
  induction cs as [|c cs IH]; intros acc Hs; simpl; [exact Hs|].
  apply IH. apply insert_sorted_uniq_sorted. exact Hs.
Qed.

Lemma fold_insert_in {A} (key : A -> bytes) (cs : list A) z : forall acc,
  In z (fold_left (fun acc c => insert_sorted_uniq (key c) acc) cs acc) <->
  In z acc \/ exists c, In c cs /\ key c = z.
Proof.
  induction cs as [|c cs IH]; intros acc; simpl.
  - split; [intros H; left; exact H|intros [H|(c & [] & _)]; exact H].
  - rewrite IH, insert_sorted_uniq_in. split.
    + intros [[->|H]|(c' & Hc' & E)].
      * right. exists c. split; [left; reflexivity|reflexivity].
      * left. exact H.
      * right. exists c'. split; [right; exact Hc'|exact E].
    + intros [H|(c' & [<-|Hc'] & E)].
      * left. right. exact H.
      * left. left. symmetry. exact E.
      * right. exists c'. split; [exact Hc'|exact E].
Qed.

Theorem get_files_sorted gs : StronglySorted blt (get_files gs).
Proof. unfold get_files. apply fold_insert_sorted. apply SSorted_nil. Qed.

Theorem get_files_in gs f :
  In f (get_files gs) <->
  exists g c, In g gs /\ In c (Calls (SStack (GSig g))) /\ RemoteSrcPath c = f.
Proof.
  unfold get_files. rewrite fold_insert_in. split.
  - intros [[]|(c & Hc & E)]. apply in_flat_map in Hc as (g & Hg & Hc).
    exists g, c. split; [exact Hg|]. split; [exact Hc|exact E].
  - intros (g & c & Hg & Hc & E). right. exists c. split; [|exact E].
    apply in_flat_map. exists g. split; [exact Hg|exact Hc].
Qed.

Lemma ssorted_blt_nodup l : StronglySorted blt l -> NoDup l.
Proof.
  induction l as [|x l IH]; intros Hs; [apply NoDup_nil|].
  apply StronglySorted_inv in Hs as [Hs Hf]. apply NoDup_cons; [|apply IH, Hs].
  intros Hx. rewrite Forall_forall in Hf. apply (blt_irrefl x). apply Hf, Hx.
Qed.

Theorem get_files_nodup gs : NoDup (get_files gs).
Proof. apply ssorted_blt_nodup, get_files_sorted. Qed.

(* the order of the goroutines and of their frames does not matter *)
Theorem get_files_canonical gs gs' :
  (forall f, In f (get_files gs) <-> In f (get_files gs')) -> get_files gs = get_files gs'.
Proof.
  intros H. apply (ssorted_perm_unique blt).
  - intros x y H1 H2. apply (blt_irrefl x). apply (blt_trans x y x H1 H2).
  - apply NoDup_Permutation; [apply get_files_nodup|apply get_files_nodup|exact H].
  - apply get_files_sorted.
  - apply get_files_sorted.
Qed.

Lemma find_roots_step_missing fs lg lgp st f :
  missing (find_roots_step fs lg lgp st f) <= S (missing st).
Proof.
  unfold find_roots_step.
  repeat match goal with
         | |- context [if ?b then _ else _] => destruct b
         | |- context [match ?x with _ => _ end] => destruct x
         end; simpl; lia.
Qed.

Lemma fold_missing fs lg lgp l : forall st,
  missing (fold_left (find_roots_step fs lg lgp) l st) <= missing st + List.length l.
Proof.
  induction l as [|f l IH]; intros st; simpl; [lia|].
  pose proof (IH (find_roots_step fs lg lgp st f)) as H1.
  pose proof (find_roots_step_missing fs lg lgp st f) as H2. lia.
Qed.

Theorem missing_count fs lg lgp gs :
  missing (find_roots fs lg lgp gs) <= List.length (get_files gs).
Proof. unfold find_roots. apply (fold_missing fs lg lgp (get_files gs) (mkRoots [] [] [] [] 0)). Qed.

(* ====================================================================== *)
(* 3. every detected root is backed by the disk                             *)
(* ====================================================================== *)

(* [f], cut into components, is pre ++ post: the remote root is the join of
   pre, and the join of post exists under the local root *)
Definition rooted_witness (fs : fsys) (local remote f : bytes) : Prop :=
  exists pre post, split_path f = pre ++ post /\ pre <> [] /\ post <> [] /\
    is_file fs (local ++ [b_slash] ++ path_join post) = true /\ remote = path_join pre.

Lemma has_suffix_split s p : has_suffix s p = true -> s = firstn (List.length s - List.length p) s ++ p.
Proof.
  unfold has_suffix. intros H. apply andb_true_iff in H as [_ H]. apply beq_eq in H.
  transitivity (firstn (List.length s - List.length p) s ++ skipn (List.length s - List.length p) s);
    [symmetry; apply firstn_skipn|f_equal; exact H].
Qed.

Lemma strip_suffix_root_some r suffix x : strip_suffix_root r suffix = Some x -> r = x ++ suffix.
Proof.
  unfold strip_suffix_root. destruct (has_suffix r suffix) eqn:E; [|discriminate].
  intros H. injection H as <-. apply has_suffix_split. exact E.
Qed.

Lemma is_rooted_in_go_spec fs root post : forall pre r,
  is_rooted_in_go fs root pre post = r -> r <> [] ->
  exists k post', post = k ++ post' /\ post' <> [] /\
    is_file fs (root ++ [b_slash] ++ path_join post') = true /\ r = path_join (pre ++ k).
Proof.
  induction post as [|x post IH]; intros pre r H Hr; simpl in H.
  - exfalso. apply Hr. symmetry. exact H.
  - destruct (is_file fs (path_join [root; path_join (x :: post)])) eqn:E.
    + exists [], (x :: post). split; [reflexivity|]. split; [discriminate|].
      split; [exact E|]. rewrite app_nil_r. symmetry. exact H.
    + destruct (IH (pre ++ [x]) r H Hr) as (k & post' & -> & Hp & Hf & Hj).
      exists (x :: k), post'. split; [reflexivity|]. split; [exact Hp|]. split; [exact Hf|].
      rewrite Hj, <- app_assoc. reflexivity.
Qed.

Lemma is_rooted_in_spec fs root parts r :
  is_rooted_in fs root parts = r -> r <> [] ->
  exists pre post, parts = pre ++ post /\ pre <> [] /\ post <> [] /\
    is_file fs (root ++ [b_slash] ++ path_join post) = true /\ r = path_join pre.
Proof.
  unfold is_rooted_in. destruct parts as [|x rest]; intros H Hr.
  - exfalso. apply Hr. symmetry. exact H.
  - destruct (is_rooted_in_go_spec fs root rest [x] r H Hr) as (k & post' & -> & Hp & Hf & Hj).
    exists ([x] ++ k), post'. split; [reflexivity|]. split; [discriminate|]. split; [exact Hp|].
    split; [exact Hf|exact Hj].
Qed.

Lemma rooted_strip fs root f suffix x :
  suffix <> [] ->
  strip_suffix_root (is_rooted_in fs root (split_path f)) suffix = Some x ->
  rooted_witness fs root (x ++ suffix) f.
Proof.
  intros Hs H. apply strip_suffix_root_some in H.
  assert (Hr : is_rooted_in fs root (split_path f) <> []).
  { rewrite H. destruct x; [exact Hs|discriminate]. }
  destruct (is_rooted_in_spec fs root (split_path f) _ eq_refl Hr) as (pre & post & E & H1 & H2 & H3 & H4).
  exists pre, post. split; [exact E|]. split; [exact H1|]. split; [exact H2|]. split; [exact H3|].
  rewrite <- H. exact H4.
Qed.

Section Backed.
  Variable fs : fsys.
  Variable local_goroot : bytes.
  Variable local_gopaths : list bytes.

  Lemma try_gopaths_some f ls r l :
    try_gopaths fs (split_path f) ls = Some (r, l) ->
    In l ls /\ exists suffix, (suffix = s2b "/src" \/ suffix = s2b "/pkg/mod") /\
      rooted_witness fs (l ++ suffix) (r ++ suffix) f.
  Proof.
    induction ls as [|l0 ls IH]; simpl; intros H; [discriminate H|].
    destruct (strip_suffix_root (is_rooted_in fs (l0 ++ s2b "/src") (split_path f)) (s2b "/src")) as [x|] eqn:E1.
    - injection H as <- <-. split; [left; reflexivity|]. exists (s2b "/src").
      split; [left; reflexivity|]. apply rooted_strip; [discriminate|exact E1].
    - destruct (strip_suffix_root (is_rooted_in fs (l0 ++ s2b "/pkg/mod") (split_path f)) (s2b "/pkg/mod")) as [x|] eqn:E2.
      + injection H as <- <-. split; [left; reflexivity|]. exists (s2b "/pkg/mod").
        split; [right; reflexivity|]. apply rooted_strip; [discriminate|exact E2].
      + destruct (IH H) as [Hin Hw]. split; [right; exact Hin|exact Hw].
  Qed.

  Lemma is_go_module_go_some cands : forall cache cache' prefix m,
    is_go_module_go fs cache cands = (cache', Some (prefix, m)) ->
    exists content, fs_lookup fs (prefix ++ s2b "/go.mod") = Some content /\ find_module content = Some m.
  Proof.
    induction cands as [|parts rest IH]; intros cache cache' prefix m H; simpl in H; [discriminate H|].
    destruct (existsb (beq (path_join parts)) cache); [discriminate H|].
    destruct (fs_lookup fs (path_join [path_join parts; s2b "go.mod"])) as [content|] eqn:E.
    - destruct (find_module content) as [m'|] eqn:Em.
      + injection H as _ <- <-. exists content. split; [exact E|exact Em].
      + apply (IH _ _ _ _ H).
    - apply (IH _ _ _ _ H).
  Qed.

  Record backed (files : list bytes) (st : roots) : Prop := mkBacked {
    bk_goroot : remote_goroot st <> [] ->
      exists f, In f files /\
        rooted_witness fs (local_goroot ++ s2b "/src") (remote_goroot st ++ s2b "/src") f;
    bk_gopaths : forall r l, In (r, l) (remote_gopaths st) ->
      In l local_gopaths /\
      exists f suffix, In f files /\ (suffix = s2b "/src" \/ suffix = s2b "/pkg/mod") /\
        rooted_witness fs (l ++ suffix) (r ++ suffix) f;
    bk_gomods : forall k v, In (k, v) (local_gomods st) ->
      (exists content, fs_lookup fs (k ++ s2b "/go.mod") = Some content /\ find_module content = Some v) \/
      (v = s2b "main" /\ exists f, In f files /\ k = path_dir f /\ is_file fs f = true) }.

  Lemma backed_init files : backed files (mkRoots [] [] [] [] 0).
  Proof.
    split; simpl.
    - intros H. exfalso. apply H. reflexivity.
    - intros r l [].
    - intros k v [].
  Qed.

  Lemma step_backed files st f :
    backed files st -> In f files -> backed files (find_roots_step fs local_goroot local_gopaths st f).
  Proof.
    intros [B1 B2 B3] Hf. unfold find_roots_step.
    destruct (match remote_goroot st with [] => false | _ => has_prefix f (remote_goroot st ++ s2b "/src/") end);
      [split; assumption|].
    destruct (has_src_prefix_in f (map fst (remote_gopaths st))); [split; assumption|].
    destruct (has_prefix_in f (map fst (local_gomods st)) && existsb (beq (path_dir f)) (gm_cache st));
      [split; assumption|].
    cbv zeta.
    destruct (match remote_goroot st with
              | [] => strip_suffix_root (is_rooted_in fs (local_goroot ++ s2b "/src") (split_path f)) (s2b "/src")
              | _ => None end) as [r|] eqn:Eg.
    { split; simpl; [|exact B2|exact B3]. intros _. exists f. split; [exact Hf|].
      destruct (remote_goroot st); [|discriminate Eg]. apply rooted_strip; [discriminate|exact Eg]. }
    destruct (try_gopaths fs (split_path f) local_gopaths) as [[r l]|] eqn:Et.
    { split; simpl; [exact B1| |exact B3]. intros r' l' Hin.
      apply map_set_in in Hin as [[-> ->]|Hin]; [|apply (B2 r' l' Hin)].
      destruct (try_gopaths_some f local_gopaths r l Et) as [Hl (suffix & Hs & Hw)].
      split; [exact Hl|]. exists f, suffix. split; [exact Hf|]. split; [exact Hs|exact Hw]. }
    destruct (if Nat.ltb 1 (List.length (split_path f))
              then is_go_module_go fs (gm_cache st) (prefixes_desc (removelast (split_path f)))
              else (gm_cache st, None)) as [cache' gm] eqn:Egm.
    destruct gm as [[root path]|].
    { split; simpl; [exact B1|exact B2|]. intros k v Hin.
      apply map_set_in in Hin as [[-> ->]|Hin]; [|apply (B3 k v Hin)]. left.
      destruct (Nat.ltb 1 (List.length (split_path f))); [|discriminate Egm].
      apply (is_go_module_go_some _ _ _ _ _ Egm). }
    destruct (has_prefix_in f (map fst (local_gomods st))); [split; assumption|].
    destruct (is_file fs f) eqn:Ef; [|split; assumption].
    split; simpl; [exact B1|exact B2|]. intros k v Hin.
    apply map_set_in in Hin as [[-> ->]|Hin]; [|apply (B3 k v Hin)]. right.
    split; [reflexivity|]. exists f. split; [exact Hf|]. split; [reflexivity|exact Ef].
  Qed.

  Lemma fold_backed files l : forall st,
    backed files st -> (forall f, In f l -> In f files) ->
    backed files (fold_left (find_roots_step fs local_goroot local_gopaths) l st).
  Proof.
    induction l as [|f l IH]; intros st Hb Hin; simpl; [exact Hb|].
    apply IH; [|intros g Hg; apply Hin; right; exact Hg].
    apply step_backed; [exact Hb|apply Hin; left; reflexivity].
  Qed.

  Theorem roots_backed gs : backed (get_files gs) (find_roots fs local_goroot local_gopaths gs).
  Proof. unfold find_roots. apply fold_backed; [apply backed_init|intros f H; exact H]. Qed.
End Backed.

(* with a clean path the witness is a literal prefix *)
Lemma rooted_witness_clean fs local remote f :
  clean_path f = true -> rooted_witness fs local remote f ->
  exists rest, f = remote ++ [b_slash] ++ rest /\ is_file fs (local ++ [b_slash] ++ rest) = true.
Proof.
  intros Hc (pre & post & E & H1 & H2 & H3 & H4).
  exists (path_join post). split; [|exact H3].
  rewrite <- (split_path_join f Hc), E, H4. apply path_join_app; assumption.
Qed.

Theorem roots_detected_from_disk fs local_goroot local_gopaths gs :
  (forall f, In f (get_files gs) -> clean_path f = true) ->
  let st := find_roots fs local_goroot local_gopaths gs in
  (remote_goroot st <> [] ->
     exists f rest, In f (get_files gs) /\
       f = remote_goroot st ++ s2b "/src/" ++ rest /\
       is_file fs (local_goroot ++ s2b "/src/" ++ rest) = true) /\
  (forall r l, In (r, l) (remote_gopaths st) ->
     In l local_gopaths /\
     exists f mid rest, In f (get_files gs) /\ (mid = s2b "/src/" \/ mid = s2b "/pkg/mod/") /\
       f = r ++ mid ++ rest /\ is_file fs (l ++ mid ++ rest) = true) /\
  (forall k v, In (k, v) (local_gomods st) ->
     (exists content, fs_lookup fs (k ++ s2b "/go.mod") = Some content /\ find_module content = Some v) \/
     (v = s2b "main" /\ exists f, In f (get_files gs) /\ k = path_dir f /\ is_file fs f = true)).
Proof.
  intros Hclean st.
  destruct (roots_backed fs local_goroot local_gopaths gs) as [B1 B2 B3]. fold st in B1, B2, B3.
  split; [|split].
  - intros Hne. destruct (B1 Hne) as (f & Hf & Hw).
    destruct (rooted_witness_clean _ _ _ f (Hclean f Hf) Hw) as (rest & E & Hfile).
    exists f, rest. split; [exact Hf|]. split.
    + rewrite E, <- app_assoc. reflexivity.
    + rewrite <- app_assoc in Hfile. exact Hfile.
  - intros r l Hin. destruct (B2 r l Hin) as [Hl (f & suffix & Hf & Hs & Hw)].
    split; [exact Hl|].
    destruct (rooted_witness_clean _ _ _ f (Hclean f Hf) Hw) as (rest & E & Hfile).
    destruct Hs as [-> | ->].
    + exists f, (s2b "/src/"), rest. split; [exact Hf|]. split; [left; reflexivity|]. split.
      * rewrite E, <- app_assoc. reflexivity.
      * rewrite <- app_assoc in Hfile. exact Hfile.
    + exists f, (s2b "/pkg/mod/"), rest. split; [exact Hf|]. split; [right; reflexivity|]. split.
      * rewrite E, <- app_assoc. reflexivity.
      * rewrite <- app_assoc in Hfile. exact Hfile.
  - exact B3.
Qed.

(* ====================================================================== *)
(* 6. reModule                                                              *)
(* ====================================================================== *)

Lemma span_app_stop (p : N -> bool) a b :
  forallb p a = true -> match b with [] => True | x :: _ => p x = false end ->
  span p (a ++ b) = (a, b).
Proof.
  intros Ha Hb. induction a as [|x a IH]; simpl in *.
  - destruct b as [|y b]; [reflexivity|]. simpl. rewrite Hb. reflexivity.
  - apply andb_true_iff in Ha as [Hx Ha]. rewrite Hx, (IH Ha). reflexivity.
Qed.

(* what may follow the captured module path: end of text, LF, CR at the end, CR LF *)
Definition eol_ok (rest : bytes) : bool :=
  match rest with
  | [] => true
  | 10%N :: _ => true
  | 13%N :: [] => true
  | 13%N :: 10%N :: _ => true
  | _ => false
  end.

Lemma eol_ok_stops rest : eol_ok rest = true -> match rest with [] => True | x :: _ => not_eol x = false end.
Proof.
  destruct rest as [|x rest]; [intros _; exact I|]. simpl.
  destruct x as [|x]; [discriminate|].
  do 4 (destruct x as [x|x|]; try discriminate); reflexivity.
Qed.

Lemma module_capture_simple ws m rest :
  ws <> [] -> forallb is_re_space ws = true ->
  m <> [] -> forallb not_eol m = true ->
  match m with [] => True | x :: _ => is_re_space x = false end ->
  eol_ok rest = true ->
  module_capture (ws ++ m ++ rest) = Some m.
Proof.
  intros Hws Hsp Hm Hne Hx He. unfold module_capture.
  rewrite (span_app_stop is_re_space ws (m ++ rest) Hsp).
  2:{ destruct m as [|x m]; [contradiction|exact Hx]. }
  destruct ws as [|w ws]; [contradiction|].
  rewrite (span_app_stop not_eol m rest Hne (eol_ok_stops rest He)).
  destruct m as [|x m]; [contradiction|].
  destruct rest as [|r0 rest]; [reflexivity|].
  simpl in He.
  destruct r0 as [|r0]; [discriminate He|].
  do 4 (destruct r0 as [r0|r0|]; try discriminate He); try reflexivity.
  destruct rest as [|r1 rest]; [reflexivity|].
  destruct r1 as [|r1]; [discriminate He|].
  do 4 (destruct r1 as [r1|r1|]; try discriminate He); reflexivity.
Qed.

Lemma find_module_go_here fuel ws m rest :
  ws <> [] -> forallb is_re_space ws = true ->
  m <> [] -> forallb not_eol m = true ->
  match m with [] => True | x :: _ => is_re_space x = false end ->
  eol_ok rest = true ->
  find_module_go (S fuel) true (s2b "module" ++ ws ++ m ++ rest) = Some m.
Proof.
  intros Hws Hsp Hm Hne Hx He.
  assert (E : strip_prefix (s2b "module") (s2b "module" ++ ws ++ m ++ rest) = Some (ws ++ m ++ rest))
    by apply strip_prefix_app.
  cbn [find_module_go]. rewrite E. rewrite (module_capture_simple ws m rest Hws Hsp Hm Hne Hx He).
  reflexivity.
Qed.

(* a line that cannot hold the directive: no LF inside, and it does not start with 'm' *)
Definition skip_line (l : bytes) : bool :=
  forallb (fun c => negb (N.eqb c 10)) l &&
  match l with [] => true | c :: _ => negb (N.eqb c 109) end.

Lemma find_module_go_skip_nonbol l s : forall fuel,
  forallb (fun c => negb (N.eqb c 10)) l = true ->
  find_module_go (S (List.length l) + fuel) false (l ++ 10%N :: s) = find_module_go fuel true s.
Proof.
  induction l as [|c l IH]; intros fuel Hl.
  - reflexivity.
  - simpl in Hl. apply andb_true_iff in Hl as [Hc Hl]. apply negb_true_iff in Hc.
    change (S (List.length (c :: l)) + fuel) with (S (S (List.length l) + fuel)).
    cbn [find_module_go app]. rewrite Hc. apply IH. exact Hl.
Qed.

Lemma find_module_go_skip_line l s fuel :
  skip_line l = true ->
  find_module_go (S (List.length l) + fuel) true (l ++ 10%N :: s) = find_module_go fuel true s.
Proof.
  unfold skip_line. intros H. apply andb_true_iff in H as [Hl Hh].
  destruct l as [|c l].
  - reflexivity.
  - simpl in Hl. apply andb_true_iff in Hl as [Hc Hl]. apply negb_true_iff in Hc, Hh.
    change (S (List.length (c :: l)) + fuel) with (S (S (List.length l) + fuel)).
    cbn [find_module_go app].
    assert (E : strip_prefix (s2b "module") (c :: l ++ 10%N :: s) = None).
    { simpl. rewrite Hh. reflexivity. }
    rewrite E, Hc. apply find_module_go_skip_nonbol. exact Hl.
Qed.

Definition unlines (ls : list bytes) : bytes := List.concat (map (fun l => l ++ [10%N]) ls).

Lemma find_module_go_lines ls s : forall fuel,
  forallb skip_line ls = true ->
  find_module_go (List.length (unlines ls) + fuel) true (unlines ls ++ s) = find_module_go fuel true s.
Proof.
  induction ls as [|l ls IH]; intros fuel H; [reflexivity|].
  simpl in H. apply andb_true_iff in H as [Hl Hls].
  unfold unlines. simpl. fold (unlines ls).
  rewrite <- !app_assoc. simpl.
  rewrite !app_length. simpl.
  replace (List.length l + S (List.length (unlines ls)) + fuel)
    with (S (List.length l) + (List.length (unlines ls) + fuel)) by lia.
  rewrite (find_module_go_skip_line l _ _ Hl). apply IH. exact Hls.
Qed.

(* the general fact: comment / blank / other lines, then the directive *)
Theorem find_module_after_lines ls ws m rest :
  forallb skip_line ls = true ->
  ws <> [] -> forallb is_re_space ws = true ->
  m <> [] -> forallb not_eol m = true ->
  match m with [] => True | x :: _ => is_re_space x = false end ->
  eol_ok rest = true ->
  find_module (unlines ls ++ s2b "module" ++ ws ++ m ++ rest) = Some m.
Proof.
  intros Hls Hws Hsp Hm Hne Hx He. unfold find_module.
  rewrite app_length.
  replace (S (List.length (unlines ls) + List.length (s2b "module" ++ ws ++ m ++ rest)))
    with (List.length (unlines ls) + S (List.length (s2b "module" ++ ws ++ m ++ rest))) by lia.
  rewrite (find_module_go_lines ls _ _ Hls).
  apply find_module_go_here; assumption.
Qed.

Theorem find_module_lf m :
  m <> [] -> forallb not_eol m = true ->
  match m with [] => True | x :: _ => is_re_space x = false end ->
  find_module (s2b "module " ++ m ++ [10%N]) = Some m.
Proof.
  intros Hm Hne Hx.
  apply (find_module_after_lines [] [32%N] m [10%N]); try reflexivity; try assumption. discriminate.
Qed.

Theorem find_module_crlf m :
  m <> [] -> forallb not_eol m = true ->
  match m with [] => True | x :: _ => is_re_space x = false end ->
  find_module (s2b "module " ++ m ++ [13%N; 10%N]) = Some m.
Proof.
  intros Hm Hne Hx.
  apply (find_module_after_lines [] [32%N] m [13%N; 10%N]); try reflexivity; try assumption. discriminate.
Qed.

Theorem find_module_comments ls m rest :
  forallb skip_line ls = true ->
  m <> [] -> forallb not_eol m = true ->
  match m with [] => True | x :: _ => is_re_space x = false end ->
  eol_ok rest = true ->
  find_module (unlines ls ++ s2b "module " ++ m ++ rest) = Some m.
Proof.
  intros Hls Hm Hne Hx He.
  apply (find_module_after_lines ls [32%N] m rest); try reflexivity; try assumption. discriminate.
Qed.

(* ====================================================================== *)
(* 1bis. the five cases of update_case are mutually exclusive               *)
(* ====================================================================== *)

Definition case_cond (n : nat) (goroot : bytes) (gopaths gomods : list (bytes * bytes)) (rsp : bytes) : Prop :=
  match n with
  | 0 => rsp = [] \/ (goroot_miss goroot rsp /\ gopaths_miss gopaths rsp /\ gomods_miss gomods rsp)
  | 1 => goroot <> [] /\ exists rel, rsp = goroot ++ s2b "/src/" ++ rel
  | 2 => rsp <> [] /\ goroot_miss goroot rsp /\
         exists prefix dest rel, In (prefix, dest) gopaths /\ gopath_longest gopaths rsp prefix /\
           rsp = prefix ++ s2b "/src/" ++ rel
  | 3 => rsp <> [] /\ goroot_miss goroot rsp /\
         exists prefix dest rel, In (prefix, dest) gopaths /\ gopath_longest gopaths rsp prefix /\
           rsp = prefix ++ s2b "/pkg/mod/" ++ rel
  | _ => rsp <> [] /\ goroot_miss goroot rsp /\ gopaths_miss gopaths rsp /\
         exists prefix pkg rel, In (prefix, pkg) gomods /\ rsp = prefix ++ s2b "/" ++ rel
  end.

Lemma app_eq_length_inv {A} (a c : list A) : forall b d,
  a ++ b = c ++ d -> List.length a = List.length c -> a = c /\ b = d.
Proof.
  revert c. induction a as [|x a IH]; intros [|y c] b d H HL; simpl in *; try discriminate HL.
  - split; [reflexivity|exact H].
  - injection H as -> H. injection HL as HL. destruct (IH c b d H HL) as [-> ->]. split; reflexivity.
Qed.

Theorem update_case_tag goroot localgoroot gopaths gomods c c' :
  update_case goroot localgoroot gopaths gomods c c' ->
  exists n, n <= 4 /\ case_cond n goroot gopaths gomods (RemoteSrcPath c) /\
    CLocation c' = match n with
                   | 0 => CLocation c
                   | 1 => classify c Stdlib
                   | 2 => classify c GOPATH
                   | 3 => classify c GoPkg
                   | _ => classify c GoMod
                   end.
Proof.
  intros [H Hc|rel Hg Hr _ _ _ HC _|prefix dest rel Hne Hg Hin Hl Hr _ _ _ HC _
          |prefix dest rel Hne Hg Hin Hl Hr _ _ _ HC _|prefix pkg rel Hne Hg Hp Hin Hl Hr _ _ _ HC _].
  - exists 0. split; [lia|]. split; [exact Hc|rewrite H; reflexivity].
  - exists 1. split; [lia|]. split; [|exact HC]. split; [exact Hg|exists rel; exact Hr].
  - exists 2. split; [lia|]. split; [|exact HC]. split; [exact Hne|]. split; [exact Hg|].
    exists prefix, dest, rel. split; [exact Hin|]. split; [exact Hl|exact Hr].
  - exists 3. split; [lia|]. split; [|exact HC]. split; [exact Hne|]. split; [exact Hg|].
    exists prefix, dest, rel. split; [exact Hin|]. split; [exact Hl|exact Hr].
  - exists 4. split; [lia|]. split; [|exact HC]. split; [exact Hne|]. split; [exact Hg|]. split; [exact Hp|].
    exists prefix, pkg, rel. split; [exact Hin|exact Hr].
Qed.

Lemma case_cond_lt goroot gopaths gomods rsp i j :
  i < j -> j <= 4 -> case_cond i goroot gopaths gomods rsp -> case_cond j goroot gopaths gomods rsp -> False.
Proof.
  intros Hij Hj Hi Hjc.
  destruct i as [|[|[|[|i]]]]; [| | | |lia].
  - (* 0 against a hit *)
    destruct Hi as [He|(Mg & Mp & Mm)].
    + destruct j as [|[|[|[|j]]]]; [lia| | | |].
      * destruct Hjc as [Hg [rel Hr]]. rewrite He in Hr. destruct goroot; [contradiction|discriminate Hr].
      * destruct Hjc as [Hne _]. contradiction.
      * destruct Hjc as [Hne _]. contradiction.
      * destruct Hjc as [Hne _]. contradiction.
    + destruct j as [|[|[|[|j]]]]; [lia| | | |].
      * destruct Hjc as [Hg [rel Hr]]. destruct Mg as [Mg|Mg]; [contradiction|apply (Mg rel Hr)].
      * destruct Hjc as (_ & _ & prefix & dest & rel & Hin & _ & Hr). apply (proj1 (Mp prefix dest Hin) rel Hr).
      * destruct Hjc as (_ & _ & prefix & dest & rel & Hin & _ & Hr). apply (proj2 (Mp prefix dest Hin) rel Hr).
      * destruct Hjc as (_ & _ & _ & prefix & pkg & rel & Hin & Hr). apply (Mm prefix pkg Hin rel Hr).
  - (* 1 against 2, 3, 4: goroot_miss *)
    destruct Hi as [Hg [rel Hr]].
    assert (Mg : goroot_miss goroot rsp).
    { destruct j as [|[|[|[|j]]]]; [lia|lia| | |]; destruct Hjc as (_ & Mg & _); exact Mg. }
    destruct Mg as [Mg|Mg]; [contradiction|apply (Mg rel Hr)].
  - (* 2 against 3, 4 *)
    destruct Hi as (_ & _ & p1 & d1 & r1 & Hin1 & Hl1 & Hr1).
    destruct j as [|[|[|[|j]]]]; [lia|lia|lia| |].
    + destruct Hjc as (_ & _ & p2 & d2 & r2 & Hin2 & Hl2 & Hr2).
      assert (L1 : List.length p2 <= List.length p1).
      { apply (Hl1 p2 d2 Hin2). right. exists r2. rewrite <- app_assoc. exact Hr2. }
      assert (L2 : List.length p1 <= List.length p2).
      { apply (Hl2 p1 d1 Hin1). left. exists r1. rewrite <- app_assoc. exact Hr1. }
      rewrite Hr1 in Hr2. apply app_eq_length_inv in Hr2 as [_ Hr2]; [|lia]. discriminate Hr2.
    + destruct Hjc as (_ & _ & Mp & _). apply (proj1 (Mp p1 d1 Hin1) r1 Hr1).
  - (* 3 against 4 *)
    destruct Hi as (_ & _ & p1 & d1 & r1 & Hin1 & Hl1 & Hr1).
    destruct j as [|[|[|[|j]]]]; [lia|lia|lia|lia|].
    destruct Hjc as (_ & _ & Mp & _). apply (proj2 (Mp p1 d1 Hin1) r1 Hr1).
Qed.

Theorem case_cond_exclusive goroot gopaths gomods rsp i j :
  i <= 4 -> j <= 4 ->
  case_cond i goroot gopaths gomods rsp -> case_cond j goroot gopaths gomods rsp -> i = j.
Proof.
  intros Hi Hj Ci Cj.
  destruct (Nat.lt_trichotomy i j) as [H|[H|H]]; [|exact H|].
  - exfalso. apply (case_cond_lt goroot gopaths gomods rsp i j H Hj Ci Cj).
  - exfalso. apply (case_cond_lt goroot gopaths gomods rsp j i H Hi Cj Ci).
Qed.
