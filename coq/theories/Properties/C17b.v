(* Properties/C17b.v — the HTML DOCUMENT (content region) is injection-safe and
   complete.  Statements only; proofs in Proofs/HtmlDocProofs.v, over the
   byte-exact model Model/HtmlDoc.v of the region
       <div id="content"> ... </div>
   of stack/goroutines.tpl (as embedded, indentation stripped, in stack/data.go),
   rendered by Aggregated.ToHTML (render_content_buckets) and Snapshot.ToHTML
   (render_content_goroutines).  C17.v covers the values and the escapers; this
   file covers where they are placed.

   The model produces a list of pieces
       Lit s (template text) | Text d | Href u | Class c | Num z   (holes)
   and render_content_* = flat_map flatten_piece (content_pieces_* ...), where
   flatten_piece sends Text/Class through html_escape, Href through href_attr
   (= html_escape after url_normalize) and prints Num in decimal.  The model was
   compared byte for byte with Go 1.23.5 on 162 samples (/tmp/htmldoc).

   Vocabulary (Proofs/HtmlDocProofs.v, no axioms):
     is_lit p           p is a Lit piece
     delim c            c is one of  <  >  double quote  single quote  (60 62 34 39)
     piece_at ps i      the piece producing byte offset i of the flattened list, with the
                        offset inside that piece (characterised by C17_piece_at_split)
     lit_bytes ps       concatenation of the Lit pieces (the template text alone)
     count_sub pat s    number of positions of s where pat starts
     lit_count pat ps   occurrences of pat inside the Lit pieces of ps
     shape_piece p      p with the payload of Text / Href / Class erased (Lit and Num kept)
     same_shape         see section 3

   Findings:
   - every hole is html-escaped or URL-normalised + html-escaped by construction, hence all
     tag and attribute delimiters of the region come from the template (C17_holes_escaped);
   - the row for an elided stack is  <tr><td>(...)</td><tr> : the template closes it with
     a second <tr> instead of </tr>, hence TWO <tr> literals per elided stack (C17_complete_doc);
   - only the first call of CreatedBy is rendered;
   - the skeleton does not depend on Location, IsExported, IsPkgMain, nor on whether the
     arguments come from .Processed or .Values (only on their number), nor on the Go version;
     these only reach hole payloads (C17_skeleton_shape_only, C17_skeleton_ver_irrelevant);
   - found while validating (Model/Html.v, not this model): [symbol] rewrites the method form (star T).M also
     when M contains a line feed, Go's reMethodSymbol does not ('.' excludes LF); unreachable
     from a parsed dump since a function name never contains a line feed. *)
From PP Require Import Base.Bytes Base.BytesX Base.Num Base.GoResult Model.Types Model.Html Model.UI Model.HtmlDoc.
From PP Require Import Proofs.HtmlBase Proofs.HtmlProofs Proofs.HtmlDocProofs.

(* ------------------------------------------------------------------ *)
(* 1. C17_holes_escaped                                                *)
(* ------------------------------------------------------------------ *)
(* the bytes contributed by a hole contain no tag / attribute delimiter *)
Theorem C17_hole_safe : forall p, is_lit p = false -> forall c, In c (flatten_piece p) ->
  c <> 60%N /\ c <> 62%N /\ c <> 34%N /\ c <> 39%N.
Proof. exact HtmlDocProofs.hole_safe. Qed.
Print Assumptions C17_hole_safe.

(* piece_at is the inverse of flattening *)
Theorem C17_piece_at_spec : forall ps i c, nth_error (flatten_pieces ps) i = Some c ->
  exists p k, piece_at ps i = Some (p, k) /\ nth_error (flatten_piece p) k = Some c.
Proof. exact HtmlDocProofs.piece_at_spec. Qed.
Print Assumptions C17_piece_at_spec.

Theorem C17_piece_at_split : forall ps i p k, piece_at ps i = Some (p, k) ->
  exists pre post, ps = pre ++ p :: post /\ i = (List.length (flatten_pieces pre) + k)%nat /\
                   (k < List.length (flatten_piece p))%nat.
Proof. exact HtmlDocProofs.piece_at_split. Qed.
Print Assumptions C17_piece_at_split.

(* every <, >, double quote and single quote of the rendered region is a byte of the template itself *)
Theorem C17_holes_escaped : forall ver bs i c,
  nth_error (render_content_buckets ver bs) i = Some c -> delim c = true ->
  exists s k, piece_at (content_pieces_buckets ver bs) i = Some (Lit s, k) /\ nth_error s k = Some c.
Proof. exact HtmlDocProofs.holes_escaped_buckets. Qed.
Print Assumptions C17_holes_escaped.

Theorem C17_holes_escaped_goroutines : forall ver gs i c,
  nth_error (render_content_goroutines ver gs) i = Some c -> delim c = true ->
  exists s k, piece_at (content_pieces_goroutines ver gs) i = Some (Lit s, k) /\ nth_error s k = Some c.
Proof. exact HtmlDocProofs.holes_escaped_goroutines. Qed.
Print Assumptions C17_holes_escaped_goroutines.

(* counting formulation: as many delimiters in the output as in the template text *)
Theorem C17_delim_count : forall ver bs c, delim c = true ->
  count_byte (render_content_buckets ver bs) c = count_byte (lit_bytes (content_pieces_buckets ver bs)) c.
Proof. exact HtmlDocProofs.delim_count_buckets. Qed.
Print Assumptions C17_delim_count.

Theorem C17_delim_count_goroutines : forall ver gs c, delim c = true ->
  count_byte (render_content_goroutines ver gs) c = count_byte (lit_bytes (content_pieces_goroutines ver gs)) c.
Proof. exact HtmlDocProofs.delim_count_goroutines. Qed.
Print Assumptions C17_delim_count_goroutines.

(* ------------------------------------------------------------------ *)
(* 2. C17_complete_doc                                                 *)
(* ------------------------------------------------------------------ *)
(* one <h1> per bucket; one <tr> per call of the stacks, two per elided stack
   (total_calls sigs  = length (flat_map (fun s => Calls (SStack s)) sigs),
    elided_stacks sigs = length (filter (fun s => SElided (SStack s)) sigs)) *)
Theorem C17_complete_doc : forall ver bs,
  lit_count tag_h1 (content_pieces_buckets ver bs) = List.length bs /\
  lit_count tag_tr (content_pieces_buckets ver bs) =
    (total_calls (map BSig bs) + 2 * elided_stacks (map BSig bs))%nat.
Proof. exact HtmlDocProofs.complete_doc_buckets. Qed.
Print Assumptions C17_complete_doc.

Theorem C17_complete_doc_goroutines : forall ver gs,
  lit_count tag_h1 (content_pieces_goroutines ver gs) = List.length gs /\
  lit_count tag_tr (content_pieces_goroutines ver gs) =
    (total_calls (map GSig gs) + 2 * elided_stacks (map GSig gs))%nat.
Proof. exact HtmlDocProofs.complete_doc_goroutines. Qed.
Print Assumptions C17_complete_doc_goroutines.

(* ------------------------------------------------------------------ *)
(* 3. C17_skeleton_shape_only                                          *)
(* ------------------------------------------------------------------ *)
(* same_shape bs1 bs2 := Forall2 same_shape_bucket bs1 bs2, where
     same_shape_bucket b1 b2 := length (IDs b1) = length (IDs b2) /\ same_shape_sig (BSig b1) (BSig b2)
     same_shape_sig s1 s2    := SleepMin, SleepMax, Locked equal /\
                                same_shape_creator (CreatedBy s1) (CreatedBy s2) /\
                                same_shape_stack (SStack s1) (SStack s2)
     same_shape_creator      := both call lists empty, or both non-empty with first calls c1 c2 such that
                                two_paths c1 = two_paths c2 /\ Line c1 = Line c2
     same_shape_stack        := SElided equal /\ Forall2 same_shape_call on the calls
     same_shape_call c1 c2   := two_paths c1 = two_paths c2 /\ Line c1 = Line c2 /\
                                same_shape_args (CArgs c1) (CArgs c2)
     same_shape_args a1 a2   := Elided a1 = Elided a2 /\ length (args_items a1) = length (args_items a2)
     two_paths c             := LocalSrcPath c non-empty && RemoteSrcPath c <> LocalSrcPath c
     args_items a            := Processed a if non-empty, else map arg_string (Values a)
   All the other strings are arbitrary, and so are Location, IsExported, IsPkgMain, IsPtr, ... *)
Theorem C17_skeleton_shape_only : forall ver bs1 bs2, same_shape bs1 bs2 ->
  map shape_piece (content_pieces_buckets ver bs1) = map shape_piece (content_pieces_buckets ver bs2).
Proof. exact HtmlDocProofs.skeleton_shape_only. Qed.
Print Assumptions C17_skeleton_shape_only.

(* same_shape_goroutine g1 g2 := ID g1 = ID g2 /\ (RaceAddr g1 =? 0) = (RaceAddr g2 =? 0) /\
                                 (RaceAddr g1 <> 0 -> RaceWrite g1 = RaceWrite g2) /\
                                 same_shape_sig (GSig g1) (GSig g2) *)
Theorem C17_skeleton_shape_only_goroutines : forall ver gs1 gs2, same_shape_goroutines gs1 gs2 ->
  map shape_piece (content_pieces_goroutines ver gs1) = map shape_piece (content_pieces_goroutines ver gs2).
Proof. exact HtmlDocProofs.skeleton_shape_only_goroutines. Qed.
Print Assumptions C17_skeleton_shape_only_goroutines.

Theorem C17_skeleton_ver_irrelevant : forall ver1 ver2 bs,
  map shape_piece (content_pieces_buckets ver1 bs) = map shape_piece (content_pieces_buckets ver2 bs).
Proof. exact HtmlDocProofs.skeleton_ver_irrelevant. Qed.
Print Assumptions C17_skeleton_ver_irrelevant.

Theorem C17_same_shape_refl : forall bs, same_shape bs bs.
Proof. exact HtmlDocProofs.same_shape_refl. Qed.
Print Assumptions C17_same_shape_refl.

(* ------------------------------------------------------------------ *)
(* Examples (both also checked against Go: samples ex_small, ex_hostile) *)
(* ------------------------------------------------------------------ *)
Definition ex_small : list Bucket :=
  [mkBucket
     (mkSig (s2b "chan receive") emptyStack 2 3
        (mkStack
           [mkCall (mkFunc (s2b "main.main") (s2b "main") (s2b "main") (s2b "main") false true)
                   (mkArgs [MkArg false [] 1 false false false [] [] false;
                            MkArg false [] 824633786368 true false false [] [] false] [] false)
                   (s2b "/src/main.go") 7 (s2b "main.go") (s2b "src/main.go") [] [] (s2b "main") LocationUnknown]
           false)
        false)
     [4%Z; 9%Z] false].

Example C17_example_small : forall ver,
  render_content_buckets ver ex_small =
  lines ["<div id=""content"">";
         "<h1>Signature #0: 2 routines: <span class=""state"">chan receive</span> <span class=""sleep"">[2~3 mins]</span></h1>";
         "<table class=""stack""><tr>";
         "<td>0</td>";
         "<td>";
         "<a href=""https://godoc.org/main"">main</a>";
         "</td>";
         "<td class=""hastooltip"">";
         "<span class=""tooltip"">SrcPath: /src/main.go<br>Func: main.main";
         "<br>Location: LocationUnknown";
         "</span>";
         "<a href=""file:////src/main.go"">main.go:7</a>";
         "</td>";
         "<td>";
         "<span class=""FuncMain Exported""><a href=""https://godoc.org/main"">main</a></span>(<span class=""args""><span>1, 0xc000010000</span></span>)";
         "</td>";
         "</tr></table></div>"]%string.
Proof. intros ver. vm_compute. reflexivity. Qed.

(* every string is hostile; Processed argument, elided arguments, elided stack, locked *)
Definition ex_hostile : list Bucket :=
  [mkBucket
     (mkSig (s2b "<script>alert(1)</script>") emptyStack 0 0
        (mkStack
           [mkCall (mkFunc (s2b "x.F") (s2b "x") (s2b "<i>") (s2b """><img src=x onerror=alert(1)>") true false)
                   (mkArgs [] [s2b "<u>"] true)
                   (s2b "/tmp/'""><svg onload=1>") 1 (s2b "<b>""x""&'y'") [] [] [] (s2b "x""><y") GoMod]
           true)
        true)
     [1%Z] false].

Example C17_example_hostile : forall ver,
  render_content_buckets ver ex_hostile =
  lines ["<div id=""content"">";
         "<h1>Signature #0: 1 routine: <span class=""state"">&lt;script&gt;alert(1)&lt;/script&gt;</span></h1>";
         " <span class=""locked"">[locked]</span><table class=""stack""><tr>";
         "<td>0</td>";
         "<td>";
         "<a href=""https://godoc.org/x%22%3E%3Cy#%22%3E%3Cimg&#43;src%3Dx&#43;onerror%3Dalert%281%29%3E"">&lt;i&gt;</a>";
         "</td>";
         "<td class=""hastooltip"">";
         "<span class=""tooltip"">SrcPath: /tmp/&#39;&#34;&gt;&lt;svg onload=1&gt;<br>Func: x.F";
         "<br>Location: GoMod";
         "</span>";
         "<a href=""file:////tmp/%27%22%3E%3Csvg%20onload=1%3E"">&lt;b&gt;&#34;x&#34;&amp;&#39;y&#39;:1</a>";
         "</td>";
         "<td>";
         "<span class=""FuncGoMod Exported""><a href=""https://godoc.org/x%22%3E%3Cy#%22%3E%3Cimg&#43;src%3Dx&#43;onerror%3Dalert%281%29%3E"">&#34;&gt;&lt;img src=x onerror=alert(1)&gt;</a></span>(<span class=""args""><span>&lt;u&gt;, "]%string
  ++ ellipsis ++
  lines ["</span></span>)";
         "</td>";
         "</tr><tr><td>("]%string
  ++ ellipsis ++ s2b ")</td><tr></table></div>".
Proof. intros ver. vm_compute. reflexivity. Qed.

(* the hostile bucket and a harmless one of the same shape have the same skeleton *)
Definition ex_harmless : list Bucket :=
  [mkBucket
     (mkSig (s2b "running") emptyStack 0 0
        (mkStack
           [mkCall (mkFunc (s2b "a.b") (s2b "a") (s2b "a") (s2b "b") false true)
                   (mkArgs [MkArg false [] 5 false false false [] [] false] [] true)
                   [] 1 [] [] [] [] [] Stdlib]
           true)
        true)
     [77%Z] true].

Example C17_example_same_shape : same_shape ex_hostile ex_harmless.
Proof. repeat constructor. Qed.

Example C17_example_skeleton : forall ver,
  map shape_piece (content_pieces_buckets ver ex_hostile) = map shape_piece (content_pieces_buckets ver ex_harmless).
Proof. intros ver. apply C17_skeleton_shape_only. exact C17_example_same_shape. Qed.

(* 1 <h1>, 1 call + 2 for the elided stack = 3 <tr>;  delimiters of the output = those of the template *)
Example C17_example_counts : forall ver,
  lit_count tag_h1 (content_pieces_buckets ver ex_hostile) = 1%nat /\
  lit_count tag_tr (content_pieces_buckets ver ex_hostile) = 3%nat /\
  count_byte (render_content_buckets ver ex_hostile) 60 = count_byte (lit_bytes (content_pieces_buckets ver ex_hostile)) 60 /\
  count_byte (render_content_buckets ver ex_hostile) 60 = 40%nat.
Proof. intros ver. vm_compute. repeat split. Qed.
